/-
`finalize_templates` in the registry model never panics and never runs out of fuel when its
iteration orders enumerate registered names (part of P4 of Props/Pipeline.lean).  Every `.panic`
of Model/Finalize.lean / Model/Registry.lean is an indexing `templates[name]`, `tpl_parents[name]`,
`tpl_blocks.get_mut(name).unwrap()`, `tpl_size_hint.remove(name).unwrap()` … with a name that is
registered; the two fuels are those of `find_parents` and `check_include_cycles`
(`C11.findParents_total`, `C11.includeDFS_total`).
-/
import TeraModel.Props.C11
import TeraModel.Lemmas.RegistryAccept
namespace Tera.Reg

/-- an error that is a value of the engine (`Err(..)`), not a panic or an exhausted fuel -/
def Err.isValue (e : Err) : Prop := e ≠ .panic ∧ e ≠ .outOfFuel

/-! ### first loop -/

theorem findParentsAux_registered (ps : List String) (S : List Tpl) (start : String) :
    ∀ (fuel : Nat) (t : Tpl) (acc r : List String), (∀ x ∈ acc, has S x = true) →
      findParentsAux ps S start fuel t acc = .ok r → ∀ x ∈ r, has S x = true := by
  intro fuel
  induction fuel with
  | zero => intro t acc r _ h; simp [findParentsAux] at h
  | succ f ih =>
    intro t acc r hacc h
    unfold findParentsAux at h
    cases hp : t.parent with
    | none =>
      simp only [hp] at h
      cases h
      intro x hx
      exact hacc x (List.mem_reverse.mp hx)
    | some p =>
      simp only [hp] at h
      cases hr : resolve ps S p with
      | none => simp [hr] at h
      | some r' =>
        simp only [hr] at h
        split at h
        · cases h
        · cases hg : get S r' with
          | none => simp [hg] at h
          | some pt =>
            simp only [hg] at h
            apply ih pt (acc ++ [pt.name]) r _ h
            intro x hx
            rcases List.mem_append.mp hx with hx | hx
            · exact hacc x hx
            · simp only [List.mem_singleton] at hx
              subst hx
              rw [get_name hg]
              exact has_iff_get.mpr ⟨pt, hg⟩

theorem findParents_registered {ps : List String} {S : List Tpl} {t : Tpl} {r : List String}
    (h : findParents ps S t = .ok r) : ∀ x ∈ r, has S x = true :=
  findParentsAux_registered ps S t.name _ t [] r (by simp) h

theorem sumSrcLen_some (S : List Tpl) : ∀ (l : List String), (∀ x ∈ l, has S x = true) →
    ∃ n, sumSrcLen S l = some n := by
  intro l
  induction l with
  | nil => intro _; exact ⟨0, rfl⟩
  | cons p rest ih =>
    intro h
    obtain ⟨t, ht⟩ := has_iff_get.mp (h p List.mem_cons_self)
    obtain ⟨n, hn⟩ := ih (fun x hx => h x (List.mem_cons_of_mem _ hx))
    exact ⟨t.srcLen + n, by simp [sumSrcLen, ht, hn]⟩

theorem loop1Step_value {ps : List String} {S : List Tpl} {acc : Loop1} {n : String} {e : Err}
    (hn : has S n = true) (h : loop1Step ps S acc n = .error e) : e.isValue := by
  obtain ⟨t, hg⟩ := has_iff_get.mp hn
  have hT : get S t.name = some t := by rw [get_name hg]; exact hg
  have hfp := C11.findParents_total ps S t hT
  have hdfs := C11.includeDFS_total ps S t hT
  unfold loop1Step at h
  simp only [hg] at h
  cases hf : findParents ps S t with
  | missingParent a b => simp only [hf] at h; cases h; exact ⟨by simp, by simp⟩
  | circular ch => simp only [hf] at h; cases h; exact ⟨by simp, by simp⟩
  | outOfFuel => exact absurd hf hfp.1
  | panic => exact absurd hf hfp.2
  | ok p =>
    simp only [hf] at h
    cases hc : checkIncludeCycles ps S t with
    | cycle ch => simp only [hc] at h; cases h; exact ⟨by simp, by simp⟩
    | outOfFuel => exact absurd hc hdfs.1
    | panic => exact absurd hc hdfs.2
    | ok v =>
      simp only [hc] at h
      cases hl : compLoop t.name (priority ps t.name) acc.comps (t.comps.map (·.name)) with
      | error e' =>
        simp only [hl] at h
        cases h
        rw [compLoop_error _ _ _ hl]
        exact ⟨by simp, by simp⟩
      | ok comps =>
        simp only [hl] at h
        obtain ⟨sz, hsz⟩ := sumSrcLen_some S p (findParents_registered hf)
        simp [hsz] at h

theorem loop1_value {ps : List String} {S : List Tpl} {e : Err}
    (h : loop1 ps S {} (sortDedup (keys S)) = .error e) : e.isValue := by
  obtain ⟨n, hn, acc', hs⟩ := loop1_error ps S _ _ _ h
  exact loop1Step_value (mem_keys_has ((mem_sortDedup _ _).mp hn)) hs

/-! ### second loop -/

theorem walkUp_value (ps : List String) (S : List Tpl) (b : String) :
    ∀ (cs : List String) (e : Err), walkUp ps S b cs = .error e → e = .templateNotFound := by
  intro cs
  induction cs with
  | nil => intro e h; simp [walkUp] at h
  | cons c rest ih =>
    intro e h
    unfold walkUp at h
    cases hr : resolve ps S c with
    | none => simp only [hr] at h; cases h; rfl
    | some r =>
      simp only [hr] at h
      obtain ⟨pt, hg⟩ := has_iff_get.mp (resolve_has hr)
      simp only [hg] at h
      cases hb : pt.findBlock b with
      | none => simp only [hb] at h; exact ih e h
      | some pb =>
        simp only [hb] at h
        by_cases hs : pb.callsSuper = true
        · simp only [hs, if_true] at h
          cases hw : walkUp ps S b rest with
          | ok l => simp [hw] at h
          | error e' => simp only [hw] at h; cases h; exact ih _ hw
        · have : pb.callsSuper = false := by simpa using hs
          simp [this] at h

theorem ownBlocks_value (ps : List String) (S : List Tpl) (parents : List String) (t : Tpl) :
    ∀ (bs : List BlockDef) (e : Err), ownBlocks ps S parents t bs = .error e → e = .templateNotFound := by
  intro bs
  induction bs with
  | nil => intro e h; simp [ownBlocks] at h
  | cons d bs ih =>
    intro e h
    unfold ownBlocks at h
    cases ho : ownLineage ps S parents t d with
    | error e' =>
      simp only [ho] at h
      cases h
      unfold ownLineage at ho
      by_cases hs : d.callsSuper = true
      · simp only [hs, if_true] at ho
        cases hw : walkUp ps S d.name parents.reverse with
        | ok l => simp [hw] at ho
        | error e'' => simp only [hw] at ho; cases ho; exact walkUp_value ps S _ _ _ hw
      · have : d.callsSuper = false := by simpa using hs
        simp [this] at ho
    | ok l =>
      cases hr : ownBlocks ps S parents t bs with
      | ok m => simp [ho, hr] at h
      | error e' => simp only [ho, hr] at h; cases h; exact ih _ hr

theorem loop2_value (ps : List String) (S : List Tpl) (l1 : Loop1)
    (hP : ∀ k, has S k = true → (lookupParents l1.parents k).isSome = true) :
    ∀ (o2 : List String) (e : Err), (∀ k ∈ o2, has S k = true) →
      loop2 ps S l1 o2 = .error e → e = .templateNotFound := by
  intro o2
  induction o2 with
  | nil => intro e _ h; simp [loop2] at h
  | cons name rest ih =>
    intro e ho h
    have hn := ho name List.mem_cons_self
    obtain ⟨tpl, hg⟩ := has_iff_get.mp hn
    obtain ⟨parents, hp⟩ := Option.isSome_iff_exists.mp (hP name hn)
    unfold loop2 at h
    simp only [hg, hp] at h
    cases hob : ownBlocks ps S parents tpl tpl.blocks with
    | error e' => simp only [hob] at h; cases h; exact ownBlocks_value ps S _ _ _ _ hob
    | ok m =>
      simp only [hob] at h
      cases hr : loop2 ps S l1 rest with
      | error e' =>
        simp only [hr] at h; cases h
        exact ih _ (fun k hk => ho k (List.mem_cons_of_mem _ hk)) hr
      | ok r => obtain ⟨a, b⟩ := r; simp [hr] at h

/-! ### the whole derivation -/

/-- **`derive` answers derived data or an error value** when `o2`, `o3` list registered names
and `o3 ⊆ o2` (in the engine both enumerate the key set of the same map). -/
theorem derive_value {ps : List String} {S : List Tpl} {o2 o3 : List String} {e : Err}
    (ho2 : ∀ k ∈ o2, has S k = true) (ho3 : ∀ k ∈ o3, k ∈ o2)
    (h : derive ps S o2 o3 = .error e) : e.isValue := by
  unfold derive at h
  cases h1 : loop1 ps S {} (sortDedup (keys S)) with
  | error e' => simp only [h1] at h; cases h; exact loop1_value h1
  | ok l1 =>
    simp only [h1] at h
    have hPT := parentsTable_of_loop1 h1
    have hP : ∀ k, has S k = true → (lookupParents l1.parents k).isSome = true := by
      intro k hk
      obtain ⟨_, p, _, hp, _⟩ := hPT k hk
      simp [hp]
    cases h2 : loop2 ps S l1 o2 with
    | error e' =>
      simp only [h2] at h; cases h
      rw [loop2_value ps S l1 hP o2 _ ho2 h2]
      exact ⟨by simp, by simp⟩
    | ok r =>
      obtain ⟨tb, bad⟩ := r
      simp only [h2] at h
      obtain ⟨l2a, _⟩ := loop2_ok ps S l1 o2 tb bad h2
      obtain ⟨tb', h3⟩ := pass2_succeeds l1.parents o3 tb (fun name hn => by
        obtain ⟨_, _, m, _, _, _, hm⟩ := l2a name (ho3 name hn)
        exact ⟨hP name (ho2 name (ho3 name hn)), by simp [hm]⟩)
      simp only [h3] at h
      cases hb : bad with
      | true => simp only [hb, if_true] at h; cases h; exact ⟨by simp, by simp⟩
      | false => simp [hb] at h

/-- `finalize_templates` with the key list of the map as both iteration orders -/
theorem finalize_value (st : State) {e : Err}
    (h : finalize st (st.templates.map (·.tpl.name)) (st.templates.map (·.tpl.name)) = .error e) :
    e.isValue := by
  unfold finalize at h
  have hkeys : ∀ k ∈ st.templates.map (·.tpl.name), has (st.templates.map (·.tpl)) k = true := by
    intro k hk
    rw [eget_isSome_has]
    exact mem_names_eget hk
  cases hd : derive st.prefixes (st.templates.map (·.tpl)) (st.templates.map (·.tpl.name))
      (st.templates.map (·.tpl.name)) with
  | error e' =>
    simp only [hd] at h; cases h
    exact derive_value hkeys (fun k hk => hk) hd
  | ok d =>
    simp only [hd] at h
    obtain ⟨ts', hts⟩ := commitAll_succeeds hd
      (fun k hk => by rw [eget_isSome_has] at hk; exact eget_mem_names hk)
      (fun k hk => hk) st.suffixes st.templates
      (fun e he => by
        rw [eget_isSome_has]
        exact mem_names_eget (List.mem_map.mpr ⟨e, he, rfl⟩))
    simp [hts] at h

/-- **`add_raw_templates` of a batch that parsed**: the new state, or an error value -/
theorem addBatch_value (st : State) (items : List Item) (hgood : ∀ it ∈ items, ∃ t, it = .good t)
    {e : Err} (h : (addBatch st items id id).2 = some e) : e.isValue := by
  have hg := insertBatch_good items st.templates [] hgood
  rcases hib : insertBatch st.templates [] items with ⟨ts, log, ok⟩
  rw [hib] at hg
  simp only at hg
  subst hg
  have hadd : addBatch st items id id =
      match finalize { st with templates := ts } (id (ts.map (·.tpl.name))) (id (ts.map (·.tpl.name))) with
      | .ok st' => (st', none)
      | .error e => ({ st with templates := undo ts log }, some e) := by
    unfold addBatch; rw [hib]; rfl
  rw [hadd] at h
  cases hf : finalize { st with templates := ts } (id (ts.map (·.tpl.name))) (id (ts.map (·.tpl.name))) with
  | ok st' => rw [hf] at h; cases h
  | error e' =>
    rw [hf] at h
    simp only [Option.some.injEq] at h
    subst h
    exact finalize_value { st with templates := ts } hf

end Tera.Reg
