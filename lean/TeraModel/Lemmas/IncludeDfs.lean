/-
`check_include_cycles` (Model/Finalize.lean: `walk`, `walkNames`) against the graph specification
(Spec/TplGraph.lean): the depth-first walk with a stack (grey nodes) and a visited set (black
nodes) accepts exactly when no include cycle can be reached from the start.
-/
import TeraModel.Spec.TplGraph
import TeraModel.Lemmas.Lineage
namespace Tera.Reg

variable {E : String → String → Prop}

theorem Reach.refl (a : String) : Reach E a a := ⟨[], .nil a⟩

theorem Reach.tail {a b c : String} (h : Reach E a b) (e : E b c) : Reach E a c := by
  obtain ⟨cs, w⟩ := h
  exact ⟨cs ++ [c], w.snoc e⟩

theorem Reach.head {a b c : String} (e : E a b) (h : Reach E b c) : Reach E a c := by
  obtain ⟨cs, w⟩ := h
  exact ⟨b :: cs, .cons e w⟩

/-- black nodes: every edge from the set stays in the set -/
def Closed (E : String → String → Prop) (B : List String) : Prop := ∀ b ∈ B, ∀ c, E b c → c ∈ B

/-- no member lies on a cycle -/
def NoCyc (E : String → String → Prop) (B : List String) : Prop := ∀ b ∈ B, ¬ OnCycle E b

theorem closed_walk {B : List String} (hc : Closed E B) {b c : String} {cs : List String}
    (w : Walk E b cs c) (hb : b ∈ B) : c ∈ B := by
  induction w with
  | nil a => exact hb
  | cons e _ ih => exact ih (hc _ hb _ e)

theorem closed_reach {B : List String} (hc : Closed E B) {b c : String} (hb : b ∈ B)
    (h : Reach E b c) : c ∈ B := by
  obtain ⟨cs, w⟩ := h
  exact closed_walk hc w hb

/-- what holds when `walk` is entered for the node `cur` (last of the stack) -/
structure WalkPre (ps : List String) (S : List Tpl) (start cur : String) (stack B : List String) : Prop where
  cur_mem : cur ∈ stack
  reach : ∀ x ∈ stack, Reach (IncEdge ps S) start x ∧ Reach (IncEdge ps S) x cur
  nodup : stack.Nodup
  sub : ∀ x ∈ stack, x ∈ keys S
  closed : Closed (IncEdge ps S) B
  nocyc : NoCyc (IncEdge ps S) B
  disj : ∀ x ∈ B, x ∉ stack

/-- what each result of the walk over `names` means -/
def WalkPost (ps : List String) (S : List Tpl) (start : String) (stack B names : List String) : DfsRes → Prop
  | .ok B' => Closed (IncEdge ps S) B' ∧ NoCyc (IncEdge ps S) B' ∧ (∀ x ∈ B', x ∉ stack) ∧
      (∀ x ∈ B, x ∈ B') ∧ ∀ n ∈ names, ∀ r, resolve ps S n = some r → r ∈ B'
  | .cycle _ => CycleReachable (IncEdge ps S) start
  | .outOfFuel => False
  | .panic => False

/-- hypothesis on the recursive call -/
def RecOK (ps : List String) (S : List Tpl) (start : String) (len : Nat)
    (rec : Tpl → List String → List String → DfsRes) : Prop :=
  ∀ (t : Tpl) (cur : String) (stack B : List String), get S cur = some t → WalkPre ps S start cur stack B →
    stack.length = len → WalkPost ps S start stack B t.includeCalls (rec t stack B)

theorem walkNames_post (ps : List String) (S : List Tpl) (start : String)
    (rec : Tpl → List String → List String → DfsRes) (cur : String) (tcur : Tpl) (stack : List String)
    (hcur : get S cur = some tcur) (hrec : RecOK ps S start (stack.length + 1) rec) :
    ∀ (names B : List String), (∀ n ∈ names, n ∈ tcur.includeCalls) → WalkPre ps S start cur stack B →
      WalkPost ps S start stack B names (walkNames ps S rec names stack B) := by
  intro names
  induction names with
  | nil =>
    intro B _ pre
    simp only [walkNames, WalkPost]
    exact ⟨pre.closed, pre.nocyc, pre.disj, fun x hx => hx, by simp⟩
  | cons n ns ih =>
    intro B hsub pre
    have hsub' : ∀ m ∈ ns, m ∈ tcur.includeCalls := fun m hm => hsub m (by simp [hm])
    unfold walkNames
    cases hr : resolve ps S n with
    | none =>
      simp only
      have := ih B hsub' pre
      revert this
      cases walkNames ps S rec ns stack B with
      | ok B' =>
        simp only [WalkPost]
        rintro ⟨a, b, c, d, e⟩
        refine ⟨a, b, c, d, ?_⟩
        intro m hm r hmr
        rcases List.mem_cons.mp hm with h1 | h1
        · rw [h1, hr] at hmr; cases hmr
        · exact e m h1 r hmr
      | cycle ch => exact id
      | outOfFuel => exact id
      | panic => exact id
    | some r =>
      simp only
      have hedge : IncEdge ps S cur r := ⟨tcur, n, hcur, hsub n (by simp), hr⟩
      by_cases hst : r ∈ stack
      · simp only [hst, if_true, WalkPost]
        exact ⟨cur, (pre.reach cur pre.cur_mem).1, r, hedge, (pre.reach r hst).2⟩
      · simp only [hst, if_false]
        by_cases hB : r ∈ B
        · simp only [hB, if_true]
          have := ih B hsub' pre
          revert this
          cases walkNames ps S rec ns stack B with
          | ok B' =>
            simp only [WalkPost]
            rintro ⟨a, b, c, d, e⟩
            refine ⟨a, b, c, d, ?_⟩
            intro m hm r' hmr
            rcases List.mem_cons.mp hm with h1 | h1
            · rw [h1, hr] at hmr; cases hmr; exact d r hB
            · exact e m h1 r' hmr
          | cycle ch => exact id
          | outOfFuel => exact id
          | panic => exact id
        · simp only [hB, if_false]
          have hhas := resolve_has hr
          obtain ⟨t, ht⟩ := has_iff_get.mp hhas
          simp only [ht]
          have pre' : WalkPre ps S start r (stack ++ [r]) B := by
            refine ⟨by simp, ?_, ?_, ?_, pre.closed, pre.nocyc, ?_⟩
            · intro x hx
              rcases List.mem_append.mp hx with h1 | h1
              · exact ⟨(pre.reach x h1).1, (pre.reach x h1).2.tail hedge⟩
              · simp at h1; rw [h1]
                exact ⟨(pre.reach cur pre.cur_mem).1.tail hedge, Reach.refl r⟩
            · exact List.nodup_append.mpr ⟨pre.nodup, by simp, by
                intro a ha b hb; simp at hb; rw [hb]; intro e; exact hst (e ▸ ha)⟩
            · intro x hx
              rcases List.mem_append.mp hx with h1 | h1
              · exact pre.sub x h1
              · simp at h1; rw [h1]; exact has_mem_keys hhas
            · intro x hx hx'
              rcases List.mem_append.mp hx' with h1 | h1
              · exact pre.disj x hx h1
              · simp at h1; exact hB (h1 ▸ hx)
          have hpost := hrec t r (stack ++ [r]) B ht pre' (by simp)
          revert hpost
          cases rec t (stack ++ [r]) B with
          | ok B1 =>
            simp only [WalkPost]
            rintro ⟨c1, n1, d1, s1, t1⟩
            -- successors of `r` are in `B1`
            have hsucc : ∀ c, IncEdge ps S r c → c ∈ B1 := by
              rintro c ⟨t', m, hg', hm, hres⟩
              rw [ht] at hg'; cases hg'
              exact t1 m hm c hres
            have hrnot : r ∉ B1 := fun h => d1 r h (by simp)
            have pre2 : WalkPre ps S start cur stack (r :: B1) := by
              refine ⟨pre.cur_mem, pre.reach, pre.nodup, pre.sub, ?_, ?_, ?_⟩
              · intro b hb c hbc
                rcases List.mem_cons.mp hb with h1 | h1
                · rw [h1] at hbc; exact List.mem_cons_of_mem _ (hsucc c hbc)
                · exact List.mem_cons_of_mem _ (c1 b h1 c hbc)
              · intro b hb
                rcases List.mem_cons.mp hb with h1 | h1
                · rw [h1]
                  rintro ⟨d, hd, hreach⟩
                  exact hrnot (closed_reach c1 (hsucc d hd) hreach)
                · exact n1 b h1
              · intro x hx
                rcases List.mem_cons.mp hx with h1 | h1
                · rw [h1]; exact hst
                · intro h2; exact d1 x h1 (by simp [h2])
            have := ih (r :: B1) hsub' pre2
            revert this
            cases walkNames ps S rec ns stack (r :: B1) with
            | ok B' =>
              simp only [WalkPost]
              rintro ⟨a, b, c, d, e⟩
              refine ⟨a, b, c, fun x hx => d x (List.mem_cons_of_mem _ (s1 x hx)), ?_⟩
              intro m hm r' hmr
              rcases List.mem_cons.mp hm with h1 | h1
              · rw [h1, hr] at hmr; cases hmr; exact d r (by simp)
              · exact e m h1 r' hmr
            | cycle ch => exact id
            | outOfFuel => exact id
            | panic => exact id
          | cycle ch => simp only [WalkPost]; exact id
          | outOfFuel => simp only [WalkPost]; exact id
          | panic => simp only [WalkPost]; exact id

/-- the walk at every fuel that is large enough for the current stack -/
theorem walk_post (ps : List String) (S : List Tpl) (start : String) :
    ∀ (fuel : Nat) (t : Tpl) (cur : String) (stack B : List String), get S cur = some t →
      WalkPre ps S start cur stack B → S.length + 1 ≤ fuel + stack.length →
      WalkPost ps S start stack B t.includeCalls (walk ps S fuel t stack B) := by
  intro fuel
  induction fuel with
  | zero =>
    intro t cur stack B _ pre hlen
    exfalso
    have h1 := List.Nodup.length_le_of_subset pre.nodup (fun x hx => pre.sub x hx)
    have h2 : (keys S).length = S.length := by simp [keys]
    omega
  | succ f ih =>
    intro t cur stack B hget pre hlen
    unfold walk
    have hrec : RecOK ps S start (stack.length + 1) (walk ps S f) := by
      intro t' cur' stack' B' hg' pre' hl'
      exact ih t' cur' stack' B' hg' pre' (by omega)
    have := walkNames_post ps S start (walk ps S f) cur t stack hget hrec
      (sortDedup t.includeCalls) B (fun n hn => (mem_sortDedup n _).mp hn) pre
    revert this
    cases walkNames ps S (walk ps S f) (sortDedup t.includeCalls) stack B with
    | ok B' =>
      simp only [WalkPost]
      rintro ⟨a, b, c, d, e⟩
      exact ⟨a, b, c, d, fun n hn r hr => e n ((mem_sortDedup n _).mpr hn) r hr⟩
    | cycle ch => exact id
    | outOfFuel => exact id
    | panic => exact id

theorem checkIncludeCycles_post (ps : List String) (S : List Tpl) (t : Tpl) (hT : get S t.name = some t) :
    WalkPost ps S t.name [t.name] [] t.includeCalls (checkIncludeCycles ps S t) := by
  unfold checkIncludeCycles
  apply walk_post ps S t.name S.length t t.name [t.name] [] hT
  · refine ⟨by simp, ?_, by simp, ?_, ?_, ?_, by simp⟩
    · intro x hx; simp at hx; rw [hx]; exact ⟨Reach.refl _, Reach.refl _⟩
    · intro x hx; simp at hx; rw [hx]; exact has_mem_keys (has_iff_get.mpr ⟨t, hT⟩)
    · intro b hb; cases hb
    · intro b hb; cases hb
  · simp

/-- **accept ⇔ no include cycle is reachable from the start** -/
theorem checkIncludeCycles_ok_iff (ps : List String) (S : List Tpl) (t : Tpl) (hT : get S t.name = some t) :
    (∃ v, checkIncludeCycles ps S t = .ok v) ↔ ¬ CycleReachable (IncEdge ps S) t.name := by
  have hpost := checkIncludeCycles_post ps S t hT
  constructor
  · rintro ⟨v, hv⟩
    rw [hv] at hpost
    obtain ⟨hc, hn, hd, _, ht⟩ := hpost
    have hsucc : ∀ c, IncEdge ps S t.name c → c ∈ v := by
      rintro c ⟨t', m, hg', hm, hres⟩
      rw [hT] at hg'; cases hg'
      exact ht m hm c hres
    rintro ⟨c, ⟨cs, w⟩, hcyc⟩
    cases w with
    | nil =>
      obtain ⟨d, hd1, hd2⟩ := hcyc
      exact hd t.name (closed_reach hc (hsucc d hd1) hd2) (by simp)
    | cons e w' =>
      exact hn c (closed_walk hc w' (hsucc _ e)) hcyc
  · intro hno
    revert hpost
    cases checkIncludeCycles ps S t with
    | ok v => intro _; exact ⟨v, rfl⟩
    | cycle ch => intro h; exact absurd h hno
    | outOfFuel => intro h; exact h.elim
    | panic => intro h; exact h.elim

theorem checkIncludeCycles_cycle_sound (ps : List String) (S : List Tpl) (t : Tpl) (hT : get S t.name = some t)
    (chain : List String) (h : checkIncludeCycles ps S t = .cycle chain) :
    CycleReachable (IncEdge ps S) t.name := by
  have hpost := checkIncludeCycles_post ps S t hT
  rw [h] at hpost
  exact hpost

theorem checkIncludeCycles_total (ps : List String) (S : List Tpl) (t : Tpl) (hT : get S t.name = some t) :
    checkIncludeCycles ps S t ≠ .outOfFuel ∧ checkIncludeCycles ps S t ≠ .panic := by
  have hpost := checkIncludeCycles_post ps S t hT
  constructor <;> intro e <;> rw [e] at hpost <;> exact hpost

end Tera.Reg
