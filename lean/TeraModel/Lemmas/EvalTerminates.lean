/-
Termination of the AST evaluator (Props/C11Eval.lean), part 1: expressions.

The evaluator (Model/Eval.lean) recurses on a fuel; running out is the explicit `Err.fuel`.  Here:
every expression, in every scope, evaluates WITHOUT running out once the fuel is large enough
(`expr_term`: `Ev (fun G => NFu (evalExpr G env sc e))`, "eventually not out of fuel").  Expressions
are structurally recursive; the hidden loop of a comprehension visits the finitely many remaining
items of its loop (`compr_term`, induction on their number).  No primitive (filters, tests,
functions, operators, `buildList`, `buildMap`, …) answers `Err.fuel` (`nfu_*`).

Method: fuel monotonicity (Lemmas/EvalFuel.lean) turns "eventually not out of fuel" into
"eventually equal to one result" (`conv_of`), so sub-calls can be replaced by their results one at
a time under the "eventually" (`tcall`).  Induction over the syntax by the functional induction
principle of the domain check (`exprInCore.mutual_induct`: it has a case for every constructor).
-/
import TeraModel.Lemmas.EvalFuel
import TeraModel.Lemmas.EvalFrame
import TeraModel.Lemmas.RefineDomain
namespace Tera.C11Eval
open Tera Tera.Refine

/-- "for every large enough fuel" -/

def Ev (P : Nat → Prop) : Prop := ∃ f0, ∀ G, f0 ≤ G → P G

theorem Ev.all {P : Nat → Prop} (h : ∀ G, P G) : Ev P := ⟨0, fun G _ => h G⟩
theorem Ev.mono {P Q : Nat → Prop} (h : Ev P) (hpq : ∀ G, P G → Q G) : Ev Q := by
  obtain ⟨f, hf⟩ := h; exact ⟨f, fun G hG => hpq G (hf G hG)⟩
theorem Ev.rw {E P : Nat → Prop} (h : Ev E) (hp : Ev (fun G => E G → P G)) : Ev P := by
  obtain ⟨f, hf⟩ := h; obtain ⟨g, hg⟩ := hp
  exact ⟨max f g, fun G hG => hg G (by omega) (hf G (by omega))⟩
theorem Ev.drop {E P : Nat → Prop} (hp : Ev P) : Ev (fun G => E G → P G) := hp.mono fun _ h _ => h
theorem ev_succ {α : Type} {Y : Nat → Except Err α} (h : Ev (fun G => NFu (Y (G + 1)))) :
    Ev (fun G => NFu (Y G)) := by
  obtain ⟨f, hf⟩ := h
  exact ⟨f + 1, fun G hG => by obtain ⟨G', rfl⟩ : ∃ G', G = G' + 1 := ⟨G - 1, by omega⟩; exact hf G' (by omega)⟩

/-- a fuel-monotone computation that eventually does not run out converges -/
theorem conv_of {α : Type} {Y : Nat → Except Err α}
    (hm : ∀ a k r, Y a = r → NFu r → Y (a + k) = r) (h : Ev (fun G => NFu (Y G))) :
    ∃ r, NFu r ∧ Ev (fun G => Y G = r) := by
  obtain ⟨f, hf⟩ := h
  refine ⟨Y f, hf f (Nat.le_refl _), f, fun G hG => ?_⟩
  obtain ⟨k, rfl⟩ : ∃ k, G = f + k := ⟨G - f, by omega⟩
  exact hm f k _ rfl (hf f (Nat.le_refl _))

variable (env : Env)

def TE (e : Expr) : Prop := ∀ sc, Ev (fun G => NFu (evalExpr G env sc e))

theorem conv_expr {sc : Scope} {e : Expr} (h : Ev (fun G => NFu (evalExpr G env sc e))) :
    ∃ r, NFu r ∧ Ev (fun G => evalExpr G env sc e = r) :=
  conv_of (fun a k r => (fuelLe_add env a k).expr sc e r) h

theorem nfu_err_cast {α β : Type} {e : Err} (h : NFu (Except.error e : Except Err α)) :
    NFu (Except.error e : Except Err β) :=
  NFu_err _ (fun c => h (by rw [c]))

/- `tcall c as x`: one sub-call `A G` in a goal `Ev (fun G => NFu (… A G …))`, from
`c : ∃ r, NFu r ∧ Ev (A · = r)`: an error result ends the proof; a value `x` replaces the call in
the goal. -/
set_option hygiene false in
macro "tcall " c:term " as " x:ident : tactic => `(tactic| (
  obtain ⟨r1, n1, h1⟩ := $c
  refine Ev.rw h1 ?_
  clear h1
  cases r1
  case error => exact Ev.all fun G e1 => by simp only [e1, Except.map]; exact nfu_err_cast n1
  rename_i $x:ident
  clear n1
  simp (config := { contextual := true }) only []
  apply Ev.drop))

set_option hygiene false in
macro "tcall " c:term : tactic => `(tactic| (
  obtain ⟨r1, n1, h1⟩ := $c
  refine Ev.rw h1 ?_
  clear h1
  cases r1
  case error => exact Ev.all fun G e1 => by simp only [e1, Except.map]; exact nfu_err_cast n1
  rename_i v
  clear n1
  simp (config := { contextual := true }) only []
  apply Ev.drop))

macro "nfu_leaf" : tactic => `(tactic| (
  try simp only []
  refine Ev.all fun G => ?_
  unfold NFu
  repeat' split
  all_goals simp))


/-! ### primitives never answer `Err.fuel` -/

theorem nfu_ite {α : Type} {c : Prop} [Decidable c] {a b : Except Err α} (ha : NFu a) (hb : NFu b) :
    NFu (if c then a else b) := by
  split <;> assumption

macro "nfu_prim" : tactic => `(tactic| (
  repeat' (first
    | exact NFu_ok _
    | exact NFu_err _ (by simp)
    | apply nfu_ite
    | split)))

theorem nfu_map {α β : Type} {x : Except Err α} (f : α → β) (h : NFu x) : NFu (x.map f) := by
  cases x with
  | error e => exact nfu_err_cast h
  | ok v => exact NFu_ok _

theorem nfu_sliceBound (v : Value) : NFu (sliceBound v) := by
  unfold sliceBound; nfu_prim

theorem nfu_buildList : ∀ l, NFu (buildList l)
  | [] => NFu_ok _
  | (false, v) :: rest => by unfold buildList; exact nfu_map _ (nfu_buildList rest)
  | (true, v) :: rest => by
    unfold buildList
    split
    · exact nfu_map _ (nfu_buildList rest)
    · exact NFu_err _ (by simp)

theorem nfu_buildMapRev : ∀ l acc, NFu (buildMapRev l acc)
  | [], acc => NFu_ok _
  | (some k, v) :: rest, acc => by unfold buildMapRev; exact nfu_buildMapRev rest _
  | (none, v) :: rest, acc => by
    unfold buildMapRev
    split
    · exact nfu_buildMapRev rest _
    · exact NFu_err _ (by simp)

theorem nfu_buildMap (l : List (Option Key × Value)) : NFu (buildMap l) := by
  unfold buildMap
  split
  · exact NFu_ok _
  · exact nfu_buildMapRev _ _

theorem nfu_applyFilter (name : String) (v : Value) (kw : List (String × Value)) :
    NFu (applyFilter env name v kw) := by
  unfold applyFilter; nfu_prim

theorem nfu_applyTest (name : String) (v : Value) : NFu (applyTest name v) := by
  unfold applyTest; nfu_prim

theorem nfu_argI128 (v : Option Value) (d : Option Int) : NFu (argI128 v d) := by
  unfold argI128; nfu_prim

theorem nfu_applyFunction (name : String) (kw : List (String × Value)) : NFu (applyFunction name kw) := by
  unfold applyFunction
  split
  · nfu_prim
  · split
    · have h1 := nfu_argI128 (kwGet kw "start") (some 0)
      have h2 := nfu_argI128 (kwGet kw "end") none
      have h3 := nfu_argI128 (kwGet kw "step_by") (some 1)
      generalize argI128 (kwGet kw "start") (some 0) = r1 at h1 ⊢
      generalize argI128 (kwGet kw "end") none = r2 at h2 ⊢
      generalize argI128 (kwGet kw "step_by") (some 1) = r3 at h3 ⊢
      cases r1 <;> cases r2 <;> cases r3 <;> simp only [] <;>
        first
        | exact nfu_err_cast h1
        | exact nfu_err_cast h2
        | exact nfu_err_cast h3
        | nfu_prim
    · exact NFu_err _ (by simp)

theorem nfu_liftNum (r : Except NumErr Value) : NFu (liftNum r) := by
  unfold liftNum; nfu_prim

theorem nfu_mathBinop (f : Value → Value → Except NumErr Value) (a b : Value) : NFu (mathBinop f a b) := by
  unfold mathBinop
  split
  · exact NFu_err _ (by simp)
  · split
    · exact NFu_err _ (by simp)
    · exact nfu_liftNum _

theorem nfu_orderingBinop (t : Ordering → Bool) (a b : Value) : NFu (orderingBinop t a b) := by
  unfold orderingBinop; nfu_prim

theorem nfu_binop (op : BinaryOperator) (a b : Value) : NFu (binop env op a b) := by
  unfold binop
  cases op <;> simp only <;>
    first
    | exact nfu_mathBinop _ _ _
    | exact nfu_orderingBinop _ _ _
    | exact NFu_ok _
    | exact NFu_err _ (by simp)
    | skip
  · split
    · exact nfu_liftNum _
    · exact NFu_err _ (by simp)
  all_goals nfu_prim

theorem nfu_writeValue (ae : Bool) (st : St) (v : Value) : NFu (writeValue env ae st v) := by
  unfold writeValue; nfu_prim


theorem conv_opt {sc : Scope} {oe : Option Expr} {d : Value} (h : Ev (fun G => NFu (evalOpt G env sc oe d))) :
    ∃ r, NFu r ∧ Ev (fun G => evalOpt G env sc oe d = r) :=
  conv_of (fun a k r => (fuelLe_add env a k).opt sc oe d r) h

theorem conv_arr {sc : Scope} {es : List ArrayEntry} (h : Ev (fun G => NFu (evalArrayEntries G env sc es))) :
    ∃ r, NFu r ∧ Ev (fun G => evalArrayEntries G env sc es = r) :=
  conv_of (fun a k r => (fuelLe_add env a k).arr sc es r) h

theorem conv_mapE {sc : Scope} {es : List MapEntry} (h : Ev (fun G => NFu (evalMapEntries G env sc es))) :
    ∃ r, NFu r ∧ Ev (fun G => evalMapEntries G env sc es = r) :=
  conv_of (fun a k r => (fuelLe_add env a k).mapE sc es r) h

theorem conv_kw {sc : Scope} {es : List (String × Expr)} (h : Ev (fun G => NFu (evalKwargs G env sc es))) :
    ∃ r, NFu r ∧ Ev (fun G => evalKwargs G env sc es = r) :=
  conv_of (fun a k r => (fuelLe_add env a k).kw sc es r) h

theorem conv_compr {sc : Scope} {bd : Expr} {c : Option Expr} {acc : List Value}
    (h : Ev (fun G => NFu (evalCompr G env sc bd c acc))) :
    ∃ r, NFu r ∧ Ev (fun G => evalCompr G env sc bd c acc = r) :=
  conv_of (fun a k r => (fuelLe_add env a k).compr sc bd c acc r) h

theorem conv_filters {sc : Scope} {fs : List Expr} {v : Value}
    (h : Ev (fun G => NFu (applyFilters G env sc fs v))) :
    ∃ r, NFu r ∧ Ev (fun G => applyFilters G env sc fs v = r) :=
  conv_of (fun a k r => (fuelLe_add env a k).filters sc fs v r) h

theorem conv_node {ae : Bool} {st : St} {n : Node} (h : Ev (fun G => NFu (execNode G env ae st n))) :
    ∃ r, NFu r ∧ Ev (fun G => execNode G env ae st n = r) :=
  conv_of (fun a k r => (fuelLe_add env a k).node ae st n r) h

theorem conv_nodes {ae : Bool} {st : St} {ns : List Node} (h : Ev (fun G => NFu (execNodes G env ae st ns))) :
    ∃ r, NFu r ∧ Ev (fun G => execNodes G env ae st ns = r) :=
  conv_of (fun a k r => (fuelLe_add env a k).nodes ae st ns r) h

theorem conv_for {ae : Bool} {st : St} {body : List Node} (h : Ev (fun G => NFu (execFor G env ae st body))) :
    ∃ r, NFu r ∧ Ev (fun G => execFor G env ae st body = r) :=
  conv_of (fun a k r => (fuelLe_add env a k).for_ ae st body r) h

/-- a pure sub-computation whose error is passed on: case on it -/
macro "nfu_sub " t:term " by " l:term : tactic => `(tactic| (
  have hn := $l
  generalize $t = x at hn ⊢
  cases x
  case error => (simp only []; exact nfu_err_cast hn)
  clear hn
  simp only []))

/-! ### the loop of a comprehension -/

/-- how many items the innermost loop still has to visit -/
def topRem (sc : Scope) : Nat :=
  match sc.forLoops with
  | l :: _ => l.remaining.length
  | [] => 0

theorem iterate_remaining_lt {l l' : ForLoop} {e : Nat} (h : l.iterate e = some l') :
    l'.remaining.length < l.remaining.length := by
  unfold ForLoop.iterate at h
  split at h
  · cases h
  · rename_i hno
    injection h with h
    subst h
    unfold ForLoop.advance
    cases hr : l.remaining with
    | nil => simp [ForLoop.isOver, hr] at hno
    | cons it rest => dsimp only; split <;> simp

theorem topRem_setTopLoop {sc : Scope} {l l' : ForLoop} {rest : List ForLoop}
    (h : sc.forLoops = l :: rest) : topRem (sc.setTopLoop l') = l'.remaining.length := by
  unfold topRem
  rw [(Scope.setTopLoop_fields sc l l' rest h).1]

theorem compr_term (body : Expr) (cond : Option Expr) (hb : TE env body)
    (hc : ∀ c, cond = some c → TE env c) :
    ∀ n sc acc, topRem sc ≤ n → Ev (fun G => NFu (evalCompr G env sc body cond acc)) := by
  intro n
  induction n with
  | zero =>
    intro sc acc hn
    apply ev_succ
    simp only [evalCompr]
    cases hl : sc.forLoops with
    | nil => nfu_leaf
    | cons l rest =>
      simp only
      cases hi : l.iterate ITERATE_END_IP with
      | none => nfu_leaf
      | some l' =>
        have := iterate_remaining_lt hi
        simp only [topRem, hl] at hn
        omega
  | succ n ih =>
    intro sc acc hn
    apply ev_succ
    simp only [evalCompr]
    cases hl : sc.forLoops with
    | nil => nfu_leaf
    | cons l rest =>
      simp only
      cases hi : l.iterate ITERATE_END_IP with
      | none => nfu_leaf
      | some l' =>
        have hlt := iterate_remaining_lt hi
        have hrem : topRem (sc.setTopLoop l') ≤ n := by
          rw [topRem_setTopLoop hl]
          simp only [topRem, hl] at hn
          omega
        simp only
        cases cond with
        | none =>
          simp only
          tcall conv_expr env (hb (sc.setTopLoop l'))
          exact ih _ _ hrem
        | some ce =>
          simp only
          tcall conv_expr env (hc ce rfl (sc.setTopLoop l'))
          simp only [Except.map]
          cases hv : v.isTruthy
          · simp only
            exact ih _ _ hrem
          · simp only
            tcall conv_expr env (hb (sc.setTopLoop l'))
            exact ih _ _ hrem

/-! ### expressions -/

theorem expr_term_aux :
    (∀ e, TE env e) ∧
    (∀ kw sc, Ev (fun G => NFu (evalKwargs G env sc kw))) ∧
    (∀ oe sc d, Ev (fun G => NFu (evalOpt G env sc oe d))) ∧
    (∀ es sc, Ev (fun G => NFu (evalMapEntries G env sc es))) ∧
    (∀ es sc, Ev (fun G => NFu (evalArrayEntries G env sc es))) := by
  apply exprInCore.mutual_induct (motive_1 := fun e => TE env e)
    (motive_2 := fun kw => ∀ sc, Ev (fun G => NFu (evalKwargs G env sc kw)))
    (motive_3 := fun oe => ∀ sc d, Ev (fun G => NFu (evalOpt G env sc oe d)))
    (motive_4 := fun es => ∀ sc, Ev (fun G => NFu (evalMapEntries G env sc es)))
    (motive_5 := fun es => ∀ sc, Ev (fun G => NFu (evalArrayEntries G env sc es)))
  -- const, var
  · intro v sc; apply ev_succ; simp only [evalExpr]; nfu_leaf
  · intro name sc; apply ev_succ; simp only [evalExpr]; nfu_leaf
  -- array, map
  · intro items h sc
    apply ev_succ; simp only [evalExpr]
    tcall conv_arr env (h sc)
    exact Ev.all fun G => nfu_map _ (nfu_buildList _)
  · intro entries h sc
    apply ev_succ; simp only [evalExpr]
    tcall conv_mapE env (h sc)
    exact Ev.all fun G => nfu_map _ (nfu_buildMap _)
  -- getAttr, getItem
  · intro e name o he sc
    apply ev_succ; simp only [evalExpr]
    tcall conv_expr env (he sc)
    nfu_leaf
  · intro e s o he hs sc
    apply ev_succ; simp only [evalExpr]
    tcall conv_expr env (he sc)
    tcall conv_expr env (hs sc)
    nfu_leaf
  -- slice
  · intro e a b c o he ha hb hc sc
    apply ev_succ; simp only [evalExpr]
    tcall conv_expr env (he sc) as va
    tcall conv_opt env (ha sc .none) as vs
    tcall conv_opt env (hb sc .none) as ve
    tcall conv_opt env (hc sc (.u64 1)) as vt
    refine Ev.all fun G => ?_
    apply nfu_ite (NFu_ok _)
    apply nfu_ite (NFu_err _ (by simp))
    nfu_sub (sliceBound vs) by (nfu_sliceBound vs)
    nfu_sub (sliceBound ve) by (nfu_sliceBound ve)
    nfu_sub (sliceBound vt) by (nfu_sliceBound vt)
    nfu_prim
  -- filter, test
  · intro e name kw he hk sc
    apply ev_succ; simp only [evalExpr]
    tcall conv_expr env (he sc) as vb
    tcall conv_kw env (hk sc)
    exact Ev.all fun G => nfu_applyFilter env _ _ _
  · intro e name kw he hk sc
    apply ev_succ; simp only [evalExpr]
    tcall conv_expr env (he sc) as vb
    tcall conv_kw env (hk sc)
    exact Ev.all fun G => nfu_map _ (nfu_applyTest _ _)
  -- ternary
  · intro c t f hc ht hf sc
    apply ev_succ; simp only [evalExpr]
    tcall conv_expr env (hc sc)
    cases hv : v.isTruthy <;> simp only [Bool.false_eq_true, if_false, if_true]
    · exact hf sc
    · exact ht sc
  -- comprehension
  · intro body key value target cond hb ht hc sc
    apply ev_succ; simp only [evalExpr]
    tcall conv_expr env (ht sc)
    cases hi : iterItems v with
    | none => nfu_leaf
    | some items =>
      simp only
      split
      · nfu_leaf
      · have hcond : ∀ c, cond = some c → TE env c := by
          intro c hcc sc'
          subst hcc
          have := hc sc' .none
          obtain ⟨f, hf⟩ := this
          refine ⟨f, fun G hG => ?_⟩
          have h1 := hf (G + 1) (by omega)
          simpa [evalOpt] using h1
        exact (compr_term env body cond hb hcond _ _ [] (Nat.le_refl _)).mono fun G h => nfu_map _ h
  -- componentCall
  · intro name kwargs body sc' sc; apply ev_succ; simp only [evalExpr]; nfu_leaf
  -- functionCall
  · intro name kw hk sc
    apply ev_succ; simp only [evalExpr]
    tcall conv_kw env (hk sc)
    exact Ev.all fun G => nfu_applyFunction _ _
  -- unary
  · intro op e he sc
    apply ev_succ
    cases op <;> simp only [evalExpr]
    · tcall conv_expr env (he sc)
      nfu_leaf
    · tcall conv_expr env (he sc)
      exact Ev.all fun G => nfu_liftNum _
  -- binary
  · intro op l r hl hr sc
    apply ev_succ
    cases op <;> simp only [evalExpr]
    case And =>
      tcall conv_expr env (hl sc)
      cases hv : v.isTruthy <;> simp only [Bool.not_true, Bool.not_false, Bool.false_eq_true, if_false, if_true]
      · nfu_leaf
      · exact hr sc
    case Or =>
      tcall conv_expr env (hl sc)
      cases hv : v.isTruthy <;> simp only [Bool.false_eq_true, if_false, if_true]
      · exact hr sc
      · nfu_leaf
    all_goals
      tcall conv_expr env (hl sc) as va
      tcall conv_expr env (hr sc)
      exact Ev.all fun G => nfu_binop env _ _ _
  -- array entries
  · intro sc; apply ev_succ; simp only [evalArrayEntries]; nfu_leaf
  · intro e rest he hr sc
    apply ev_succ; simp only [evalArrayEntries]
    tcall conv_expr env (he sc)
    exact (hr sc).mono fun G h => nfu_map _ h
  · intro e rest he hr sc
    apply ev_succ; simp only [evalArrayEntries]
    tcall conv_expr env (he sc)
    exact (hr sc).mono fun G h => nfu_map _ h
  -- map entries
  · intro sc; apply ev_succ; simp only [evalMapEntries]; nfu_leaf
  · intro key e rest he hr sc
    apply ev_succ; simp only [evalMapEntries]
    tcall conv_expr env (he sc)
    exact (hr sc).mono fun G h => nfu_map _ h
  · intro e rest he hr sc
    apply ev_succ; simp only [evalMapEntries]
    tcall conv_expr env (he sc)
    exact (hr sc).mono fun G h => nfu_map _ h
  -- optional
  · intro sc d; apply ev_succ; simp only [evalOpt]; nfu_leaf
  · intro e he sc d
    apply ev_succ; simp only [evalOpt]
    exact he sc
  -- kwargs
  · intro sc; apply ev_succ; simp only [evalKwargs]; nfu_leaf
  · intro n e rest he hr sc
    apply ev_succ; simp only [evalKwargs]
    tcall conv_expr env (he sc)
    exact (hr sc).mono fun G h => nfu_map _ h

/-- **every expression terminates**: in every scope, with every large enough fuel the evaluator
does not run out of fuel on it -/
theorem expr_term (e : Expr) : TE env e := (expr_term_aux env).1 e

theorem kwargs_term (kw : List (String × Expr)) (sc : Scope) :
    Ev (fun G => NFu (evalKwargs G env sc kw)) := (expr_term_aux env).2.1 kw sc

end Tera.C11Eval
