/-
`Value::cmp` (Model/Order.lean) is a total preorder on all well-formed values, nested arrays and
maps included: structural facts about the model, the size measure used for the nested induction,
and the assembly of the order laws from Lemmas/OrdLaws.lean, KeyOrder.lean and EVOrder.lean.
-/
import TeraModel.Model.Lookup
import TeraModel.Lemmas.KeyOrder
import TeraModel.Lemmas.EVOrder
set_option linter.unusedVariables false
namespace Tera
open Tera.C13

/-! ### the generated rank table has the shape the proofs need -/

/-- What the proofs use about `type_order` of `Ord for Value`: the five numeric variants share a
rank and the eight kinds (bool, number, string, array, map, bytes, none, undefined) have pairwise
different ranks. -/
def ValueRankOK : Prop :=
  Gen.valueRankU64 = Gen.valueRankI64 ∧ Gen.valueRankU64 = Gen.valueRankU128 ∧
  Gen.valueRankU64 = Gen.valueRankI128 ∧ Gen.valueRankU64 = Gen.valueRankF64 ∧
  [Gen.valueRankBool, Gen.valueRankU64, Gen.valueRankString, Gen.valueRankArray, Gen.valueRankMap,
   Gen.valueRankBytes, Gen.valueRankNone, Gen.valueRankUndefined].Nodup

theorem valueRankOK : ValueRankOK := by unfold ValueRankOK; decide

theorem valueRank_table :
    Gen.valueTypeOrder = [("Undefined", Gen.valueRankUndefined), ("None", Gen.valueRankNone),
      ("Bool", Gen.valueRankBool), ("U64", Gen.valueRankU64), ("I64", Gen.valueRankI64),
      ("F64", Gen.valueRankF64), ("U128", Gen.valueRankU128), ("I128", Gen.valueRankI128),
      ("String", Gen.valueRankString), ("Array", Gen.valueRankArray), ("Map", Gen.valueRankMap),
      ("Bytes", Gen.valueRankBytes)] := by decide

namespace Value

/-! ### size and well-formedness -/

mutual
def size : Value → Nat
  | .arr xs => 1 + sizeList xs
  | .map es => 1 + sizeEntries es
  | _ => 1
def sizeList : List Value → Nat
  | [] => 0
  | x :: xs => size x + sizeList xs
def sizeEntries : List (Key × Value) → Nat
  | [] => 0
  | (_, v) :: es => size v + sizeEntries es
end

theorem size_lt_of_mem {xs : List Value} {x : Value} (h : x ∈ xs) : size x < size (.arr xs) := by
  induction xs with
  | nil => cases h
  | cons y ys ih =>
    simp only [size, sizeList] at ih ⊢
    rcases List.mem_cons.1 h with rfl | h
    · omega
    · have := ih h; omega

theorem size_lt_of_mem_entries {es : List (Key × Value)} {e : Key × Value} (h : e ∈ es) :
    size e.2 < size (.map es) := by
  induction es with
  | nil => cases h
  | cons y ys ih =>
    obtain ⟨k, v⟩ := y
    simp only [size, sizeEntries] at ih ⊢
    rcases List.mem_cons.1 h with rfl | h
    · simp only; omega
    · have := ih h; omega

/-- Hereditary well-formedness: every integer payload (also in map keys) is in the range of its
Rust type and every map obeys the `HashMap` invariant (no two `==` keys). -/
inductive WF : Value → Prop where
  | undef : WF .undef
  | none : WF .none
  | bool (b : Bool) : WF (.bool b)
  | u64 (n : Nat) : n ≤ U64_MAX → WF (.u64 n)
  | i64 (n : Int) : inI64 n → WF (.i64 n)
  | u128 (n : Nat) : n ≤ U128_MAX → WF (.u128 n)
  | i128 (n : Int) : inI128 n → WF (.i128 n)
  | f64 (x : F64) : WF (.f64 x)
  | str (safe : Bool) (s : List Char) : WF (.str safe s)
  | bytes (b : List Nat) : WF (.bytes b)
  | arr (xs : List Value) : (∀ x ∈ xs, WF x) → WF (.arr xs)
  | map (es : List (Key × Value)) : (∀ e ∈ es, e.1.WF) → (∀ e ∈ es, WF e.2) → NoDupKeys es →
      WF (.map es)

theorem WF.arr_mem {xs : List Value} (h : WF (.arr xs)) : ∀ x ∈ xs, WF x := by
  cases h; assumption
theorem WF.map_mem {es : List (Key × Value)} (h : WF (.map es)) : ∀ e ∈ es, WF e.2 := by
  cases h; assumption
theorem WF.map_keys {es : List (Key × Value)} (h : WF (.map es)) : ∀ e ∈ es, e.1.WF := by
  cases h; assumption
theorem WF.map_nodup {es : List (Key × Value)} (h : WF (.map es)) : NoDupKeys es := by
  cases h; assumption

/-- A well-formed value of a numeric kind is a number in the sense of C13. -/
theorem WF.isNum {v : Value} (h : WF v) (hn : v.isNumber = true) : IsNum v := by
  cases h <;> simp [isNumber] at hn
  · exact .int ⟨rfl, by simpa [scalarWF]⟩
  · exact .int ⟨rfl, by simpa [scalarWF]⟩
  · exact .int ⟨rfl, by simpa [scalarWF]⟩
  · exact .int ⟨rfl, by simpa [scalarWF]⟩
  · exact .float _

/-! ### sorting is a function of the list; it keeps the elements -/

end Value

theorem mem_insertBy {α : Type} (cmp : α → α → Ordering) (x y : α) (l : List α) :
    y ∈ insertBy cmp x l ↔ y = x ∨ y ∈ l := by
  induction l with
  | nil => simp [insertBy]
  | cons z zs ih =>
    simp only [insertBy]; split
    · simp only [List.mem_cons, ih]; tauto
    · simp only [List.mem_cons]

theorem mem_sortBy {α : Type} (cmp : α → α → Ordering) (y : α) (l : List α) :
    y ∈ sortBy cmp l ↔ y ∈ l := by
  induction l with
  | nil => simp [sortBy]
  | cons z zs ih => simp only [sortBy, mem_insertBy, ih, List.mem_cons]

theorem length_insertBy {α : Type} (cmp : α → α → Ordering) (x : α) (l : List α) :
    (insertBy cmp x l).length = l.length + 1 := by
  induction l with
  | nil => rfl
  | cons z zs ih => simp only [insertBy]; split <;> simp [ih]

theorem length_sortBy {α : Type} (cmp : α → α → Ordering) (l : List α) :
    (sortBy cmp l).length = l.length := by
  induction l with
  | nil => rfl
  | cons z zs ih => simp [sortBy, length_insertBy, ih]

/-- Sorting by a key commutes with mapping the payload. -/
theorem insertBy_map {α β κ : Type} (key : κ → κ → Ordering) (g : α → β) (ka : α → κ) (kb : β → κ)
    (hk : ∀ a, kb (g a) = ka a) (x : α) (l : List α) :
    insertBy (fun p q => key (kb p) (kb q)) (g x) (l.map g)
      = (insertBy (fun p q => key (ka p) (ka q)) x l).map g := by
  induction l with
  | nil => rfl
  | cons z zs ih =>
    simp only [List.map, insertBy, hk]
    split <;> simp [ih]

theorem sortBy_map {α β κ : Type} (key : κ → κ → Ordering) (g : α → β) (ka : α → κ) (kb : β → κ)
    (hk : ∀ a, kb (g a) = ka a) (l : List α) :
    sortBy (fun p q => key (kb p) (kb q)) (l.map g)
      = (sortBy (fun p q => key (ka p) (ka q)) l).map g := by
  induction l with
  | nil => rfl
  | cons z zs ih =>
    simp only [List.map, sortBy, ih]
    exact insertBy_map key g ka kb hk z _

namespace Value

/-! ### what `cmp` computes, kind by kind -/

theorem decorate_eq (es : List (Key × Value)) : decorate es = es.map (fun e => (e.1, cmp e.2)) := by
  induction es with
  | nil => rfl
  | cons e es ih => obtain ⟨k, v⟩ := e; simp [decorate, ih]

theorem lexDecorated_map (a b : List (Key × Value)) :
    lexDecorated (a.map (fun e => (e.1, cmp e.2))) b = lexCmp entryCmp a b := by
  induction a generalizing b with
  | nil => cases b <;> rfl
  | cons x xs ih =>
    cases b with
    | nil => rfl
    | cons y ys =>
      obtain ⟨k1, v1⟩ := x
      obtain ⟨k2, v2⟩ := y
      simp only [List.map, lexDecorated, lexCmp, entryCmp, ih]
      cases Key.cmpK k1 k2 <;> simp
      cases cmp v1 v2 <;> simp

theorem cmpList_eq (xs ys : List Value) : cmpList xs ys = lexCmp cmp xs ys := by
  induction xs generalizing ys with
  | nil => cases ys <;> rfl
  | cons x xs ih =>
    cases ys with
    | nil => rfl
    | cons y ys => simp only [cmpList, lexCmp, ih]; cases cmp x y <;> rfl

theorem cmp_of_partialCmp {a b : Value} {o : Ordering} (h : partialCmp a b = some o) : cmp a b = o := by
  unfold cmp; rw [h]

theorem partialCmpList_lex {xs ys : List Value} {o : Ordering} (h : partialCmpList xs ys = some o) :
    lexCmp cmp xs ys = o := by
  induction xs generalizing ys with
  | nil => cases ys <;> simp_all [partialCmpList, lexCmp]
  | cons x xs ih =>
    cases ys with
    | nil => simp_all [partialCmpList, lexCmp]
    | cons y ys =>
      simp only [partialCmpList] at h
      simp only [lexCmp]
      cases hp : partialCmp x y with
      | none => simp [hp] at h
      | some p =>
        rw [cmp_of_partialCmp hp]
        cases p <;> simp_all

/-- Arrays compare lexicographically by `cmp` of the elements, whether or not `partial_cmp`
answered. -/
theorem cmp_arr (xs ys : List Value) : cmp (.arr xs) (.arr ys) = lexCmp cmp xs ys := by
  unfold cmp
  simp only [partialCmp]
  cases h : partialCmpList xs ys with
  | none => simp [cmpList_eq]
  | some o => simp [partialCmpList_lex h]

/-- Maps compare by their key-sorted entry lists, entries as `(key, value)` tuples. -/
theorem cmp_map (x y : List (Key × Value)) :
    cmp (.map x) (.map y) = lexCmp entryCmp (sortEntriesK x) (sortEntriesK y) := by
  unfold cmp
  simp only [partialCmp, numPartialCmp, isInteger, Bool.false_and, Bool.false_eq_true, if_false]
  rw [decorate_eq]
  have : sortEntriesK (x.map (fun e => (e.1, cmp e.2))) = (sortEntriesK x).map (fun e => (e.1, cmp e.2)) := by
    unfold sortEntriesK
    exact sortBy_map Key.cmpK (fun e : Key × Value => (e.1, cmp e.2)) (fun e => e.1) (fun e => e.1)
      (fun _ => rfl) x
  rw [this, lexDecorated_map]

/-! ### different kinds: the rank decides -/

theorem rank_facts :
    Gen.valueRankU64 = Gen.valueRankI64 ∧ Gen.valueRankU64 = Gen.valueRankU128 ∧
    Gen.valueRankU64 = Gen.valueRankI128 ∧ Gen.valueRankU64 = Gen.valueRankF64 ∧
    Gen.valueRankBool ≠ Gen.valueRankU64 ∧ Gen.valueRankBool ≠ Gen.valueRankString ∧
    Gen.valueRankBool ≠ Gen.valueRankArray ∧ Gen.valueRankBool ≠ Gen.valueRankMap ∧
    Gen.valueRankBool ≠ Gen.valueRankBytes ∧ Gen.valueRankBool ≠ Gen.valueRankNone ∧
    Gen.valueRankBool ≠ Gen.valueRankUndefined ∧
    Gen.valueRankU64 ≠ Gen.valueRankString ∧ Gen.valueRankU64 ≠ Gen.valueRankArray ∧
    Gen.valueRankU64 ≠ Gen.valueRankMap ∧ Gen.valueRankU64 ≠ Gen.valueRankBytes ∧
    Gen.valueRankU64 ≠ Gen.valueRankNone ∧ Gen.valueRankU64 ≠ Gen.valueRankUndefined ∧
    Gen.valueRankString ≠ Gen.valueRankArray ∧ Gen.valueRankString ≠ Gen.valueRankMap ∧
    Gen.valueRankString ≠ Gen.valueRankBytes ∧ Gen.valueRankString ≠ Gen.valueRankNone ∧
    Gen.valueRankString ≠ Gen.valueRankUndefined ∧
    Gen.valueRankArray ≠ Gen.valueRankMap ∧ Gen.valueRankArray ≠ Gen.valueRankBytes ∧
    Gen.valueRankArray ≠ Gen.valueRankNone ∧ Gen.valueRankArray ≠ Gen.valueRankUndefined ∧
    Gen.valueRankMap ≠ Gen.valueRankBytes ∧ Gen.valueRankMap ≠ Gen.valueRankNone ∧
    Gen.valueRankMap ≠ Gen.valueRankUndefined ∧
    Gen.valueRankBytes ≠ Gen.valueRankNone ∧ Gen.valueRankBytes ≠ Gen.valueRankUndefined ∧
    Gen.valueRankNone ≠ Gen.valueRankUndefined := by
  have h := valueRankOK
  simp only [ValueRankOK, List.nodup_cons, List.mem_cons, List.not_mem_nil, or_false, not_or,
    List.nodup_nil, and_true] at h
  obtain ⟨a1, a2, a3, a4, b⟩ := h
  refine ⟨a1, a2, a3, a4, ?_⟩
  simp only [ne_eq]
  tauto

/-- Operands of different rank: `partial_cmp` has no answer and the rank decides. -/
theorem cmp_cross (a b : Value) (hr : a.typeOrder ≠ b.typeOrder) :
    cmp a b = cmpNat a.typeOrder b.typeOrder := by
  obtain ⟨e1, e2, e3, e4, _⟩ := rank_facts
  cases a <;> cases b <;> simp only [typeOrder, ne_eq, not_true_eq_false] at hr <;>
    first
      | (exfalso; omega)
      | simp [cmp, partialCmp, numPartialCmp, cmpF64ToNumber, asI128, asU128, intVal, isInteger,
          typeOrder]

theorem eqV_cross (a b : Value) (hr : a.typeOrder ≠ b.typeOrder) : eqV a b = false := by
  obtain ⟨e1, e2, e3, e4, _⟩ := rank_facts
  cases a <;> cases b <;> simp only [typeOrder, ne_eq, not_true_eq_false] at hr <;>
    first
      | (exfalso; omega)
      | simp [eqV, numEq, cmpF64ToNumber, asI128, asU128, intVal, isInteger]

/-- Two numbers of any widths / floatness compare by exact value. -/
theorem cmp_num {a b : Value} (ha : WF a) (hb : WF b) (na : a.isNumber = true)
    (nb : b.isNumber = true) : cmp a b = EV.cmp (ev a) (ev b) := by
  apply cmp_of_partialCmp
  rw [← C13_partial_cmp_exact a b (ha.isNum na) (hb.isNum nb)]
  cases a <;> cases b <;> simp [isNumber] at na nb <;> rfl

theorem eqV_num {a b : Value} (ha : WF a) (hb : WF b) (na : a.isNumber = true)
    (nb : b.isNumber = true) : eqV a b = (EV.cmp (ev a) (ev b) == .eq) := by
  rw [← C13_eq_exact a b (ha.isNum na) (hb.isNum nb)]
  cases a <;> cases b <;> simp [isNumber] at na nb <;> rfl

theorem cmp_bool (x y : Bool) : cmp (.bool x) (.bool y) = cmpBool x y := by
  simp [cmp, partialCmp]
theorem cmp_str (s1 s2 : Bool) (x y : List Char) : cmp (.str s1 x) (.str s2 y) = cmpStr x y := by
  simp [cmp, partialCmp]
theorem cmp_bytes (x y : List Nat) : cmp (.bytes x) (.bytes y) = lexCmp cmpNat x y := by
  simp [cmp, partialCmp]
theorem cmp_none : cmp .none .none = .eq := by simp [cmp, partialCmp]
theorem cmp_undef : cmp .undef .undef = .eq := by simp [cmp, partialCmp]

theorem entryCmp_eq_pairCmp : entryCmp = pairCmp Key.cmpK cmp := by
  funext a b; simp only [entryCmp, pairCmp]; cases Key.cmpK a.1 b.1 <;> rfl

/-! ### inversion: the rank determines the kind -/

theorem inv_bool {a : Value} (h : a.typeOrder = Gen.valueRankBool) : ∃ x, a = .bool x := by
  cases a <;> simp only [typeOrder, Gen.valueRankBool, Gen.valueRankU64, Gen.valueRankI64, Gen.valueRankU128, Gen.valueRankI128, Gen.valueRankF64, Gen.valueRankString, Gen.valueRankArray, Gen.valueRankMap, Gen.valueRankBytes, Gen.valueRankNone, Gen.valueRankUndefined] at h <;> first | exact ⟨_, rfl⟩ | omega
theorem inv_num {a : Value} (h : a.typeOrder = Gen.valueRankU64) : a.isNumber = true := by
  cases a <;> simp only [typeOrder, Gen.valueRankBool, Gen.valueRankU64, Gen.valueRankI64, Gen.valueRankU128, Gen.valueRankI128, Gen.valueRankF64, Gen.valueRankString, Gen.valueRankArray, Gen.valueRankMap, Gen.valueRankBytes, Gen.valueRankNone, Gen.valueRankUndefined] at h <;> first | rfl | omega
theorem inv_str {a : Value} (h : a.typeOrder = Gen.valueRankString) : ∃ s x, a = .str s x := by
  cases a <;> simp only [typeOrder, Gen.valueRankBool, Gen.valueRankU64, Gen.valueRankI64, Gen.valueRankU128, Gen.valueRankI128, Gen.valueRankF64, Gen.valueRankString, Gen.valueRankArray, Gen.valueRankMap, Gen.valueRankBytes, Gen.valueRankNone, Gen.valueRankUndefined] at h <;> first | exact ⟨_, _, rfl⟩ | omega
theorem inv_bytes {a : Value} (h : a.typeOrder = Gen.valueRankBytes) : ∃ x, a = .bytes x := by
  cases a <;> simp only [typeOrder, Gen.valueRankBool, Gen.valueRankU64, Gen.valueRankI64, Gen.valueRankU128, Gen.valueRankI128, Gen.valueRankF64, Gen.valueRankString, Gen.valueRankArray, Gen.valueRankMap, Gen.valueRankBytes, Gen.valueRankNone, Gen.valueRankUndefined] at h <;> first | exact ⟨_, rfl⟩ | omega
theorem inv_arr {a : Value} (h : a.typeOrder = Gen.valueRankArray) : ∃ x, a = .arr x := by
  cases a <;> simp only [typeOrder, Gen.valueRankBool, Gen.valueRankU64, Gen.valueRankI64, Gen.valueRankU128, Gen.valueRankI128, Gen.valueRankF64, Gen.valueRankString, Gen.valueRankArray, Gen.valueRankMap, Gen.valueRankBytes, Gen.valueRankNone, Gen.valueRankUndefined] at h <;> first | exact ⟨_, rfl⟩ | omega
theorem inv_map {a : Value} (h : a.typeOrder = Gen.valueRankMap) : ∃ x, a = .map x := by
  cases a <;> simp only [typeOrder, Gen.valueRankBool, Gen.valueRankU64, Gen.valueRankI64, Gen.valueRankU128, Gen.valueRankI128, Gen.valueRankF64, Gen.valueRankString, Gen.valueRankArray, Gen.valueRankMap, Gen.valueRankBytes, Gen.valueRankNone, Gen.valueRankUndefined] at h <;> first | exact ⟨_, rfl⟩ | omega
/-- the two remaining kinds -/
theorem inv_rest {a : Value} (hB : a.typeOrder ≠ Gen.valueRankBool)
    (hN : a.typeOrder ≠ Gen.valueRankU64) (hS : a.typeOrder ≠ Gen.valueRankString)
    (hY : a.typeOrder ≠ Gen.valueRankBytes) (hA : a.typeOrder ≠ Gen.valueRankArray)
    (hM : a.typeOrder ≠ Gen.valueRankMap) : a = .none ∨ a = .undef := by
  cases a <;> simp only [typeOrder, Gen.valueRankBool, Gen.valueRankU64, Gen.valueRankI64, Gen.valueRankU128, Gen.valueRankI128, Gen.valueRankF64, Gen.valueRankString, Gen.valueRankArray, Gen.valueRankMap, Gen.valueRankBytes, Gen.valueRankNone, Gen.valueRankUndefined] at hB hN hS hY hA hM <;>
    first | exact Or.inl rfl | exact Or.inr rfl | omega

theorem none_undef_rank : Gen.valueRankNone ≠ Gen.valueRankUndefined := by decide

/-! ### the order laws, by induction on the size of the operands -/

/-- The domain at stage `n`: well-formed values of size below `n`. -/
def Dn (n : Nat) (v : Value) : Prop := WF v ∧ size v < n

theorem laws_step (n : Nat) (ih : OrdLaws (Dn n) cmp) : OrdLaws (Dn (n + 1)) cmp := by
  apply rank_laws typeOrder
  · intro a b _ _ hr; exact cmp_cross a b hr
  · intro r
    -- same rank: same kind
    by_cases hB : r = Gen.valueRankBool
    · refine ((cmpBool_laws.comap (fun v : Value => match v with | .bool x => x | _ => false)).mono
        (D' := fun a => Dn (n + 1) a ∧ a.typeOrder = r) (fun _ _ => trivial)).of_eq ?_
      intro a b ⟨_, ha⟩ ⟨_, hb⟩
      obtain ⟨x, rfl⟩ := inv_bool (ha.trans hB)
      obtain ⟨y, rfl⟩ := inv_bool (hb.trans hB)
      exact cmp_bool _ _
    by_cases hN : r = Gen.valueRankU64
    · refine ((EV_cmp_laws.comap ev).mono
        (D' := fun a => Dn (n + 1) a ∧ a.typeOrder = r) (fun a _ => ev_wf a)).of_eq ?_
      intro a b ⟨⟨wa, _⟩, ha⟩ ⟨⟨wb, _⟩, hb⟩
      exact cmp_num wa wb (inv_num (ha.trans hN)) (inv_num (hb.trans hN))
    by_cases hS : r = Gen.valueRankString
    · refine ((cmpStr_laws.comap (fun v : Value => match v with | .str _ x => x | _ => [])).mono
        (D' := fun a => Dn (n + 1) a ∧ a.typeOrder = r) (fun _ _ => trivial)).of_eq ?_
      intro a b ⟨_, ha⟩ ⟨_, hb⟩
      obtain ⟨s1, x, rfl⟩ := inv_str (ha.trans hS)
      obtain ⟨s2, y, rfl⟩ := inv_str (hb.trans hS)
      exact cmp_str _ _ _ _
    by_cases hY : r = Gen.valueRankBytes
    · refine ((cmpBytes_laws.comap (fun v : Value => match v with | .bytes x => x | _ => [])).mono
        (D' := fun a => Dn (n + 1) a ∧ a.typeOrder = r) (fun _ _ => trivial)).of_eq ?_
      intro a b ⟨_, ha⟩ ⟨_, hb⟩
      obtain ⟨x, rfl⟩ := inv_bytes (ha.trans hY)
      obtain ⟨y, rfl⟩ := inv_bytes (hb.trans hY)
      exact cmp_bytes _ _
    by_cases hA : r = Gen.valueRankArray
    · refine (((lexCmp_laws ih).comap (fun v : Value => match v with | .arr x => x | _ => [])).mono
        (D' := fun a => Dn (n + 1) a ∧ a.typeOrder = r) ?_).of_eq ?_
      · intro a ⟨⟨wa, sa⟩, ha⟩
        obtain ⟨xs, rfl⟩ := inv_arr (ha.trans hA)
        show ∀ x ∈ xs, Dn n x
        intro x hx
        exact ⟨wa.arr_mem x hx, by have := size_lt_of_mem hx; omega⟩
      · intro a b ⟨_, ha⟩ ⟨_, hb⟩
        obtain ⟨x, rfl⟩ := inv_arr (ha.trans hA)
        obtain ⟨y, rfl⟩ := inv_arr (hb.trans hA)
        exact cmp_arr _ _
    by_cases hM : r = Gen.valueRankMap
    · have pl : OrdLaws (fun p : Key × Value => True ∧ Dn n p.2) entryCmp := by
        rw [entryCmp_eq_pairCmp]; exact pairCmp_laws Key.cmp_laws ih
      refine (((lexCmp_laws pl).comap
        (fun v : Value => match v with | .map x => sortEntriesK x | _ => [])).mono
        (D' := fun a => Dn (n + 1) a ∧ a.typeOrder = r) ?_).of_eq ?_
      · intro a ⟨⟨wa, sa⟩, ha⟩
        obtain ⟨es, rfl⟩ := inv_map (ha.trans hM)
        show ∀ e ∈ sortEntriesK es, True ∧ Dn n e.2
        intro e he
        have he' : e ∈ es := (mem_sortBy _ e es).1 he
        exact ⟨trivial, wa.map_mem e he', by have := size_lt_of_mem_entries he'; omega⟩
      · intro a b ⟨_, ha⟩ ⟨_, hb⟩
        obtain ⟨x, rfl⟩ := inv_map (ha.trans hM)
        obtain ⟨y, rfl⟩ := inv_map (hb.trans hM)
        exact cmp_map _ _
    -- none / undefined
    have two : ∀ a : Value, a.typeOrder = r → a = .none ∨ a = .undef := fun a ha =>
      inv_rest (by rw [ha]; exact hB) (by rw [ha]; exact hN) (by rw [ha]; exact hS)
        (by rw [ha]; exact hY) (by rw [ha]; exact hA) (by rw [ha]; exact hM)
    have same : ∀ a b : Value, a.typeOrder = r → b.typeOrder = r → cmp a b = .eq := by
      intro a b ha hb
      rcases two a ha with rfl | rfl <;> rcases two b hb with rfl | rfl
      · exact cmp_none
      · exact absurd (ha.trans hb.symm) none_undef_rank
      · exact absurd (hb.trans ha.symm) none_undef_rank
      · exact cmp_undef
    refine ⟨?_, ?_⟩
    · intro a b ⟨_, ha⟩ ⟨_, hb⟩
      rw [same a b ha hb, same b a hb ha]; rfl
    · intro a b c ⟨_, ha⟩ ⟨_, hb⟩ ⟨_, hc⟩ _ _
      rw [same a c ha hc]; decide

theorem laws_n (n : Nat) : OrdLaws (Dn n) cmp := by
  induction n with
  | zero =>
    exact ⟨fun a _ da _ => absurd da.2 (Nat.not_lt_zero _),
      fun a _ _ da _ _ => absurd da.2 (Nat.not_lt_zero _)⟩
  | succ n ih => exact laws_step n ih

/-- **`Value::cmp` is a total preorder on all well-formed values** (nested arrays and maps of any
depth and mix of kinds). -/
theorem cmp_laws : OrdLaws WF cmp where
  rev a b wa wb :=
    (laws_n (size a + size b + 1)).rev a b ⟨wa, by omega⟩ ⟨wb, by omega⟩
  le_trans a b c wa wb wc :=
    (laws_n (size a + size b + size c + 1)).le_trans a b c ⟨wa, by omega⟩ ⟨wb, by omega⟩ ⟨wc, by omega⟩

end Value
end Tera
