/-
`f64::rem_euclid` in the model: the exact Euclidean remainder (integer `%` on the operands'
values in units of `2^-1074`), rounded once — exact whenever the C remainder is non-negative.
-/
import TeraModel.Lemmas.SoftFloatOps
namespace Tera.SoftFloat
open F64

/-- Two canonical pairs with the same value are the same pair. -/
theorem canonical_lt_absurd (m1 k1 m2 k2 : Nat) (h1 : m1 < 2 ^ 53) (c2 : 2 ^ 52 ≤ m2 ∨ k2 = 0)
    (h : m1 * 2 ^ k1 = m2 * 2 ^ k2) (hk : k1 < k2) : False := by
  have hm2 : 2 ^ 52 ≤ m2 := by rcases c2 with h' | h' <;> [exact h'; omega]
  obtain ⟨d, rfl⟩ : ∃ d, k2 = d + 1 + k1 := ⟨k2 - k1 - 1, by omega⟩
  rw [Nat.pow_add, ← Nat.mul_assoc] at h
  have h' : m1 = m2 * 2 ^ (d + 1) := Nat.eq_of_mul_eq_mul_right (Nat.two_pow_pos k1) h
  have : 2 ≤ 2 ^ (d + 1) := by
    have := Nat.pow_le_pow_right (show 2 > 0 by omega) (show 1 ≤ d + 1 by omega)
    simpa using this
  have : 2 ^ 52 * 2 ≤ m2 * 2 ^ (d + 1) := Nat.mul_le_mul hm2 this
  omega

theorem canonical_unique (m1 k1 m2 k2 : Nat) (h1 : m1 < 2 ^ 53) (c1 : 2 ^ 52 ≤ m1 ∨ k1 = 0)
    (h2 : m2 < 2 ^ 53) (c2 : 2 ^ 52 ≤ m2 ∨ k2 = 0) (h : m1 * 2 ^ k1 = m2 * 2 ^ k2) :
    m1 = m2 ∧ k1 = k2 := by
  have hk : k1 = k2 := by
    rcases Nat.lt_trichotomy k1 k2 with hlt | heq | hgt
    · exact absurd hlt (fun hlt => canonical_lt_absurd m1 k1 m2 k2 h1 c2 h hlt)
    · exact heq
    · exact absurd hgt (fun hgt => canonical_lt_absurd m2 k2 m1 k1 h2 c1 h.symm hgt)
  subst hk
  exact ⟨Nat.eq_of_mul_eq_mul_right (Nat.two_pow_pos k1) h, rfl⟩

/-- Rounding the value of a canonical float gives that float back. -/
theorem roundDyadic_of_canonical (s : Bool) (m k : Nat) (hm : m < 2 ^ 53)
    (hc : 2 ^ 52 ≤ m ∨ k = 0) (hk : k ≤ 2045) :
    roundDyadic s (m * 2 ^ k) (2 ^ 1074) = .fin s m ((k : Int) - 1074) := by
  obtain ⟨m2, k2, hR, heq⟩ := roundDyadic_spec s (m * 2 ^ k) (2 ^ 1074) (Nat.two_pow_pos _)
  have hex := hR.exact (Nat.two_pow_pos _) m k hm rfl
  obtain ⟨e1, e2⟩ := canonical_unique m2 k2 m k hR.lt hR.normal_or_sub hm hc hex
  subst e1 e2
  rw [heq]; simp only [hk, if_true]

theorem cmpInt_lt_iff (a b : Int) : (cmpInt a b == Ordering.lt) = true ↔ a < b := by
  unfold cmpInt
  by_cases h : a < b
  · simp [h]
  · by_cases h2 : a = b <;> simp [h, h2]

theorem lt_zero_iff (s : Bool) (m : Nat) (e : Int) :
    F64.lt (.fin s m e) ZERO_F = true ↔ (s = true ∧ m ≠ 0) := by
  have hnum : (F64.fin s m e).num < 0 ↔ (s = true ∧ m ≠ 0) := by
    rw [num_fin]
    have hp : (0 : Int) < 2 ^ e.toNat := by positivity
    cases s
    · simp only [sgn, Bool.false_eq_true, if_false, false_and, iff_false, not_lt, one_mul]
      positivity
    · simp only [sgn, if_true, true_and]
      constructor
      · intro h hm; subst hm; simp at h
      · intro hm
        have : (0 : Int) < m := by exact_mod_cast Nat.pos_of_ne_zero hm
        have : 0 < (m : Int) * 2 ^ e.toNat := Int.mul_pos this hp
        linarith
  have hz : ZERO_F = .fin false 0 0 := by decide
  have hp : F64.partialCmp (.fin s m e) (.fin false 0 0)
      = some (cmpInt ((F64.fin s m e).num * (((F64.fin false 0 0).den : Nat) : Int))
          ((F64.fin false 0 0).num * (((F64.fin s m e).den : Nat) : Int))) := rfl
  have key : ∀ c : Ordering, ((some c : Option Ordering) == some Ordering.lt) = (c == Ordering.lt) := by
    intro c; cases c <;> rfl
  have e1 : (F64.fin false 0 0).num = 0 := by simp [F64.num]
  have e2 : (F64.fin false 0 0).den = 1 := by simp [F64.den]
  unfold F64.lt
  rw [hz, hp, key, cmpInt_lt_iff, e1, e2]
  simp only [Nat.cast_one, mul_one, zero_mul]
  exact hnum

/-- **`rem_euclid`.**  For representable operands and `b ≠ 0`, with `ua`, `ub` the operands in
units of `2^-1074` (integers): the result of `a.rem_euclid(b)` is the Euclidean remainder
`ua % ub` (Lean's `Int.emod`: `0 ≤ ua % ub < |ub|`) rounded to nearest-even — exactly that
remainder whenever it is representable, which is always the case when `a ≥ 0` or `b` divides `a`;
a zero remainder keeps the sign of `a` (as the hardware does: `-6.0 rem_euclid 3.0 = -0.0`). -/
theorem remEuclid_rounded (sa sb : Bool) (ma mb : Nat) (ea eb : Int)
    (ha : IsF64 (.fin sa ma ea)) (hb : IsF64 (.fin sb mb eb)) (hb0 : mb ≠ 0) :
    remEuclid (.fin sa ma ea) (.fin sb mb eb) =
      if units (.fin sa ma ea) % units (.fin sb mb eb) = 0 then zero sa
      else roundDyadic false (units (.fin sa ma ea) % units (.fin sb mb eb)).toNat (2 ^ 1074) := by
  obtain ⟨m, k, h1, h2, h3, h4, h5⟩ := fmod_fin_units sa sb ma mb ea eb ha hb hb0
  unfold remEuclid
  simp only []
  rw [h1]
  generalize hua : units (.fin sa ma ea) = ua at *
  generalize hub : units (.fin sb mb eb) = ub at *
  have hubne : ub ≠ 0 := by
    rw [← hub, units_fin]
    have : (2 : Int) ^ (eb + 1074).toNat ≠ 0 := by positivity
    have h' : (mb : Int) ≠ 0 := by exact_mod_cast hb0
    exact mul_ne_zero (mul_ne_zero (sgn_ne_zero sb) h') this
  have hur : units (.fin sa m ((k : Int) - 1074)) = sgn sa * (m : Int) * 2 ^ k := by
    rw [units_fin]; congr 2; omega
  rw [hur] at h5
  have hemod := @Int.emod_eq_tmod ua ub
  by_cases hneg : sa = true ∧ m ≠ 0
  · -- negative C remainder: add |b| and round
    have hlt : F64.lt (.fin sa m ((k : Int) - 1074)) ZERO_F = true := (lt_zero_iff _ _ _).mpr hneg
    simp only [hlt, if_true]
    obtain ⟨hs, hm0⟩ := hneg
    subst hs
    have hmpos : (0 : Int) < (m : Int) * 2 ^ k := by
      have : (0 : Int) < m := by exact_mod_cast Nat.pos_of_ne_zero hm0
      positivity
    have htm : ua.tmod ub < 0 := by rw [← h5]; simp only [sgn, if_true]; linarith
    -- ua < 0 and ub does not divide ua
    have hua0 : ¬ (0 ≤ ua) := fun h => by have := Int.tmod_nonneg ub h; omega
    have hdvd : ¬ (ub ∣ ua) := fun h => by have := Int.tmod_eq_zero_of_dvd h; omega
    have hcond : ¬ (0 ≤ ua ∨ ub ∣ ua) := by tauto
    simp only [hcond, if_false] at hemod
    have hlt2 : (ua.tmod ub).natAbs < ub.natAbs := by
      rw [Int.natAbs_tmod]; exact Nat.mod_lt _ (Int.natAbs_pos.mpr hubne)
    have hpos : 0 < ua % ub := by omega
    have hne0 : ua % ub ≠ 0 := by omega
    simp only [hne0, if_false]
    -- the sum r + |b| through T2
    unfold abs
    rw [add_fin]
    have hsum : sumNum (.fin true m ((k : Int) - 1074)) (.fin false mb eb) * 2 ^ 1074
        = (ua % ub) * (((F64.fin true m ((k : Int) - 1074)).den : Int) * ((F64.fin false mb eb).den : Int)) := by
      unfold sumNum
      have u1 := units_spec true m ((k : Int) - 1074) (by omega)
      have u2 := units_spec false mb eb hb.2.1
      rw [hur] at u1
      have hubabs : units (.fin false mb eb) = (ub.natAbs : Int) := by
        rw [← hub, units_fin, units_fin, Int.natAbs_mul, Int.natAbs_mul, sgn_natAbs, Int.natAbs_pow]
        simp [sgn]
      rw [hubabs] at u2
      rw [hemod, ← h5]
      linear_combination (((F64.fin false mb eb).den : Int)) * (-u1) + (((F64.fin true m ((k : Int) - 1074)).den : Int)) * (-u2)
    have hdpos : (0 : Int) < ((F64.fin true m ((k : Int) - 1074)).den : Int) * ((F64.fin false mb eb).den : Int) := by
      rw [den_fin, den_fin]; positivity
    have hspos : 0 < sumNum (.fin true m ((k : Int) - 1074)) (.fin false mb eb) := by
      have : 0 < (ua % ub) * (((F64.fin true m ((k : Int) - 1074)).den : Int) * ((F64.fin false mb eb).den : Int)) :=
        Int.mul_pos hpos hdpos
      rw [← hsum] at this
      have h2p : (0 : Int) < 2 ^ 1074 := by positivity
      exact (mul_pos_iff_of_pos_right h2p).mp this
    have hs0 : sumNum (.fin true m ((k : Int) - 1074)) (.fin false mb eb) ≠ 0 := by omega
    have hsn : ¬ (sumNum (.fin true m ((k : Int) - 1074)) (.fin false mb eb) < 0) := by omega
    simp only [hs0, if_false, hsn, decide_false]
    apply roundDyadic_congr
    · rw [den_fin, den_fin]; exact Nat.mul_pos (Nat.two_pow_pos _) (Nat.two_pow_pos _)
    · exact Nat.two_pow_pos _
    · have e2 : (((ua % ub).toNat : Nat) : Int) = ua % ub := by omega
      have : (((sumNum (.fin true m ((k : Int) - 1074)) (.fin false mb eb)).natAbs * 2 ^ 1074 : Nat) : Int)
          = (((ua % ub).toNat * ((F64.fin true m ((k : Int) - 1074)).den * (F64.fin false mb eb).den) : Nat) : Int) := by
        push_cast
        rw [abs_of_pos hspos, e2]
        exact hsum
      exact_mod_cast this
  · -- non-negative C remainder: returned as is, and it is the Euclidean remainder
    have hlt : ¬ (F64.lt (.fin sa m ((k : Int) - 1074)) ZERO_F = true) := fun h => hneg ((lt_zero_iff _ _ _).mp h)
    simp only [hlt]
    have htm : 0 ≤ ua.tmod ub := by
      rw [← h5]
      by_cases hm0 : m = 0
      · subst hm0; simp
      · have hs : sa = false := by
          cases sa
          · rfl
          · exact absurd ⟨rfl, hm0⟩ hneg
        subst hs
        simp only [sgn, Bool.false_eq_true, if_false, one_mul]
        positivity
    -- then ua % ub = tmod
    have hcond : ua % ub = ua.tmod ub := by
      by_cases hc : 0 ≤ ua ∨ ub ∣ ua
      · simp only [hc, if_true] at hemod; simpa using hemod
      · have hua0 : ua < 0 := by
          by_contra h; exact hc (Or.inl (by omega))
        have h1' : (-ua).tmod ub = -(ua.tmod ub) := Int.neg_tmod ua ub
        have h2' : 0 ≤ (-ua).tmod ub := Int.tmod_nonneg ub (by omega)
        have h0 : ua.tmod ub = 0 := by omega
        exact absurd (Or.inr (Int.dvd_of_tmod_eq_zero h0)) hc
    rw [hcond, ← h5]
    by_cases hm0 : m = 0
    · subst hm0
      have hk0 : k = 0 := by rcases h4 with h | h <;> omega
      subst hk0
      simp [zero]
    · have hs : sa = false := by
        cases sa
        · rfl
        · exact absurd ⟨rfl, hm0⟩ hneg
      subst hs
      have hpos : (0 : Int) < (m : Int) * 2 ^ k := by
        have : (0 : Int) < m := by exact_mod_cast Nat.pos_of_ne_zero hm0
        positivity
      have hne : sgn false * (m : Int) * 2 ^ k ≠ 0 := by simp only [sgn, Bool.false_eq_true, if_false, one_mul]; omega
      simp only [hne, if_false]
      have e : (sgn false * (m : Int) * 2 ^ k).toNat = m * 2 ^ k := by
        simp only [sgn, Bool.false_eq_true, if_false, one_mul]
        have : ((m * 2 ^ k : Nat) : Int) = (m : Int) * 2 ^ k := by push_cast; ring
        omega
      rw [e, roundDyadic_of_canonical false m k h2 h4 h3]
      simp

/-! ### `trunc` -/

theorem Rounded.no_overflow {N den m k m' k' : Nat} (h : Rounded N den m k)
    (he : m * 2 ^ k = m' * 2 ^ k') (hm' : m' < 2 ^ 53) (hk' : k' ≤ 2045) : k ≤ 2045 := by
  by_contra hc
  have hk2 : 2046 ≤ k := by omega
  have hm : 2 ^ 52 ≤ m := by
    rcases h.normal_or_sub with h' | h'
    · exact h'
    · omega
  have h1 : 2 ^ 52 * 2 ^ 2046 ≤ m * 2 ^ k :=
    Nat.mul_le_mul hm (Nat.pow_le_pow_right (by omega) hk2)
  have h2 : m' * 2 ^ k' < 2 ^ 53 * 2 ^ k' :=
    Nat.mul_lt_mul_of_pos_right hm' (Nat.two_pow_pos _)
  have h3 : 2 ^ 53 * 2 ^ k' ≤ 2 ^ 53 * 2 ^ 2045 :=
    Nat.mul_le_mul_left _ (Nat.pow_le_pow_right (by omega) hk')
  have h4 : 2 ^ 53 * 2 ^ 2045 = 2 ^ 52 * 2 ^ 2046 := by rw [← Nat.pow_add, ← Nat.pow_add]
  omega

theorem trunc_fin (s : Bool) (m : Nat) (e : Int) :
    trunc (.fin s m e) = roundDyadic s (m * 2 ^ e.toNat / 2 ^ (-e).toNat) 1 := by
  show roundScaled s (m * 2 ^ e.toNat / 2 ^ (-e).toNat) 0 = _
  unfold roundScaled
  have e0 : (0 : Int).toNat = 0 := rfl
  have e0' : (-(0 : Int)).toNat = 0 := rfl
  rw [e0, e0', Nat.pow_zero, Nat.mul_one]

/-- **`trunc`.** For a representable operand `f64::trunc` is exact: the result is the canonical
float whose value is the integer `⌊|x|⌋` (`|x.num| / x.den`, natural-number division) with the
sign of `x` (also for a zero result: `trunc(-0.5) = -0.0`). -/
theorem trunc_fin_exact (s : Bool) (m : Nat) (e : Int) (hx : IsF64 (.fin s m e)) :
    ∃ m2 k2 : Nat, trunc (.fin s m e) = .fin s m2 ((k2 : Int) - 1074) ∧
      m2 * 2 ^ k2 = ((F64.fin s m e).num.natAbs / (F64.fin s m e).den) * 2 ^ 1074 ∧
      m2 < 2 ^ 53 ∧ (2 ^ 52 ≤ m2 ∨ k2 = 0) ∧ k2 ≤ 2045 := by
  obtain ⟨hm, he1, he2⟩ := hx
  rw [natAbs_num_fin, den_fin]
  rw [trunc_fin]
  generalize hn : m * 2 ^ e.toNat / 2 ^ (-e).toNat = n
  obtain ⟨m2, k2, hR, heq⟩ := roundDyadic_spec s n 1 (by omega)
  -- a 53-bit representation of n * 2^1074
  obtain ⟨m', k', hm', hk', hrep⟩ : ∃ m' k', m' < 2 ^ 53 ∧ k' ≤ 2045 ∧ n * 2 ^ 1074 = m' * 2 ^ k' := by
    by_cases hneg : e < 0
    · have e1 : e.toNat = 0 := by omega
      rw [e1, Nat.pow_zero, Nat.mul_one] at hn
      have hpos : 1 ≤ (-e).toNat := by omega
      have h2 : 2 ≤ 2 ^ (-e).toNat := by
        have := Nat.pow_le_pow_right (show 2 > 0 by omega) hpos
        simpa using this
      have hle : n ≤ m / 2 := by
        rw [← hn]; exact Nat.div_le_div_left h2 (by omega)
      exact ⟨n, 1074, by omega, by omega, rfl⟩
    · have e1 : (-e).toNat = 0 := by omega
      rw [e1, Nat.pow_zero, Nat.div_one] at hn
      rcases hm with hm | ⟨hm, he3⟩
      · refine ⟨m, e.toNat + 1074, hm, by omega, ?_⟩
        rw [← hn, Nat.pow_add]; ring
      · refine ⟨2 ^ 52, e.toNat + 1075, by omega, by omega, ?_⟩
        rw [← hn, hm, show e.toNat + 1075 = e.toNat + 1074 + 1 from rfl, Nat.pow_succ, Nat.pow_add]
        ring
  have hex := hR.exact (by omega) m' k' hm' (by rw [hrep]; ring)
  have hk := hR.no_overflow hex hm' hk'
  refine ⟨m2, k2, ?_, by rw [hex, hrep], hR.lt, hR.normal_or_sub, hk⟩
  rw [heq]; simp only [hk, if_true]

/-! ### Float comparisons with zero, on the integer value -/

theorem cmpInt_gt_iff (a b : Int) : (cmpInt a b == Ordering.gt) = true ↔ b < a := by
  unfold cmpInt
  by_cases h : a < b
  · simp [h]; omega
  · by_cases h2 : a = b
    · simp [h2]
    · simp [h, h2]; omega

theorem gt_zero_iff (s : Bool) (m : Nat) (e : Int) :
    F64.gt (.fin s m e) ZERO_F = true ↔ (s = false ∧ m ≠ 0) := by
  have hnum : 0 < (F64.fin s m e).num ↔ (s = false ∧ m ≠ 0) := by
    rw [num_fin]
    have hp : (0 : Int) < 2 ^ e.toNat := by positivity
    cases s
    · simp only [sgn, Bool.false_eq_true, if_false, one_mul, true_and]
      constructor
      · intro h hm; subst hm; simp at h
      · intro hm
        have : (0 : Int) < m := by exact_mod_cast Nat.pos_of_ne_zero hm
        exact Int.mul_pos this hp
    · simp only [sgn, if_true, Bool.true_eq_false, false_and, iff_false, not_lt]
      have : (0 : Int) ≤ (m : Int) * 2 ^ e.toNat := by positivity
      linarith
  have hz : ZERO_F = .fin false 0 0 := by decide
  have hp : F64.partialCmp (.fin s m e) (.fin false 0 0)
      = some (cmpInt ((F64.fin s m e).num * (((F64.fin false 0 0).den : Nat) : Int))
          ((F64.fin false 0 0).num * (((F64.fin s m e).den : Nat) : Int))) := rfl
  have key : ∀ c : Ordering, ((some c : Option Ordering) == some Ordering.gt) = (c == Ordering.gt) := by
    intro c; cases c <;> rfl
  have e1 : (F64.fin false 0 0).num = 0 := by simp [F64.num]
  have e2 : (F64.fin false 0 0).den = 1 := by simp [F64.den]
  unfold F64.gt
  rw [hz, hp, key, cmpInt_gt_iff, e1, e2]
  simp only [Nat.cast_one, mul_one, zero_mul]
  exact hnum

theorem units_neg_iff (s : Bool) (m : Nat) (e : Int) :
    units (.fin s m e) < 0 ↔ (s = true ∧ m ≠ 0) := by
  rw [units_fin]
  have hp : (0 : Int) < 2 ^ (e + 1074).toNat := by positivity
  cases s
  · simp only [sgn, Bool.false_eq_true, if_false, false_and, iff_false, not_lt, one_mul]
    positivity
  · simp only [sgn, if_true, true_and]
    constructor
    · intro h hm; subst hm; simp at h
    · intro hm
      have : (0 : Int) < m := by exact_mod_cast Nat.pos_of_ne_zero hm
      have : 0 < (m : Int) * 2 ^ (e + 1074).toNat := Int.mul_pos this hp
      linarith

theorem units_pos_iff (s : Bool) (m : Nat) (e : Int) :
    0 < units (.fin s m e) ↔ (s = false ∧ m ≠ 0) := by
  rw [units_fin]
  have hp : (0 : Int) < 2 ^ (e + 1074).toNat := by positivity
  cases s
  · simp only [sgn, Bool.false_eq_true, if_false, one_mul, true_and]
    constructor
    · intro h hm; subst hm; simp at h
    · intro hm
      have : (0 : Int) < m := by exact_mod_cast Nat.pos_of_ne_zero hm
      exact Int.mul_pos this hp
  · simp only [sgn, if_true, Bool.true_eq_false, false_and, iff_false, not_lt]
    have : (0 : Int) ≤ (m : Int) * 2 ^ (e + 1074).toNat := by positivity
    linarith

/-- `x < 0.0` and `x > 0.0` on finite floats are the sign of the integer value. -/
theorem lt_gt_zero_units (x : F64) (hx : x.isFinite = true) :
    (F64.lt x ZERO_F = true ↔ units x < 0) ∧ (F64.gt x ZERO_F = true ↔ 0 < units x) := by
  cases x <;> simp only [F64.isFinite, Bool.false_eq_true] at hx
  rename_i s m e
  exact ⟨by rw [lt_zero_iff, units_neg_iff], by rw [gt_zero_iff, units_pos_iff]⟩

end Tera.SoftFloat
