/-
The arithmetic of `Tera.SoftFloat` computes the exact result and rounds once: lemmas behind
`Tera.C13Float` (T2: `+ - * /` are `roundDyadic` of the exact rational result of the operands'
exact values `F64.num / F64.den`; T3: `fmod` is exact).
-/
import TeraModel.Lemmas.SoftFloatRound
import TeraModel.Lemmas.SoftFloatBits
import Mathlib.Tactic.LinearCombination
namespace Tera.SoftFloat
open F64

/-! ### `roundDyadic` is a function of the rational `num/den` -/

theorem rneDiv_scale (N D c : Nat) (hc : 0 < c) : rneDiv (N * c) (D * c) = rneDiv N D := by
  unfold rneDiv
  simp only [Nat.mul_div_mul_right N D hc, Nat.mul_mod_mul_right c N D]
  have e1 : (2 * (N % D * c) > D * c) ↔ (2 * (N % D) > D) := by
    rw [show 2 * (N % D * c) = (2 * (N % D)) * c by ring]
    exact Nat.mul_lt_mul_right hc
  have e2 : (2 * (N % D * c) = D * c) ↔ (2 * (N % D) = D) := by
    rw [show 2 * (N % D * c) = (2 * (N % D)) * c by ring]
    exact Nat.mul_right_cancel_iff hc
  have key : (decide (2 * (N % D * c) > D * c) || (2 * (N % D * c) == D * c && N / D % 2 == 1))
      = (decide (2 * (N % D) > D) || (2 * (N % D) == D && N / D % 2 == 1)) := by
    rw [Bool.eq_iff_iff]
    simp only [Bool.or_eq_true, Bool.and_eq_true, decide_eq_true_eq, beq_iff_eq, e1, e2]
  rw [key]

theorem roundDyadic_scale (neg : Bool) (num den c : Nat) (hc : 0 < c) :
    roundDyadic neg (num * c) (den * c) = roundDyadic neg num den := by
  unfold roundDyadic
  by_cases hd : den = 0
  · simp [hd]
  · have hdc : den * c ≠ 0 := Nat.mul_ne_zero hd (by omega)
    have e1 : num * c * 2 ^ 1074 = num * 2 ^ 1074 * c := Nat.mul_right_comm _ _ _
    simp only [hd, hdc, if_false, e1, Nat.mul_div_mul_right _ _ hc]
    have e2 : ∀ k, den * c * 2 ^ k = den * 2 ^ k * c := fun k => Nat.mul_right_comm _ _ _
    simp only [e2, rneDiv_scale _ _ _ hc]

/-- `roundDyadic` depends only on the rational `num/den`, not on the fraction representing it. -/
theorem roundDyadic_congr (neg : Bool) (n1 d1 n2 d2 : Nat) (h1 : 0 < d1) (h2 : 0 < d2)
    (h : n1 * d2 = n2 * d1) : roundDyadic neg n1 d1 = roundDyadic neg n2 d2 := by
  rw [← roundDyadic_scale neg n1 d1 d2 h2, ← roundDyadic_scale neg n2 d2 d1 h1, h, Nat.mul_comm d1 d2]

theorem roundScaled_eq (neg : Bool) (n : Nat) (e : Int) (num den : Nat) (hden : 0 < den)
    (h : n * 2 ^ e.toNat * den = num * 2 ^ (-e).toNat) :
    roundScaled neg n e = roundDyadic neg num den :=
  roundDyadic_congr neg _ _ _ _ (Nat.two_pow_pos _) hden h

/-! ### Signs and magnitudes across a positive scaling -/

theorem scaled_int (S s : Int) (A B : Nat) (hA : 0 < A) (hB : 0 < B) (h : S * A = s * B) :
    (S < 0 ↔ s < 0) ∧ (S = 0 ↔ s = 0) ∧ S.natAbs * A = s.natAbs * B := by
  have hA' : (0 : Int) < A := by exact_mod_cast hA
  have hB' : (0 : Int) < B := by exact_mod_cast hB
  refine ⟨?_, ?_, ?_⟩
  · constructor
    · intro hS
      by_contra hs
      have h1 : S * A < 0 := Int.mul_neg_of_neg_of_pos hS hA'
      have h2 : 0 ≤ s * B := Int.mul_nonneg (by omega) (by omega)
      omega
    · intro hs
      by_contra hS
      have h1 : s * B < 0 := Int.mul_neg_of_neg_of_pos hs hB'
      have h2 : 0 ≤ S * A := Int.mul_nonneg (by omega) (by omega)
      omega
  · constructor
    · intro hS
      subst hS
      have : s * B = 0 := by rw [← h]; simp
      rcases Int.mul_eq_zero.mp this with h0 | h0
      · exact h0
      · omega
    · intro hs
      subst hs
      have : S * A = 0 := by rw [h]; simp
      rcases Int.mul_eq_zero.mp this with h0 | h0
      · exact h0
      · omega
  · have := congrArg Int.natAbs h
    simpa [Int.natAbs_mul] using this

theorem sgn_ne_zero (s : Bool) : sgn s ≠ 0 := by cases s <;> simp [sgn]
theorem sgn_mul_self (s : Bool) : sgn s * sgn s = 1 := by cases s <;> simp [sgn]
theorem sgn_natAbs (s : Bool) : (sgn s).natAbs = 1 := by cases s <;> simp [sgn]

theorem num_fin (s : Bool) (m : Nat) (e : Int) :
    (F64.fin s m e).num = sgn s * (m : Int) * (2 : Int) ^ e.toNat := rfl
theorem den_fin (s : Bool) (m : Nat) (e : Int) : (F64.fin s m e).den = 2 ^ (-e).toNat := rfl

/-! ### T2: addition -/

/-- The exact sum of two finite floats as a fraction over `a.den * b.den`. -/
def sumNum (a b : F64) : Int := a.num * (b.den : Int) + b.num * (a.den : Int)

theorem add_fin_key (sa sb : Bool) (ma mb : Nat) (ea eb : Int) :
    (sgn sa * ((ma * 2 ^ (ea - min ea eb).toNat : Nat) : Int)
        + sgn sb * ((mb * 2 ^ (eb - min ea eb).toNat : Nat) : Int))
      * ((2 ^ (min ea eb).toNat * (2 ^ (-ea).toNat * 2 ^ (-eb).toNat) : Nat) : Int)
    = sumNum (.fin sa ma ea) (.fin sb mb eb) * ((2 ^ (-(min ea eb)).toNat : Nat) : Int) := by
  unfold sumNum
  rw [num_fin, num_fin, den_fin, den_fin]
  push_cast
  have h1 : (2 : Int) ^ (ea - min ea eb).toNat * (2 ^ (min ea eb).toNat * (2 ^ (-ea).toNat * 2 ^ (-eb).toNat))
      = 2 ^ ea.toNat * 2 ^ (-eb).toNat * 2 ^ (-(min ea eb)).toNat := by
    simp only [← pow_add]; congr 1; omega
  have h2 : (2 : Int) ^ (eb - min ea eb).toNat * (2 ^ (min ea eb).toNat * (2 ^ (-ea).toNat * 2 ^ (-eb).toNat))
      = 2 ^ eb.toNat * 2 ^ (-ea).toNat * 2 ^ (-(min ea eb)).toNat := by
    simp only [← pow_add]; congr 1; omega
  linear_combination (sgn sa * (ma : Int)) * h1 + (sgn sb * (mb : Int)) * h2

/-- **T2 (`+`).** For finite operands the sum is the exact sum `sumNum a b / (a.den * b.den)` of the
operands' exact values, rounded once; an exact zero sum is `+0` unless both operands are negative. -/
theorem add_fin (sa sb : Bool) (ma mb : Nat) (ea eb : Int) :
    add (.fin sa ma ea) (.fin sb mb eb) =
      if sumNum (.fin sa ma ea) (.fin sb mb eb) = 0 then zero (sa && sb)
      else roundDyadic (decide (sumNum (.fin sa ma ea) (.fin sb mb eb) < 0))
        (sumNum (.fin sa ma ea) (.fin sb mb eb)).natAbs
        ((F64.fin sa ma ea).den * (F64.fin sb mb eb).den) := by
  have key := add_fin_key sa sb ma mb ea eb
  unfold add
  simp only []
  generalize hS : (sgn sa * ((ma * 2 ^ (ea - min ea eb).toNat : Nat) : Int)
        + sgn sb * ((mb * 2 ^ (eb - min ea eb).toNat : Nat) : Int)) = S at *
  generalize hs : sumNum (.fin sa ma ea) (.fin sb mb eb) = s at *
  have hA : 0 < 2 ^ (min ea eb).toNat * (2 ^ (-ea).toNat * 2 ^ (-eb).toNat) :=
    Nat.mul_pos (Nat.two_pow_pos _) (Nat.mul_pos (Nat.two_pow_pos _) (Nat.two_pow_pos _))
  obtain ⟨k1, k2, k3⟩ := scaled_int S s _ _ hA (Nat.two_pow_pos _) key
  by_cases h0 : S = 0
  · have : s = 0 := k2.mp h0
    simp only [h0, this, if_true]
  · have : s ≠ 0 := fun h => h0 (k2.mpr h)
    simp only [h0, this, if_false]
    have hd : decide (S < 0) = decide (s < 0) := by simp only [k1]
    rw [hd, den_fin, den_fin]
    apply roundScaled_eq
    · exact Nat.mul_pos (Nat.two_pow_pos _) (Nat.two_pow_pos _)
    · rw [← k3]; ring

/-! ### T2: subtraction -/

/-- The exact difference of two finite floats as a fraction over `a.den * b.den`. -/
def diffNum (a b : F64) : Int := a.num * (b.den : Int) - b.num * (a.den : Int)

theorem sgn_not (s : Bool) : sgn (!s) = - sgn s := by cases s <;> simp [sgn]

theorem sumNum_neg (sa sb : Bool) (ma mb : Nat) (ea eb : Int) :
    sumNum (.fin sa ma ea) (.fin (!sb) mb eb) = diffNum (.fin sa ma ea) (.fin sb mb eb) := by
  unfold sumNum diffNum
  rw [num_fin, num_fin, num_fin, den_fin, den_fin, den_fin, sgn_not]
  ring

/-- **T2 (`-`).** -/
theorem sub_fin (sa sb : Bool) (ma mb : Nat) (ea eb : Int) :
    sub (.fin sa ma ea) (.fin sb mb eb) =
      if diffNum (.fin sa ma ea) (.fin sb mb eb) = 0 then zero (sa && !sb)
      else roundDyadic (decide (diffNum (.fin sa ma ea) (.fin sb mb eb) < 0))
        (diffNum (.fin sa ma ea) (.fin sb mb eb)).natAbs
        ((F64.fin sa ma ea).den * (F64.fin sb mb eb).den) := by
  unfold sub neg
  rw [add_fin, sumNum_neg]
  rfl

/-! ### T2: multiplication and division -/

theorem natAbs_num_fin (s : Bool) (m : Nat) (e : Int) :
    (F64.fin s m e).num.natAbs = m * 2 ^ e.toNat := by
  rw [num_fin, Int.natAbs_mul, Int.natAbs_mul, sgn_natAbs, Int.natAbs_pow]
  simp

/-- **T2 (`*`).** For finite operands the product is the exact product of the operands' exact
values rounded once; the sign is the exclusive or of the signs (also for zero results). -/
theorem mul_fin (sa sb : Bool) (ma mb : Nat) (ea eb : Int) :
    mul (.fin sa ma ea) (.fin sb mb eb) =
      roundDyadic (sa != sb) ((F64.fin sa ma ea).num * (F64.fin sb mb eb).num).natAbs
        ((F64.fin sa ma ea).den * (F64.fin sb mb eb).den) := by
  unfold mul
  rw [Int.natAbs_mul, natAbs_num_fin, natAbs_num_fin, den_fin, den_fin]
  apply roundScaled_eq
  · exact Nat.mul_pos (Nat.two_pow_pos _) (Nat.two_pow_pos _)
  · have h : 2 ^ (ea + eb).toNat * (2 ^ (-ea).toNat * 2 ^ (-eb).toNat)
        = 2 ^ ea.toNat * 2 ^ eb.toNat * 2 ^ (-(ea + eb)).toNat := by
      simp only [← pow_add]; congr 1; omega
    calc ma * mb * 2 ^ (ea + eb).toNat * (2 ^ (-ea).toNat * 2 ^ (-eb).toNat)
        = ma * mb * (2 ^ (ea + eb).toNat * (2 ^ (-ea).toNat * 2 ^ (-eb).toNat)) := by ring
      _ = ma * mb * (2 ^ ea.toNat * 2 ^ eb.toNat * 2 ^ (-(ea + eb)).toNat) := by rw [h]
      _ = ma * 2 ^ ea.toNat * (mb * 2 ^ eb.toNat) * 2 ^ (-(ea + eb)).toNat := by ring

/-- **T2 (`/`).** For finite operands and a non-zero divisor the quotient is the exact quotient
`(|a.num| * b.den) / (|b.num| * a.den)` of the operands' exact values rounded once, with the
exclusive or of the signs. -/
theorem div_fin (sa sb : Bool) (ma mb : Nat) (ea eb : Int) (hb : mb ≠ 0) :
    div (.fin sa ma ea) (.fin sb mb eb) =
      roundDyadic (sa != sb) ((F64.fin sa ma ea).num.natAbs * (F64.fin sb mb eb).den)
        ((F64.fin sb mb eb).num.natAbs * (F64.fin sa ma ea).den) := by
  unfold div
  simp only [hb, if_false]
  rw [natAbs_num_fin, natAbs_num_fin, den_fin, den_fin]
  have hmb : 0 < mb := Nat.pos_of_ne_zero hb
  apply roundDyadic_congr
  · exact Nat.mul_pos hmb (Nat.two_pow_pos _)
  · exact Nat.mul_pos (Nat.mul_pos hmb (Nat.two_pow_pos _)) (Nat.two_pow_pos _)
  · have h : 2 ^ (ea - eb).toNat * (2 ^ eb.toNat * 2 ^ (-ea).toNat)
        = 2 ^ ea.toNat * 2 ^ (-eb).toNat * 2 ^ (eb - ea).toNat := by
      simp only [← pow_add]; congr 1; omega
    calc ma * 2 ^ (ea - eb).toNat * (mb * 2 ^ eb.toNat * 2 ^ (-ea).toNat)
        = ma * mb * (2 ^ (ea - eb).toNat * (2 ^ eb.toNat * 2 ^ (-ea).toNat)) := by ring
      _ = ma * mb * (2 ^ ea.toNat * 2 ^ (-eb).toNat * 2 ^ (eb - ea).toNat) := by rw [h]
      _ = ma * 2 ^ ea.toNat * 2 ^ (-eb).toNat * (mb * 2 ^ (eb - ea).toNat) := by ring

/-! ### Representable values and their integer value in units of `2^-1074` -/

/-- A finite binary64 value given by a significand of at most 53 bits and an exponent in range
(not necessarily normalised); the significand `2^53` itself is allowed below the top exponent
(`F64.roundNat` produces it when rounding carries).  Everything `F64.ofBits` decodes to a `fin`
(`ofBits_isF64`), and `F64.ofIntRNE` of any 128-bit integer (`ofIntRNE_isF64`), is one. -/
def IsF64 : F64 → Prop
  | .fin _ m e => (m < 2 ^ 53 ∨ (m = 2 ^ 53 ∧ e ≤ 970)) ∧ -1074 ≤ e ∧ e ≤ 971
  | _ => False

/-- The value of a finite float in units of `2^-1074`: an integer for every representable float. -/
def units : F64 → Int
  | .fin s m e => sgn s * (m : Int) * (2 : Int) ^ (e + 1074).toNat
  | _ => 0

theorem units_fin (s : Bool) (m : Nat) (e : Int) :
    units (.fin s m e) = sgn s * (m : Int) * (2 : Int) ^ (e + 1074).toNat := rfl

/-- `units` is the exact value (`num/den`) times `2^1074`. -/
theorem units_spec (s : Bool) (m : Nat) (e : Int) (he : -1074 ≤ e) :
    units (.fin s m e) * ((F64.fin s m e).den : Int) = (F64.fin s m e).num * 2 ^ 1074 := by
  rw [num_fin, den_fin, units_fin]
  push_cast
  have h : (2 : Int) ^ (e + 1074).toNat * 2 ^ (-e).toNat = 2 ^ e.toNat * 2 ^ 1074 := by
    simp only [← pow_add]; congr 1; omega
  linear_combination (sgn s * (m : Int)) * h

/-- A representable magnitude `n * 2^e` passes through `roundScaled` unchanged (no rounding). -/
theorem roundScaled_exact (neg : Bool) (n : Nat) (e : Int)
    (hn : n < 2 ^ 53 ∨ (n = 2 ^ 53 ∧ e ≤ 970)) (he : -1074 ≤ e) (he2 : e ≤ 971) :
    ∃ m k : Nat, roundScaled neg n e = .fin neg m ((k : Int) - 1074) ∧
      m * 2 ^ k = n * 2 ^ (e + 1074).toNat ∧ m < 2 ^ 53 ∧ (2 ^ 52 ≤ m ∨ k = 0) ∧ k ≤ 2045 := by
  unfold roundScaled
  obtain ⟨m, k, hR, heq⟩ := roundDyadic_spec neg (n * 2 ^ e.toNat) (2 ^ (-e).toNat) (Nat.two_pow_pos _)
  have hscale : n * 2 ^ e.toNat * 2 ^ 1074 = n * 2 ^ (e + 1074).toNat * 2 ^ (-e).toNat := by
    have h : 2 ^ e.toNat * 2 ^ 1074 = 2 ^ (e + 1074).toNat * 2 ^ (-e).toNat := by
      simp only [← pow_add]; congr 1; omega
    calc n * 2 ^ e.toNat * 2 ^ 1074 = n * (2 ^ e.toNat * 2 ^ 1074) := by ring
      _ = n * (2 ^ (e + 1074).toNat * 2 ^ (-e).toNat) := by rw [h]
      _ = n * 2 ^ (e + 1074).toNat * 2 ^ (-e).toNat := by ring
  -- a 53-bit representation (m', k') of the magnitude, k' ≤ 2045
  obtain ⟨m', k', hm', hk', hrep⟩ : ∃ m' k', m' < 2 ^ 53 ∧ k' ≤ 2045 ∧
      n * 2 ^ (e + 1074).toNat = m' * 2 ^ k' := by
    rcases hn with hn | ⟨hn, he3⟩
    · exact ⟨n, (e + 1074).toNat, hn, by omega, rfl⟩
    · refine ⟨2 ^ 52, (e + 1074).toNat + 1, by omega, by omega, ?_⟩
      rw [hn, Nat.pow_succ]; ring
  have hex := hR.exact (Nat.two_pow_pos _) m' k' hm' (by rw [hscale, hrep])
  rw [← hrep] at hex
  have hk : k ≤ 2045 := by
    by_contra hc
    have hk2 : 2046 ≤ k := by omega
    have hm : 2 ^ 52 ≤ m := by
      rcases hR.normal_or_sub with h | h
      · exact h
      · omega
    have h1 : 2 ^ 52 * 2 ^ 2046 ≤ m * 2 ^ k :=
      Nat.mul_le_mul hm (Nat.pow_le_pow_right (by omega) hk2)
    have h2 : m' * 2 ^ k' < 2 ^ 53 * 2 ^ k' :=
      Nat.mul_lt_mul_of_pos_right hm' (Nat.two_pow_pos _)
    have h3 : 2 ^ 53 * 2 ^ k' ≤ 2 ^ 53 * 2 ^ 2045 :=
      Nat.mul_le_mul_left _ (Nat.pow_le_pow_right (by omega) hk')
    have h4 : 2 ^ 53 * 2 ^ 2045 = 2 ^ 52 * 2 ^ 2046 := by rw [← Nat.pow_add, ← Nat.pow_add]
    omega
  refine ⟨m, k, ?_, hex, hR.lt, hR.normal_or_sub, hk⟩
  rw [heq]; simp only [hk, if_true]

/-- `i128 as f64` / `u128 as f64` in the model (`F64.ofIntRNE`) is a representable value. -/
theorem ofIntRNE_isF64 (n : Int) (hn : n.natAbs < 2 ^ 128) : IsF64 (F64.ofIntRNE n) := by
  unfold F64.ofIntRNE F64.roundNat
  simp only []
  generalize n.natAbs = N at *
  have hbl : bitLen N ≤ 128 := bitLen_le_of_lt N 128 hn
  by_cases h : bitLen N ≤ 53
  · simp only [h, if_true, IsF64]
    have h1 := lt_two_pow_bitLen N
    have h2 : 2 ^ bitLen N ≤ 2 ^ 53 := Nat.pow_le_pow_right (by omega) h
    omega
  · simp only [h, if_false, IsF64]
    have h1 := lt_two_pow_bitLen N
    have hq : N / 2 ^ (bitLen N - 53) < 2 ^ 53 := by
      apply Nat.div_lt_of_lt_mul
      rw [← Nat.pow_add]
      have : bitLen N - 53 + 53 = bitLen N := by omega
      rw [this]; exact h1
    split <;> omega

/-- A non-zero integer converts to a non-zero float. -/
theorem ofIntRNE_isZero (n : Int) (hn : n ≠ 0) : (F64.ofIntRNE n).isZero = false := by
  unfold F64.ofIntRNE F64.roundNat
  simp only []
  have hN : n.natAbs ≠ 0 := Int.natAbs_ne_zero.mpr hn
  generalize n.natAbs = N at *
  by_cases h : bitLen N ≤ 53
  · simp only [h, if_true, F64.isZero]
    simpa using hN
  · simp only [h, if_false, F64.isZero]
    have h1 := two_pow_bitLen_le N hN
    have hq : 2 ^ 52 ≤ N / 2 ^ (bitLen N - 53) := by
      rw [Nat.le_div_iff_mul_le (Nat.two_pow_pos _), ← Nat.pow_add]
      have : 52 + (bitLen N - 53) = bitLen N - 1 := by omega
      rw [this]; exact h1
    split <;> exact beq_eq_false_iff_ne.mpr (by omega)

/-! ### T3: `fmod` is exact -/

theorem fmod_fin_units (sa sb : Bool) (ma mb : Nat) (ea eb : Int)
    (ha : IsF64 (.fin sa ma ea)) (hb : IsF64 (.fin sb mb eb)) (hb0 : mb ≠ 0) :
    ∃ m k : Nat, fmod (.fin sa ma ea) (.fin sb mb eb) = .fin sa m ((k : Int) - 1074) ∧
      m < 2 ^ 53 ∧ k ≤ 2045 ∧ (2 ^ 52 ≤ m ∨ k = 0) ∧
      units (.fin sa m ((k : Int) - 1074)) = Int.tmod (units (.fin sa ma ea)) (units (.fin sb mb eb)) := by
  obtain ⟨ha1, ha2, ha3⟩ := ha
  obtain ⟨hb1, hb2, hb3⟩ := hb
  unfold fmod
  simp only [hb0, if_false]
  -- the remainder of the aligned significands has at most 53 bits
  have hR : ma * 2 ^ (ea - min ea eb).toNat % (mb * 2 ^ (eb - min ea eb).toNat) < 2 ^ 53 ∨
      (ma * 2 ^ (ea - min ea eb).toNat % (mb * 2 ^ (eb - min ea eb).toNat) = 2 ^ 53 ∧
        min ea eb ≤ 970) := by
    by_cases hle : ea ≤ eb
    · have : (ea - min ea eb).toNat = 0 := by omega
      rw [this, Nat.pow_zero, Nat.mul_one]
      have hmod := Nat.mod_le ma (mb * 2 ^ (eb - min ea eb).toNat)
      rcases ha1 with h | ⟨h, h'⟩
      · left; omega
      · by_cases hc : ma % (mb * 2 ^ (eb - min ea eb).toNat) < 2 ^ 53
        · exact Or.inl hc
        · right; constructor <;> omega
    · have : (eb - min ea eb).toNat = 0 := by omega
      rw [this, Nat.pow_zero, Nat.mul_one]
      have hmod := Nat.mod_lt (ma * 2 ^ (ea - min ea eb).toNat) (Nat.pos_of_ne_zero hb0)
      left
      rcases hb1 with h | ⟨h, _⟩ <;> omega
  obtain ⟨m, k, h1, h2, h3, h4, h5⟩ := roundScaled_exact sa _ (min ea eb) hR (by omega) (by omega)
  refine ⟨m, k, h1, h3, h5, h4, ?_⟩
  rw [units_fin, units_fin, units_fin]
  have e0 : ((k : Int) - 1074 + 1074).toNat = k := by omega
  rw [e0]
  -- both operands over the common unit c = 2^(min ea eb + 1074)
  generalize hc : (min ea eb + 1074).toNat = c at *
  have ea' : (2 : Int) ^ (ea + 1074).toNat = 2 ^ (ea - min ea eb).toNat * 2 ^ c := by
    rw [← pow_add]; congr 1; omega
  have eb' : (2 : Int) ^ (eb + 1074).toNat = 2 ^ (eb - min ea eb).toNat * 2 ^ c := by
    rw [← pow_add]; congr 1; omega
  rw [ea', eb']
  generalize hX : ma * 2 ^ (ea - min ea eb).toNat = X at *
  generalize hY : mb * 2 ^ (eb - min ea eb).toNat = Y at *
  have hcpos : (0 : Int) < 2 ^ c := by positivity
  have eX : sgn sa * (ma : Int) * (2 ^ (ea - min ea eb).toNat * 2 ^ c) = 2 ^ c * (sgn sa * (X : Int)) := by
    rw [← hX]; push_cast; ring
  have eY : sgn sb * (mb : Int) * (2 ^ (eb - min ea eb).toNat * 2 ^ c) = 2 ^ c * (sgn sb * (Y : Int)) := by
    rw [← hY]; push_cast; ring
  rw [eX, eY, Int.mul_tmod_mul_of_pos _ _ hcpos]
  have hmk : ((m : Int) * 2 ^ k) = ((X % Y : Nat) : Int) * 2 ^ c := by exact_mod_cast h2
  have hs : (sgn sa * (X : Int)).tmod (sgn sb * (Y : Int)) = sgn sa * ((X % Y : Nat) : Int) := by
    rw [Int.ofNat_tmod]
    cases sa <;> cases sb <;> simp [sgn, Int.neg_tmod, Int.tmod_neg]
  rw [hs]
  linear_combination (sgn sa) * hmk

end Tera.SoftFloat
