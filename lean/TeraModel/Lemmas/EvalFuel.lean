/-
Fuel is only a recursion bound: once a run does not end in the explicit `Err.fuel` outcome, more
fuel gives the same result (Model/Eval.lean).  Proved for two arbitrary fuel levels `a`, `b`
("whatever level `a` computes without running out, level `b` computes too") lifted one step at a
time, then instantiated to `n ≤ m`.
-/
import TeraModel.Model.Eval
namespace Tera

/-- "did not run out of fuel" -/
def NFu {α : Type} (r : Except Err α) : Prop := r ≠ .error .fuel

theorem NFu_ok {α : Type} (v : α) : NFu (Except.ok v : Except Err α) := by simp [NFu]

theorem NFu_err {α : Type} (e : Err) (h : e ≠ .fuel) : NFu (Except.error e : Except Err α) := by
  intro c
  injection c with c
  exact h c

/-- Level `b` reproduces every result level `a` reaches without running out of fuel. -/
structure FuelLe (env : Env) (a b : Nat) : Prop where
  expr : ∀ sc e r, evalExpr a env sc e = r → NFu r → evalExpr b env sc e = r
  opt : ∀ sc oe d r, evalOpt a env sc oe d = r → NFu r → evalOpt b env sc oe d = r
  arr : ∀ sc es r, evalArrayEntries a env sc es = r → NFu r → evalArrayEntries b env sc es = r
  mapE : ∀ sc es r, evalMapEntries a env sc es = r → NFu r → evalMapEntries b env sc es = r
  kw : ∀ sc es r, evalKwargs a env sc es = r → NFu r → evalKwargs b env sc es = r
  compr : ∀ sc bd c acc r, evalCompr a env sc bd c acc = r → NFu r → evalCompr b env sc bd c acc = r
  filters : ∀ sc fs v r, applyFilters a env sc fs v = r → NFu r → applyFilters b env sc fs v = r
  node : ∀ ae st n r, execNode a env ae st n = r → NFu r → execNode b env ae st n = r
  nodes : ∀ ae st ns r, execNodes a env ae st ns = r → NFu r → execNodes b env ae st ns = r
  for_ : ∀ ae st body r, execFor a env ae st body = r → NFu r → execFor b env ae st body = r

set_option hygiene false in
/-- One sub-call in the hypothesis `h : body = r` (with `hr : NFu r`): case on its result at level
`a`; an error ends the proof, a value is transported to level `b` in the goal. -/
macro "sub_call " hE:term " on " t:term : tactic => `(tactic| (
  cases h1 : $t
  case error =>
    rename_i er
    simp only [h1] at h
    subst h
    have he : er ≠ Err.fuel := by
      intro c
      subst c
      exact hr (by first | rfl | simp [Except.map])
    have h1b := $hE h1 (NFu_err _ he)
    simp only [h1b]
    try (first | rfl | simp [Except.map])
  rename_i v
  have h1b := $hE h1 (NFu_ok _)
  simp only [h1, h1b] at h ⊢
  clear h1 h1b))

theorem fuel_expr_step (env : Env) (a b : Nat) (H : FuelLe env a b) :
    ∀ sc e r, evalExpr (a + 1) env sc e = r → NFu r → evalExpr (b + 1) env sc e = r := by
  intro sc e r h hr
  cases e with
  | const v => simpa [evalExpr] using h
  | var name => simpa [evalExpr] using h
  | componentCall n k bd s => simpa [evalExpr] using h
  | array items =>
    simp only [evalExpr] at h ⊢
    sub_call (H.arr _ _ _) on (evalArrayEntries a env sc items)
    exact h
  | map entries =>
    simp only [evalExpr] at h ⊢
    sub_call (H.mapE _ _ _) on (evalMapEntries a env sc entries)
    exact h
  | getAttr base name opt =>
    simp only [evalExpr] at h ⊢
    sub_call (H.expr _ _ _) on (evalExpr a env sc base)
    exact h
  | getItem base sub opt =>
    simp only [evalExpr] at h ⊢
    sub_call (H.expr _ _ _) on (evalExpr a env sc base)
    sub_call (H.expr _ _ _) on (evalExpr a env sc sub)
    exact h
  | slice base start stop step opt =>
    simp only [evalExpr] at h ⊢
    sub_call (H.expr _ _ _) on (evalExpr a env sc base)
    sub_call (H.opt _ _ _ _) on (evalOpt a env sc start .none)
    sub_call (H.opt _ _ _ _) on (evalOpt a env sc stop .none)
    sub_call (H.opt _ _ _ _) on (evalOpt a env sc step (.u64 1))
    exact h
  | filter base name kwargs =>
    simp only [evalExpr] at h ⊢
    sub_call (H.expr _ _ _) on (evalExpr a env sc base)
    sub_call (H.kw _ _ _) on (evalKwargs a env sc kwargs)
    exact h
  | test base name kwargs =>
    simp only [evalExpr] at h ⊢
    sub_call (H.expr _ _ _) on (evalExpr a env sc base)
    sub_call (H.kw _ _ _) on (evalKwargs a env sc kwargs)
    exact h
  | functionCall name kwargs =>
    simp only [evalExpr] at h ⊢
    sub_call (H.kw _ _ _) on (evalKwargs a env sc kwargs)
    exact h
  | ternary cond t f =>
    simp only [evalExpr] at h ⊢
    sub_call (H.expr _ _ _) on (evalExpr a env sc cond)
    cases hc : v.isTruthy <;> simp only [hc, Bool.false_eq_true, if_false, if_true] at h ⊢ <;>
      exact H.expr _ _ _ h hr
  | listComprehension body key value target cond =>
    simp only [evalExpr] at h ⊢
    sub_call (H.expr _ _ _) on (evalExpr a env sc target)
    cases hi : iterItems v with
    | none => simpa [hi] using h
    | some items =>
      simp only [hi] at h ⊢
      by_cases hc : (key.isSome && !v.isMap) = true
      · simpa [hc] using h
      · rw [if_neg hc] at h ⊢
        cases key with
        | none =>
          simp only at h ⊢
          sub_call (H.compr _ _ _ _ _) on (evalCompr a env (sc.pushLoop ((ForLoop.new items true).storeLocalName value)) body cond [])
          exact h
        | some k =>
          simp only at h ⊢
          sub_call (H.compr _ _ _ _ _) on (evalCompr a env (sc.pushLoop (((ForLoop.new items true).storeLocalName value).storeLocalName k)) body cond [])
          exact h
  | unary op x =>
    cases op <;> simp only [evalExpr] at h ⊢ <;>
    · sub_call (H.expr _ _ _) on (evalExpr a env sc x)
      exact h
  | binary op l r' =>
    cases op <;> simp only [evalExpr] at h ⊢
    case And =>
      sub_call (H.expr _ _ _) on (evalExpr a env sc l)
      cases hc : v.isTruthy <;> simp only [hc, Bool.not_true, Bool.not_false, Bool.false_eq_true, if_false, if_true] at h ⊢
      · exact h
      · exact H.expr _ _ _ h hr
    case Or =>
      sub_call (H.expr _ _ _) on (evalExpr a env sc l)
      cases hc : v.isTruthy <;> simp only [hc, Bool.false_eq_true, if_false, if_true] at h ⊢
      · exact H.expr _ _ _ h hr
      · exact h
    all_goals
      sub_call (H.expr _ _ _) on (evalExpr a env sc l)
      sub_call (H.expr _ _ _) on (evalExpr a env sc r')
      exact h

theorem fuel_opt_step (env : Env) (a b : Nat) (H : FuelLe env a b) :
    ∀ sc oe d r, evalOpt (a + 1) env sc oe d = r → NFu r → evalOpt (b + 1) env sc oe d = r := by
  intro sc oe d r h hr
  cases oe with
  | none => simpa [evalOpt] using h
  | some e =>
    simp only [evalOpt] at h ⊢
    exact H.expr _ _ _ h hr

theorem fuel_arr_step (env : Env) (a b : Nat) (H : FuelLe env a b) :
    ∀ sc es r, evalArrayEntries (a + 1) env sc es = r → NFu r → evalArrayEntries (b + 1) env sc es = r := by
  intro sc es r h hr
  cases es with
  | nil => simpa [evalArrayEntries] using h
  | cons entry rest =>
    cases entry <;> simp only [evalArrayEntries] at h ⊢ <;>
    · rename_i e
      sub_call (H.expr _ _ _) on (evalExpr a env sc e)
      sub_call (H.arr _ _ _) on (evalArrayEntries a env sc rest)
      exact h

theorem fuel_map_step (env : Env) (a b : Nat) (H : FuelLe env a b) :
    ∀ sc es r, evalMapEntries (a + 1) env sc es = r → NFu r → evalMapEntries (b + 1) env sc es = r := by
  intro sc es r h hr
  cases es with
  | nil => simpa [evalMapEntries] using h
  | cons entry rest =>
    cases entry <;> simp only [evalMapEntries] at h ⊢ <;>
    · rename_i e
      sub_call (H.expr _ _ _) on (evalExpr a env sc e)
      sub_call (H.mapE _ _ _) on (evalMapEntries a env sc rest)
      exact h

theorem fuel_kw_step (env : Env) (a b : Nat) (H : FuelLe env a b) :
    ∀ sc es r, evalKwargs (a + 1) env sc es = r → NFu r → evalKwargs (b + 1) env sc es = r := by
  intro sc es r h hr
  cases es with
  | nil => simpa [evalKwargs] using h
  | cons entry rest =>
    obtain ⟨n, e⟩ := entry
    simp only [evalKwargs] at h ⊢
    sub_call (H.expr _ _ _) on (evalExpr a env sc e)
    sub_call (H.kw _ _ _) on (evalKwargs a env sc rest)
    exact h

theorem fuel_compr_step (env : Env) (a b : Nat) (H : FuelLe env a b) :
    ∀ sc bd c acc r, evalCompr (a + 1) env sc bd c acc = r → NFu r → evalCompr (b + 1) env sc bd c acc = r := by
  intro sc bd c acc r h hr
  simp only [evalCompr] at h ⊢
  cases hl : sc.forLoops with
  | nil => simpa [hl] using h
  | cons l ls =>
    simp only [hl] at h ⊢
    cases hi : l.iterate ITERATE_END_IP with
    | none => simpa [hi] using h
    | some l' =>
      simp only [hi] at h ⊢
      cases c with
      | none =>
        simp only at h ⊢
        sub_call (H.expr _ _ _) on (evalExpr a env (sc.setTopLoop l') bd)
        exact H.compr _ _ _ _ _ h hr
      | some ce =>
        simp only at h ⊢
        sub_call (H.expr _ _ _) on (evalExpr a env (sc.setTopLoop l') ce)
        simp only [Except.map] at h ⊢
        cases hc : v.isTruthy <;> simp only [hc] at h ⊢
        · exact H.compr _ _ _ _ _ h hr
        · sub_call (H.expr _ _ _) on (evalExpr a env (sc.setTopLoop l') bd)
          exact H.compr _ _ _ _ _ h hr

theorem fuel_filters_step (env : Env) (a b : Nat) (H : FuelLe env a b) :
    ∀ sc fs v r, applyFilters (a + 1) env sc fs v = r → NFu r → applyFilters (b + 1) env sc fs v = r := by
  intro sc fs v0 r h hr
  cases fs with
  | nil => simpa [applyFilters] using h
  | cons f rest =>
    cases f
    case filter base name kwargs =>
      simp only [applyFilters] at h ⊢
      sub_call (H.kw _ _ _) on (evalKwargs a env sc kwargs)
      cases hf : applyFilter env name v0 v with
      | error e => simpa [hf] using h
      | ok v' =>
        simp only [hf] at h ⊢
        exact H.filters _ _ _ _ h hr
    all_goals simpa [applyFilters] using h

theorem fuel_nodes_step (env : Env) (a b : Nat) (H : FuelLe env a b) :
    ∀ ae st ns r, execNodes (a + 1) env ae st ns = r → NFu r → execNodes (b + 1) env ae st ns = r := by
  intro ae st ns r h hr
  cases ns with
  | nil => simpa [execNodes] using h
  | cons n rest =>
    simp only [execNodes] at h ⊢
    sub_call (H.node _ _ _ _) on (execNode a env ae st n)
    obtain ⟨s1, g1⟩ := v
    cases g1 <;> simp only at h ⊢
    · exact H.nodes _ _ _ _ h hr
    · exact h
    · exact h

theorem fuel_for_step (env : Env) (a b : Nat) (H : FuelLe env a b) :
    ∀ ae st body r, execFor (a + 1) env ae st body = r → NFu r → execFor (b + 1) env ae st body = r := by
  intro ae st body r h hr
  simp only [execFor] at h ⊢
  cases hl : st.scope.forLoops with
  | nil => simpa [hl] using h
  | cons l ls =>
    simp only [hl] at h ⊢
    cases hi : l.iterate ITERATE_END_IP with
    | none => simpa [hi] using h
    | some l' =>
      simp only [hi] at h ⊢
      sub_call (H.nodes _ _ _ _) on (execNodes a env ae { st with scope := st.scope.setTopLoop l' } body)
      obtain ⟨s1, g1⟩ := v
      cases g1 <;> simp only at h ⊢
      · exact H.for_ _ _ _ _ h hr
      · exact h
      · exact H.for_ _ _ _ _ h hr

theorem fuel_node_step (env : Env) (a b : Nat) (H : FuelLe env a b) :
    ∀ ae st n r, execNode (a + 1) env ae st n = r → NFu r → execNode (b + 1) env ae st n = r := by
  intro ae st n r h hr
  cases n with
  | content text => simpa [execNode] using h
  | block name body => simpa [execNode] using h
  | «break» => simpa [execNode] using h
  | «continue» => simpa [execNode] using h
  | expression e =>
    simp only [execNode] at h ⊢
    sub_call (H.expr _ _ _) on (evalExpr a env st.scope e)
    exact h
  | set name value g =>
    simp only [execNode] at h ⊢
    sub_call (H.expr _ _ _) on (evalExpr a env st.scope value)
    exact h
  | «if» cond body fb =>
    simp only [execNode] at h ⊢
    sub_call (H.expr _ _ _) on (evalExpr a env st.scope cond)
    cases hc : v.isTruthy <;> simp only [hc, Bool.false_eq_true, if_false, if_true] at h ⊢ <;>
      exact H.nodes _ _ _ _ h hr
  | «include» name =>
    simp only [execNode] at h ⊢
    cases ht : env.template name with
    | none => simpa [ht] using h
    | some t =>
      simp only [ht] at h ⊢
      sub_call (H.nodes _ _ _ _) on (execNodes a env t.autoescape ⟨Scope.included st.scope, [], []⟩ t.nodes)
      exact h
  | blockSet name filters body g =>
    simp only [execNode] at h ⊢
    sub_call (H.nodes _ _ _ _) on (execNodes a env ae { st with captures := [] :: st.captures } body)
    obtain ⟨s1, g1⟩ := v
    cases g1 <;> simp only at h ⊢
    · cases hc : s1.captures with
      | nil => simpa [hc] using h
      | cons buf restCaps =>
        simp only [hc] at h ⊢
        sub_call (H.filters _ _ _ _) on (applyFilters a env s1.scope filters (.str true buf))
        exact h
    · exact h
    · exact h
  | filterSection name kwargs body =>
    simp only [execNode] at h ⊢
    sub_call (H.nodes _ _ _ _) on (execNodes a env ae { st with captures := [] :: st.captures } body)
    obtain ⟨s1, g1⟩ := v
    cases g1 <;> simp only at h ⊢
    · cases hc : s1.captures with
      | nil => simpa [hc] using h
      | cons buf restCaps =>
        simp only [hc] at h ⊢
        sub_call (H.kw _ _ _) on (evalKwargs a env s1.scope kwargs)
        exact h
    · exact h
    · exact h
  | forLoop key value target body elseBody =>
    simp only [execNode] at h ⊢
    sub_call (H.expr _ _ _) on (evalExpr a env st.scope target)
    cases hi : iterItems v with
    | none => simpa [hi] using h
    | some items =>
      simp only [hi] at h ⊢
      by_cases hc : (key.isSome && !v.isMap) = true
      · simpa [hc] using h
      · rw [if_neg hc] at h ⊢
        cases key with
        | none =>
          simp only at h ⊢
          sub_call (H.for_ _ _ _ _) on (execFor a env ae { st with scope := st.scope.pushLoop ((ForLoop.new items).storeLocalName value) } body)
          generalize (!elseBody.isEmpty && match v.scope.forLoops with
            | l :: _ => !l.iterated
            | [] => false) = d at h ⊢
          cases d <;> simp only [Bool.false_eq_true, if_false, if_true] at h ⊢
          · exact h
          · exact H.nodes _ _ _ _ h hr
        | some k =>
          simp only at h ⊢
          sub_call (H.for_ _ _ _ _) on (execFor a env ae { st with scope := st.scope.pushLoop (((ForLoop.new items).storeLocalName value).storeLocalName k) } body)
          generalize (!elseBody.isEmpty && match v.scope.forLoops with
            | l :: _ => !l.iterated
            | [] => false) = d at h ⊢
          cases d <;> simp only [Bool.false_eq_true, if_false, if_true] at h ⊢
          · exact h
          · exact H.nodes _ _ _ _ h hr

theorem fuelLe_step (env : Env) (a b : Nat) (H : FuelLe env a b) : FuelLe env (a + 1) (b + 1) :=
  { expr := fuel_expr_step env a b H, opt := fuel_opt_step env a b H, arr := fuel_arr_step env a b H,
    mapE := fuel_map_step env a b H, kw := fuel_kw_step env a b H, compr := fuel_compr_step env a b H,
    filters := fuel_filters_step env a b H, node := fuel_node_step env a b H,
    nodes := fuel_nodes_step env a b H, for_ := fuel_for_step env a b H }

theorem fuelLe_zero (env : Env) (b : Nat) : FuelLe env 0 b := by
  constructor <;> intros <;> rename_i h hr <;> exfalso <;> apply hr <;> rw [← h] <;>
    simp [evalExpr, evalOpt, evalArrayEntries, evalMapEntries, evalKwargs, evalCompr, applyFilters,
      execNode, execNodes, execFor]

/-- More fuel reproduces every result that did not run out of fuel. -/
theorem fuelLe_add (env : Env) (n k : Nat) : FuelLe env n (n + k) := by
  induction n with
  | zero => exact fuelLe_zero env _
  | succ n ih =>
    have : n + 1 + k = (n + k) + 1 := by omega
    rw [this]
    exact fuelLe_step env n (n + k) ih

end Tera
