/-
Helper lemmas for C18 (Model/Writer.lean): `write_all` over an arbitrary writer, `Vec` and
`io::sink()` devices, and the simulation between a render into an arbitrary writer and the same
render into a `Vec`.
-/
import TeraModel.Model.Writer
namespace Tera.W

/-! ### `write_all` on an arbitrary writer -/

/-- One `write_all`: either everything was accepted and the writer never refused, or it refused
(ghost flag set, `Err` returned) having accepted a prefix of the buffer. -/
theorem writeAllAux_spec {σ : Type} (W : Writer σ) :
    ∀ (fuel : Nat) (s : Sink σ) (buf : Bytes), buf.length ≤ fuel →
      ((writeAllAux W fuel s buf).2 = true ∧ (writeAllAux W fuel s buf).1.accepted = s.accepted ++ buf
          ∧ (writeAllAux W fuel s buf).1.failed = s.failed) ∨
      ((writeAllAux W fuel s buf).2 = false ∧ (writeAllAux W fuel s buf).1.failed = true
          ∧ ∃ d, (writeAllAux W fuel s buf).1.accepted = s.accepted ++ d ∧ d <+: buf) := by
  intro fuel
  induction fuel with
  | zero =>
    intro s buf h
    cases buf with
    | nil => left; simp [writeAllAux]
    | cons b bs => simp at h
  | succ fuel ih =>
    intro s buf h
    cases buf with
    | nil => left; simp [writeAllAux]
    | cons b bs =>
      unfold writeAllAux
      cases hw : W.write s.st (b :: bs) with
      | mk st' res =>
        cases res with
        | err =>
          right
          refine ⟨rfl, rfl, [], ?_, List.nil_prefix⟩
          simp
        | ok n =>
          cases n with
          | zero =>
            right
            refine ⟨rfl, rfl, [], ?_, List.nil_prefix⟩
            simp
          | succ n =>
            simp only
            have hlen : ((b :: bs).drop (n + 1)).length ≤ fuel := by
              simp only [List.length_drop, List.length_cons] at *
              omega
            have := ih { st := st', accepted := s.accepted ++ (b :: bs).take (n + 1),
                         failed := s.failed, calls := s.calls + 1 } ((b :: bs).drop (n + 1)) hlen
            rcases this with ⟨h1, h2, h3⟩ | ⟨h1, h2, d, h3, h4⟩
            · left
              refine ⟨h1, ?_, h3⟩
              rw [h2, List.append_assoc, List.take_append_drop]
            · right
              refine ⟨h1, h2, (b :: bs).take (n + 1) ++ d, ?_, ?_⟩
              · rw [h3, List.append_assoc]
              · have : (b :: bs) = (b :: bs).take (n + 1) ++ (b :: bs).drop (n + 1) :=
                  (List.take_append_drop _ _).symm
                rw [this]
                rw [List.take_append_drop]
                rcases h4 with ⟨t, ht⟩
                exact ⟨t, by rw [List.append_assoc, ht, List.take_append_drop]⟩

theorem writeAll_spec {σ : Type} (W : Writer σ) (s : Sink σ) (buf : Bytes) :
    ((writeAll W s buf).2 = true ∧ (writeAll W s buf).1.accepted = s.accepted ++ buf
        ∧ (writeAll W s buf).1.failed = s.failed) ∨
    ((writeAll W s buf).2 = false ∧ (writeAll W s buf).1.failed = true
        ∧ ∃ d, (writeAll W s buf).1.accepted = s.accepted ++ d ∧ d <+: buf) :=
  writeAllAux_spec W buf.length s buf (Nat.le_refl _)

/-! ### `Vec` and `io::sink()` -/

theorem vec_writeChunks (b : Bytes) (cs : List Bytes) :
    vecDev.writeChunks b cs = (b ++ cs.flatten, true) := by
  induction cs generalizing b with
  | nil => simp [Device.writeChunks]
  | cons c cs ih =>
    simp only [Device.writeChunks, vecDev]
    have := ih (b ++ c)
    simp only [vecDev] at this
    rw [this]
    simp

theorem sink_writeChunks (cs : List Bytes) : sinkDev.writeChunks () cs = ((), true) := by
  induction cs with
  | nil => simp [Device.writeChunks]
  | cons c cs ih => simp only [Device.writeChunks, sinkDev] at *; exact ih

/-- A sequence of `write_all`s of one instruction on the caller's writer, against the same on a
`Vec` holding what the writer accepted so far. -/
theorem user_writeChunks_spec {σ : Type} (W : Writer σ) (cs : List Bytes) :
    ∀ (s : Sink σ),
      (((userDev W).writeChunks s cs).2 = true
          ∧ ((userDev W).writeChunks s cs).1.accepted = s.accepted ++ cs.flatten
          ∧ ((userDev W).writeChunks s cs).1.failed = s.failed) ∨
      (((userDev W).writeChunks s cs).2 = false ∧ ((userDev W).writeChunks s cs).1.failed = true
          ∧ ∃ d, ((userDev W).writeChunks s cs).1.accepted = s.accepted ++ d ∧ d <+: cs.flatten) := by
  induction cs with
  | nil => intro s; left; simp [Device.writeChunks]
  | cons c cs ih =>
    intro s
    simp only [Device.writeChunks, userDev]
    rcases writeAll_spec W s c with ⟨h1, h2, h3⟩ | ⟨h1, h2, d, h3, h4⟩
    · cases hw : writeAll W s c with
      | mk s' ok =>
        rw [hw] at h1 h2 h3
        simp only at h1 h2 h3
        subst h1
        simp only
        have := ih s'
        simp only [userDev] at this
        rcases this with ⟨g1, g2, g3⟩ | ⟨g1, g2, d, g3, g4⟩
        · left
          refine ⟨g1, ?_, ?_⟩
          · rw [g2, h2]; simp
          · rw [g3, h3]
        · right
          refine ⟨g1, g2, c ++ d, ?_, ?_⟩
          · rw [g3, h2]; simp
          · simp only [List.flatten_cons]
            rcases g4 with ⟨t, ht⟩
            exact ⟨t, by rw [List.append_assoc, ht]⟩
    · cases hw : writeAll W s c with
      | mk s' ok =>
        rw [hw] at h1 h2 h3
        simp only at h1 h2 h3
        subst h1
        simp only
        right
        refine ⟨trivial, h2, d, h3, ?_⟩
        simp only [List.flatten_cons]
        rcases h4 with ⟨t, ht⟩
        exact ⟨t ++ cs.flatten, by rw [← List.append_assoc, ht]⟩

/-! ### Devices that cannot fail -/

theorem writeChunks_nofail {δ : Type} (D : Device δ) (Le : δ → δ → Prop) (hr : ∀ o, Le o o)
    (ht : ∀ a b c, Le a b → Le b c → Le a c)
    (hw : ∀ o x, (D.writeAll o x).2 = true ∧ Le o (D.writeAll o x).1) (cs : List Bytes) :
    ∀ o, (D.writeChunks o cs).2 = true ∧ Le o (D.writeChunks o cs).1 := by
  induction cs with
  | nil => intro o; simp [Device.writeChunks, hr]
  | cons c cs ih =>
    intro o
    simp only [Device.writeChunks]
    have h := hw o c
    generalize D.writeAll o c = res at h
    obtain ⟨o', ok⟩ := res
    simp only at h
    obtain ⟨h1, h2⟩ := h
    subst h1
    simp only
    exact ⟨(ih o').1, ht _ _ _ h2 (ih o').2⟩

theorem nofail_interp (p : Prog) :
    ∀ {δ : Type} (D : Device δ) (Le : δ → δ → Prop), (∀ o, Le o o) → (∀ a b c, Le a b → Le b c → Le a c) →
      (∀ o x, (D.writeAll o x).2 = true ∧ Le o (D.writeAll o x).1) →
      ∀ (st : St) (o : δ), (interp D p st o).1 ≠ .io ∧ Le o (interp D p st o).2.2 := by
  induction p with
  | halt => intro δ D Le hr ht hw st o; simp [interp, hr]
  | fail c => intro δ D Le hr ht hw st o; simp [interp, hr]
  | panic c => intro δ D Le hr ht hw st o; simp [interp, hr]
  | write chunks k ih =>
    intro δ D Le hr ht hw st o
    simp only [interp]
    split
    · rw [vec_writeChunks]
      simp only
      exact ih D Le hr ht hw _ _
    · have h := writeChunks_nofail D Le hr ht hw chunks o
      generalize D.writeChunks o chunks = res at h
      obtain ⟨o', ok⟩ := res
      simp only at h
      obtain ⟨h1, h2⟩ := h
      subst h1
      simp only
      have hk := ih D Le hr ht hw st o'
      exact ⟨hk.1, ht _ _ _ h2 hk.2⟩
  | capture k ih => intro δ D Le hr ht hw st o; simp only [interp]; exact ih D Le hr ht hw _ _
  | endCapture k ih =>
    intro δ D Le hr ht hw st o
    simp only [interp]
    split
    · simp [hr]
    · exact ih _ D Le hr ht hw _ _
  | incl body k ihb ihk =>
    intro δ D Le hr ht hw st o
    simp only [interp]
    split
    · have hb := ihb D Le hr ht hw St.fresh o
      generalize interp D body St.fresh o = res at hb
      obtain ⟨r, st', o'⟩ := res
      have hk := ihk D Le hr ht hw st o'
      cases r <;> simp_all
      exact ht _ _ _ hb hk.2
    · rename_i buf rest _
      have hb := ihb vecDev (· <+: ·) (fun _ => List.prefix_refl _) (fun _ _ _ => List.IsPrefix.trans)
        (fun o x => ⟨rfl, List.prefix_append _ _⟩) St.fresh buf
      generalize interp vecDev body St.fresh buf = res at hb
      obtain ⟨r, st', o'⟩ := res
      have hk := ihk D Le hr ht hw { st with captureBuffers := o' :: rest } o
      cases r <;> simp_all
  | renderBlock name body k ihb ihk =>
    intro δ D Le hr ht hw st o
    simp only [interp]
    split
    · have hb := ihb vecDev (· <+: ·) (fun _ => List.prefix_refl _) (fun _ _ _ => List.IsPrefix.trans)
        (fun o x => ⟨rfl, List.prefix_append _ _⟩) { st with captureBuffers := [] } []
      generalize interp vecDev body { st with captureBuffers := [] } [] = res at hb
      obtain ⟨r, st', o'⟩ := res
      have hk := ihk D Le hr ht hw { st' with captureBuffers := st.captureBuffers, blockBuffer := o' } o
      cases r <;> simp_all
    · have hb := ihb D Le hr ht hw st o
      generalize interp D body st o = res at hb
      obtain ⟨r, st', o'⟩ := res
      have hk := ihk D Le hr ht hw st' o'
      cases r <;> simp_all
      exact ht _ _ _ hb hk.2
  | callSuper body k ihb ihk =>
    intro δ D Le hr ht hw st o
    simp only [interp]
    have hb := ihb vecDev (· <+: ·) (fun _ => List.prefix_refl _) (fun _ _ _ => List.IsPrefix.trans)
      (fun o x => ⟨rfl, List.prefix_append _ _⟩) { st with captureBuffers := [] } []
    generalize interp vecDev body { st with captureBuffers := [] } [] = res at hb
    obtain ⟨r, st', o'⟩ := res
    have hk := ihk o' D Le hr ht hw { st' with captureBuffers := st.captureBuffers } o
    cases r <;> simp_all
  | component body k ihb ihk =>
    intro δ D Le hr ht hw st o
    simp only [interp]
    have hb := ihb vecDev (· <+: ·) (fun _ => List.prefix_refl _) (fun _ _ _ => List.IsPrefix.trans)
      (fun o x => ⟨rfl, List.prefix_append _ _⟩) St.fresh []
    generalize interp vecDev body St.fresh [] = res at hb
    obtain ⟨r, st', o'⟩ := res
    have hk := ihk o' D Le hr ht hw st o
    cases r <;> simp_all

/-! ### Arbitrary writer against `Vec` -/


theorem vec_ok (o x : Bytes) : (vecDev.writeAll o x).2 = true ∧ o <+: (vecDev.writeAll o x).1 :=
  ⟨rfl, List.prefix_append _ _⟩

/-- A render into a `Vec` only appends to it. -/
theorem vec_prefix (p : Prog) (st : St) (b : Bytes) : b <+: (interp vecDev p st b).2.2 :=
  (nofail_interp p vecDev (· <+: ·) (fun _ => List.prefix_refl _) (fun _ _ _ => List.IsPrefix.trans)
    vec_ok st b).2

/-- A render into a `Vec` never ends in an I/O error. -/
theorem vec_ne_io (p : Prog) (st : St) (b : Bytes) : (interp vecDev p st b).1 ≠ .io :=
  (nofail_interp p vecDev (· <+: ·) (fun _ => List.prefix_refl _) (fun _ _ _ => List.IsPrefix.trans)
    vec_ok st b).1

/-- A render into `io::sink()` never ends in an I/O error. -/
theorem sink_ne_io (p : Prog) (st : St) : (interp sinkDev p st ()).1 ≠ .io :=
  (nofail_interp p sinkDev (fun _ _ => True) (fun _ => trivial) (fun _ _ _ _ _ => trivial)
    (fun _ _ => ⟨rfl, trivial⟩) st ()).1

/-- Outcome of a render into an arbitrary writer (`r1`) against the same render into a `Vec`
that starts with what the writer had accepted (`r2`). -/
def Sim {σ : Type} (r1 : Res × St × Sink σ) (r2 : Res × St × Bytes) : Prop :=
  (r1.1 = r2.1 ∧ r1.2.1 = r2.2.1 ∧ r1.2.2.accepted = r2.2.2 ∧ r1.2.2.failed = false) ∨
  (r1.1 = .io ∧ r1.2.2.failed = true ∧ r1.2.2.accepted <+: r2.2.2)

theorem sim {σ : Type} (W : Writer σ) (p : Prog) :
    ∀ (st : St) (s : Sink σ) (b : Bytes), s.accepted = b → s.failed = false →
      Sim (interp (userDev W) p st s) (interp vecDev p st b) := by
  induction p with
  | halt => intro st s b h1 h2; left; simp [interp, h1, h2]
  | fail c => intro st s b h1 h2; left; simp [interp, h1, h2]
  | panic c => intro st s b h1 h2; left; simp [interp, h1, h2]
  | write chunks k ih =>
    intro st s b h1 h2
    simp only [interp]
    split
    · rw [vec_writeChunks]
      exact ih _ s b h1 h2
    · rw [vec_writeChunks]
      simp only
      rcases user_writeChunks_spec W chunks s with ⟨g1, g2, g3⟩ | ⟨g1, g2, d, g3, g4⟩
      · generalize (userDev W).writeChunks s chunks = res at g1 g2 g3
        obtain ⟨s', ok⟩ := res
        simp only at g1 g2 g3
        subst g1
        simp only
        exact ih st s' _ (by rw [g2, h1]) (by rw [g3, h2])
      · generalize (userDev W).writeChunks s chunks = res at g1 g2 g3
        obtain ⟨s', ok⟩ := res
        simp only at g1 g2 g3
        subst g1
        simp only
        right
        refine ⟨rfl, g2, ?_⟩
        simp only
        rw [g3, h1]
        have := vec_prefix k st (b ++ chunks.flatten)
        refine List.IsPrefix.trans ?_ this
        rcases g4 with ⟨t, ht⟩
        exact ⟨t, by rw [List.append_assoc, ht]⟩
  | capture k ih => intro st s b h1 h2; simp only [interp]; exact ih _ s b h1 h2
  | endCapture k ih =>
    intro st s b h1 h2
    simp only [interp]
    split
    · left; simp [h1, h2]
    · exact ih _ _ s b h1 h2
  | incl body k ihb ihk =>
    intro st s b h1 h2
    simp only [interp]
    split
    · have hb := ihb St.fresh s b h1 h2
      have hp := vec_prefix body St.fresh b
      generalize interp (userDev W) body St.fresh s = res1 at hb
      generalize interp vecDev body St.fresh b = res2 at hb hp
      obtain ⟨r1, st1, s1⟩ := res1
      obtain ⟨r2, st2, b2⟩ := res2
      rcases hb with ⟨e1, e2, e3, e4⟩ | ⟨e1, e2, e3⟩
      · simp only at e1 e2 e3 e4
        subst e1
        cases r1 with
        | ok => simp only; exact ihk st s1 b2 e3 e4
        | io => left; simp [e3, e4]
        | fail c => left; simp [e3, e4]
        | panic c => left; simp [e3, e4]
      · simp only at e1 e2 e3
        subst e1
        simp only
        right
        refine ⟨rfl, e2, ?_⟩
        cases r2 with
        | ok => simp only; exact List.IsPrefix.trans e3 (vec_prefix k st b2)
        | io => simpa using e3
        | fail c => simpa using e3
        | panic c => simpa using e3
    · rename_i buf rest _
      generalize interp vecDev body St.fresh buf = res
      obtain ⟨r, st', o'⟩ := res
      cases r with
      | ok => simp only; exact ihk _ s b h1 h2
      | io => left; simp [h1, h2]
      | fail c => left; simp [h1, h2]
      | panic c => left; simp [h1, h2]
  | renderBlock name body k ihb ihk =>
    intro st s b h1 h2
    simp only [interp]
    split
    · generalize interp vecDev body { st with captureBuffers := [] } [] = res
      obtain ⟨r, st', o'⟩ := res
      cases r with
      | ok => simp only; exact ihk _ s b h1 h2
      | io => left; simp [h1, h2]
      | fail c => left; simp [h1, h2]
      | panic c => left; simp [h1, h2]
    · have hb := ihb st s b h1 h2
      have hp := vec_prefix body st b
      generalize interp (userDev W) body st s = res1 at hb
      generalize interp vecDev body st b = res2 at hb hp
      obtain ⟨r1, st1, s1⟩ := res1
      obtain ⟨r2, st2, b2⟩ := res2
      rcases hb with ⟨e1, e2, e3, e4⟩ | ⟨e1, e2, e3⟩
      · simp only at e1 e2 e3 e4
        subst e1 e2
        cases r1 with
        | ok => simp only; exact ihk st1 s1 b2 e3 e4
        | io => left; simp [e3, e4]
        | fail c => left; simp [e3, e4]
        | panic c => left; simp [e3, e4]
      · simp only at e1 e2 e3
        subst e1
        simp only
        right
        refine ⟨rfl, e2, ?_⟩
        cases r2 with
        | ok => simp only; exact List.IsPrefix.trans e3 (vec_prefix k st2 b2)
        | io => simpa using e3
        | fail c => simpa using e3
        | panic c => simpa using e3
  | callSuper body k ihb ihk =>
    intro st s b h1 h2
    simp only [interp]
    generalize interp vecDev body { st with captureBuffers := [] } [] = res
    obtain ⟨r, st', o'⟩ := res
    cases r with
    | ok => simp only; exact ihk _ _ s b h1 h2
    | io => left; simp [h1, h2]
    | fail c => left; simp [h1, h2]
    | panic c => left; simp [h1, h2]
  | component body k ihb ihk =>
    intro st s b h1 h2
    simp only [interp]
    generalize interp vecDev body St.fresh [] = res
    obtain ⟨r, st', o'⟩ := res
    cases r with
    | ok => simp only; exact ihk _ _ s b h1 h2
    | io => left; simp [h1, h2]
    | fail c => left; simp [h1, h2]
    | panic c => left; simp [h1, h2]

/-! ### Writers that never refuse -/

/-- The writer never refuses a non-empty buffer (it may accept it in pieces). -/
def NeverFails {σ : Type} (W : Writer σ) : Prop :=
  ∀ st buf, buf ≠ [] → ∃ n, (W.write st buf).2 = .ok (n + 1)

theorem writeAllAux_neverFails {σ : Type} (W : Writer σ) (h : NeverFails W) :
    ∀ (fuel : Nat) (s : Sink σ) (buf : Bytes), buf.length ≤ fuel →
      (writeAllAux W fuel s buf).2 = true ∧ (writeAllAux W fuel s buf).1.failed = s.failed := by
  intro fuel
  induction fuel with
  | zero =>
    intro s buf hl
    cases buf with
    | nil => simp [writeAllAux]
    | cons b bs => simp at hl
  | succ fuel ih =>
    intro s buf hl
    cases buf with
    | nil => simp [writeAllAux]
    | cons b bs =>
      unfold writeAllAux
      obtain ⟨n, hn⟩ := h s.st (b :: bs) (by simp)
      cases hw : W.write s.st (b :: bs) with
      | mk st' res =>
        rw [hw] at hn
        simp only at hn
        subst hn
        simp only
        have hlen : ((b :: bs).drop (n + 1)).length ≤ fuel := by
          simp only [List.length_drop, List.length_cons] at *
          omega
        exact ih _ _ hlen

/-! ### Invariants of a particular writer -/

/-- Anything every `write_all` preserves (whether it succeeds or not) is preserved by a whole
`interpret` call on that device. -/
theorem interp_preserves (p : Prog) :
    ∀ {δ : Type} (D : Device δ) (R : δ → δ → Prop), (∀ o, R o o) → (∀ a b c, R a b → R b c → R a c) →
      (∀ o x, R o (D.writeAll o x).1) →
      ∀ (st : St) (o : δ), R o (interp D p st o).2.2 := by
  have chunks : ∀ {δ : Type} (D : Device δ) (R : δ → δ → Prop), (∀ o, R o o) →
      (∀ a b c, R a b → R b c → R a c) → (∀ o x, R o (D.writeAll o x).1) →
      ∀ (cs : List Bytes) (o : δ), R o (D.writeChunks o cs).1 := by
    intro δ D R hr ht hw cs
    induction cs with
    | nil => intro o; exact hr o
    | cons c cs ih =>
      intro o
      simp only [Device.writeChunks]
      have h := hw o c
      generalize D.writeAll o c = res at h
      obtain ⟨o', ok⟩ := res
      cases ok
      · exact h
      · exact ht _ _ _ h (ih o')
  induction p with
  | halt => intro δ D R hr ht hw st o; exact hr o
  | fail c => intro δ D R hr ht hw st o; exact hr o
  | panic c => intro δ D R hr ht hw st o; exact hr o
  | write cs k ih =>
    intro δ D R hr ht hw st o
    simp only [interp]
    split
    · rw [vec_writeChunks]; exact ih D R hr ht hw _ _
    · have h := chunks D R hr ht hw cs o
      generalize D.writeChunks o cs = res at h
      obtain ⟨o', ok⟩ := res
      cases ok
      · exact h
      · exact ht _ _ _ h (ih D R hr ht hw st o')
  | capture k ih => intro δ D R hr ht hw st o; simp only [interp]; exact ih D R hr ht hw _ _
  | endCapture k ih =>
    intro δ D R hr ht hw st o
    simp only [interp]
    split
    · exact hr o
    · exact ih _ D R hr ht hw _ _
  | incl body k ihb ihk =>
    intro δ D R hr ht hw st o
    simp only [interp]
    split
    · have hb := ihb D R hr ht hw St.fresh o
      generalize interp D body St.fresh o = res at hb
      obtain ⟨r, st', o'⟩ := res
      have hk := ihk D R hr ht hw st o'
      cases r <;> first | exact ht _ _ _ hb hk | exact hb
    · rename_i buf rest _
      generalize interp vecDev body St.fresh buf = res
      obtain ⟨r, st', o'⟩ := res
      have hk := ihk D R hr ht hw { st with captureBuffers := o' :: rest } o
      cases r <;> first | exact hk | exact hr o
  | renderBlock name body k ihb ihk =>
    intro δ D R hr ht hw st o
    simp only [interp]
    split
    · generalize interp vecDev body { st with captureBuffers := [] } [] = res
      obtain ⟨r, st', o'⟩ := res
      have hk := ihk D R hr ht hw { st' with captureBuffers := st.captureBuffers, blockBuffer := o' } o
      cases r <;> first | exact hk | exact hr o
    · have hb := ihb D R hr ht hw st o
      generalize interp D body st o = res at hb
      obtain ⟨r, st', o'⟩ := res
      have hk := ihk D R hr ht hw st' o'
      cases r <;> first | exact ht _ _ _ hb hk | exact hb
  | callSuper body k ihb ihk =>
    intro δ D R hr ht hw st o
    simp only [interp]
    generalize interp vecDev body { st with captureBuffers := [] } [] = res
    obtain ⟨r, st', o'⟩ := res
    have hk := ihk o' D R hr ht hw { st' with captureBuffers := st.captureBuffers } o
    cases r <;> first | exact hk | exact hr o
  | component body k ihb ihk =>
    intro δ D R hr ht hw st o
    simp only [interp]
    generalize interp vecDev body St.fresh [] = res
    obtain ⟨r, st', o'⟩ := res
    have hk := ihk o' D R hr ht hw st o
    cases r <;> first | exact hk | exact hr o

/-- Accounting of the `acceptBytes` writer: accepted + remaining = initial budget, and it only
ever refuses with an empty budget. -/
def Budget (n : Nat) (s : Sink Nat) : Prop :=
  s.accepted.length + s.st = n ∧ (s.failed = true → s.st = 0)

theorem acceptBytes_writeAllAux (n : Nat) : ∀ (fuel : Nat) (s : Sink Nat) (buf : Bytes),
    Budget n s → Budget n (writeAllAux acceptBytes fuel s buf).1 := by
  intro fuel
  induction fuel with
  | zero => intro s buf h; cases buf <;> simpa [writeAllAux] using h
  | succ fuel ih =>
    intro s buf h
    cases buf with
    | nil => simpa [writeAllAux] using h
    | cons b bs =>
      unfold writeAllAux
      by_cases h0 : s.st = 0
      · simp only [acceptBytes, h0, if_true]
        obtain ⟨h1, _⟩ := h
        exact ⟨by simpa [h0] using h1, fun _ => rfl⟩
      · have hmin : min s.st (b :: bs).length = (min s.st (b :: bs).length - 1) + 1 := by
          have : 0 < min s.st (b :: bs).length := by simp; omega
          omega
        simp only [acceptBytes, h0, if_false]
        rw [hmin]
        simp only
        apply ih
        obtain ⟨h1, h2⟩ := h
        refine ⟨?_, ?_⟩
        · simp only [List.length_append, List.length_take] at *
          omega
        · intro hf
          exact absurd (h2 hf) h0

theorem acceptBytes_interp (n : Nat) (p : Prog) (st : St) (s : Sink Nat) (h : Budget n s) :
    Budget n (interp (userDev acceptBytes) p st s).2.2 :=
  interp_preserves p (userDev acceptBytes) (fun a b => Budget n a → Budget n b) (fun _ h => h)
    (fun _ _ _ h1 h2 h => h2 (h1 h))
    (fun o x h => acceptBytes_writeAllAux n x.length o x h) st s h


/-! ### Two arbitrary devices in step -/

/-- Outcome of a render on device 1 against the same render on a reference device 2 that never
fails: in step (`R`), or device 1 failed with the I/O error and `F` relates what it holds to
what the reference run went on to produce. -/
def Sim2 {δ1 δ2 : Type} (R F : δ1 → δ2 → Prop) (r1 : Res × St × δ1) (r2 : Res × St × δ2) : Prop :=
  (r1.1 = r2.1 ∧ r1.2.1 = r2.2.1 ∧ R r1.2.2 r2.2.2) ∨ (r1.1 = .io ∧ F r1.2.2 r2.2.2)

/-- one `write_all` on both devices, started in step -/
def StepOk {δ1 δ2 : Type} (D1 : Device δ1) (D2 : Device δ2) (R F : δ1 → δ2 → Prop) : Prop :=
  ∀ o1 o2 x, R o1 o2 →
    (((D1.writeAll o1 x).2 = true ∧ R (D1.writeAll o1 x).1 (D2.writeAll o2 x).1) ∨
     ((D1.writeAll o1 x).2 = false ∧ F (D1.writeAll o1 x).1 (D2.writeAll o2 x).1))

structure RefDev {δ1 δ2 : Type} (D2 : Device δ2) (F : δ1 → δ2 → Prop) : Prop where
  /-- the reference device never fails -/
  ok : ∀ o x, (D2.writeAll o x).2 = true
  /-- what is known after a failure stays true while the reference run goes on -/
  pers : ∀ o1 o2 x, F o1 o2 → F o1 (D2.writeAll o2 x).1

theorem ref_chunks {δ1 δ2 : Type} (D2 : Device δ2) (F : δ1 → δ2 → Prop) (h : RefDev D2 F)
    (cs : List Bytes) : ∀ (o1 : δ1) (o2 : δ2),
      (D2.writeChunks o2 cs).2 = true ∧ (F o1 o2 → F o1 (D2.writeChunks o2 cs).1) := by
  induction cs with
  | nil => intro o1 o2; exact ⟨rfl, id⟩
  | cons c cs ih =>
    intro o1 o2
    simp only [Device.writeChunks]
    have h1 := h.ok o2 c
    have h2 := h.pers o1 o2 c
    generalize D2.writeAll o2 c = res at h1 h2
    obtain ⟨o2', ok⟩ := res
    simp only at h1 h2
    subst h1
    exact ⟨(ih o1 o2').1, fun hf => (ih o1 o2').2 (h2 hf)⟩

/-- the reference run goes on: whatever `F` says stays true -/
theorem ref_interp {δ1 δ2 : Type} (D2 : Device δ2) (F : δ1 → δ2 → Prop) (h : RefDev D2 F)
    (p : Prog) (st : St) (o1 : δ1) (o2 : δ2) (hf : F o1 o2) : F o1 (interp D2 p st o2).2.2 :=
  interp_preserves p D2 (fun a b => F o1 a → F o1 b) (fun _ h => h) (fun _ _ _ h1 h2 h => h2 (h1 h))
    (fun o x hf => h.pers o1 o x hf) st o2 hf

theorem sim2_chunks {δ1 δ2 : Type} (D1 : Device δ1) (D2 : Device δ2) (R F : δ1 → δ2 → Prop)
    (hW : StepOk D1 D2 R F) (hR : RefDev D2 F) (cs : List Bytes) :
    ∀ o1 o2, R o1 o2 →
      (((D1.writeChunks o1 cs).2 = true ∧ R (D1.writeChunks o1 cs).1 (D2.writeChunks o2 cs).1) ∨
       ((D1.writeChunks o1 cs).2 = false ∧ F (D1.writeChunks o1 cs).1 (D2.writeChunks o2 cs).1)) := by
  induction cs with
  | nil => intro o1 o2 h; exact Or.inl ⟨rfl, h⟩
  | cons c cs ih =>
    intro o1 o2 h
    simp only [Device.writeChunks]
    have hcase := hW o1 o2 c h
    have h2 := hR.ok o2 c
    generalize D1.writeAll o1 c = res1 at hcase
    generalize D2.writeAll o2 c = res2 at h2 hcase
    obtain ⟨o1', ok1⟩ := res1
    obtain ⟨o2', ok2⟩ := res2
    simp only at h2 hcase
    subst h2
    simp only
    rcases hcase with ⟨e1, e2⟩ | ⟨e1, e2⟩
    · subst e1
      exact ih o1' o2' e2
    · subst e1
      simp only
      right
      exact ⟨trivial, (ref_chunks D2 F hR cs o1' o2').2 e2⟩

theorem sim2 {δ1 δ2 : Type} (D1 : Device δ1) (D2 : Device δ2) (R F : δ1 → δ2 → Prop)
    (hW : StepOk D1 D2 R F) (hR : RefDev D2 F) (p : Prog) :
    ∀ (st : St) (o1 : δ1) (o2 : δ2), R o1 o2 → Sim2 R F (interp D1 p st o1) (interp D2 p st o2) := by
  induction p with
  | halt => intro st o1 o2 h; left; exact ⟨rfl, rfl, h⟩
  | fail c => intro st o1 o2 h; left; exact ⟨rfl, rfl, h⟩
  | panic c => intro st o1 o2 h; left; exact ⟨rfl, rfl, h⟩
  | write chunks k ih =>
    intro st o1 o2 h
    simp only [interp]
    split
    · rw [vec_writeChunks]
      exact ih _ o1 o2 h
    · have hc := sim2_chunks D1 D2 R F hW hR chunks o1 o2 h
      have h2 := (ref_chunks D2 F hR chunks o1 o2).1
      generalize D1.writeChunks o1 chunks = res1 at hc
      generalize D2.writeChunks o2 chunks = res2 at h2 hc
      obtain ⟨o1', ok1⟩ := res1
      obtain ⟨o2', ok2⟩ := res2
      simp only at h2 hc
      subst h2
      simp only
      rcases hc with ⟨e1, e2⟩ | ⟨e1, e2⟩
      · subst e1; exact ih st o1' o2' e2
      · subst e1
        right
        exact ⟨rfl, ref_interp D2 F hR k st o1' o2' e2⟩
  | capture k ih => intro st o1 o2 h; simp only [interp]; exact ih _ o1 o2 h
  | endCapture k ih =>
    intro st o1 o2 h
    simp only [interp]
    split
    · left; exact ⟨rfl, rfl, h⟩
    · exact ih _ _ o1 o2 h
  | incl body k ihb ihk =>
    intro st o1 o2 h
    simp only [interp]
    split
    · have hb := ihb St.fresh o1 o2 h
      generalize interp D1 body St.fresh o1 = res1 at hb
      generalize interp D2 body St.fresh o2 = res2 at hb
      obtain ⟨r1, st1, s1⟩ := res1
      obtain ⟨r2, st2, b2⟩ := res2
      rcases hb with ⟨e1, e2, e3⟩ | ⟨e1, e2⟩
      · simp only at e1 e2 e3
        subst e1
        cases r1 with
        | ok => simp only; exact ihk st s1 b2 e3
        | io => left; exact ⟨rfl, rfl, e3⟩
        | fail c => left; exact ⟨rfl, rfl, e3⟩
        | panic c => left; exact ⟨rfl, rfl, e3⟩
      · simp only at e1 e2
        subst e1
        simp only
        right
        refine ⟨rfl, ?_⟩
        cases r2 with
        | ok => simp only; exact ref_interp D2 F hR k st s1 b2 e2
        | io => exact e2
        | fail c => exact e2
        | panic c => exact e2
    · rename_i buf rest _
      generalize interp vecDev body St.fresh buf = res
      obtain ⟨r, st', o'⟩ := res
      cases r with
      | ok => simp only; exact ihk _ o1 o2 h
      | io => left; exact ⟨rfl, rfl, h⟩
      | fail c => left; exact ⟨rfl, rfl, h⟩
      | panic c => left; exact ⟨rfl, rfl, h⟩
  | renderBlock name body k ihb ihk =>
    intro st o1 o2 h
    simp only [interp]
    split
    · generalize interp vecDev body { st with captureBuffers := [] } [] = res
      obtain ⟨r, st', o'⟩ := res
      cases r with
      | ok => simp only; exact ihk _ o1 o2 h
      | io => left; exact ⟨rfl, rfl, h⟩
      | fail c => left; exact ⟨rfl, rfl, h⟩
      | panic c => left; exact ⟨rfl, rfl, h⟩
    · have hb := ihb st o1 o2 h
      generalize interp D1 body st o1 = res1 at hb
      generalize interp D2 body st o2 = res2 at hb
      obtain ⟨r1, st1, s1⟩ := res1
      obtain ⟨r2, st2, b2⟩ := res2
      rcases hb with ⟨e1, e2, e3⟩ | ⟨e1, e2⟩
      · simp only at e1 e2 e3
        subst e1 e2
        cases r1 with
        | ok => simp only; exact ihk st1 s1 b2 e3
        | io => left; exact ⟨rfl, rfl, e3⟩
        | fail c => left; exact ⟨rfl, rfl, e3⟩
        | panic c => left; exact ⟨rfl, rfl, e3⟩
      · simp only at e1 e2
        subst e1
        simp only
        right
        refine ⟨rfl, ?_⟩
        cases r2 with
        | ok => simp only; exact ref_interp D2 F hR k st2 s1 b2 e2
        | io => exact e2
        | fail c => exact e2
        | panic c => exact e2
  | callSuper body k ihb ihk =>
    intro st o1 o2 h
    simp only [interp]
    generalize interp vecDev body { st with captureBuffers := [] } [] = res
    obtain ⟨r, st', o'⟩ := res
    cases r with
    | ok => simp only; exact ihk _ _ o1 o2 h
    | io => left; exact ⟨rfl, rfl, h⟩
    | fail c => left; exact ⟨rfl, rfl, h⟩
    | panic c => left; exact ⟨rfl, rfl, h⟩
  | component body k ihb ihk =>
    intro st o1 o2 h
    simp only [interp]
    generalize interp vecDev body St.fresh [] = res
    obtain ⟨r, st', o'⟩ := res
    cases r with
    | ok => simp only; exact ihk _ _ o1 o2 h
    | io => left; exact ⟨rfl, rfl, h⟩
    | fail c => left; exact ⟨rfl, rfl, h⟩
    | panic c => left; exact ⟨rfl, rfl, h⟩


/-! ### The call-index writer against the trace of `write_all` calls -/

/-- Reference device recording the non-empty `write_all` calls (each is exactly one `write`
call on a writer that accepts whole buffers). -/
def traceDev : Device (List Bytes) := { writeAll := fun t x => (if x = [] then t else t ++ [x], true) }

theorem failAtCall_writeAll (k : Nat) (s : Sink Nat) (x : Bytes) :
    writeAll (failAtCall k) s x =
      if x = [] then (s, true)
      else if s.st < k then
        ({ st := s.st + 1, accepted := s.accepted ++ x, failed := s.failed, calls := s.calls + 1 }, true)
      else ({ s with st := s.st + 1, failed := true, calls := s.calls + 1 }, false) := by
  cases x with
  | nil => simp [writeAll, writeAllAux]
  | cons b bs =>
    simp only [writeAll, List.length_cons, writeAllAux, failAtCall, reduceCtorEq, if_false]
    by_cases h : s.st < k
    · simp [h, writeAllAux]
    · simp [h]

def CallR (k : Nat) (s : Sink Nat) (t : List Bytes) : Prop :=
  s.failed = false ∧ s.st = t.length ∧ s.accepted = t.flatten ∧ t.length ≤ k

def CallF (k : Nat) (s : Sink Nat) (t : List Bytes) : Prop :=
  s.failed = true ∧ s.accepted = (t.take k).flatten ∧ k < t.length

theorem call_stepOk (k : Nat) : StepOk (userDev (failAtCall k)) traceDev (CallR k) (CallF k) := by
  intro s t x ⟨h1, h2, h3, h4⟩
  simp only [userDev, traceDev, failAtCall_writeAll]
  by_cases hx : x = []
  · left; simp [hx, CallR, h1, h2, h3, h4]
  · simp only [hx, if_false]
    by_cases hk : s.st < k
    · left
      simp only [hk, if_true, true_and]
      refine ⟨h1, by simp [h2], by simp [h3], by simp; omega⟩
    · right
      simp only [hk, if_false, true_and]
      have hkt : t.length = k := by omega
      refine ⟨rfl, ?_, by simp; omega⟩
      simp only
      rw [h3, List.take_append_of_le_length (by omega), List.take_of_length_le (by omega)]

theorem call_refDev (k : Nat) : RefDev (δ1 := Sink Nat) traceDev (CallF k) := by
  refine ⟨fun _ _ => rfl, ?_⟩
  intro s t x ⟨h1, h2, h3⟩
  simp only [traceDev]
  by_cases hx : x = []
  · simp [hx, CallF, h1, h2, h3]
  · simp only [hx, if_false]
    refine ⟨h1, ?_, by simp; omega⟩
    rw [h2, List.take_append_of_le_length (by omega)]

/-- `Vec` against the trace: the bytes are the concatenation of the recorded calls. -/
theorem trace_vec (p : Prog) (st : St) (t : List Bytes) (b : Bytes) (h : t.flatten = b) :
    (interp traceDev p st t).1 = (interp vecDev p st b).1 ∧
    (interp traceDev p st t).2.2.flatten = (interp vecDev p st b).2.2 := by
  have hs : StepOk traceDev vecDev (fun t b => t.flatten = b) (fun _ _ => False) := by
    intro t b x h
    left
    simp only [traceDev, vecDev, true_and]
    by_cases hx : x = []
    · simp [hx, h]
    · simp [hx, h]
  have hr : RefDev (δ1 := List Bytes) vecDev (fun _ _ => False) := ⟨fun _ _ => rfl, fun _ _ _ h => h⟩
  rcases sim2 traceDev vecDev _ _ hs hr p st t b h with ⟨e1, _, e3⟩ | ⟨_, e2⟩
  · exact ⟨e1, e3⟩
  · exact absurd e2 id


end Tera.W
