/-
Whether `add_raw_templates` succeeds is a function of the resulting map and the prefixes:
`finalize_templates` on two states with the same sources either succeeds on both or fails on both
(Model/Registry.lean), and the commit never fails after an accepting `derive`.
-/
import TeraModel.Lemmas.AcceptCongr
namespace Tera.Reg

theorem lookupNat_append (l : List (String × Nat)) (n : String) (v : Nat) (k : String) :
    lookupNat (l ++ [(n, v)]) k =
      match lookupNat l k with
      | some x => some x
      | none => if n = k then some v else none := by
  induction l with
  | nil =>
    by_cases h : n = k
    · simp [lookupNat, List.find?, h]
    · have : (n == k) = false := by simpa using h
      simp [lookupNat, List.find?, this, h]
  | cons e l ih =>
    obtain ⟨k', v'⟩ := e
    unfold lookupNat at ih ⊢
    by_cases h : k' = k
    · simp [List.find?, h]
    · have : (k' == k) = false := by simpa using h
      simp only [List.cons_append, List.find?, this]
      exact ih

theorem loop1_sizes_some (ps : List String) (S : List Tpl) :
    ∀ (names : List String) (acc l1 : Loop1), loop1 ps S acc names = .ok l1 →
      (∀ k, (lookupNat acc.sizes k).isSome = true → (lookupNat l1.sizes k).isSome = true) ∧
      (∀ k ∈ names, (lookupNat l1.sizes k).isSome = true) := by
  intro names
  induction names with
  | nil =>
    intro acc l1 h
    simp only [loop1] at h
    cases h
    exact ⟨fun _ h => h, by simp⟩
  | cons n ns ih =>
    intro acc l1 h
    unfold loop1 at h
    cases hs : loop1Step ps S acc n with
    | error e => simp [hs] at h
    | ok a =>
      simp only [hs] at h
      obtain ⟨t, p, comps, sz, _, _, _, _, ha⟩ := loop1Step_ok' hs
      obtain ⟨i1, i2⟩ := ih a l1 h
      have hstep : ∀ k, (lookupNat acc.sizes k).isSome = true ∨ n = k → (lookupNat a.sizes k).isSome = true := by
        intro k hk
        rw [ha]
        simp only
        rw [lookupNat_append]
        cases hl : lookupNat acc.sizes k with
        | some x => rfl
        | none =>
          rcases hk with h1 | h1
          · rw [hl] at h1; cases h1
          · simp [h1]
      constructor
      · intro k hk; exact i1 k (hstep k (.inl hk))
      · intro k hk
        rcases List.mem_cons.mp hk with h1 | h1
        · exact i1 k (hstep k (.inr h1.symm))
        · exact i2 k h1

theorem pass2_keys (parents : List (String × List String)) :
    ∀ (o3 : List String) (tb tb2 : TplBlocks), pass2 parents tb o3 = .ok tb2 →
      (∀ name ∈ o3, (tbLookup tb name).isSome = true) →
      ∀ k, (tbLookup tb2 k).isSome = (tbLookup tb k).isSome := by
  intro o3
  induction o3 with
  | nil => intro tb tb2 h _ k; simp only [pass2] at h; cases h; rfl
  | cons name rest ih =>
    intro tb tb2 h hk k
    unfold pass2 at h
    cases hp : lookupParents parents name with
    | none => simp [hp] at h
    | some ps =>
      simp only [hp] at h
      obtain ⟨tb1, hi, hkeys⟩ := inheritFrom_succeeds name ps.reverse tb (hk name (by simp))
      simp only [hi] at h
      rw [ih tb1 tb2 h (fun n hn => by rw [hkeys]; exact hk n (by simp [hn])) k, hkeys]

/-- after an accepting `derive` the commit loop finds everything it looks up -/
theorem commitAll_succeeds {ps : List String} {S : List Tpl} {o2 o3 : List String} {d : Derived}
    (h : derive ps S o2 o3 = .ok d) (ho2 : ∀ k, has S k = true → k ∈ o2) (ho3 : ∀ k, k ∈ o3 → k ∈ o2)
    (sfx : List String) :
    ∀ (ts : List Entry), (∀ e ∈ ts, has S e.tpl.name = true) → ∃ ts', commitAll d sfx ts = .ok ts' := by
  obtain ⟨l1, tb, tb2, h1, h2, h3, e1, e2, e3, _⟩ := derive_parts h
  have hPO := parentsTable_of_loop1 h1
  obtain ⟨l2a, _⟩ := loop2_ok ps S l1 o2 tb false h2
  have hkeys := pass2_keys l1.parents o3 tb tb2 h3 (fun n hn => by
    obtain ⟨_, _, m, _, _, _, hm⟩ := l2a n (ho3 n hn)
    simp [hm])
  intro ts
  induction ts with
  | nil => intro _; exact ⟨[], rfl⟩
  | cons e ts ih =>
    intro hall
    obtain ⟨ts', hts'⟩ := ih (fun x hx => hall x (by simp [hx]))
    have hk := hall e (by simp)
    obtain ⟨_, p, _, hp, _⟩ := hPO e.tpl.name hk
    have hsz : (lookupNat d.sizes e.tpl.name).isSome = true := by
      rw [e3]
      exact (loop1_sizes_some ps S _ _ _ h1).2 _ ((mem_sortDedup _ _).mpr (has_mem_keys hk))
    obtain ⟨sz, hsz'⟩ := Option.isSome_iff_exists.mp hsz
    have hlin : (tbLookup d.lineage e.tpl.name).isSome = true := by
      rw [e2, hkeys]
      obtain ⟨_, _, m, _, _, _, hm⟩ := l2a e.tpl.name (ho2 _ hk)
      simp [hm]
    obtain ⟨lin, hlin'⟩ := Option.isSome_iff_exists.mp hlin
    refine ⟨{ tpl := e.tpl, parents := p, lineage := lin, size := sz,
              autoescape := autoescapeFlag sfx e.tpl.name } :: ts', ?_⟩
    unfold commitAll
    simp only [commitEntry, hsz', e1, hp, hlin', hts']

theorem insertBatch_good :
    ∀ (batch : List Item) (ts : List Entry) (log : UndoLog), (∀ it ∈ batch, ∃ t, it = .good t) →
      (insertBatch ts log batch).2.2 = true := by
  intro batch
  induction batch with
  | nil => intro ts log _; rfl
  | cons it rest ih =>
    intro ts log h
    obtain ⟨t, rfl⟩ := h it (by simp)
    simp only [insertBatch]
    exact ih _ _ (fun x hx => h x (by simp [hx]))

theorem eget_isSome_has (ts : List Entry) (k : String) :
    has (ts.map (·.tpl)) k = (eget ts k).isSome := by
  simp [Tera.Reg.has, get_map_tpl]

theorem mem_names_eget {ts : List Entry} {k : String} (h : k ∈ ts.map (·.tpl.name)) :
    (eget ts k).isSome = true := by
  obtain ⟨e, he, hk⟩ := List.mem_map.mp h
  unfold eget
  rw [List.find?_isSome]
  exact ⟨e, he, by simp [hk]⟩

/-- **`finalize_templates` accepts on one state iff it accepts on any state with the same sources
and prefixes.** -/
theorem finalize_accept_congr (st st' r : State) (o2 o3 o2' o3' : List String)
    (hp : st.prefixes = st'.prefixes) (hsrc : SameSources st.templates st'.templates)
    (ho2 : ∀ k, (eget st.templates k).isSome = true → k ∈ o2)
    (ho2' : ∀ k, k ∈ o2' ↔ (eget st'.templates k).isSome = true)
    (ho3' : ∀ k, k ∈ o3' ↔ (eget st'.templates k).isSome = true)
    (h : finalize st o2 o3 = .ok r) : ∃ r', finalize st' o2' o3' = .ok r' := by
  have hsame : SameMap (st.templates.map (·.tpl)) (st'.templates.map (·.tpl)) := by
    intro k; rw [get_map_tpl, get_map_tpl]; exact hsrc k
  obtain ⟨d, ts, hd, _, _⟩ := finalize_ok_parts h
  obtain ⟨d', hd'⟩ := derive_accept_congr st.prefixes _ _ hsame o2 o3 o2' o3'
    (fun k hk => ho2 k (by rw [← eget_isSome_has]; exact hk))
    (fun k hk => by rw [eget_isSome_has]; exact (ho2' k).mp hk)
    (fun k hk => by rw [eget_isSome_has]; exact (ho3' k).mp hk)
    (fun k hk => (ho2' k).mpr (by rw [← eget_isSome_has]; exact hk)) d hd
  rw [hp] at hd'
  obtain ⟨ts', hts'⟩ := commitAll_succeeds hd'
    (fun k hk => (ho2' k).mpr (by rw [← eget_isSome_has]; exact hk))
    (fun k hk => (ho2' k).mpr ((ho3' k).mp hk)) st'.suffixes st'.templates
    (fun e he => by
      rw [eget_isSome_has]
      exact mem_names_eget (List.mem_map.mpr ⟨e, he, rfl⟩))
  refine ⟨{ st' with templates := ts', comps := d'.comps }, ?_⟩
  unfold finalize
  simp only [hd', hts']

theorem eget_mem_names {ts : List Entry} {k : String} (h : (eget ts k).isSome = true) :
    k ∈ ts.map (·.tpl.name) := by
  obtain ⟨e, he⟩ := Option.isSome_iff_exists.mp h
  exact List.mem_map.mpr ⟨e, eget_mem he, eget_name he⟩


theorem eget_map_autoescape (ts : List Entry) (sfx : List String) (k : String) :
    eget (ts.map (fun e => { e with autoescape := autoescapeFlag sfx e.tpl.name })) k =
      (eget ts k).map (fun e => { e with autoescape := autoescapeFlag sfx e.tpl.name }) := by
  induction ts with
  | nil => rfl
  | cons e ts ih =>
    unfold eget at ih ⊢
    by_cases h : e.tpl.name = k
    · have : (e.tpl.name == k) = true := by simpa using h
      simp [List.find?, this]
    · have : (e.tpl.name == k) = false := by simpa using h
      simp only [List.map, List.find?, this]
      exact ih


end Tera.Reg
