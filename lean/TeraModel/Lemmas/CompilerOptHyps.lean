/-
The three hypotheses of the optimiser theorems of Props/C09.lean (`TargetsInRange`, `NoFused`,
`PathSpans`: "as compiled") hold for every chunk the compiler model emits.
-/
import TeraModel.Lemmas.CompilerOpOf
import TeraModel.Props.C09
namespace Tera.Compiler

/-- the operand of the five jump-carrying instructions (`Instr.target?` of the wire form) -/
def CInstr.target? : CInstr → Option Nat
  | .jump t | .popJumpIfFalse t | .jumpIfFalseOrPop t | .jumpIfTrueOrPop t | .iterate t => some t
  | _ => none

theorem target_toInstr (enc : Enc) (i : CInstr) : (i.toInstr enc).target? = i.target? := by
  cases i <;> rfl

theorem isFused_toInstr (enc : Enc) (i : CInstr) : (i.toInstr enc).isFused = false := by
  cases i <;> rfl

/-- a jump operand lies in `[lo, hi]`, or is the `Iterate` of the current loop (`continue`) -/
def InR (lo hi : Nat) (loop : Option Nat) (y : CEntry) : Prop :=
  ∀ t, y.1.target? = some t → (lo ≤ t ∧ t ≤ hi) ∨ loop = some t

theorem InR.mono {lo hi : Nat} {s : Nat} {loop : Option Nat} {c : Code}
    (h : AllC (InR lo hi (some s)) c) (hs : lo ≤ s ∧ s ≤ hi) : AllC (InR lo hi loop) c := by
  intro y hy t ht
  rcases h y hy t ht with h1 | h1
  · exact Or.inl h1
  · cases h1; exact Or.inl hs

@[simp] theorem allC_inR_keyStore (lo hi loop) (k : Option String) : AllC (InR lo hi loop) (keyStore k) := by
  cases k <;> simp [keyStore, InR, CInstr.target?, ns]

@[simp] theorem inR_unary (lo hi loop) (op : UnaryOperator) : InR lo hi loop (sp (unaryInstr op)) := by
  cases op <;> simp [InR, CInstr.target?, sp, unaryInstr]

def TrM1 (e : Expr) : Prop :=
  ∀ base loop lo hi, lo ≤ base → base + (exprCode base loop e).length ≤ hi →
    AllC (InR lo hi loop) (exprCode base loop e)
def TrM2 (ns : List Node) : Prop :=
  ∀ base loop lo hi, lo ≤ base → base + (nodesCode base loop ns).length ≤ hi →
    AllC (InR lo hi loop) (nodesCode base loop ns)
def TrM3 (n : Node) : Prop :=
  ∀ base loop lo hi, lo ≤ base → base + (nodeCode base loop n).length ≤ hi →
    AllC (InR lo hi loop) (nodeCode base loop n)
def TrM4 (k : List (String × Expr)) : Prop :=
  ∀ base loop lo hi, lo ≤ base → base + (kwargsCode base loop k).length ≤ hi →
    AllC (InR lo hi loop) (kwargsCode base loop k)
def TrM5 (f : List Expr) : Prop :=
  ∀ base loop lo hi, lo ≤ base → base + (filtersCode base loop f).length ≤ hi →
    AllC (InR lo hi loop) (filtersCode base loop f)
def TrM6 (o : Option Expr) : Prop :=
  ∀ base loop lo hi, lo ≤ base → base + (condCode base loop o).length ≤ hi →
    AllC (InR lo hi loop) (condCode base loop o)
def TrM7 (o : Option Expr) : Prop :=
  ∀ base loop dflt lo hi, dflt.target? = none → lo ≤ base → base + (optExprCode base loop dflt o).length ≤ hi →
    AllC (InR lo hi loop) (optExprCode base loop dflt o)
def TrM8 (a : List ArrayEntry) : Prop :=
  ∀ base loop lo hi, lo ≤ base → base + (arrayItemsCode base loop a).length ≤ hi →
    AllC (InR lo hi loop) (arrayItemsCode base loop a)
def TrM9 (m : List MapEntry) : Prop :=
  ∀ base loop lo hi, lo ≤ base → base + (mapItemsCode base loop m).length ≤ hi →
    AllC (InR lo hi loop) (mapItemsCode base loop m)

set_option maxHeartbeats 1600000 in
theorem targets_aux :
    (∀ (_ : Nat) (_ : Option Nat) e, TrM1 e) ∧
    (∀ (_ : Nat) (_ : Option Nat) ns, TrM2 ns) ∧
    (∀ (_ : Nat) (_ : Option Nat) n, TrM3 n) ∧
    (∀ (_ : Nat) (_ : Option Nat) k, TrM4 k) ∧
    (∀ (_ : Nat) (_ : Option Nat) f, TrM5 f) ∧
    (∀ (_ : Nat) (_ : Option Nat) o, TrM6 o) ∧
    (∀ (_ : Nat) (_ : Option Nat) (_ : CInstr) o, TrM7 o) ∧
    (∀ (_ : Nat) (_ : Option Nat) a, TrM8 a) ∧
    (∀ (_ : Nat) (_ : Option Nat) m, TrM9 m) := by
  apply exprCode.mutual_induct
    (motive_1 := fun _ _ e => TrM1 e)
    (motive_2 := fun _ _ ns => TrM2 ns)
    (motive_3 := fun _ _ n => TrM3 n)
    (motive_4 := fun _ _ k => TrM4 k)
    (motive_5 := fun _ _ f => TrM5 f)
    (motive_6 := fun _ _ o => TrM6 o)
    (motive_7 := fun _ _ _ o => TrM7 o)
    (motive_8 := fun _ _ a => TrM8 a)
    (motive_9 := fun _ _ m => TrM9 m)
  all_goals intros
  all_goals simp only [TrM1, TrM2, TrM3, TrM4, TrM5, TrM6, TrM7, TrM8, TrM9] at *
  all_goals intros
  all_goals simp only [exprCode, nodesCode, nodeCode, kwargsCode, filtersCode, condCode, optExprCode,
    arrayItemsCode, mapItemsCode] at *
  all_goals (try (split <;> rename_i hsplit <;> first
    | exact absurd ‹_› hsplit
    | exact absurd hsplit ‹_›
    | (try simp only [hsplit, ↓reduceIte, Bool.false_eq_true, Bool.not_eq_true, List.length_nil,
      List.append_nil, Nat.add_zero] at *)))
  all_goals (try simp (config := { zetaDelta := true }) only [allC_append, allC_cons, allC_nil,
    List.length_append, List.length_cons, List.length_nil, and_true, true_and, allC_inR_keyStore,
    inR_unary] at *)
  all_goals (try (simp only [InR, CInstr.target?, sp, ns, mapBuild, arrayBuild, setInstr]; done))
  all_goals (try grind [InR, CInstr.target?, sp, ns, mapBuild, arrayBuild, setInstr, InR.mono])
  all_goals (repeat' apply And.intro)
  all_goals (try grind [InR, CInstr.target?, sp, ns, mapBuild, arrayBuild, setInstr, InR.mono])

theorem targets_nodes (ns : List Node) : AllC (InR 0 (nodesCode 0 none ns).length none) (nodesCode 0 none ns) :=
  targets_aux.2.1 0 none ns 0 none 0 _ (Nat.le_refl _) (by omega)

/-! ### `LoadName` / `LoadAttr` are always added with a span -/

def PSpan (y : CEntry) : Prop :=
  ((∃ n, y.1 = .loadName n) ∨ (∃ a, y.1 = .loadAttr a)) → y.2 = true

@[simp] theorem allC_pSpan_keyStore (k : Option String) : AllC PSpan (keyStore k) := by
  cases k <;> simp [keyStore, PSpan, ns]

@[simp] theorem pSpan_unary (op : UnaryOperator) : PSpan (sp (unaryInstr op)) := by
  cases op <;> simp [PSpan, sp, unaryInstr]

def PsM1 (e : Expr) : Prop :=
  ∀ base loop, AllC PSpan (exprCode base loop e)
def PsM2 (ns : List Node) : Prop :=
  ∀ base loop, AllC PSpan (nodesCode base loop ns)
def PsM3 (n : Node) : Prop :=
  ∀ base loop, AllC PSpan (nodeCode base loop n)
def PsM4 (k : List (String × Expr)) : Prop :=
  ∀ base loop, AllC PSpan (kwargsCode base loop k)
def PsM5 (f : List Expr) : Prop :=
  ∀ base loop, AllC PSpan (filtersCode base loop f)
def PsM6 (o : Option Expr) : Prop :=
  ∀ base loop, AllC PSpan (condCode base loop o)
def PsM7 (o : Option Expr) : Prop :=
  ∀ base loop dflt, PSpan (ns dflt) → AllC PSpan (optExprCode base loop dflt o)
def PsM8 (a : List ArrayEntry) : Prop :=
  ∀ base loop, AllC PSpan (arrayItemsCode base loop a)
def PsM9 (m : List MapEntry) : Prop :=
  ∀ base loop, AllC PSpan (mapItemsCode base loop m)

theorem pspan_aux :
    (∀ (_ : Nat) (_ : Option Nat) e, PsM1 e) ∧
    (∀ (_ : Nat) (_ : Option Nat) ns, PsM2 ns) ∧
    (∀ (_ : Nat) (_ : Option Nat) n, PsM3 n) ∧
    (∀ (_ : Nat) (_ : Option Nat) k, PsM4 k) ∧
    (∀ (_ : Nat) (_ : Option Nat) f, PsM5 f) ∧
    (∀ (_ : Nat) (_ : Option Nat) o, PsM6 o) ∧
    (∀ (_ : Nat) (_ : Option Nat) (_ : CInstr) o, PsM7 o) ∧
    (∀ (_ : Nat) (_ : Option Nat) a, PsM8 a) ∧
    (∀ (_ : Nat) (_ : Option Nat) m, PsM9 m) := by
  apply exprCode.mutual_induct
    (motive_1 := fun _ _ e => PsM1 e)
    (motive_2 := fun _ _ ns => PsM2 ns)
    (motive_3 := fun _ _ n => PsM3 n)
    (motive_4 := fun _ _ k => PsM4 k)
    (motive_5 := fun _ _ f => PsM5 f)
    (motive_6 := fun _ _ o => PsM6 o)
    (motive_7 := fun _ _ _ o => PsM7 o)
    (motive_8 := fun _ _ a => PsM8 a)
    (motive_9 := fun _ _ m => PsM9 m)
  all_goals intros
  all_goals simp only [PsM1, PsM2, PsM3, PsM4, PsM5, PsM6, PsM7, PsM8, PsM9] at *
  all_goals intros
  all_goals simp only [exprCode, nodesCode, nodeCode, kwargsCode, filtersCode, condCode, optExprCode,
    arrayItemsCode, mapItemsCode] at *
  all_goals (try split)
  all_goals (try simp_all (config := { zetaDelta := true }) only [allC_append, allC_cons, allC_nil,
    and_true, true_and, and_self, allC_pSpan_keyStore, pSpan_unary])
  all_goals (try (simp only [PSpan, sp, ns, mapBuild, arrayBuild, setInstr]; done))
  all_goals (try grind [PSpan, sp, ns, mapBuild, arrayBuild, setInstr])

theorem pspan_nodes (ns : List Node) (base : Nat) (loop : Option Nat) :
    AllC PSpan (nodesCode base loop ns) := pspan_aux.2.1 0 none ns base loop

/-! ### The optimisation pass keeps `Iterate` operands positive -/

open Tera.Optimize in
/-- If every `Iterate` operand of `c` is positive and every jump operand is in range, every `Iterate`
operand of the optimised code is positive: an `Iterate` of the output is an `Iterate j ↦ t` of the
input with its operand replaced by `index_map[t]`, the number of groups laid out before the old
index `t` (`C09.jumps_land_same`); `t > 0` means at least one old instruction, hence at least one
group, lies before it. -/
theorem optimize_keeps_iterate_pos (c r : List Entry) (h : optimize c = .ok r)
    (hr : C09.TargetsInRange c) (hpos : ∀ e ∈ c, ∀ t, e.1 = .iterate t → 0 < t) :
    ∀ e' ∈ r, ∀ t', e'.1 = .iterate t' → 0 < t' := by
  intro e' he' t' ht'
  rw [C09.optimize_ok c r h] at he'
  simp only [List.mem_map] at he'
  obtain ⟨_, ⟨g, hg, rfl⟩, rfl⟩ := he'
  have hpar := C09.groups_parsed c
  have hshape := hpar.shapes g hg
  -- only a kept instruction can be an `Iterate`
  cases hshape with
  | path n s taken _ _ => simp [remapTotal, Instr.mapTarget] at ht'
  | write n s w taken _ => simp [remapTotal, Instr.mapTarget] at ht'
  | keep e =>
    simp only [remapTotal] at ht'
    have hec : e ∈ c := by
      rw [← hpar.concat]
      exact List.mem_flatMap.mpr ⟨_, hg, by simp⟩
    -- `e` is `Iterate t` with `t' = index_map[t]`
    obtain ⟨t, hte, htt⟩ : ∃ t, e.1 = .iterate t ∧ t' = (indexMap c).getD t 0 := by
      cases he1 : e.1 <;> simp [he1, Instr.mapTarget] at ht'
      exact ⟨_, rfl, ht'.symm⟩
    have ht0 := hpos e hec t hte
    have htgt : e.1.target? = some t := by simp [hte, Instr.target?]
    obtain ⟨k, hk, _, htake⟩ := C09.jumps_land_same c e hec t htgt (hr e hec t htgt)
    have hkk : t' = k := by
      rw [htt]; simp [List.getD, hk]
    rw [hkk]
    rcases Nat.eq_zero_or_pos k with hk0 | hk0
    · exfalso
      subst hk0
      simp only [List.take_zero, List.flatMap_nil] at htake
      have hne : c.take t ≠ [] := by
        cases c with
        | nil => cases hec
        | cons x xs =>
          cases t with
          | zero => omega
          | succ n => simp
      exact hne htake.symm
    · exact hk0

end Tera.Compiler
