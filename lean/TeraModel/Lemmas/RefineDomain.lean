/-
Compiler correctness (Props/Refine.lean), part 5: the domain of the theorems as a CHECK.

`InCore` / `InCoreNode` (Lemmas/RefineExpr.lean, RefineNode.lean) are inductive predicates.
`exprInCore` / `nodesInCore` are the same conditions as executable Boolean functions over the AST
(structural recursion over the mutual block, like `Compiler.exprScoped`), with the soundness
theorems `exprInCore_sound`, `nodesInCore_sound`: whatever passes the check is in the domain of
`compile_expr_correct_core` / `compile_nodes_correct_core` (with `lf = false`).  A template fails
the check exactly when it contains a component call, an `include` of a name outside `incs`, a
`block`, a binary `Is` /
`Pipe` node (never produced by the parser), a `break` / `continue` outside a loop body, a call
with a repeated keyword-argument name (rejected by the parser), or a set-block filter that is not
a filter node (never produced by the parser).
-/
import TeraModel.Lemmas.RefineNode
namespace Tera.Refine
open Tera Tera.Vm Tera.Compiler

/-- keyword-argument names are pairwise distinct -/
def namesDistinct : List (String × Expr) → Bool
  | [] => true
  | (n, _) :: rest => !(rest.any (fun p => p.1 == n)) && namesDistinct rest

theorem namesDistinct_nodup : ∀ (kw : List (String × Expr)), namesDistinct kw = true → (kw.map (·.1)).Nodup
  | [], _ => List.nodup_nil
  | (n, e) :: rest, h => by
    simp only [namesDistinct, Bool.and_eq_true, Bool.not_eq_true'] at h
    simp only [List.map_cons, List.nodup_cons]
    refine ⟨?_, namesDistinct_nodup rest h.2⟩
    intro hmem
    obtain ⟨p, hp, hpn⟩ := List.mem_map.mp hmem
    have : rest.any (fun p => p.1 == n) = true := List.any_eq_true.mpr ⟨p, hp, by simp [hpn]⟩
    rw [this] at h
    cases h.1

mutual
def exprInCore : Expr → Bool
  | .const _ => true
  | .var _ => true
  | .array items => arrayInCore items
  | .map entries => mapInCore entries
  | .getAttr e _ _ => exprInCore e
  | .getItem e s _ => exprInCore e && exprInCore s
  | .slice e a b c _ => exprInCore e && optInCore a && optInCore b && optInCore c
  | .filter e _ kw => exprInCore e && kwInCore kw && namesDistinct kw
  | .test e _ kw => exprInCore e && kwInCore kw && namesDistinct kw
  | .ternary c t f => exprInCore c && exprInCore t && exprInCore f
  | .listComprehension e _ _ target cond => exprInCore e && exprInCore target && optInCore cond
  | .componentCall _ _ _ _ => false
  | .functionCall _ kw => kwInCore kw && namesDistinct kw
  | .unary _ e => exprInCore e
  | .binary op l r =>
    (match op with
     | .Is | .Pipe => false
     | _ => true) && exprInCore l && exprInCore r
def optInCore : Option Expr → Bool
  | none => true
  | some e => exprInCore e
def kwInCore : List (String × Expr) → Bool
  | [] => true
  | (_, e) :: rest => exprInCore e && kwInCore rest
def arrayInCore : List ArrayEntry → Bool
  | [] => true
  | .item e :: rest => exprInCore e && arrayInCore rest
  | .spread e :: rest => exprInCore e && arrayInCore rest
def mapInCore : List MapEntry → Bool
  | [] => true
  | .keyValue _ e :: rest => exprInCore e && mapInCore rest
  | .spread e :: rest => exprInCore e && mapInCore rest
end

theorem inCore_sound_aux :
    (∀ e, exprInCore e = true → InCore false e) ∧
    (∀ kw, kwInCore kw = true → ∀ p ∈ kw, InCore false p.2) ∧
    (∀ o, optInCore o = true → ∀ x, o = some x → InCore false x) ∧
    (∀ entries, mapInCore entries = true → ∀ en ∈ entries, InCore false (mapEntryExpr en)) ∧
    (∀ items, arrayInCore items = true → ∀ it ∈ items, InCore false (entryExpr it)) := by
  apply exprInCore.mutual_induct
    (motive_1 := fun e => exprInCore e = true → InCore false e)
    (motive_2 := fun kw => kwInCore kw = true → ∀ p ∈ kw, InCore false p.2)
    (motive_3 := fun o => optInCore o = true → ∀ x, o = some x → InCore false x)
    (motive_4 := fun entries => mapInCore entries = true → ∀ en ∈ entries, InCore false (mapEntryExpr en))
    (motive_5 := fun items => arrayInCore items = true → ∀ it ∈ items, InCore false (entryExpr it))
  case case1 => intro v _; exact .const v
  case case2 => intro n _; exact .var n
  case case3 => intro items ih h; exact .array (ih (by simpa [exprInCore] using h))
  case case4 => intro entries ih h; exact .map (ih (by simpa [exprInCore] using h))
  case case5 => intro e n o ih h; exact .getAttr n o (ih (by simpa [exprInCore] using h))
  case case6 =>
    intro e s o ih1 ih2 h
    simp only [exprInCore, Bool.and_eq_true] at h
    exact .getItem o (ih1 h.1) (ih2 h.2)
  case case7 =>
    intro e a b c o ih0 ih1 ih2 ih3 h
    simp only [exprInCore, Bool.and_eq_true] at h
    exact .slice o (ih0 h.1.1.1) (ih1 h.1.1.2) (ih2 h.1.2) (ih3 h.2)
  case case8 =>
    intro e n kw ih1 ih2 h
    simp only [exprInCore, Bool.and_eq_true] at h
    exact .filter n (ih1 h.1.1) (ih2 h.1.2) (namesDistinct_nodup kw h.2)
  case case9 =>
    intro e n kw ih1 ih2 h
    simp only [exprInCore, Bool.and_eq_true] at h
    exact .test n (ih1 h.1.1) (ih2 h.1.2) (namesDistinct_nodup kw h.2)
  case case10 =>
    intro c t f ih1 ih2 ih3 h
    simp only [exprInCore, Bool.and_eq_true] at h
    exact .ternary (ih1 h.1.1) (ih2 h.1.2) (ih3 h.2)
  case case11 =>
    intro e key value target cond ih1 ih2 ih3 h
    simp only [exprInCore, Bool.and_eq_true] at h
    exact .compr key value rfl (ih1 h.1.1) (ih2 h.1.2) (ih3 h.2)
  case case12 => intro n kw b sc h; simp [exprInCore] at h
  case case13 =>
    intro n kw ih h
    simp only [exprInCore, Bool.and_eq_true] at h
    exact .functionCall n (ih h.1) (namesDistinct_nodup kw h.2)
  case case14 => intro op e ih h; exact .unary op (ih (by simpa [exprInCore] using h))
  case case15 =>
    intro op l r ih1 ih2 h
    simp only [exprInCore, Bool.and_eq_true] at h
    obtain ⟨⟨hop, hl⟩, hr⟩ := h
    cases op
    case And => exact .and (ih1 hl) (ih2 hr)
    case Or => exact .or (ih1 hl) (ih2 hr)
    case Is => simp at hop
    case Pipe => simp at hop
    all_goals exact .binary _ rfl (ih1 hl) (ih2 hr)
  case case16 => intro _ it hit; cases hit
  case case17 =>
    intro e rest ih1 ih2 h it hit
    simp only [arrayInCore, Bool.and_eq_true] at h
    rcases List.mem_cons.mp hit with rfl | hm
    · exact ih1 h.1
    · exact ih2 h.2 it hm
  case case18 =>
    intro e rest ih1 ih2 h it hit
    simp only [arrayInCore, Bool.and_eq_true] at h
    rcases List.mem_cons.mp hit with rfl | hm
    · exact ih1 h.1
    · exact ih2 h.2 it hm
  case case19 => intro _ en hen; cases hen
  case case20 =>
    intro k e rest ih1 ih2 h en hen
    simp only [mapInCore, Bool.and_eq_true] at h
    rcases List.mem_cons.mp hen with rfl | hm
    · exact ih1 h.1
    · exact ih2 h.2 en hm
  case case21 =>
    intro e rest ih1 ih2 h en hen
    simp only [mapInCore, Bool.and_eq_true] at h
    rcases List.mem_cons.mp hen with rfl | hm
    · exact ih1 h.1
    · exact ih2 h.2 en hm
  case case22 => intro _ x hx; cases hx
  case case23 => intro e ih h x hx; cases hx; exact ih (by simpa [optInCore] using h)
  case case24 => intro _ p hp; cases hp
  case case25 =>
    intro n e rest ih1 ih2 h p hp
    simp only [kwInCore, Bool.and_eq_true] at h
    rcases List.mem_cons.mp hp with rfl | hm
    · exact ih1 h.1
    · exact ih2 h.2 p hm

theorem exprInCore_sound (e : Expr) (h : exprInCore e = true) : InCore false e := inCore_sound_aux.1 e h

theorem kwInCore_sound (kw : List (String × Expr)) (h : kwInCore kw = true) :
    ∀ p ∈ kw, InCore false p.2 := inCore_sound_aux.2.1 kw h

/-- the filter chain of a set block: filter nodes with arguments in the core -/
def filtersInCore : List Expr → Bool
  | [] => true
  | .filter _ _ kw :: rest => kwInCore kw && namesDistinct kw && filtersInCore rest
  | _ :: _ => false

theorem filtersInCore_sound : ∀ (filters : List Expr), filtersInCore filters = true →
    ∀ f ∈ filters, ∃ src fname kwargs, f = .filter src fname kwargs
      ∧ (∀ p ∈ kwargs, InCore false p.2) ∧ (kwargs.map (·.1)).Nodup
  | [], _, f, hf => by cases hf
  | g :: rest, h, f, hf => by
    cases g
    case filter src fname kw =>
      simp only [filtersInCore, Bool.and_eq_true] at h
      rcases List.mem_cons.mp hf with rfl | hm
      · exact ⟨src, fname, kw, rfl, kwInCore_sound kw h.1.1, namesDistinct_nodup kw h.1.2⟩
      · exact filtersInCore_sound rest h.2 f hm
    all_goals simp [filtersInCore] at h

mutual
/-- `incs`: the template names that may be included; `inLoop`: a `for` body is around the
statement with nothing but `if`s in between -/
def nodeInCore (incs : List String) (inLoop : Bool) : Node → Bool
  | .content _ => true
  | .expression e => exprInCore e
  | .set _ e _ => exprInCore e
  | .blockSet _ filters body _ => filtersInCore filters && nodesInCore incs false body
  | .include name => incs.contains name
  | .block _ _ => false
  | .forLoop _ _ target body elseBody =>
    exprInCore target && nodesInCore incs true body && nodesInCore incs inLoop elseBody
  | .break => inLoop
  | .continue => inLoop
  | .if c body falseBody => exprInCore c && nodesInCore incs inLoop body && nodesInCore incs inLoop falseBody
  | .filterSection _ kw body => kwInCore kw && namesDistinct kw && nodesInCore incs false body
def nodesInCore (incs : List String) (inLoop : Bool) : List Node → Bool
  | [] => true
  | n :: rest => nodeInCore incs inLoop n && nodesInCore incs inLoop rest
end

theorem nodeInCore_sound_aux (incs : List String) :
    (∀ inLoop n, nodeInCore incs inLoop n = true → InCoreNode false (· ∈ incs) inLoop n) ∧
    (∀ inLoop ns, nodesInCore incs inLoop ns = true → ∀ n ∈ ns, InCoreNode false (· ∈ incs) inLoop n) := by
  apply nodeInCore.mutual_induct
    (motive_1 := fun inLoop n => nodeInCore incs inLoop n = true → InCoreNode false (· ∈ incs) inLoop n)
    (motive_2 := fun inLoop ns => nodesInCore incs inLoop ns = true →
      ∀ n ∈ ns, InCoreNode false (· ∈ incs) inLoop n)
  case case1 => intro inLoop t _; exact .content t
  case case2 => intro inLoop e h; exact .expression (exprInCore_sound e (by simpa [nodeInCore] using h))
  case case3 => intro inLoop n e g h; exact .set n g (exprInCore_sound e (by simpa [nodeInCore] using h))
  case case4 =>
    intro inLoop n filters body g ih h
    simp only [nodeInCore, Bool.and_eq_true] at h
    exact .blockSet n g (filtersInCore_sound filters h.1) (ih h.2)
  case case5 =>
    intro inLoop n h
    simp only [nodeInCore] at h
    exact .include n rfl (by simpa using h)
  case case6 => intro inLoop n b h; simp [nodeInCore] at h
  case case7 =>
    intro inLoop k v target body elseBody ih1 ih2 h
    simp only [nodeInCore, Bool.and_eq_true] at h
    exact .forLoop k v rfl (exprInCore_sound target h.1.1) (ih1 h.1.2) (ih2 h.2)
  case case8 => intro inLoop h; simp only [nodeInCore] at h; subst h; exact .break
  case case9 => intro inLoop h; simp only [nodeInCore] at h; subst h; exact .continue
  case case10 =>
    intro inLoop c body fb ih1 ih2 h
    simp only [nodeInCore, Bool.and_eq_true] at h
    exact .if (exprInCore_sound c h.1.1) (ih1 h.1.2) (ih2 h.2)
  case case11 =>
    intro inLoop n kw body ih h
    simp only [nodeInCore, Bool.and_eq_true] at h
    exact .filterSection n (kwInCore_sound kw h.1.1) (namesDistinct_nodup kw h.1.2) (ih h.2)
  case case12 => intro inLoop _ n hn; cases hn
  case case13 =>
    intro inLoop n rest ih1 ih2 h m hm
    simp only [nodesInCore, Bool.and_eq_true] at h
    rcases List.mem_cons.mp hm with rfl | hm'
    · exact ih1 h.1
    · exact ih2 h.2 m hm'

theorem nodesInCore_sound (incs : List String) (inLoop : Bool) (ns : List Node)
    (h : nodesInCore incs inLoop ns = true) :
    ∀ n ∈ ns, InCoreNode false (· ∈ incs) inLoop n := (nodeInCore_sound_aux incs).2 inLoop ns h

theorem nodeInCore_sound (incs : List String) (inLoop : Bool) (n : Node)
    (h : nodeInCore incs inLoop n = true) :
    InCoreNode false (· ∈ incs) inLoop n := (nodeInCore_sound_aux incs).1 inLoop n h

end Tera.Refine
