/-
Compiler correctness (Props/Refine.lean): runs that go through `Include`.

`Run` / `Fails` (Lemmas/RefineRun.lean) only take turns of the interpreter loop that do not depend
on the nested interpreter `rec`.  `Include(name)` does: it calls `interpret` on the included
template's chunk with a fresh state chained to the includer, and writes what that call wrote.
`RunI` / `FailsI` add exactly that: a turn at an `Include` is justified by the nested call ending
normally for every large enough fuel (`InclDone`; a complete `RunI` of the included chunk from
`ip = 0` off its end is one way to get that, `RunI.inclDone`), or fails with the nested error
(`InclErr`, `FailsI.inclErr`).  They are
relations between configurations with no fuel in them; `RunI.adequate` / `FailsI.adequate` turn
them into statements about the fuelled interpreter `Vm.interp`: there are a step fuel `N` and a
nesting fuel `D` (depending on the run only) such that every `interp env steps depth` with
`steps ≥ N`, `depth ≥ D` as the nested interpreter makes the loop go the same way.
-/
import TeraModel.Lemmas.RefineRun
namespace Tera.Refine
open Tera Tera.Vm Tera.Compiler

/-- the VM of `render_include`: same override and depth, the included template -/
def inclVm (vm : VmCtx) (tpl : TemplateInfo) : VmCtx := { vm with template := tpl }

/-- the nested call of `Include` ends normally in `stN`, for every large enough fuel: `N` turns and
nesting `D` suffice.  This is a statement about the fuelled interpreter itself, so it can be
established for ANY chunk of the included template (e.g. the optimised one), not only for chunks
the simulation can follow turn by turn. -/
def InclDone (env : Vm.Env) (vm : VmCtx) (tpl : TemplateInfo) (st stN : State) : Prop :=
  ∃ N D, ∀ steps depth, N ≤ steps → D ≤ depth →
    interp env steps (depth + 1) (inclVm vm tpl) tpl.chunk (includeState st) = .done stN

/-- the nested call of `Include` fails with `re`, for every large enough fuel -/
def InclErr (env : Vm.Env) (vm : VmCtx) (tpl : TemplateInfo) (st : State) (re : RErr) : Prop :=
  ∃ N D, ∀ steps depth, N ≤ steps → D ≤ depth →
    interp env steps (depth + 1) (inclVm vm tpl) tpl.chunk (includeState st) = .err re

inductive RunI (env : Vm.Env) : VmCtx → Chunk → Nat → State → List Nat → Nat → State → Prop
  | nil (vm : VmCtx) (c : Chunk) (pc : Nat) (st : State) : RunI env vm c pc st [] pc st
  | cons {vm : VmCtx} {c : Chunk} {pc : Nat} {st : State} {e : VEntry} {pc1 : Nat} {st1 : State}
      {tr : List Nat} {pc' : Nat} {st' : State} (hc : c.code[pc]? = some e)
      (hs : ∀ rec, step rec env vm c e pc st = .next pc1 st1)
      (h : RunI env vm c pc1 st1 tr pc' st') : RunI env vm c pc st (pc :: tr) pc' st'
  | incl {vm : VmCtx} {c : Chunk} {pc : Nat} {st : State} {name : String} {sps : List Span}
      {tpl : TemplateInfo} {stN : State} {tr : List Nat} {pc' : Nat}
      {st' : State} (hc : c.code[pc]? = some (.include_ name, sps))
      (ht : env.template name = some tpl)
      (hn : InclDone env vm tpl st stN)
      (h : RunI env vm c (pc + 1) (st.write stN.out) tr pc' st') : RunI env vm c pc st (pc :: tr) pc' st'

inductive FailsI (env : Vm.Env) : VmCtx → Chunk → Nat → State → List Nat → RErr → Prop
  | here {vm : VmCtx} {c : Chunk} {pc : Nat} {st : State} {e : VEntry} {re : RErr}
      (hc : c.code[pc]? = some e) (hs : ∀ rec, step rec env vm c e pc st = .err re) :
      FailsI env vm c pc st [pc] re
  | cons {vm : VmCtx} {c : Chunk} {pc : Nat} {st : State} {e : VEntry} {pc1 : Nat} {st1 : State}
      {tr : List Nat} {re : RErr} (hc : c.code[pc]? = some e)
      (hs : ∀ rec, step rec env vm c e pc st = .next pc1 st1)
      (h : FailsI env vm c pc1 st1 tr re) : FailsI env vm c pc st (pc :: tr) re
  | incl {vm : VmCtx} {c : Chunk} {pc : Nat} {st : State} {name : String} {sps : List Span}
      {tpl : TemplateInfo} {stN : State} {tr : List Nat} {re : RErr}
      (hc : c.code[pc]? = some (.include_ name, sps)) (ht : env.template name = some tpl)
      (hn : InclDone env vm tpl st stN)
      (h : FailsI env vm c (pc + 1) (st.write stN.out) tr re) : FailsI env vm c pc st (pc :: tr) re
  | inclFails {vm : VmCtx} {c : Chunk} {pc : Nat} {st : State} {name : String} {sps : List Span}
      {tpl : TemplateInfo} {re : RErr}
      (hc : c.code[pc]? = some (.include_ name, sps)) (ht : env.template name = some tpl)
      (hn : InclErr env vm tpl st re) :
      FailsI env vm c pc st [pc] re

section
variable {env : Vm.Env} {vm : VmCtx} {c : Chunk}

theorem Run.toI {pc : Nat} {st : State} {tr : List Nat} {pc' : Nat} {st' : State}
    (h : Run env vm c pc st tr pc' st') : RunI env vm c pc st tr pc' st' := by
  induction h with
  | nil => exact .nil _ _ _ _
  | cons hc hs _ ih => exact .cons hc hs ih

theorem Fails.toI {pc : Nat} {st : State} {tr : List Nat} {re : RErr}
    (h : Fails env vm c pc st tr re) : FailsI env vm c pc st tr re := by
  induction h with
  | here hc hs => exact .here hc hs
  | cons hc hs _ ih => exact .cons hc hs ih

instance {pc : Nat} {st : State} {tr : List Nat} {pc' : Nat} {st' : State} :
    Coe (Run env vm c pc st tr pc' st') (RunI env vm c pc st tr pc' st') := ⟨Run.toI⟩

instance {pc : Nat} {st : State} {tr : List Nat} {re : RErr} :
    Coe (Fails env vm c pc st tr re) (FailsI env vm c pc st tr re) := ⟨Fails.toI⟩

theorem RunI.one {pc : Nat} {st : State} {e : VEntry} {pc1 : Nat} {st1 : State}
    (hc : c.code[pc]? = some e) (hs : ∀ rec, step rec env vm c e pc st = .next pc1 st1) :
    RunI env vm c pc st [pc] pc1 st1 := .cons hc hs (.nil _ _ _ _)

theorem RunI.trans {pc : Nat} {st : State} {tr1 : List Nat} {pc1 : Nat} {st1 : State}
    {tr2 : List Nat} {pc2 : Nat} {st2 : State}
    (h1 : RunI env vm c pc st tr1 pc1 st1) (h2 : RunI env vm c pc1 st1 tr2 pc2 st2) :
    RunI env vm c pc st (tr1 ++ tr2) pc2 st2 := by
  induction h1 with
  | nil => exact h2
  | cons hc hs _ ih => exact .cons hc hs (ih h2)
  | incl hc ht hn _ ih => exact .incl hc ht hn (ih h2)

theorem RunI.fails {pc : Nat} {st : State} {tr1 : List Nat} {pc1 : Nat} {st1 : State}
    {tr2 : List Nat} {re : RErr}
    (h1 : RunI env vm c pc st tr1 pc1 st1) (h2 : FailsI env vm c pc1 st1 tr2 re) :
    FailsI env vm c pc st (tr1 ++ tr2) re := by
  induction h1 with
  | nil => exact h2
  | cons hc hs _ ih => exact .cons hc hs (ih h2)
  | incl hc ht hn _ ih => exact .incl hc ht hn (ih h2)

theorem RunI.cast {pc : Nat} {st : State} {tr : List Nat} {pc' pc'' : Nat} {st' : State}
    (h : RunI env vm c pc st tr pc' st') (e : pc' = pc'') : RunI env vm c pc st tr pc'' st' :=
  e ▸ h

end

/-! ### adequacy for the fuelled interpreter -/

theorem runLoop_off_end (rec : VmCtx → Chunk → State → RunRes) (env : Vm.Env) (vm : VmCtx)
    (c : Chunk) (k pc : Nat) (st : State) (h : c.code[pc]? = none) :
    runLoop rec env vm c k pc st = .done st := by
  cases k <;> simp only [runLoop, h]

theorem step_include_done {env : Vm.Env} {vm : VmCtx} {c : Chunk} {pc : Nat} {st : State}
    {name : String} {sps : List Span} {tpl : TemplateInfo} {stN : State} {steps d : Nat}
    (ht : env.template name = some tpl)
    (h : interp env steps (d + 1) (inclVm vm tpl) tpl.chunk (includeState st) = .done stN) :
    step (interp env steps (d + 1)) env vm c (.include_ name, sps) pc st
      = .next (pc + 1) (st.write stN.out) := by
  simp only [step, stepInclude, ht]
  have : ({ vm with template := tpl } : VmCtx) = inclVm vm tpl := rfl
  rw [this, h]

theorem step_include_err {env : Vm.Env} {vm : VmCtx} {c : Chunk} {pc : Nat} {st : State}
    {name : String} {sps : List Span} {tpl : TemplateInfo} {re : RErr} {steps d : Nat}
    (ht : env.template name = some tpl)
    (h : interp env steps (d + 1) (inclVm vm tpl) tpl.chunk (includeState st) = .err re) :
    step (interp env steps (d + 1)) env vm c (.include_ name, sps) pc st = .err re := by
  simp only [step, stepInclude, ht]
  have : ({ vm with template := tpl } : VmCtx) = inclVm vm tpl := rfl
  rw [this, h]

theorem RunI.adequate {env : Vm.Env} {vm : VmCtx} {c : Chunk} {pc : Nat} {st : State}
    {tr : List Nat} {pc' : Nat} {st' : State} (h : RunI env vm c pc st tr pc' st') :
    ∃ N D, ∀ steps depth, N ≤ steps → D ≤ depth → ∀ k,
      runLoop (interp env steps depth) env vm c (tr.length + k) pc st
        = runLoop (interp env steps depth) env vm c k pc' st' := by
  induction h with
  | nil => exact ⟨0, 0, fun _ _ _ _ k => by simp⟩
  | cons hc hs _ ih =>
    obtain ⟨N, D, hND⟩ := ih
    refine ⟨N, D, fun steps depth hN hD k => ?_⟩
    simp only [List.length_cons, Nat.add_right_comm _ 1 k, Vm.runLoop, hc, hs]
    exact hND steps depth hN hD k
  | @incl pc st name sps tpl stN tr pc' st' hc ht hn _ ih =>
    obtain ⟨N1, D1, h1⟩ := hn
    obtain ⟨N2, D2, h2⟩ := ih
    refine ⟨max N1 N2, max (D1 + 1) D2, fun steps depth hN hD k => ?_⟩
    obtain ⟨d', rfl⟩ : ∃ d', depth = d' + 1 := ⟨depth - 1, by omega⟩
    simp only [List.length_cons, Nat.add_right_comm _ 1 k, Vm.runLoop, hc]
    rw [step_include_done ht (h1 steps d' (by omega) (by omega))]
    exact h2 steps (d' + 1) (by omega) (by omega) k

/-- a complete run of the included chunk, off its end, is an `InclDone` -/
theorem RunI.inclDone {env : Vm.Env} {vm : VmCtx} {tpl : TemplateInfo} {st : State}
    {trN : List Nat} {pcN : Nat} {stN : State}
    (hn : RunI env (inclVm vm tpl) tpl.chunk 0 (includeState st) trN pcN stN)
    (hend : tpl.chunk.code[pcN]? = none) : InclDone env vm tpl st stN := by
  obtain ⟨N1, D1, h1⟩ := hn.adequate
  refine ⟨max N1 trN.length, D1, fun steps depth hN hD => ?_⟩
  simp only [interp]
  have := h1 steps depth (by omega) hD (steps - trN.length)
  rw [show trN.length + (steps - trN.length) = steps by omega] at this
  rw [this]
  exact runLoop_off_end _ _ _ _ _ _ _ hend

theorem FailsI.adequate {env : Vm.Env} {vm : VmCtx} {c : Chunk} {pc : Nat} {st : State}
    {tr : List Nat} {re : RErr} (h : FailsI env vm c pc st tr re) :
    ∃ N D, ∀ steps depth, N ≤ steps → D ≤ depth → ∀ k,
      runLoop (interp env steps depth) env vm c (tr.length + k) pc st = .err re := by
  induction h with
  | here hc hs =>
    refine ⟨0, 0, fun steps depth _ _ k => ?_⟩
    simp only [List.length_cons, List.length_nil, Nat.zero_add, Nat.add_comm 1 k, Vm.runLoop, hc, hs]
  | cons hc hs _ ih =>
    obtain ⟨N, D, hND⟩ := ih
    refine ⟨N, D, fun steps depth hN hD k => ?_⟩
    simp only [List.length_cons, Nat.add_right_comm _ 1 k, Vm.runLoop, hc, hs]
    exact hND steps depth hN hD k
  | @incl pc st name sps tpl stN tr re hc ht hn _ ih =>
    obtain ⟨N1, D1, h1⟩ := hn
    obtain ⟨N2, D2, h2⟩ := ih
    refine ⟨max N1 N2, max (D1 + 1) D2, fun steps depth hN hD k => ?_⟩
    obtain ⟨d', rfl⟩ : ∃ d', depth = d' + 1 := ⟨depth - 1, by omega⟩
    simp only [List.length_cons, Nat.add_right_comm _ 1 k, Vm.runLoop, hc]
    rw [step_include_done ht (h1 steps d' (by omega) (by omega))]
    exact h2 steps (d' + 1) (by omega) (by omega) k
  | @inclFails pc st name sps tpl re hc ht hn =>
    obtain ⟨N1, D1, h1⟩ := hn
    refine ⟨N1, D1 + 1, fun steps depth hN hD k => ?_⟩
    obtain ⟨d', rfl⟩ : ∃ d', depth = d' + 1 := ⟨depth - 1, by omega⟩
    simp only [List.length_cons, List.length_nil, Nat.zero_add, Nat.add_comm 1 k, Vm.runLoop, hc]
    rw [step_include_err ht (h1 steps d' hN (by omega))]

/-- a failing run of the included chunk is an `InclErr` -/
theorem FailsI.inclErr {env : Vm.Env} {vm : VmCtx} {tpl : TemplateInfo} {st : State}
    {trN : List Nat} {re : RErr}
    (hn : FailsI env (inclVm vm tpl) tpl.chunk 0 (includeState st) trN re) :
    InclErr env vm tpl st re := by
  obtain ⟨N1, D1, h1⟩ := hn.adequate
  refine ⟨max N1 trN.length, D1, fun steps depth hN hD => ?_⟩
  simp only [interp]
  have := h1 steps depth (by omega) hD (steps - trN.length)
  rw [show trN.length + (steps - trN.length) = steps by omega] at this
  exact this

/-! ### chunks without `Include` -/

/-- no `Include` instruction in the code -/
def noInclude (code : List VEntry) : Bool :=
  code.all fun e => match e.1 with
    | .include_ _ => false
    | _ => true

theorem noInclude_at {code : List VEntry} (h : noInclude code = true) {pc : Nat} {name : String}
    {sps : List Span} (hc : code[pc]? = some (.include_ name, sps)) : False := by
  have hmem : (VInstr.include_ name, sps) ∈ code := List.mem_of_getElem? hc
  have := List.all_eq_true.mp h _ hmem
  simp at this

/-- on a chunk without `Include`, a run is a run that does not depend on the nested interpreter -/
theorem RunI.toRun {env : Vm.Env} {vm : VmCtx} {c : Chunk} {pc : Nat} {st : State} {tr : List Nat}
    {pc' : Nat} {st' : State} (h : RunI env vm c pc st tr pc' st') (hno : noInclude c.code = true) :
    Run env vm c pc st tr pc' st' := by
  induction h with
  | nil => exact .nil _ _
  | cons hc hs _ ih => exact .cons hc hs ih
  | incl hc _ _ _ _ => exact (noInclude_at hno hc).elim

theorem FailsI.toFails {env : Vm.Env} {vm : VmCtx} {c : Chunk} {pc : Nat} {st : State}
    {tr : List Nat} {re : RErr} (h : FailsI env vm c pc st tr re) (hno : noInclude c.code = true) :
    Fails env vm c pc st tr re := by
  induction h with
  | here hc hs => exact .here hc hs
  | cons hc hs _ ih => exact .cons hc hs ih
  | incl hc _ _ _ _ => exact (noInclude_at hno hc).elim
  | inclFails hc _ _ => exact (noInclude_at hno hc).elim

end Tera.Refine
