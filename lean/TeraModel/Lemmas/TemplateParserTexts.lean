/-
Token tracking for C08 (parser link): a SUCCESSFUL run of an expression-level parser consumes no
Content token — the literal texts still waiting in the token list (`toksTexts`) are the same before
and after.  State-aware weakest preconditions `PT x s Q` ("if `x` answers `ok a s'` from `s` then
`Q a s'`") with the knowledge a `peek` / `matches!` gives about the next token.
-/
import TeraModel.Model.TemplateParser
namespace Tera.Parser
open Tera

/-- the non-empty Content payloads of a token list, in order (an empty Content token stands for a
comment or for text trimmed away entirely: parser.rs:1661-1666 drops it) -/
def toksTexts : List Tok → List String
  | [] => []
  | .content s :: rest => if s.isEmpty then toksTexts rest else s :: toksTexts rest
  | _ :: rest => toksTexts rest

def PT (x : P α) (s : PState) (Q : α → PState → Prop) : Prop :=
  match x s with | .ok a s' => Q a s' | _ => True

theorem PT_def (x : P α) (s : PState) (Q : α → PState → Prop) :
    PT x s Q ↔ (match x s with | .ok a s' => Q a s' | _ => True) := Iff.rfl

theorem PT.bind {x : P α} {f : α → P β} {s : PState} {Q : β → PState → Prop}
    (h : PT x s (fun a s1 => PT (f a) s1 Q)) : PT (x >>= f) s Q := by
  show match P.bind x f s with | .ok a s' => Q a s' | _ => True
  unfold P.bind
  unfold PT at h
  cases hx : x s with
  | ok a s1 => rw [hx] at h; exact h
  | err => trivial
  | panic m => trivial
  | fuel => trivial

theorem PT.mono {x : P α} {s : PState} {Q Q' : α → PState → Prop}
    (h : PT x s Q) (hq : ∀ a s', Q a s' → Q' a s') : PT x s Q' := by
  unfold PT at *
  cases hx : x s with
  | ok a s1 => rw [hx] at h; exact hq _ _ h
  | err => trivial
  | panic m => trivial
  | fuel => trivial

theorem PT.cps {x : P α} {s : PState} {R : α → PState → Prop} (h : PT x s R)
    (Q : α → PState → Prop) (hq : ∀ a s', R a s' → Q a s') : PT x s Q := PT.mono h hq

theorem PT.of_eq {x : P α} {s : PState} {a : α} {s' : PState} {Q : α → PState → Prop}
    (h : x s = .ok a s') (hw : PT x s Q) : Q a s' := by
  unfold PT at hw; rw [h] at hw; exact hw

theorem PT.pure {a : α} {s : PState} {Q : α → PState → Prop} (h : Q a s) :
    PT (Pure.pure a : P α) s Q := h
theorem PT.err {s : PState} {Q : α → PState → Prop} : PT (P.err : P α) s Q := trivial
theorem PT.fuel {s : PState} {Q : α → PState → Prop} : PT (P.fuel : P α) s Q := trivial
theorem PT.panic {m : String} {s : PState} {Q : α → PState → Prop} : PT (P.panic m : P α) s Q := trivial

theorem PT.headIs (t : Tok) {s : PState} {Q : Bool → PState → Prop}
    (h : ∀ b, (b = true → s.toks.head? = some t) → Q b s) : PT (headIs t) s Q := by
  unfold PT Parser.headIs
  exact h _ (by intro hb; simpa using hb)

theorem PT.peekOk {s : PState} {Q : Option Tok → PState → Prop}
    (h : ∀ o, (∀ tok, o = some tok → s.toks.head? = some tok) → Q o s) : PT peekOk s Q := by
  rw [PT_def]; unfold Parser.peekOk
  cases hs : s.toks with
  | nil => exact h none (by intro tok ht; cases ht)
  | cons t rest =>
    have h1 := h none (by intro tok ht; cases ht)
    have h2 := h (some t) (by intro tok ht; cases ht; simp [hs])
    cases t <;> first | exact h1 | exact h2

theorem PT.loopFuel {s : PState} {Q : Nat → PState → Prop} (h : ∀ n, Q n s) : PT loopFuel s Q := h _

theorem PT.next {s : PState} {Q : Tok → PState → Prop}
    (h : ∀ t rest, s.toks = t :: rest → Q t { s with toks := rest }) : PT nextOrError s Q := by
  rw [PT_def]; unfold Parser.nextOrError
  cases hs : s.toks with
  | nil => trivial
  | cons t rest =>
    have h2 := h t rest hs
    cases t <;> first | trivial | exact h2

theorem PT.ite {c : Prop} [Decidable c] {a b : P α} {s : PState} {Q : α → PState → Prop}
    (ha : c → PT a s Q) (hb : ¬ c → PT b s Q) : PT (if c then a else b) s Q := by
  split
  · exact ha ‹_›
  · exact hb ‹_›

attribute [irreducible] PT

theorem classify_content (c : String) : classify (.content c) = .other := by
  simp [classify, Gen.binaryOperatorOfTok]

/-- a token the Pratt loop acts on is not a Content token -/
theorem toksTexts_cons_of_classify (t : Tok) (rest : List Tok) (h : classify t ≠ .other) :
    toksTexts (t :: rest) = toksTexts rest := by
  cases t <;> first | rfl | exact absurd (classify_content _) h

theorem toksTexts_notKw {t : Tok} (rest : List Tok) (h : classify t = .notKw) :
    toksTexts (t :: rest) = toksTexts rest := toksTexts_cons_of_classify t rest (by rw [h]; simp)
theorem toksTexts_ifKw {t : Tok} (rest : List Tok) (h : classify t = .ifKw) :
    toksTexts (t :: rest) = toksTexts rest := toksTexts_cons_of_classify t rest (by rw [h]; simp)
theorem toksTexts_leftBracket {t : Tok} (rest : List Tok) (h : classify t = .leftBracket) :
    toksTexts (t :: rest) = toksTexts rest := toksTexts_cons_of_classify t rest (by rw [h]; simp)
theorem toksTexts_binop {t : Tok} {op : BinaryOperator} (rest : List Tok) (h : classify t = .binop op) :
    toksTexts (t :: rest) = toksTexts rest := toksTexts_cons_of_classify t rest (by rw [h]; simp)

/-- "consumes no Content token" -/
abbrev Keeps (s : PState) : α → PState → Prop := fun _ s' => toksTexts s.toks = toksTexts s'.toks

macro "pttac" : tactic => `(tactic|
  repeat' (first
    | (show PT _ _ _; dsimp only)
    | with_reducible exact PT.err
    | with_reducible exact PT.fuel
    | with_reducible exact PT.panic
    | (with_reducible apply_assumption -exfalso; intro _ _ _)
    | with_reducible refine PT.bind ?_
    | with_reducible refine PT.pure ?_
    | with_reducible refine PT.headIs _ (fun _ _ => ?_)
    | with_reducible refine PT.peekOk (fun _ _ => ?_)
    | with_reducible refine PT.loopFuel (fun _ => ?_)
    | with_reducible refine PT.next (fun _ _ _ => ?_)
    | with_reducible refine PT.ite (fun _ => ?_) (fun _ => ?_)
    | (show PT _ _ _; split)
    | (rw [PT_def]; dsimp only; show PT _ _ _)))

/-- closes the leaves: the chain of token-list equations -/
macro "ptleaf" : tactic => `(tactic| (simp_all [Keeps, toksTexts]; done))

theorem KT.dottedNameLoop : ∀ n acc s, PT (dottedNameLoop n acc) s (Keeps s) := by
  intro n
  induction n with
  | zero => intro _ s; exact PT.fuel
  | succ n ih =>
    intro acc s
    have ih' := fun acc s => PT.cps (ih acc s)
    unfold Parser.dottedNameLoop
    try unfold Parser.expect
    try unfold Parser.expectIdent
    pttac
    all_goals ptleaf

theorem KT.dottedName : ∀ s, PT dottedName s (Keeps s) := by
  have h1 := fun n acc s => PT.cps (KT.dottedNameLoop n acc s)
  intro s
  unfold Parser.dottedName
  try unfold Parser.expect
  try unfold Parser.expectIdent
  pttac
  all_goals ptleaf

section
variable {rec : Nat → P Expr} (C : Cfg)
variable (hrec : ∀ m s, PT (rec m) s (Keeps s))
include hrec

theorem KT.kwargsLoop : ∀ n acc s, PT (kwargsLoop rec n acc) s (Keeps s) := by
  have hr := fun m s => PT.cps (hrec m s)
  intro n
  induction n with
  | zero => intro _ s; exact PT.fuel
  | succ n ih =>
    intro acc s
    have ih' := fun acc s => PT.cps (ih acc s)
    unfold Parser.kwargsLoop
    try unfold Parser.expect
    try unfold Parser.expectIdent
    pttac
    all_goals ptleaf

theorem KT.parseKwargs : ∀ s, PT (parseKwargs rec) s (Keeps s) := by
  have hr := fun m s => PT.cps (hrec m s)
  have h1 := fun n acc s => PT.cps (KT.kwargsLoop hrec n acc s)
  intro s
  unfold Parser.parseKwargs
  try unfold Parser.expect
  try unfold Parser.expectIdent
  pttac
  all_goals ptleaf

theorem KT.parseNameArgs : ∀ s, PT (parseNameArgs rec) s (Keeps s) := by
  have hr := fun m s => PT.cps (hrec m s)
  have h1 := fun s => PT.cps (KT.parseKwargs hrec s)
  intro s
  unfold Parser.parseNameArgs
  try unfold Parser.expect
  try unfold Parser.expectIdent
  pttac
  all_goals ptleaf

theorem KT.parseFilter (e : Expr) : ∀ s, PT (parseFilter rec e) s (Keeps s) := by
  have hr := fun m s => PT.cps (hrec m s)
  have h1 := fun s => PT.cps (KT.parseNameArgs hrec s)
  intro s
  unfold Parser.parseFilter
  try unfold Parser.expect
  try unfold Parser.expectIdent
  pttac
  all_goals ptleaf

theorem KT.parseTest (e : Expr) : ∀ s, PT (parseTest rec e) s (Keeps s) := by
  have hr := fun m s => PT.cps (hrec m s)
  have h1 := fun s => PT.cps (KT.parseNameArgs hrec s)
  intro s
  unfold Parser.parseTest
  try unfold Parser.expect
  try unfold Parser.expectIdent
  pttac
  all_goals ptleaf

theorem KT.subscriptStart : ∀ s, PT (subscriptStart rec) s (Keeps s) := by
  have hr := fun m s => PT.cps (hrec m s)
  intro s
  unfold Parser.subscriptStart
  try unfold Parser.expect
  try unfold Parser.expectIdent
  pttac
  all_goals ptleaf

theorem KT.subscriptSlice : ∀ s, PT (subscriptSlice rec) s (Keeps s) := by
  have hr := fun m s => PT.cps (hrec m s)
  intro s
  unfold Parser.subscriptSlice
  try unfold Parser.expect
  try unfold Parser.expectIdent
  pttac
  all_goals ptleaf

theorem KT.parseSubscript (e : Expr) : ∀ s, PT (parseSubscript C rec e) s (Keeps s) := by
  have hr := fun m s => PT.cps (hrec m s)
  have h1 := fun s => PT.cps (KT.subscriptStart hrec s)
  have h2 := fun s => PT.cps (KT.subscriptSlice hrec s)
  intro s
  unfold Parser.parseSubscript
  try unfold Parser.expect
  try unfold Parser.expectIdent
  pttac
  all_goals ptleaf

theorem KT.identChain (ident : String) : ∀ n e s, PT (identChain C rec ident n e) s (Keeps s) := by
  have hr := fun m s => PT.cps (hrec m s)
  have hs := fun e s => PT.cps (KT.parseSubscript C hrec e s)
  intro n
  induction n with
  | zero => intro e s; exact PT.fuel
  | succ n ih =>
    intro e s
    have ih' := fun e s => PT.cps (ih e s)
    unfold Parser.identChain
    try unfold Parser.expect
    try unfold Parser.expectIdent
    pttac
    all_goals ptleaf

theorem KT.parseIdent (ident : String) : ∀ s, PT (parseIdent C rec ident) s (Keeps s) := by
  have hr := fun m s => PT.cps (hrec m s)
  have h1 := fun n e s => PT.cps (KT.identChain C hrec ident n e s)
  have h2 := fun s => PT.cps (KT.parseKwargs hrec s)
  intro s
  unfold Parser.parseIdent
  try unfold Parser.expect
  try unfold Parser.expectIdent
  pttac
  all_goals ptleaf

theorem KT.mapLoop : ∀ n acc lit s, PT (mapLoop rec n acc lit) s (Keeps s) := by
  have hr := fun m s => PT.cps (hrec m s)
  intro n
  induction n with
  | zero => intro acc lit s; exact PT.fuel
  | succ n ih =>
    intro acc lit s
    have ih' := fun acc lit s => PT.cps (ih acc lit s)
    unfold Parser.mapLoop
    try unfold Parser.expect
    try unfold Parser.expectIdent
    pttac
    all_goals ptleaf

theorem KT.parseMap : ∀ s, PT (parseMap rec) s (Keeps s) := by
  have hr := fun m s => PT.cps (hrec m s)
  have h1 := fun n acc lit s => PT.cps (KT.mapLoop hrec n acc lit s)
  intro s
  unfold Parser.parseMap
  try unfold Parser.expect
  try unfold Parser.expectIdent
  pttac
  all_goals ptleaf

theorem KT.parseListComprehension (e : Expr) : ∀ s, PT (parseListComprehension C rec e) s (Keeps s) := by
  have hr := fun m s => PT.cps (hrec m s)
  intro s
  unfold Parser.parseListComprehension
  try unfold Parser.expect
  try unfold Parser.expectIdent
  pttac
  all_goals ptleaf

theorem KT.arrayLoop : ∀ n acc lit s, PT (arrayLoop C rec n acc lit) s (Keeps s) := by
  have hr := fun m s => PT.cps (hrec m s)
  have hl := fun e s => PT.cps (KT.parseListComprehension C hrec e s)
  intro n
  induction n with
  | zero => intro acc lit s; exact PT.fuel
  | succ n ih =>
    intro acc lit s
    have ih' := fun acc lit s => PT.cps (ih acc lit s)
    unfold Parser.arrayLoop
    try unfold Parser.expect
    try unfold Parser.expectIdent
    pttac
    all_goals ptleaf

theorem KT.parseArray : ∀ s, PT (parseArray C rec) s (Keeps s) := by
  have hr := fun m s => PT.cps (hrec m s)
  have h1 := fun n acc lit s => PT.cps (KT.arrayLoop C hrec n acc lit s)
  intro s
  unfold Parser.parseArray
  try unfold Parser.expect
  try unfold Parser.expectIdent
  pttac
  all_goals ptleaf

theorem KT.componentAttributes : ∀ n acc s, PT (componentAttributes rec n acc) s (Keeps s) := by
  have hr := fun m s => PT.cps (hrec m s)
  intro n
  induction n with
  | zero => intro acc s; exact PT.fuel
  | succ n ih =>
    intro acc s
    have ih' := fun acc s => PT.cps (ih acc s)
    unfold Parser.componentAttributes
    try unfold Parser.expect
    try unfold Parser.expectIdent
    pttac
    all_goals ptleaf

theorem KT.parseInlineComponentCall : ∀ s, PT (parseInlineComponentCall rec) s (Keeps s) := by
  have hr := fun m s => PT.cps (hrec m s)
  have h1 := fun n acc s => PT.cps (KT.componentAttributes hrec n acc s)
  have h2 := fun s => PT.cps (KT.dottedName s)
  intro s
  unfold Parser.parseInlineComponentCall
  try unfold Parser.expect
  try unfold Parser.expectIdent
  pttac
  all_goals ptleaf

theorem KT.parseOperand (op : BinaryOperator) (r : Nat) (lhs : Expr) : ∀ s, PT (parseOperand rec op r lhs) s (Keeps s) := by
  have hr := fun m s => PT.cps (hrec m s)
  have h1 := fun e s => PT.cps (KT.parseTest hrec e s)
  have h2 := fun e s => PT.cps (KT.parseFilter hrec e s)
  intro s
  unfold Parser.parseOperand
  try unfold Parser.expect
  try unfold Parser.expectIdent
  pttac
  all_goals ptleaf

theorem KT.prattLoop (minBp : Nat) : ∀ n lhs neg s, PT (prattLoop C rec minBp n lhs neg) s (Keeps s) := by
  have hr := fun m s => PT.cps (hrec m s)
  have hs := fun e s => PT.cps (KT.parseSubscript C hrec e s)
  have ho := fun op r lhs s => PT.cps (KT.parseOperand hrec op r lhs s)
  intro n
  induction n with
  | zero => intro lhs neg s; exact PT.fuel
  | succ n ih =>
    intro lhs neg s
    have ih' := fun lhs neg s => PT.cps (ih lhs neg s)
    unfold Parser.prattLoop
    try unfold Parser.expect
    try unfold Parser.expectIdent
    pttac
    all_goals first
      | ptleaf
      | (simp_all [Keeps, toksTexts, toksTexts_notKw, toksTexts_ifKw, toksTexts_leftBracket, toksTexts_binop]; done)

theorem KT.parsePrefix : ∀ s, PT (parsePrefix C rec) s (Keeps s) := by
  have hr := fun m s => PT.cps (hrec m s)
  have h1 := fun i s => PT.cps (KT.parseIdent C hrec i s)
  have h2 := fun s => PT.cps (KT.parseInlineComponentCall hrec s)
  have h3 := fun s => PT.cps (KT.parseMap hrec s)
  have h4 := fun s => PT.cps (KT.parseArray C hrec s)
  intro s
  unfold Parser.parsePrefix
  try unfold Parser.expect
  try unfold Parser.expectIdent
  pttac
  all_goals ptleaf

theorem KT.parseExprBp (minBp : Nat) : ∀ s, PT (parseExprBp C rec minBp) s (Keeps s) := by
  have hr := fun m s => PT.cps (hrec m s)
  have hp := fun s => PT.cps (KT.parsePrefix C hrec s)
  have hl := fun n lhs neg s => PT.cps (KT.prattLoop C hrec minBp n lhs neg s)
  intro s
  unfold Parser.parseExprBp
  try unfold Parser.expect
  try unfold Parser.expectIdent
  pttac
  all_goals ptleaf

end

/-- **a successful expression parse consumes no Content token** -/
theorem KT.innerParseExpression (C : Cfg) : ∀ b m s, PT (innerParseExpression C b m) s (Keeps s) := by
  intro b
  induction b with
  | zero => intro _ s; exact PT.err
  | succ b ih => intro m s; exact KT.parseExprBp C ih m s

end Tera.Parser
