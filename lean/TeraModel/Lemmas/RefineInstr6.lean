/-
Compiler correctness (Props/Refine.lean), part 2f: the loop instructions `StartIterate`,
`StartIterateComprehension`, `StoreLocal`, `Iterate`, `AppendToList`, `StoreDidNotIterate`,
`PopLoop`, and `BuildList(0)` (the accumulator of a comprehension).
-/
import TeraModel.Lemmas.RefineInstr5
import TeraModel.Lemmas.RefineScope
namespace Tera.Refine
open Tera Tera.Vm Tera.Compiler

/-! ### scope algebra -/

theorem popLoop_pushLoop (sc : Scope) (l : ForLoop) : (sc.pushLoop l).popLoop = sc := by
  cases sc; rfl

theorem setTopLoop_pushLoop (sc : Scope) (l l' : ForLoop) :
    (sc.pushLoop l).setTopLoop l' = sc.pushLoop l' := by
  cases sc; rfl

theorem popLoop_setTopLoop (sc : Scope) (l : ForLoop) : (sc.setTopLoop l).popLoop = sc.popLoop := by
  rcases sc with ⟨_ | ⟨x, xs⟩, _, _, _, _⟩ <;> rfl

theorem iterItems_none_iff (v : Value) : iterItems v = none ↔ v.canBeIteratedOn = false := by
  cases v <;> simp [iterItems, Value.canBeIteratedOn]

section
variable {venv : Vm.Env} {vm : VmCtx} {c : Chunk}

theorem run_buildList0 {pc : Nat} {hasSpan : Bool} (h : EntryAt c pc (.buildList 0, hasSpan))
    (st : State) : Run venv vm c pc st [pc] (pc + 1) (st.push (.arr []) (pc, pc)) := by
  obtain ⟨vi, sps, hv, hc, _⟩ := h
  simp only [Pipeline.vinstr, Option.some.injEq] at hv
  subst hv
  exact Run.one hc (by intro rec; simp only [step, stepBuildList, popN]; rfl)

/-- `StartIterate(kv)` / `StartIterateComprehension(kv)` against the evaluator's checks -/
theorem startIterate_sim {pc : Nat} {kv compr : Bool}
    (h : EntryAt c pc (ns (if compr then .startIterateComprehension kv else .startIterate kv)))
    (ht : reportTargetOk venv vm c = true) (st : State) (tv : Value) (rg : SpanRange)
    (hsp : SpanOk c rg) :
    match iterItems tv with
    | none => Fails venv vm c pc (st.push tv rg) [pc] .iteration
    | some items =>
      if kv && !tv.isMap then Fails venv vm c pc (st.push tv rg) [pc] .iteration
      else Run venv vm c pc (st.push tv rg) [pc] (pc + 1)
        { st with scope := st.scope.pushLoop (ForLoop.new items compr) } := by
  obtain ⟨vi, sps, hv, hc, _⟩ := h
  have hv' : vi = .startIterate kv compr := by
    cases compr <;> simp only [ns, Pipeline.vinstr, Option.some.injEq, Bool.false_eq_true, if_false, if_true] at hv <;>
      exact hv.symm
  subst hv'
  cases hi : iterItems tv with
  | none =>
    have hcan := (iterItems_none_iff tv).mp hi
    refine Fails.here hc ?_
    intro rec
    simp only [step, stepStartIterate, State.push, hcan, Bool.not_false, if_true]
    exact renderingError_eq ht hsp _
  | some items =>
    have hcan : tv.canBeIteratedOn = true := by
      cases hx : tv.canBeIteratedOn with
      | true => rfl
      | false => rw [(iterItems_none_iff tv).mpr hx] at hi; cases hi
    simp only
    by_cases hk : (kv && !tv.isMap) = true
    · rw [if_pos hk]
      refine Fails.here hc ?_
      intro rec
      simp only [step, stepStartIterate, State.push, hcan, Bool.not_true, Bool.false_eq_true, if_false]
      rw [if_pos hk]
      exact renderingError_eq ht hsp _
    · rw [if_neg hk]
      refine Run.one hc ?_
      intro rec
      simp only [step, stepStartIterate, State.push, hcan, Bool.not_true, Bool.false_eq_true, if_false]
      rw [if_neg hk]
      simp only [hi]

theorem run_storeLocal {pc : Nat} {n : String} (h : EntryAt c pc (ns (.storeLocal n))) (st : State)
    (l : ForLoop) (rest : List ForLoop) (hl : st.scope.forLoops = l :: rest) :
    Run venv vm c pc st [pc] (pc + 1) { st with scope := st.scope.setTopLoop (l.storeLocalName n) } := by
  obtain ⟨vi, sps, hv, hc, _⟩ := h
  simp only [ns, Pipeline.vinstr, Option.some.injEq] at hv
  subst hv
  exact Run.one hc (by intro rec; simp only [step, stepStoreLocal, hl])

/-- `Iterate(t)` when the loop is over: jump to `t` -/
theorem run_iterate_over {pc t : Nat} (h : EntryAt c pc (ns (.iterate t))) (st : State)
    (l : ForLoop) (rest : List ForLoop) (hl : st.scope.forLoops = l :: rest)
    (hit : l.iterate t = none) : Run venv vm c pc st [pc] t st := by
  obtain ⟨vi, sps, hv, hc, _⟩ := h
  simp only [ns, Pipeline.vinstr, Option.some.injEq] at hv
  subst hv
  exact Run.one hc (by intro rec; simp only [step, stepIterate, hl, hit])

/-- `Iterate(t)` when there is a next item -/
theorem run_iterate_next {pc t : Nat} (h : EntryAt c pc (ns (.iterate t))) (st : State)
    (l l' : ForLoop) (rest : List ForLoop) (hl : st.scope.forLoops = l :: rest)
    (hit : l.iterate t = some l') :
    Run venv vm c pc st [pc] (pc + 1) { st with scope := st.scope.setTopLoop l' } := by
  obtain ⟨vi, sps, hv, hc, _⟩ := h
  simp only [ns, Pipeline.vinstr, Option.some.injEq] at hv
  subst hv
  exact Run.one hc (by intro rec; simp only [step, stepIterate, hl, hit])

theorem run_appendToList {pc : Nat} (h : EntryAt c pc (ns .appendToList)) (st : State)
    (xs : List Value) (rl : SpanRange) (v : Value) (rv : SpanRange) :
    Run venv vm c pc ((st.push (.arr xs) rl).push v rv) [pc] (pc + 1)
      (st.push (.arr (xs ++ [v])) rl) := by
  obtain ⟨vi, sps, hv, hc, _⟩ := h
  simp only [ns, Pipeline.vinstr, Option.some.injEq] at hv
  subst hv
  exact Run.one hc (by intro rec; simp only [step, stepAppendToList, State.push])

theorem run_popLoop {pc : Nat} (h : EntryAt c pc (ns .popLoop)) (st : State) :
    Run venv vm c pc st [pc] (pc + 1) { st with scope := st.scope.popLoop } := by
  obtain ⟨vi, sps, hv, hc, _⟩ := h
  simp only [ns, Pipeline.vinstr, Option.some.injEq] at hv
  subst hv
  exact Run.one hc (by intro rec; simp only [step])

theorem run_storeDidNotIterate {pc : Nat} (h : EntryAt c pc (ns .storeDidNotIterate)) (st : State)
    (l : ForLoop) (rest : List ForLoop) (hl : st.scope.forLoops = l :: rest) :
    Run venv vm c pc st [pc] (pc + 1) (st.push (.bool (!l.iterated)) (pc, pc)) := by
  obtain ⟨vi, sps, hv, hc, _⟩ := h
  simp only [ns, Pipeline.vinstr, Option.some.injEq] at hv
  subst hv
  exact Run.one hc (by intro rec; simp only [step, stepStoreDidNotIterate, hl])

end
end Tera.Refine
