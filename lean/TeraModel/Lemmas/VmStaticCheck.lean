/-
C01 on the value-level VM, part 9: `c01StaticCheck` (Model/VmBodyCheck.lean) is sound — what it
computes of an environment's listings gives, together with the two parameter assumptions (the
built-ins the listings use mint no Safe string; the float formatter writes scalar characters), the
hypotheses `EnvHyp` of the C01 theorems and `bodyCheck` of every chunk.
-/
import TeraModel.Lemmas.VmBodyCheck
import TeraModel.Lemmas.VmEscapeDefault
namespace Tera.Vm
open Tera

mutual
theorem noSafeB_sound (P : Char → Prop) : ∀ v, noSafeB v = true → safeOk P v
  | .str safe s, h => by
    simp only [noSafeB, Bool.not_eq_eq_eq_not, Bool.not_true] at h
    subst h; simp
  | .arr xs, h => by
    rw [safeOk]; exact noSafeListB_sound P xs (by simpa [noSafeB] using h)
  | .map es, h => by
    rw [safeOk]; exact noSafeEntriesB_sound P es (by simpa [noSafeB] using h)
  | .undef, _ => by simp
  | .none, _ => by simp
  | .bool _, _ => by simp
  | .u64 _, _ => by simp
  | .i64 _, _ => by simp
  | .u128 _, _ => by simp
  | .i128 _, _ => by simp
  | .f64 _, _ => by simp
  | .bytes _, _ => by simp

theorem noSafeListB_sound (P : Char → Prop) : ∀ xs, noSafeListB xs = true → safeOkList P xs
  | [], _ => by rw [safeOkList]; trivial
  | v :: vs, h => by
    simp only [noSafeListB, Bool.and_eq_true] at h
    rw [safeOkList]
    exact ⟨noSafeB_sound P v h.1, noSafeListB_sound P vs h.2⟩

theorem noSafeEntriesB_sound (P : Char → Prop) : ∀ es, noSafeEntriesB es = true → safeOkEntries P es
  | [], _ => by rw [safeOkEntries]; trivial
  | (_, v) :: es, h => by
    simp only [noSafeEntriesB, Bool.and_eq_true] at h
    rw [safeOkEntries]
    exact ⟨noSafeB_sound P v h.1, noSafeEntriesB_sound P es h.2⟩
end

theorem noSafe_of_noSafeB {v : Value} (h : noSafeB v = true) : NoSafe v := fun P => noSafeB_sound P v h

theorem envChunk_mem {env : Env} {ch : Chunk} (h : EnvChunk env ch) : ch ∈ envChunks env := by
  unfold envChunks
  rcases h with ⟨x, hx, h⟩ | ⟨y, hy, rfl⟩
  · apply List.mem_append_left
    rw [List.mem_flatMap]
    refine ⟨x, hx, ?_⟩
    rcases h with rfl | ⟨y, hy, hch⟩ | ⟨y, hy, rfl⟩
    · simp
    · apply List.mem_cons_of_mem
      apply List.mem_append_left
      rw [List.mem_flatMap]
      exact ⟨y, hy, hch⟩
    · apply List.mem_cons_of_mem
      apply List.mem_append_right
      exact List.mem_map.2 ⟨y, hy, rfl⟩
  · apply List.mem_append_right
    exact List.mem_map.2 ⟨y, hy, rfl⟩

theorem envDef_mem {env : Env} {d : Component.Def} (h : EnvDef env d) : d ∈ envDefs env := by
  unfold envDefs
  rcases h with ⟨x, hx, y, hy, rfl⟩ | ⟨y, hy, rfl⟩
  · apply List.mem_append_left
    rw [List.mem_flatMap]
    exact ⟨x, hx, List.mem_map.2 ⟨y, hy, rfl⟩⟩
  · apply List.mem_append_right
    exact List.mem_map.2 ⟨y, hy, rfl⟩

/-- the parameter assumptions of C01: the built-ins the listings use mint no Safe string, the
float formatter writes scalar characters -/
structure ParamHyp (env : Env) : Prop where
  filters : ∀ (P : Char → Prop) n v kw r, FilterUsed env n → env.callFilter n v kw = .ok r →
    safeOk P v → (∀ x ∈ kw, safeOk P x.2) → safeOk P r
  tests : ∀ (P : Char → Prop) n v kw r, env.callTest n v kw = .ok r → safeOk P v →
    (∀ x ∈ kw, safeOk P x.2) → safeOk P r
  functions : ∀ (P : Char → Prop) n kw r, FunctionUsed env n → env.callFunction n kw = .ok r →
    (∀ x ∈ kw, safeOk P x.2) → safeOk P r
  fmt : FmtOk env.fmtF64

/-- **`c01StaticCheck` is sound.** -/
theorem static_check_sound {env : Env} (h : c01StaticCheck env = true) (hp : ParamHyp env) :
    EnvHyp env ∧ ∀ ch, EnvChunk env ch → bodyCheck ch = true := by
  simp only [c01StaticCheck, Bool.and_eq_true, List.all_eq_true] at h
  obtain ⟨⟨hae, hch⟩, hdef⟩ := h
  have hchunk : ∀ ch, EnvChunk env ch → chunkStaticOk env ch = true :=
    fun ch hc => hch ch (envChunk_mem hc)
  have hinstr : ∀ ch, EnvChunk env ch → ∀ e ∈ ch.code,
      (match e.1 with
       | .loadConst v => noSafeB v
       | .applyFilter n => !env.filterIsSafe n
       | .callFunction n => n == "super" || !env.functionIsSafe n
       | _ => true) = true := by
    intro ch hc e he
    have := hchunk ch hc
    simp only [chunkStaticOk, Bool.and_eq_true, List.all_eq_true] at this
    exact this.2 e he
  refine ⟨⟨fun x hx => hae x hx, ?_, ?_, hp.filters, hp.tests, hp.functions, ?_, ?_, hp.fmt⟩, ?_⟩
  · rintro n ⟨ch, hc, e, he, hn⟩
    have := hinstr ch hc e he
    rw [hn] at this
    simpa using this
  · rintro n ⟨hne, ch, hc, e, he, hn⟩
    have := hinstr ch hc e he
    rw [hn] at this
    simpa [hne] using this
  · intro ch hc e he v hv
    have := hinstr ch hc e he
    rw [hv] at this
    exact noSafe_of_noSafeB this
  · intro d hd p hp' v hv
    have := hdef d (envDef_mem hd)
    simp only [defStaticOk, List.all_eq_true] at this
    have := this p hp'
    rw [hv] at this
    exact noSafe_of_noSafeB this
  · intro ch hc
    have := hchunk ch hc
    simp only [chunkStaticOk, Bool.and_eq_true] at this
    exact this.1

end Tera.Vm
