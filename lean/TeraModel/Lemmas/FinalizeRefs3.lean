/-
The reference invariant along registration histories (Model/Registry.lean, Model/FinalizeRefs.lean):
whatever sequence of `add_raw_templates` / `autoescape_on` calls was made, successful or not, the
STORED data (component table, parents, block lineage) answers every reference of every stored
template with a CURRENT definition.
-/
import TeraModel.Lemmas.FinalizeRefs2
import TeraModel.Lemmas.RegistryAccept
namespace Tera.Reg

/-- every stored template is fully resolvable against what the instance stores -/
def StateRefsValid (reg : Registered) (st : State) : Prop :=
  ∀ k e, eget st.templates k = some e →
    (∃ t : TplR, e.tpl = t.toTpl reg ∧ unknownBuiltin reg t = false) ∧
    (∀ c ∈ e.tpl.compCalls, ∃ owner oe, compOwner st.comps c = some owner ∧
        eget st.templates owner = some oe ∧ c ∈ oe.tpl.comps.map (·.name)) ∧
    (∀ n ∈ e.tpl.includeCalls, ∃ r, resolve st.prefixes (st.templates.map (·.tpl)) n = some r ∧
        (eget st.templates r).isSome = true) ∧
    (∀ p ∈ e.parents, (eget st.templates p).isSome = true) ∧
    (∀ O ∈ chainOf k e.parents, ∀ oe, eget st.templates O = some oe → ∀ bd ∈ oe.tpl.blocks,
        ∃ o l, blockLookup e.lineage bd.name = some (o :: l) ∧
          ∀ x ∈ o :: l, ∃ xe, eget st.templates x = some xe ∧ xe.tpl.hasBlock bd.name = true)

/-- every stored source came through `Template::new` with call tables -/
def FromTables (reg : Registered) (ts : List Entry) : Prop :=
  ∀ k e, eget ts k = some e → ∃ t : TplR, e.tpl = t.toTpl reg

theorem insertBatch_fromTables (reg : Registered) :
    ∀ (items : List ItemR) (ts : List Entry) (log : UndoLog), FromTables reg ts →
      FromTables reg (insertBatch ts log (items.map (ItemR.toItem reg))).1 := by
  intro items
  induction items with
  | nil => intro ts log h; simpa [insertBatch] using h
  | cons it rest ih =>
    intro ts log h
    cases it with
    | bad n => simpa [insertBatch, ItemR.toItem] using h
    | good t =>
      simp only [List.map, ItemR.toItem, insertBatch]
      apply ih
      intro k e he
      rw [eget_einsert] at he
      by_cases hk : (Entry.fresh (t.toTpl reg)).tpl.name = k
      · simp only [hk, if_true, Option.some.injEq] at he
        exact ⟨t, by rw [← he]; rfl⟩
      · simp only [hk, if_false] at he
        exact h k e he

theorem addBatch_success_parts {st r : State} {items : List Item} {ord2 ord3 : List String → List String}
    (h : addBatch st items ord2 ord3 = (r, none)) :
    finalize { st with templates := (insertBatch st.templates [] items).1 }
      (ord2 ((insertBatch st.templates [] items).1.map (·.tpl.name)))
      (ord3 ((insertBatch st.templates [] items).1.map (·.tpl.name))) = .ok r := by
  unfold addBatch at h
  rcases hib : insertBatch st.templates [] items with ⟨ts, log, ok⟩
  cases ok with
  | false => simp [hib] at h
  | true =>
    simp only [hib] at h ⊢
    cases hf : finalize { st with templates := ts } (ord2 (ts.map (·.tpl.name))) (ord3 (ts.map (·.tpl.name))) with
    | ok s => simp only [hf] at h; cases h; rfl
    | error x => simp [hf] at h

theorem addBatch_failure_parts (st : State) (items : List Item) (ord2 ord3 : List String → List String)
    (e : Err) (h : (addBatch st items ord2 ord3).2 = some e) :
    (addBatch st items ord2 ord3).1.comps = st.comps ∧
    (addBatch st items ord2 ord3).1.prefixes = st.prefixes ∧
    ∀ k, eget (addBatch st items ord2 ord3).1.templates k = eget st.templates k := by
  have hu : ∀ k, eget (undo (insertBatch st.templates [] items).1 (insertBatch st.templates [] items).2.1) k =
      eget st.templates k := by
    intro k
    obtain ⟨added, h1, h2⟩ := insertBatch_undo items st.templates []
    rw [h1]
    simpa using h2 k
  unfold addBatch at h ⊢
  rcases hib : insertBatch st.templates [] items with ⟨ts, log, ok⟩
  rw [hib] at hu
  simp only at hu
  cases ok with
  | false => exact ⟨rfl, rfl, hu⟩
  | true =>
    simp only [hib] at h ⊢
    cases hf : finalize { st with templates := ts } (ord2 (ts.map (·.tpl.name))) (ord3 (ts.map (·.tpl.name))) with
    | ok st' => simp [hf] at h
    | error x => exact ⟨rfl, rfl, hu⟩

/-- the invariant only depends on the map, the component table and the prefixes -/
theorem StateRefsValid.congr {reg : Registered} {st st' : State} (h : StateRefsValid reg st)
    (hc : st'.comps = st.comps) (hp : st'.prefixes = st.prefixes)
    (he : ∀ k, eget st'.templates k = eget st.templates k) : StateRefsValid reg st' := by
  have hsame : SameMap (st.templates.map (·.tpl)) (st'.templates.map (·.tpl)) := by
    intro k; rw [get_map_tpl, get_map_tpl, he]
  intro k e hk
  rw [he] at hk
  obtain ⟨a, b, c, d, f⟩ := h k e hk
  refine ⟨a, ?_, ?_, ?_, ?_⟩
  · intro cn hcn
    obtain ⟨owner, oe, h1, h2, h3⟩ := b cn hcn
    exact ⟨owner, oe, by rw [hc]; exact h1, by rw [he]; exact h2, h3⟩
  · intro n hn
    obtain ⟨r, h1, h2⟩ := c n hn
    exact ⟨r, by rw [hp, ← hsame.resolve]; exact h1, by rw [he]; exact h2⟩
  · intro p hpm; rw [he]; exact d p hpm
  · intro O hO oe hoe bd hbd
    rw [he] at hoe
    obtain ⟨o, l, h1, h2⟩ := f O hO oe hoe bd hbd
    refine ⟨o, l, h1, ?_⟩
    intro x hx
    obtain ⟨xe, h3, h4⟩ := h2 x hx
    exact ⟨xe, by rw [he]; exact h3, h4⟩

theorem StateRefsValid.escape {reg : Registered} {st : State} (h : StateRefsValid reg st)
    (sfx : List String) : StateRefsValid reg (autoescapeOn st sfx) := by
  have hmap : (autoescapeOn st sfx).templates.map (·.tpl) = st.templates.map (·.tpl) := by
    simp [autoescapeOn, List.map_map, Function.comp_def]
  have hget : ∀ k, eget (autoescapeOn st sfx).templates k =
      (eget st.templates k).map (fun e => { e with autoescape := autoescapeFlag sfx e.tpl.name }) := by
    intro k; exact eget_map_autoescape st.templates sfx k
  intro k e hk
  rw [hget] at hk
  cases ho : eget st.templates k with
  | none => simp [ho] at hk
  | some o =>
    simp only [ho, Option.map_some, Option.some.injEq] at hk
    obtain ⟨a, b, c, d, f⟩ := h k o ho
    subst hk
    refine ⟨a, ?_, ?_, ?_, ?_⟩
    · intro cn hcn
      obtain ⟨owner, oe, h1, h2, h3⟩ := b cn hcn
      exact ⟨owner, { oe with autoescape := autoescapeFlag sfx oe.tpl.name }, h1, by rw [hget, h2]; rfl, h3⟩
    · intro n hn
      obtain ⟨r, h1, h2⟩ := c n hn
      refine ⟨r, by rw [hmap]; exact h1, ?_⟩
      rw [hget]
      cases hr : eget st.templates r with
      | none => simp [hr] at h2
      | some x => simp
    · intro p hpm
      have := d p hpm
      rw [hget]
      cases hr : eget st.templates p with
      | none => simp [hr] at this
      | some x => simp
    · intro O hO oe hoe bd hbd
      rw [hget] at hoe
      cases hO' : eget st.templates O with
      | none => simp [hO'] at hoe
      | some oo =>
        simp only [hO', Option.map_some, Option.some.injEq] at hoe
        subst hoe
        obtain ⟨o, l, h1, h2⟩ := f O hO oo hO' bd hbd
        refine ⟨o, l, h1, ?_⟩
        intro x hx
        obtain ⟨xe, h3, h4⟩ := h2 x hx
        exact ⟨{ xe with autoescape := autoescapeFlag sfx xe.tpl.name }, by rw [hget, h3]; rfl, h4⟩

end Tera.Reg

namespace Tera.Reg

/-- a successful `finalize_templates` establishes the invariant from scratch: nothing it stores
refers to anything older than the set it just validated -/
theorem finalize_establishes {reg : Registered} {st r : State} {o2 o3 : List String}
    (hfrom : FromTables reg st.templates)
    (ho2 : ∀ k, (eget st.templates k).isSome = true → k ∈ o2)
    (ho3 : ∀ k, (eget st.templates k).isSome = true → k ∈ o3)
    (h : finalize st o2 o3 = .ok r) : StateRefsValid reg r := by
  obtain ⟨d, ts', hd, hc, hr⟩ := finalize_ok_parts h
  have hhas : ∀ k, has (st.templates.map (·.tpl)) k = (eget st.templates k).isSome := by
    intro k; simp [Tera.Reg.has, get_map_tpl]
  -- entries after the commit
  have back : ∀ k e', eget ts' k = some e' → ∃ e, eget st.templates k = some e ∧ commitEntry d st.suffixes e = .ok e' := by
    intro k e' hk
    have a := commitAll_eget _ _ hc k
    cases he : eget st.templates k with
    | none => simp only [he] at a; rw [a] at hk; cases hk
    | some e =>
      simp only [he] at a
      obtain ⟨e2, h1, h2⟩ := a
      rw [h2] at hk; cases hk
      exact ⟨e, rfl, h1⟩
  have fwd : ∀ k (ot : Tpl), get (st.templates.map (·.tpl)) k = some ot →
      ∃ oe', eget ts' k = some oe' ∧ oe'.tpl = ot := by
    intro k ot hk
    rw [get_map_tpl] at hk
    have a := commitAll_eget _ _ hc k
    cases he : eget st.templates k with
    | none => simp [he] at hk
    | some e =>
      simp only [he, Option.map_some, Option.some.injEq] at hk
      simp only [he] at a
      obtain ⟨e2, h1, h2⟩ := a
      exact ⟨e2, h2, by rw [(commitEntry_tpl h1).1, hk]⟩
  have hsame : SameMap (st.templates.map (·.tpl)) (ts'.map (·.tpl)) := by
    intro k
    rw [get_map_tpl, get_map_tpl]
    have a := commitAll_eget _ _ hc k
    cases he : eget st.templates k with
    | none => simp only [he] at a; simp [a]
    | some e =>
      simp only [he] at a
      obtain ⟨e2, h1, h2⟩ := a
      simp [h2, (commitEntry_tpl h1).1]
  rw [hr]
  intro k e' hk
  simp only at hk
  obtain ⟨e, he, hce⟩ := back k e' hk
  obtain ⟨t1, t2, _, t4, _⟩ := commitEntry_tpl hce
  have hname := eget_name he
  have hgetS : get (st.templates.map (·.tpl)) e.tpl.name = some e.tpl := by
    rw [get_map_tpl, hname, he]; rfl
  obtain ⟨r1, r2, r3, parents, hp, hreg, hblk⟩ := derive_refs_valid st.prefixes _ o2 o3 d hd
    (fun k hk => ho2 k (by rw [← hhas]; exact hk)) (fun k hk => ho3 k (by rw [← hhas]; exact hk)) e.tpl hgetS
  rw [t2] at hp
  have hpar : e'.parents = parents := Option.some.inj hp
  refine ⟨?_, ?_, ?_, ?_, ?_⟩
  · obtain ⟨t, ht⟩ := hfrom k e he
    refine ⟨t, by rw [t1, ht], ?_⟩
    rw [ht] at r1
    exact r1
  · intro c hcm
    rw [t1] at hcm
    obtain ⟨owner, ot, h1, h2, h3⟩ := r2 c hcm
    obtain ⟨oe', h4, h5⟩ := fwd owner ot h2
    exact ⟨owner, oe', h1, h4, by rw [h5]; exact h3⟩
  · intro n hn
    rw [t1] at hn
    obtain ⟨rr, h1, h2⟩ := r3 n hn
    obtain ⟨ot, hot⟩ := has_iff_get.mp h2
    obtain ⟨oe', h4, _⟩ := fwd rr ot hot
    exact ⟨rr, by simp only; rw [← hsame.resolve]; exact h1, by simp [h4]⟩
  · intro p hpm
    rw [hpar] at hpm
    obtain ⟨ot, hot⟩ := has_iff_get.mp (hreg p hpm)
    obtain ⟨oe', h4, _⟩ := fwd p ot hot
    simp [h4]
  · intro O hO oe hoe bd hbd
    simp only at hoe
    obtain ⟨oe0, hoe0, hco⟩ := back O oe hoe
    have hOname := eget_name hoe0
    have hgO : get (st.templates.map (·.tpl)) O = some oe0.tpl := by
      rw [get_map_tpl, hoe0]; rfl
    rw [(commitEntry_tpl hco).1] at hbd
    rw [hpar, ← hname] at hO
    obtain ⟨o, l, hl, hmem⟩ := hblk O hO oe0.tpl hgO bd hbd
    refine ⟨o, l, ?_, ?_⟩
    · simp only [LB, t4] at hl
      exact hl
    · intro x hx
      obtain ⟨_, hx2⟩ := hmem x hx
      unfold definesBlock at hx2
      cases hgx : get (st.templates.map (·.tpl)) x with
      | none => simp [hgx] at hx2
      | some xt =>
        obtain ⟨xe', h4, h5⟩ := fwd x xt hgx
        refine ⟨xe', h4, ?_⟩
        simp only [hgx] at hx2
        rw [h5]
        unfold Tpl.hasBlock
        cases hfb : xt.findBlock bd.name with
        | none => simp [hfb] at hx2
        | some bb => rfl

theorem stateRefsValid_fromTables {reg : Registered} {st : State} (h : StateRefsValid reg st) :
    FromTables reg st.templates := by
  intro k e he
  obtain ⟨⟨t, ht, _⟩, _⟩ := h k e he
  exact ⟨t, ht⟩

/-- one call of the API keeps the invariant: a success re-establishes it for the new set, a failure
and `autoescape_on` leave everything it talks about untouched -/
theorem stateRefsValid_step (reg : Registered) (ord2 ord3 : List String → List String)
    (he2 : ∀ ks k, k ∈ ks → k ∈ ord2 ks) (he3 : ∀ ks k, k ∈ ks → k ∈ ord3 ks)
    (st : State) (op : OpR) (h : StateRefsValid reg st) :
    StateRefsValid reg (applyOp ord2 ord3 st (op.toOp reg)) := by
  cases op with
  | escape sfx => exact h.escape sfx
  | add items =>
    simp only [OpR.toOp, applyOp]
    cases hr : (addBatch st (items.map (ItemR.toItem reg)) ord2 ord3).2 with
    | some err =>
      obtain ⟨c1, c2, c3⟩ := addBatch_failure_parts st _ ord2 ord3 err hr
      exact h.congr c1 c2 c3
    | none =>
      have hpair : addBatch st (items.map (ItemR.toItem reg)) ord2 ord3 =
          ((addBatch st (items.map (ItemR.toItem reg)) ord2 ord3).1, none) := by rw [← hr]
      have f := addBatch_success_parts hpair
      have hfrom := insertBatch_fromTables reg items st.templates [] (stateRefsValid_fromTables h)
      exact finalize_establishes (st := { st with templates := (insertBatch st.templates [] (items.map (ItemR.toItem reg))).1 })
        hfrom (fun k hk => he2 _ k (eget_mem_names hk)) (fun k hk => he3 _ k (eget_mem_names hk)) f

theorem stateRefsValid_history (reg : Registered) (ord2 ord3 : List String → List String)
    (he2 : ∀ ks k, k ∈ ks → k ∈ ord2 ks) (he3 : ∀ ks k, k ∈ ks → k ∈ ord3 ks) :
    ∀ (ops : List OpR) (st : State), StateRefsValid reg st →
      StateRefsValid reg (runOps ord2 ord3 st (ops.map (OpR.toOp reg))) := by
  intro ops
  induction ops with
  | nil => intro st h; exact h
  | cons op rest ih =>
    intro st h
    simp only [List.map, runOps]
    exact ih _ (stateRefsValid_step reg ord2 ord3 he2 he3 st op h)

end Tera.Reg
