/-
Compiler correctness (Props/Refine.lean), part 2d: the map-building instructions `BuildMap`,
`BuildMapWithSpreads` against the evaluator's `buildMap`.

`MapStack c parts s s'`: the value stack `s'` is `s` with the slots of the evaluated map entries
`parts` pushed on it, first entry deepest: a key/value entry is the key constant
(`Compiler.keyValue k`, loaded by the compiler's `LoadConst`) and the value; a spread entry is
its value under a reportable span.
-/
import TeraModel.Lemmas.RefineInstr3
namespace Tera.Refine
open Tera Tera.Vm Tera.Compiler

inductive MapStack (c : Chunk) : List (Option Key × Value) → List Slot → List Slot → Prop
  | nil (s : List Slot) : MapStack c [] s s
  | snocKV {parts : List (Option Key × Value)} {s s' : List Slot} (k : Key) (v : Value)
      (rv rk : SpanRange) :
      MapStack c parts s s' → MapStack c (parts ++ [(some k, v)]) s ((v, rv) :: (keyValue k, rk) :: s')
  | snocSpread {parts : List (Option Key × Value)} {s s' : List Slot} (v : Value) (rg : SpanRange) :
      MapStack c parts s s' → SpanOk c rg → MapStack c (parts ++ [(none, v)]) s ((v, rg) :: s')

theorem MapStack.consKV {c : Chunk} {k : Key} {v : Value} {rv rk : SpanRange} :
    ∀ {parts : List (Option Key × Value)} {s s' : List Slot},
      MapStack c parts ((v, rv) :: (keyValue k, rk) :: s) s' → MapStack c ((some k, v) :: parts) s s' := by
  intro parts s s' h
  generalize hs0 : (v, rv) :: (keyValue k, rk) :: s = s0 at h
  induction h with
  | nil s1 =>
    subst hs0
    exact MapStack.snocKV (parts := []) k v rv rk (.nil s)
  | snocKV k' v' rv' rk' h' ih => exact MapStack.snocKV (parts := (some k, v) :: _) k' v' rv' rk' (ih hs0)
  | snocSpread v' rg' h' hsp' ih => exact MapStack.snocSpread (parts := (some k, v) :: _) v' rg' (ih hs0) hsp'

theorem MapStack.consSpread {c : Chunk} {v : Value} {rg : SpanRange} (hsp : SpanOk c rg) :
    ∀ {parts : List (Option Key × Value)} {s s' : List Slot},
      MapStack c parts ((v, rg) :: s) s' → MapStack c ((none, v) :: parts) s s' := by
  intro parts s s' h
  generalize hs0 : (v, rg) :: s = s0 at h
  induction h with
  | nil s1 =>
    subst hs0
    exact MapStack.snocSpread (parts := []) v rg (.nil s) hsp
  | snocKV k' v' rv' rk' h' ih => exact MapStack.snocKV (parts := (none, v) :: _) k' v' rv' rk' (ih hs0)
  | snocSpread v' rg' h' hsp' ih => exact MapStack.snocSpread (parts := (none, v) :: _) v' rg' (ih hs0) hsp'

theorem MapStack.nil_inv {c : Chunk} {parts : List (Option Key × Value)} {s s' : List Slot}
    (h : MapStack c parts s s') (hp : parts = []) : s' = s := by
  cases h with
  | nil => rfl
  | snocKV => simp at hp
  | snocSpread => simp at hp

theorem keyValue_asKey (k : Key) : (keyValue k).asKey = some k := by cases k <;> rfl

/-- the key/value pairs of evaluated entries without spreads -/
def kvs : List (Option Key × Value) → List (Key × Value)
  | [] => []
  | (some k, v) :: rest => (k, v) :: kvs rest
  | (none, _) :: rest => kvs rest

theorem kvs_append (a b : List (Option Key × Value)) : kvs (a ++ b) = kvs a ++ kvs b := by
  induction a with
  | nil => rfl
  | cons x rest ih =>
    obtain ⟨k, v⟩ := x
    cases k <;> simp [kvs, ih]

theorem foldl_kvs (f : Entries → Option Key × Value → Entries)
    (h1 : ∀ acc k v, f acc (some k, v) = mapInsert acc k v) (h2 : ∀ acc v, f acc (none, v) = acc)
    (parts : List (Option Key × Value)) : ∀ (acc : Entries),
    parts.foldl f acc = (kvs parts).foldl (fun m e => mapInsert m e.1 e.2) acc := by
  induction parts with
  | nil => intro acc; rfl
  | cons x rest ih =>
    intro acc
    obtain ⟨k, v⟩ := x
    cases k <;> simp [kvs, ih, h1, h2]

theorem buildMap_all (parts : List (Option Key × Value))
    (hall : parts.all (fun e => e.1.isSome) = true) :
    buildMap parts = .ok ((kvs parts).foldl (fun m e => mapInsert m e.1 e.2) []) := by
  unfold buildMap
  rw [if_pos hall, foldl_kvs _ (fun _ _ _ => rfl) (fun _ _ => rfl)]

theorem buildMap_spreads (parts : List (Option Key × Value))
    (hall : ¬ parts.all (fun e => e.1.isSome) = true) :
    buildMap parts = buildMapRev parts.reverse [] := by
  unfold buildMap
  rw [if_neg hall]

theorem popPairs_mapStack {c : Chunk} {parts : List (Option Key × Value)} {s s' : List Slot}
    (h : MapStack c parts s s') (hall : ∀ p ∈ parts, p.1.isSome = true) :
    ∀ acc, popPairs parts.length s' acc = .ok (kvs parts ++ acc) s := by
  induction h with
  | nil s => intro acc; simp [popPairs, kvs]
  | @snocKV parts s s' k v rv rk h' ih =>
    intro acc
    have hall' : ∀ p ∈ parts, p.1.isSome = true := fun p hp => hall p (by simp [hp])
    simp only [List.length_append, List.length_singleton, popPairs, keyValue_asKey, ih hall',
      kvs_append, kvs, List.append_assoc, List.singleton_append]
  | @snocSpread parts s s' v rg h' hsp ih =>
    have := hall (none, v) (by simp)
    simp at this

theorem buildMapRev_error : ∀ (l : List (Option Key × Value)) (acc : Entries) (e : Err),
    buildMapRev l acc = .error e → e = .spread := by
  intro l
  induction l with
  | nil => intro acc e h; cases h
  | cons x rest ih =>
    intro acc e h
    obtain ⟨k, v⟩ := x
    cases k with
    | some k => exact ih _ e (by simpa [buildMapRev] using h)
    | none =>
      cases v <;> simp only [buildMapRev] at h <;> try (injection h with h; exact h.symm)
      exact ih _ e h

theorem popSpreadMap_mapStack {env : Vm.Env} {vm : VmCtx} {c : Chunk}
    (ht : reportTargetOk env vm c = true) {parts : List (Option Key × Value)} {s s' : List Slot}
    (h : MapStack c parts s s') : ∀ acc,
    popSpreadMap env vm c (parts.map (·.1.isNone)).reverse s' acc
      = match buildMapRev parts.reverse acc with
        | .ok m => .inr (m, s)
        | .error _ => .inl (.err .spread) := by
  induction h with
  | nil s => intro acc; simp [popSpreadMap, buildMapRev]
  | @snocKV parts s s' k v rv rk h' ih =>
    intro acc
    simp only [List.map_append, List.map_cons, List.map_nil, List.reverse_append, List.reverse_cons,
      List.reverse_nil, List.nil_append, List.singleton_append, Option.isNone_some, popSpreadMap,
      keyValue_asKey, buildMapRev, ih]
  | @snocSpread parts s s' v rg h' hsp ih =>
    intro acc
    simp only [List.map_append, List.map_cons, List.map_nil, List.reverse_append, List.reverse_cons,
      List.reverse_nil, List.nil_append, List.singleton_append, Option.isNone_none, popSpreadMap,
      buildMapRev]
    cases v
    case map es => simp only [ih]
    all_goals simp only [renderingError_eq ht hsp]

section
variable {venv : Vm.Env} {vm : VmCtx} {c : Chunk}

/-- the instruction closing a map literal against `buildMap` -/
theorem mapBuild_sim {pc : Nat} {entries : List MapEntry} {hasSpan : Bool}
    (h : EntryAt c pc (mapBuild entries, hasSpan)) (ht : reportTargetOk venv vm c = true) (st : State)
    (parts : List (Option Key × Value)) (stk : List Slot)
    (hflags : parts.map (·.1.isNone) = entries.map MapEntry.isSpread)
    (hstk : MapStack c parts st.stack stk) :
    match buildMap parts with
    | .ok m => Run venv vm c pc { st with stack := stk } [pc] (pc + 1) (st.push (.map m) (pc, pc))
    | .error err => ∃ re, Fails venv vm c pc { st with stack := stk } [pc] re ∧ errMatch err re = true := by
  obtain ⟨vi, sps, hv, hc, _⟩ := h
  have hlen : parts.length = entries.length := by
    have := congrArg List.length hflags
    simpa using this
  unfold mapBuild at hv
  by_cases hany : entries.any MapEntry.isSpread = true
  · rw [if_pos hany] at hv
    simp only [Pipeline.vinstr, Option.some.injEq] at hv
    subst hv
    have hnall : ¬ (parts.all (fun e => e.1.isSome) = true) := by
      intro hall
      obtain ⟨en, hen, hsp⟩ := List.any_eq_true.mp hany
      have hmem : MapEntry.isSpread en ∈ entries.map MapEntry.isSpread := List.mem_map_of_mem hen
      rw [← hflags, hsp] at hmem
      obtain ⟨p, hp, hpn⟩ := List.mem_map.mp hmem
      have := List.all_eq_true.mp hall p hp
      cases hp1 : p.1 <;> simp [hp1] at this hpn
    rw [buildMap_spreads _ hnall]
    have hpop := popSpreadMap_mapStack (env := venv) (vm := vm) ht hstk []
    rw [hflags] at hpop
    cases hb : buildMapRev parts.reverse [] with
    | ok m =>
      rw [hb] at hpop
      refine Run.one hc ?_
      intro rec
      simp only [step, stepBuildMapWithSpreads, hpop]
      rfl
    | error e =>
      rw [hb] at hpop
      have he := buildMapRev_error _ _ _ hb
      subst he
      refine ⟨.spread, Fails.here hc ?_, rfl⟩
      intro rec
      simp only [step, stepBuildMapWithSpreads, hpop]
  · rw [if_neg hany] at hv
    simp only [Pipeline.vinstr, Option.some.injEq] at hv
    subst hv
    have hall : ∀ p ∈ parts, p.1.isSome = true := by
      intro p hp
      have hmem : p.1.isNone ∈ parts.map (·.1.isNone) := List.mem_map_of_mem (f := (·.1.isNone)) hp
      rw [hflags] at hmem
      obtain ⟨en, hen, henp⟩ := List.mem_map.mp hmem
      cases hp1 : p.1 with
      | some k => rfl
      | none =>
        exfalso; apply hany
        rw [hp1] at henp
        exact List.any_eq_true.mpr ⟨en, hen, henp⟩
    have hall' : parts.all (fun e => e.1.isSome) = true := List.all_eq_true.mpr hall
    rw [buildMap_all _ hall']
    refine Run.one hc ?_
    intro rec
    simp only [step, stepBuildMap, ← hlen]
    by_cases hn : parts.length = 0
    · have hp : parts = [] := List.length_eq_zero_iff.mp hn
      have hs := hstk.nil_inv hp
      subst hp
      subst hs
      simp only [List.length_nil, if_true, kvs, List.foldl_nil]
      first | rfl | done
    · rw [if_neg hn, popPairs_mapStack hstk hall []]
      simp only [List.append_nil]
      rfl
end

end Tera.Refine
