/-
C01 on the value-level VM, part 6 (E1, E3, E5): an exhaustive characterisation of what one turn of
the REAL `step` can do to the sinks (the capture buffers and the output).

Only `WriteText`, `WriteTop`, `WritePath`, `Include` and `RenderBlock` (through the nested
`interpret`) append; `Capture` / `EndCapture` push and pop a buffer; every other instruction —
including `super()` and components, which write into buffers of their own — leaves both as they
were (`frame_*`, one lemma per arm).
-/
import TeraModel.Lemmas.VmEscapeDefault
namespace Tera.Vm
open Tera

variable {rec : VmCtx → Chunk → State → RunRes} {env : Env} {vm : VmCtx} {c : Chunk}
  {pc pc' : Nat} {st st' : State}

/-- the turn left the capture buffers and the output as they were -/
def SinksSame (st st' : State) : Prop := st'.captures = st.captures ∧ st'.out = st.out

/-- closes the goals of an arm that leaves the sinks alone -/
macro "sinks_same" h:ident : tactic => `(tactic| (
  repeat' split at $h:ident
  all_goals first
    | (exfalso; simp at $h:ident; done)
    | (simp only [StepRes.next.injEq] at $h:ident; rcases $h:ident with ⟨_, h2⟩; subst h2
       exact ⟨rfl, rfl⟩)))

theorem frame_loadAttr (attr : String) (opt : Bool) (h : stepLoadAttr env vm c attr opt pc st = .next pc' st') :
    SinksSame st st' := by
  unfold stepLoadAttr at h; sinks_same h

theorem frame_subscript (opt : Bool) (h : stepSubscript env vm c opt pc st = .next pc' st') :
    SinksSame st st' := by
  unfold stepSubscript at h; sinks_same h

theorem frame_slice (opt : Bool) (h : stepSlice env vm c opt pc st = .next pc' st') :
    SinksSame st st' := by
  unfold stepSlice at h; sinks_same h

theorem frame_set (n : String) (g : Bool) (h : stepSet n g pc st = .next pc' st') : SinksSame st st' := by
  unfold stepSet at h; sinks_same h

theorem frame_buildMap (n : Nat) (h : stepBuildMap n pc st = .next pc' st') : SinksSame st st' := by
  unfold stepBuildMap State.push at h; sinks_same h

theorem frame_buildList (n : Nat) (h : stepBuildList n pc st = .next pc' st') : SinksSame st st' := by
  unfold stepBuildList at h; sinks_same h

theorem frame_buildMapWithSpreads (flags : List Bool)
    (h : stepBuildMapWithSpreads env vm c flags pc st = .next pc' st') : SinksSame st st' := by
  unfold stepBuildMapWithSpreads at h
  split at h
  · rename_i r hr
    have := popSpreadMap_inl _ _ _ _ hr
    rw [h] at this; simp [StepRes.isNext] at this
  · sinks_same h

theorem frame_buildListWithSpreads (flags : List Bool)
    (h : stepBuildListWithSpreads env vm c flags pc st = .next pc' st') : SinksSame st st' := by
  unfold stepBuildListWithSpreads at h
  split at h
  · rename_i r hr
    have := popSpreadList_inl _ _ _ _ hr
    rw [h] at this; simp [StepRes.isNext] at this
  · sinks_same h

theorem frame_filterOrTest (isTest : Bool) (name : String)
    (h : stepFilterOrTest env vm c isTest name pc st = .next pc' st') : SinksSame st st' := by
  unfold stepFilterOrTest at h; dsimp only at h; sinks_same h

theorem frame_startIterate (kv compr : Bool)
    (h : stepStartIterate env vm c kv compr pc st = .next pc' st') : SinksSame st st' := by
  unfold stepStartIterate at h; sinks_same h

theorem frame_storeLocal (n : String) (h : stepStoreLocal n pc st = .next pc' st') : SinksSame st st' := by
  unfold stepStoreLocal at h; sinks_same h

theorem frame_iterate (t : Nat) (h : stepIterate t pc st = .next pc' st') : SinksSame st st' := by
  unfold stepIterate at h; sinks_same h

theorem frame_storeDidNotIterate (h : stepStoreDidNotIterate pc st = .next pc' st') :
    SinksSame st st' := by
  unfold stepStoreDidNotIterate State.push at h; sinks_same h

theorem frame_break (h : stepBreak pc st = .next pc' st') : SinksSame st st' := by
  unfold stepBreak at h; sinks_same h

theorem frame_appendToList (h : stepAppendToList pc st = .next pc' st') : SinksSame st st' := by
  unfold stepAppendToList at h; sinks_same h

theorem frame_math (op : MathOp) (h : stepMath env vm c op pc st = .next pc' st') : SinksSame st st' := by
  unfold stepMath at h; sinks_same h

theorem frame_plus (h : stepPlus env vm c pc st = .next pc' st') : SinksSame st st' := by
  unfold stepPlus at h; sinks_same h

theorem frame_cmp (op : CmpOp) (h : stepCmp env vm c op pc st = .next pc' st') : SinksSame st st' := by
  unfold stepCmp at h; sinks_same h

theorem frame_equal (neg : Bool) (h : stepEqual neg pc st = .next pc' st') : SinksSame st st' := by
  unfold stepEqual at h; sinks_same h

theorem frame_strConcat (h : stepStrConcat env pc st = .next pc' st') : SinksSame st st' := by
  unfold stepStrConcat at h
  split at h
  · simp at h
  · simp at h
  · simp only [StepRes.next.injEq] at h; rcases h with ⟨_, h2⟩; subst h2; exact ⟨rfl, rfl⟩

theorem frame_in (h : stepIn env vm c pc st = .next pc' st') : SinksSame st st' := by
  unfold stepIn at h; sinks_same h

theorem frame_not (h : stepNot pc st = .next pc' st') : SinksSame st st' := by
  unfold stepNot at h; sinks_same h

theorem frame_negative (h : stepNegative env vm c pc st = .next pc' st') : SinksSame st st' := by
  unfold stepNegative at h; sinks_same h

theorem frame_popJumpIfFalse (t : Nat) (h : stepPopJumpIfFalse t pc st = .next pc' st') :
    SinksSame st st' := by
  unfold stepPopJumpIfFalse at h; sinks_same h

theorem frame_jumpOrPop (w : Bool) (t : Nat) (h : stepJumpOrPop w t pc st = .next pc' st') :
    SinksSame st st' := by
  unfold stepJumpOrPop at h; sinks_same h

theorem frame_loadPath (p : List String) (h : stepLoadPath env vm c p pc st = .next pc' st') :
    SinksSame st st' := by
  cases p with
  | nil => simp [stepLoadPath] at h
  | cons n attrs =>
    rw [stepLoadPath_cons] at h
    obtain ⟨v, rfl, _⟩ := loadTail_next _ _ h
    exact ⟨rfl, rfl⟩

theorem frame_super (h : stepSuper rec env vm c pc st = .next pc' st') : SinksSame st st' := by
  unfold stepSuper at h; sinks_same h

theorem frame_callFunction (n : String) (h : stepCallFunction rec env vm c n pc st = .next pc' st') :
    SinksSame st st' := by
  unfold stepCallFunction at h
  split at h
  · simp at h
  · split at h
    · have := frame_super h; exact this
    · sinks_same h

theorem frame_component (n : String) (hasBody : Bool)
    (h : stepComponent rec env vm c n hasBody pc st = .next pc' st') : SinksSame st st' := by
  unfold stepComponent at h; sinks_same h

/-! ### E1: the sink rule -/

/-- what a sink appends for `v` when autoescape is on -/
def sinkText (env : Env) (v : Value) : List Char :=
  if v.isSafe then v.format env.fmtF64 else escapeHtml (v.format env.fmtF64)

/-- the three ways bytes of a value get into a sink under autoescape: a string marked Safe, as is;
a scalar (bool / number / none), as is — and escaping it would have changed nothing; anything
else, through the escaper -/
theorem sinkText_cases (hf : FmtOk env.fmtF64) (v : Value) :
    (∃ s, v = .str true s ∧ sinkText env v = s) ∨
    (isScalar v = true ∧ sinkText env v = v.format env.fmtF64 ∧
      escapeHtml (v.format env.fmtF64) = v.format env.fmtF64) ∨
    (v.isSafe = false ∧ sinkText env v = escapeHtml (v.format env.fmtF64)) := by
  unfold sinkText
  cases hs : v.isSafe with
  | false => right; right; simp
  | true =>
    rcases isSafe_cases hs with ⟨s, rfl⟩ | hsc
    · left; exact ⟨s, rfl, by simp [Value.format]⟩
    · right; left
      exact ⟨hsc, by simp, escapeHtml_id_of_scalar (format_scalar hf hsc)⟩

/-- autoescape on: a sink appends `sinkText` -/
theorem emitValue_sinkText (hon : vm.autoescape = true) (v : Value) (st : State) :
    emitValue env vm v st = st.write (sinkText env v) := emitValue_on hon v st

/-- **E1 `vm_sink_rule`** (with E3 for `EndCapture`): everything one turn can do to the capture
buffers and the output, by instruction (`emitValue` = the tail of `WriteTop` / `WritePath`:
`emitValue_sinkText` with autoescape on, `emitValue_off` / `emitValue_safe` for the bypasses). -/
def SinkRule (rec : VmCtx → Chunk → State → RunRes) (env : Env) (vm : VmCtx) (i : VInstr) (pc : Nat)
    (st st' : State) : Prop :=
  match i with
  | .writeText t => st' = st.write t
  | .writeTop =>
    ∃ v r rest, st.stack = (v, r) :: rest ∧ v.isUndef = false ∧
      st' = emitValue env vm v { st with stack := rest }
  | .writePath _ => ∃ v, v.isUndef = false ∧ st' = emitValue env vm v st
  | .include_ n =>
    ∃ tpl stn, env.template n = some tpl ∧
      rec { vm with template := tpl } tpl.chunk (includeState st) = .done stn ∧ st' = st.write stn.out
  | .renderBlock n =>
    ∃ first more st2, assoc n vm.template.blockLineage = some (first :: more) ∧
      rec vm first (enterBlock st n (first :: more)) = .done st2 ∧ st' = leaveBlock st st2 n
  | .capture => st' = { st with captures := [] :: st.captures }
  | .endCapture =>
    ∃ buf rest, st.captures = buf :: rest ∧
      st' = { st with captures := rest, stack := (.str true buf, (pc, pc)) :: st.stack }
  | _ => SinksSame st st'

theorem sink_rule (e : VEntry)
    (h : step rec env vm c e pc st = .next pc' st') : SinkRule rec env vm e.1 pc st st' := by
  obtain ⟨i, spans⟩ := e
  unfold step at h
  cases i <;> simp only at h <;> simp only [SinkRule]
  case loadConst v => simp only [StepRes.next.injEq] at h; rcases h with ⟨_, h2⟩; subst h2; exact ⟨rfl, rfl⟩
  case loadName n => simp only [StepRes.next.injEq] at h; rcases h with ⟨_, h2⟩; subst h2; exact ⟨rfl, rfl⟩
  case loadAttr a o => exact frame_loadAttr a o h
  case binarySubscript o => exact frame_subscript o h
  case slice o => exact frame_slice o h
  case writeText t => simp only [StepRes.next.injEq] at h; exact h.2.symm
  case writeTop =>
    unfold stepWriteTop at h
    split at h
    · simp at h
    · rename_i top topSpan rest hs0
      split at h
      · simp at h
      · rename_i hu
        simp only [StepRes.next.injEq] at h
        exact ⟨top, topSpan, rest, hs0, Bool.eq_false_iff.2 hu, h.2.symm⟩
  case set n g => exact frame_set n g h
  case include_ n =>
    unfold stepInclude at h
    split at h
    · simp at h
    · rename_i tpl ht
      split at h
      all_goals first
        | (exfalso; simp at h; done)
        | skip
      rename_i stn hr
      simp only [StepRes.next.injEq] at h
      exact ⟨tpl, stn, ht, hr, h.2.symm⟩
  case buildMap n => exact frame_buildMap n h
  case buildList n => exact frame_buildList n h
  case buildMapWithSpreads f => exact frame_buildMapWithSpreads f h
  case buildListWithSpreads f => exact frame_buildListWithSpreads f h
  case callFunction n => exact frame_callFunction n h
  case renderComponent n b => exact frame_component n b h
  case applyFilter n => exact frame_filterOrTest false n h
  case runTest n => exact frame_filterOrTest true n h
  case renderBlock n =>
    unfold stepRenderBlock at h
    repeat' split at h
    all_goals first
      | (exfalso; simp at h; done)
      | skip
    rename_i _ first more hl _ st2 hr
    simp only [StepRes.next.injEq] at h
    exact ⟨first, more, st2, hl, hr, h.2.symm⟩
  case jump t => simp only [StepRes.next.injEq] at h; rcases h with ⟨_, h2⟩; subst h2; exact ⟨rfl, rfl⟩
  case popJumpIfFalse t => exact frame_popJumpIfFalse t h
  case jumpIfFalseOrPop t => exact frame_jumpOrPop false t h
  case jumpIfTrueOrPop t => exact frame_jumpOrPop true t h
  case capture => simp only [StepRes.next.injEq] at h; exact h.2.symm
  case endCapture =>
    unfold stepEndCapture at h
    split at h
    · simp at h
    · rename_i buf restCaps hc
      simp only [StepRes.next.injEq] at h
      exact ⟨buf, restCaps, hc, h.2.symm⟩
  case startIterate kv co => exact frame_startIterate kv co h
  case iterate t => exact frame_iterate t h
  case storeLocal n => exact frame_storeLocal n h
  case storeDidNotIterate => exact frame_storeDidNotIterate h
  case break_ => exact frame_break h
  case popLoop => simp only [StepRes.next.injEq] at h; rcases h with ⟨_, h2⟩; subst h2; exact ⟨rfl, rfl⟩
  case appendToList => exact frame_appendToList h
  case math op => exact frame_math op h
  case plus => exact frame_plus h
  case cmp op => exact frame_cmp op h
  case equal ng => exact frame_equal ng h
  case strConcat => exact frame_strConcat h
  case in_ => exact frame_in h
  case not_ => exact frame_not h
  case negative => exact frame_negative h
  case loadPath p => exact frame_loadPath p h
  case writePath p =>
    cases p with
    | nil => simp [stepWritePath] at h
    | cons n attrs =>
      rw [stepWritePath_cons] at h
      obtain ⟨v, hu, rfl, _⟩ := writeTail_next _ _ h
      exact ⟨v, hu, rfl⟩

/-! ### E5: the two bypasses -/

/-- autoescape off: the bytes written are `format v`, whatever `v` -/
theorem emitValue_off (hoff : vm.autoescape = false) (v : Value) (st : State) :
    emitValue env vm v st = st.write (v.format env.fmtF64) := by
  unfold emitValue; simp [hoff]

/-- a Safe value: the bytes written are `format v`, whatever the autoescape setting -/
theorem emitValue_safe {v : Value} (hs : v.isSafe = true) (st : State) :
    emitValue env vm v st = st.write (v.format env.fmtF64) := by
  unfold emitValue; simp [hs]

end Tera.Vm
