/-
T1 machinery: segments of a chunk / of a table, the local check of one instruction against a
table (`LocalOK`, the `Prop` version of `WellFormed.verifyAt`), how every instruction family steps
from the states the table functions of Lemmas/CompilerTab.lean use.
-/
import TeraModel.Lemmas.CompilerTab
import TeraModel.Lemmas.WellFormed
namespace Tera.Compiler
open Tera.WellFormed

/-! ### Segments -/

/-- `frag` sits in `C` at index `base` -/
def Seg {α : Type} (C : List α) (base : Nat) (frag : List α) : Prop :=
  ∀ i, i < frag.length → C[base + i]? = frag[i]?

theorem seg_nil {α : Type} (C : List α) (base : Nat) : Seg C base [] ↔ True := by
  simp [Seg]

theorem seg_cons {α : Type} (C : List α) (base : Nat) (x : α) (b : List α) :
    Seg C base (x :: b) ↔ C[base]? = some x ∧ Seg C (base + 1) b := by
  constructor
  · intro h
    refine ⟨by simpa using h 0 (by simp), ?_⟩
    intro i hi
    have := h (i + 1) (by simp; omega)
    simpa [Nat.add_assoc, Nat.add_comm 1 i] using this
  · rintro ⟨h0, h1⟩ i hi
    cases i with
    | zero => simpa using h0
    | succ j =>
      have := h1 j (by simp at hi; omega)
      simpa [Nat.add_assoc, Nat.add_comm 1 j] using this

theorem seg_append {α : Type} (C : List α) (base : Nat) (a b : List α) :
    Seg C base (a ++ b) ↔ Seg C base a ∧ Seg C (base + a.length) b := by
  constructor
  · intro h
    refine ⟨?_, ?_⟩
    · intro i hi
      have := h i (by simp; omega)
      rw [this, List.getElem?_append_left hi]
    · intro i hi
      have := h (a.length + i) (by simp; omega)
      rw [Nat.add_assoc, this, List.getElem?_append_right (by omega)]
      simp
  · rintro ⟨h0, h1⟩ i hi
    by_cases hlt : i < a.length
    · rw [h0 i hlt, List.getElem?_append_left hlt]
    · have := h1 (i - a.length) (by simp at hi; omega)
      rw [List.getElem?_append_right (by omega), ← this]
      congr 1; omega

theorem seg_head {α : Type} {C : List α} {base : Nat} {l : List α} {x a : α} {tl : List α}
    (hs : Seg C base l) (he : C[base + l.length]? = some x) (h : l ++ [x] = a :: tl) :
    C[base]? = some a := by
  cases l with
  | nil => simp at h; simpa [h.1] using he
  | cons y ys =>
    simp at h
    have := (seg_cons C base y ys).mp hs
    rw [this.1, h.1]

/-! ### States -/

@[simp] theorem pushN_zero (a : St) : pushN a 0 = a := by simp [pushN]
@[simp] theorem pushN_pushN (a : St) (m n : Nat) : pushN (pushN a m) n = pushN a (n + m) := by
  simp only [pushN, St.mk.injEq, and_true]
  rw [← List.append_assoc, List.replicate_append_replicate]
@[simp] theorem pushN_stack_length (a : St) (n : Nat) : (pushN a n).stack.length = n + a.stack.length := by
  simp [pushN]

theorem le_pushList (a : St) : (pushList a).le (pushN a 1) = true := by
  simp [St.le, pushList, pushN, leStack, leStack_refl, leLoops_refl, List.replicate]

theorem le_loopUp (a : St) (t : Option Nat) : (loopUp a t).le (loopUp a none) = true := by
  simp [St.le, loopUp, leLoops, leStack_refl, leLoops_refl]

/-! ### One instruction against a table -/

/-- the successor `(pc', s')` is described by the table -/
def Cov (T : List St) (x : Nat × St) : Prop := ∃ b, T[x.1]? = some b ∧ x.2.le b = true

theorem cov_eq {T : List St} {pc : Nat} {s : St} (h : T[pc]? = some s) : Cov T (pc, s) :=
  ⟨s, h, St.le_refl s⟩

theorem cov_le {T : List St} {pc : Nat} {s b : St} (h : T[pc]? = some b) (hle : s.le b = true) :
    Cov T (pc, s) := ⟨b, h, hle⟩

/-- `WellFormed.verifyAt` as a `Prop`, for typed instructions: if the table describes the state
before instruction `pc`, the instruction does not panic and every successor is described by the
table. -/
def LocalOK (C : Code) (T : List St) (pc : Nat) : Prop :=
  ∀ e a, C[pc]? = some e → T[pc]? = some a →
    ∃ succs, step (cop e.1) pc a = some succs ∧ ∀ x ∈ succs, Cov T x

def OKr (C : Code) (T : List St) (base n : Nat) : Prop := ∀ i, i < n → LocalOK C T (base + i)

theorem okr_zero (C T base) : OKr C T base 0 ↔ True := by simp [OKr]
theorem okr_one (C T base) : OKr C T base 1 ↔ LocalOK C T base := by
  constructor
  · intro h; simpa using h 0 (by omega)
  · intro h i hi; have : i = 0 := by omega
    subst this; simpa using h
theorem okr_add (C T base m n) : OKr C T base (m + n) ↔ OKr C T base m ∧ OKr C T (base + m) n := by
  constructor
  · intro h
    refine ⟨fun i hi => h i (by omega), fun i hi => ?_⟩
    have := h (m + i) (by omega)
    simpa [Nat.add_assoc] using this
  · rintro ⟨h0, h1⟩ i hi
    by_cases hlt : i < m
    · exact h0 i hlt
    · have := h1 (i - m) (by omega)
      have e : base + m + (i - m) = base + i := by omega
      rwa [e] at this

/-- one successor -/
theorem rule1 {C : Code} {T : List St} {pc : Nat} {e : CEntry} {a : St} {x : Nat × St}
    (hC : C[pc]? = some e) (hT : T[pc]? = some a)
    (hs : step (cop e.1) pc a = some [x]) (h1 : Cov T x) : LocalOK C T pc := by
  intro e' a' hC' hT'
  rw [hC] at hC'; rw [hT] at hT'; cases hC'; cases hT'
  exact ⟨_, hs, by simpa using h1⟩

/-- two successors -/
theorem rule2 {C : Code} {T : List St} {pc : Nat} {e : CEntry} {a : St} {x y : Nat × St}
    (hC : C[pc]? = some e) (hT : T[pc]? = some a)
    (hs : step (cop e.1) pc a = some [x, y]) (h1 : Cov T x) (h2 : Cov T y) : LocalOK C T pc := by
  intro e' a' hC' hT'
  rw [hC] at hC'; rw [hT] at hT'; cases hC'; cases hT'
  exact ⟨_, hs, by simpa using ⟨h1, h2⟩⟩

/-! ### Steps from the states of the table functions -/

theorem step_push (pc : Nat) (a : St) :
    step (.push false) pc a = some [(pc + 1, pushN a 1)] := by
  simp [step, pushN, List.replicate]

theorem step_popPush (n pc : Nat) (a : St) :
    step (.popPush n false) pc (pushN a n) = some [(pc + 1, pushN a 1)] := by
  simp [step, pushN, List.replicate]

theorem step_popPushList (n pc : Nat) (a : St) :
    step (.popPush n true) pc (pushN a n) = some [(pc + 1, pushList a)] := by
  simp [step, pushN, pushList]

theorem step_buildMap (n pc : Nat) (a : St) :
    step (cop (.buildMap n)) pc (pushN a (2 * n)) = some [(pc + 1, pushN a 1)] := by
  by_cases h : n = 0
  · subst h; simp [cop, step_push]
  · simp [cop, h, step_popPush]

theorem cop_unaryInstr (op : UnaryOperator) : cop (unaryInstr op) = .popPush 1 false := by
  cases op <;> rfl

theorem flagSlots_map (m : List MapEntry) : flagSlots (m.map MapEntry.isSpread) = mapSlots m := by
  induction m with
  | nil => rfl
  | cons x xs ih => cases x <;> simp [flagSlots, mapSlots, MapEntry.isSpread, ih]

theorem mapSlots_noSpread (m : List MapEntry) (h : m.any MapEntry.isSpread = false) :
    mapSlots m = 2 * m.length := by
  induction m with
  | nil => rfl
  | cons x xs ih =>
    rw [List.any_cons, Bool.or_eq_false_iff] at h
    cases x with
    | keyValue k v =>
      have := ih h.2
      simp only [mapSlots, this, List.length_cons]; omega
    | spread e => exact absurd h.1 (by simp [MapEntry.isSpread])

theorem step_mapBuild (m : List MapEntry) (pc : Nat) (a : St) :
    step (cop (mapBuild m)) pc (pushN a (mapSlots m)) = some [(pc + 1, pushN a 1)] := by
  unfold mapBuild
  by_cases h : m.any MapEntry.isSpread = true
  · rw [if_pos h]
    simp only [cop, flagSlots_map]
    exact step_popPush _ _ _
  · rw [if_neg h, mapSlots_noSpread m (by simpa using h)]
    exact step_buildMap _ _ _

theorem step_arrayBuild (it : List ArrayEntry) (pc : Nat) (a : St) :
    step (cop (arrayBuild it)) pc (pushN a it.length) = some [(pc + 1, pushList a)] := by
  unfold arrayBuild
  split
  · simp only [cop, List.length_map]
    exact step_popPushList _ _ _
  · simp only [cop]
    exact step_popPushList _ _ _

theorem step_pop1 (pc : Nat) (a : St) : step (.pop 1) pc (pushN a 1) = some [(pc + 1, a)] := by
  simp [step, pushN, List.replicate]

theorem step_nop (pc : Nat) (a : St) : step .nop pc a = some [(pc + 1, a)] := rfl
theorem step_jump (t pc : Nat) (a : St) : step (.jump t) pc a = some [(t, a)] := rfl

theorem step_popJumpIfFalse (t pc : Nat) (a : St) :
    step (.popJumpIfFalse t) pc (pushN a 1) = some [(t, a), (pc + 1, a)] := by
  simp [step, pushN, List.replicate]

theorem step_jumpOrPop (t pc : Nat) (a : St) :
    step (.jumpOrPop t) pc (pushN a 1) = some [(t, pushN a 1), (pc + 1, a)] := by
  simp [step, pushN, List.replicate]

theorem step_capture (pc : Nat) (a : St) : step .capture pc a = some [(pc + 1, capUp a)] := rfl

theorem step_endCapture (pc : Nat) (a : St) :
    step .endCapture pc (capUp a) = some [(pc + 1, pushN a 1)] := by
  simp [step, capUp, pushN, List.replicate]

theorem step_startIterate (pc : Nat) (a : St) :
    step .startIterate pc (pushN a 1) = some [(pc + 1, loopUp a none)] := by
  simp [step, pushN, loopUp, List.replicate]

theorem step_storeLocal (pc : Nat) (a : St) (e : Option Nat) :
    step .storeLocal pc (loopUp a e) = some [(pc + 1, loopUp a e)] := rfl

theorem step_iterate (t pc : Nat) (a : St) (e : Option Nat) :
    step (.iterate t) pc (loopUp a e) = some [(t, loopUp a e), (pc + 1, loopUp a (some t))] := rfl

theorem step_storeDidNotIterate (pc : Nat) (a : St) (e : Option Nat) :
    step .storeDidNotIterate pc (loopUp a e) = some [(pc + 1, pushN (loopUp a e) 1)] := by
  simp [step, pushN, loopUp, List.replicate]

theorem step_popLoop (pc : Nat) (a : St) (e : Option Nat) :
    step .popLoop pc (loopUp a e) = some [(pc + 1, a)] := rfl

theorem step_popLoop1 (pc : Nat) (a : St) (e : Option Nat) :
    step .popLoop pc (pushN (loopUp a e) 1) = some [(pc + 1, pushN a 1)] := by
  simp [step, pushN, loopUp]

theorem step_appendToList (pc : Nat) (a : St) (e : Option Nat) :
    step .appendToList pc (pushN (loopUp (pushList a) e) 1)
      = some [(pc + 1, loopUp (pushList a) e)] := by
  simp [step, pushN, loopUp, pushList, List.replicate]

theorem step_break (pc t : Nat) (a : St) (rest : List (Option Nat)) (h : a.loops = some t :: rest) :
    step .break_ pc a = some [(t, a)] := by
  simp [step, h]

/-! ### The first entry of a table segment is the entry state -/

theorem seg_head' {α : Type} {C : List α} {base : Nat} {l : List α} {x a : α}
    (hs : Seg C base l) (he : C[base + l.length]? = some x) (h : (l ++ [x]).head? = some a) :
    C[base]? = some a := by
  cases l with
  | nil => simp at h; simpa [h] using he
  | cons y ys =>
    simp at h
    have := (seg_cons C base y ys).mp hs
    rw [this.1, h]

theorem head?_append_cons2 {α : Type} (l : List α) (x y : α) (r : List α) :
    (l ++ x :: y :: r).head? = (l ++ [x]).head? := by
  cases l <;> simp

def HeadM1 (e : Expr) : Prop :=
  ∀ base loop a, exprScoped e = true → (exprTab base loop a e).head? = some a
def HeadM2 (ns : List Node) : Prop :=
  ∀ base loop a il, nodesScoped il ns = true → (il = true → loop.isSome = true) →
    (nodesTab base loop a ns ++ [a]).head? = some a
def HeadM3 (n : Node) : Prop :=
  ∀ base loop a il, nodeScoped il n = true → (il = true → loop.isSome = true) →
    (nodeTab base loop a n).head? = some a
def HeadM4 (k : List (String × Expr)) : Prop :=
  ∀ base loop a, (kwargsTab base loop a k ++ [pushN a (2 * k.length)]).head? = some a
def HeadM5 (f : List Expr) : Prop :=
  ∀ base loop a, (filtersTab base loop a f ++ [pushN a 1]).head? = some (pushN a 1)
def HeadM6 (o : Option Expr) : Prop :=
  ∀ base loop a x, optExprScoped o = true →
    (condTab base loop a o ++ [x]).head? = some (if o.isSome then a else x)
def HeadM7 (o : Option Expr) : Prop :=
  ∀ base loop a, optExprScoped o = true → (optExprTab base loop a o).head? = some a
def HeadM8 (it : List ArrayEntry) : Prop :=
  ∀ base loop a, arrayItemsScoped it = true →
    (arrayItemsTab base loop a it ++ [pushN a it.length]).head? = some a
def HeadM9 (m : List MapEntry) : Prop :=
  ∀ base loop a, mapItemsScoped m = true →
    (mapItemsTab base loop a m ++ [pushN a (mapSlots m)]).head? = some a

theorem head_aux :
    (∀ (_ : Nat) (_ : Option Nat) e, HeadM1 e) ∧
    (∀ (_ : Nat) (_ : Option Nat) ns, HeadM2 ns) ∧
    (∀ (_ : Nat) (_ : Option Nat) n, HeadM3 n) ∧
    (∀ (_ : Nat) (_ : Option Nat) k, HeadM4 k) ∧
    (∀ (_ : Nat) (_ : Option Nat) f, HeadM5 f) ∧
    (∀ (_ : Nat) (_ : Option Nat) o, HeadM6 o) ∧
    (∀ (_ : Nat) (_ : Option Nat) (_ : CInstr) o, HeadM7 o) ∧
    (∀ (_ : Nat) (_ : Option Nat) it, HeadM8 it) ∧
    (∀ (_ : Nat) (_ : Option Nat) m, HeadM9 m) := by
  apply exprCode.mutual_induct
    (motive_1 := fun _ _ e => HeadM1 e)
    (motive_2 := fun _ _ ns => HeadM2 ns)
    (motive_3 := fun _ _ n => HeadM3 n)
    (motive_4 := fun _ _ k => HeadM4 k)
    (motive_5 := fun _ _ f => HeadM5 f)
    (motive_6 := fun _ _ o => HeadM6 o)
    (motive_7 := fun _ _ _ o => HeadM7 o)
    (motive_8 := fun _ _ it => HeadM8 it)
    (motive_9 := fun _ _ m => HeadM9 m)
  all_goals intros
  all_goals simp only [HeadM1, HeadM2, HeadM3, HeadM4, HeadM5, HeadM6, HeadM7, HeadM8, HeadM9] at *
  all_goals intros
  all_goals simp only [exprTab, nodesTab, nodeTab, kwargsTab, filtersTab, condTab, optExprTab,
    arrayItemsTab, mapItemsTab] at *
  all_goals (try (simp only [exprScoped, nodesScoped, nodeScoped, kwargsScoped,
    filtersScoped, optExprScoped, arrayItemsScoped, mapItemsScoped] at *))
  all_goals (try simp only [Bool.and_eq_true, Bool.or_eq_true] at *)
  all_goals (try split)
  all_goals (try (simp (config := { zetaDelta := true }) [List.head?_append, mapSlots, *]; done))
  all_goals (try (simp_all (config := { zetaDelta := true }) [List.head?_append, mapSlots, head?_append_cons2]; done))
  all_goals (try grind [List.head?_append, head?_append_cons2])

theorem tabLen1 (e base loop a) : (exprTab base loop a e).length = (exprCode base loop e).length :=
  tab_length_aux.1 0 none e base loop a
theorem tabLen2 (ns base loop a) : (nodesTab base loop a ns).length = (nodesCode base loop ns).length :=
  tab_length_aux.2.1 0 none ns base loop a
theorem tabLen3 (n base loop a) : (nodeTab base loop a n).length = (nodeCode base loop n).length :=
  tab_length_aux.2.2.1 0 none n base loop a
theorem tabLen4 (k base loop a) : (kwargsTab base loop a k).length = (kwargsCode base loop k).length :=
  tab_length_aux.2.2.2.1 0 none k base loop a
theorem tabLen5 (f base loop a) : (filtersTab base loop a f).length = (filtersCode base loop f).length :=
  tab_length_aux.2.2.2.2.1 0 none f base loop a
theorem tabLen6 (o base loop a) : (condTab base loop a o).length = (condCode base loop o).length :=
  tab_length_aux.2.2.2.2.2.1 0 none o base loop a
theorem optLen (o : Option Expr) (base : Nat) (loop : Option Nat) (d d' : CInstr) :
    (optExprCode base loop d o).length = (optExprCode base loop d' o).length := by
  cases o <;> simp [optExprCode]
theorem optLen1 (o : Option Expr) (base : Nat) (loop : Option Nat) :
    (optExprCode base loop (.loadConst (.i64 1)) o).length
      = (optExprCode base loop (.loadConst .none) o).length := optLen o base loop _ _
theorem tabLen7 (o base loop a) :
    (optExprTab base loop a o).length = (optExprCode base loop (.loadConst .none) o).length :=
  tab_length_aux.2.2.2.2.2.2.1 0 none .not o base loop _ a
theorem tabLen8 (it base loop a) :
    (arrayItemsTab base loop a it).length = (arrayItemsCode base loop it).length :=
  tab_length_aux.2.2.2.2.2.2.2.1 0 none it base loop a
theorem tabLen9 (m base loop a) : (mapItemsTab base loop a m).length = (mapItemsCode base loop m).length :=
  tab_length_aux.2.2.2.2.2.2.2.2 0 none m base loop a

theorem seg_head1 {α : Type} {C : List α} {base : Nat} {l : List α} {a : α}
    (hs : Seg C base l) (h : l.head? = some a) : C[base]? = some a := by
  cases l with
  | nil => simp at h
  | cons y ys =>
    simp at h
    rw [((seg_cons C base y ys).mp hs).1, h]

theorem head_expr {T : List St} {b : Nat} {loop : Option Nat} {a : St} {e : Expr}
    (hs : Seg T b (exprTab b loop a e)) (h : exprScoped e = true) : T[b]? = some a :=
  seg_head1 hs (head_aux.1 0 none e b loop a h)

theorem head_opt {T : List St} {b : Nat} {loop : Option Nat} {a : St} {o : Option Expr}
    (hs : Seg T b (optExprTab b loop a o)) (h : optExprScoped o = true) : T[b]? = some a :=
  seg_head1 hs (head_aux.2.2.2.2.2.2.1 0 none .not o b loop a h)

theorem head_node {T : List St} {b : Nat} {loop : Option Nat} {a : St} {n : Node} {il : Bool}
    (hs : Seg T b (nodeTab b loop a n)) (h : nodeScoped il n = true)
    (hl : il = true → loop.isSome = true) : T[b]? = some a :=
  seg_head1 hs (head_aux.2.2.1 0 none n b loop a il h hl)

theorem head_nodes {T : List St} {b : Nat} {loop : Option Nat} {a : St} {ns : List Node} {il : Bool}
    (hs : Seg T b (nodesTab b loop a ns)) (he : T[b + (nodesCode b loop ns).length]? = some a)
    (h : nodesScoped il ns = true) (hl : il = true → loop.isSome = true) : T[b]? = some a :=
  seg_head' hs (by rw [tabLen2]; exact he) (head_aux.2.1 0 none ns b loop a il h hl)

theorem head_kwargs {T : List St} {b : Nat} {loop : Option Nat} {a : St} {k : List (String × Expr)}
    (hs : Seg T b (kwargsTab b loop a k))
    (he : T[b + (kwargsCode b loop k).length]? = some (pushN a (2 * k.length))) : T[b]? = some a :=
  seg_head' hs (by rw [tabLen4]; exact he) (head_aux.2.2.2.1 0 none k b loop a)

theorem head_filters {T : List St} {b : Nat} {loop : Option Nat} {a : St} {f : List Expr}
    (hs : Seg T b (filtersTab b loop a f))
    (he : T[b + (filtersCode b loop f).length]? = some (pushN a 1)) : T[b]? = some (pushN a 1) :=
  seg_head' hs (by rw [tabLen5]; exact he) (head_aux.2.2.2.2.1 0 none f b loop a)

theorem head_cond {T : List St} {b : Nat} {loop : Option Nat} {a x : St} {o : Option Expr}
    (hs : Seg T b (condTab b loop a o)) (he : T[b + (condCode b loop o).length]? = some x)
    (h : optExprScoped o = true) : T[b]? = some (if o.isSome then a else x) :=
  seg_head' hs (by rw [tabLen6]; exact he) (head_aux.2.2.2.2.2.1 0 none o b loop a x h)

theorem head_array {T : List St} {b : Nat} {loop : Option Nat} {a : St} {it : List ArrayEntry}
    (hs : Seg T b (arrayItemsTab b loop a it))
    (he : T[b + (arrayItemsCode b loop it).length]? = some (pushN a it.length))
    (h : arrayItemsScoped it = true) : T[b]? = some a :=
  seg_head' hs (by rw [tabLen8]; exact he) (head_aux.2.2.2.2.2.2.2.1 0 none it b loop a h)

theorem head_map {T : List St} {b : Nat} {loop : Option Nat} {a : St} {m : List MapEntry}
    (hs : Seg T b (mapItemsTab b loop a m))
    (he : T[b + (mapItemsCode b loop m).length]? = some (pushN a (mapSlots m)))
    (h : mapItemsScoped m = true) : T[b]? = some a :=
  seg_head' hs (by rw [tabLen9]; exact he) (head_aux.2.2.2.2.2.2.2.2 0 none m b loop a h)

/-! ### The statement proved for every construct -/

/-- what a `break` / `continue` at statement level of the current loop body needs from the table:
the loop's `Iterate` (the target of `continue`) and the loop's end (the target of `break`, recorded
on the loop stack) are described by entries that cover the current state -/
def LoopCtx (T : List St) (loop : Option Nat) (a : St) : Prop :=
  ∃ idx t rest b1 b2, loop = some idx ∧ T[idx]? = some b1 ∧ a.le b1 = true ∧
    a.loops = some t :: rest ∧ T[t]? = some b2 ∧ a.le b2 = true

def WfM1 (e : Expr) : Prop :=
  ∀ base loop a C T, Seg C base (exprCode base loop e) → Seg T base (exprTab base loop a e) →
    T[base + (exprCode base loop e).length]? = some (pushN a 1) → exprScoped e = true →
    OKr C T base (exprCode base loop e).length
def WfM2 (ns : List Node) : Prop :=
  ∀ base loop a C T il, Seg C base (nodesCode base loop ns) → Seg T base (nodesTab base loop a ns) →
    T[base + (nodesCode base loop ns).length]? = some a → nodesScoped il ns = true →
    (il = true → LoopCtx T loop a) → OKr C T base (nodesCode base loop ns).length
def WfM3 (n : Node) : Prop :=
  ∀ base loop a C T il, Seg C base (nodeCode base loop n) → Seg T base (nodeTab base loop a n) →
    T[base + (nodeCode base loop n).length]? = some a → nodeScoped il n = true →
    (il = true → LoopCtx T loop a) → OKr C T base (nodeCode base loop n).length
def WfM4 (k : List (String × Expr)) : Prop :=
  ∀ base loop a C T, Seg C base (kwargsCode base loop k) → Seg T base (kwargsTab base loop a k) →
    T[base + (kwargsCode base loop k).length]? = some (pushN a (2 * k.length)) → kwargsScoped k = true →
    OKr C T base (kwargsCode base loop k).length
def WfM5 (f : List Expr) : Prop :=
  ∀ base loop a C T, Seg C base (filtersCode base loop f) → Seg T base (filtersTab base loop a f) →
    T[base + (filtersCode base loop f).length]? = some (pushN a 1) → filtersScoped f = true →
    OKr C T base (filtersCode base loop f).length
def WfM6 (o : Option Expr) : Prop :=
  ∀ base loop a C T, Seg C base (condCode base loop o) → Seg T base (condTab base loop a o) →
    T[base + (condCode base loop o).length]? = some (if o.isSome then pushN a 1 else a) →
    optExprScoped o = true → OKr C T base (condCode base loop o).length
def WfM7 (o : Option Expr) : Prop :=
  ∀ base loop dflt a C T, cop dflt = .push false → Seg C base (optExprCode base loop dflt o) →
    Seg T base (optExprTab base loop a o) →
    T[base + (optExprCode base loop (.loadConst .none) o).length]? = some (pushN a 1) →
    optExprScoped o = true →
    OKr C T base (optExprCode base loop (.loadConst .none) o).length
def WfM8 (it : List ArrayEntry) : Prop :=
  ∀ base loop a C T, Seg C base (arrayItemsCode base loop it) → Seg T base (arrayItemsTab base loop a it) →
    T[base + (arrayItemsCode base loop it).length]? = some (pushN a it.length) →
    arrayItemsScoped it = true → OKr C T base (arrayItemsCode base loop it).length
def WfM9 (m : List MapEntry) : Prop :=
  ∀ base loop a C T, Seg C base (mapItemsCode base loop m) → Seg T base (mapItemsTab base loop a m) →
    T[base + (mapItemsCode base loop m).length]? = some (pushN a (mapSlots m)) →
    mapItemsScoped m = true → OKr C T base (mapItemsCode base loop m).length

end Tera.Compiler
