/-
Lemmas about `Utf8.valid` and `Utf8.isBoundary`: shape of valid strings, suffixes at boundaries
are valid, prefix cancellation, the position after a valid prefix is a boundary.
-/
import TeraModel.Model.Utf8
namespace Tera.Utf8

theorem valid_cons_ascii {a : Nat} (t : Bytes) (h : a < 0x80) : valid (a :: t) = valid t := by
  conv => lhs; unfold valid
  simp [h]

theorem valid_cons2 {a : Nat} (b : Nat) (t : Bytes) (h1 : 0xC2 ≤ a) (h2 : a < 0xE0) :
    valid (a :: b :: t) = (isCont b && valid t) := by
  have : ¬ a < 0x80 := by omega
  have : ¬ a < 0xC2 := by omega
  conv => lhs; unfold valid
  simp [*]

/-- the shape of a valid string: a complete scalar followed by a valid string -/
theorem valid_cases {s : Bytes} (h : valid s = true) :
    s = [] ∨ (∃ a t, s = a :: t ∧ a < 0x80 ∧ valid t = true)
    ∨ (∃ a b t, s = a :: b :: t ∧ 0xC2 ≤ a ∧ a < 0xE0 ∧ isCont b = true ∧ valid t = true)
    ∨ (∃ a b c t, s = a :: b :: c :: t ∧ 0xE0 ≤ a ∧ a < 0xF0 ∧ isCont b = true ∧ isCont c = true ∧ valid t = true)
    ∨ (∃ a b c e t, s = a :: b :: c :: e :: t ∧ 0xF0 ≤ a ∧ a < 0xF5 ∧ isCont b = true ∧ isCont c = true ∧ isCont e = true ∧ valid t = true) := by
  unfold valid at h
  split at h
  · simp
  · rename_i b0 t
    right
    split at h
    · left; exact ⟨b0, t, rfl, by assumption, h⟩
    · split at h
      · simp at h
      · split at h
        · split at h
          · rename_i b1 t1
            right; left
            simp at h
            exact ⟨b0, b1, t1, rfl, by omega, by omega, h.1, h.2⟩
          · simp at h
        · split at h
          · split at h
            · rename_i b1 b2 t2
              right; right; left
              simp at h
              exact ⟨b0, b1, b2, t2, rfl, by omega, by omega, h.1.1.1.1, h.1.1.1.2, h.2⟩
            · simp at h
          · split at h
            · split at h
              · rename_i b1 b2 b3 t3
                right; right; right
                simp at h
                exact ⟨b0, b1, b2, b3, t3, rfl, by omega, by omega, h.1.1.1.1.1, h.1.1.1.1.2, h.1.1.1.2, h.2⟩
              · simp at h
            · simp at h

theorem not_cont_of_lt {a : Nat} (h : a < 0x80) : isCont a = false := by
  simp [isCont]; omega
theorem not_cont_of_ge {a : Nat} (h : 0xC0 ≤ a) : isCont a = false := by
  simp [isCont]; omega

theorem valid_head_not_cont {a : Nat} {t : Bytes} (h : valid (a :: t) = true) : isCont a = false := by
  rcases valid_cases h with h0 | ⟨a', t', h0, h1, _⟩ | ⟨a', b, t', h0, h1, h2, _⟩ | ⟨a', b, c, t', h0, h1, h2, _⟩
      | ⟨a', b, c, e, t', h0, h1, h2, _⟩
  · simp at h0
  all_goals
    simp only [List.cons.injEq] at h0
    obtain ⟨rfl, _⟩ := h0
  · exact not_cont_of_lt h1
  all_goals exact not_cont_of_ge (by omega)

theorem isBoundary_zero (s : Bytes) : isBoundary s 0 = true := by simp [isBoundary]

theorem isBoundary_length (s : Bytes) : isBoundary s s.length = true := by simp [isBoundary, startsChar]

theorem isBoundary_le {s : Bytes} {n : Nat} (h : isBoundary s n = true) : n ≤ s.length := by
  unfold isBoundary at h
  simp only [Bool.or_eq_true, beq_iff_eq, Bool.and_eq_true, decide_eq_true_eq] at h
  omega

theorem isBoundary_cons_succ (a : Nat) (t : Bytes) (m : Nat) :
    isBoundary (a :: t) (m + 1) = (decide (m ≤ t.length) && startsChar (t.drop m)) := by
  simp [isBoundary]

theorem isBoundary_tail {a : Nat} {t : Bytes} {m : Nat} (h : isBoundary (a :: t) (m + 1) = true) :
    isBoundary t m = true := by
  rw [isBoundary_cons_succ] at h
  unfold isBoundary
  simp [h]

theorem isBoundary_one_cont {a b : Nat} {t : Bytes} (hb : isCont b = true) :
    isBoundary (a :: b :: t) 1 = false := by
  simp [isBoundary, startsChar, hb]

/-- the part of a valid string after a char boundary is valid -/
theorem valid_drop {s : Bytes} (h : valid s = true) (n : Nat) (hb : isBoundary s n = true) :
    valid (s.drop n) = true := by
  induction n using Nat.strongRecOn generalizing s with
  | _ n ih =>
    match n with
    | 0 => simpa using h
    | m + 1 =>
      rcases valid_cases h with rfl | ⟨a, t, rfl, h1, hv⟩ | ⟨a, b, t, rfl, h1, h2, hc, hv⟩
        | ⟨a, b, c, t, rfl, h1, h2, hb1, hc1, hv⟩ | ⟨a, b, c, e, t, rfl, h1, h2, hb1, hc1, he1, hv⟩
      · simp [valid]
      · simp only [List.drop_succ_cons]
        exact ih m (by omega) hv (isBoundary_tail hb)
      · match m with
        | 0 => simp [isBoundary_one_cont hc] at hb
        | k + 1 =>
          simp only [List.drop_succ_cons]
          exact ih k (by omega) hv (isBoundary_tail (isBoundary_tail hb))
      · match m with
        | 0 => simp [isBoundary_one_cont hb1] at hb
        | 1 => have := isBoundary_tail hb; simp [isBoundary_one_cont hc1] at this
        | k + 2 =>
          simp only [List.drop_succ_cons]
          exact ih k (by omega) hv (isBoundary_tail (isBoundary_tail (isBoundary_tail hb)))
      · match m with
        | 0 => simp [isBoundary_one_cont hb1] at hb
        | 1 => have := isBoundary_tail hb; simp [isBoundary_one_cont hc1] at this
        | 2 => have := isBoundary_tail (isBoundary_tail hb); simp [isBoundary_one_cont he1] at this
        | k + 3 =>
          simp only [List.drop_succ_cons]
          exact ih k (by omega) hv (isBoundary_tail (isBoundary_tail (isBoundary_tail (isBoundary_tail hb))))

theorem startsChar_of_valid {t : Bytes} (h : valid t = true) : startsChar t = true := by
  cases t with
  | nil => rfl
  | cons a t => simp [startsChar, valid_head_not_cont h]

theorem valid_tail3 {a b c : Nat} {t : Bytes} (h : valid (a :: b :: c :: t) = true) (h1 : 0xE0 ≤ a)
    (h2 : a < 0xF0) : valid t = true := by
  rcases valid_cases h with h0 | ⟨a', t', h0, h1', _⟩ | ⟨a', b', t', h0, h1', h2', _⟩
    | ⟨a', b', c', t', h0, h1', h2', _, _, hv⟩ | ⟨a', b', c', e', t', h0, h1', h2', _⟩
  · simp at h0
  all_goals simp only [List.cons.injEq] at h0
  · omega
  · omega
  · obtain ⟨_, _, _, rfl⟩ := h0; exact hv
  · omega

theorem valid_tail4 {a b c e : Nat} {t : Bytes} (h : valid (a :: b :: c :: e :: t) = true) (h1 : 0xF0 ≤ a) :
    valid t = true := by
  rcases valid_cases h with h0 | ⟨a', t', h0, h1', _⟩ | ⟨a', b', t', h0, h1', h2', _⟩
    | ⟨a', b', c', t', h0, h1', h2', _, _, hv⟩ | ⟨a', b', c', e', t', h0, h1', h2', _, _, _, hv⟩
  · simp at h0
  all_goals simp only [List.cons.injEq] at h0
  · omega
  · omega
  · omega
  · obtain ⟨_, _, _, _, rfl⟩ := h0; exact hv

/-- prefix cancellation: after a valid prefix the remainder of a valid string is valid -/
theorem valid_append_cancel {p : Bytes} (hp : valid p = true) (t : Bytes) (h : valid (p ++ t) = true) :
    valid t = true := by
  induction hn : p.length using Nat.strongRecOn generalizing p with
  | _ n ih =>
    rcases valid_cases hp with rfl | ⟨a, p', rfl, h1, hv⟩ | ⟨a, b, p', rfl, h1, h2, hc, hv⟩
      | ⟨a, b, c, p', rfl, h1, h2, hb1, hc1, hv⟩ | ⟨a, b, c, e, p', rfl, h1, h2, hb1, hc1, he1, hv⟩
    · simpa using h
    · simp only [List.cons_append, valid_cons_ascii _ h1] at h
      exact ih p'.length (by simp at hn; omega) hv h rfl
    · simp only [List.cons_append, valid_cons2 _ _ h1 h2, Bool.and_eq_true] at h
      exact ih p'.length (by simp at hn; omega) hv h.2 rfl
    · exact ih p'.length (by simp at hn; omega) hv (valid_tail3 (by simpa using h) h1 h2) rfl
    · exact ih p'.length (by simp at hn; omega) hv (valid_tail4 (by simpa using h) h1) rfl

/-- the position just after a valid prefix of a valid string is a char boundary -/
theorem isBoundary_after_prefix {p : Bytes} (hp : valid p = true) (t : Bytes) (h : valid (p ++ t) = true) :
    isBoundary (p ++ t) p.length = true := by
  have := startsChar_of_valid (valid_append_cancel hp t h)
  simp [isBoundary, this]

/-- a valid two-byte string: two ASCII bytes or one two-byte scalar -/
theorem valid_two {a b : Nat} (h : valid [a, b] = true) :
    (a < 0x80 ∧ b < 0x80) ∨ (0xC2 ≤ a ∧ a < 0xE0 ∧ isCont b = true) := by
  rcases valid_cases h with h0 | ⟨a', t', h0, h1', hv⟩ | ⟨a', b', t', h0, h1', h2', hc, _⟩
    | ⟨a', b', c', t', h0, _⟩ | ⟨a', b', c', e', t', h0, _⟩
  · simp at h0
  · simp only [List.cons.injEq] at h0
    obtain ⟨rfl, rfl⟩ := h0
    left
    refine ⟨h1', ?_⟩
    rcases valid_cases hv with h0 | ⟨a', t', h0, h1', hv⟩ | ⟨a', b', t', h0, _⟩
      | ⟨a', b', c', t', h0, _⟩ | ⟨a', b', c', e', t', h0, _⟩
    · simp at h0
    · simp only [List.cons.injEq] at h0; obtain ⟨rfl, _⟩ := h0; exact h1'
    all_goals simp at h0
  · simp only [List.cons.injEq] at h0
    obtain ⟨rfl, rfl, _⟩ := h0
    right; exact ⟨h1', h2', hc⟩
  all_goals simp at h0

end Tera.Utf8
