/-
Whether `finalize_templates` accepts is a function of the template map and the prefixes only:
it does not depend on the list representing the map nor on the `HashMap` iteration orders.
-/
import TeraModel.Lemmas.AcceptGraph
import TeraModel.Lemmas.RegistryHist
namespace Tera.Reg

theorem SameMap.incEdge {S S' : List Tpl} (h : SameMap S S') (ps : List String) (a b : String) :
    IncEdge ps S a b → IncEdge ps S' a b := by
  rintro ⟨t, n, hg, hn, hr⟩
  exact ⟨t, n, (h a) ▸ hg, hn, (h.resolve ps n) ▸ hr⟩

theorem CycleReachable.mono {E E' : String → String → Prop} (hE : ∀ a b, E a b → E' a b) {a : String}
    (h : CycleReachable E a) : CycleReachable E' a := by
  obtain ⟨c, ⟨cs, w⟩, d, hd, ⟨ds, w'⟩⟩ := h
  exact ⟨c, ⟨cs, w.mono hE⟩, d, hE _ _ hd, ⟨ds, w'.mono hE⟩⟩

theorem SameMap.checkIncludeCycles_ok {S S' : List Tpl} (h : SameMap S S') (ps : List String) (t : Tpl)
    (hT : get S t.name = some t) {v : List String} (hc : checkIncludeCycles ps S t = .ok v) :
    ∃ v', checkIncludeCycles ps S' t = .ok v' := by
  have hT' : get S' t.name = some t := (h t.name) ▸ hT
  apply (checkIncludeCycles_ok_iff ps S' t hT').mpr
  intro hcyc
  exact (checkIncludeCycles_ok_iff ps S t hT).mp ⟨v, hc⟩ (hcyc.mono (h.symm.incEdge ps))

theorem loop1Step_congr_ok {ps : List String} {S S' : List Tpl} (hsame : SameMap S S')
    {acc a : Loop1} {n : String} (h : loop1Step ps S acc n = .ok a) :
    loop1Step ps S' acc n = .ok a := by
  obtain ⟨t, p, comps, sz, hg, hf, hl, hz, ha⟩ := loop1Step_ok' h
  obtain ⟨_, _, v, hg2, _, hc⟩ := loop1Step_dfs_ok h
  rw [hg] at hg2; cases hg2
  have hn := get_name hg
  have hT : get S t.name = some t := hn ▸ hg
  have hf' := hsame.findParents_ok ps t hT hf
  obtain ⟨v', hc'⟩ := hsame.checkIncludeCycles_ok ps t hT hc
  have hg' : get S' n = some t := (hsame n) ▸ hg
  have hz' : sumSrcLen S' p = some sz := by rw [← hsame.sumSrcLen]; exact hz
  unfold loop1Step
  simp only [hg', hf', hc', hl, hz']
  rw [ha]

theorem loop1_congr_ok {ps : List String} {S S' : List Tpl} (hsame : SameMap S S') :
    ∀ (names : List String) (acc l1 : Loop1), loop1 ps S acc names = .ok l1 →
      loop1 ps S' acc names = .ok l1 := by
  intro names
  induction names with
  | nil => intro acc l1 h; simpa [loop1] using h
  | cons n ns ih =>
    intro acc l1 h
    unfold loop1 at h ⊢
    cases hs : loop1Step ps S acc n with
    | error e => simp [hs] at h
    | ok a =>
      simp only [hs] at h
      rw [loop1Step_congr_ok hsame hs]
      exact ih a l1 h

theorem parentsTable_of_loop1 {ps : List String} {S : List Tpl} {l1 : Loop1}
    (h1 : loop1 ps S {} (sortDedup (keys S)) = .ok l1) :
    ParentsTable ps S (lookupParents l1.parents) := by
  obtain ⟨_, lsome⟩ := loop1_parents ps S (sortDedup (keys S)) {} l1 h1
  intro k hk
  have hmem : k ∈ sortDedup (keys S) := (mem_sortDedup k _).mpr (has_mem_keys hk)
  have hs := lsome k hmem
  rw [loop1_lookup h1 k]
  simp only [hmem, if_true]
  obtain ⟨t, ht⟩ := has_iff_get.mp hk
  unfold parentsOf at hs ⊢
  simp only [ht] at hs ⊢
  cases hf : findParents ps S t with
  | ok p => exact ⟨t, p, rfl, by simp, hf⟩
  | missingParent a c => simp [hf] at hs
  | circular ch => simp [hf] at hs
  | outOfFuel => simp [hf] at hs
  | panic => simp [hf] at hs

theorem SameMap.hasRefErrors {S S' : List Tpl} (h : SameMap S S') (ps : List String) (comps : CompSources)
    (t : Tpl) : hasRefErrors ps S comps t = hasRefErrors ps S' comps t := by
  unfold Tera.Reg.hasRefErrors
  congr 2
  funext n
  rw [h.resolve]

theorem SameMap.hasOrphanBlock {S S' : List Tpl} (h : SameMap S S') (parents : List String) (t : Tpl) :
    hasOrphanBlock S parents t = hasOrphanBlock S' parents t := by
  unfold Tera.Reg.hasOrphanBlock
  congr 2
  funext b
  congr 2
  congr 1
  funext p
  rw [h p]

/-- the second loop succeeds without collecting an error when every iteration does -/
theorem loop2_succeeds (ps : List String) (S : List Tpl) (l1 : Loop1) :
    ∀ (o2 : List String),
      (∀ name ∈ o2, ∃ tpl parents m, get S name = some tpl ∧ lookupParents l1.parents name = some parents ∧
        ownBlocks ps S parents tpl tpl.blocks = .ok m ∧
        (hasRefErrors ps S l1.comps tpl || hasOrphanBlock S parents tpl) = false) →
      ∃ tb, loop2 ps S l1 o2 = .ok (tb, false) := by
  intro o2
  induction o2 with
  | nil => intro _; exact ⟨[], rfl⟩
  | cons name rest ih =>
    intro h
    obtain ⟨tpl, parents, m, hg, hp, ho, hb⟩ := h name (by simp)
    obtain ⟨tb, htb⟩ := ih (fun n hn => h n (by simp [hn]))
    refine ⟨(name, m) :: tb, ?_⟩
    unfold loop2
    simp only [hg, hp, ho, htb, hb, Bool.or_false]

theorem inheritFrom_succeeds (name : String) :
    ∀ (ps : List String) (tb : TplBlocks), (tbLookup tb name).isSome = true →
      ∃ tb', inheritFrom tb name ps = .ok tb' ∧ ∀ k, (tbLookup tb' k).isSome = (tbLookup tb k).isSome := by
  intro ps
  induction ps with
  | nil => intro tb _; exact ⟨tb, rfl, fun _ => rfl⟩
  | cons p rest ih =>
    intro tb hn
    unfold inheritFrom
    cases hp : tbLookup tb p with
    | none => simp only; exact ih tb hn
    | some pb =>
      obtain ⟨child, hc⟩ := Option.isSome_iff_exists.mp hn
      simp only [hc]
      have hkeys : ∀ k, (tbLookup (tbSet tb name (orInsertAll child pb)) k).isSome = (tbLookup tb k).isSome := by
        intro k
        rw [tbLookup_tbSet]
        by_cases hk : k = name
        · simp [hk, hc]
        · simp [hk]
      obtain ⟨tb', h1, h2⟩ := ih (tbSet tb name (orInsertAll child pb)) (by rw [hkeys]; exact hn)
      exact ⟨tb', h1, fun k => by rw [h2, hkeys]⟩

theorem pass2_succeeds (parents : List (String × List String)) :
    ∀ (o3 : List String) (tb : TplBlocks),
      (∀ name ∈ o3, (lookupParents parents name).isSome = true ∧ (tbLookup tb name).isSome = true) →
      ∃ tb', pass2 parents tb o3 = .ok tb' := by
  intro o3
  induction o3 with
  | nil => intro tb _; exact ⟨tb, rfl⟩
  | cons name rest ih =>
    intro tb h
    obtain ⟨h1, h2⟩ := h name (by simp)
    obtain ⟨ps, hps⟩ := Option.isSome_iff_exists.mp h1
    obtain ⟨tb1, hi, hk⟩ := inheritFrom_succeeds name ps.reverse tb h2
    obtain ⟨tb', ht⟩ := ih tb1 (fun n hn => by
      obtain ⟨a, b⟩ := h n (by simp [hn])
      exact ⟨a, by rw [hk]; exact b⟩)
    refine ⟨tb', ?_⟩
    unfold pass2
    simp only [hps, hi, ht]

/-- **Acceptance is a function of the map.** -/
theorem derive_accept_congr (ps : List String) (S S' : List Tpl) (hsame : SameMap S S')
    (o2 o3 o2' o3' : List String)
    (ho2 : ∀ k, has S k = true → k ∈ o2)
    (ho2' : ∀ k, k ∈ o2' → has S' k = true) (ho3' : ∀ k, k ∈ o3' → has S' k = true)
    (ho2'' : ∀ k, has S' k = true → k ∈ o2')
    (d : Derived) (h : derive ps S o2 o3 = .ok d) :
    ∃ d', derive ps S' o2' o3' = .ok d' := by
  obtain ⟨l1, tb, tb1, h1, h2, _, _⟩ := derive_parts h
  have h1' : loop1 ps S' {} (sortDedup (keys S')) = .ok l1 := by
    rw [sortDedup_congr (keys S') (keys S) (fun x => (hsame.mem_keys x).symm)]
    exact loop1_congr_ok hsame _ _ _ h1
  have hPO' := parentsTable_of_loop1 h1'
  -- second loop
  have hstep : ∀ name ∈ o2', ∃ tpl parents m, get S' name = some tpl ∧
      lookupParents l1.parents name = some parents ∧ ownBlocks ps S' parents tpl tpl.blocks = .ok m ∧
      (hasRefErrors ps S' l1.comps tpl || hasOrphanBlock S' parents tpl) = false := by
    intro name hn
    have hk' := ho2' name hn
    have hk : has S name = true := by rw [hsame.has]; exact hk'
    obtain ⟨p, hp, hgood⟩ := goodChain_of_table hPO' hk'
    obtain ⟨tpl, htpl⟩ := has_iff_get.mp hk'
    have hreg : ∀ c ∈ p, has S' c = true := fun c hc =>
      GoodChain.all_has _ hgood c (by simp [chainOf, hc])
    obtain ⟨m, hm, _⟩ := ownBlocks_ok ps S' p tpl hreg tpl.blocks
    refine ⟨tpl, p, m, htpl, hp, hm, ?_⟩
    cases hb : (hasRefErrors ps S' l1.comps tpl || hasOrphanBlock S' p tpl) with
    | false => rfl
    | true =>
      exfalso
      rw [← hsame.hasRefErrors, ← hsame.hasOrphanBlock] at hb
      have := loop2_bad ps S l1 o2 tb false h2 name (ho2 name hk) tpl p ((hsame name) ▸ htpl) hp hb
      cases this
  obtain ⟨tb', htb'⟩ := loop2_succeeds ps S' l1 o2' hstep
  obtain ⟨l2a, _⟩ := loop2_ok ps S' l1 o2' tb' false htb'
  have hp2 : ∀ name ∈ o3', (lookupParents l1.parents name).isSome = true ∧ (tbLookup tb' name).isSome = true := by
    intro name hn
    have hk' := ho3' name hn
    obtain ⟨p, hp, _⟩ := goodChain_of_table hPO' hk'
    obtain ⟨_, _, m, _, _, _, hm⟩ := l2a name (ho2'' name hk')
    exact ⟨by simp [hp], by simp [hm]⟩
  obtain ⟨tb2, htb2⟩ := pass2_succeeds l1.parents o3' tb' hp2
  refine ⟨{ parents := l1.parents, sizes := l1.sizes, lineage := tb2,
            comps := l1.comps.map (fun e => (e.1, e.2.1)) }, ?_⟩
  unfold derive
  simp only [h1', htb', htb2]
  rfl

end Tera.Reg
