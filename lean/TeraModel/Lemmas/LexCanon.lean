/-
The tokenizer with its canonical fuel (`lex`): fuel irrelevance and one-step unfolding.
-/
import TeraModel.Lemmas.ExprLocal
namespace Tera.Lexer
open Tera Utf8 Generated

/-- one pass shortens the unread input (valid UTF-8, accepted delimiters) -/
theorem step_shortens {d : Delims} (hd : d.accepted = true) {p : Pos} {stack : List State}
    (hst : StackOk stack) (hv : valid p.rest = true) (hne : p.rest ≠ []) :
    (∀ tok sp p' st', step d p stack = .emit tok sp p' st' →
        p'.rest.length < p.rest.length ∧ valid p'.rest = true ∧ StackOk st') ∧
    (∀ p', step d p stack = .skip p' → p'.rest.length < p.rest.length ∧ valid p'.rest = true) := by
  have hs := step_adv d p stack
  constructor
  · intro tok sp p' st' heq
    rw [heq] at hs
    obtain ⟨n, hadv, _, _, hn⟩ := hs
    have hpos : 0 < n := by
      rcases hn with hn | hn
      · exact hn
      · exfalso
        subst hn
        have hk := step_kind d p stack hst.ne_nil
        rw [heq] at hk
        simp only [StepKind, templateLevel] at hk
        rcases hst with rfl | rfl | rfl
        · simp only [step] at heq
          exact stepTemplate_no_empty_content hv (accepted_facts hd).1 hne _ heq
        · simp [inTemplate] at hk
        · simp [inTemplate] at hk
    have := hadv.le
    refine ⟨by rw [hadv.2.1]; simp; omega, hadv.valid hv, step_stack d p stack hst heq⟩
  · intro p' heq
    rw [heq] at hs
    obtain ⟨n, hadv, hn, _⟩ := hs
    have := hadv.le
    exact ⟨by rw [hadv.2.1]; simp; omega, hadv.valid hv⟩

/-- the result of the loop does not depend on the fuel once it exceeds the input length -/
theorem lexLoop_fuel_irrel {d : Delims} (hd : d.accepted = true) : ∀ (f1 f2 : Nat) (p : Pos) (st : List State),
    StackOk st → valid p.rest = true → p.rest.length < f1 → p.rest.length < f2 →
    lexLoop d f1 p st = lexLoop d f2 p st := by
  intro f1
  induction f1 with
  | zero => intro f2 p st _ _ h; omega
  | succ f ih =>
    intro f2 p st hst hv h1 h2
    cases f2 with
    | zero => omega
    | succ g =>
      unfold lexLoop
      split
      · rfl
      · rename_i hne
        have hsh := step_shortens hd hst hv hne
        split
        · rename_i tok span p' st' heq
          obtain ⟨hl, hv', hst'⟩ := hsh.1 _ _ _ _ heq
          rw [ih g p' st' hst' hv' (by omega) (by omega)]
        · rename_i p' heq
          obtain ⟨hl, hv'⟩ := hsh.2 _ heq
          rw [ih g p' st hst hv' (by omega) (by omega)]
        · rfl
        · rfl
        · rfl

/-- the tokenizer started at `p` with the canonical fuel -/
def lex (d : Delims) (p : Pos) (st : List State) : LexResult := lexLoop d (p.rest.length + 1) p st

theorem lex_nil (d : Delims) {p : Pos} (st : List State) (h : p.rest = []) : lex d p st = ⟨[], .eof⟩ := by
  simp [lex, lexLoop, h]

theorem lex_emit {d : Delims} (hd : d.accepted = true) {p : Pos} {st : List State} (hst : StackOk st)
    (hv : valid p.rest = true) (hne : p.rest ≠ []) {tok : Token} {sp : Span} {p' : Pos} {st' : List State}
    (h : step d p st = .emit tok sp p' st') :
    lex d p st = ⟨(tok, sp) :: (lex d p' st').tokens, (lex d p' st').ending⟩ := by
  obtain ⟨hl, hv', hst'⟩ := (step_shortens hd hst hv hne).1 _ _ _ _ h
  unfold lex
  rw [lexLoop]
  simp only [hne, if_false, h]
  rw [lexLoop_fuel_irrel hd p.rest.length (p'.rest.length + 1) p' st' hst' hv' hl (by omega)]

theorem basicTokenize_eq_lex (d : Delims) (src : Bytes) : basicTokenize d src = lex d (startPos src) [.template] := rfl

end Tera.Lexer
