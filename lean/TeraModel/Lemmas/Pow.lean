/-
Helper lemmas for C13 `**`: when an integer power fits in i128.
-/
import TeraModel.Model.Number
import Mathlib.Tactic.Linarith
import Mathlib.Tactic.Ring
namespace Tera

theorem neg_one_pow_parity (e : Nat) : (-1 : Int) ^ e = if e % 2 = 0 then 1 else -1 := by
  induction e with
  | zero => simp
  | succ n ih =>
    rw [pow_succ, ih]
    by_cases h : n % 2 = 0
    · have : (n + 1) % 2 ≠ 0 := by omega
      simp [h, this]
    · have : (n + 1) % 2 = 0 := by omega
      simp [h, this]

theorem zero_pow_nat (e : Nat) : (0 : Int) ^ e = if e = 0 then 1 else 0 := by
  cases e <;> simp

/-- |a| ≥ 2 and e ≥ 128: the power is outside i128. -/
theorem pow_big_not_inI128 (a : Int) (e : Nat) (ha : 2 ≤ a.natAbs) (he : 128 ≤ e) :
    ¬ inI128 (a ^ e) := by
  intro h
  have h1 : (a ^ e).natAbs = a.natAbs ^ e := Int.natAbs_pow a e
  have h2 : 2 ^ 128 ≤ a.natAbs ^ e :=
    calc 2 ^ 128 ≤ 2 ^ e := Nat.pow_le_pow_right (by decide) he
      _ ≤ a.natAbs ^ e := Nat.pow_le_pow_left ha e
  have h3 : (a ^ e).natAbs ≤ 2 ^ 127 := by
    obtain ⟨l, u⟩ := h
    simp only [I128_MIN, I128_MAX] at l u
    omega
  rw [h1] at h3
  have : (2:Nat) ^ 127 < 2 ^ 128 := by decide
  omega

/-- `checked_pow` as modelled (with early exits) is "the exact power when it fits". -/
theorem checkedPow_eq_spec (a : Int) (e : Nat) : checkedPow a e = checkedI128 (a ^ e) := by
  unfold checkedPow
  by_cases h2 : 2 ≤ a.natAbs
  · simp only [h2, if_true]
    by_cases he : 128 ≤ e
    · simp [he, checkedI128, pow_big_not_inI128 a e h2 he]
    · simp [he]
  · simp only [h2, if_false]
    have ha : a = -1 ∨ a = 0 ∨ a = 1 := by omega
    have in1 : inI128 1 := by simp only [inI128, I128_MIN, I128_MAX]; omega
    have in0 : inI128 0 := by simp only [inI128, I128_MIN, I128_MAX]; omega
    have inm : inI128 (-1) := by simp only [inI128, I128_MIN, I128_MAX]; omega
    rcases ha with rfl | rfl | rfl
    · rw [neg_one_pow_parity]
      by_cases c0 : e = 0
      · subst c0; simp [checkedI128, in1]
      · by_cases cp : e % 2 = 0 <;> simp [c0, cp, checkedI128, in1, inm]
    · rw [zero_pow_nat]
      by_cases c0 : e = 0 <;> simp [c0, checkedI128, in1, in0]
    · by_cases c0 : e = 0 <;> simp [c0, checkedI128, in1]

/-- For bases -1, 0, 1 and exponents ≥ 2 only the parity of the exponent matters. -/
theorem small_base_pow (a : Int) (ha : -1 ≤ a ∧ a ≤ 1) (e : Nat) (he : 2 ≤ e) :
    a ^ (2 + e % 2) = a ^ e := by
  have h : a = -1 ∨ a = 0 ∨ a = 1 := by omega
  rcases h with rfl | rfl | rfl
  · rw [neg_one_pow_parity, neg_one_pow_parity]
    have : (2 + e % 2) % 2 = e % 2 := by omega
    rw [this]
  · rw [zero_pow_nat, zero_pow_nat]
    have : 2 + e % 2 ≠ 0 := by omega
    have : e ≠ 0 := by omega
    simp [*]
  · simp

end Tera
