/-
`Lemmas/VmSim.lean` re-plumbed for certificates that are GIVEN rather than inferred
(Model/VmCheckT.lean): `EnvOKT` / `GoodT` ask, of every stored chunk, that SOME table passes
`checkChunkT`.  The one-step simulation lemmas of VmSim.lean for the arms that do not call
`interpret` again are used as they are; the arms that do (`Include`, `RenderBlock`, `super()`,
components), the assembled step lemma, the run-level induction and the induction on the nesting
fuel are the same proofs with `ChunkOKT` in the place of `checkChunk … = true` (copied: the
originals stay untouched).  `EnvOK → EnvOKT`, `Good → GoodT`.
-/
import TeraModel.Lemmas.VmSim
import TeraModel.Model.VmCheckT
namespace Tera.Vm
open Tera

/-- every chunk the VM can reach from a template passed the checker -/
def TplOKT (env : Env) (tpl : TemplateInfo) : Prop :=
  ChunkOKT env tpl.chunk ∧
  ∀ b lin, assoc b tpl.blockLineage = some lin → ∀ ch ∈ lin, ChunkOKT env ch

/-- The environment passed the checker: every main chunk, every chunk of every block lineage and
every component chunk of the instance-wide table; and the registered built-ins do not panic. -/
def EnvOKT (env : Env) : Prop :=
  (∀ n tpl, env.template n = some tpl → TplOKT env tpl) ∧
  (∀ n d ch, assoc n env.components = some (d, ch) → ChunkOKT env ch) ∧
  BuiltinsTotal env

/-- the lineages on the block stack passed the checker -/
def BlocksCheckedT (env : Env) (st : State) : Prop :=
  ∀ e ∈ blocksSig st, ∀ ch ∈ e.2, ChunkOKT env ch

/-- what `interpret` is entitled to assume of its arguments -/
structure GoodT (env : Env) (vm : VmCtx) (c : Chunk) (st : State) : Prop where
  chunk : ChunkOKT env c
  tpl : TplOKT env vm.template
  blocksOk : BlocksOK st
  blocksChecked : BlocksCheckedT env st


section simT
variable {env : Env} {vm : VmCtx} {c : Chunk} {base st : State} {a : ASt} {pc : Nat}
  {succs : List (Nat × ASt)} {own : Bool} {nspans : Nat} {rec : VmCtx → Chunk → State → RunRes}


theorem simT_include (name : String) (hrel : Rel c base a st) (hE : EnvOKT env)
    (hrec : ∀ vm' c' st', GoodT env vm' c' st' → RecSpec (rec vm' c' st') st')
    (ha : astep (.include_ name) own nspans pc a = some succs) :
    SimOK c base succs (stepInclude rec env vm name pc st) := by
  simp only [astep, Option.some.injEq] at ha; subst ha
  unfold stepInclude
  split
  · trivial
  · rename_i tpl htpl
    have hT := hE.1 name tpl htpl
    have hg : GoodT env { vm with template := tpl } tpl.chunk (includeState st) :=
      ⟨hT.1, hT, by intro cur h; simp [includeState, State.fresh] at h,
       by intro e he; simp [includeState, State.fresh, blocksSig] at he⟩
    obtain ⟨hnp, _⟩ := hrec _ _ _ hg
    split
    · exact ⟨_, by simp, (show Rel c base { a with stack := a.stack } st from hrel).write _⟩
    · trivial
    · rename_i heq; rw [heq] at hnp; simp [RunRes.isPanic] at hnp
    · trivial
    · trivial

theorem simT_renderBlock (name : String) (hrel : Rel c base a st) (hT : TplOKT env vm.template)
    (hbc : BlocksCheckedT env st)
    (hrec : ∀ vm' c' st', GoodT env vm' c' st' → RecSpec (rec vm' c' st') st')
    (ha : astep (.renderBlock name) own nspans pc a = some succs) :
    SimOK c base succs (stepRenderBlock rec vm name pc st) := by
  simp only [astep, Option.some.injEq] at ha; subst ha
  unfold stepRenderBlock
  split
  · trivial
  · trivial
  · rename_i first more hl
    have hsig : blocksSig (enterBlock st name (first :: more)) = (name, first :: more) :: blocksSig st := by
      unfold enterBlock blocksSig; split <;> rfl
    have hcur : (enterBlock st name (first :: more)).currentBlockName = some name := by
      unfold enterBlock; split <;> rfl
    have hg : GoodT env vm first (enterBlock st name (first :: more)) := by
      refine ⟨hT.2 name _ hl first (by simp), hT, ?_, ?_⟩
      · rw [blocksOK_iff]; intro cur h
        rw [hcur] at h; cases h
        exact ⟨_, by rw [hsig]; exact List.mem_cons_self, rfl⟩
      · intro e he ch hch
        rw [hsig] at he
        rcases List.mem_cons.mp he with rfl | he
        · exact hT.2 name _ hl ch hch
        · exact hbc e he ch hch
    obtain ⟨hnp, hfr⟩ := hrec _ _ _ hg
    split
    · rename_i st2 heq
      have hf := hfr st2 heq
      refine ⟨_, by simp, (show Rel c base { a with stack := a.stack } st from hrel).congr' ?_ ?_ ?_ ?_ ?_⟩
      · have := hf.stack
        unfold leaveBlock enterBlock at *; split <;> simp_all
      · have := hf.loops
        unfold leaveBlock enterBlock at *; split <;> simp_all
      · have := hf.caps
        unfold leaveBlock enterBlock at *; split <;> simp_all
      · unfold leaveBlock; split <;> rfl
      · have h1 : blocksSig st2 = (name, first :: more) :: blocksSig st := hf.blocks.trans hsig
        have h2 : blocksSig (leaveBlock st st2 name) = (blocksSig st2).tail := by
          unfold leaveBlock blocksSig; split <;> simp [List.map_tail]
        rw [h2, h1]; rfl
    · trivial
    · rename_i heq; rw [heq] at hnp; simp [RunRes.isPanic] at hnp
    · trivial
    · trivial

theorem simT_super (hrel : Rel c base a st) (ht : reportTargetOk env vm c = true)
    (hown : c.hasSpan pc = true) (hT : TplOKT env vm.template)
    (hbo : BlocksOK st) (hbc : BlocksCheckedT env st)
    (hrec : ∀ vm' c' st', GoodT env vm' c' st' → RecSpec (rec vm' c' st') st')
    {t : Tag} (htag : ∀ v : Value, tagOk c t (v, (pc, pc))) :
    SimOK c base [(pc + 1, { a with stack := t :: a.stack })] (stepSuper rec env vm c pc st) := by
  unfold stepSuper
  split
  · exact simOK_renderingError ht (expandSpan_self hown) _
  · rename_i cur hcur
    obtain ⟨pos, hpos, hlt⟩ := blockPos_some (hbo cur hcur)
    rw [hpos]
    simp only
    have hidx : st.blocks.length - 1 - pos < st.blocks.length := by omega
    split
    · rename_i hnone
      rw [List.getElem?_eq_getElem hidx] at hnone; cases hnone
    · rename_i nm lineage level hget
      split
      · exact simOK_renderingError ht (expandSpan_self hown) _
      · rename_i blockChunk hch
        obtain ⟨b1, hb1, hlen1⟩ := setLevel_isSome (level + 1) hlt
        rw [hb1]
        simp only
        have hsig1 : blocksSig (enterSuper st b1) = blocksSig st := by
          simp only [blocksSig, enterSuper]; exact setLevel_sig hb1
        have hmem : (nm, lineage) ∈ blocksSig st := by
          have := List.mem_of_getElem? hget
          exact List.mem_map.mpr ⟨_, this, rfl⟩
        have hg : GoodT env vm blockChunk (enterSuper st b1) := by
          refine ⟨hbc _ hmem blockChunk (List.mem_of_getElem? hch), hT, ?_, ?_⟩
          · exact blocksOK_congr hsig1 rfl hbo
          · intro e he; rw [hsig1] at he; exact hbc e he
        obtain ⟨hnp, hfr⟩ := hrec _ _ _ hg
        split
        · rename_i st2 heq
          have hf := hfr st2 heq
          have hlen2 : st2.blocks.length = st.blocks.length := by
            have := congrArg List.length (hf.blocks.trans hsig1)
            simpa [blocksSig] using this
          obtain ⟨b3, hb3, _⟩ := setLevel_isSome (blocks := st2.blocks) (pos := pos) level (by omega)
          rw [hb3]
          simp only
          refine ⟨{ a with stack := t :: a.stack }, by simp, ⟨?_, ?_, ?_, ?_, ?_⟩⟩
          · simp only [leaveSuper]
            have : st2.stack = st.stack := hf.stack
            rw [this]
            exact relList_push hrel.stack (htag _)
          · simp only [leaveSuper]
            have : ends st2.scope.forLoops = ends st.scope.forLoops := hf.loops
            rw [this]; exact hrel.loops
          · simp only [leaveSuper]; exact hrel.caps
          · simp only [leaveSuper]
            have : st2.currentBlockName = st.currentBlockName := hf.cur
            rw [this]; exact hrel.cur
          · have h3 : blocksSig (leaveSuper st st2 b3 pc) = blocksSig st2 := by
              simp only [blocksSig, leaveSuper]; exact setLevel_sig hb3
            rw [h3, hf.blocks, hsig1]; exact hrel.blocks
        · trivial
        · rename_i heq; rw [heq] at hnp; simp [RunRes.isPanic] at hnp
        · trivial
        · trivial

theorem simT_callFunction (name : String) (hrel : Rel c base a st)
    (ht : reportTargetOk env vm c = true) (hown : own = true → c.hasSpan pc = true)
    (hreg : name = "super" ∨ env.hasFunction name = true) (hb : BuiltinsTotal env)
    (hT : TplOKT env vm.template) (hbo : BlocksOK st) (hbc : BlocksCheckedT env st)
    (hrec : ∀ vm' c' st', GoodT env vm' c' st' → RecSpec (rec vm' c' st') st')
    (ha : astep (.callFunction name) own nspans pc a = some succs) :
    SimOK c base succs (stepCallFunction rec env vm c name pc st) := by
  simp only [astep] at ha
  split at ha
  · rename_i tkw rest hstk
    split at ha
    · rename_i hcond
      simp only [Option.some.injEq] at ha; subst ha
      simp only [Bool.and_eq_true, Bool.or_eq_true, beq_iff_eq] at hcond
      obtain ⟨ho, hcond⟩ := hcond
      obtain ⟨⟨kw, rk⟩, stk, hs, hok, hr⟩ := relList_cons.mp (hstk ▸ hrel.stack)
      unfold stepCallFunction; rw [hs]; simp only
      split
      · have hrel0 : Rel c base { a with stack := rest } { st with stack := stk } :=
          ⟨hr, hrel.loops, hrel.caps, hrel.cur, hrel.blocks⟩
        exact simT_super (a := { a with stack := rest }) hrel0 ht (hown ho) hT hbo hbc hrec
          (fun v => tagOk_fresh hown)
      · rename_i hns
        have hf : env.hasFunction name = true := by
          rcases hreg with h | h
          · exact absurd h hns
          · exact h
        have hm : tkw.map = true := by
          rcases hcond with h | h
          · exact absurd h hns
          · exact h
        obtain ⟨es, hes⟩ := isMap_of_tag hok hm
        simp only at hes; subst hes
        simp only [hf, Bool.not_true, Bool.false_eq_true, ↓reduceIte]
        have hfn := hb.2.2 name (kwargsOf es)
        split
        · exact simOK_next1 hrel (relList_push hr (tagOk_fresh hown))
        · exact simOK_renderingError ht (expandSpan_self (hown ho)) _
        · exact simOK_renderingError ht (expandSpan_self (hown ho)) _
        · rename_i heq; rw [heq] at hfn; simp [CallRes.isPanic] at hfn
        · trivial
    · cases ha
  · cases ha

theorem simT_component (name : String) (hasBody : Bool) (hrel : Rel c base a st)
    (ht : reportTargetOk env vm c = true) (hown : own = true → c.hasSpan pc = true)
    (hreg : (assoc name env.components).isSome = true) (hE : EnvOKT env) (hT : TplOKT env vm.template)
    (hrec : ∀ vm' c' st', GoodT env vm' c' st' → RecSpec (rec vm' c' st') st')
    (ha : astep (.renderComponent name hasBody) own nspans pc a = some succs) :
    SimOK c base succs (stepComponent rec env vm c name hasBody pc st) := by
  simp only [astep] at ha
  split at ha
  · rename_i tkw rest hstk
    split at ha
    · rename_i hcond
      simp only [Bool.and_eq_true] at hcond
      obtain ⟨ho, hm⟩ := hcond
      obtain ⟨⟨kw, rk⟩, stk, hs, hok, hr⟩ := relList_cons.mp (hstk ▸ hrel.stack)
      obtain ⟨es, hes⟩ := isMap_of_tag hok hm
      simp only at hes; subst hes
      obtain ⟨⟨cdef, cchunk⟩, hd⟩ := Option.isSome_iff_exists.mp hreg
      have hfind : findComponent env vm name = some (cdef, cchunk) := by simp [findComponent, hd]
      -- the rest of the stack after the optional body, on both sides
      have hbody : ∃ restT, succs = [(pc + 1, { a with stack := Tag.fresh own :: restT })] ∧
          ∃ body stk', popBody hasBody stk = some (body, stk') ∧ RelList (tagOk c) base.stack restT stk' := by
        cases hasBody
        · simp only [Bool.false_eq_true, ↓reduceIte, Option.some.injEq] at ha
          exact ⟨rest, ha.symm, none, stk, rfl, hr⟩
        · simp only [↓reduceIte] at ha
          cases rest with
          | nil => simp at ha
          | cons tb rest' =>
            simp only [Option.some.injEq] at ha
            obtain ⟨⟨b, rb⟩, stk', rfl, _, hr'⟩ := relList_cons.mp hr
            exact ⟨rest', ha.symm, some b.markSafe, stk', rfl, hr'⟩
      obtain ⟨restT, rfl, body, stk', hpb, hr'⟩ := hbody
      unfold stepComponent; rw [hs]; simp only [hfind, hpb]
      split
      · exact simOK_renderingError ht (expandSpan_self (hown ho)) _
      · rename_i bound _
        split
        · trivial
        · have hg : GoodT env { vm with depth := vm.depth + 1 } cchunk (componentState bound) :=
            ⟨hE.2.1 name cdef cchunk hd, hT, by intro cur h; simp [componentState, State.fresh] at h,
             by intro e he; simp [componentState, State.fresh, blocksSig] at he⟩
          obtain ⟨hnp, _⟩ := hrec _ _ _ hg
          split
          · exact simOK_next1 hrel (relList_push hr' (tagOk_fresh hown))
          · trivial
          · rename_i heq; rw [heq] at hnp; simp [RunRes.isPanic] at hnp
          · trivial
          · trivial
    · cases ha
  · cases ha

/-- One turn of the interpreter loop from a state the abstract state `a` describes: no panic, and
the new state is described by one of the abstract successors. -/
theorem simT {e : VEntry} (hrel : Rel c base a st) (hcode : c.code[pc]? = some e)
    (ht : reportTargetOk env vm c = true) (hnames : namesOk env e.1 = true) (hE : EnvOKT env)
    (hT : TplOKT env vm.template) (hbo : BlocksOK st) (hbc : BlocksCheckedT env st)
    (hrec : ∀ vm' c' st', GoodT env vm' c' st' → RecSpec (rec vm' c' st') st')
    (ha : astep e.1 (!e.2.isEmpty) e.2.length pc a = some succs) :
    SimOK c base succs (step rec env vm c e pc st) := by
  have hown : (!e.2.isEmpty) = true → c.hasSpan pc = true := fun h => by rw [hasSpan_of_code hcode]; exact h
  have hsp : ∀ k, k < e.2.length → c.hasSpanAt pc k = true := fun k hk => by
    rw [hasSpanAt_of_code hcode]; simpa using hk
  obtain ⟨i, spans⟩ := e
  simp only at ha hnames hown hsp
  unfold step
  cases i <;> simp only [namesOk] at hnames <;> simp only
  case loadConst v => exact sim_loadConst v hrel hown ha
  case loadName n => exact sim_loadName n hrel hown ha
  case loadAttr attr opt => exact sim_loadAttr attr opt hrel ht hown ha
  case binarySubscript opt => exact sim_subscript opt hrel ht hown ha
  case slice opt => exact sim_slice opt hrel ht hown ha
  case writeText t => exact sim_writeText t hrel ha
  case writeTop => exact sim_writeTop hrel ht ha
  case set n g => exact sim_set n g hrel ha
  case include_ n => exact simT_include n hrel hE hrec ha
  case buildMap n => exact sim_buildMap n hrel hown ha
  case buildList n => exact sim_buildList n hrel hown ha
  case buildMapWithSpreads flags => exact sim_buildMapWithSpreads flags hrel ht hown ha
  case buildListWithSpreads flags => exact sim_buildListWithSpreads flags hrel ht hown ha
  case callFunction n =>
    exact simT_callFunction n hrel ht hown (by simpa using hnames) hE.2.2 hT hbo hbc hrec ha
  case renderComponent n hasBody => exact simT_component n hasBody hrel ht hown hnames hE hT hrec ha
  case applyFilter n => exact sim_applyFilter n hrel ht hown hnames hE.2.2 ha
  case runTest n => exact sim_runTest n hrel ht hown hnames hE.2.2 ha
  case renderBlock n => exact simT_renderBlock n hrel hT hbc hrec ha
  case jump t =>
    simp only [astep, Option.some.injEq] at ha; subst ha
    exact ⟨a, by simp, hrel⟩
  case popJumpIfFalse t => exact sim_popJumpIfFalse t hrel ha
  case jumpIfFalseOrPop t => exact sim_jumpOrPop t false hrel (by simpa [astep] using ha)
  case jumpIfTrueOrPop t => exact sim_jumpOrPop t true hrel (by simpa [astep] using ha)
  case capture => exact sim_capture hrel ha
  case endCapture => exact sim_endCapture hrel hown ha
  case startIterate kv compr => exact sim_startIterate kv compr hrel ht ha
  case iterate t => exact sim_iterate t hrel ha
  case storeLocal n => exact sim_storeLocal n hrel ha
  case storeDidNotIterate => exact sim_storeDidNotIterate hrel hown ha
  case break_ => exact sim_break hrel ha
  case popLoop => exact sim_popLoop hrel ha
  case appendToList => exact sim_appendToList hrel ha
  case math op => exact sim_math op hrel ht ha
  case plus => exact sim_plus hrel ht ha
  case cmp op => exact sim_cmp op hrel ht ha
  case equal neg => exact sim_equal neg hrel ha
  case strConcat => exact sim_strConcat hrel ha
  case in_ => exact sim_in hrel ht hown ha
  case not_ => exact sim_not hrel ha
  case negative => exact sim_negative hrel ht ha
  case loadPath p => exact sim_loadPath p hrel ht hown hsp ha
  case writePath p => exact sim_writePath p hrel ht hsp ha

end simT

section runsT
variable {env : Env} {vm : VmCtx} {c : Chunk} {base : State} {table : List (Option ASt)}
  {rec : VmCtx → Chunk → State → RunRes}

theorem runLoop_soundT (hver : verify c.code table = true)
    (hnames : c.code.all (fun e => namesOk env e.1) = true)
    (ht : reportTargetOk env vm c = true) (hE : EnvOKT env) (hT : TplOKT env vm.template)
    (hbo : BlocksOK base) (hbc : BlocksCheckedT env base)
    (hrec : ∀ vm' c' st', GoodT env vm' c' st' → RecSpec (rec vm' c' st') st') :
    ∀ (fuel pc : Nat) (st : State), Cov c base table pc st →
      RecSpec (runLoop rec env vm c fuel pc st) base := by
  intro fuel
  induction fuel with
  | zero =>
    intro pc st hcov
    unfold runLoop
    cases hpc : c.code[pc]? with
    | none => exact ⟨rfl, fun st2 h => by cases h; exact cov_end hcov hpc⟩
    | some e => exact ⟨rfl, fun st2 h => by cases h⟩
  | succ fuel ih =>
    intro pc st hcov
    unfold runLoop
    cases hpc : c.code[pc]? with
    | none => exact ⟨rfl, fun st2 h => by cases h; exact cov_end hcov hpc⟩
    | some e =>
      simp only
      obtain ⟨a, hc, hrel⟩ := hcov
      have hlt : pc < c.code.length := (List.getElem?_eq_some_iff.mp hpc).1
      simp only [covered, hlt, ↓reduceIte] at hc
      cases htab : table[pc]? with
      | none => rw [htab] at hc; cases hc
      | some entry =>
        cases entry with
        | none => rw [htab] at hc; cases hc
        | some b =>
          rw [htab] at hc
          simp only at hc
          have hrelb : Rel c base b st := hrel.mono hc
          simp only [verify, Bool.and_eq_true, List.all_eq_true, List.mem_range] at hver
          have hv := hver.2 pc hlt
          simp only [verifyAt, htab, hpc] at hv
          cases hstep : astep e.1 (!e.2.isEmpty) e.2.length pc b with
          | none => rw [hstep] at hv; cases hv
          | some succs =>
            rw [hstep] at hv
            simp only [List.all_eq_true] at hv
            have hn : namesOk env e.1 = true := by
              simp only [List.all_eq_true] at hnames
              exact hnames e (List.mem_of_getElem? hpc)
            have hbo' : BlocksOK st := blocksOK_congr hrelb.blocks hrelb.cur hbo
            have hbc' : BlocksCheckedT env st := by
              intro x hx; rw [hrelb.blocks] at hx; exact hbc x hx
            have hsim := simT hrelb hpc ht hn hE hT hbo' hbc' hrec hstep
            cases hres : step rec env vm c e pc st with
            | next pc' st' =>
              rw [hres] at hsim
              obtain ⟨a', hmem, hrel'⟩ := hsim
              exact ih pc' st' ⟨a', hv _ hmem, hrel'⟩
            | err e' => exact ⟨rfl, fun st2 h => by cases h⟩
            | panic s => rw [hres] at hsim; exact hsim.elim
            | unmodelled w => exact ⟨rfl, fun st2 h => by cases h⟩
            | outOfFuel => exact ⟨rfl, fun st2 h => by cases h⟩

/-- Every stored chunk has SOME verifying table: every nested `interpret`, whatever the nesting
fuel, does not panic and leaves the caller's stacks as it found them. -/
theorem interp_soundT (hE : EnvOKT env) (steps : Nat) :
    ∀ (depth : Nat) (vm : VmCtx) (c : Chunk) (st : State), GoodT env vm c st →
      RecSpec (interp env steps depth vm c st) st := by
  intro depth
  induction depth with
  | zero => intro vm c st _; exact ⟨rfl, fun st2 h => by cases h⟩
  | succ d ih =>
    intro vm c st hg
    unfold interp
    obtain ⟨table, hck⟩ := hg.chunk
    simp only [checkChunkT, Bool.and_eq_true] at hck
    obtain ⟨⟨htpl, hnames⟩, hver⟩ := hck
    have ht : reportTargetOk env vm c = true := by simp [reportTargetOk, htpl]
    have hcov : Cov c st table 0 st := by
      have h0 := hver
      simp only [verify, Bool.and_eq_true] at h0
      exact ⟨ASt.empty, h0.1, rel_empty_self st⟩
    exact runLoop_soundT hver hnames ht hE hg.tpl hg.blocksOk hg.blocksChecked ih steps 0 st hcov

end runsT

/-! ### the inferred table is one table -/

theorem TplOK.toT {env : Env} {tpl : TemplateInfo} (h : TplOK env tpl) : TplOKT env tpl :=
  ⟨checkChunkT_of_checkChunk h.1, fun b lin hl ch hch => checkChunkT_of_checkChunk (h.2 b lin hl ch hch)⟩

theorem EnvOK.toT {env : Env} (h : EnvOK env) : EnvOKT env :=
  ⟨fun n tpl ht => (h.1 n tpl ht).toT, fun n d ch hc => checkChunkT_of_checkChunk (h.2.1 n d ch hc), h.2.2⟩

theorem Good.toT {env : Env} {vm : VmCtx} {c : Chunk} {st : State} (h : Good env vm c st) :
    GoodT env vm c st :=
  ⟨checkChunkT_of_checkChunk h.chunk, h.tpl.toT, h.blocksOk,
   fun e he ch hch => checkChunkT_of_checkChunk (h.blocksChecked e he ch hch)⟩

end Tera.Vm
