/-
Bridge registry ↔ stored chunks (part of P4 of Props/Pipeline.lean): the adapter
`Pipeline.buildEnv` — block lineages and the component table of the registry model name
TEMPLATES; the VM wants the CHUNKS — finds every chunk it looks up: the `internal` outcome of
`addTemplates` is unreachable.

* every owner in a derived lineage of block `b` is a registered template that defines `b`
  (`LinOK`, an invariant of `loop2` / `pass2` of Model/Finalize.lean);
* every entry of the component table names a registered template that defines the component
  (`CompsMem`, an invariant of the first loop);
* a registered summary is the summary of the LAST template of that name in the batch
  (`insertBatch` vs `lookupLast`), and that template's stored block / component tables have the
  names its summary lists (`TDOK`, from `newTemplate`).
-/
import TeraModel.Props.C10
import TeraModel.Lemmas.PipelineTotal
namespace Tera.Reg

/-! ### lineage owners define the block -/

/-- registered template that defines block `b` -/
def Defines (S : List Tpl) (o b : String) : Prop := ∃ t, get S o = some t ∧ (t.findBlock b).isSome = true

def MapOK (S : List Tpl) (m : BlockMap) : Prop := ∀ p ∈ m, ∀ o ∈ p.2, Defines S o p.1
def LinOK (S : List Tpl) (tb : TplBlocks) : Prop := ∀ q ∈ tb, MapOK S q.2

theorem pl_walkUp_defines (ps : List String) (S : List Tpl) (b : String) :
    ∀ (cs l : List String), walkUp ps S b cs = .ok l → ∀ o ∈ l, Defines S o b := by
  intro cs
  induction cs with
  | nil => intro l h; simp only [walkUp] at h; cases h; simp
  | cons c rest ih =>
    intro l h
    unfold walkUp at h
    cases hr : resolve ps S c with
    | none => simp [hr] at h
    | some r =>
      simp only [hr] at h
      cases hg : get S r with
      | none => simp [hg] at h
      | some pt =>
        simp only [hg] at h
        have hpt : get S pt.name = some pt := by rw [get_name hg]; exact hg
        cases hb : pt.findBlock b with
        | none => simp only [hb] at h; exact ih l h
        | some pb =>
          simp only [hb] at h
          by_cases hs : pb.callsSuper = true
          · simp only [hs, if_true] at h
            cases hw : walkUp ps S b rest with
            | error e => simp [hw] at h
            | ok l' =>
              simp only [hw] at h
              cases h
              intro o ho
              rcases List.mem_cons.mp ho with rfl | ho
              · exact ⟨pt, hpt, by simp [hb]⟩
              · exact ih l' hw o ho
          · have : pb.callsSuper = false := by simpa using hs
            simp only [this] at h
            cases h
            intro o ho
            simp only [List.mem_singleton] at ho
            subst ho
            exact ⟨pt, hpt, by simp [hb]⟩

theorem pl_findBlock_of_mem {t : Tpl} {b : BlockDef} (h : b ∈ t.blocks) : (t.findBlock b.name).isSome = true := by
  unfold Tpl.findBlock
  rw [List.find?_isSome]
  exact ⟨b, h, by simp⟩

theorem pl_ownBlocks_ok (ps : List String) (S : List Tpl) (parents : List String) (t : Tpl)
    (ht : get S t.name = some t) :
    ∀ (bs : List BlockDef) (m : BlockMap), (∀ b ∈ bs, b ∈ t.blocks) →
      ownBlocks ps S parents t bs = .ok m → MapOK S m := by
  intro bs
  induction bs with
  | nil => intro m _ h; simp only [ownBlocks] at h; cases h; intro p hp; cases hp
  | cons d bs ih =>
    intro m hsub h
    unfold ownBlocks at h
    cases ho : ownLineage ps S parents t d with
    | error e => simp [ho] at h
    | ok l =>
      cases hr : ownBlocks ps S parents t bs with
      | error e => simp [ho, hr] at h
      | ok m' =>
        simp only [ho, hr] at h
        cases h
        have hself : Defines S t.name d.name := ⟨t, ht, pl_findBlock_of_mem (hsub d List.mem_cons_self)⟩
        have hl : ∀ o ∈ l, Defines S o d.name := by
          unfold ownLineage at ho
          by_cases hs : d.callsSuper = true
          · simp only [hs, if_true] at ho
            cases hw : walkUp ps S d.name parents.reverse with
            | error e => simp [hw] at ho
            | ok l' =>
              simp only [hw] at ho
              cases ho
              intro o hmem
              rcases List.mem_cons.mp hmem with rfl | hmem
              · exact hself
              · exact pl_walkUp_defines ps S _ _ _ hw o hmem
          · have : d.callsSuper = false := by simpa using hs
            simp only [this] at ho
            cases ho
            intro o hmem
            simp only [List.mem_singleton] at hmem
            subst hmem
            exact hself
        intro p hp
        rcases List.mem_cons.mp hp with rfl | hp
        · exact hl
        · exact ih m' (fun b hb => hsub b (List.mem_cons_of_mem _ hb)) hr p hp

theorem pl_loop2_linOK (ps : List String) (S : List Tpl) (l1 : Loop1) :
    ∀ (o2 : List String) (tb : TplBlocks) (bad : Bool), loop2 ps S l1 o2 = .ok (tb, bad) → LinOK S tb := by
  intro o2
  induction o2 with
  | nil => intro tb bad h; simp only [loop2] at h; cases h; intro q hq; cases hq
  | cons name rest ih =>
    intro tb bad h
    unfold loop2 at h
    cases hg : get S name with
    | none => simp [hg] at h
    | some tpl =>
      cases hp : lookupParents l1.parents name with
      | none => simp [hg, hp] at h
      | some parents =>
        simp only [hg, hp] at h
        cases hob : ownBlocks ps S parents tpl tpl.blocks with
        | error e => simp [hob] at h
        | ok m =>
          simp only [hob] at h
          cases hr : loop2 ps S l1 rest with
          | error e => simp [hr] at h
          | ok r =>
            obtain ⟨tb', bad'⟩ := r
            simp only [hr] at h
            cases h
            have htpl : get S tpl.name = some tpl := by rw [get_name hg]; exact hg
            intro q hq
            rcases List.mem_cons.mp hq with rfl | hq
            · exact pl_ownBlocks_ok ps S parents tpl htpl _ _ (fun b hb => hb) hob
            · exact ih tb' bad' hr q hq

theorem pl_blockLookup_mem {m : BlockMap} {b : String} {l : List String} (h : blockLookup m b = some l) :
    ∃ p ∈ m, p.2 = l := by
  unfold blockLookup at h
  cases hf : m.find? (fun e => e.1 == b) with
  | none => simp [hf] at h
  | some e =>
    simp only [hf, Option.map_some, Option.some.injEq] at h
    exact ⟨e, List.mem_of_find?_eq_some hf, h⟩

theorem pl_tbLookup_mem {tb : TplBlocks} {k : String} {m : BlockMap} (h : tbLookup tb k = some m) :
    ∃ q ∈ tb, q.2 = m := by
  unfold tbLookup at h
  cases hf : tb.find? (fun e => e.1 == k) with
  | none => simp [hf] at h
  | some e =>
    simp only [hf, Option.map_some, Option.some.injEq] at h
    exact ⟨e, List.mem_of_find?_eq_some hf, h⟩

theorem pl_orInsertAll_ok (S : List Tpl) : ∀ (pb child : BlockMap), MapOK S child → MapOK S pb →
    MapOK S (orInsertAll child pb) := by
  intro pb
  induction pb with
  | nil => intro child hc _; exact hc
  | cons e rest ih =>
    intro child hc hp
    obtain ⟨b, l⟩ := e
    unfold orInsertAll
    have hrest : MapOK S rest := fun p hp' => hp p (List.mem_cons_of_mem _ hp')
    cases hb : blockLookup child b with
    | some _ => simp only; exact ih child hc hrest
    | none =>
      simp only
      apply ih _ _ hrest
      intro p hp'
      rcases List.mem_append.mp hp' with hp' | hp'
      · exact hc p hp'
      · simp only [List.mem_singleton] at hp'
        subst hp'
        exact hp (b, l) List.mem_cons_self

theorem pl_tbSet_ok (S : List Tpl) (tb : TplBlocks) (k : String) (m : BlockMap) (h : LinOK S tb)
    (hm : MapOK S m) : LinOK S (tbSet tb k m) := by
  intro q hq
  unfold tbSet at hq
  obtain ⟨e, he, rfl⟩ := List.mem_map.mp hq
  split
  · exact hm
  · exact h e he

theorem pl_inheritFrom_ok (S : List Tpl) (name : String) :
    ∀ (ps : List String) (tb tb' : TplBlocks), LinOK S tb → inheritFrom tb name ps = .ok tb' → LinOK S tb' := by
  intro ps
  induction ps with
  | nil => intro tb tb' h hi; simp only [inheritFrom] at hi; cases hi; exact h
  | cons p rest ih =>
    intro tb tb' h hi
    unfold inheritFrom at hi
    cases hp : tbLookup tb p with
    | none => simp only [hp] at hi; exact ih tb tb' h hi
    | some pb =>
      simp only [hp] at hi
      cases hc : tbLookup tb name with
      | none => simp [hc] at hi
      | some child =>
        simp only [hc] at hi
        obtain ⟨q1, hq1, rfl⟩ := pl_tbLookup_mem hp
        obtain ⟨q2, hq2, rfl⟩ := pl_tbLookup_mem hc
        exact ih _ tb' (pl_tbSet_ok S tb name _ h (pl_orInsertAll_ok S _ _ (h q2 hq2) (h q1 hq1))) hi

theorem pl_pass2_ok (S : List Tpl) (parents : List (String × List String)) :
    ∀ (o3 : List String) (tb tb' : TplBlocks), LinOK S tb → pass2 parents tb o3 = .ok tb' → LinOK S tb' := by
  intro o3
  induction o3 with
  | nil => intro tb tb' h hp; simp only [pass2] at hp; cases hp; exact h
  | cons name rest ih =>
    intro tb tb' h hp
    unfold pass2 at hp
    cases hl : lookupParents parents name with
    | none => simp [hl] at hp
    | some ps =>
      simp only [hl] at hp
      cases hi : inheritFrom tb name ps.reverse with
      | error e => simp [hi] at hp
      | ok tb1 =>
        simp only [hi] at hp
        exact ih tb1 tb' (pl_inheritFrom_ok S name _ _ _ h hi) hp

theorem pl_derive_linOK {ps : List String} {S : List Tpl} {o2 o3 : List String} {d : Derived}
    (h : derive ps S o2 o3 = .ok d) : LinOK S d.lineage := by
  obtain ⟨l1, tb, tb', _, h2, h3, _, e2, _, _⟩ := derive_parts h
  rw [e2]
  exact pl_pass2_ok S _ _ _ _ (pl_loop2_linOK ps S l1 o2 tb false h2) h3

/-! ### the component table names definers -/

def CompsMem (S : List Tpl) (cs : CompSources) : Prop :=
  ∀ p ∈ cs, ∃ t, get S p.2.1 = some t ∧ p.1 ∈ t.comps.map (·.name)

theorem pl_compInsert_mem {S : List Tpl} {cs : CompSources} {c : String} {v : String × Nat}
    (hs : CompsMem S cs) (hv : ∃ t, get S v.1 = some t ∧ c ∈ t.comps.map (·.name)) :
    CompsMem S (compInsert cs c v) := by
  intro p hp
  unfold compInsert at hp
  rcases List.mem_cons.mp hp with rfl | hp
  · exact hv
  · exact hs p (List.mem_of_mem_filter hp)

theorem pl_compStep_mem {S : List Tpl} {t : Tpl} (ht : get S t.name = some t) {prio : Nat}
    {cs cs' : CompSources} {c : String} (hc : c ∈ t.comps.map (·.name))
    (hs : CompsMem S cs) (h : compStep t.name prio cs c = .ok cs') : CompsMem S cs' := by
  unfold compStep at h
  have ins := pl_compInsert_mem (c := c) (v := (t.name, prio)) hs ⟨t, ht, hc⟩
  cases hl : compLookup cs c with
  | none => simp only [hl] at h; cases h; exact ins
  | some x =>
    obtain ⟨ex, exPrio⟩ := x
    simp only [hl] at h
    by_cases h1 : prio < exPrio
    · simp only [h1, if_true] at h; cases h; exact ins
    · simp only [h1, if_false] at h
      by_cases h2 : prio > exPrio
      · simp only [h2, if_true] at h; cases h; exact hs
      · simp [h2] at h

theorem pl_compLoop_mem {S : List Tpl} {t : Tpl} (ht : get S t.name = some t) {prio : Nat} :
    ∀ (names : List String) (cs cs' : CompSources), (∀ c ∈ names, c ∈ t.comps.map (·.name)) →
      CompsMem S cs → compLoop t.name prio cs names = .ok cs' → CompsMem S cs' := by
  intro names
  induction names with
  | nil => intro cs cs' _ hs h; simp only [compLoop] at h; cases h; exact hs
  | cons c rest ih =>
    intro cs cs' hsub hs h
    unfold compLoop at h
    cases hst : compStep t.name prio cs c with
    | error e => simp [hst] at h
    | ok cs1 =>
      simp only [hst] at h
      exact ih cs1 cs' (fun x hx => hsub x (List.mem_cons_of_mem _ hx))
        (pl_compStep_mem ht (hsub c List.mem_cons_self) hs hst) h

theorem pl_loop1_compsMem (ps : List String) (S : List Tpl) :
    ∀ (names : List String) (acc l1 : Loop1), CompsMem S acc.comps →
      loop1 ps S acc names = .ok l1 → CompsMem S l1.comps := by
  intro names
  induction names with
  | nil => intro acc l1 hs h; simp only [loop1] at h; cases h; exact hs
  | cons n ns ih =>
    intro acc l1 hs h
    unfold loop1 at h
    cases hst : loop1Step ps S acc n with
    | error e => simp [hst] at h
    | ok a =>
      simp only [hst] at h
      obtain ⟨t, p, comps, sz, hg, _, hl, _, ha⟩ := loop1Step_ok' hst
      have ht : get S t.name = some t := by rw [get_name hg]; exact hg
      apply ih a l1 _ h
      rw [ha]
      exact pl_compLoop_mem ht _ _ _ (fun c hc => hc) hs hl

theorem pl_derive_compsMem {ps : List String} {S : List Tpl} {o2 o3 : List String} {d : Derived}
    (h : derive ps S o2 o3 = .ok d) :
    ∀ p ∈ d.comps, ∃ t, get S p.2 = some t ∧ p.1 ∈ t.comps.map (·.name) := by
  obtain ⟨l1, tb, tb', h1, _, _, _, _, _, e4⟩ := derive_parts h
  have := pl_loop1_compsMem ps S _ _ _ (by intro p hp; cases hp) h1
  rw [e4]
  intro p hp
  obtain ⟨q, hq, rfl⟩ := List.mem_map.mp hp
  exact this q hq

end Tera.Reg

namespace Tera.Pipeline
open Tera Tera.Reg

/-! ### `lookupLast` -/

theorem lookupLast_isSome {α : Type} (k : String) (l : List (String × α)) :
    (lookupLast k l).isSome = true ↔ k ∈ l.map (·.1) := by
  induction l with
  | nil => simp [lookupLast]
  | cons p rest ih =>
    obtain ⟨n, x⟩ := p
    simp only [lookupLast, List.map_cons, List.mem_cons]
    cases hr : lookupLast k rest with
    | some y =>
      have := ih.mp (by simp [hr])
      simp [this]
    | none =>
      have hnot : k ∉ rest.map (·.1) := fun hm => by
        have := ih.mpr hm; rw [hr] at this; cases this
      by_cases hnk : n = k
      · simp [hnk]
      · have : ¬ k = n := fun h => hnk h.symm
        simp [hnk, this, hnot]

theorem mem_dedupLast {x : String} : ∀ {l : List String}, x ∈ dedupLast l → x ∈ l := by
  intro l
  induction l with
  | nil => intro h; cases h
  | cons n rest ih =>
    intro h
    unfold dedupLast at h
    split at h
    · exact List.mem_cons_of_mem _ (ih h)
    · rcases List.mem_cons.mp h with rfl | h
      · exact List.mem_cons_self
      · exact List.mem_cons_of_mem _ (ih h)

/-! ### what `newTemplate` stores -/

/-- the stored tables of a template have the names its summary lists -/
structure TDOK (reg : Registered) (td : TemplateData) : Prop where
  name : (td.summary.toTpl reg).name = td.name
  blocks : ∀ b, ((td.summary.toTpl reg).findBlock b).isSome = true → (lookupLast b td.blocks).isSome = true
  comps : ∀ c ∈ (td.summary.toTpl reg).comps.map (·.name), (lookupLast c td.components).isSome = true

theorem storeNamed_keys (name : String) : ∀ (l : List (String × Compiler.Code)) (chs : List (String × Vm.Chunk)),
    storeNamed name l = .ok chs → chs.map (·.1) = l.map (·.1) := by
  intro l
  induction l with
  | nil => intro chs h; simp only [storeNamed] at h; cases h; rfl
  | cons p rest ih =>
    intro chs h
    obtain ⟨n, c⟩ := p
    unfold storeNamed at h
    cases h1 : storeChunk name c with
    | ok ch =>
      cases h2 : storeNamed name rest with
      | ok chs' =>
        simp only [h1, h2] at h
        cases h
        simp [ih chs' h2]
      | panic s => simp [h1, h2] at h
      | internal w => simp [h1, h2] at h
    | panic s => simp [h1] at h
    | internal w => simp [h1] at h

theorem zipDefs_keys (defs : List ComponentDefinition) (chunks : List (String × Vm.Chunk))
    (h : defs.length = chunks.length) : (zipDefs defs chunks).map (·.1) = chunks.map (·.1) := by
  induction defs generalizing chunks with
  | nil =>
    cases chunks with
    | nil => rfl
    | cons _ _ => simp at h
  | cons d ds ih =>
    cases chunks with
    | nil => simp at h
    | cons c cs =>
      obtain ⟨n, ch⟩ := c
      simp only [List.length_cons, Nat.add_right_cancel_iff] at h
      have := ih cs h
      simp only [zipDefs, List.zip_cons_cons, List.map_cons] at this ⊢
      rw [this]

theorem newTemplate_tdok (reg : Registered) (d : Delims) (name : String) (src : Bytes) (td : TemplateData)
    (h : newTemplate d name src = .ok td) : TDOK reg td := by
  unfold newTemplate at h
  cases hf : front d src with
  | «syntax» => simp [hf] at h
  | panic s => simp [hf] at h
  | outOfFuel => simp [hf] at h
  | ok t =>
    simp only [hf] at h
    cases hc : Compiler.compileTemplate t with
    | error site => simp [hc] at h
    | ok c =>
      simp only [hc] at h
      cases h1 : storeChunk name c.main with
      | panic s => simp [h1] at h
      | internal w => simp [h1] at h
      | ok main =>
        cases h2 : storeNamed name c.blocks with
        | panic s => simp [h1, h2] at h
        | internal w => simp [h1, h2] at h
        | ok blocks =>
          cases h3 : storeNamed name c.components with
          | panic s => simp [h1, h2, h3] at h
          | internal w => simp [h1, h2, h3] at h
          | ok comps =>
            simp only [h1, h2, h3, NewRes.ok.injEq] at h
            subst h
            have hcomp : c.components = t.componentDefinitions.map fun cd => (cd.name, Compiler.nodesCode 0 none cd.body) := by
              unfold Compiler.compileTemplate at hc
              split at hc
              · cases hc
              · cases hc; rfl
            refine ⟨rfl, ?_, ?_⟩
            · intro b hb
              rw [lookupLast_isSome, storeNamed_keys name _ _ h2]
              simp only [TplR.toTpl, summaryOf, Tpl.findBlock, List.find?_isSome, List.mem_map] at hb
              obtain ⟨_, ⟨b', hb', rfl⟩, heq⟩ := hb
              simp only [beq_iff_eq] at heq
              subst heq
              exact mem_dedupLast hb'
            · intro cn hcn
              rw [lookupLast_isSome]
              have hlen : t.componentDefinitions.length = comps.length := by
                have := congrArg List.length (storeNamed_keys name _ _ h3)
                simp only [List.length_map] at this
                rw [this, hcomp]; simp
              rw [zipDefs_keys _ _ hlen, storeNamed_keys name _ _ h3]
              simp only [TplR.toTpl, summaryOf, List.map_map, List.mem_map] at hcn
              obtain ⟨x, hx, rfl⟩ := hcn
              exact mem_dedupLast hx

theorem newAll_tdok (reg : Registered) (d : Delims) : ∀ (sources : List (String × Bytes)) (tds : List TemplateData),
    newAll d sources = .ok tds → ∀ td ∈ tds, TDOK reg td := by
  intro sources
  induction sources with
  | nil => intro tds h; simp only [newAll] at h; cases h; intro td htd; cases htd
  | cons p rest ih =>
    intro tds h
    obtain ⟨name, src⟩ := p
    unfold newAll at h
    cases hn : newTemplate d name src with
    | «syntax» => simp [hn] at h
    | panic s => simp [hn] at h
    | outOfFuel => simp [hn] at h
    | internal w => simp [hn] at h
    | ok t =>
      simp only [hn] at h
      cases hr : newAll d rest with
      | error e => simp [hr] at h
      | ok ts =>
        simp only [hr] at h
        cases h
        intro td htd
        rcases List.mem_cons.mp htd with rfl | htd
        · exact newTemplate_tdok reg d name src _ hn
        · exact ih ts hr td htd

/-! ### the registered summary of a name is that of the last template of that name -/

theorem eget_einsert (ts : List Reg.Entry) (e : Reg.Entry) (k : String) :
    eget (einsert ts e) k = if e.tpl.name = k then some e else eget ts k := by
  unfold eget einsert
  by_cases h : e.tpl.name = k
  · simp [List.find?, h]
  · have hb : (e.tpl.name == k) = false := by simpa using h
    simp only [List.find?, hb, h, if_false]
    induction ts with
    | nil => rfl
    | cons x xs ih =>
      by_cases hx : x.tpl.name = e.tpl.name
      · have hxk : (x.tpl.name == k) = false := by simp [hx, h]
        have hxe : (x.tpl.name == e.tpl.name) = true := by simp [hx]
        simp only [List.filter, hxe, Bool.not_true, List.find?, hxk]
        exact ih
      · have hne : (x.tpl.name == e.tpl.name) = false := by simpa using hx
        simp only [List.filter, hne, Bool.not_false, List.find?]
        split
        · rfl
        · exact ih

theorem insertBatch_lookup (reg : Registered) :
    ∀ (tds : List TemplateData) (ts : List Reg.Entry) (log : UndoLog), (∀ td ∈ tds, TDOK reg td) →
      ∀ k, (eget (insertBatch ts log (tds.map fun td => Item.good (td.summary.toTpl reg))).1 k).map (·.tpl) =
        match lookupLast k (namedOf tds) with
        | some td => some (td.summary.toTpl reg)
        | none => (eget ts k).map (·.tpl) := by
  intro tds
  induction tds with
  | nil => intro ts log _ k; simp [insertBatch, namedOf, lookupLast]
  | cons td rest ih =>
    intro ts log hok k
    have hrest : ∀ td' ∈ rest, TDOK reg td' := fun x hx => hok x (List.mem_cons_of_mem _ hx)
    have hname := (hok td List.mem_cons_self).name
    simp only [List.map_cons, insertBatch, namedOf, lookupLast]
    have := ih (einsert ts (Entry.fresh (td.summary.toTpl reg)))
      (log ++ [((td.summary.toTpl reg).name, eget ts (td.summary.toTpl reg).name)]) hrest k
    simp only [namedOf] at this
    rw [this]
    cases hl : lookupLast k (rest.map fun td => (td.name, td)) with
    | some y => rfl
    | none =>
      simp only
      rw [eget_einsert]
      simp only [Entry.fresh, hname]
      by_cases hk : td.name = k
      · simp [hk]
      · simp [hk]

/-! ### `buildEnv` succeeds -/

theorem lineageChunks_some (reg : Registered) (tds : List TemplateData) (S : List Tpl) (b : String)
    (hS : ∀ o t, get S o = some t → ∃ td, lookupLast o (namedOf tds) = some td ∧ t = td.summary.toTpl reg ∧ TDOK reg td) :
    ∀ (owners : List String), (∀ o ∈ owners, Defines S o b) →
      (lineageChunks (namedOf tds) b owners).isSome = true := by
  intro owners
  induction owners with
  | nil => intro _; rfl
  | cons o rest ih =>
    intro h
    obtain ⟨t, hg, hb⟩ := h o List.mem_cons_self
    obtain ⟨td, hl, rfl, hok⟩ := hS o t hg
    have hrest := ih (fun x hx => h x (List.mem_cons_of_mem _ hx))
    obtain ⟨ch, hch⟩ := Option.isSome_iff_exists.mp (hok.blocks b hb)
    obtain ⟨chs, hchs⟩ := Option.isSome_iff_exists.mp hrest
    simp [lineageChunks, hl, hch, hchs]

theorem lineagesOf_some (reg : Registered) (tds : List TemplateData) (S : List Tpl)
    (hS : ∀ o t, get S o = some t → ∃ td, lookupLast o (namedOf tds) = some td ∧ t = td.summary.toTpl reg ∧ TDOK reg td) :
    ∀ (m : BlockMap), MapOK S m → (lineagesOf (namedOf tds) m).isSome = true := by
  intro m
  induction m with
  | nil => intro _; rfl
  | cons p rest ih =>
    intro h
    obtain ⟨b, owners⟩ := p
    have h1 := lineageChunks_some reg tds S b hS owners (h (b, owners) List.mem_cons_self)
    have h2 := ih (fun q hq => h q (List.mem_cons_of_mem _ hq))
    obtain ⟨l, hl⟩ := Option.isSome_iff_exists.mp h1
    obtain ⟨ls, hls⟩ := Option.isSome_iff_exists.mp h2
    simp [lineagesOf, hl, hls]

theorem infosOf_some (tds : List TemplateData) :
    ∀ (es : List Reg.Entry),
      (∀ e ∈ es, (lookupLast e.tpl.name (namedOf tds)).isSome = true ∧
        (lineagesOf (namedOf tds) e.lineage).isSome = true) →
      (infosOf (namedOf tds) es).isSome = true := by
  intro es
  induction es with
  | nil => intro _; rfl
  | cons e rest ih =>
    intro h
    obtain ⟨h1, h2⟩ := h e List.mem_cons_self
    obtain ⟨td, htd⟩ := Option.isSome_iff_exists.mp h1
    obtain ⟨lin, hlin⟩ := Option.isSome_iff_exists.mp h2
    obtain ⟨is, his⟩ := Option.isSome_iff_exists.mp (ih (fun x hx => h x (List.mem_cons_of_mem _ hx)))
    simp [infosOf, infoOf, htd, hlin, his]

theorem globalComponents_some (reg : Registered) (tds : List TemplateData) (S : List Tpl)
    (hS : ∀ o t, get S o = some t → ∃ td, lookupLast o (namedOf tds) = some td ∧ t = td.summary.toTpl reg ∧ TDOK reg td) :
    ∀ (cs : List (String × String)),
      (∀ p ∈ cs, ∃ t, get S p.2 = some t ∧ p.1 ∈ t.comps.map (·.name)) →
      (globalComponents (namedOf tds) cs).isSome = true := by
  intro cs
  induction cs with
  | nil => intro _; rfl
  | cons p rest ih =>
    intro h
    obtain ⟨c, owner⟩ := p
    obtain ⟨t, hg, hc⟩ := h (c, owner) List.mem_cons_self
    obtain ⟨td, hl, rfl, hok⟩ := hS owner t hg
    obtain ⟨dc, hdc⟩ := Option.isSome_iff_exists.mp (hok.comps c hc)
    obtain ⟨r, hr⟩ := Option.isSome_iff_exists.mp (ih (fun x hx => h x (List.mem_cons_of_mem _ hx)))
    simp [globalComponents, hl, hdc, hr]

theorem commitAll_mem {d : Derived} {sfx : List String} :
    ∀ (ts ts' : List Reg.Entry), commitAll d sfx ts = .ok ts' →
      ∀ e' ∈ ts', ∃ e ∈ ts, commitEntry d sfx e = .ok e' := by
  intro ts
  induction ts with
  | nil => intro ts' h; simp only [commitAll] at h; cases h; intro e' he'; cases he'
  | cons e rest ih =>
    intro ts' h
    unfold commitAll at h
    cases h1 : commitEntry d sfx e with
    | error x => simp [h1] at h
    | ok e1 =>
      cases h2 : commitAll d sfx rest with
      | error x => simp [h1, h2] at h
      | ok es =>
        simp only [h1, h2] at h
        cases h
        intro e' he'
        rcases List.mem_cons.mp he' with rfl | he'
        · exact ⟨e, List.mem_cons_self, h1⟩
        · obtain ⟨e0, he0, hc⟩ := ih es h2 e' he'
          exact ⟨e0, List.mem_cons_of_mem _ he0, hc⟩

/-- **`buildEnv` finds every chunk**: after a successful `register`, the adapter answers an
environment. -/
theorem buildEnv_some (cfg : Config) (sources : List (String × Bytes)) (tds : List TemplateData)
    (st : Reg.State) (hn : newAll cfg.delims sources = .ok tds) (hr : register cfg tds = .ok st) :
    ∃ env, buildEnv cfg tds st = some env := by
  have hok := newAll_tdok cfg.reg cfg.delims sources tds hn
  -- what `register` did
  have hadd : Reg.addBatch (initState cfg) (tds.map fun td => Item.good (td.summary.toTpl cfg.reg)) id id
      = (st, none) := by
    unfold register at hr
    have hmap : (tds.map fun td => Reg.ItemR.good td.summary).map (Reg.ItemR.toItem cfg.reg)
        = tds.map fun td => Item.good (td.summary.toTpl cfg.reg) := by
      simp [Reg.ItemR.toItem]
    unfold Reg.addBatchR at hr
    rw [hmap] at hr
    rcases hab : Reg.addBatch (initState cfg) (tds.map fun td => Item.good (td.summary.toTpl cfg.reg)) id id
      with ⟨st', oe⟩
    rw [hab] at hr
    cases oe with
    | none => simp only [Except.ok.injEq] at hr; rw [hab, hr]
    | some e => cases e <;> simp at hr
  have hfin := C10.add_success_finalize _ _ _ _ _ hadd
  obtain ⟨d, ts, hd, hc, hst⟩ := finalize_ok_parts hfin
  simp only at hd hc
  -- the registered summaries
  let ts0 := (insertBatch (initState cfg).templates [] (tds.map fun td => Item.good (td.summary.toTpl cfg.reg))).1
  have hS : ∀ o t, get (ts0.map (·.tpl)) o = some t →
      ∃ td, lookupLast o (namedOf tds) = some td ∧ t = td.summary.toTpl cfg.reg ∧ TDOK cfg.reg td := by
    intro o t hg
    rw [get_map_tpl] at hg
    have := insertBatch_lookup cfg.reg tds (initState cfg).templates [] hok o
    rw [hg] at this
    cases hl : lookupLast o (namedOf tds) with
    | none =>
      rw [hl] at this
      simp [initState, State.init, eget] at this
    | some td =>
      rw [hl] at this
      simp only [Option.some.injEq] at this
      refine ⟨td, rfl, this, ?_⟩
      have hmem : o ∈ (namedOf tds).map (·.1) := (lookupLast_isSome o _).mp (by simp [hl])
      -- the td found is a member of tds
      have : ∀ (l : List TemplateData) (td : TemplateData), lookupLast o (namedOf l) = some td → td ∈ l := by
        intro l
        induction l with
        | nil => intro td h; simp [namedOf, lookupLast] at h
        | cons x xs ih =>
          intro td h
          simp only [namedOf, List.map_cons, lookupLast] at h
          cases hx : lookupLast o (xs.map fun td => (td.name, td)) with
          | some y =>
            rw [hx] at h
            simp only [Option.some.injEq] at h
            subst h
            exact List.mem_cons_of_mem _ (ih y hx)
          | none =>
            rw [hx] at h
            simp only at h
            split at h
            · simp only [Option.some.injEq] at h; subst h; exact List.mem_cons_self
            · cases h
      exact hok td (this tds td hl)
  have hlin := pl_derive_linOK hd
  have hcm := pl_derive_compsMem hd
  unfold buildEnv
  rw [hst]
  simp only
  have h1 : (infosOf (namedOf tds) ts).isSome = true := by
    apply infosOf_some
    intro e' he'
    obtain ⟨e, he, hce⟩ := commitAll_mem _ _ hc e' he'
    obtain ⟨htpl, _, _, hl, _⟩ := commitEntry_tpl hce
    constructor
    · rw [htpl]
      have hsome : (eget ts0 e.tpl.name).isSome = true :=
        mem_names_eget (List.mem_map.mpr ⟨e, he, rfl⟩)
      obtain ⟨e2, he2⟩ := Option.isSome_iff_exists.mp hsome
      have hg : get (ts0.map (·.tpl)) e.tpl.name = some e2.tpl := by
        rw [get_map_tpl, he2]; rfl
      obtain ⟨td, hl', _⟩ := hS _ _ hg
      simp [hl']
    · obtain ⟨q, hq, hq2⟩ := pl_tbLookup_mem hl
      apply lineagesOf_some cfg.reg tds (ts0.map (·.tpl)) hS
      rw [← hq2]
      exact hlin q hq
  have h2 : (globalComponents (namedOf tds) d.comps).isSome = true :=
    globalComponents_some cfg.reg tds (ts0.map (·.tpl)) hS _ hcm
  obtain ⟨tpls, htpls⟩ := Option.isSome_iff_exists.mp h1
  obtain ⟨comps, hcomps⟩ := Option.isSome_iff_exists.mp h2
  rw [htpls, hcomps]
  exact ⟨_, rfl⟩

end Tera.Pipeline
