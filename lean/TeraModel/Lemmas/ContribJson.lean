/-
Lemmas for the JSON round trip (`Props/C20Json.lean`): the reader of `Model/ContribJsonRead.lean`
applied to the text of the writer `jsonWrite` (`Model/Contrib.lean`).

Outline: `Good parseF t j` says the text `t` reads back as `j` in front of every continuation that
does not extend a number token, with every fuel of at least `t.length`. It is shown for each leaf
kind (literals, integers via `Nat.ofDigitChars_ten_toDigits`, floats from the `FloatText`
assumptions, strings by induction over the escaped characters), then lifted through `[…]` / `{…}`
with the comma-`intercalate`d sequences, and finally for every `Value` by mutual structural
recursion (`good_value` / `good_elems` / `good_members`).
-/
import TeraModel.Model.ContribJsonRead
namespace Tera.Contrib

theorem null_toList : "null".toList = ['n','u','l','l'] := by simp
theorem true_toList : "true".toList = ['t','r','u','e'] := by simp
theorem false_toList : "false".toList = ['f','a','l','s','e'] := by simp

theorem hex4_lowerHex : ∀ n, n < 32 →
    hex4 '0' '0' (lowerHex (n / 16)) (lowerHex (n % 16)) = some (Char.ofNat n) := by decide

theorem char_of_toNat {c : Char} {n : Nat} (h : c.toNat = n) : c = Char.ofNat n := by
  rw [← h, Char.ofNat_toNat]

theorem readStr_cons (c : Char) (cs : List Char) :
    readStr (c :: cs) =
      if c = '"' then some ([], cs)
      else if c = '\\' then
        match cs with
        | [] => none
        | e :: cs1 =>
          if e = 'u' then
            match cs1 with
            | h1 :: h2 :: h3 :: h4 :: cs2 =>
              match hex4 h1 h2 h3 h4 with
              | none => none
              | some ch =>
                match readStr cs2 with
                | none => none
                | some (s, r) => some (ch :: s, r)
            | _ => none
          else
            match unescape e with
            | none => none
            | some ch =>
              match readStr cs1 with
              | none => none
              | some (s, r) => some (ch :: s, r)
      else if c.toNat < 32 then none
      else
        match readStr cs with
        | none => none
        | some (s, r) => some (c :: s, r) := by
  rw [readStr.eq_def]; rfl

theorem readStr_escape (c : Char) (cs : List Char) :
    readStr (jsonEscapeChar c ++ cs) =
      match readStr cs with
      | none => none
      | some (s, r) => some (c :: s, r) := by
  unfold jsonEscapeChar
  simp only
  split
  · next h => rw [char_of_toNat h]; simp [readStr_cons, unescape]
  split
  · next h => rw [char_of_toNat h]; simp [readStr_cons, unescape]
  split
  · next h => rw [char_of_toNat h]; simp [readStr_cons, unescape]
  split
  · next h => rw [char_of_toNat h]; simp [readStr_cons, unescape]
  split
  · next h => rw [char_of_toNat h]; simp [readStr_cons, unescape]
  split
  · next h => rw [char_of_toNat h]; simp [readStr_cons, unescape]
  split
  · next h => rw [char_of_toNat h]; simp [readStr_cons, unescape]
  split
  · next h =>
    simp [readStr_cons, hex4_lowerHex _ h, Char.ofNat_toNat]
  · next h1 h2 h3 h4 h5 h6 h7 h8 =>
    have e1 : c ≠ '"' := by rintro rfl; simp at h1
    have e2 : c ≠ '\\' := by rintro rfl; simp at h2
    simp [readStr_cons, e1, e2, h8]

theorem readStr_flatMap (s rest : List Char) :
    readStr (s.flatMap jsonEscapeChar ++ '"' :: rest) = some (s, rest) := by
  induction s with
  | nil => simp [readStr_cons]
  | cons c s ih => simp [List.flatMap_cons, List.append_assoc, readStr_escape, ih]

theorem readStr_jsonString (s rest : List Char) :
    ∃ t, jsonString s ++ rest = '"' :: t ∧ readStr t = some (s, rest) := by
  refine ⟨s.flatMap jsonEscapeChar ++ '"' :: rest, ?_, readStr_flatMap s rest⟩
  simp [jsonString]

/-! ### numbers -/

/-- what may follow a number token: anything that does not continue it -/
def NoNumHead : List Char → Prop
  | [] => True
  | c :: _ => isNumChar c = false

theorem takeWhile_numTok (tok rest : List Char) (htok : ∀ c ∈ tok, isNumChar c = true)
    (hrest : NoNumHead rest) : (tok ++ rest).takeWhile isNumChar = tok := by
  induction tok with
  | nil =>
    cases rest with
    | nil => rfl
    | cons c r => simp [NoNumHead] at hrest; simp [hrest]
  | cons c t ih =>
    have hc := htok c (by simp)
    have := ih (fun d hd => htok d (by simp [hd]))
    simp [hc, this]

theorem dropWhile_numTok (tok rest : List Char) (htok : ∀ c ∈ tok, isNumChar c = true)
    (hrest : NoNumHead rest) : (tok ++ rest).dropWhile isNumChar = rest := by
  induction tok with
  | nil =>
    cases rest with
    | nil => rfl
    | cons c r => simp [NoNumHead] at hrest; simp [hrest]
  | cons c t ih =>
    have hc := htok c (by simp)
    have := ih (fun d hd => htok d (by simp [hd]))
    simp [hc, this]

theorem isNumChar_of_isDigit {c : Char} (h : c.isDigit = true) : isNumChar c = true := by
  simp [isNumChar, h]

theorem natDigits_isDigit (n : Nat) : ∀ c ∈ natDigits n, c.isDigit = true :=
  fun _ hc => Nat.isDigit_of_mem_toDigits (by decide) (by decide) hc

theorem natDigits_ne_nil (n : Nat) : natDigits n ≠ [] := Nat.toDigits_ne_nil

theorem readNat_natDigits (n : Nat) : readNat (natDigits n) = some n := by
  have h1 : (natDigits n).all Char.isDigit = true := by
    simpa [List.all_eq_true] using natDigits_isDigit n
  have h2 : (natDigits n).isEmpty = false := by
    simpa [List.isEmpty_iff] using natDigits_ne_nil n
  have h3 := @Nat.ofDigitChars_ten_toDigits n
  simp only [Nat.ofDigitChars] at h3
  simp only [readNat, h1, h2]
  simpa [natDigits] using h3

theorem readInt_natDigits (n : Nat) : readInt (natDigits n) = some (n : Int) := by
  have hne := natDigits_ne_nil n
  have hd := natDigits_isDigit n
  have hr := readNat_natDigits n
  cases h : natDigits n with
  | nil => exact absurd h hne
  | cons c ds =>
    rw [h] at hd hr
    have : c ≠ '-' := by
      rintro rfl
      have := hd '-' (by simp)
      simp at this
    simp [readInt, this, hr]

theorem readInt_intDigits (n : Int) : readInt (intDigits n) = some n := by
  unfold intDigits
  split
  · next h =>
    simp [readInt, readNat_natDigits]
    omega
  · next h =>
    rw [readInt_natDigits]
    congr 1
    omega

theorem intDigits_numChar (n : Int) : ∀ c ∈ intDigits n, isNumChar c = true := by
  intro c hc
  unfold intDigits at hc
  split at hc
  · cases hc with
    | head => decide
    | tail _ h => exact isNumChar_of_isDigit (natDigits_isDigit _ c h)
  · exact isNumChar_of_isDigit (natDigits_isDigit _ c hc)

theorem intDigits_ne_nil (n : Int) : intDigits n ≠ [] := by
  unfold intDigits
  split
  · simp
  · exact natDigits_ne_nil _

theorem readNat_isDigit {ds : List Char} {n : Nat} (h : readNat ds = some n) :
    ∀ c ∈ ds, c.isDigit = true := by
  unfold readNat at h
  split at h
  · next hc => simp at hc; exact hc.2
  · cases h

theorem readInt_isDigit {tok : List Char} {n : Int} (h : readInt tok = some n) :
    ∀ c ∈ tok, c = '-' ∨ c.isDigit = true := by
  cases tok with
  | nil => simp
  | cons c ds =>
    simp only [readInt] at h
    split at h
    · next hc =>
      cases hr : readNat ds with
      | none => simp [hr] at h
      | some m =>
        intro d hd
        cases hd with
        | head => exact .inl hc
        | tail _ hd => exact .inr (readNat_isDigit hr d hd)
    · cases hr : readNat (c :: ds) with
      | none => simp [hr] at h
      | some m => exact fun d hd => .inr (readNat_isDigit hr d hd)

/-- a token containing `.`, `e` or `E` is not an integer -/
theorem readInt_none_of_mark {tok : List Char}
    (h : ∃ c ∈ tok, c = '.' ∨ c = 'e' ∨ c = 'E') : readInt tok = none := by
  cases hr : readInt tok with
  | none => rfl
  | some n =>
    obtain ⟨c, hc, hm⟩ := h
    have := readInt_isDigit hr c hc
    rcases hm with rfl | rfl | rfl <;> simp at this

/-! ### one value -/

variable {parseF : List Char → Option F64}

theorem readValue_succ_cons (fuel : Nat) (c : Char) (rest : List Char) :
    readValue parseF (fuel + 1) (c :: rest) =
      if isNumChar c then
        match readNumber parseF ((c :: rest).takeWhile isNumChar) with
        | some j => some (j, (c :: rest).dropWhile isNumChar)
        | none => none
      else if c = '"' then
        match readStr rest with
        | some (s, r) => some (.str s, r)
        | none => none
      else if c = '[' then
        match rest with
        | [] => none
        | d :: r =>
          if d = ']' then some (.arr [], r)
          else
            match readElems parseF fuel rest with
            | some (js, r') => some (.arr js, r')
            | none => none
      else if c = '{' then
        match rest with
        | [] => none
        | d :: r =>
          if d = '}' then some (.obj [], r)
          else
            match readMembers parseF fuel rest with
            | some (ms, r') => some (.obj ms, r')
            | none => none
      else if c = 'n' then
        match dropPrefix ['u', 'l', 'l'] rest with
        | some r => some (.null, r)
        | none => none
      else if c = 't' then
        match dropPrefix ['r', 'u', 'e'] rest with
        | some r => some (.bool true, r)
        | none => none
      else if c = 'f' then
        match dropPrefix ['a', 'l', 's', 'e'] rest with
        | some r => some (.bool false, r)
        | none => none
      else none := by
  rw [readValue.eq_def]; rfl

theorem readElems_succ (fuel : Nat) (cs : List Char) :
    readElems parseF (fuel + 1) cs =
      match readValue parseF fuel cs with
      | none => none
      | some (j, r) =>
        match r with
        | [] => none
        | d :: r1 =>
          if d = ',' then
            match readElems parseF fuel r1 with
            | some (js, r2) => some (j :: js, r2)
            | none => none
          else if d = ']' then some ([j], r1)
          else none := by
  rw [readElems]; rfl

theorem readMembers_succ_cons (fuel : Nat) (q : Char) (cs1 : List Char) :
    readMembers parseF (fuel + 1) (q :: cs1) =
      if q = '"' then
        match readStr cs1 with
        | none => none
        | some (k, cs2) =>
          match cs2 with
          | [] => none
          | col :: cs3 =>
            if col = ':' then
              match readValue parseF fuel cs3 with
              | none => none
              | some (j, r) =>
                match r with
                | [] => none
                | d :: r1 =>
                  if d = ',' then
                    match readMembers parseF fuel r1 with
                    | some (ms, r2) => some ((k, j) :: ms, r2)
                    | none => none
                  else if d = '}' then some ([(k, j)], r1)
                  else none
            else none
      else none := by
  rw [readMembers]; rfl

/-- `t` reads back as `j` in front of any continuation that does not extend a number token,
with any fuel of at least its length. -/
def Good (parseF : List Char → Option F64) (t : List Char) (j : Json) : Prop :=
  t ≠ [] ∧ ∀ fuel rest, t.length ≤ fuel → NoNumHead rest →
    readValue parseF fuel (t ++ rest) = some (j, rest)

theorem exists_succ_of_ne_nil {t : List Char} {fuel : Nat} (hne : t ≠ []) (h : t.length ≤ fuel) :
    ∃ f, fuel = f + 1 := by
  have : 0 < t.length := List.length_pos_iff.mpr hne
  exact ⟨fuel - 1, by omega⟩

theorem good_null : Good parseF ['n', 'u', 'l', 'l'] .null := by
  refine ⟨by simp, fun fuel rest hf _ => ?_⟩
  obtain ⟨f, rfl⟩ := exists_succ_of_ne_nil (by simp) hf
  simp [readValue_succ_cons, isNumChar, dropPrefix]

theorem good_true : Good parseF ['t', 'r', 'u', 'e'] (.bool true) := by
  refine ⟨by simp, fun fuel rest hf _ => ?_⟩
  obtain ⟨f, rfl⟩ := exists_succ_of_ne_nil (by simp) hf
  simp [readValue_succ_cons, isNumChar, dropPrefix]

theorem good_false : Good parseF ['f', 'a', 'l', 's', 'e'] (.bool false) := by
  refine ⟨by simp, fun fuel rest hf _ => ?_⟩
  obtain ⟨f, rfl⟩ := exists_succ_of_ne_nil (by simp) hf
  simp [readValue_succ_cons, isNumChar, dropPrefix]

theorem good_str (s : List Char) : Good parseF (jsonString s) (.str s) := by
  refine ⟨by simp [jsonString], fun fuel rest hf _ => ?_⟩
  obtain ⟨f, rfl⟩ := exists_succ_of_ne_nil (by simp [jsonString]) hf
  obtain ⟨t, ht, hr⟩ := readStr_jsonString s rest
  rw [ht, readValue_succ_cons]
  simp [isNumChar, hr]

/-- a number token in front of a continuation that does not extend it -/
theorem good_number {tok : List Char} {j : Json} (hne : tok ≠ [])
    (htok : ∀ c ∈ tok, isNumChar c = true) (hj : readNumber parseF tok = some j) :
    Good parseF tok j := by
  refine ⟨hne, fun fuel rest hf hrest => ?_⟩
  obtain ⟨f, rfl⟩ := exists_succ_of_ne_nil hne hf
  cases htk : tok with
  | nil => exact absurd htk hne
  | cons c t =>
    have hc : isNumChar c = true := htok c (by simp [htk])
    rw [List.cons_append, readValue_succ_cons, ← List.cons_append, ← htk]
    simp [hc, takeWhile_numTok tok rest htok hrest, dropWhile_numTok tok rest htok hrest, hj]

theorem good_nat (n : Nat) : Good parseF (natDigits n) (.int (n : Int)) :=
  good_number (natDigits_ne_nil n) (fun c hc => isNumChar_of_isDigit (natDigits_isDigit n c hc))
    (by simp [readNumber, readInt_natDigits])

theorem good_int (n : Int) : Good parseF (intDigits n) (.int n) :=
  good_number (intDigits_ne_nil n) (intDigits_numChar n) (by simp [readNumber, readInt_intDigits])

theorem good_float {fmtF : F64 → List Char} (h : FloatText fmtF parseF) (x : F64)
    (hx : x.isFinite = true) : Good parseF (fmtF x) (.float x) :=
  good_number (h.nonempty x hx) (h.numChars x hx)
    (by simp [readNumber, readInt_none_of_mark (h.notInt x hx), h.readBack x hx])

/-- a readable value text does not start with a closing bracket -/
theorem good_head_ne {t : List Char} {j : Json} (hg : Good parseF t j) (d : Char) (t' : List Char)
    (ht : t = d :: t') : d ≠ ']' := by
  rintro rfl
  subst ht
  have := hg.2 (t'.length + 1) [] (by simp) trivial
  rw [List.cons_append, readValue_succ_cons] at this
  simp [isNumChar] at this

/-! ### sequences -/

theorem intercalate_cons_cons (sep x y : List Char) (r : List (List Char)) :
    intercalate sep (x :: y :: r) = x ++ sep ++ intercalate sep (y :: r) := rfl

theorem readElems_last {t : List Char} {j : Json} (hg : Good parseF t j) (fuel : Nat)
    (rest : List Char) (hf : t.length + 1 ≤ fuel) :
    readElems parseF fuel (t ++ ']' :: rest) = some ([j], rest) := by
  obtain ⟨f, rfl⟩ : ∃ f, fuel = f + 1 := ⟨fuel - 1, by omega⟩
  rw [readElems_succ, hg.2 f (']' :: rest) (by omega) (by simp [NoNumHead, isNumChar])]
  simp

theorem readElems_more {t : List Char} {j : Json} (hg : Good parseF t j) (fuel : Nat)
    (body rest : List Char) (js : List Json) (hf : t.length + 1 ≤ fuel)
    (hb : readElems parseF (fuel - 1) body = some (js, rest)) :
    readElems parseF fuel (t ++ ',' :: body) = some (j :: js, rest) := by
  obtain ⟨f, rfl⟩ : ∃ f, fuel = f + 1 := ⟨fuel - 1, by omega⟩
  rw [readElems_succ, hg.2 f (',' :: body) (by omega) (by simp [NoNumHead, isNumChar])]
  simp at hb
  simp [hb]

/-- `[` … `]` around a non-empty element sequence that `readElems` reads -/
theorem good_arr_of_elems {t1 : List Char} {ts : List (List Char)} {j1 : Json} {js : List Json}
    (hg1 : Good parseF t1 j1)
    (h : ∀ fuel rest, (intercalate [','] (t1 :: ts)).length + 1 ≤ fuel →
      readElems parseF fuel (intercalate [','] (t1 :: ts) ++ ']' :: rest) = some (js, rest)) :
    Good parseF ('[' :: intercalate [','] (t1 :: ts) ++ [']']) (.arr js) := by
  refine ⟨by simp, fun fuel rest hf _ => ?_⟩
  obtain ⟨f, rfl⟩ : ∃ f, fuel = f + 1 := ⟨fuel - 1, by simp at hf; omega⟩
  have hh := h f rest (by simp at hf ⊢; omega)
  obtain ⟨d, t1', ht1⟩ : ∃ d t1', t1 = d :: t1' := by
    cases t1 with
    | nil => exact absurd rfl hg1.1
    | cons d t1' => exact ⟨d, t1', rfl⟩
  have hd : d ≠ ']' := good_head_ne hg1 d t1' ht1
  obtain ⟨b', hb'⟩ : ∃ b', intercalate [','] (t1 :: ts) = d :: b' := by
    cases ts with
    | nil => exact ⟨t1', by simp [intercalate, ht1]⟩
    | cons y r => exact ⟨t1' ++ [','] ++ intercalate [','] (y :: r), by
        rw [intercalate_cons_cons, ht1]; simp⟩
  have e : ('[' :: intercalate [','] (t1 :: ts) ++ [']']) ++ rest
      = '[' :: (intercalate [','] (t1 :: ts) ++ ']' :: rest) := by simp
  rw [e, readValue_succ_cons]
  rw [hb'] at hh ⊢
  simp only [List.cons_append] at hh ⊢
  simp [isNumChar, hd, hh]

theorem good_arr_nil : Good parseF ['[', ']'] (.arr []) := by
  refine ⟨by simp, fun fuel rest hf _ => ?_⟩
  obtain ⟨f, rfl⟩ := exists_succ_of_ne_nil (by simp) hf
  simp [readValue_succ_cons, isNumChar]

theorem good_obj_nil : Good parseF ['{', '}'] (.obj []) := by
  refine ⟨by simp, fun fuel rest hf _ => ?_⟩
  obtain ⟨f, rfl⟩ := exists_succ_of_ne_nil (by simp) hf
  simp [readValue_succ_cons, isNumChar]

theorem readMembers_last {k w : List Char} {j : Json} (hg : Good parseF w j) (fuel : Nat)
    (rest : List Char) (hf : (jsonString k ++ ':' :: w).length + 1 ≤ fuel) :
    readMembers parseF fuel ((jsonString k ++ ':' :: w) ++ '}' :: rest) = some ([(k, j)], rest) := by
  obtain ⟨f, rfl⟩ : ∃ f, fuel = f + 1 := ⟨fuel - 1, by omega⟩
  obtain ⟨t, ht, hr⟩ := readStr_jsonString k (':' :: w ++ '}' :: rest)
  have e : (jsonString k ++ ':' :: w) ++ '}' :: rest = jsonString k ++ (':' :: w ++ '}' :: rest) := by
    simp
  rw [e, ht, readMembers_succ_cons]
  have hv := hg.2 f ('}' :: rest) (by simp at hf; omega) (by simp [NoNumHead, isNumChar])
  simp [hr, hv]

theorem readMembers_more {k w : List Char} {j : Json} (hg : Good parseF w j) (fuel : Nat)
    (body rest : List Char) (ms : List (List Char × Json))
    (hf : (jsonString k ++ ':' :: w).length + 1 ≤ fuel)
    (hb : readMembers parseF (fuel - 1) body = some (ms, rest)) :
    readMembers parseF fuel ((jsonString k ++ ':' :: w) ++ ',' :: body) = some ((k, j) :: ms, rest) := by
  obtain ⟨f, rfl⟩ : ∃ f, fuel = f + 1 := ⟨fuel - 1, by omega⟩
  obtain ⟨t, ht, hr⟩ := readStr_jsonString k (':' :: w ++ ',' :: body)
  have e : (jsonString k ++ ':' :: w) ++ ',' :: body = jsonString k ++ (':' :: w ++ ',' :: body) := by
    simp
  rw [e, ht, readMembers_succ_cons]
  have hv := hg.2 f (',' :: body) (by simp at hf; omega) (by simp [NoNumHead, isNumChar])
  simp at hb
  simp [hr, hv, hb]

/-- `{` … `}` around a non-empty member sequence that `readMembers` reads -/
theorem good_obj_of_members {k w : List Char} {ts : List (List Char)}
    {ms : List (List Char × Json)}
    (h : ∀ fuel rest, (intercalate [','] ((jsonString k ++ ':' :: w) :: ts)).length + 1 ≤ fuel →
      readMembers parseF fuel (intercalate [','] ((jsonString k ++ ':' :: w) :: ts) ++ '}' :: rest)
        = some (ms, rest)) :
    Good parseF ('{' :: intercalate [','] ((jsonString k ++ ':' :: w) :: ts) ++ ['}']) (.obj ms) := by
  refine ⟨by simp, fun fuel rest hf _ => ?_⟩
  obtain ⟨f, rfl⟩ : ∃ f, fuel = f + 1 := ⟨fuel - 1, by simp at hf; omega⟩
  have hh := h f rest (by simp at hf ⊢; omega)
  obtain ⟨b', hb'⟩ : ∃ b', intercalate [','] ((jsonString k ++ ':' :: w) :: ts) = '"' :: b' := by
    cases ts with
    | nil => exact ⟨_, by simp [intercalate, jsonString]; rfl⟩
    | cons y r => exact ⟨_, by rw [intercalate_cons_cons]; simp [jsonString]; rfl⟩
  have e : ('{' :: intercalate [','] ((jsonString k ++ ':' :: w) :: ts) ++ ['}']) ++ rest
      = '{' :: (intercalate [','] ((jsonString k ++ ':' :: w) :: ts) ++ '}' :: rest) := by simp
  rw [e, readValue_succ_cons]
  rw [hb'] at hh ⊢
  simp only [List.cons_append] at hh ⊢
  simp [isNumChar, hh]

/-! ### bytes -/

theorem readElems_bytes (b : Nat) (bs : List Nat) : ∀ fuel rest,
    (intercalate [','] ((b :: bs).map natDigits)).length + 1 ≤ fuel →
    readElems parseF fuel (intercalate [','] ((b :: bs).map natDigits) ++ ']' :: rest)
      = some ((b :: bs).map fun (n : Nat) => Json.int (n : Int), rest) := by
  induction bs generalizing b with
  | nil =>
    intro fuel rest hf
    simp only [List.map, intercalate] at hf ⊢
    exact readElems_last (good_nat b) fuel rest hf
  | cons b2 bs ih =>
    intro fuel rest hf
    simp only [List.map_cons, intercalate_cons_cons] at hf ih ⊢
    have ih' := ih b2 (fuel - 1) rest (by
      have := List.length_pos_iff.mpr (natDigits_ne_nil b)
      simp at hf; omega)
    rw [List.append_assoc, List.append_assoc, List.singleton_append]
    exact readElems_more (good_nat b) fuel _ rest _ (by simp at hf; omega) ih'

theorem good_bytes (bs : List Nat) :
    Good parseF ('[' :: intercalate [','] (bs.map natDigits) ++ [']'])
      (.arr (bs.map fun (n : Nat) => Json.int (n : Int))) := by
  cases bs with
  | nil => exact good_arr_nil
  | cons b bs => exact good_arr_of_elems (good_nat b) (readElems_bytes b bs)

/-! ### every value -/

mutual
theorem good_value {fmtF : F64 → List Char} (h : FloatText fmtF parseF) :
    ∀ v : Value, Good parseF (jsonWrite fmtF v) (canon v)
  | .undef => by simpa [jsonWrite, canon] using good_null
  | .none => by simpa [jsonWrite, canon] using good_null
  | .bool b => by
    cases b
    · simpa [jsonWrite, canon] using good_false
    · simpa [jsonWrite, canon] using good_true
  | .u64 n => by simpa [jsonWrite, canon] using good_nat n
  | .i64 n => by simpa [jsonWrite, canon] using good_int n
  | .u128 n => by simpa [jsonWrite, canon] using good_nat n
  | .i128 n => by simpa [jsonWrite, canon] using good_int n
  | .f64 x => by
    cases hx : x.isFinite
    · simpa [jsonWrite, canon, hx] using good_null
    · simpa [jsonWrite, canon, hx] using good_float h x hx
  | .str _ s => by simpa [jsonWrite, canon] using good_str s
  | .bytes bs => by simpa [jsonWrite, canon] using good_bytes bs
  | .arr [] => by simpa [jsonWrite, jsonWriteList, intercalate, canon, canonList] using good_arr_nil
  | .arr (x :: xs) => by
    have := good_arr_of_elems (ts := jsonWriteList fmtF xs) (good_value h x)
      (by simpa [jsonWriteList, canonList] using good_elems h (x :: xs) (by simp))
    simpa [jsonWrite, jsonWriteList, canon, canonList] using this
  | .map [] => by
    simpa [jsonWrite, jsonWriteEntries, intercalate, canon, canonEntries] using good_obj_nil
  | .map ((k, v) :: es) => by
    have := good_obj_of_members (parseF := parseF) (k := jsonKeyText k) (w := jsonWrite fmtF v)
      (ts := jsonWriteEntries fmtF es)
      (by simpa [jsonWriteEntries, canonEntries] using good_members h ((k, v) :: es) (by simp))
    simpa [jsonWrite, jsonWriteEntries, canon, canonEntries] using this

theorem good_elems {fmtF : F64 → List Char} (h : FloatText fmtF parseF) :
    ∀ xs : List Value, xs ≠ [] → ∀ fuel rest,
      (intercalate [','] (jsonWriteList fmtF xs)).length + 1 ≤ fuel →
      readElems parseF fuel (intercalate [','] (jsonWriteList fmtF xs) ++ ']' :: rest)
        = some (canonList xs, rest)
  | [], hne => absurd rfl hne
  | [v], _ => by
    intro fuel rest hf
    simp only [jsonWriteList, intercalate, canonList] at hf ⊢
    exact readElems_last (good_value h v) fuel rest hf
  | v :: w :: more, _ => by
    intro fuel rest hf
    have hv := good_value h v
    have ih := good_elems h (w :: more) (by simp) (fuel - 1) rest
    simp only [jsonWriteList, intercalate_cons_cons, canonList] at hf ih ⊢
    have ih' := ih (by
      have := List.length_pos_iff.mpr hv.1
      simp at hf; omega)
    rw [List.append_assoc, List.append_assoc, List.singleton_append]
    exact readElems_more hv fuel _ rest _ (by simp at hf; omega) ih'

theorem good_members {fmtF : F64 → List Char} (h : FloatText fmtF parseF) :
    ∀ es : List (Key × Value), es ≠ [] → ∀ fuel rest,
      (intercalate [','] (jsonWriteEntries fmtF es)).length + 1 ≤ fuel →
      readMembers parseF fuel (intercalate [','] (jsonWriteEntries fmtF es) ++ '}' :: rest)
        = some (canonEntries es, rest)
  | [], hne => absurd rfl hne
  | [(k, v)], _ => by
    intro fuel rest hf
    simp only [jsonWriteEntries, intercalate, canonEntries] at hf ⊢
    exact readMembers_last (good_value h v) fuel rest hf
  | (k, v) :: e2 :: more, _ => by
    intro fuel rest hf
    have hv := good_value h v
    have ih := good_members h (e2 :: more) (by simp) (fuel - 1) rest
    obtain ⟨k2, v2⟩ := e2
    simp only [jsonWriteEntries, intercalate_cons_cons, canonEntries] at hf ih ⊢
    have ih' := ih (by simp at hf; omega)
    rw [List.append_assoc, List.append_assoc, List.singleton_append]
    exact readMembers_more hv fuel _ rest _
      (by simp only [List.length_append, List.length_cons] at hf ⊢; omega) ih'
end

/-! ### the `FloatText` assumptions are satisfiable -/

theorem takeWhile_append_stop {p : Char → Bool} (tok : List Char) (c : Char) (rest : List Char)
    (htok : ∀ d ∈ tok, p d = true) (hc : p c = false) :
    (tok ++ c :: rest).takeWhile p = tok := by
  induction tok with
  | nil => simp [hc]
  | cons d t ih =>
    have hd := htok d (by simp)
    have := ih (fun x hx => htok x (by simp [hx]))
    simp [hd, this]

theorem dropWhile_append_stop {p : Char → Bool} (tok : List Char) (c : Char) (rest : List Char)
    (htok : ∀ d ∈ tok, p d = true) (hc : p c = false) :
    (tok ++ c :: rest).dropWhile p = c :: rest := by
  induction tok with
  | nil => simp [hc]
  | cons d t ih =>
    have hd := htok d (by simp)
    have := ih (fun x hx => htok x (by simp [hx]))
    simp [hd, this]

/-- a toy float printer: sign, decimal mantissa, `e`, decimal binary exponent -/
def toyFmtF : F64 → List Char
  | .fin neg m e => (if neg then '-' else '+') :: (natDigits m ++ 'e' :: intDigits e)
  | _ => []

/-- the matching toy reader -/
def toyParseF : List Char → Option F64
  | [] => none
  | s :: body =>
    match body.dropWhile Char.isDigit with
    | [] => none
    | _ :: ed =>
      match readNat (body.takeWhile Char.isDigit), readInt ed with
      | some m, some e => some (.fin (s == '-') m e)
      | _, _ => none

theorem toy_floatText : FloatText toyFmtF toyParseF where
  numChars := by
    intro x hx c hc
    cases x with
    | nan => cases hx
    | inf _ => cases hx
    | fin neg m e =>
      simp only [toyFmtF, List.mem_cons, List.mem_append] at hc
      rcases hc with rfl | hc | rfl | hc
      · cases neg <;> decide
      · exact isNumChar_of_isDigit (natDigits_isDigit m c hc)
      · decide
      · exact intDigits_numChar e c hc
  nonempty := by
    intro x hx
    cases x with
    | nan => cases hx
    | inf _ => cases hx
    | fin neg m e => simp [toyFmtF]
  notInt := by
    intro x hx
    cases x with
    | nan => cases hx
    | inf _ => cases hx
    | fin neg m e => exact ⟨'e', by simp [toyFmtF], .inr (.inl rfl)⟩
  readBack := by
    intro x hx
    cases x with
    | nan => cases hx
    | inf _ => cases hx
    | fin neg m e =>
      have h1 := takeWhile_append_stop (p := Char.isDigit) (natDigits m) 'e' (intDigits e)
        (natDigits_isDigit m) (by decide)
      have h2 := dropWhile_append_stop (p := Char.isDigit) (natDigits m) 'e' (intDigits e)
        (natDigits_isDigit m) (by decide)
      simp only [toyFmtF, toyParseF, h1, h2, readNat_natDigits, readInt_intDigits]
      cases neg <;> simp

/-! ### the fuel of the reader is never the reason for a rejection -/

theorem readStr_length : ∀ (n : Nat) (cs s r : List Char), cs.length ≤ n →
    readStr cs = some (s, r) → r.length < cs.length := by
  intro n
  induction n with
  | zero =>
    intro cs s r hn h
    have : cs = [] := List.length_eq_zero_iff.mp (by omega)
    subst this
    simp [readStr] at h
  | succ n ih =>
    intro cs s r hn h
    cases cs with
    | nil => simp [readStr] at h
    | cons c cs =>
      rw [readStr_cons] at h
      split at h
      · simp at h; simp [← h.2]
      split at h
      · split at h
        · cases h
        · next e cs1 =>
          split at h
          · split at h
            · next h1 h2 h3 h4 cs2 =>
              split at h
              · cases h
              · split at h
                · cases h
                · next s' r' hr =>
                  have := ih cs2 s' r' (by simp at hn; omega) hr
                  simp at h
                  simp [← h.2]; omega
            · cases h
          · split at h
            · cases h
            · split at h
              · cases h
              · next s' r' hr =>
                have := ih cs1 s' r' (by simp at hn; omega) hr
                simp at h
                simp [← h.2]; omega
      split at h
      · cases h
      · split at h
        · cases h
        · next s' r' hr =>
          have := ih cs s' r' (by simp at hn; omega) hr
          simp at h
          simp [← h.2]; omega

theorem dropPrefix_length : ∀ (p cs r : List Char), dropPrefix p cs = some r → r.length ≤ cs.length
  | [], cs, r, h => by simp [dropPrefix] at h; simp [h]
  | _ :: _, [], r, h => by simp [dropPrefix] at h
  | p :: ps, c :: cs, r, h => by
    simp only [dropPrefix] at h
    split at h
    · have := dropPrefix_length ps cs r h
      simp; omega
    · cases h

/-- a successful read with fuel `f` consumes at least one character and succeeds with the same
result for every fuel of at least the number of characters consumed -/
def FuelOK {α : Type} (rd : Nat → List Char → Option (α × List Char)) (f : Nat) : Prop :=
  ∀ cs a r, rd f cs = some (a, r) →
    r.length < cs.length ∧ ∀ f', cs.length - r.length ≤ f' → rd f' cs = some (a, r)

variable {parseF : List Char → Option F64}

theorem dropWhile_length_le (p : Char → Bool) (l : List Char) : (l.dropWhile p).length ≤ l.length := by
  induction l with
  | nil => simp
  | cons c t ih =>
    simp only [List.dropWhile_cons]
    split <;> simp <;> omega

theorem fuelOK_value_succ (f : Nat) (he : FuelOK (readElems parseF) f)
    (hm : FuelOK (readMembers parseF) f) : FuelOK (readValue parseF) (f + 1) := by
  intro cs a r h
  cases cs with
  | nil => simp [readValue] at h
  | cons c rest =>
    -- results that do not depend on the fuel
    have indep : r.length < (c :: rest).length →
        (∀ g, readValue parseF (g + 1) (c :: rest) = readValue parseF (f + 1) (c :: rest)) →
        r.length < (c :: rest).length ∧
          ∀ f', (c :: rest).length - r.length ≤ f' → readValue parseF f' (c :: rest) = some (a, r) := by
      intro hl hg
      refine ⟨hl, fun f' hf' => ?_⟩
      obtain ⟨g, rfl⟩ : ∃ g, f' = g + 1 := ⟨f' - 1, by omega⟩
      rw [hg g, h]
    rw [readValue_succ_cons] at h
    split at h
    · next hc =>
      apply indep
      · split at h
        · simp at h
          rw [← h.2, List.dropWhile_cons, if_pos hc]
          have := dropWhile_length_le isNumChar rest
          simp; omega
        · cases h
      · intro g; simp [readValue_succ_cons, hc]
    split at h
    · next _ hc =>
      subst hc
      apply indep
      · split at h
        · next s r' hr =>
          have := readStr_length _ _ _ _ (Nat.le_refl _) hr
          simp at h
          obtain ⟨_, rfl⟩ := h
          simp only [List.length_cons]; omega
        · cases h
      · intro g; simp [readValue_succ_cons, isNumChar]
    split at h
    · next _ _ hc =>
      subst hc
      split at h
      · cases h
      · next d r0 =>
        split at h
        · next hd =>
          apply indep
          · simp at h
            obtain ⟨_, rfl⟩ := h
            simp only [List.length_cons]; omega
          · intro g; simp [readValue_succ_cons, isNumChar, hd]
        · next hd =>
          split at h
          · next js r' hr =>
            simp at h
            obtain ⟨rfl, rfl⟩ := h
            obtain ⟨hl, hf⟩ := he _ _ _ hr
            refine ⟨by simp at hl ⊢; omega, fun f' hf' => ?_⟩
            obtain ⟨g, rfl⟩ : ∃ g, f' = g + 1 := ⟨f' - 1, by simp at hl hf'; omega⟩
            rw [readValue_succ_cons]
            simp [isNumChar, hd, hf g (by simp at hl hf' ⊢; omega)]
          · cases h
    split at h
    · next _ _ _ hc =>
      subst hc
      split at h
      · cases h
      · next d r0 =>
        split at h
        · next hd =>
          apply indep
          · simp at h
            obtain ⟨_, rfl⟩ := h
            simp only [List.length_cons]; omega
          · intro g; simp [readValue_succ_cons, isNumChar, hd]
        · next hd =>
          split at h
          · next ms r' hr =>
            simp at h
            obtain ⟨rfl, rfl⟩ := h
            obtain ⟨hl, hf⟩ := hm _ _ _ hr
            refine ⟨by simp at hl ⊢; omega, fun f' hf' => ?_⟩
            obtain ⟨g, rfl⟩ : ∃ g, f' = g + 1 := ⟨f' - 1, by simp at hl hf'; omega⟩
            rw [readValue_succ_cons]
            simp [isNumChar, hd, hf g (by simp at hl hf' ⊢; omega)]
          · cases h
    split at h
    · next _ _ _ _ hc =>
      subst hc
      apply indep
      · split at h
        · next r' hr =>
          have := dropPrefix_length _ _ _ hr
          simp at h
          obtain ⟨_, rfl⟩ := h
          simp only [List.length_cons]; omega
        · cases h
      · intro g; simp [readValue_succ_cons, isNumChar]
    split at h
    · next _ _ _ _ _ hc =>
      subst hc
      apply indep
      · split at h
        · next r' hr =>
          have := dropPrefix_length _ _ _ hr
          simp at h
          obtain ⟨_, rfl⟩ := h
          simp only [List.length_cons]; omega
        · cases h
      · intro g; simp [readValue_succ_cons, isNumChar]
    split at h
    · next _ _ _ _ _ _ hc =>
      subst hc
      apply indep
      · split at h
        · next r' hr =>
          have := dropPrefix_length _ _ _ hr
          simp at h
          obtain ⟨_, rfl⟩ := h
          simp only [List.length_cons]; omega
        · cases h
      · intro g; simp [readValue_succ_cons, isNumChar]
    · cases h

theorem fuelOK_elems_succ (f : Nat) (hv : FuelOK (readValue parseF) f)
    (he : FuelOK (readElems parseF) f) : FuelOK (readElems parseF) (f + 1) := by
  intro cs a r h
  rw [readElems_succ] at h
  split at h
  · cases h
  · next j r0 hr0 =>
    obtain ⟨hl0, hf0⟩ := hv _ _ _ hr0
    split at h
    · cases h
    · next d r1 =>
      simp only [List.length_cons] at hl0 hf0
      split at h
      · next hd =>
        split at h
        · next js r2 hr2 =>
          simp at h
          obtain ⟨rfl, rfl⟩ := h
          obtain ⟨hl2, hf2⟩ := he _ _ _ hr2
          refine ⟨by omega, fun f' hf' => ?_⟩
          obtain ⟨g, rfl⟩ : ∃ g, f' = g + 1 := ⟨f' - 1, by omega⟩
          rw [readElems_succ, hf0 g (by omega)]
          simp [hd, hf2 g (by omega)]
        · cases h
      · next hd =>
        split at h
        · next hd2 =>
          simp at h
          obtain ⟨rfl, rfl⟩ := h
          refine ⟨by omega, fun f' hf' => ?_⟩
          obtain ⟨g, rfl⟩ : ∃ g, f' = g + 1 := ⟨f' - 1, by omega⟩
          rw [readElems_succ, hf0 g (by omega)]
          simp [hd2]
        · cases h

theorem fuelOK_members_succ (f : Nat) (hv : FuelOK (readValue parseF) f)
    (hm : FuelOK (readMembers parseF) f) : FuelOK (readMembers parseF) (f + 1) := by
  intro cs a r h
  cases cs with
  | nil => simp [readMembers] at h
  | cons q cs1 =>
    rw [readMembers_succ_cons] at h
    split at h
    · next hq =>
      split at h
      · cases h
      · next k cs2 hk =>
        have hlk := readStr_length _ _ _ _ (Nat.le_refl _) hk
        split at h
        · cases h
        · next col cs3 =>
          simp only [List.length_cons] at hlk
          split at h
          · next hcol =>
            split at h
            · cases h
            · next j r0 hr0 =>
              obtain ⟨hl0, hf0⟩ := hv _ _ _ hr0
              split at h
              · cases h
              · next d r1 =>
                simp only [List.length_cons] at hl0 hf0
                split at h
                · next hd =>
                  split at h
                  · next ms r2 hr2 =>
                    simp at h
                    obtain ⟨rfl, rfl⟩ := h
                    obtain ⟨hl2, hf2⟩ := hm _ _ _ hr2
                    refine ⟨by simp only [List.length_cons]; omega, fun f' hf' => ?_⟩
                    simp only [List.length_cons] at hf'
                    obtain ⟨g, rfl⟩ : ∃ g, f' = g + 1 := ⟨f' - 1, by omega⟩
                    rw [readMembers_succ_cons]
                    simp [hq, hk, hcol, hf0 g (by omega), hd, hf2 g (by omega)]
                  · cases h
                · next hd =>
                  split at h
                  · next hd2 =>
                    simp at h
                    obtain ⟨rfl, rfl⟩ := h
                    refine ⟨by simp only [List.length_cons]; omega, fun f' hf' => ?_⟩
                    simp only [List.length_cons] at hf'
                    obtain ⟨g, rfl⟩ : ∃ g, f' = g + 1 := ⟨f' - 1, by omega⟩
                    rw [readMembers_succ_cons]
                    simp [hq, hk, hcol, hf0 g (by omega), hd2]
                  · cases h
          · cases h
    · cases h

theorem fuelOK_all (parseF : List Char → Option F64) : ∀ f,
    FuelOK (readValue parseF) f ∧ FuelOK (readElems parseF) f ∧ FuelOK (readMembers parseF) f
  | 0 => ⟨fun _ _ _ h => by simp [readValue] at h, fun _ _ _ h => by simp [readElems] at h,
      fun _ _ _ h => by simp [readMembers] at h⟩
  | f + 1 =>
    have ⟨hv, he, hm⟩ := fuelOK_all parseF f
    ⟨fuelOK_value_succ f he hm, fuelOK_elems_succ f hv he, fuelOK_members_succ f hv hm⟩

/-- if any fuel lets the descent accept the whole text, the fuel `jsonRead` picks does too -/
theorem jsonRead_of_readValue {text : List Char} {j : Json} {fuel : Nat}
    (h : readValue parseF fuel text = some (j, [])) : jsonRead parseF text = some j := by
  have := ((fuelOK_all parseF fuel).1 _ _ _ h).2 (text.length + 1) (by simp)
  simp [jsonRead, this]

theorem readValue_of_jsonRead {text : List Char} {j : Json}
    (h : jsonRead parseF text = some j) :
    readValue parseF (text.length + 1) text = some (j, []) := by
  unfold jsonRead at h
  split at h
  · next j' hj => simp at h; rw [← h]; exact hj
  · cases h

end Tera.Contrib
