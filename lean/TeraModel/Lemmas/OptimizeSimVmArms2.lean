/-
Helper lemmas for C09Vm, continued: the spread-building arms, filters and tests, the loop arms
(`end_ip` is renamed), the fused path instructions kept as they are, and the arms that call
`interpret` again (under an assumption on the nested interpreter).
-/
import TeraModel.Lemmas.OptimizeSimVmArms
set_option linter.unusedSectionVars false
set_option linter.unusedSimpArgs false
namespace Tera
namespace OptimizeSimVm
open Tera.Vm

section spreads
variable {E : RErr → RErr → Prop} {π : PMap} {c c' : Chunk} {f : Nat → Nat} {P : Nat → Nat → Prop}

/-- results of the two spread loops, related -/
def SumRel (E : RErr → RErr → Prop) (π : PMap) (c c' : Chunk) (f : Nat → Nat) (P : Nat → Nat → Prop) {α : Type} :
    StepRes ⊕ (α × List Slot) → StepRes ⊕ (α × List Slot) → Prop
  | .inl r, .inl r' => StepRelG E π c c' f P r r'
  | .inr (a, rest), .inr (a', rest') => a' = a ∧ rest' = rest.map (mapSlot f) ∧ GoodStack c c' f rest
  | _, _ => False

theorem popSpreadMap_rel (hE : ∀ e, E e e) (hR : Ren c c' f) (env : Env) (vm : VmCtx) :
    ∀ (fs : List Bool) (stk : List Slot) (acc : Entries), GoodStack c c' f stk →
      SumRel E π c c' f P (popSpreadMap env vm c fs stk acc)
        (popSpreadMap env vm c' fs (stk.map (mapSlot f)) acc)
  | [], stk, acc, h => by simp only [popSpreadMap]; exact ⟨rfl, rfl, h⟩
  | true :: fs, [], acc, _ => by simp only [popSpreadMap, List.map_nil, SumRel]; exact rel_panic _ _
  | true :: fs, (v, span) :: rest, acc, h => by
    simp only [popSpreadMap, List.map_cons, mapSlot]
    split
    · exact popSpreadMap_rel hE hR env vm fs rest _ (goodStack_tail h)
    · exact rel_renderingError hE hR env vm v span _ (goodStack_head h)
  | false :: fs, [], acc, _ => by simp only [popSpreadMap, List.map_nil, SumRel]; exact rel_panic _ _
  | false :: fs, [_], acc, _ => by simp only [popSpreadMap, List.map_cons, List.map_nil, SumRel]; exact rel_panic _ _
  | false :: fs, (v, _) :: (k, _) :: rest, acc, h => by
    simp only [popSpreadMap, List.map_cons, mapSlot]
    split
    · exact hE _
    · exact popSpreadMap_rel hE hR env vm fs rest _ (goodStack_tail (goodStack_tail h))

theorem popSpreadList_rel (hE : ∀ e, E e e) (hR : Ren c c' f) (env : Env) (vm : VmCtx) :
    ∀ (fs : List Bool) (stk : List Slot) (acc : List Value), GoodStack c c' f stk →
      SumRel E π c c' f P (popSpreadList env vm c fs stk acc)
        (popSpreadList env vm c' fs (stk.map (mapSlot f)) acc)
  | [], stk, acc, h => by simp only [popSpreadList]; exact ⟨rfl, rfl, h⟩
  | fl :: fs, [], acc, _ => by simp only [popSpreadList, List.map_nil, SumRel]; exact rel_panic _ _
  | fl :: fs, (v, span) :: rest, acc, h => by
    simp only [popSpreadList, List.map_cons, mapSlot]
    split
    · split
      · exact popSpreadList_rel hE hR env vm fs rest _ (goodStack_tail h)
      · exact rel_renderingError hE hR env vm v span _ (goodStack_head h)
    · exact popSpreadList_rel hE hR env vm fs rest _ (goodStack_tail h)

theorem iterate_map (l : ForLoop) (t : Nat) (hl : l.endIp = 0 ↔ f l.endIp = 0) :
    (mapLoop f l).iterate (f t) = (l.iterate t).map (mapLoop f) := by
  unfold ForLoop.iterate
  simp only [mapLoop_isOver]
  by_cases ho : l.isOver = true
  · simp [ho]
  · simp only [ho, Bool.false_eq_true, ↓reduceIte, Option.map_some, Option.some.injEq]
    unfold ForLoop.advance
    cases hrem : l.remaining with
    | nil => simp [mapLoop, hrem]
    | cons item rest =>
      simp only [mapLoop, hrem]
      by_cases h0 : l.endIp = 0
      · have h0' : f l.endIp = 0 := hl.mp h0
        have hf0 : f 0 = 0 := by rw [h0] at h0'; exact h0'
        simp [h0, hf0]
      · have h0' : f l.endIp ≠ 0 := fun h => h0 (hl.mpr h)
        simp [h0, h0']

end spreads

section arms
variable {E : RErr → RErr → Prop} {π : PMap} (hE : ∀ e, E e e)
  {c c' : Chunk} {f : Nat → Nat} {P : Nat → Nat → Prop} (hR : Ren c c' f)
  {pc k : Nat} (hpc : Good c c' f pc) (hk : f pc = k) (hnext : P (pc + 1) (k + 1))
  (env : Env) (vm : VmCtx) {st : State} (hst : GoodState c c' f P st)
include hE hR hpc hk hnext hst

local macro "nx " stk:term " , " h:term : tactic =>
  `(tactic| (have hnx := rel_next_stack (E := E) (π := π) (c := c) (c' := c') hnext hst $stk $h
             simpa [mapSlot, mapSpan, hk] using hnx))

theorem arm_buildMapWithSpreads (flags : List Bool) :
    StepRelG E π c c' f P (stepBuildMapWithSpreads env vm c flags pc st)
      (stepBuildMapWithSpreads env vm c' flags k (mapStateP f π st)) := by
  unfold stepBuildMapWithSpreads
  simp only [mapState_stack]
  have h := popSpreadMap_rel (P := P) (π := π) hE hR env vm flags.reverse st.stack [] hst.1
  revert h
  cases popSpreadMap env vm c flags.reverse st.stack [] with
  | inl r =>
    cases popSpreadMap env vm c' flags.reverse (st.stack.map (mapSlot f)) [] with
    | inl r' => intro h; exact h
    | inr x => intro h; exact h.elim
  | inr x =>
    obtain ⟨m, rest⟩ := x
    cases popSpreadMap env vm c' flags.reverse (st.stack.map (mapSlot f)) [] with
    | inl r' => intro h; exact h.elim
    | inr x' =>
      obtain ⟨m', rest'⟩ := x'
      intro h
      obtain ⟨rfl, rfl, hg⟩ := h
      simp only
      nx ((Value.map m', (pc, pc)) :: rest) , (goodStack_cons (goodSlot_own hpc _) hg)

theorem arm_buildListWithSpreads (flags : List Bool) :
    StepRelG E π c c' f P (stepBuildListWithSpreads env vm c flags pc st)
      (stepBuildListWithSpreads env vm c' flags k (mapStateP f π st)) := by
  unfold stepBuildListWithSpreads
  simp only [mapState_stack]
  have h := popSpreadList_rel (P := P) (π := π) hE hR env vm flags.reverse st.stack [] hst.1
  revert h
  cases popSpreadList env vm c flags.reverse st.stack [] with
  | inl r =>
    cases popSpreadList env vm c' flags.reverse (st.stack.map (mapSlot f)) [] with
    | inl r' => intro h; exact h
    | inr x => intro h; exact h.elim
  | inr x =>
    obtain ⟨m, rest⟩ := x
    cases popSpreadList env vm c' flags.reverse (st.stack.map (mapSlot f)) [] with
    | inl r' => intro h; exact h.elim
    | inr x' =>
      obtain ⟨m', rest'⟩ := x'
      intro h
      obtain ⟨rfl, rfl, hg⟩ := h
      simp only
      nx ((Value.arr m', (pc, pc)) :: rest) , (goodStack_cons (goodSlot_own hpc _) hg)

theorem arm_filterOrTest (isTest : Bool) (name : String) :
    StepRelG E π c c' f P (stepFilterOrTest env vm c isTest name pc st)
      (stepFilterOrTest env vm c' isTest name k (mapStateP f π st)) := by
  unfold stepFilterOrTest
  cases isTest
  all_goals
    simp only [Bool.false_eq_true, ↓reduceIte]
    split
    · exact rel_panic _ _
    · simp only [mapState_stack]
      cases hs : st.stack with
      | nil => exact rel_panic _ _
      | cons s1 r1 =>
        cases r1 with
        | nil => exact rel_panic _ _
        | cons s2 rest =>
          obtain ⟨kw, kwSpan⟩ := s1
          obtain ⟨value, valueSpan⟩ := s2
          have hgs : GoodStack c c' f ((kw, kwSpan) :: (value, valueSpan) :: rest) := hs ▸ hst.1
          have hv := goodStack_head (goodStack_tail hgs)
          have hr := goodStack_tail (goodStack_tail hgs)
          simp only [List.map_cons, mapSlot]
          split
          · split
            · rename_i v _
              refine ⟨hnext, ?_, goodStack_cons (goodSlot_own hpc _) hr, hst.2⟩
              simp [mapStateP, mapSlot, mapSpan, hk]
            · exact rel_renderingError hE hR env vm value _ _ hv
            · simpa [mapSpan, hk] using
                rel_renderingError (P := P) hE hR env vm value (pc, pc) .call (goodSlot_own hpc value)
            · exact rel_panic _ _
            · exact rel_unmodelled _ _
          · exact rel_panic _ _

/-! ### loops -/

theorem arm_startIterate (hf0 : f 0 = 0) (hP0 : P 0 0) (kv compr : Bool) :
    StepRelG E π c c' f P (stepStartIterate env vm c kv compr pc st)
      (stepStartIterate env vm c' kv compr k (mapStateP f π st)) := by
  unfold stepStartIterate
  simp only [mapState_stack]
  cases hs : st.stack with
  | nil => exact rel_panic _ _
  | cons s1 rest =>
    obtain ⟨a, aSpan⟩ := s1
    have hgs : GoodStack c c' f ((a, aSpan) :: rest) := hs ▸ hst.1
    have ha := goodStack_head hgs
    have hr := goodStack_tail hgs
    simp only [List.map_cons, mapSlot]
    split
    · exact rel_renderingError hE hR env vm a _ _ ha
    · split
      · exact rel_renderingError hE hR env vm a _ _ ha
      · split
        · exact rel_panic _ _
        · rename_i items _
          refine ⟨hnext, ?_, hr, ?_⟩
          · have : mapLoop f (ForLoop.new items compr) = ForLoop.new items compr := by
              simp [mapLoop, ForLoop.new, hf0]
            simp only [mapStateP, mapState_scope]
            rw [← mapScope_pushLoop, this]
          · intro l hl
            cases hsc : st.scope with
            | mk loops sv p ctx g =>
              simp only [hsc, Scope.pushLoop, Scope.forLoops, List.mem_cons] at hl
              rcases hl with rfl | hl
              · exact ⟨by simpa [ForLoop.new, hf0] using hP0, by simp [ForLoop.new, hf0]⟩
              · exact hst.2 l (by rw [hsc]; exact hl)

theorem goodLoops_setTop {l0 l' : ForLoop} {rest : List ForLoop}
    (hl : st.scope.forLoops = l0 :: rest) (hg : GoodLoop f P l') :
    ∀ l ∈ (st.scope.setTopLoop l').forLoops, GoodLoop f P l := by
  intro l hm
  cases hsc : st.scope with
  | mk loops sv p ctx g =>
    rw [hsc] at hl hm
    simp only [Scope.forLoops] at hl
    subst hl
    simp only [Scope.setTopLoop, Scope.forLoops, List.mem_cons] at hm
    rcases hm with rfl | hm
    · exact hg
    · exact hst.2 l (by rw [hsc]; exact List.mem_cons_of_mem _ hm)

theorem arm_storeLocal (n : String) :
    StepRelG E π c c' f P (stepStoreLocal n pc st) (stepStoreLocal n k (mapStateP f π st)) := by
  unfold stepStoreLocal
  simp only [mapState_scope, mapScope_forLoops]
  cases hl : st.scope.forLoops with
  | nil => exact ⟨hnext, rfl, hst⟩
  | cons l rest =>
    have hgl : GoodLoop f P l := hst.2 l (by rw [hl]; simp)
    simp only [List.map_cons, mapLoop_storeLocalName, mapScope_setTopLoop]
    refine ⟨hnext, by simp [mapStateP], hst.1, ?_⟩
    apply goodLoops_setTop hE hR hpc hk hnext hst hl
    unfold ForLoop.storeLocalName
    split <;> exact hgl

theorem arm_iterate (t : Nat) (ht : P t (f t)) (ht0 : t = 0 ↔ f t = 0) :
    StepRelG E π c c' f P (stepIterate t pc st) (stepIterate (f t) k (mapStateP f π st)) := by
  unfold stepIterate
  simp only [mapState_scope, mapScope_forLoops]
  cases hl : st.scope.forLoops with
  | nil => exact ⟨hnext, rfl, hst⟩
  | cons l rest =>
    have hgl : GoodLoop f P l := hst.2 l (by rw [hl]; simp)
    simp only [List.map_cons, iterate_map l t hgl.2]
    cases hit : l.iterate t with
    | none => exact ⟨ht, rfl, hst⟩
    | some l' =>
      simp only [Option.map_some, mapScope_setTopLoop]
      refine ⟨hnext, by simp [mapStateP], hst.1, ?_⟩
      apply goodLoops_setTop hE hR hpc hk hnext hst hl
      unfold ForLoop.iterate at hit
      split at hit
      · cases hit
      · cases hit
        exact ⟨ht, ht0⟩

theorem arm_storeDidNotIterate :
    StepRelG E π c c' f P (stepStoreDidNotIterate pc st) (stepStoreDidNotIterate k (mapStateP f π st)) := by
  unfold stepStoreDidNotIterate
  simp only [mapState_scope, mapScope_forLoops]
  cases hl : st.scope.forLoops with
  | nil => exact ⟨hnext, rfl, hst⟩
  | cons l rest =>
    simp only [List.map_cons, mapLoop_iterated, State.push]
    nx ((Value.bool (!l.iterated), (pc, pc)) :: st.stack) , (goodStack_cons (goodSlot_own hpc _) hst.1)

theorem arm_break :
    StepRelG E π c c' f P (stepBreak pc st) (stepBreak k (mapStateP f π st)) := by
  unfold stepBreak
  simp only [mapState_scope, mapScope_forLoops]
  cases hl : st.scope.forLoops with
  | nil => exact ⟨hnext, rfl, hst⟩
  | cons l rest =>
    have hgl : GoodLoop f P l := hst.2 l (by rw [hl]; simp)
    exact ⟨hgl.1, rfl, hst⟩

theorem arm_popLoop :
    StepRelG E π c c' f P (.next (pc + 1) { st with scope := st.scope.popLoop })
      (.next (k + 1) { (mapStateP f π st) with scope := (mapStateP f π st).scope.popLoop }) := by
  refine ⟨hnext, by simp [mapStateP], hst.1, ?_⟩
  intro l hl
  cases hsc : st.scope with
  | mk loops sv p ctx g =>
    simp only [hsc, Scope.popLoop, Scope.forLoops] at hl
    exact hst.2 l (by rw [hsc]; exact List.mem_of_mem_tail hl)

end arms

end OptimizeSimVm
end Tera
