/-
Value-level T1, last step: the table of a whole compiled chunk passes `Vm.verify` on the typed form
of the chunk the VM model executes (`Pipeline.vinstr`, spans `Pipeline.spansOf`).
-/
import TeraModel.Lemmas.CompilerVWFMain
import TeraModel.Lemmas.CompilerOpOf
namespace Tera.Compiler.V
open Tera Tera.Compiler Tera.Vm

/-- `vi` is `Pipeline.vinstr` on every instruction the compiler emits -/
theorem vinstr_vi (i : CInstr) (h : ValidI i) : Pipeline.vinstr i = some (vi i) := by
  cases i
  case binop op =>
    simp only [ValidI] at h
    cases op <;> simp_all [Pipeline.vinstr, vi]
  all_goals rfl

/-- the typed form of a compiled chunk -/
def tcodeOf (c : Code) : List VEntry := c.map fun e => (vi e.1, Pipeline.spansOf e.2)

theorem mapM_vinstr : ∀ (c : Code), AllC ValidE c →
    c.mapM (fun e => (Pipeline.vinstr e.1).map (·, Pipeline.spansOf e.2)) = some (tcodeOf c)
  | [], _ => rfl
  | e :: rest, h => by
    have h1 : ValidE e := h e (by simp)
    have h2 : AllC ValidE rest := fun y hy => h y (by simp [hy])
    have ih := mapM_vinstr rest h2
    simp only [List.mapM_cons, vinstr_vi e.1 h1, Option.map_some, Option.bind_eq_bind, Option.bind_some,
      ih, Option.pure_def, tcodeOf, List.map_cons]

theorem leTags_nil_right : ∀ l : List Tag, leTags l [] = true → l = []
  | [], _ => rfl
  | _ :: _, h => by simp [leTags] at h
theorem leLoops_nil_right : ∀ l : List (Option Nat), Vm.leLoops l [] = true → l = []
  | [], _ => rfl
  | _ :: _, h => by simp [Vm.leLoops] at h

theorem ASt.le_empty (a : ASt) (h : a.le ASt.empty = true) : a = ASt.empty := by
  obtain ⟨st, ls, k⟩ := a
  simp only [ASt.le, ASt.empty, Bool.and_eq_true, beq_iff_eq] at h
  obtain ⟨⟨h1, h2⟩, h3⟩ := h
  simp only [ASt.empty, ASt.mk.injEq]
  exact ⟨leTags_nil_right _ h1, leLoops_nil_right _ h3, h2⟩

theorem covered_of_cov (tab : List ASt) (n : Nat) (hn : tab.length = n) (x : Nat × ASt)
    (h : Cov (tab ++ [ASt.empty]) x) : covered (tab.map some) n x = true := by
  obtain ⟨b, hb, hle⟩ := h
  unfold covered
  by_cases hlt : x.1 < n
  · rw [if_pos hlt]
    have hlt' : x.1 < tab.length := by omega
    rw [List.getElem?_append_left hlt'] at hb
    have : (tab.map some)[x.1]? = some (some b) := by
      rw [List.getElem?_map, hb]; rfl
    rw [this]; exact hle
  · rw [if_neg hlt]
    have hlt2 := (List.getElem?_eq_some_iff.mp hb).1
    simp only [List.length_append, List.length_cons, List.length_nil] at hlt2
    have hpc : x.1 = tab.length := by omega
    rw [hpc] at hb
    simp only [List.getElem?_append_right (Nat.le_refl _), Nat.sub_self, List.getElem?_cons_zero,
      Option.some.injEq] at hb
    subst hb
    have := ASt.le_empty x.2 hle
    simp [hpc, hn, this]

theorem spansOf_own (b : Bool) : (!(Pipeline.spansOf b).isEmpty) = b := by
  cases b <;> rfl
theorem spansOf_len (b : Bool) : (Pipeline.spansOf b).length = if b then 1 else 0 := by
  cases b <;> rfl

/-- a typed chunk whose table passes the local check everywhere passes `Vm.verify` -/
theorem vverify_of_okr (code : Code) (tab : List ASt) (hlen : tab.length = code.length)
    (h0 : (tab ++ [ASt.empty])[0]? = some ASt.empty)
    (hok : OKr code (tab ++ [ASt.empty]) 0 code.length) :
    Vm.verify (tcodeOf code) (tab.map some) = true := by
  have hclen : (tcodeOf code).length = code.length := by simp [tcodeOf]
  simp only [Vm.verify, Bool.and_eq_true, List.all_eq_true, List.mem_range, hclen]
  refine ⟨covered_of_cov tab _ hlen (0, ASt.empty) ⟨ASt.empty, h0, ASt.le_refl _⟩, ?_⟩
  intro pc hpc
  have hpc' : pc < tab.length := by omega
  have hce : code[pc]? = some code[pc] := List.getElem?_eq_getElem hpc
  have hte : (tab ++ [ASt.empty])[pc]? = some tab[pc] := by
    rw [List.getElem?_append_left hpc']; exact List.getElem?_eq_getElem hpc'
  have hl := hok pc hpc
  rw [Nat.zero_add] at hl
  obtain ⟨succs, hstep, hall⟩ := hl _ _ hce hte
  have h1 : (tab.map some)[pc]? = some (some tab[pc]) := by
    rw [List.getElem?_map, List.getElem?_eq_getElem hpc']; rfl
  have h2 : (tcodeOf code)[pc]? = some (vi (code[pc]).1, Pipeline.spansOf (code[pc]).2) := by
    simp only [tcodeOf, List.getElem?_map, hce, Option.map_some]
  simp only [astepC] at hstep
  simp only [Vm.verifyAt, h1, h2, spansOf_own, spansOf_len, hstep, List.all_eq_true, hclen]
  intro x hx
  exact covered_of_cov tab _ hlen x (hall x hx)

/-- the certificate of a whole compiled chunk passes `Vm.verify` -/
theorem nodes_vverify (ns : List Node) (hsc : nodesScoped false ns = true) :
    Vm.verify (tcodeOf (nodesCode 0 none ns)) ((nodesTab 0 none ASt.empty ns).map some) = true := by
  have hlen : (nodesTab 0 none ASt.empty ns).length = (nodesCode 0 none ns).length :=
    tabLen2 ns 0 none ASt.empty
  have hend : (nodesTab 0 none ASt.empty ns ++ [ASt.empty])[0 + (nodesCode 0 none ns).length]?
      = some ASt.empty := by
    rw [Nat.zero_add, ← hlen]; simp
  have hsegT : Seg (nodesTab 0 none ASt.empty ns ++ [ASt.empty]) 0 (nodesTab 0 none ASt.empty ns) :=
    Tera.C07Compile.seg_prefix _ _
  have hok := wf_aux.2.1 0 none ns 0 none ASt.empty (nodesCode 0 none ns)
    (nodesTab 0 none ASt.empty ns ++ [ASt.empty]) false (Tera.C07Compile.seg_self _) hsegT hend hsc
    (fun h => by cases h)
  have h0 : (nodesTab 0 none ASt.empty ns ++ [ASt.empty])[0]? = some ASt.empty :=
    head_nodes hsegT hend hsc (fun h => by cases h)
  exact vverify_of_okr _ _ hlen h0 hok

end Tera.Compiler.V
