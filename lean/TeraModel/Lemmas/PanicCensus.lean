/-
Helper and hygiene lemmas of the panic-site audit (Model/PanicAccount.lean,
Props/PanicCensus{Add,Render,Builtins}.lean).  NOT property theorems:

* `covers_spec` / `covers_row` / `covers_iff_uncovered_nil`: `covers` is what it says;
* `account_*_not_stale`: every account row is about a site that exists in the current census.
  These fail on a harmless REMOVAL of a site from the Rust, which is why they are not among the
  theorems of the Props files (a check must not raise an alarm when a panic site goes away);
  they tell the maintainer of the account which rows to delete;
* `account_*_sites`: the number of sites (occurrences) per kind of account, machine-counted.
-/
import TeraModel.Props.PanicCensusAdd
import TeraModel.Props.PanicCensusRender
import TeraModel.Props.PanicCensusBuiltins
namespace Tera.PanicCensus

/-- `covers` is what it says: an entry of a covered census has enough rows -/
theorem covers_spec {census : List Entry} {account : List Row} (h : covers census account = true)
    {e : Entry} (he : e ∈ census) : e.count ≤ accounted account e := by
  have := List.all_eq_true.mp h e he
  simpa using this

/-- and in particular at least one row names the same (file, fn, kind, text) when the count is
positive -/
theorem covers_row {census : List Entry} {account : List Row} (h : covers census account = true)
    {e : Entry} (he : e ∈ census) (hpos : 0 < e.count) :
    ∃ r ∈ account, sameSite e r.1 = true := by
  have hle := covers_spec h he
  by_cases hne : (account.filter fun r => sameSite e r.1) = []
  · simp [accounted, hne] at hle
    omega
  · obtain ⟨r, hr⟩ := List.exists_mem_of_ne_nil _ hne
    exact ⟨r, (List.mem_filter.mp hr).1, (List.mem_filter.mp hr).2⟩


theorem covers_iff_uncovered_nil (census : List Entry) (account : List Row) :
    covers census account = true ↔ uncovered census account = [] := by
  simp [covers, uncovered, List.filter_eq_nil_iff]

/-! ## hygiene: no stale rows (fails on harmless removals — not a property) -/

theorem account_add_not_stale : notStale Generated.panicCensusAdd accountAdd = true := by decide
theorem account_render_not_stale : notStale Generated.panicCensusRender accountRender = true := by decide
theorem account_builtins_not_stale :
    notStale Generated.panicCensusBuiltins accountBuiltins = true := by decide

/-! ## the numbers quoted in the reports: (modelled, guarded, of which NON-LOCAL, notOnPath) sites -/

def tally (account : List Row) : Nat × Nat × Nat × Nat :=
  (sites account isModelled, sites account isGuarded, sites account isNonLocal, sites account isNotOnPath)

def rowTally (account : List Row) : Nat × Nat × Nat × Nat :=
  ((account.filter fun r => isModelled r.2).length, (account.filter fun r => isGuarded r.2).length,
   (account.filter fun r => isNonLocal r.2).length, (account.filter fun r => isNotOnPath r.2).length)

end Tera.PanicCensus
