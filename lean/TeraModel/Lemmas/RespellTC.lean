/-
Respelling (C08): templates of literal texts and comments lex to the same tokens under two clean
delimiter sets.
-/
import TeraModel.Lemmas.LexCanon

namespace Tera.C08
open Tera Utf8 Lexer WsFilter

def Seg.isText : Seg → Bool
  | .text _ => true
  | _ => false

/-- texts are non-empty and never adjacent (adjacent texts are one text) -/
def NormalForm : List Seg → Prop
  | [] => True
  | .text s :: rest => s ≠ [] ∧ (rest.head?.map Seg.isText).getD false = false ∧ NormalForm rest
  | _ :: rest => NormalForm rest

/-- only literal texts and comments -/
def TextAndComments (segs : List Seg) : Prop :=
  ∀ s ∈ segs, (∃ x, s = .text x) ∨ (∃ l r b, s = .comment l r b)

theorem spell_cons (d : Delims) (s : Seg) (rest : List Seg) : spell d (s :: rest) = spellSeg d s ++ spell d rest := by
  simp [spell]

theorem startsWithMarker_spell (d : Delims) (rest : List Seg) (htc : TextAndComments rest)
    (hnt : (rest.head?.map Seg.isText).getD false = false) : StartsWithMarker d (spell d rest) := by
  cases rest with
  | nil => exact Or.inl rfl
  | cons s tl =>
    rcases htc s (by simp) with ⟨x, rfl⟩ | ⟨l, r, b, rfl⟩
    · simp [Seg.isText] at hnt
    · right
      refine ⟨d.commentStart, dash l ++ [0x20] ++ b ++ [0x20] ++ dash r ++ d.commentEnd ++ spell d tl, Or.inr (Or.inr rfl), ?_⟩
      rw [spell_cons]; simp [spellSeg]

/-- respelling, templates of literal texts and comments: the two spellings lex to the same tokens -/
theorem respell_text_comments {d1 d2 : Delims} (hd1 : d1.accepted = true) (hd2 : d2.accepted = true) :
    ∀ (segs : List Seg), Clean d1 segs → Clean d2 segs → TextAndComments segs → NormalForm segs →
    ∀ (p1 p2 : Pos), p1.rest = spell d1 segs → p2.rest = spell d2 segs →
      valid p1.rest = true → valid p2.rest = true →
      (lex d1 p1 [.template]).tokens.map (·.1) = (lex d2 p2 [.template]).tokens.map (·.1) ∧
      (lex d1 p1 [.template]).ending = .eof ∧ (lex d2 p2 [.template]).ending = .eof := by
  intro segs
  induction segs with
  | nil =>
    intro _ _ _ _ p1 p2 h1 h2 _ _
    rw [lex_nil d1 _ (by simpa [spell] using h1), lex_nil d2 _ (by simpa [spell] using h2)]
    simp
  | cons s rest ih =>
    intro hc1 hc2 htc hnf p1 p2 h1 h2 hv1 hv2
    have hc1' : Clean d1 rest := hc1.tail
    have hc2' : Clean d2 rest := hc2.tail
    have htc' : TextAndComments rest := fun x hx => htc x (List.mem_cons_of_mem _ hx)
    have hst : StackOk [State.template] := Or.inl rfl
    rcases htc s (by simp) with ⟨x, rfl⟩ | ⟨l, r, b, rfl⟩
    · -- literal text
      obtain ⟨hxne, hnt, hnf'⟩ := hnf
      have hx1 : ∀ b ∈ x, b ∉ delimBytes d1 := hc1.payload (.text x) (by simp)
      have hx2 : ∀ b ∈ x, b ∉ delimBytes d2 := hc2.payload (.text x) (by simp)
      rw [spell_cons] at h1 h2
      simp only [spellSeg] at h1 h2
      obtain ⟨q1, hs1, hr1, _⟩ := text_forward_lemma d1 hd1 p1 [] x _ h1 hxne hx1 (startsWithMarker_spell d1 rest htc' hnt)
      obtain ⟨q2, hs2, hr2, _⟩ := text_forward_lemma d2 hd2 p2 [] x _ h2 hxne hx2 (startsWithMarker_spell d2 rest htc' hnt)
      have hne1 : p1.rest ≠ [] := by rw [h1]; cases x with | nil => exact absurd rfl hxne | cons a t => simp
      have hne2 : p2.rest ≠ [] := by rw [h2]; cases x with | nil => exact absurd rfl hxne | cons a t => simp
      have hv1' := ((step_shortens hd1 hst hv1 hne1).1 _ _ _ _ hs1).2.1
      have hv2' := ((step_shortens hd2 hst hv2 hne2).1 _ _ _ _ hs2).2.1
      rw [lex_emit hd1 hst hv1 hne1 hs1, lex_emit hd2 hst hv2 hne2 hs2]
      obtain ⟨e1, e2, e3⟩ := ih hc1' hc2' htc' hnf' q1 q2 hr1 hr2 hv1' hv2'
      simp only [List.map_cons, e1]
      exact ⟨trivial, e2, e3⟩
    · -- comment
      have hb1 : ∀ y ∈ b, y ∉ delimBytes d1 := hc1.payload (.comment l r b) (by simp)
      have hb2 : ∀ y ∈ b, y ∉ delimBytes d2 := hc2.payload (.comment l r b) (by simp)
      rw [spell_cons] at h1 h2
      simp only [spellSeg] at h1 h2
      obtain ⟨q1, hs1, hr1⟩ := comment_forward_lemma d1 hd1 p1 [] l r b _ h1 hv1 hb1 hc1.space hc1.dash
      obtain ⟨q2, hs2, hr2⟩ := comment_forward_lemma d2 hd2 p2 [] l r b _ h2 hv2 hb2 hc2.space hc2.dash
      have hne1 : p1.rest ≠ [] := by
        rw [h1]; obtain ⟨_, _, _, _, _, h5, _⟩ := accepted_facts hd1
        intro h; have := congrArg List.length h; simp at this <;> omega
      have hne2 : p2.rest ≠ [] := by
        rw [h2]; obtain ⟨_, _, _, _, _, h5, _⟩ := accepted_facts hd2
        intro h; have := congrArg List.length h; simp at this <;> omega
      have hv1' := ((step_shortens hd1 hst hv1 hne1).1 _ _ _ _ hs1).2.1
      have hv2' := ((step_shortens hd2 hst hv2 hne2).1 _ _ _ _ hs2).2.1
      rw [lex_emit hd1 hst hv1 hne1 hs1, lex_emit hd2 hst hv2 hne2 hs2]
      obtain ⟨e1, e2, e3⟩ := ih hc1' hc2' htc' hnf q1 q2 hr1 hr2 hv1' hv2'
      simp only [List.map_cons, e1]
      exact ⟨trivial, e2, e3⟩

/-- the filter's token output only depends on the tokens, not on their spans -/
theorem filterGo_tokens_congr : ∀ (ts ts' : List Item) (f : Bool), ts.map (·.1) = ts'.map (·.1) →
    (filterGo f ts).map (·.1) = (filterGo f ts').map (·.1) := by
  intro ts
  induction ts with
  | nil =>
    intro ts' f h
    cases ts' with
    | nil => rfl
    | cons a t => simp at h
  | cons hd tl ih =>
    intro ts' f h
    cases ts' with
    | nil => simp at h
    | cons hd' tl' =>
      obtain ⟨tok, sp⟩ := hd
      obtain ⟨tok', sp'⟩ := hd'
      simp only [List.map_cons, List.cons.injEq] at h
      obtain ⟨rfl, htl⟩ := h
      have hpeek : peekTrimsEnd tl = peekTrimsEnd tl' := by
        rw [WsSpec.peekTrimsEnd_eq, WsSpec.peekTrimsEnd_eq]
        cases tl <;> cases tl' <;> simp_all
      cases tok <;> simp only [filterGo, handleContent, List.map_cons, hpeek, ih _ _ htl]
      all_goals (rename_i w; cases w <;> simp [filterGo, ih _ _ htl])

/-- the skeleton parser only looks at the tokens -/
theorem skeletonGo_tokens_congr : ∀ (ts ts' : List Item) (m : Mode), ts.map (·.1) = ts'.map (·.1) →
    skeletonGo m ts = skeletonGo m ts' := by
  intro ts
  induction ts with
  | nil =>
    intro ts' m h
    cases ts' with
    | nil => rfl
    | cons a t => simp at h
  | cons hd tl ih =>
    intro ts' m h
    cases ts' with
    | nil => simp at h
    | cons hd' tl' =>
      obtain ⟨tok, sp⟩ := hd
      obtain ⟨tok', sp'⟩ := hd'
      simp only [List.map_cons, List.cons.injEq] at h
      obtain ⟨rfl, htl⟩ := h
      cases m <;> cases tok <;> simp only [skeletonGo, ih _ _ htl]

theorem skeleton_tokens_congr (ts ts' : List Item) (h : ts.map (·.1) = ts'.map (·.1)) :
    skeleton ts = skeleton ts' := skeletonGo_tokens_congr ts ts' .text h

end Tera.C08
