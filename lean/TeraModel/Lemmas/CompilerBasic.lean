/-
Helper lemmas about the compiler model (Model/Compiler.lean) that do not need the abstract stack
machine: predicates over all emitted instructions / all recorded events, T2 (`refs`) and T3
(`Iterate` operands) by functional induction over the nine mutually recursive code functions.
-/
import TeraModel.Model.Compiler
namespace Tera.Compiler

/-- every emitted instruction satisfies `P` -/
def AllC (P : CEntry → Prop) (c : Code) : Prop := ∀ y ∈ c, P y

@[simp] theorem allC_nil (P) : AllC P [] := by intro y hy; cases hy
@[simp] theorem allC_append (P) (a b : Code) : AllC P (a ++ b) ↔ AllC P a ∧ AllC P b := by
  simp only [AllC, List.mem_append]
  constructor
  · intro h; exact ⟨fun y hy => h y (Or.inl hy), fun y hy => h y (Or.inr hy)⟩
  · rintro ⟨h1, h2⟩ y (hy | hy); exact h1 y hy; exact h2 y hy
@[simp] theorem allC_cons (P) (x : CEntry) (b : Code) : AllC P (x :: b) ↔ P x ∧ AllC P b := by
  simp only [AllC, List.mem_cons]
  constructor
  · intro h; exact ⟨h x (Or.inl rfl), fun y hy => h y (Or.inr hy)⟩
  · rintro ⟨h1, h2⟩ y (hy | hy); subst hy; exact h1; exact h2 y hy

/-- every recorded event satisfies `S` -/
def AllE (S : Event → Prop) (evs : List Event) : Prop := ∀ ev ∈ evs, S ev
@[simp] theorem allE_nil (S) : AllE S [] := by intro y hy; cases hy
@[simp] theorem allE_append (S) (a b : List Event) : AllE S (a ++ b) ↔ AllE S a ∧ AllE S b := by
  simp only [AllE, List.mem_append]
  constructor
  · intro h; exact ⟨fun y hy => h y (Or.inl hy), fun y hy => h y (Or.inr hy)⟩
  · rintro ⟨h1, h2⟩ y (hy | hy); exact h1 y hy; exact h2 y hy
@[simp] theorem allE_cons (S) (x : Event) (b : List Event) : AllE S (x :: b) ↔ S x ∧ AllE S b := by
  simp only [AllE, List.mem_cons]
  constructor
  · intro h; exact ⟨h x (Or.inl rfl), fun y hy => h y (Or.inr hy)⟩
  · rintro ⟨h1, h2⟩ y (hy | hy); subst hy; exact h1; exact h2 y hy

theorem AllE.mono {S S' : Event → Prop} {evs : List Event} (h : AllE S evs) (hs : ∀ ev, S ev → S' ev) :
    AllE S' evs := fun ev hev => hs ev (h ev hev)

/-! ### T3: the operand of every `Iterate` is positive -/

def IterOK (y : CEntry) : Prop := ∀ t, y.1 = CInstr.iterate t → 0 < t

@[simp] theorem iterOK_unary (op : UnaryOperator) : IterOK (sp (unaryInstr op)) := by
  cases op <;> simp [IterOK, sp, unaryInstr]

@[simp] theorem allC_iterOK_keyStore (k : Option String) : AllC IterOK (keyStore k) := by
  cases k <;> simp [keyStore, IterOK, ns]

def IterM1 (e : Expr) : Prop :=
  ∀ base loop, AllC IterOK (exprCode base loop e)
def IterM2 (ns : List Node) : Prop :=
  ∀ base loop, AllC IterOK (nodesCode base loop ns)
def IterM3 (n : Node) : Prop :=
  ∀ base loop, AllC IterOK (nodeCode base loop n)
def IterM4 (k : List (String × Expr)) : Prop :=
  ∀ base loop, AllC IterOK (kwargsCode base loop k)
def IterM5 (f : List Expr) : Prop :=
  ∀ base loop, AllC IterOK (filtersCode base loop f)
def IterM6 (o : Option Expr) : Prop :=
  ∀ base loop, AllC IterOK (condCode base loop o)
def IterM7 (o : Option Expr) : Prop :=
  ∀ base loop dflt, IterOK (ns dflt) → AllC IterOK (optExprCode base loop dflt o)
def IterM8 (a : List ArrayEntry) : Prop :=
  ∀ base loop, AllC IterOK (arrayItemsCode base loop a)
def IterM9 (m : List MapEntry) : Prop :=
  ∀ base loop, AllC IterOK (mapItemsCode base loop m)

theorem iter_code_aux :
    (∀ (_ : Nat) (_ : Option Nat) e, IterM1 e) ∧
    (∀ (_ : Nat) (_ : Option Nat) ns, IterM2 ns) ∧
    (∀ (_ : Nat) (_ : Option Nat) n, IterM3 n) ∧
    (∀ (_ : Nat) (_ : Option Nat) k, IterM4 k) ∧
    (∀ (_ : Nat) (_ : Option Nat) f, IterM5 f) ∧
    (∀ (_ : Nat) (_ : Option Nat) o, IterM6 o) ∧
    (∀ (_ : Nat) (_ : Option Nat) (_ : CInstr) o, IterM7 o) ∧
    (∀ (_ : Nat) (_ : Option Nat) a, IterM8 a) ∧
    (∀ (_ : Nat) (_ : Option Nat) m, IterM9 m) := by
  apply exprCode.mutual_induct
    (motive_1 := fun _ _ e => IterM1 e)
    (motive_2 := fun _ _ ns => IterM2 ns)
    (motive_3 := fun _ _ n => IterM3 n)
    (motive_4 := fun _ _ k => IterM4 k)
    (motive_5 := fun _ _ f => IterM5 f)
    (motive_6 := fun _ _ o => IterM6 o)
    (motive_7 := fun _ _ _ o => IterM7 o)
    (motive_8 := fun _ _ a => IterM8 a)
    (motive_9 := fun _ _ m => IterM9 m)
  all_goals intros
  all_goals simp only [IterM1, IterM2, IterM3, IterM4, IterM5, IterM6, IterM7, IterM8, IterM9] at *
  all_goals intros
  all_goals simp only [exprCode, nodesCode, nodeCode, kwargsCode, filtersCode, condCode, optExprCode,
    arrayItemsCode, mapItemsCode] at *
  all_goals (try split)
  all_goals (try simp_all (config := { zetaDelta := true }) only [allC_append, allC_cons, allC_nil,
    and_true, true_and, and_self, allC_iterOK_keyStore, iterOK_unary])
  all_goals (try (simp only [IterOK, sp, ns, mapBuild, arrayBuild, setInstr]; done))
  all_goals (try grind [IterOK, sp, ns, mapBuild, arrayBuild, setInstr])

theorem iter_nodes (ns : List Node) (base : Nat) (loop : Option Nat) :
    AllC IterOK (nodesCode base loop ns) := iter_code_aux.2.1 0 none ns base loop

/-! ### T2: every name an instruction refers to has been recorded -/

/-- the name instruction `y` refers to has been recorded (`S` = "is a recorded event") -/
def RefS (S : Event → Prop) (y : CEntry) : Prop :=
  match y.1 with
  | .applyFilter n => S (.filterCall n)
  | .runTest n => S (.testCall n)
  | .callFunction n => S (.functionCall n)
  | .include n => S (.includeCall n)
  | .renderInlineComponent n => S (.componentCall n)
  | .renderBodyComponent n => S (.componentCall n)
  | .renderBlock n => ∃ c top, S (.blockDef n c top)
  | _ => True

@[simp] theorem refS_unary (S) (op : UnaryOperator) : RefS S (sp (unaryInstr op)) := by
  cases op <;> simp [RefS, sp, unaryInstr]

@[simp] theorem allC_refS_keyStore (S) (k : Option String) : AllC (RefS S) (keyStore k) := by
  cases k <;> simp [keyStore, RefS, ns]

def RefM1 (e : Expr) : Prop :=
  ∀ base loop il d S, AllE S (exprEvents il d e) → AllC (RefS S) (exprCode base loop e)
def RefM2 (ns : List Node) : Prop :=
  ∀ base loop il d S, AllE S (nodesEvents il d ns) → AllC (RefS S) (nodesCode base loop ns)
def RefM3 (n : Node) : Prop :=
  ∀ base loop il d S, AllE S (nodeEvents il d n) → AllC (RefS S) (nodeCode base loop n)
def RefM4 (k : List (String × Expr)) : Prop :=
  ∀ base loop il d S, AllE S (kwargsEvents il d k) → AllC (RefS S) (kwargsCode base loop k)
def RefM5 (f : List Expr) : Prop :=
  ∀ base loop il d S, AllE S (filtersEvents il d f) → AllC (RefS S) (filtersCode base loop f)
def RefM6 (o : Option Expr) : Prop :=
  ∀ base loop il d S, AllE S (optExprEvents il d o) → AllC (RefS S) (condCode base loop o)
def RefM7 (o : Option Expr) : Prop :=
  ∀ base loop dflt il d S, RefS S (ns dflt) → AllE S (optExprEvents il d o) → AllC (RefS S) (optExprCode base loop dflt o)
def RefM8 (a : List ArrayEntry) : Prop :=
  ∀ base loop il d S, AllE S (arrayItemsEvents il d a) → AllC (RefS S) (arrayItemsCode base loop a)
def RefM9 (m : List MapEntry) : Prop :=
  ∀ base loop il d S, AllE S (mapItemsEvents il d m) → AllC (RefS S) (mapItemsCode base loop m)

theorem refs_code_aux :
    (∀ (_ : Nat) (_ : Option Nat) e, RefM1 e) ∧
    (∀ (_ : Nat) (_ : Option Nat) ns, RefM2 ns) ∧
    (∀ (_ : Nat) (_ : Option Nat) n, RefM3 n) ∧
    (∀ (_ : Nat) (_ : Option Nat) k, RefM4 k) ∧
    (∀ (_ : Nat) (_ : Option Nat) f, RefM5 f) ∧
    (∀ (_ : Nat) (_ : Option Nat) o, RefM6 o) ∧
    (∀ (_ : Nat) (_ : Option Nat) (_ : CInstr) o, RefM7 o) ∧
    (∀ (_ : Nat) (_ : Option Nat) a, RefM8 a) ∧
    (∀ (_ : Nat) (_ : Option Nat) m, RefM9 m) := by
  apply exprCode.mutual_induct
    (motive_1 := fun _ _ e => RefM1 e)
    (motive_2 := fun _ _ ns => RefM2 ns)
    (motive_3 := fun _ _ n => RefM3 n)
    (motive_4 := fun _ _ k => RefM4 k)
    (motive_5 := fun _ _ f => RefM5 f)
    (motive_6 := fun _ _ o => RefM6 o)
    (motive_7 := fun _ _ _ o => RefM7 o)
    (motive_8 := fun _ _ a => RefM8 a)
    (motive_9 := fun _ _ m => RefM9 m)
  all_goals intros
  all_goals simp only [RefM1, RefM2, RefM3, RefM4, RefM5, RefM6, RefM7, RefM8, RefM9] at *
  all_goals intros
  all_goals simp only [exprCode, nodesCode, nodeCode, kwargsCode, filtersCode, condCode, optExprCode,
    arrayItemsCode, mapItemsCode, exprEvents, nodesEvents, nodeEvents, kwargsEvents, filtersEvents,
    optExprEvents, arrayItemsEvents, mapItemsEvents] at *
  all_goals (try split)
  all_goals (try simp_all (config := { zetaDelta := true }) only [allC_append, allC_cons, allC_nil,
    allE_append, allE_cons, allE_nil, and_true, true_and, and_self, allC_refS_keyStore, refS_unary])
  all_goals (try (simp only [RefS, sp, ns, mapBuild, arrayBuild, setInstr]; done))
  all_goals (try grind [RefS, sp, ns, mapBuild, arrayBuild, setInstr])

/-- the instructions of `nodesCode … ns` only refer to names among the events of `ns` -/
theorem refs_nodes (ns : List Node) (base : Nat) (loop : Option Nat) (il : Bool) (d : Nat)
    (S : Event → Prop) (h : AllE S (nodesEvents il d ns)) : AllC (RefS S) (nodesCode base loop ns) :=
  refs_code_aux.2.1 0 none ns base loop il d S h

end Tera.Compiler
