/-
Lemmas for Props/C08Pipeline.lean: literal text through the composed model.
-/
import TeraModel.Props.C08
import TeraModel.Lemmas.PipelineT
import TeraModel.Lemmas.IndexUtf8
import TeraModel.Lemmas.PipelineWire
namespace Tera.Pipeline
open Tera Tera.Lexer Tera.WsFilter

/-! ### `Wire.utf8Decode` undoes `Wire.utf8Encode` -/

theorem wireDecode_encodeChar_append (c : Char) (rest : List Nat) :
    Wire.utf8Decode (Wire.utf8EncodeChar c ++ rest) = c :: Wire.utf8Decode rest := by
  have hlt := Tera.Index.char_toNat_lt c
  have hc : ∀ n, n = c.toNat → Char.ofNat n = c := by intro n hn; subst hn; exact Char.ofNat_toNat c
  unfold Wire.utf8EncodeChar
  simp only
  split_ifs with h1 h2 h3
  · simp only [List.cons_append, List.nil_append]
    rw [Wire.utf8Decode.eq_def]
    simp only [h1, if_true]
    rw [hc _ rfl]
  · simp only [List.cons_append, List.nil_append]
    have a1 : ¬ (0xC0 + c.toNat / 64 < 0x80) := by omega
    have a2 : 0xC0 + c.toNat / 64 < 0xE0 := by omega
    rw [Wire.utf8Decode.eq_def]
    simp only [a1, a2, if_false, if_true]
    rw [hc _ (by omega)]
  · simp only [List.cons_append, List.nil_append]
    have a1 : ¬ (0xE0 + c.toNat / 4096 < 0x80) := by omega
    have a2 : ¬ (0xE0 + c.toNat / 4096 < 0xE0) := by omega
    have a3 : 0xE0 + c.toNat / 4096 < 0xF0 := by omega
    rw [Wire.utf8Decode.eq_def]
    simp only [a1, a2, a3, if_false, if_true]
    rw [hc _ (by omega)]
  · simp only [List.cons_append, List.nil_append]
    have a1 : ¬ (0xF0 + c.toNat / 262144 < 0x80) := by omega
    have a2 : ¬ (0xF0 + c.toNat / 262144 < 0xE0) := by omega
    have a3 : ¬ (0xF0 + c.toNat / 262144 < 0xF0) := by omega
    rw [Wire.utf8Decode.eq_def]
    simp only [a1, a2, a3, if_false]
    rw [hc _ (by omega)]

theorem wireDecode_encode (cs : List Char) : Wire.utf8Decode (Wire.utf8Encode cs) = cs := by
  unfold Wire.utf8Encode
  induction cs with
  | nil => rfl
  | cons c rest ih => rw [List.flatMap_cons, wireDecode_encodeChar_append, ih]

/-! ### a source without start delimiter, stage by stage -/

def textNodes (cs : List Char) : List Node := if cs = [] then [] else [.content (String.ofList cs)]

theorem encode_ne_nil {cs : List Char} (h : cs ≠ []) : Wire.utf8Encode cs ≠ [] := by
  cases cs with
  | nil => exact absurd rfl h
  | cons c rest =>
    have := Tera.Index.enc_length_pos c
    intro hc
    have hl := congrArg List.length hc
    simp only [Wire.utf8Encode, List.flatMap_cons, List.length_append, List.length_nil] at hl
    omega

theorem parse_content (s : String) :
    TParser.parse Gen.MAX_RECURSION_DEPTH [Tok.content s] =
      .ok ⟨none, if s.isEmpty then [] else [.content s], []⟩ ⟨⟨[], 0, 0⟩, [], [], [], none, []⟩ := by
  rfl

theorem front_noStart (d : Delims) (cs : List Char) (h : NoStart d (Wire.utf8Encode cs)) :
    front d (Wire.utf8Encode cs) = .ok ⟨none, textNodes cs, []⟩ := by
  by_cases hcs : cs = []
  · subst hcs
    rfl
  · obtain ⟨sp, htok⟩ := basicTokenize_noStart h (encode_ne_nil hcs)
    unfold front
    simp only [tokenize, whitespaceFilter, htok, filterGo, handleContent, peekTrimsEnd, toksOf,
      List.map_cons, List.map_nil, tokOf, strOf, wireDecode_encode, List.append_nil]
    simp only [Bool.false_eq_true, if_false, wireDecode_encode, List.append_nil, parse_content]
    have hne : (String.ofList cs).isEmpty = false := by
      cases cs with
      | nil => exact absurd rfl hcs
      | cons c rest => simp [String.isEmpty_iff]
    simp [hne, textNodes, hcs]
def textCode (cs : List Char) : List Vm.VEntry := if cs = [] then [] else [(.writeText cs, [])]

/-- the call tables and graph data of a template that is only text -/
def textSummary (name : String) (len : Nat) : Reg.TplR :=
  { base := { name := name, parent := none, blocks := [], topIncludes := [], comps := [],
              compCalls := [], badRefs := false, srcLen := len },
    filterCalls := [], testCalls := [], functionCalls := [] }

def textTD (name : String) (cs : List Char) : TemplateData :=
  { name := name, main := { name := name, code := textCode cs }, blocks := [], components := [],
    summary := textSummary name (Wire.utf8Encode cs).length }

theorem storeChunk_text (name : String) (s : String) :
    storeChunk name [Compiler.ns (.writeText s)] = .ok { name := name, code := [(.writeText s.toList, [])] } := by
  simp [storeChunk, encode, encodeFrom, encodeInstr, Optimize.optimize, Optimize.groups, Optimize.loop,
    Optimize.indexMap, Optimize.indexMapGo, Optimize.remap, Optimize.remapInstr, Instr.target?,
    decodeAll, decodeEntry, decodeInstr, decNat_idxArg, vinstr, spansOf, Compiler.ns]

theorem storeChunk_nil (name : String) : storeChunk name [] = .ok { name := name, code := [] } := by
  simp [storeChunk, encode, encodeFrom, Optimize.optimize, Optimize.groups, Optimize.loop,
    Optimize.indexMap, Optimize.indexMapGo, Optimize.remap, decodeAll]

theorem newTemplate_noStart (d : Delims) (name : String) (cs : List Char)
    (h : NoStart d (Wire.utf8Encode cs)) :
    newTemplate d name (Wire.utf8Encode cs) = .ok (textTD name cs) := by
  unfold newTemplate
  rw [front_noStart d cs h]
  by_cases hcs : cs = []
  · subst hcs
    simp [textNodes, Compiler.compileTemplate, Compiler.allEvents, Compiler.bodyEvents, Compiler.nodesEvents,
      Compiler.firstPanic, Compiler.nodesCode, storeChunk_nil, storeNamed, zipDefs, textTD, textCode,
      summaryOf, textSummary, dedupLast, Compiler.blockDefs, Compiler.topBlocks, Compiler.filterCalls,
      Compiler.testCalls, Compiler.functionCalls, Compiler.includeCalls, Compiler.componentCalls]
  · simp [textNodes, hcs, Compiler.compileTemplate, Compiler.allEvents, Compiler.bodyEvents, Compiler.nodesEvents,
      Compiler.nodeEvents, Compiler.nodeCode,
      Compiler.firstPanic, Compiler.nodesCode, storeChunk_text, storeNamed, zipDefs, textTD, textCode,
      summaryOf, textSummary, dedupLast, Compiler.blockDefs, Compiler.topBlocks, Compiler.filterCalls,
      Compiler.testCalls, Compiler.functionCalls, Compiler.includeCalls, Compiler.componentCalls]
def textInfo (cfg : Config) (name : String) (cs : List Char) : Vm.TemplateInfo :=
  { name := name, chunk := { name := name, code := textCode cs },
    autoescape := Reg.autoescapeFlag cfg.suffixes name, parents := [], blockLineage := [], components := [] }

def textEnv (cfg : Config) (name : String) (cs : List Char) : Env :=
  mkEnv cfg [(name, textInfo cfg name cs)] []

open Reg in
theorem register_text (cfg : Config) (name : String) (cs : List Char) :
    register cfg [textTD name cs] = .ok
      { templates := [{ tpl := (textSummary name (Wire.utf8Encode cs).length).toTpl cfg.reg, parents := [],
                        lineage := [], size := (Wire.utf8Encode cs).length,
                        autoescape := autoescapeFlag cfg.suffixes name }],
        comps := [], suffixes := cfg.suffixes, prefixes := cfg.prefixes } := by
  simp [register, addBatchR, addBatch, ItemR.toItem, textTD, insertBatch, einsert, Entry.fresh, eget,
    initState, State.init, finalize, derive, keys, sortDedup, insertSorted, loop1, loop1Step, Reg.get,
    TplR.toTpl, textSummary, unknownBuiltin, findParents, findParentsAux, checkIncludeCycles, walk,
    walkNames, Tpl.includeCalls, compLoop, sumSrcLen, loop2, lookupParents, hasRefErrors,
    hasOrphanBlock, ownBlocks, pass2, inheritFrom, commitAll, commitEntry, lookupNat, tbLookup]

theorem addTemplatesT_text (cfg : Config) (name : String) (cs : List Char)
    (h : NoStart cfg.delims (Wire.utf8Encode cs)) :
    addTemplatesT cfg [(name, Wire.utf8Encode cs)] = .ok (textEnv cfg name cs) := by
  unfold addTemplatesT
  simp only [newAll, newTemplate_noStart cfg.delims name cs h, register_text]
  simp [buildEnv, namedOf, infosOf, infoOf, lookupLast, lineagesOf, globalComponents, includeAliases,
    textTD, textEnv, textInfo, Reg.TplR.toTpl, textSummary, Reg.Tpl.includeCalls]

theorem render_text (cfg : Config) (name : String) (cs : List Char) (depth steps : Nat)
    (block : Option String) (hb : block = none) (ctx g : Ctx) :
    Vm.render ⟨depth + 1, steps + 1⟩ (textEnv cfg name cs) name block ctx g = .ok cs := by
  subst hb
  by_cases hcs : cs = []
  · subst hcs
    simp [Vm.render, Vm.Env.template, textEnv, mkEnv, Vm.assoc, textInfo, Vm.lineageMissing, Vm.entryChunk,
      Vm.run, Vm.interp, Vm.runLoop, textCode, Vm.outcomeOf, Vm.entryState, Vm.State.fresh]
  · simp [Vm.render, Vm.Env.template, textEnv, mkEnv, Vm.assoc, textInfo, Vm.lineageMissing, Vm.entryChunk,
      Vm.run, Vm.interp, Vm.runLoop, textCode, hcs, Vm.step, Vm.State.write, Vm.outcomeOf, Vm.entryState,
      Vm.State.fresh]
    cases steps <;> simp [Vm.runLoop, Vm.outcomeOf]

end Tera.Pipeline
