/-
Lemmas for Props/C08Pipeline.lean: literal text through the composed model.
-/
import TeraModel.Props.C08
import TeraModel.Lemmas.PipelineT
import TeraModel.Lemmas.IndexUtf8
import TeraModel.Lemmas.PipelineWire
import TeraModel.Lemmas.PipelineVerify
namespace Tera.Pipeline
open Tera Tera.Lexer Tera.WsFilter

/-! ### `Wire.utf8Decode` undoes `Wire.utf8Encode` -/

theorem wireDecode_encodeChar_append (c : Char) (rest : List Nat) :
    Wire.utf8Decode (Wire.utf8EncodeChar c ++ rest) = c :: Wire.utf8Decode rest := by
  have hlt := Tera.Index.char_toNat_lt c
  have hc : ∀ n, n = c.toNat → Char.ofNat n = c := by intro n hn; subst hn; exact Char.ofNat_toNat c
  unfold Wire.utf8EncodeChar
  simp only
  split_ifs with h1 h2 h3
  · simp only [List.cons_append, List.nil_append]
    rw [Wire.utf8Decode.eq_def]
    simp only [h1, if_true]
    rw [hc _ rfl]
  · simp only [List.cons_append, List.nil_append]
    have a1 : ¬ (0xC0 + c.toNat / 64 < 0x80) := by omega
    have a2 : 0xC0 + c.toNat / 64 < 0xE0 := by omega
    rw [Wire.utf8Decode.eq_def]
    simp only [a1, a2, if_false, if_true]
    rw [hc _ (by omega)]
  · simp only [List.cons_append, List.nil_append]
    have a1 : ¬ (0xE0 + c.toNat / 4096 < 0x80) := by omega
    have a2 : ¬ (0xE0 + c.toNat / 4096 < 0xE0) := by omega
    have a3 : 0xE0 + c.toNat / 4096 < 0xF0 := by omega
    rw [Wire.utf8Decode.eq_def]
    simp only [a1, a2, a3, if_false, if_true]
    rw [hc _ (by omega)]
  · simp only [List.cons_append, List.nil_append]
    have a1 : ¬ (0xF0 + c.toNat / 262144 < 0x80) := by omega
    have a2 : ¬ (0xF0 + c.toNat / 262144 < 0xE0) := by omega
    have a3 : ¬ (0xF0 + c.toNat / 262144 < 0xF0) := by omega
    rw [Wire.utf8Decode.eq_def]
    simp only [a1, a2, a3, if_false]
    rw [hc _ (by omega)]

theorem wireDecode_encode (cs : List Char) : Wire.utf8Decode (Wire.utf8Encode cs) = cs := by
  unfold Wire.utf8Encode
  induction cs with
  | nil => rfl
  | cons c rest ih => rw [List.flatMap_cons, wireDecode_encodeChar_append, ih]

/-! ### a source without start delimiter, stage by stage -/

def textNodes (cs : List Char) : List Node := if cs = [] then [] else [.content (String.ofList cs)]

theorem encode_ne_nil {cs : List Char} (h : cs ≠ []) : Wire.utf8Encode cs ≠ [] := by
  cases cs with
  | nil => exact absurd rfl h
  | cons c rest =>
    have := Tera.Index.enc_length_pos c
    intro hc
    have hl := congrArg List.length hc
    simp only [Wire.utf8Encode, List.flatMap_cons, List.length_append, List.length_nil] at hl
    omega

theorem parse_content (s : String) :
    TParser.parse Gen.MAX_RECURSION_DEPTH [Tok.content s] =
      .ok ⟨none, if s.isEmpty then [] else [.content s], []⟩ ⟨⟨[], 0, 0⟩, [], [], [], none, []⟩ := by
  rfl

theorem front_noStart (d : Delims) (cs : List Char) (h : NoStart d (Wire.utf8Encode cs)) :
    front d (Wire.utf8Encode cs) = .ok ⟨none, textNodes cs, []⟩ := by
  by_cases hcs : cs = []
  · subst hcs
    rfl
  · obtain ⟨sp, htok⟩ := basicTokenize_noStart h (encode_ne_nil hcs)
    unfold front
    simp only [tokenize, whitespaceFilter, htok, filterGo, handleContent, peekTrimsEnd, toksOf,
      List.map_cons, List.map_nil, tokOf, strOf, wireDecode_encode, List.append_nil]
    simp only [Bool.false_eq_true, if_false, wireDecode_encode, List.append_nil, parse_content]
    have hne : (String.ofList cs).isEmpty = false := by
      cases cs with
      | nil => exact absurd rfl hcs
      | cons c rest => simp [String.isEmpty_iff]
    simp [hne, textNodes, hcs]
def textCode (cs : List Char) : List Vm.VEntry := if cs = [] then [] else [(.writeText cs, [])]

/-- the call tables and graph data of a template that is only text -/
def textSummary (name : String) (len : Nat) : Reg.TplR :=
  { base := { name := name, parent := none, blocks := [], topIncludes := [], comps := [],
              compCalls := [], badRefs := false, srcLen := len },
    filterCalls := [], testCalls := [], functionCalls := [] }

def textTD (name : String) (cs : List Char) : TemplateData :=
  { name := name, main := { name := name, code := textCode cs }, blocks := [], components := [],
    summary := textSummary name (Wire.utf8Encode cs).length }

theorem storeChunk_text (name : String) (s : String) :
    storeChunk name [Compiler.ns (.writeText s)] = .ok { name := name, code := [(.writeText s.toList, [])] } := by
  simp [storeChunk, encode, encodeFrom, encodeInstr, Optimize.optimize, Optimize.groups, Optimize.loop,
    Optimize.indexMap, Optimize.indexMapGo, Optimize.remap, Optimize.remapInstr, Instr.target?,
    decodeAll, decodeEntry, decodeInstr, decNat_idxArg, vinstr, spansOf, Compiler.ns]

theorem storeChunk_nil (name : String) : storeChunk name [] = .ok { name := name, code := [] } := by
  simp [storeChunk, encode, encodeFrom, Optimize.optimize, Optimize.groups, Optimize.loop,
    Optimize.indexMap, Optimize.indexMapGo, Optimize.remap, decodeAll]

theorem newTemplate_noStart (d : Delims) (name : String) (cs : List Char)
    (h : NoStart d (Wire.utf8Encode cs)) :
    newTemplate d name (Wire.utf8Encode cs) = .ok (textTD name cs) := by
  unfold newTemplate
  rw [front_noStart d cs h]
  by_cases hcs : cs = []
  · subst hcs
    simp [textNodes, Compiler.compileTemplate, Compiler.allEvents, Compiler.bodyEvents, Compiler.nodesEvents,
      Compiler.firstPanic, Compiler.nodesCode, storeChunk_nil, storeNamed, zipDefs, textTD, textCode,
      summaryOf, textSummary, dedupLast, Compiler.blockDefs, Compiler.topBlocks, Compiler.filterCalls,
      Compiler.testCalls, Compiler.functionCalls, Compiler.includeCalls, Compiler.componentCalls]
  · simp [textNodes, hcs, Compiler.compileTemplate, Compiler.allEvents, Compiler.bodyEvents, Compiler.nodesEvents,
      Compiler.nodeEvents, Compiler.nodeCode,
      Compiler.firstPanic, Compiler.nodesCode, storeChunk_text, storeNamed, zipDefs, textTD, textCode,
      summaryOf, textSummary, dedupLast, Compiler.blockDefs, Compiler.topBlocks, Compiler.filterCalls,
      Compiler.testCalls, Compiler.functionCalls, Compiler.includeCalls, Compiler.componentCalls]
def textInfo (cfg : Config) (name : String) (cs : List Char) : Vm.TemplateInfo :=
  { name := name, chunk := { name := name, code := textCode cs },
    autoescape := Reg.autoescapeFlag cfg.suffixes name, parents := [], blockLineage := [], components := [] }

def textEnv (cfg : Config) (name : String) (cs : List Char) : Env :=
  mkEnv cfg [(name, textInfo cfg name cs)] []

open Reg in
theorem register_text (cfg : Config) (name : String) (cs : List Char) :
    register cfg [textTD name cs] = .ok
      { templates := [{ tpl := (textSummary name (Wire.utf8Encode cs).length).toTpl cfg.reg, parents := [],
                        lineage := [], size := (Wire.utf8Encode cs).length,
                        autoescape := autoescapeFlag cfg.suffixes name }],
        comps := [], suffixes := cfg.suffixes, prefixes := cfg.prefixes } := by
  simp [register, addBatchR, addBatch, ItemR.toItem, textTD, insertBatch, einsert, Entry.fresh, eget,
    initState, State.init, finalize, derive, keys, sortDedup, insertSorted, loop1, loop1Step, Reg.get,
    TplR.toTpl, textSummary, unknownBuiltin, findParents, findParentsAux, checkIncludeCycles, walk,
    walkNames, Tpl.includeCalls, compLoop, sumSrcLen, loop2, lookupParents, hasRefErrors,
    hasOrphanBlock, ownBlocks, pass2, inheritFrom, commitAll, commitEntry, lookupNat, tbLookup]

theorem addTemplatesT_text (cfg : Config) (name : String) (cs : List Char)
    (h : NoStart cfg.delims (Wire.utf8Encode cs)) :
    addTemplatesT cfg [(name, Wire.utf8Encode cs)] = .ok (textEnv cfg name cs) := by
  unfold addTemplatesT
  simp only [newAll, newTemplate_noStart cfg.delims name cs h, register_text]
  simp [buildEnv, namedOf, infosOf, infoOf, lookupLast, lineagesOf, globalComponents, includeAliases,
    textTD, textEnv, textInfo, Reg.TplR.toTpl, textSummary, Reg.Tpl.includeCalls]

theorem render_text (cfg : Config) (name : String) (cs : List Char) (depth steps : Nat)
    (block : Option String) (hb : block = none) (ctx g : Ctx) :
    Vm.render ⟨depth + 1, steps + 1⟩ (textEnv cfg name cs) name block ctx g = .ok cs := by
  subst hb
  by_cases hcs : cs = []
  · subst hcs
    simp [Vm.render, Vm.Env.template, textEnv, mkEnv, Vm.assoc, textInfo, Vm.lineageMissing, Vm.entryChunk,
      Vm.run, Vm.interp, Vm.runLoop, textCode, Vm.outcomeOf, Vm.entryState, Vm.State.fresh]
  · simp [Vm.render, Vm.Env.template, textEnv, mkEnv, Vm.assoc, textInfo, Vm.lineageMissing, Vm.entryChunk,
      Vm.run, Vm.interp, Vm.runLoop, textCode, hcs, Vm.step, Vm.State.write, Vm.outcomeOf, Vm.entryState,
      Vm.State.fresh]
    cases steps <;> simp [Vm.runLoop, Vm.outcomeOf]

/-! ### literal text through compiler, optimiser and decoding -/

section texts
open Tera.Compiler Tera.Optimize

/-- payloads of the `WriteText` instructions of a compiled chunk, in order -/
def ctexts (c : Code) : List String :=
  c.filterMap fun e => match e.1 with | .writeText s => some s | _ => none

@[simp] theorem ctexts_nil : ctexts [] = [] := rfl
@[simp] theorem ctexts_append (a b : Code) : ctexts (a ++ b) = ctexts a ++ ctexts b := by
  simp [ctexts, List.filterMap_append]
theorem ctexts_cons (e : CEntry) (b : Code) : ctexts (e :: b) = ctexts [e] ++ ctexts b := by
  rw [← List.singleton_append, ctexts_append]

mutual
/-- the literal texts `compile_expr` emits inline for an expression (only component-call bodies
carry any) -/
def exprTexts : Expr → List String
  | .const _ => []
  | .map entries => mapTexts entries
  | .array items => arrayTexts items
  | .var _ => []
  | .getAttr e _ _ => exprTexts e
  | .getItem e s _ => exprTexts e ++ exprTexts s
  | .slice e start stop step _ => exprTexts e ++ optTexts start ++ optTexts stop ++ optTexts step
  | .filter e _ kwargs => exprTexts e ++ kwargsTexts kwargs
  | .test e _ kwargs => exprTexts e ++ kwargsTexts kwargs
  | .ternary c t f => exprTexts c ++ exprTexts t ++ exprTexts f
  | .listComprehension e _ _ target cond => exprTexts target ++ optTexts cond ++ exprTexts e
  | .componentCall _ kwargs body selfClosing =>
    (if selfClosing then [] else nodesTexts body) ++ mapTexts kwargs
  | .functionCall _ kwargs => kwargsTexts kwargs
  | .unary _ e => exprTexts e
  | .binary op l r =>
    match op with
    | .Is | .Pipe => []
    | _ => exprTexts l ++ exprTexts r
def optTexts : Option Expr → List String
  | some e => exprTexts e
  | none => []
def kwargsTexts : List (String × Expr) → List String
  | [] => []
  | (_, v) :: rest => exprTexts v ++ kwargsTexts rest
def arrayTexts : List ArrayEntry → List String
  | [] => []
  | .item e :: rest => exprTexts e ++ arrayTexts rest
  | .spread e :: rest => exprTexts e ++ arrayTexts rest
def mapTexts : List MapEntry → List String
  | [] => []
  | .keyValue _ v :: rest => exprTexts v ++ mapTexts rest
  | .spread e :: rest => exprTexts e ++ mapTexts rest
def filtersTexts : List Expr → List String
  | [] => []
  | .filter _ _ kwargs :: rest => kwargsTexts kwargs ++ filtersTexts rest
  | _ :: rest => filtersTexts rest
/-- the literal texts of a node that go into the CURRENT chunk, in order: a `{% block %}` body goes
to a chunk of its own -/
def nodeTexts : Node → List String
  | .content text => [text]
  | .expression e => exprTexts e
  | .set _ value _ => exprTexts value
  | .blockSet _ filters body _ => nodesTexts body ++ filtersTexts filters
  | .include _ => []
  | .block _ _ => []
  | .forLoop _ _ target body elseBody => exprTexts target ++ nodesTexts body ++ nodesTexts elseBody
  | .break => []
  | .continue => []
  | .if c body falseBody => exprTexts c ++ nodesTexts body ++ nodesTexts falseBody
  | .filterSection _ kwargs body => nodesTexts body ++ kwargsTexts kwargs
def nodesTexts : List Node → List String
  | [] => []
  | n :: rest => nodeTexts n ++ nodesTexts rest
end

/-- the text an instruction writes literally -/
def itext : CInstr → List String
  | .writeText s => [s]
  | _ => []

@[simp] theorem ctexts_cons' (e : CEntry) (rest : Code) : ctexts (e :: rest) = itext e.1 ++ ctexts rest := by
  obtain ⟨i, b⟩ := e
  cases i <;> rfl
@[simp] theorem itext_mapBuild (m : List MapEntry) : itext (mapBuild m) = [] := by
  unfold mapBuild; split <;> rfl
@[simp] theorem itext_arrayBuild (m : List ArrayEntry) : itext (arrayBuild m) = [] := by
  unfold arrayBuild; split <;> rfl
@[simp] theorem itext_setInstr (n : String) (g : Bool) : itext (setInstr n g) = [] := by
  unfold setInstr; split <;> rfl
@[simp] theorem itext_unary (op : UnaryOperator) : itext (unaryInstr op) = [] := by
  cases op <;> rfl
@[simp] theorem itext_ite (c : Prop) [Decidable c] (a b : CInstr) :
    itext (if c then a else b) = if c then itext a else itext b := by
  split <;> rfl

theorem ctexts_keyStore (k : Option String) : ctexts (keyStore k) = [] := by cases k <;> rfl

set_option maxHeartbeats 1600000 in
theorem texts_aux :
    (∀ base loop e, ctexts (exprCode base loop e) = exprTexts e) ∧
    (∀ base loop ns, ctexts (nodesCode base loop ns) = nodesTexts ns) ∧
    (∀ base loop n, ctexts (nodeCode base loop n) = nodeTexts n) ∧
    (∀ base loop k, ctexts (kwargsCode base loop k) = kwargsTexts k) ∧
    (∀ base loop f, ctexts (filtersCode base loop f) = filtersTexts f) ∧
    (∀ base loop o, ctexts (condCode base loop o) = optTexts o) ∧
    (∀ base loop (dflt : CInstr) o, (∀ s, dflt ≠ .writeText s) → ctexts (optExprCode base loop dflt o) = optTexts o) ∧
    (∀ base loop a, ctexts (arrayItemsCode base loop a) = arrayTexts a) ∧
    (∀ base loop m, ctexts (mapItemsCode base loop m) = mapTexts m) := by
  apply exprCode.mutual_induct
    (motive_1 := fun base loop e => ctexts (exprCode base loop e) = exprTexts e)
    (motive_2 := fun base loop ns => ctexts (nodesCode base loop ns) = nodesTexts ns)
    (motive_3 := fun base loop n => ctexts (nodeCode base loop n) = nodeTexts n)
    (motive_4 := fun base loop k => ctexts (kwargsCode base loop k) = kwargsTexts k)
    (motive_5 := fun base loop f => ctexts (filtersCode base loop f) = filtersTexts f)
    (motive_6 := fun base loop o => ctexts (condCode base loop o) = optTexts o)
    (motive_7 := fun base loop dflt o => (∀ s, dflt ≠ .writeText s) → ctexts (optExprCode base loop dflt o) = optTexts o)
    (motive_8 := fun base loop a => ctexts (arrayItemsCode base loop a) = arrayTexts a)
    (motive_9 := fun base loop m => ctexts (mapItemsCode base loop m) = mapTexts m)
  all_goals intros
  all_goals simp only [exprCode, nodesCode, nodeCode, kwargsCode, filtersCode, condCode, optExprCode,
    arrayItemsCode, mapItemsCode, exprTexts, nodesTexts, nodeTexts, kwargsTexts, filtersTexts,
    optTexts, arrayTexts, mapTexts] at *
  all_goals (try split)
  all_goals (try simp_all (config := { zetaDelta := true }) [ctexts_keyStore, sp, ns])
  all_goals (try simp_all [itext])
  all_goals (simp [nodesTexts])

theorem texts_nodes (ns : List Node) (base : Nat) (loop : Option Nat) :
    ctexts (nodesCode base loop ns) = nodesTexts ns := texts_aux.2.1 base loop ns

/-! ### the optimiser and the decoding keep the texts, in order -/

/-- payloads of the `WriteText` instructions of a stored chunk, in order -/
def vtexts (code : List Vm.VEntry) : List (List Char) :=
  code.flatMap fun e => match e.1 with | .writeText t => [t] | _ => []

/-- the text the instruction `x` of an encoded chunk stands for -/
def etext (code : Code) (x : Instr) : List (List Char) :=
  match decodeInstr code x with
  | some (.writeText t) => [t]
  | _ => []

def etexts (code : Code) (l : List Entry) : List (List Char) := l.flatMap fun e => etext code e.1

theorem vtexts_decodeAll (code : Code) : ∀ (r : List Entry) (vs : List Vm.VEntry),
    decodeAll code r = some vs → vtexts vs = etexts code r := by
  intro r
  induction r with
  | nil => intro vs h; simp only [decodeAll, Option.some.injEq] at h; subst h; rfl
  | cons x rest ih =>
    intro vs h
    simp only [decodeAll, decodeEntry] at h
    cases h1 : decodeInstr code x.1 with
    | none => simp [h1] at h
    | some v =>
      cases h2 : decodeAll code rest with
      | none => simp [h1, h2] at h
      | some vs' =>
        simp only [h1, h2, Option.map_some, Option.some.injEq] at h
        subst h
        simp only [vtexts, etexts, List.flatMap_cons, etext, h1] at ih ⊢
        rw [ih vs' h2]
        cases v <;> rfl

theorem vinstr_text (ci : CInstr) :
    (match vinstr ci with | some (.writeText t) => [t] | _ => []) = (itext ci).map String.toList := by
  cases ci <;> first | rfl | (rename_i op; cases op <;> rfl)

theorem etexts_encodeFrom (code : Code) : ∀ (rest : Code) (i : Nat),
    (∀ k e, rest[k]? = some e → code[i + k]? = some e) →
    etexts code (encodeFrom i rest) = (ctexts rest).map String.toList := by
  intro rest
  induction rest with
  | nil => intro i _; rfl
  | cons e tl ih =>
    intro i h
    simp only [encodeFrom, etexts, List.flatMap_cons, etext, ctexts_cons', List.map_append]
    rw [decode_encodeInstr code i e (by simpa using h 0 e rfl), vinstr_text]
    congr 1
    exact ih (i + 1) (fun k e' hk => by
      have := h (k + 1) e' (by simpa using hk)
      rwa [Nat.add_assoc, Nat.add_comm 1 k])

theorem etexts_encode (code : Code) : etexts code (encode code) = (ctexts code).map String.toList :=
  etexts_encodeFrom code code 0 (fun k e h => by simpa using h)

theorem etext_mapTarget (code : Code) (f : Nat → Nat) (i : Instr) :
    etext code (i.mapTarget f) = etext code i := by
  cases i <;> rfl

theorem etexts_attrs (code : Code) (taken : List (String × List Span)) :
    (taken.map attrEntry).flatMap (fun e => etext code e.1) = [] := by
  induction taken with
  | nil => rfl
  | cons a rest ih => simp only [List.map_cons, List.flatMap_cons, ih]; rfl

theorem etexts_optimized (code : Code) (r : List Entry) (h : optimize (encode code) = .ok r) :
    etexts code r = etexts code (encode code) := by
  rw [C09.optimize_ok _ _ h]
  have hp := C09.groups_parsed (encode code)
  conv_rhs => rw [← hp.concat]
  simp only [etexts, List.flatMap_map, List.flatMap_assoc]
  apply List.flatMap_congr
  intro g hg
  cases hp.shapes g hg with
  | keep e => simp only [remapTotal, List.flatMap_cons, List.flatMap_nil, List.append_nil, etext_mapTarget]
  | path n s taken _ _ =>
    simp only [remapTotal, Instr.mapTarget, List.flatMap_cons, etexts_attrs]
    rfl
  | write n s w taken _ =>
    simp only [remapTotal, Instr.mapTarget, List.flatMap_cons, List.flatMap_append, etexts_attrs,
      List.flatMap_nil]
    rfl

/-- **the stored chunk writes exactly the texts of the compiled chunk, in order** -/
theorem storeChunk_texts (name : String) (code : Code) (ch : Vm.Chunk)
    (h : storeChunk name code = .ok ch) : vtexts ch.code = (ctexts code).map String.toList := by
  unfold storeChunk at h
  cases hopt : optimize (encode code) with
  | panic s => simp [hopt] at h
  | ok r =>
    simp only [hopt] at h
    cases hdec : decodeAll code r with
    | none => simp [hdec] at h
    | some vs =>
      simp only [hdec, Stored.ok.injEq] at h
      subst h
      rw [vtexts_decodeAll code r vs hdec, etexts_optimized code r hopt, etexts_encode]

end texts

end Tera.Pipeline
