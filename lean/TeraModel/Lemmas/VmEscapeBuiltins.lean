/-
C01 on the value-level VM, part 7: the assumption `EnvHyp.filters / tests / functions` ("the
built-ins the listings use mint no Safe string"), discharged for the built-ins that
Model/Builtins.lean models (what the `cvm` / `cpipe` drivers put behind `Env.callFilter`, except
the collection filters, whose bodies live in the drivers).

Every filter body of `filterTable` other than `safe` returns a Normal string, a number, or one of
its arguments unchanged (`default`, `get`); every test returns a bool; `range` returns integers,
`throw` nothing.  `safe` is the one that mints — and the one C01 excludes.
-/
import TeraModel.Lemmas.VmEscapeClean
import TeraModel.Model.Builtins
namespace Tera.Vm
open Tera Tera.Args Tera.Builtins

variable {P : Char → Prop}

def kwOk (P : Char → Prop) (kw : Kwargs) : Prop := ∀ x ∈ kw, safeOk P x.2

/-- an outcome that, when it is a value, holds no Safe string outside `P` -/
def NoMint (P : Char → Prop) (o : Builtins.Outcome) : Prop := ∀ r, o = .ok r → safeOk P r

theorem find_ok {kw : Kwargs} {n : String} {v : Value} (hk : kwOk P kw) (h : kw.find n = some v) :
    safeOk P v := by
  induction kw with
  | nil => simp [Kwargs.find] at h
  | cons kv kw ih =>
    obtain ⟨k, x⟩ := kv
    simp only [Kwargs.find] at h
    split at h
    · simp only [Option.some.injEq] at h; subst h; exact hk (k, x) (by simp)
    · exact ih (fun y hy => hk y (by simp [hy])) h

theorem kwGet_id_ok {kw : Kwargs} {n : String} {d : Value} (hk : kwOk P kw)
    (h : kwGet (fun x => Except.ok x) kw n = .ok (some d)) : safeOk P d := by
  unfold kwGet at h
  split at h
  · rename_i v hv
    simp only [Except.map, Except.ok.injEq, Option.some.injEq] at h
    subst h; exact find_ok hk hv
  · cases h

theorem kwMust_id_ok {kw : Kwargs} {n : String} {d : Value} (hk : kwOk P kw)
    (h : kwMust (fun x => Except.ok x) kw n = .ok d) : safeOk P d := by
  unfold kwMust at h
  split at h
  · rename_i a ha
    simp only [Except.ok.injEq] at h; subst h; exact kwGet_id_ok hk ha
  · cases h
  · cases h

theorem noMint_ofExcept {α : Type} {r : Except BErr α} {k : α → Builtins.Outcome}
    (h : ∀ a, r = .ok a → NoMint P (k a)) : NoMint P (ofExcept r k) := by
  unfold Builtins.ofExcept
  split
  · rename_i a; exact h a rfl
  · intro r h; cases h

theorem noMint_strV (s : List Char) : NoMint P (.ok (strV s)) := by
  intro r h; simp only [Builtins.Outcome.ok.injEq] at h; subst h; simp [strV]

theorem noMint_bool (b : Bool) : NoMint P (.ok (.bool b)) := by
  intro r h; simp only [Builtins.Outcome.ok.injEq] at h; subst h; simp

theorem noMint_afterKw (checks : List (Kwargs → Except BErr Unit)) (v : Value) (kw : Kwargs) :
    NoMint P (afterKw checks v kw) := by
  intro r h
  unfold afterKw at h
  split at h <;> cases h

/-- closes `NoMint` goals of bodies that end in a fresh Normal string, a number or a bool -/
macro "nomint" : tactic => `(tactic| (
  intro r h
  repeat' (first | split at h | (dsimp only at h; split at h))
  all_goals (try dsimp only at h)
  all_goals first
    | (cases h; done)
    | (simp only [Builtins.Outcome.ok.injEq] at h; subst h; simp [strV]; done)))

theorem noMint_onStr {f : List Char → Kwargs → Builtins.Outcome} (hf : ∀ s kw, NoMint P (f s kw))
    (v : Value) (kw : Kwargs) : NoMint P (onStr f v kw) := by
  unfold onStr
  split
  · exact hf _ _
  · intro r h; cases h

theorem noMint_strFilter (f : List Char → List Char) (v : Value) (kw : Kwargs) :
    NoMint P ((strFilter f).body v kw) :=
  noMint_onStr (fun s _ => noMint_strV (f s)) v kw

theorem noMint_fTrimWith (ws : List Char → List Char) (pt : List Char → List Char → List Char)
    (s : List Char) (kw : Kwargs) : NoMint P (fTrimWith ws pt s kw) := by
  unfold fTrimWith Builtins.ofExcept; nomint

theorem noMint_fReplace (s : List Char) (kw : Kwargs) : NoMint P (fReplace s kw) := by
  unfold fReplace Builtins.ofExcept; nomint

theorem noMint_fTruncate (s : List Char) (kw : Kwargs) : NoMint P (fTruncate s kw) := by
  unfold fTruncate Builtins.ofExcept; nomint

theorem noMint_fIndent (s : List Char) (kw : Kwargs) : NoMint P (fIndent s kw) := by
  unfold fIndent Builtins.ofExcept; nomint

theorem noMint_fPluralize (v : Value) (kw : Kwargs) : NoMint P (fPluralize v kw) := by
  unfold fPluralize Builtins.ofExcept; nomint

theorem noMint_fInt (Pm : Params) (v : Value) (kw : Kwargs) : NoMint P (fInt Pm v kw) := by
  unfold fInt Builtins.ofExcept
  simp only
  nomint

theorem noMint_fFloat (Pm : Params) (v : Value) : NoMint P (fFloat Pm v) := by
  unfold fFloat; nomint

theorem noMint_fAbs (v : Value) : NoMint P (fAbs v) := by
  unfold fAbs; nomint

theorem noMint_fRound (x : F64) (kw : Kwargs) : NoMint P (fRound x kw) := by
  unfold fRound Builtins.ofExcept
  simp only
  nomint

/-- `default` hands back the receiver or the `value` argument, unchanged -/
theorem noMint_fDefault {v : Value} {kw : Kwargs} (hv : safeOk P v) (hk : kwOk P kw) :
    NoMint P (fDefault v kw) := by
  unfold fDefault
  apply noMint_ofExcept
  intro d hd
  apply noMint_ofExcept
  intro b _
  have hdok := kwMust_id_ok hk hd
  intro r h
  repeat' split at h
  all_goals (simp only [Builtins.Outcome.ok.injEq] at h; subst h; first | exact hv | exact hdok)

theorem lookupStr_ok {es : List (Key × Value)} {k : List Char} {v : Value}
    (hes : safeOk P (.map es)) (h : Builtins.lookupStr es k = some v) : safeOk P v := by
  rw [safeOk_map] at hes
  induction es with
  | nil => simp [Builtins.lookupStr] at h
  | cons kv es ih =>
    obtain ⟨k', x⟩ := kv
    have ih' := ih (fun y hy => hes y (by simp [hy]))
    cases k' <;> simp only [Builtins.lookupStr] at h <;> try exact ih' h
    split at h
    · rename_i str _
      simp only [Option.some.injEq] at h; subst h; exact hes (Key.str str, x) (by simp)
    · exact ih' h

/-- `get` hands back an entry of the map or the `default` argument, unchanged -/
theorem noMint_fGet {es : List (Key × Value)} {kw : Kwargs} (hes : safeOk P (.map es))
    (hk : kwOk P kw) : NoMint P (fGet es kw) := by
  unfold fGet
  apply noMint_ofExcept
  intro key _
  apply noMint_ofExcept
  intro d hd
  intro r h
  split at h
  · rename_i v hv
    simp only [Builtins.Outcome.ok.injEq] at h; subst h; exact lookupStr_ok hes hv
  · split at h
    · rename_i dv
      simp only [Builtins.Outcome.ok.injEq] at h; subst h
      exact kwGet_id_ok hk hd
    · cases h

/-- **Every filter of the model other than `safe` mints nothing**: whatever carries the Safe mark
in its result carried it in the receiver or in an argument. -/
theorem filterTable_mints_nothing (Pm : Params) :
    ∀ nb ∈ filterTable Pm, nb.1 ≠ "safe" → ∀ v kw, safeOk P v → kwOk P kw →
      NoMint P (nb.2.body v kw) := by
  intro nb hnb hne v kw hv hk
  simp only [filterTable, List.mem_cons, List.not_mem_nil, or_false] at hnb
  rcases hnb with rfl | rfl | rfl | rfl | rfl | rfl | rfl | rfl | rfl | rfl | rfl | rfl | rfl | rfl |
    rfl | rfl | rfl | rfl | rfl | rfl | rfl | rfl | rfl | rfl | rfl | rfl | rfl | rfl | rfl | rfl |
    rfl | rfl | rfl | rfl | rfl | rfl | rfl
  all_goals dsimp only
  · exact absurd rfl hne
  · exact noMint_fDefault hv hk
  · exact noMint_strFilter _ v kw
  · exact noMint_strFilter _ v kw
  · exact noMint_onStr (fun s _ => by nomint) v kw
  · exact noMint_strFilter _ v kw
  · exact noMint_strFilter _ v kw
  · exact noMint_strFilter _ v kw
  · exact noMint_fPluralize v kw
  · exact noMint_onStr (fun s kw => noMint_fTrimWith _ _ s kw) v kw
  · exact noMint_onStr (fun s kw => noMint_fTrimWith _ _ s kw) v kw
  · exact noMint_onStr (fun s kw => noMint_fTrimWith _ _ s kw) v kw
  · exact noMint_onStr noMint_fReplace v kw
  · exact noMint_strFilter _ v kw
  · exact noMint_strFilter _ v kw
  · exact noMint_onStr noMint_fTruncate v kw
  · exact noMint_onStr noMint_fIndent v kw
  · nomint
  · exact noMint_fInt Pm v kw
  · exact noMint_fFloat Pm v
  · exact noMint_afterKw _ v kw
  · exact noMint_afterKw _ v kw
  · exact noMint_afterKw _ v kw
  · exact noMint_fAbs v
  · intro r h
    split at h
    · exact noMint_fRound _ kw r h
    · cases h
  · exact noMint_afterKw _ v kw
  · exact noMint_afterKw _ v kw
  · exact noMint_afterKw _ v kw
  · exact noMint_afterKw _ v kw
  · intro r h
    split at h
    · cases h
    · exact noMint_afterKw _ v kw r h
  · exact noMint_afterKw _ v kw
  · intro r h
    split at h
    · rename_i es
      exact noMint_fGet hv hk r h
    · cases h
  · exact noMint_afterKw _ v kw
  · exact noMint_afterKw _ v kw
  · exact noMint_afterKw _ v kw
  · intro r h
    split at h
    · cases h
    · exact noMint_afterKw _ v kw r h

theorem noMint_apply {b : Builtin} {v : Value} {kw : Kwargs} (h : NoMint P (b.body v kw)) :
    NoMint P (b.apply v kw) := by
  unfold Builtin.apply
  split
  · intro r hr; cases hr
  · exact h

theorem noMint_onNumber {f : Number → Kwargs → Builtins.Outcome} (hf : ∀ n kw, NoMint P (f n kw))
    (v : Value) (kw : Kwargs) : NoMint P (onNumber f v kw) := by
  unfold onNumber
  split
  · exact hf _ _
  · intro r h; cases h

/-- Every test of the model answers a bool. -/
theorem testTable_mints_nothing : ∀ nb ∈ testTable, ∀ v kw, NoMint P (nb.2.body v kw) := by
  intro nb hnb v kw
  simp only [testTable, List.mem_cons, List.not_mem_nil, or_false] at hnb
  rcases hnb with rfl | rfl | rfl | rfl | rfl | rfl | rfl | rfl | rfl | rfl | rfl | rfl | rfl | rfl |
    rfl | rfl | rfl
  all_goals dsimp only [boolTest]
  iterate 11 exact noMint_bool _
  · exact noMint_onNumber (fun n kw => by nomint) v kw
  · exact noMint_onNumber (fun n kw => by nomint) v kw
  · exact noMint_onNumber (fun n kw => by unfold tDivisibleBy Builtins.ofExcept; nomint) v kw
  · exact noMint_onStr (fun s kw => by unfold tStartingWith Builtins.ofExcept; nomint) v kw
  · exact noMint_onStr (fun s kw => by unfold tEndingWith Builtins.ofExcept; nomint) v kw
  · unfold tContaining Builtins.ofExcept; nomint

/-- `range` returns integers, `throw` never returns. -/
theorem functionTable_mints_nothing (maxLen : Nat) :
    ∀ nb ∈ functionTable maxLen, ∀ v kw, NoMint P (nb.2.body v kw) := by
  intro nb hnb v kw
  simp only [functionTable, List.mem_cons, List.not_mem_nil, or_false] at hnb
  rcases hnb with rfl | rfl
  · dsimp only
    unfold fnRange
    apply noMint_ofExcept; intro s _
    apply noMint_ofExcept; intro e _
    apply noMint_ofExcept; intro st _
    unfold rangeCore
    simp only
    intro r h
    repeat' split at h
    all_goals first
      | (cases h; done)
      | skip
    simp only [Builtins.Outcome.ok.injEq] at h; subst h
    rw [safeOk_arr]
    intro x hx
    obtain ⟨n, _, rfl⟩ := List.mem_map.1 hx
    simp
  · dsimp only
    unfold fnThrow Builtins.ofExcept
    nomint

end Tera.Vm
