/-
`find_parents` against the graph specification (Spec/TplGraph.lean).
-/
import TeraModel.Spec.TplGraph
import TeraModel.Lemmas.RegResolve
namespace Tera.Reg

theorem Walk.snoc {E : String → String → Prop} {a x y : String} {cs : List String}
    (h : Walk E a cs x) (e : E x y) : Walk E a (cs ++ [y]) y := by
  induction h with
  | nil a => exact .cons e (.nil y)
  | cons e' _ ih => exact .cons e' (ih e)

theorem Walk.append {E : String → String → Prop} {a x y : String} {cs ds : List String}
    (h : Walk E a cs x) (h2 : Walk E x ds y) : Walk E a (cs ++ ds) y := by
  induction h with
  | nil a => simpa using h2
  | cons e' _ ih => exact .cons e' (ih h2)

/-- what each outcome of `find_parents` for the template `T` must mean -/
def FPSpec (ps : List String) (S : List Tpl) (T : String) : FPRes → Prop
  | .ok r => ∃ cs x, Walk (ExtEdge ps S) T cs x ∧ IsRoot S x ∧ (T :: cs).Nodup ∧ r = cs.reverse
  | .missingParent a p => ∃ cs, Walk (ExtEdge ps S) T cs a ∧ (T :: cs).Nodup ∧ Dangling ps S a p
  | .circular chain => ∃ cs x r, Walk (ExtEdge ps S) T cs x ∧ (T :: cs).Nodup ∧ ExtEdge ps S x r ∧
      r ∈ T :: cs ∧ chain = cs ++ [r]
  | .outOfFuel => False
  | .panic => False

theorem findParentsAux_sound (ps : List String) (S : List Tpl) (T : String) :
    ∀ (fuel : Nat) (t : Tpl) (cur : String) (parents : List String),
      get S cur = some t → Walk (ExtEdge ps S) T parents cur → (T :: parents).Nodup →
      (∀ x ∈ T :: parents, x ∈ keys S) → S.length + 1 ≤ fuel + parents.length →
      FPSpec ps S T (findParentsAux ps S T fuel t parents) := by
  intro fuel
  induction fuel with
  | zero =>
    intro t cur parents _ _ hnd hsub hlen
    exfalso
    have h1 := List.Nodup.length_le_of_subset hnd (fun x hx => hsub x hx)
    have h2 : (keys S).length = S.length := by simp [keys]
    simp at h1 hlen
    omega
  | succ fuel ih =>
    intro t cur parents hget hwalk hnd hsub hlen
    unfold findParentsAux
    cases hp : t.parent with
    | none =>
      simp only
      exact ⟨parents, cur, hwalk, ⟨t, hget, hp⟩, hnd, rfl⟩
    | some p =>
      simp only
      cases hr : resolve ps S p with
      | none =>
        simp only
        have hn := get_name hget
        rw [hn]
        exact ⟨parents, hwalk, hnd, ⟨t, hget, hp, hr⟩⟩
      | some r =>
        simp only
        have hedge : ExtEdge ps S cur r := ⟨t, p, hget, hp, hr⟩
        by_cases hc : r = T ∨ r ∈ parents
        · simp only [hc, if_true]
          exact ⟨parents, cur, r, hwalk, hnd, hedge, by simpa using hc, rfl⟩
        · simp only [hc, if_false]
          have hhas := resolve_has hr
          obtain ⟨pt, hpt⟩ := has_iff_get.mp hhas
          simp only [hpt]
          have hname := get_name hpt
          rw [hname]
          apply ih pt r (parents ++ [r]) hpt (hwalk.snoc hedge)
          · have : r ∉ T :: parents := by simpa using hc
            rw [← List.cons_append]
            exact List.nodup_append.mpr ⟨hnd, by simp, by
              intro a ha b hb
              simp at hb
              rw [hb]
              intro e
              exact this (e ▸ ha)⟩
          · intro x hx
            simp at hx
            rcases hx with h | h | h
            · exact hsub x (by simp [h])
            · exact hsub x (by simp [h])
            · rw [h]; exact has_mem_keys hhas
          · simp
            omega

end Tera.Reg

namespace Tera.Reg

theorem ExtEdge.functional {ps : List String} {S : List Tpl} {a b b' : String}
    (h : ExtEdge ps S a b) (h' : ExtEdge ps S a b') : b = b' := by
  obtain ⟨t, p, hg, hp, hr⟩ := h
  obtain ⟨t', p', hg', hp', hr'⟩ := h'
  rw [hg] at hg'; cases hg'
  rw [hp] at hp'; cases hp'
  rw [hr] at hr'; cases hr'
  rfl

theorem IsRoot.no_edge {ps : List String} {S : List Tpl} {a b : String}
    (h : IsRoot S a) : ¬ ExtEdge ps S a b := by
  rintro ⟨t', p', hg', hp', _⟩
  obtain ⟨t, hg, hp⟩ := h
  rw [hg] at hg'; cases hg'
  rw [hp] at hp'; cases hp'

theorem Dangling.no_edge {ps : List String} {S : List Tpl} {a p b : String}
    (h : Dangling ps S a p) : ¬ ExtEdge ps S a b := by
  rintro ⟨t', p', hg', hp', hr'⟩
  obtain ⟨t, hg, hp, hr⟩ := h
  rw [hg] at hg'; cases hg'
  rw [hp] at hp'; cases hp'
  rw [hr] at hr'; cases hr'

theorem Dangling.not_root {ps : List String} {S : List Tpl} {a p : String}
    (h : Dangling ps S a p) : ¬ IsRoot S a := by
  rintro ⟨t', hg', hp'⟩
  obtain ⟨t, hg, hp, _⟩ := h
  rw [hg] at hg'; cases hg'
  rw [hp] at hp'; cases hp'

theorem Dangling.functional {ps : List String} {S : List Tpl} {a p p' : String}
    (h : Dangling ps S a p) (h' : Dangling ps S a p') : p = p' := by
  obtain ⟨t, hg, hp, _⟩ := h
  obtain ⟨t', hg', hp', _⟩ := h'
  rw [hg] at hg'; cases hg'
  rw [hp] at hp'; cases hp'
  rfl

theorem Walk.nil_eq {E : String → String → Prop} {a x : String} (h : Walk E a [] x) : x = a := by
  cases h; rfl

/-- two walks from the same node along a functional relation: one continues the other -/
theorem walk_comparable {E : String → String → Prop}
    (hf : ∀ a b b', E a b → E a b' → b = b') {a x x' : String} {cs cs' : List String}
    (h : Walk E a cs x) (h' : Walk E a cs' x') :
    (∃ ds, cs' = cs ++ ds ∧ Walk E x ds x') ∨ (∃ ds, cs = cs' ++ ds ∧ Walk E x' ds x) := by
  induction h generalizing cs' x' with
  | nil a => exact .inl ⟨cs', by simp, h'⟩
  | @cons a b x cs e w ih =>
    cases h' with
    | nil => exact .inr ⟨b :: cs, by simp, .cons e w⟩
    | @cons _ b' _ cs'' e' w' =>
      have hb := hf _ _ _ e e'
      subst hb
      rcases ih w' with ⟨ds, h1, h2⟩ | ⟨ds, h1, h2⟩
      · exact .inl ⟨ds, by simp [h1], h2⟩
      · exact .inr ⟨ds, by simp [h1], h2⟩

/-- The walk cannot be continued without repeating a template: the three ways `find_parents` ends. -/
def Stuck (ps : List String) (S : List Tpl) (T : String) (cs : List String) (x : String) : Prop :=
  IsRoot S x ∨ (∃ p, Dangling ps S x p) ∨ (∃ r, ExtEdge ps S x r ∧ r ∈ T :: cs)

theorem stuck_no_ext {ps : List String} {S : List Tpl} {T x x' : String} {cs ds : List String}
    (hs : Stuck ps S T cs x) (hw : Walk (ExtEdge ps S) x ds x') (hnd : (T :: (cs ++ ds)).Nodup) :
    ds = [] := by
  cases hw with
  | nil => rfl
  | @cons _ d _ ds' e w =>
    exfalso
    rcases hs with h | ⟨p, h⟩ | ⟨r, he, hr⟩
    · exact h.no_edge e
    · exact h.no_edge e
    · have := he.functional e
      subst this
      rw [← List.cons_append] at hnd
      have := (List.nodup_append.mp hnd).2.2 r hr r (by simp)
      exact this rfl

theorem stuck_unique {ps : List String} {S : List Tpl} {T x x' : String} {cs cs' : List String}
    (hw : Walk (ExtEdge ps S) T cs x) (hnd : (T :: cs).Nodup) (hs : Stuck ps S T cs x)
    (hw' : Walk (ExtEdge ps S) T cs' x') (hnd' : (T :: cs').Nodup) (hs' : Stuck ps S T cs' x') :
    cs = cs' ∧ x = x' := by
  rcases walk_comparable (E := ExtEdge ps S) (fun _ _ _ h h' => h.functional h') hw hw' with ⟨ds, h1, h2⟩ | ⟨ds, h1, h2⟩
  · subst h1
    have := stuck_no_ext hs h2 hnd'
    subst this
    exact ⟨by simp, h2.nil_eq.symm⟩
  · subst h1
    have := stuck_no_ext hs' h2 hnd
    subst this
    exact ⟨by simp, h2.nil_eq⟩

/-- every outcome of the specification corresponds to a stuck duplicate-free walk -/
theorem FPSpec.stuck {ps : List String} {S : List Tpl} {T : String} {res : FPRes}
    (h : FPSpec ps S T res) :
    ∃ cs x, Walk (ExtEdge ps S) T cs x ∧ (T :: cs).Nodup ∧ Stuck ps S T cs x ∧
      (∀ r, res = .ok r → IsRoot S x ∧ r = cs.reverse) ∧
      (∀ a p, res = .missingParent a p → a = x ∧ Dangling ps S x p) ∧
      (∀ ch, res = .circular ch → ∃ r, ExtEdge ps S x r ∧ r ∈ T :: cs ∧ ch = cs ++ [r]) := by
  cases res with
  | ok r =>
    obtain ⟨cs, x, hw, hr, hnd, e⟩ := h
    exact ⟨cs, x, hw, hnd, .inl hr, fun r' e' => (by cases e'; exact ⟨hr, e⟩),
      fun _ _ e' => (by cases e'), fun _ e' => (by cases e')⟩
  | missingParent a p =>
    obtain ⟨cs, hw, hnd, hd⟩ := h
    exact ⟨cs, a, hw, hnd, .inr (.inl ⟨p, hd⟩), fun _ e' => (by cases e'),
      fun _ _ e' => (by cases e'; exact ⟨rfl, hd⟩), fun _ e' => (by cases e')⟩
  | circular ch =>
    obtain ⟨cs, x, r, hw, hnd, he, hr, e⟩ := h
    exact ⟨cs, x, hw, hnd, .inr (.inr ⟨r, he, hr⟩), fun _ e' => (by cases e'),
      fun _ _ e' => (by cases e'), fun _ e' => (by cases e'; exact ⟨r, he, hr, e⟩)⟩
  | outOfFuel => exact h.elim
  | panic => exact h.elim

end Tera.Reg

namespace Tera.Reg

theorem findParents_fpspec (ps : List String) (S : List Tpl) (t : Tpl) (hT : get S t.name = some t) :
    FPSpec ps S t.name (findParents ps S t) := by
  unfold findParents
  apply findParentsAux_sound ps S t.name (S.length + 1) t t.name [] hT (.nil _)
  · simp
  · intro x hx
    simp at hx
    rw [hx]
    exact has_mem_keys (has_iff_get.mpr ⟨t, hT⟩)
  · simp

theorem fp_unique {ps : List String} {S : List Tpl} {t : Tpl} (hT : get S t.name = some t)
    {cs : List String} {x : String}
    (hw : Walk (ExtEdge ps S) t.name cs x) (hnd : (t.name :: cs).Nodup) (hs : Stuck ps S t.name cs x) :
    (∀ r, findParents ps S t = .ok r → IsRoot S x ∧ r = cs.reverse) ∧
    (∀ a p, findParents ps S t = .missingParent a p → a = x ∧ Dangling ps S x p) ∧
    (∀ ch, findParents ps S t = .circular ch → ∃ r, ExtEdge ps S x r ∧ r ∈ t.name :: cs ∧ ch = cs ++ [r]) ∧
    findParents ps S t ≠ .outOfFuel ∧ findParents ps S t ≠ .panic := by
  have hsound := findParents_fpspec ps S t hT
  obtain ⟨cs', x', hw', hnd', hs', h1, h2, h3⟩ := hsound.stuck
  obtain ⟨e1, e2⟩ := stuck_unique hw hnd hs hw' hnd' hs'
  subst e1; subst e2
  refine ⟨h1, h2, h3, ?_, ?_⟩
  · intro e; rw [e] at hsound; exact hsound
  · intro e; rw [e] at hsound; exact hsound


end Tera.Reg
