/-
C01 on the value-level VM, part 1: the provenance predicate, as a RELATION on the real model's
values and states (nothing of the VM is rewritten or tagged).

`P : Char → Prop` is any set of characters; `AllP P s` = every character of `s` is in it.
`safeOk P v` = every string inside `v` that carries `StringKind::Safe` — at any depth, in arrays
and in map values — is made of `P` characters only.  `StateOk P st` = the same for every value the
state holds (value stack, set variables, loop items / locals, the includers' scopes, the contexts),
and the texts of the capture buffers, the output and the block buffer are made of `P` characters.

The C01 theorems instantiate `P` with a set that contains what the escaper writes and what scalars
print as (`Admissible`), and the literal template text of the chunks: `StateOk` is then the
invariant "nothing but literal text, escaper output and scalars ever got into a Safe string or
into an output".

This file: the predicates and their behaviour under the value primitives (`get_attr`, `get_item`,
`slice`, map inserts, iteration, `mark_safe`, name lookup, assignments).
-/
import TeraModel.Lemmas.VmWriterTrace
namespace Tera.Vm
open Tera

def AllP (P : Char → Prop) (s : List Char) : Prop := ∀ c ∈ s, P c

theorem AllP.nil {P : Char → Prop} : AllP P [] := fun _ h => by cases h

theorem AllP.append {P : Char → Prop} {a b : List Char} (ha : AllP P a) (hb : AllP P b) :
    AllP P (a ++ b) := by
  intro c hc
  rcases List.mem_append.1 hc with h | h
  · exact ha c h
  · exact hb c h

theorem AllP.of_subset {P : Char → Prop} {a b : List Char} (hb : AllP P b) (h : ∀ c ∈ a, c ∈ b) :
    AllP P a := fun c hc => hb c (h c hc)

mutual
/-- every Safe string inside the value, at any depth, is made of `P` characters -/
def safeOk (P : Char → Prop) : Value → Prop
  | .str safe s => safe = true → AllP P s
  | .arr xs => safeOkList P xs
  | .map es => safeOkEntries P es
  | .undef | .none | .bool _ | .u64 _ | .i64 _ | .u128 _ | .i128 _ | .f64 _ | .bytes _ => True

def safeOkList (P : Char → Prop) : List Value → Prop
  | [] => True
  | v :: vs => safeOk P v ∧ safeOkList P vs

def safeOkEntries (P : Char → Prop) : List (Key × Value) → Prop
  | [] => True
  | (_, v) :: es => safeOk P v ∧ safeOkEntries P es
end

variable {P : Char → Prop}

theorem safeOkList_iff (xs : List Value) : safeOkList P xs ↔ ∀ v ∈ xs, safeOk P v := by
  induction xs with
  | nil => simp [safeOkList]
  | cons v vs ih => simp [safeOkList, ih]

theorem safeOkEntries_iff (es : List (Key × Value)) : safeOkEntries P es ↔ ∀ kv ∈ es, safeOk P kv.2 := by
  induction es with
  | nil => simp [safeOkEntries]
  | cons kv es ih =>
    obtain ⟨k, v⟩ := kv
    simp [safeOkEntries, ih]

@[simp] theorem safeOk_arr (xs : List Value) : safeOk P (.arr xs) ↔ ∀ v ∈ xs, safeOk P v := by
  rw [safeOk, safeOkList_iff]

@[simp] theorem safeOk_map (es : List (Key × Value)) : safeOk P (.map es) ↔ ∀ kv ∈ es, safeOk P kv.2 := by
  rw [safeOk, safeOkEntries_iff]

@[simp] theorem safeOk_str_true (s : List Char) : safeOk P (.str true s) ↔ AllP P s := by
  rw [safeOk]; simp
@[simp] theorem safeOk_str_false (s : List Char) : safeOk P (.str false s) := by rw [safeOk]; simp
@[simp] theorem safeOk_undef : safeOk P .undef := by rw [safeOk]; trivial
@[simp] theorem safeOk_none : safeOk P .none := by rw [safeOk]; trivial
@[simp] theorem safeOk_bool (b : Bool) : safeOk P (.bool b) := by rw [safeOk]; trivial
@[simp] theorem safeOk_u64 (n : Nat) : safeOk P (.u64 n) := by rw [safeOk]; trivial
@[simp] theorem safeOk_i64 (n : Int) : safeOk P (.i64 n) := by rw [safeOk]; trivial
@[simp] theorem safeOk_u128 (n : Nat) : safeOk P (.u128 n) := by rw [safeOk]; trivial
@[simp] theorem safeOk_i128 (n : Int) : safeOk P (.i128 n) := by rw [safeOk]; trivial
@[simp] theorem safeOk_f64 (x : F64) : safeOk P (.f64 x) := by rw [safeOk]; trivial
@[simp] theorem safeOk_bytes (b : List Nat) : safeOk P (.bytes b) := by rw [safeOk]; trivial

theorem safeOk_of_isNumber {v : Value} (h : v.isNumber = true) : safeOk P v := by
  cases v <;> simp [Value.isNumber] at h <;> simp

theorem safeOk_str {b : Bool} {s : List Char} (h : AllP P s) : safeOk P (.str b s) := by
  cases b <;> simp [h]

/-! ### maps -/

theorem mapGet_mem {es : Entries} {k : Key} {v : Value} (h : mapGet es k = some v) :
    ∃ k', (k', v) ∈ es := by
  induction es with
  | nil => simp [mapGet] at h
  | cons kv es ih =>
    obtain ⟨k', v'⟩ := kv
    simp only [mapGet] at h
    split at h
    · simp only [Option.some.injEq] at h; subst h; exact ⟨k', by simp⟩
    · obtain ⟨k2, hk⟩ := ih h; exact ⟨k2, by simp [hk]⟩

theorem safeOk_mapGet {es : Entries} {k : Key} {v : Value} (hes : safeOk P (.map es))
    (h : mapGet es k = some v) : safeOk P v := by
  obtain ⟨k', hk⟩ := mapGet_mem h
  exact (safeOk_map es).1 hes _ hk

theorem safeOk_mapInsert {es : Entries} (k : Key) {v : Value} (hes : safeOk P (.map es))
    (hv : safeOk P v) : safeOk P (.map (mapInsert es k v)) := by
  rw [safeOk_map] at hes ⊢
  induction es with
  | nil => intro kv h; simp [mapInsert] at h; subst h; exact hv
  | cons kv es ih =>
    obtain ⟨k', v'⟩ := kv
    intro x hx
    simp only [mapInsert] at hx
    split at hx
    · rcases List.mem_cons.1 hx with rfl | h
      · exact hv
      · exact hes x (by simp [h])
    · rcases List.mem_cons.1 hx with rfl | h
      · exact hes _ (by simp)
      · exact ih (fun y hy => hes y (by simp [hy])) x h

theorem safeOk_mapInsertIfAbsent {es : Entries} (k : Key) {v : Value} (hes : safeOk P (.map es))
    (hv : safeOk P v) : safeOk P (.map (mapInsertIfAbsent es k v)) := by
  unfold mapInsertIfAbsent
  split
  · exact hes
  · rw [safeOk_map] at hes ⊢
    intro x hx
    rcases List.mem_append.1 hx with h | h
    · exact hes x h
    · simp at h; subst h; exact hv

theorem safeOk_getAttr {v : Value} (attr : List Char) (hv : safeOk P v) :
    safeOk P ((v.getAttr attr).getD .undef) := by
  unfold Value.getAttr
  split
  · rename_i es
    cases h : mapGet es (.str attr) with
    | none => simp
    | some x => exact safeOk_mapGet hv h
  · simp

theorem safeOk_getAttr_some {v x : Value} {attr : List Char} (hv : safeOk P v)
    (h : v.getAttr attr = some x) : safeOk P x := by
  have := safeOk_getAttr (P := P) attr hv
  rw [h] at this; exact this

/-! ### index and slice: the two operations that keep the Safe mark -/

theorem sliceLoop_mem {α : Type} (items : List α) (fuel : Nat) (i e step : Int) :
    ∀ x ∈ sliceLoop items fuel i e step, x ∈ items := by
  fun_induction sliceLoop items fuel i e step with
  | case1 => intro x h; cases h
  | case2 fuel i e step hc y hy ih =>
    intro x h
    rcases List.mem_cons.1 h with rfl | h
    · exact List.mem_of_getElem? hy
    · exact ih x h
  | case3 => intro x h; cases h
  | case4 => intro x h; cases h

theorem sliceItems_mem {α : Type} (items : List α) (start stop : Option Int) (step : Int) :
    ∀ x ∈ sliceItems items start stop step, x ∈ items := by
  unfold sliceItems
  exact sliceLoop_mem items _ _ _ _

/-- `Value::slice` keeps the mark of a string and the elements of an array: nothing new is Safe. -/
theorem safeOk_slice {v r : Value} (s e st : Option Int) (hv : safeOk P v)
    (h : v.slice s e st = .ok r) : safeOk P r := by
  unfold Value.slice at h
  simp only at h
  split at h
  · cases h
  · split at h
    · rename_i xs
      simp only [Except.ok.injEq] at h; subst h
      rw [safeOk_arr] at hv ⊢
      exact fun x hx => hv x (sliceItems_mem _ _ _ _ x hx)
    · rename_i safe str
      simp only [Except.ok.injEq] at h; subst h
      cases safe
      · simp
      · rw [safeOk_str_true] at hv ⊢
        exact hv.of_subset (sliceItems_mem _ _ _ _)
    · cases h

/-- `Value::get_item`: a character of a Safe string is Safe (and is a character of that string). -/
theorem safeOk_getItem {v item r : Value} (hv : safeOk P v) (h : v.getItem item = .ok r) :
    safeOk P r := by
  unfold Value.getItem at h
  split at h
  · rename_i es
    split at h
    · simp only [Except.ok.injEq] at h; subst h
      rename_i k _
      cases hg : mapGet es k with
      | none => simp
      | some x => exact safeOk_mapGet hv hg
    · cases h
  · rename_i xs
    split at h
    · rename_i i _
      simp only [Except.ok.injEq] at h; subst h
      rw [safeOk_arr] at hv
      rw [List.getD_eq_getElem?_getD]
      cases hx : xs[i]? with
      | none => simp
      | some x => exact hv _ (List.mem_of_getElem? hx)
    · simp only [Except.ok.injEq] at h; subst h; simp
    · cases h
  · rename_i safe s
    split at h
    · rename_i i _
      simp only [Except.ok.injEq] at h; subst h
      split
      · rename_i ch hc
        cases safe
        · simp
        · rw [safeOk_str_true] at hv ⊢
          intro x hx
          simp at hx; subst hx
          exact hv _ (List.mem_of_getElem? hc)
      · simp
    · simp only [Except.ok.injEq] at h; subst h; simp
    · cases h
  · simp only [Except.ok.injEq] at h; subst h; simp

/-! ### `mark_safe`, keys -/

def isNormalStr : Value → Bool
  | .str false _ => true
  | _ => false

/-- `mark_safe` on anything but a Normal string changes nothing -/
theorem markSafe_eq {v : Value} (h : isNormalStr v = false) : v.markSafe = v := by
  cases v <;> try rfl
  rename_i safe s
  cases safe
  · simp [isNormalStr] at h
  · rfl

theorem safeOk_keyToValue (k : Key) : safeOk P (keyToValue k) := by
  cases k <;> simp [keyToValue]

/-! ### arithmetic yields numbers -/

theorem mathOp_isNumber {iop : Int → Int → Int} {fop : F64 → F64 → F64} {l r v : Value}
    (h : mathOp iop fop l r = .ok v) : v.isNumber = true := by
  unfold mathOp at h
  repeat' split at h
  all_goals first
    | (cases h; done)
    | (simp only [Except.ok.injEq] at h; subst h; rfl)

theorem mathFn_isNumber {F : FloatOps} {op : MathOp} {l r v : Value}
    (h : mathFn F op l r = .ok v) : v.isNumber = true := by
  cases op <;> simp only [mathFn] at h
  · exact mathOp_isNumber h
  · unfold div at h
    repeat' split at h
    all_goals first
      | (cases h; done)
      | (simp only [Except.ok.injEq] at h; subst h; rfl)
  · unfold floorDiv at h
    repeat' split at h
    all_goals first
      | (cases h; done)
      | (simp only [Except.ok.injEq] at h; subst h; rfl)
  · unfold rem at h
    repeat' split at h
    all_goals first
      | (cases h; done)
      | (simp only [Except.ok.injEq] at h; subst h; rfl)
  · exact mathOp_isNumber h
  · unfold pow at h
    simp only at h
    repeat' split at h
    all_goals first
      | (cases h; done)
      | (simp only [Except.ok.injEq] at h; subst h; rfl)

theorem negate_isNumber {F : FloatOps} {a v : Value} (h : negate F a = .ok v) : v.isNumber = true := by
  unfold negate at h
  repeat' split at h
  all_goals first
    | (cases h; done)
    | (simp only [Except.ok.injEq] at h; subst h; rfl)

end Tera.Vm
