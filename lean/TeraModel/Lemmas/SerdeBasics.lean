/-
Lemmas about the serde bridge model (Model/Serde.lean): key refusal, integer printing,
context construction.
-/
import TeraModel.Model.Serde
import TeraModel.Lemmas.ContribJson
import TeraModel.Lemmas.SerdeRoundtrip
namespace Tera.Serde
open Tera

/-- the only serialisation error there is -/
theorem serErr_eq (e : SerErr) : e = .badKey := by cases e; rfl

theorem serEntries_bad : ∀ (es : List (SVal × SVal)) (acc : List (Key × Value)),
    (∃ e ∈ es, serKey e.1 = .error .badKey) → serEntries es acc = .error .badKey
  | [], _, h => by obtain ⟨e, he, _⟩ := h; cases he
  | (k, v) :: es, acc, h => by
    rw [serEntries]
    cases hk : serKey k with
    | error e => simp [serErr_eq e]
    | ok key =>
      cases hv : ser v with
      | error e => simp [serErr_eq e]
      | ok value =>
        simp only
        apply serEntries_bad es
        obtain ⟨e, he, hbad⟩ := h
        simp only [List.mem_cons] at he
        rcases he with rfl | he
        · simp [hk] at hbad
        · exact ⟨e, he, hbad⟩

theorem intDigits_injective {n m : Int} (h : Contrib.intDigits n = Contrib.intDigits m) : n = m := by
  have a := Contrib.readInt_intDigits n
  have b := Contrib.readInt_intDigits m
  rw [h, b] at a
  exact (Option.some.inj a).symm

theorem intDigits_ofNat (n : Nat) : Contrib.intDigits (n : Int) = Contrib.natDigits n := by
  unfold Contrib.intDigits
  have : ¬ ((n : Int) < 0) := by omega
  simp [this]

theorem ctxOfEntries_append (m : List (Key × Value)) (k : Key) (v : Value) :
    ctxOfEntries (m ++ [(k, v)]) = ctxInsert (fmtKey k) v (ctxOfEntries m) := by
  simp [ctxOfEntries, List.foldl_append]

theorem serFields_ctx : ∀ (xs : List (Name × SVal)) (acc : List (Key × Value)),
    (xs.map (·.1)).Nodup → (∀ a ∈ acc, ∀ n ∈ xs.map (·.1), keyEq a.1 (.str n) = false) →
    (match serFields xs acc with
      | .ok m => some (ctxOfEntries m)
      | .error _ => none) = insertAll xs (ctxOfEntries acc)
  | [], acc, _, _ => by simp [serFields, insertAll]
  | (n, x) :: rest, acc, hn, hacc => by
    rw [serFields, insertAll, ctxInsertSer]
    cases hx : ser x with
    | error e => simp
    | ok v =>
      simp only
      have hnd : n ∉ rest.map (·.1) ∧ (rest.map (·.1)).Nodup := List.nodup_cons.1 hn
      have hins : mapInsert (.str n) v acc = acc ++ [(.str n, v)] :=
        mapInsert_append _ _ _ (fun a ha => hacc a ha n (by simp))
      rw [hins, show ctxInsert n v (ctxOfEntries acc) = ctxOfEntries (acc ++ [(.str n, v)]) from
        (ctxOfEntries_append acc (.str n) v).symm]
      apply serFields_ctx rest
      · exact hnd.2
      · intro a ha m hm
        simp only [List.mem_append, List.mem_singleton] at ha
        rcases ha with ha | rfl
        · exact hacc a ha m (by simp at hm ⊢; exact Or.inr hm)
        · simp only [keyEq]
          have : n ≠ m := fun e => hnd.1 (e ▸ hm)
          simpa using this

end Tera.Serde
