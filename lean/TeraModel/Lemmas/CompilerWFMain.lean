/-
T1, main induction: every construct's code, sitting anywhere in a chunk `C`, passes the local check
of every one of its instructions against any table `T` that contains the construct's table
segment (`exprTab` …) at the same place and the construct's exit state right after it.
-/
import TeraModel.Lemmas.CompilerWF
import Mathlib.Tactic.CasesM
namespace Tera.Compiler
open Tera.WellFormed

theorem cop_ite (c : Prop) [Decidable c] (x y : CInstr) : cop (if c then x else y) = if c then cop x else cop y := by
  split <;> rfl

theorem loopCtx_isSome {T : List St} {loop : Option Nat} {a : St} (h : LoopCtx T loop a) :
    loop.isSome = true := by
  obtain ⟨idx, _, _, _, _, h, _⟩ := h
  simp [h]

/-- side condition "inside a loop body there is a current loop" -/
macro "loopc" : tactic => `(tactic| first
  | (intro h; exact loopCtx_isSome (by apply_assumption; exact h))
  | (intro _; rfl)
  | (intro h; cases h; done))

theorem loopCtx_intro {T : List St} {idx t : Nat} {a : St}
    (h1 : T[idx]? = some (loopUp a none)) (h2 : T[t]? = some (loopUp a none)) :
    LoopCtx T (some idx) (loopUp a (some t)) :=
  ⟨idx, t, a.loops, _, _, rfl, h1, le_loopUp a _, rfl, h2, le_loopUp a _⟩

theorem rule_break {C : Code} {T : List St} {pc : Nat} {a : St} {loop : Option Nat}
    (hC : C[pc]? = some (ns .break_)) (hT : T[pc]? = some a) (hl : LoopCtx T loop a) :
    LocalOK C T pc := by
  obtain ⟨idx, t, rest, b1, b2, _, _, _, hlo, h2, hle⟩ := hl
  exact rule1 hC hT (step_break pc t a rest hlo) (cov_le h2 hle)

theorem rule_continue {C : Code} {T : List St} {pc idx : Nat} {a : St}
    (hC : C[pc]? = some (ns (.jump idx))) (hT : T[pc]? = some a) (hl : LoopCtx T (some idx) a) :
    LocalOK C T pc := by
  obtain ⟨idx', t, rest, b1, b2, he, h1, hle, _, _, _⟩ := hl
  cases he
  exact rule1 hC hT (step_jump idx pc a) (cov_le h1 hle)

theorem head_keyTab {T : List St} {idx : Nat} {h : St} {k : Option String}
    (hs : Seg T idx (keyTab h k)) (he : T[idx + (keyStore k).length]? = some h) : T[idx]? = some h := by
  cases k with
  | none => simpa [keyStore] using he
  | some x => exact ((seg_cons T idx h []).mp hs).1

theorem okr_keyStore {C : Code} {T : List St} {idx : Nat} {a : St} {e : Option Nat} {k : Option String}
    (hC : Seg C idx (keyStore k)) (hT : Seg T idx (keyTab (loopUp a e) k))
    (he : T[idx + (keyStore k).length]? = some (loopUp a e)) : OKr C T idx (keyStore k).length := by
  cases k with
  | none => simp [keyStore, okr_zero]
  | some x =>
    simp only [keyStore, List.length_cons, List.length_nil, Nat.zero_add] at he ⊢
    rw [okr_one]
    exact rule1 ((seg_cons C idx _ []).mp hC).1 ((seg_cons T idx _ []).mp hT).1
      (step_storeLocal idx a e) (cov_eq he)

theorem head_cond_same {T : List St} {b : Nat} {loop : Option Nat} {a : St} {o : Option Expr}
    (hs : Seg T b (condTab b loop a o)) (he : T[b + (condCode b loop o).length]? = some a)
    (h : optExprScoped o = true) : T[b]? = some a := by
  have := head_cond hs he h
  simpa using this

theorem head_cond_some {T : List St} {b : Nat} {loop : Option Nat} {a : St} {o : Option Expr}
    (hs : Seg T b (condTab b loop a o)) (hx : ∃ c, o = some c)
    (h : optExprScoped o = true) : T[b]? = some a := by
  obtain ⟨c, rfl⟩ := hx
  simp only [condTab] at hs
  simp only [optExprScoped] at h
  exact head_expr hs h

theorem tfact_congr {T : List St} {i : Nat} {a : St} {m n : Nat}
    (h : T[i]? = some (pushN a m)) (e : m = n) : T[i]? = some (pushN a n) := e ▸ h

/-- a fact `T[i]? = some s` that is in the context (up to the normal form of `pushN`) -/
macro "tfact1" : tactic => `(tactic| first
    | assumption
    | (simp only [pushN_pushN, pushN_zero, Nat.reduceAdd, Nat.reduceMul, Nat.mul_zero, List.length_nil]; assumption)
    | (simp only [pushN_pushN, pushN_zero, Nat.reduceAdd, Nat.reduceMul, Nat.mul_zero, List.length_nil]
       refine tfact_congr (m := ?m) (by assumption) ?e
       simp only [List.length_cons, mapSlots]; omega)
    | (refine tfact_congr (m := ?m) (n := 0) (by assumption) ?e
       simp only [List.length_nil, mapSlots]))

/-- a fact `T[i]? = some s`: in the context, or the entry state of the sub-fragment at `i` -/
macro "tfact0" : tactic => `(tactic| first
    | tfact1
    | exact head_expr (by assumption) (by assumption)
    | exact head_opt (by assumption) (by assumption)
    | exact head_kwargs (by assumption) (by tfact1)
    | exact head_filters (by assumption) (by tfact1)
    | exact head_array (by assumption) (by tfact1) (by assumption)
    | exact head_map (by assumption) (by tfact1) (by assumption)
    | exact head_nodes (by assumption) (by tfact1) (by assumption) (by loopc)
    | exact head_node (by assumption) (by assumption) (by loopc)
    | exact head_keyTab (by assumption) (by tfact1)
    | exact head_cond_some (by assumption) (by assumption) (by assumption)
    | exact head_cond_same (by assumption)
        (by first | tfact1 | exact head_expr (by assumption) (by assumption)) (by assumption))

macro "tfact" : tactic => `(tactic| first
    | tfact0
    | (simp only [pushN_pushN, pushN_zero, Nat.reduceAdd, Nat.reduceMul, Nat.mul_zero, List.length_nil]; tfact0))

macro "covt" : tactic => `(tactic| first
  | exact cov_eq (by tfact)
  | exact cov_le (by tfact) (le_pushList _)
  | exact cov_le (by tfact) (le_loopUp _ _))

macro "stept" : tactic => `(tactic| (
  try simp only [sp, ns, setInstr, cop_ite, cop_unaryInstr]
  try rw [‹cop _ = Op.push false›]
  try simp only [cop, ite_self]
  first
  | exact step_push _ _ | exact step_popPush _ _ _ | exact step_popPushList _ _ _
  | exact step_pop1 _ _ | exact step_nop _ _ | exact step_jump _ _ _
  | exact step_popJumpIfFalse _ _ _ | exact step_jumpOrPop _ _ _ | exact step_capture _ _
  | exact step_endCapture _ _ | exact step_startIterate _ _ | exact step_storeLocal _ _ _
  | exact step_iterate _ _ _ _ | exact step_storeDidNotIterate _ _ _ | exact step_popLoop _ _ _
  | exact step_popLoop1 _ _ _ | exact step_appendToList _ _ _ | exact step_buildMap _ _ _
  | exact step_mapBuild _ _ _ | exact step_arrayBuild _ _ _))

macro "wf_step" : tactic => `(tactic| first
  | (apply_assumption
     all_goals (try (first | tfact | (intro _; exact loopCtx_intro (by tfact) (by tfact)) | loopc))
     all_goals (first | rfl | tfact)
     done)
  | exact okr_keyStore (by assumption) (by assumption) (by tfact)
  | exact rule_break (by assumption) (by assumption) (by apply_assumption; assumption)
  | exact rule_continue (by assumption) (by assumption) (by apply_assumption; assumption)
  | (refine rule1 (x := ?x) (by assumption) (by assumption) ?hs ?hc
     case hs => stept
     case hc => covt)
  | (refine rule2 (x := ?x) (y := ?y) (by assumption) (by assumption) ?hs ?hc1 ?hc2
     case hs => stept
     case hc1 => covt
     case hc2 => covt))

set_option maxHeartbeats 4000000 in
theorem wf_aux :
    (∀ (_ : Nat) (_ : Option Nat) e, WfM1 e) ∧
    (∀ (_ : Nat) (_ : Option Nat) ns, WfM2 ns) ∧
    (∀ (_ : Nat) (_ : Option Nat) n, WfM3 n) ∧
    (∀ (_ : Nat) (_ : Option Nat) k, WfM4 k) ∧
    (∀ (_ : Nat) (_ : Option Nat) f, WfM5 f) ∧
    (∀ (_ : Nat) (_ : Option Nat) o, WfM6 o) ∧
    (∀ (_ : Nat) (_ : Option Nat) (_ : CInstr) o, WfM7 o) ∧
    (∀ (_ : Nat) (_ : Option Nat) it, WfM8 it) ∧
    (∀ (_ : Nat) (_ : Option Nat) m, WfM9 m) := by
  apply exprCode.mutual_induct
    (motive_1 := fun _ _ e => WfM1 e)
    (motive_2 := fun _ _ ns => WfM2 ns)
    (motive_3 := fun _ _ n => WfM3 n)
    (motive_4 := fun _ _ k => WfM4 k)
    (motive_5 := fun _ _ f => WfM5 f)
    (motive_6 := fun _ _ o => WfM6 o)
    (motive_7 := fun _ _ _ o => WfM7 o)
    (motive_8 := fun _ _ it => WfM8 it)
    (motive_9 := fun _ _ m => WfM9 m)
  all_goals intros
  all_goals simp only [WfM1, WfM2, WfM3, WfM4, WfM5, WfM6, WfM7, WfM8, WfM9] at *
  all_goals intros
  all_goals simp only [exprCode, nodesCode, nodeCode, kwargsCode, filtersCode, condCode, optExprCode,
    arrayItemsCode, mapItemsCode, exprTab, nodesTab, nodeTab, kwargsTab, filtersTab, condTab, optExprTab,
    arrayItemsTab, mapItemsTab] at *
  all_goals (try (simp only [exprScoped, nodesScoped, nodeScoped, kwargsScoped,
    filtersScoped, optExprScoped, arrayItemsScoped, mapItemsScoped] at *))
  all_goals (try simp only [Bool.and_eq_true, Bool.or_eq_true] at *)
  all_goals (try (split <;> rename_i hsplit <;> first
    | exact absurd ‹_› hsplit
    | exact absurd hsplit ‹_›
    | ((try have hk := Option.isSome_iff_exists.mp hsplit)
       try simp only [hsplit, ↓reduceIte, if_false, Bool.false_eq_true,
        Bool.not_eq_true, Bool.not_eq_false, false_or, true_or, or_false, or_true] at *)))
  all_goals (try simp (config := { zetaDelta := true }) only [seg_append, seg_cons, seg_nil, List.length_append,
    List.length_cons, List.length_nil, okr_add, okr_one, okr_zero, tabLen1, tabLen2, tabLen3, tabLen4,
    tabLen5, tabLen6, tabLen7, tabLen8, tabLen9, optLen1, keyTab_length, ← Nat.add_assoc, and_true, true_and, Nat.zero_add, Nat.add_zero] at *)
  all_goals (try casesm* _ ∧ _)
  all_goals (repeat' apply And.intro)
  all_goals (try wf_step)
end Tera.Compiler
