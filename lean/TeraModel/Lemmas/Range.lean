/-
Helper lemmas for C17 `range` (Model/Builtins.lean `rangeCore`): the length formula with its
checked steps equals the number of terms of the progression, and no term (nor `i * step_by`)
leaves i128.
-/
import TeraModel.Model.Builtins
import Mathlib.Tactic.Linarith
import Mathlib.Tactic.Ring
namespace Tera.Builtins
open Tera

theorem chk_some {r : Int} (h : inI128 r) : chk r = some r := by simp [chk, checkedI128, h]
theorem chk_none {r : Int} (h : ¬ inI128 r) : chk r = none := by simp [chk, checkedI128, h]

/-- `start + j * step` for `j = i, …, i + n - 1`. -/
def prog (start step : Int) (i n : Nat) : List Int :=
  (List.range' i n).map fun (j : Nat) => start + (j : Int) * step

theorem rangeValues_ok (start step : Int) : ∀ (n i : Nat),
    (∀ j : Nat, i ≤ j → j < i + n → inI128 ((j : Int) * step) ∧ inI128 (start + (j : Int) * step)) →
    rangeValues start step n i = some (prog start step i n) := by
  intro n
  induction n with
  | zero => intro i _; simp [rangeValues, prog]
  | succ n ih =>
    intro i h
    have h0 := h i (Nat.le_refl _) (by omega)
    have hrest := ih (i + 1) (fun j h1 h2 => h j (by omega) (by omega))
    simp only [rangeValues, chk_some h0.1, chk_some h0.2, hrest]
    simp [prog, List.range'_succ]

/-- What "exactly the progression asked for" means for a result of `n` terms. -/
structure IsRange (start end_ step : Int) (n : Nat) : Prop where
  /-- no intermediate value leaves i128 (no debug panic, no release wrap-around) -/
  noOverflow : ∀ i : Nat, i < n → inI128 ((i : Int) * step) ∧ inI128 (start + (i : Int) * step)
  /-- the terms are exactly those before `end` -/
  up : 0 < step → ∀ i : Nat, i < n ↔ start + (i : Int) * step < end_
  down : step < 0 → ∀ i : Nat, i < n ↔ end_ < start + (i : Int) * step

theorem i128_min_val : I128_MIN = -170141183460469231731687303715884105728 := by norm_num [I128_MIN]
theorem i128_max_val : I128_MAX = 170141183460469231731687303715884105727 := by norm_num [I128_MAX]

theorem ediv_facts (t s : Int) (hs : 0 < s) : t / s * s ≤ t ∧ t < (t / s + 1) * s :=
  ⟨Int.ediv_mul_le t (ne_of_gt hs), Int.lt_ediv_add_one_mul_self t hs⟩

/-- counting up: `q = (end - start + step - 1) / step` terms -/
theorem isRange_up (start end_ step : Int) (hs : inI128 start) (he : inI128 end_) (hstep : 0 < step)
    (hle : start ≤ end_) (hspan : inI128 (end_ - start)) :
    IsRange start end_ step ((end_ - start + (step - 1)) / step).toNat := by
  obtain ⟨q1, q2⟩ := ediv_facts (end_ - start + (step - 1)) step hstep
  have hq0 : 0 ≤ (end_ - start + (step - 1)) / step := Int.ediv_nonneg (by omega) (le_of_lt hstep)
  generalize hq : (end_ - start + (step - 1)) / step = q at *
  have key : ∀ i : Nat, (i : Int) < q ↔ start + (i : Int) * step < end_ := by
    intro i
    constructor
    · intro hi
      have : ((i : Int) + 1) * step ≤ q * step := mul_le_mul_of_nonneg_right (by omega) (le_of_lt hstep)
      nlinarith
    · intro hi
      have : ((i : Int) + 1) * step < (q + 1) * step := by nlinarith
      have := lt_of_mul_lt_mul_right this (le_of_lt hstep)
      omega
  have hs' : I128_MIN ≤ start ∧ start ≤ I128_MAX := hs
  have he' : I128_MIN ≤ end_ ∧ end_ ≤ I128_MAX := he
  refine ⟨?_, ?_, ?_⟩
  · intro i hi
    have hi' : (i : Int) < q := by omega
    have h1 := (key i).1 hi'
    have h0 : 0 ≤ (i : Int) * step := mul_nonneg (by omega) (le_of_lt hstep)
    have hsp : I128_MIN ≤ end_ - start ∧ end_ - start ≤ I128_MAX := hspan
    rw [i128_min_val, i128_max_val] at hs' he' hsp
    generalize (i : Int) * step = m at *
    refine ⟨⟨?_, ?_⟩, ⟨?_, ?_⟩⟩ <;> simp only [i128_min_val, i128_max_val] <;> omega
  · intro _ i
    rw [← key i]
    omega
  · intro h; omega

/-- counting down: `q = (start - end + (-step) - 1) / (-step)` terms -/
theorem isRange_down (start end_ step : Int) (hs : inI128 start) (he : inI128 end_) (hstep : step < 0)
    (hlt : end_ < start) (hspan : inI128 (start - end_)) :
    IsRange start end_ step ((start - end_ + (-step - 1)) / (-step)).toNat := by
  have hst : 0 < -step := by omega
  obtain ⟨q1, q2⟩ := ediv_facts (start - end_ + (-step - 1)) (-step) hst
  have hq0 : 0 ≤ (start - end_ + (-step - 1)) / (-step) := Int.ediv_nonneg (by omega) (le_of_lt hst)
  generalize hq : (start - end_ + (-step - 1)) / (-step) = q at *
  have key : ∀ i : Nat, (i : Int) < q ↔ end_ < start + (i : Int) * step := by
    intro i
    constructor
    · intro hi
      have : ((i : Int) + 1) * (-step) ≤ q * (-step) := mul_le_mul_of_nonneg_right (by omega) (le_of_lt hst)
      nlinarith
    · intro hi
      have : ((i : Int) + 1) * (-step) < (q + 1) * (-step) := by nlinarith
      have := lt_of_mul_lt_mul_right this (le_of_lt hst)
      omega
  have hs' : I128_MIN ≤ start ∧ start ≤ I128_MAX := hs
  have he' : I128_MIN ≤ end_ ∧ end_ ≤ I128_MAX := he
  refine ⟨?_, ?_, ?_⟩
  · intro i hi
    have hi' : (i : Int) < q := by omega
    have h1 := (key i).1 hi'
    have h0 : (i : Int) * step ≤ 0 := by
      have : 0 ≤ (i : Int) * (-step) := mul_nonneg (by omega) (le_of_lt hst)
      nlinarith
    have hsp : I128_MIN ≤ start - end_ ∧ start - end_ ≤ I128_MAX := hspan
    rw [i128_min_val, i128_max_val] at hs' he' hsp
    generalize (i : Int) * step = m at *
    refine ⟨⟨?_, ?_⟩, ⟨?_, ?_⟩⟩ <;> simp only [i128_min_val, i128_max_val] <;> omega
  · intro h; omega
  · intro _ i
    rw [← key i]
    omega

/-- The failure conditions of `range`, in exact arithmetic: a zero step, a positive step with
`start > end`, the i128 guard on the span arithmetic, and the size cap on the number of terms. -/
def RangeFails (maxLen : Nat) (start end_ step : Int) : Prop :=
  step = 0 ∨ (start > end_ ∧ step > 0) ∨
  (0 < step ∧ start ≤ end_ ∧ (¬ inI128 (end_ - start) ∨ ¬ inI128 (end_ - start + (step - 1)))) ∨
  (step < 0 ∧ end_ < start ∧
    (¬ inI128 (-step) ∨ ¬ inI128 (start - end_) ∨ ¬ inI128 (start - end_ + (-step - 1)))) ∨
  (0 < step ∧ start ≤ end_ ∧ (end_ - start + (step - 1)) / step > (maxLen : Int)) ∨
  (step < 0 ∧ end_ < start ∧ (start - end_ + (-step - 1)) / (-step) > (maxLen : Int))

def rangeOk (start step : Int) (n : Nat) : Outcome := .ok (.arr ((prog start step 0 n).map Value.i128))

theorem rangeCore_spec (maxLen : Nat) (start end_ step : Int) (hs : inI128 start) (he : inI128 end_) :
    (RangeFails maxLen start end_ step ∧ rangeCore maxLen start end_ step = .err .msg) ∨
    (¬ RangeFails maxLen start end_ step ∧
      ∃ n : Nat, n ≤ maxLen ∧ rangeCore maxLen start end_ step = rangeOk start step n ∧
        IsRange start end_ step n) := by
  unfold rangeCore
  by_cases h1 : start > end_ ∧ step > 0
  · left; exact ⟨Or.inr (Or.inl h1), by simp [h1]⟩
  by_cases h2 : step = 0
  · left; exact ⟨Or.inl h2, by simp [h2]⟩
  simp only [h1, h2, if_false]
  by_cases hpos : step > 0
  · have hle : start ≤ end_ := by
      by_contra hc; exact h1 ⟨by omega, hpos⟩
    simp only [hpos, if_true]
    by_cases g1 : inI128 (end_ - start)
    · rw [chk_some g1]
      simp only
      by_cases g2 : inI128 (end_ - start + (step - 1))
      · rw [chk_some g2]
        simp only
        have hnn : 0 ≤ end_ - start + (step - 1) := by omega
        rw [Int.tdiv_eq_ediv_of_nonneg hnn]
        by_cases g3 : (end_ - start + (step - 1)) / step > (maxLen : Int)
        · left
          refine ⟨Or.inr (Or.inr (Or.inr (Or.inr (Or.inl ⟨hpos, hle, g3⟩)))), by rw [if_pos g3]⟩
        · right
          have hr := isRange_up start end_ step hs he hpos hle g1
          have hq0 : 0 ≤ (end_ - start + (step - 1)) / step := Int.ediv_nonneg hnn (le_of_lt hpos)
          refine ⟨?_, ((end_ - start + (step - 1)) / step).toNat, by omega, ?_, hr⟩
          · rintro (h | h | h | h | h | h)
            · exact h2 h
            · exact h1 h
            · rcases h.2.2 with h | h
              · exact h g1
              · exact h g2
            · omega
            · exact g3 h.2.2
            · omega
          · simp only [g3, if_false]
            rw [rangeValues_ok start step _ 0 (fun j _ hj => hr.noOverflow j (by omega))]
            rfl
      · left
        refine ⟨Or.inr (Or.inr (Or.inl ⟨hpos, hle, Or.inr g2⟩)), by rw [chk_none g2]⟩
    · left
      refine ⟨Or.inr (Or.inr (Or.inl ⟨hpos, hle, Or.inl g1⟩)), by rw [chk_none g1]⟩
  · have hneg : step < 0 := by omega
    simp only [hpos, if_false]
    by_cases hle : start ≤ end_
    · right
      simp only [hle, if_true]
      refine ⟨?_, 0, by omega, ?_, ?_⟩
      · rintro (h | h | h | h | h | h) <;> omega
      · have : ¬ ((0 : Int) > (maxLen : Int)) := by omega
        simp [this, rangeValues, rangeOk, prog]
      · refine ⟨fun i hi => by omega, fun h => by omega, fun _ i => ?_⟩
        constructor
        · intro h; omega
        · intro h
          have : (i : Int) * step ≤ 0 := by
            have : 0 ≤ (i : Int) * (-step) := mul_nonneg (by omega) (by omega)
            nlinarith
          omega
    · have hlt : end_ < start := by omega
      simp only [hle, if_false]
      by_cases g0 : inI128 (-step)
      · rw [chk_some g0]
        simp only
        by_cases g1 : inI128 (start - end_)
        · rw [chk_some g1]
          simp only
          by_cases g2 : inI128 (start - end_ + (-step - 1))
          · rw [chk_some g2]
            simp only
            have hnn : 0 ≤ start - end_ + (-step - 1) := by omega
            rw [Int.tdiv_eq_ediv_of_nonneg hnn]
            by_cases g3 : (start - end_ + (-step - 1)) / (-step) > (maxLen : Int)
            · left
              refine ⟨Or.inr (Or.inr (Or.inr (Or.inr (Or.inr ⟨hneg, hlt, g3⟩)))), by rw [if_pos g3]⟩
            · right
              have hr := isRange_down start end_ step hs he hneg hlt g1
              have hq0 : 0 ≤ (start - end_ + (-step - 1)) / (-step) := Int.ediv_nonneg hnn (by omega)
              refine ⟨?_, ((start - end_ + (-step - 1)) / (-step)).toNat, by omega, ?_, hr⟩
              · rintro (h | h | h | h | h | h)
                · exact h2 h
                · exact h1 h
                · omega
                · rcases h.2.2 with h | h | h
                  · exact h g0
                  · exact h g1
                  · exact h g2
                · omega
                · exact g3 h.2.2
              · simp only [g3, if_false]
                rw [rangeValues_ok start step _ 0 (fun j _ hj => hr.noOverflow j (by omega))]
                rfl
          · left
            refine ⟨Or.inr (Or.inr (Or.inr (Or.inl ⟨hneg, hlt, Or.inr (Or.inr g2)⟩))), by rw [chk_none g2]⟩
        · left
          refine ⟨Or.inr (Or.inr (Or.inr (Or.inl ⟨hneg, hlt, Or.inr (Or.inl g1)⟩))), by rw [chk_none g1]⟩
      · left
        refine ⟨Or.inr (Or.inr (Or.inr (Or.inl ⟨hneg, hlt, Or.inl g0⟩))), by rw [chk_none g0]⟩

end Tera.Builtins
