/-
The expression parser at budget `b` (= MAX_RECURSION_DEPTH − recursion_depth) returns an
expression of counted depth ≤ `b` (Lemmas/AstCounted.lean).
-/
import TeraModel.Lemmas.ExprNoBody
import TeraModel.Lemmas.AstCounted
namespace Tera.Parser
open Tera

theorem PW.mono {x : P α} {Q Q' : α → Prop} (h : PW x Q) (hq : ∀ a, Q a → Q' a) : PW x Q' :=
  PW.bind (f := fun a => Pure.pure a) h (fun a ha => PW.pure (hq a ha)) |> fun h' => by
    have : (x >>= fun a => (Pure.pure a : P α)) = x := by
      funext s
      show P.bind x _ s = x s
      unfold P.bind
      cases x s <;> rfl
    rwa [this] at h'

theorem PW.bind_swap {x : P α} {f : α → P β} {Q1 : α → Prop} {Q : β → Prop}
    (hf : ∀ a, Q1 a → PW (f a) Q) (hx : PW x Q1) : PW (x >>= f) Q := PW.bind hx hf

/-- closes the arithmetic leaves -/
macro "cdleaf" : tactic => `(tactic|
  ((try simp only [Expr.cd, Expr.cdOpt, Expr.cdKw, Expr.cdList, ArrayEntry.cdList, MapEntry.cdList,
     ArrayEntry.cdList_append, MapEntry.cdList_append, Expr.cdList_append] at *)
   omega))

macro "cdtac" : tactic => `(tactic|
  repeat' (first
    | with_reducible exact PW.err
    | with_reducible exact PW.fuel
    | with_reducible exact PW.panic
    | with_reducible assumption
    | with_reducible refine PW.pure ?_
    | with_reducible apply_assumption -exfalso
    | (with_reducible apply PW.bind_swap; (intro _ _); rotate_left; focus (with_reducible apply_assumption -exfalso))
    | with_reducible refine PW.bind' (fun _ => ?_)
    | with_reducible apply PW.ite
    | (show PW _ _; dsimp only)
    | (show PW _ _; split)))

section
variable {rec : Nat → P Expr} (C : Cfg) {k : Nat}
variable (hrec : ∀ m, PW (rec m) (fun e => e.cd ≤ k))
include hrec

theorem CD.kwargsLoop : ∀ n acc, Expr.cdKw acc ≤ k →
    PW (kwargsLoop rec n acc) (fun kw => Expr.cdKw kw ≤ k) := by
  intro n
  induction n with
  | zero => intro _ _; exact PW.fuel
  | succ n ih =>
    intro acc hacc
    unfold Parser.kwargsLoop
    cdtac
    all_goals
      rename_i nm _ v hv
      have := Expr.cdKw_insert nm v acc
      omega

theorem CD.parseKwargs : PW (parseKwargs rec) (fun kw => Expr.cdKw kw ≤ k) := by
  have h := CD.kwargsLoop hrec
  unfold Parser.parseKwargs
  cdtac
  all_goals cdleaf

theorem CD.parseNameArgs : PW (parseNameArgs rec) (fun r => Expr.cdKw r.2 ≤ k) := by
  have h := CD.parseKwargs hrec
  unfold Parser.parseNameArgs
  cdtac
  all_goals cdleaf

theorem CD.parseFilter (e : Expr) (he : e.cd ≤ k + 1) :
    PW (parseFilter rec e) (fun r => r.cd ≤ k + 1) := by
  have h := CD.parseNameArgs hrec
  unfold Parser.parseFilter
  cdtac
  all_goals cdleaf

theorem CD.parseTest (e : Expr) (he : e.cd ≤ k + 1) :
    PW (parseTest rec e) (fun r => r.cd ≤ k + 1) := by
  have h := CD.parseNameArgs hrec
  unfold Parser.parseTest
  cdtac
  all_goals cdleaf

theorem CD.subscriptStart : PW (subscriptStart rec) (fun r => Expr.cdOpt r ≤ k) := by
  unfold Parser.subscriptStart
  cdtac
  all_goals cdleaf

theorem CD.subscriptSlice :
    PW (subscriptSlice rec) (fun r => match r with
      | (_, stop, step) => Expr.cdOpt stop ≤ k ∧ Expr.cdOpt step ≤ k) := by
  have hstop : PW (do
      if !(← headIs .colon) && !(← headIs .rightBracket) then do
        let x ← rec 0
        pure (some x)
      else pure none : P (Option Expr)) (fun r => Expr.cdOpt r ≤ k) := by
    cdtac
    all_goals cdleaf
  have hstep : PW (do
      if (← headIs .colon) then do
        expect .colon
        let x ← rec 0
        pure (some x)
      else pure none : P (Option Expr)) (fun r => Expr.cdOpt r ≤ k) := by
    cdtac
    all_goals cdleaf
  unfold Parser.subscriptSlice
  cdtac
  all_goals cdleaf

theorem CD.parseSubscript (e : Expr) (he : e.cd ≤ k + 1) :
    PW (parseSubscript C rec e) (fun r => r.cd ≤ k + 1) := by
  have h1 := CD.subscriptStart hrec
  have h2 := CD.subscriptSlice hrec
  have hout : ∀ (slice : Bool) start stop step o, Expr.cdOpt start ≤ k → Expr.cdOpt stop ≤ k →
      Expr.cdOpt step ≤ k →
      PW (if slice then Pure.pure (.slice e start stop step o)
      else match start with
        | some s => Pure.pure (.getItem e s o)
        | none => P.panic "parser.rs:277 expect(to have an expr)" : P Expr) (fun r => r.cd ≤ k + 1) := by
    intros
    cdtac
    all_goals cdleaf
  unfold Parser.parseSubscript
  cdtac
  all_goals cdleaf

theorem CD.identChain (ident : String) : ∀ n e, e.cd ≤ k + 1 →
    PW (identChain C rec ident n e) (fun r => r.cd ≤ k + 1) := by
  have hs := CD.parseSubscript C hrec
  intro n
  induction n with
  | zero => intro e _; exact PW.fuel
  | succ n ih =>
    intro e he
    unfold Parser.identChain
    cdtac
    all_goals cdleaf

theorem CD.parseIdent (ident : String) : PW (parseIdent C rec ident) (fun r => r.cd ≤ k + 1) := by
  have hc := CD.identChain C hrec ident
  have hk := CD.parseKwargs hrec
  unfold Parser.parseIdent
  cdtac
  all_goals cdleaf

theorem CD.mapLoop : ∀ n acc lit, MapEntry.cdList acc ≤ k →
    PW (mapLoop rec n acc lit) (fun r => MapEntry.cdList r.1 ≤ k) := by
  intro n
  induction n with
  | zero => intro _ _ _; exact PW.fuel
  | succ n ih =>
    intro acc lit hacc
    unfold Parser.mapLoop
    cdtac
    all_goals cdleaf

theorem CD.parseMap : PW (parseMap rec) (fun r => r.cd ≤ k + 1) := by
  have h := CD.mapLoop hrec
  unfold Parser.parseMap
  cdtac
  all_goals cdleaf

theorem CD.parseListComprehension (e : Expr) (he : e.cd ≤ k) :
    PW (parseListComprehension C rec e) (fun r => r.cd ≤ k + 1) := by
  have hcond : PW (do
      if (← headIs (.ident "if")) then do
        let _ ← nextOrError
        let c ← rec (C.bp.ternary + 1)
        pure (some c)
      else pure none : P (Option Expr)) (fun r => Expr.cdOpt r ≤ k) := by
    cdtac
    all_goals cdleaf
  unfold Parser.parseListComprehension
  cdtac
  all_goals cdleaf

/-- what the array loop hands back -/
def ArrCD (k : Nat) : ArrayLoopOut → Prop
  | .comprehension lc => lc.cd ≤ k + 1
  | .items xs _ => ArrayEntry.cdList xs ≤ k

theorem CD.arrayLoop : ∀ n acc lit, ArrayEntry.cdList acc ≤ k →
    PW (arrayLoop C rec n acc lit) (ArrCD k) := by
  have hl := CD.parseListComprehension C hrec
  intro n
  induction n with
  | zero => intro _ _ _; exact PW.fuel
  | succ n ih =>
    intro acc lit hacc
    unfold Parser.arrayLoop
    cdtac
    all_goals first | cdleaf | (simp only [ArrCD]; cdleaf)

theorem CD.parseArray : PW (parseArray C rec) (fun r => r.cd ≤ k + 1) := by
  unfold Parser.parseArray
  refine PW.bind' (fun _ => ?_)
  apply PW.ite
  · exact PW.err
  · refine PW.bind' (fun _ => ?_)
    refine PW.bind (CD.arrayLoop C hrec _ _ _ (by simp [ArrayEntry.cdList])) (fun out h => ?_)
    cases out with
    | comprehension lc => exact PW.pure h
    | items xs lit =>
      simp only [ArrCD] at h
      dsimp only
      cdtac
      all_goals cdleaf

theorem CD.componentAttributes : ∀ n acc, MapEntry.cdList acc ≤ k + 1 →
    PW (componentAttributes rec n acc) (fun r => MapEntry.cdList r ≤ k + 1) := by
  intro n
  induction n with
  | zero => intro _ _; exact PW.fuel
  | succ n ih =>
    intro acc hacc
    have hval : ∀ name : String, PW (do
        if (← headIs .assign) then do
          let _ ← nextOrError
          match (← peekOk) with
          | some (.str s) => do
            let _ ← nextOrError
            pure (.const (.str false s.toList))
          | some .leftBrace => do
            let _ ← nextOrError
            let x ← rec 0
            expect .rightBrace
            pure x
          | _ => P.err
        else pure (.var name) : P Expr) (fun r => r.cd ≤ k + 1) := by
      intro name
      cdtac
      all_goals cdleaf
    unfold Parser.componentAttributes
    cdtac
    all_goals cdleaf

theorem CD.parseInlineComponentCall :
    PW (parseInlineComponentCall rec) (fun r => r.cd ≤ k + 1) := by
  have h := CD.componentAttributes hrec
  unfold Parser.parseInlineComponentCall
  cdtac
  all_goals first | cdleaf | (simp only [Expr.cd, Node.cdList, MapEntry.cdList] at *; omega)

theorem CD.parseOperand (op : BinaryOperator) (r : Nat) (lhs : Expr) (hl : lhs.cd ≤ k + 1) :
    PW (parseOperand rec op r lhs) (fun r => r.cd ≤ k + 1) := by
  have h1 := CD.parseTest hrec
  have h2 := CD.parseFilter hrec
  unfold Parser.parseOperand
  cdtac
  all_goals cdleaf

theorem CD.prattLoop (minBp : Nat) : ∀ n lhs neg, lhs.cd ≤ k + 1 →
    PW (prattLoop C rec minBp n lhs neg) (fun r => r.cd ≤ k + 1) := by
  have hs := CD.parseSubscript C hrec
  have ho := CD.parseOperand hrec
  intro n
  induction n with
  | zero => intro _ _ _; exact PW.fuel
  | succ n ih =>
    intro lhs neg hl
    unfold Parser.prattLoop
    cdtac
    all_goals cdleaf

theorem CD.parsePrefix : PW (parsePrefix C rec) (fun r => r.cd ≤ k + 1) := by
  have h1 := CD.parseIdent C hrec
  have h2 := CD.parseInlineComponentCall hrec
  have h3 := CD.parseMap hrec
  have h4 := CD.parseArray C hrec
  unfold Parser.parsePrefix
  cdtac
  all_goals cdleaf

theorem CD.parseExprBp (minBp : Nat) : PW (parseExprBp C rec minBp) (fun r => r.cd ≤ k + 1) := by
  have hp := CD.parsePrefix C hrec
  have hl := CD.prattLoop C hrec minBp
  unfold Parser.parseExprBp
  cdtac
  all_goals cdleaf

end

/-- **counted depth ≤ budget** -/
theorem CD.innerParseExpression (C : Cfg) : ∀ b m, PW (innerParseExpression C b m) (fun e => e.cd ≤ b) := by
  intro b
  induction b with
  | zero => intro _; exact PW.err
  | succ b ih => intro m; exact CD.parseExprBp C ih m

end Tera.Parser
