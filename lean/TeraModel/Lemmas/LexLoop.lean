/-
Invariants of the whole tokenizer loop: spans are consistent with the source (C12), what
`advance!`'s bookkeeping computes, which token kinds each state emits and the shape of the state
stack (C06), and the tiling of the source by the token ranges (C08).  All unconditional.
-/
import TeraModel.Lemmas.LexInv
namespace Tera.Lexer
open Tera Utf8

/-- reached from the start of `src` after exactly `k` bytes -/
def Inv (src : Bytes) (k : Nat) (p : Pos) : Prop := AdvN (startPos src) k p

theorem Inv.start (src : Bytes) : Inv src 0 (startPos src) := AdvN.refl _

theorem Inv.rest {src : Bytes} {k : Nat} {p : Pos} (h : Inv src k p) : p.rest = src.drop k := h.2.1
theorem Inv.byte {src : Bytes} {k : Nat} {p : Pos} (h : Inv src k p) : p.byte = k := by
  have := AdvN.byte h; simpa [startPos] using this
theorem Inv.le {src : Bytes} {k : Nat} {p : Pos} (h : Inv src k p) : k ≤ src.length := AdvN.le h

/-- a span made by `make_span!` between two positions of `src` reached by `advance!` -/
def SpanOk (src : Bytes) (sp : Span) : Prop :=
  sp.rangeStart ≤ sp.rangeEnd ∧ sp.rangeEnd ≤ src.length ∧
  isBoundary src sp.rangeStart = true ∧ isBoundary src sp.rangeEnd = true ∧
  (sp.startLine, sp.startCol, sp.rangeStart) = track 1 0 0 (src.take sp.rangeStart) ∧
  (sp.endLine, sp.endCol, sp.rangeEnd) = track 1 0 0 (src.take sp.rangeEnd)

theorem spanOk_mkSpan {src : Bytes} {k n : Nat} {p0 p : Pos} (h0 : Inv src k p0) (h : AdvN p0 n p) :
    SpanOk src (mkSpan p0 p) := by
  have h1 : Inv src (k + n) p := AdvN.trans h0 h
  have b0 := h0.byte
  have b1 := h1.byte
  have e0 := h0.2.2
  have e1 := h1.2.2
  simp only [startPos] at e0 e1
  refine ⟨?_, ?_, ?_, ?_, ?_, ?_⟩ <;> simp only [mkSpan, b0, b1]
  · omega
  · exact h1.le
  · exact h0.1
  · exact h1.1
  · rw [← e0, b0]
  · rw [← e1, b1]

/-- every span the tokenizer produces (tokens and the error item) is consistent with `src` -/
theorem lexLoop_spans (d : Delims) (src : Bytes) : ∀ (fuel : Nat) (p : Pos) (stack : List State) (k : Nat),
    Inv src k p →
    (∀ it ∈ (lexLoop d fuel p stack).tokens, SpanOk src it.2) ∧
    (∀ e sp, (lexLoop d fuel p stack).ending = .error e sp → SpanOk src sp) := by
  intro fuel
  induction fuel with
  | zero => intro p stack k _; simp [lexLoop]
  | succ f ih =>
    intro p stack k hk
    unfold lexLoop
    split
    · simp
    · have hs := step_adv d p stack
      split
      · rename_i tok span p' stack' heq
        rw [heq] at hs
        obtain ⟨n, hadv, hspan, _, _⟩ := hs
        have ih' := ih p' stack' (k + n) (AdvN.trans hk hadv)
        constructor
        · intro it hit
          simp only [List.mem_cons] at hit
          rcases hit with rfl | hit
          · simp only; rw [hspan]; exact spanOk_mkSpan hk hadv
          · exact ih'.1 it hit
        · exact ih'.2
      · rename_i p' heq
        rw [heq] at hs
        obtain ⟨n, hadv, _, _⟩ := hs
        exact ih p' stack (k + n) (AdvN.trans hk hadv)
      · rename_i e span heq
        rw [heq] at hs
        obtain ⟨n, p', hadv, hspan⟩ := hs
        constructor
        · simp
        · intro e' sp' h
          simp only [Ending.error.injEq] at h
          rw [← h.2, hspan]
          exact spanOk_mkSpan hk hadv
      · simp
      · simp

/-- the part of `x` after its last `'\n'` (all of `x` if there is none) -/
def lastLine : Bytes → Bytes
  | [] => []
  | b :: t => if 0x0A ∈ t then lastLine t else if b = 0x0A then t else b :: t

theorem lastLine_spec (x : Bytes) :
    0x0A ∉ lastLine x ∧ ((0x0A ∉ x ∧ lastLine x = x) ∨ ∃ pre, x = pre ++ 0x0A :: lastLine x) := by
  induction x with
  | nil => simp [lastLine]
  | cons b t ih =>
    unfold lastLine
    split
    · rename_i hm
      refine ⟨ih.1, Or.inr ?_⟩
      rcases ih.2 with ⟨hn, _⟩ | ⟨pre, hp⟩
      · exact absurd hm hn
      · exact ⟨b :: pre, by rw [List.cons_append, ← hp]⟩
    · rename_i hm
      split
      · rename_i hb
        exact ⟨hm, Or.inr ⟨[], by simp [hb]⟩⟩
      · rename_i hb
        refine ⟨by simp [hm]; omega, Or.inl ⟨by simp [hm]; omega, rfl⟩⟩

theorem charCount_cons (a : Nat) (t : Bytes) :
    charCount (a :: t) = if isCont a then charCount t else charCount t + 1 := by
  unfold charCount
  cases h : isCont a <;> simp [List.filter, h]

/-- what `advance!`'s bookkeeping computes: lines = newlines seen, column = chars since the last
newline, byte = bytes seen -/
theorem track_spec (x : Bytes) : ∀ (l c b : Nat),
    track l c b x =
      (l + x.count 0x0A, (if 0x0A ∈ x then charCount (lastLine x) else c + charCount x), b + x.length) := by
  induction x with
  | nil => intro l c b; simp [track, charCount]
  | cons a t ih =>
    intro l c b
    unfold track
    split
    · rename_i ha
      subst ha
      rw [ih]
      simp only [List.count_cons_self, List.mem_cons, true_or, if_true, List.length_cons, lastLine]
      refine Prod.ext (by simp; omega) (Prod.ext ?_ (by simp; omega))
      simp only
      split <;> simp
    · rename_i ha
      have hcount : (a :: t).count 0x0A = t.count 0x0A := by
        rw [List.count_cons]; simp; omega
      have hne : ¬ (10 = a) := by omega
      by_cases hm : 0x0A ∈ t
      · have hm' : 0x0A ∈ a :: t := List.mem_cons_of_mem _ hm
        split <;>
          (rw [ih]; simp only [hm, hm', if_true, hcount, lastLine, List.length_cons]
           refine Prod.ext rfl (Prod.ext rfl (by simp; omega)))
      · have hm' : 0x0A ∉ a :: t := by simp [hm]; omega
        split
        · rename_i hc
          rw [ih]; simp only [hm, hm', if_false, hcount, charCount_cons, hc, if_true, List.length_cons]
          refine Prod.ext rfl (Prod.ext rfl (by simp; omega))
        · rename_i hc
          rw [ih]; simp only [hm, hm', if_false, hcount, charCount_cons, hc, List.length_cons]
          refine Prod.ext rfl (Prod.ext (by simp; omega) (by simp; omega))

/-- token kinds the `Template` state emits (the others come from inside `{{ }}` / `{% %}`) -/
def templateLevel : Token → Bool
  | .content _ => true
  | .rawContent _ _ _ => true
  | .variableStart _ => true
  | .tagStart _ => true
  | .comment _ _ => true
  | _ => false

/-- which token kinds a pass can emit, and that only in-tag passes `continue` -/
def StepKind (tpl : Bool) : Step → Prop
  | .emit tok _ _ _ => templateLevel tok = tpl
  | .skip _ => tpl = false
  | _ => True

theorem stepTemplate_kind (d : Delims) (p0 : Pos) (st : List State) :
    StepKind true (stepTemplate d p0 st) := by
  unfold stepTemplate
  simp only
  repeat' split
  all_goals simp [StepKind, templateLevel]

theorem emitAfter_kind (p0 : Pos) (n : Nat) (tok : Token) (st : List State) (b : Bool)
    (h : templateLevel tok = b) : StepKind b (emitAfter p0 n tok st) := by
  unfold emitAfter
  split <;> simp [StepKind, h]

theorem lexNumber_kind (p0 : Pos) (st : List State) : StepKind false (lexNumber p0 st) := by
  unfold lexNumber
  repeat' split
  all_goals simp [StepKind, templateLevel]

theorem lexString_kind (c : Nat) (p0 : Pos) (st : List State) : StepKind false (lexString c p0 st) := by
  unfold lexString
  repeat' split
  all_goals simp [StepKind, templateLevel]

theorem lexExprToken_kind (p0 : Pos) (st : List State) : StepKind false (lexExprToken p0 st) := by
  unfold lexExprToken
  simp only
  repeat' split
  all_goals first
    | exact emitAfter_kind _ _ _ _ _ rfl
    | exact lexNumber_kind _ _
    | exact lexString_kind _ _ _
    | simp [StepKind, templateLevel]

theorem endCheck_kind (p0 : Pos) (below : List State) (e : Bytes) (mk : Bool → Token)
    (hmk : ∀ b, templateLevel (mk b) = false) {s : Step} (h : endCheck p0 below e mk = some s) :
    StepKind false s := by
  unfold endCheck at h
  split at h
  · cases h; exact emitAfter_kind _ _ _ _ _ (hmk _)
  · split at h
    · cases h; exact emitAfter_kind _ _ _ _ _ (hmk _)
    · cases h

theorem stepInTag_kind (d : Delims) (p0 : Pos) (top : State) (below : List State) :
    StepKind false (stepInTag d p0 top below) := by
  unfold stepInTag
  simp only
  split
  · split <;> simp [StepKind]
  · split
    · split
      · rename_i s hs; exact endCheck_kind _ _ _ Token.tagEnd (fun _ => rfl) hs
      · exact lexExprToken_kind _ _
    · split
      · rename_i s hs; exact endCheck_kind _ _ _ Token.variableEnd (fun _ => rfl) hs
      · exact lexExprToken_kind _ _
    · trivial

/-- is the lexer in `Template` state -/
def inTemplate : List State → Bool
  | .template :: _ => true
  | _ => false

theorem step_kind (d : Delims) (p0 : Pos) (stack : List State) (hs : stack ≠ []) :
    StepKind (inTemplate stack) (step d p0 stack) := by
  unfold step
  split
  · exact absurd rfl hs
  · exact stepTemplate_kind _ _ _
  · rename_i top below hne
    have : inTemplate (top :: below) = false := by
      cases top <;> simp [inTemplate]
      exact hne rfl
    rw [this]
    exact stepInTag_kind _ _ _ _

/-- the state stack after an emission is one of `allowed` -/
def StepStack (allowed : List (List State)) : Step → Prop
  | .emit _ _ _ st => st ∈ allowed
  | _ => True

theorem stepTemplate_stack (d : Delims) (p0 : Pos) (st : List State) :
    StepStack [st, .variable :: st, .tag :: st] (stepTemplate d p0 st) := by
  unfold stepTemplate
  simp only
  repeat' split
  all_goals simp [StepStack]

theorem emitAfter_stack (p0 : Pos) (n : Nat) (tok : Token) (st : List State) (al : List (List State))
    (h : st ∈ al) : StepStack al (emitAfter p0 n tok st) := by
  unfold emitAfter
  split <;> simp [StepStack, h]

theorem lexExprToken_stack (p0 : Pos) (st : List State) (al : List (List State)) (h : st ∈ al) :
    StepStack al (lexExprToken p0 st) := by
  unfold lexExprToken lexNumber lexString
  simp only
  repeat' split
  all_goals first
    | exact emitAfter_stack _ _ _ _ _ h
    | simp [StepStack, h]

theorem endCheck_stack (p0 : Pos) (below : List State) (e : Bytes) (mk : Bool → Token)
    (al : List (List State)) (hb : below ∈ al) {s : Step} (h : endCheck p0 below e mk = some s) :
    StepStack al s := by
  unfold endCheck at h
  split at h
  · cases h; exact emitAfter_stack _ _ _ _ _ hb
  · split at h
    · cases h; exact emitAfter_stack _ _ _ _ _ hb
    · cases h

theorem stepInTag_stack (d : Delims) (p0 : Pos) (top : State) (below : List State) :
    StepStack [below, top :: below] (stepInTag d p0 top below) := by
  unfold stepInTag
  simp only
  split
  · split <;> simp [StepStack]
  · split
    · split
      · rename_i s hs; exact endCheck_stack _ _ _ _ _ (by simp) hs
      · exact lexExprToken_stack _ _ _ (by simp)
    · split
      · rename_i s hs; exact endCheck_stack _ _ _ _ _ (by simp) hs
      · exact lexExprToken_stack _ _ _ (by simp)
    · trivial

/-- the state stack is `[Template]`, or `Variable` / `Tag` on top of it -/
def StackOk (st : List State) : Prop :=
  st = [.template] ∨ st = [.variable, .template] ∨ st = [.tag, .template]

theorem StackOk.ne_nil {st : List State} (h : StackOk st) : st ≠ [] := by
  rcases h with h | h | h <;> simp [h]

theorem step_stack (d : Delims) (p0 : Pos) (stack : List State) (hs : StackOk stack)
    {tok : Token} {sp : Span} {p : Pos} {st' : List State} (h : step d p0 stack = .emit tok sp p st') :
    StackOk st' := by
  rcases hs with rfl | rfl | rfl
  · have := stepTemplate_stack d p0 [.template]
    simp only [step] at h
    rw [h] at this
    simp only [StepStack, List.mem_cons, List.not_mem_nil, or_false] at this
    rcases this with rfl | rfl | rfl <;> simp [StackOk]
  · have := stepInTag_stack d p0 .variable [.template]
    simp only [step] at h
    rw [h] at this
    simp only [StepStack, List.mem_cons, List.not_mem_nil, or_false] at this
    rcases this with rfl | rfl <;> simp [StackOk]
  · have := stepInTag_stack d p0 .tag [.template]
    simp only [step] at h
    rw [h] at this
    simp only [StepStack, List.mem_cons, List.not_mem_nil, or_false] at this
    rcases this with rfl | rfl <;> simp [StackOk]

/-- bytes `[k, g)` of `src` are ASCII whitespace -/
def wsRun (src : Bytes) (k g : Nat) : Prop :=
  k ≤ g ∧ ((src.drop k).take (g - k)).all isAsciiWs = true

theorem wsRun.refl (src : Bytes) (k : Nat) : wsRun src k k := by simp [wsRun]

theorem wsRun.extend {src : Bytes} {k g n : Nat} (h : wsRun src k g)
    (hn : ((src.drop g).take n).all isAsciiWs = true) : wsRun src k (g + n) := by
  obtain ⟨hle, hall⟩ := h
  refine ⟨by omega, ?_⟩
  have e1 : g + n - k = (g - k) + n := by omega
  rw [e1, List.take_add, List.all_append, hall, List.drop_drop]
  have e2 : k + (g - k) = g := by omega
  rw [e2, hn]; rfl

/-- The tokens tile `src` from byte `k` to byte `k'`: each token's byte range follows the previous
one after a run of ASCII whitespace, which is empty before the tokens the `Template` state emits
(literal text, raw blocks, comments, start markers); text-carrying tokens hold exactly the bytes
of their range. -/
inductive Tiles (src : Bytes) : Nat → List (Token × Span) → Nat → Prop
  | nil {k k' : Nat} : wsRun src k k' → Tiles src k [] k'
  | cons {k k' : Nat} {tok : Token} {sp : Span} {rest : List (Token × Span)} :
      wsRun src k sp.rangeStart → (templateLevel tok = true → sp.rangeStart = k) →
      sp.rangeStart ≤ sp.rangeEnd → sp.rangeEnd ≤ src.length →
      TokText tok ((src.drop sp.rangeStart).take (sp.rangeEnd - sp.rangeStart)) →
      Tiles src sp.rangeEnd rest k' → Tiles src k ((tok, sp) :: rest) k'

theorem lexLoop_tiles (d : Delims) (src : Bytes) : ∀ (fuel : Nat) (p : Pos) (stack : List State) (k g : Nat),
    StackOk stack → Inv src g p → wsRun src k g → (k < g → inTemplate stack = false) →
    ∃ k', Tiles src k (lexLoop d fuel p stack).tokens k' ∧ k' ≤ src.length ∧
      ((lexLoop d fuel p stack).ending = .eof → k' = src.length) := by
  intro fuel
  induction fuel with
  | zero =>
    intro p stack k g _ hg hw _
    exact ⟨g, by simpa [lexLoop] using Tiles.nil hw, hg.le, by simp [lexLoop]⟩
  | succ f ih =>
    intro p stack k g hst hg hw hgap
    unfold lexLoop
    split
    · rename_i hnil
      refine ⟨g, Tiles.nil hw, hg.le, fun _ => ?_⟩
      have := hg.rest
      rw [hnil] at this
      have h2 := hg.le
      have : src.length ≤ g := by
        have := List.drop_eq_nil_iff.mp this.symm
        exact this
      omega
    · have hs := step_adv d p stack
      have hk := step_kind d p stack hst.ne_nil
      split
      · rename_i tok span p' stack' heq
        rw [heq] at hs hk
        obtain ⟨n, hadv, hspan, htext, _⟩ := hs
        have hst' := step_stack d p stack hst heq
        have hg' : Inv src (g + n) p' := AdvN.trans hg hadv
        obtain ⟨k', ht, hle, heof⟩ := ih p' stack' (g + n) (g + n) hst' hg' (wsRun.refl _ _) (by omega)
        have hrs : span.rangeStart = g := by rw [hspan]; simp [mkSpan, hg.byte]
        have hre : span.rangeEnd = g + n := by rw [hspan]; simp [mkSpan, hg'.byte]
        refine ⟨k', ?_, hle, heof⟩
        apply Tiles.cons
        · rw [hrs]; exact hw
        · intro htl
          rw [hrs]
          simp only [StepKind] at hk
          rcases Nat.lt_or_ge k g with hlt | hge
          · have := hgap hlt; rw [this] at hk; rw [hk] at htl; cases htl
          · have := hw.1; omega
        · omega
        · rw [hre]; exact hg'.le
        · rw [hrs, hre]
          have : g + n - g = n := by omega
          rw [this, ← hg.rest]; exact htext
        · rw [hre]; exact ht
      · rename_i p' heq
        rw [heq] at hs hk
        obtain ⟨n, hadv, hn, hall⟩ := hs
        simp only [StepKind] at hk
        rw [hg.rest] at hall
        exact ih p' stack k (g + n) hst (AdvN.trans hg hadv) (hw.extend hall) (fun _ => hk)
      · exact ⟨g, Tiles.nil hw, hg.le, by simp⟩
      · exact ⟨g, Tiles.nil hw, hg.le, by simp⟩
      · exact ⟨g, Tiles.nil hw, hg.le, by simp⟩

end Tera.Lexer
