/-
C18 / C01 on the value-level VM, part 2: the ghost trace of a run.

`tInterp` is a thin wrapper around the REAL `step` of Model/Vm.lean (no instruction arm is
duplicated; only the twenty lines of `runLoop` / `interp` are mirrored).  Next to the result of the
run it returns the list of chunks the run appended to the output of the `interpret` call, in order,
each with its origin (`lit` = a `WriteText`, `sink` = the tail of `WriteTop` / `WritePath`).

* A chunk of a straight-line instruction is read off the state after the turn (`out` grew by it).
* `Include` (outside a capture) and `RenderBlock` (of a block that is not the one `render_block`
  asked for) run a nested `interpret` on the SAME output: their chunks are the nested call's chunks,
  also when the nested call ends in an error after having written — which is what a writer sees in
  the Rust, and what `RunRes.err` does not keep.
* Nested calls that write into a buffer of their own (`super()`, components, the captured block,
  an include under a capture) contribute nothing.

`guard` lets a client stop the run (with `.unmodelled GUARD`) at the first turn whose instruction
and state it flags; nested calls are guarded too.  C18 uses `noGuard`; C01 flags the one place where
a listing (not the compiler's) could mark arbitrary data safe.

Facts: `tInterp_fst` (the wrapper computes the same result as `interp`), `tInterp_out` (the chunks
are exactly what the run appended to `out`).
-/
import TeraModel.Lemmas.VmWriterOut
namespace Tera.Vm
open Tera

inductive Origin where
  /-- literal template text (`WriteText`) -/
  | lit
  /-- the tail of `WriteTop` / `WritePath` -/
  | sink
  deriving Repr, DecidableEq, Inhabited

abbrev Trace := List (Origin × List Char)

/-- the text of a trace: what `erase` of DESIGN §4 C01 is -/
def Trace.text (t : Trace) : List Char := t.flatMap (·.2)

@[simp] theorem Trace.text_nil : Trace.text [] = [] := rfl
@[simp] theorem Trace.text_append (a b : Trace) : Trace.text (a ++ b) = Trace.text a ++ Trace.text b := by
  simp [Trace.text]
@[simp] theorem Trace.text_singleton (o : Origin) (t : List Char) : Trace.text [(o, t)] = t := by
  simp [Trace.text]

def GUARD : String := "guard"

abbrev Guard := VInstr → State → Bool
def noGuard : Guard := fun _ _ => false

def originOf : VInstr → Origin
  | .writeText _ => .lit
  | _ => .sink

/-- The chunks of a nested `interpret` that runs on the caller's output; `none` for every other
instruction.  (The arguments of the nested call are those `stepInclude` / `stepRenderBlock` build.) -/
def nestedChunks (recT : VmCtx → Chunk → State → Trace) (env : Env) (vm : VmCtx) (i : VInstr)
    (st : State) : Option Trace :=
  match i with
  | .include_ n =>
    match env.template n with
    | some tpl =>
      some (if st.captures.isEmpty then recT { vm with template := tpl } tpl.chunk (includeState st) else [])
    | none => some []
  | .renderBlock n =>
    match assoc n vm.template.blockLineage with
    | some (first :: more) =>
      some (if st.captureBlock == some n then [] else recT vm first (enterBlock st n (first :: more)))
    | _ => some []
  | _ => none

/-- The chunks one turn appends to the output. -/
def stepChunks (rec : VmCtx → Chunk → State → RunRes) (recT : VmCtx → Chunk → State → Trace)
    (env : Env) (vm : VmCtx) (c : Chunk) (e : VEntry) (pc : Nat) (st : State) : Trace :=
  match nestedChunks recT env vm e.1 st with
  | some tr => tr
  | none =>
    match step rec env vm c e pc st with
    | .next _ st' => [(originOf e.1, st'.out.drop st.out.length)]
    | _ => []

/-- `runLoop` with the ghost trace. -/
def tLoop (guard : Guard) (rec : VmCtx → Chunk → State → RunRes) (recT : VmCtx → Chunk → State → Trace)
    (env : Env) (vm : VmCtx) (c : Chunk) : Nat → Nat → State → RunRes × Trace
  | 0, pc, st =>
    match c.code[pc]? with
    | none => (.done st, [])
    | some _ => (.outOfFuel, [])
  | fuel + 1, pc, st =>
    match c.code[pc]? with
    | none => (.done st, [])
    | some e =>
      if guard e.1 st then (.unmodelled GUARD, [])
      else
        let tr := stepChunks rec recT env vm c e pc st
        match step rec env vm c e pc st with
        | .next pc' st' =>
          let r := tLoop guard rec recT env vm c fuel pc' st'
          (r.1, tr ++ r.2)
        | .err e => (.err e, tr)
        | .panic s => (.panic s, tr)
        | .unmodelled w => (.unmodelled w, tr)
        | .outOfFuel => (.outOfFuel, tr)

/-- `interp` with the ghost trace. -/
def tInterp (guard : Guard) (env : Env) (steps : Nat) : Nat → VmCtx → Chunk → State → RunRes × Trace
  | 0, _, _, _ => (.outOfFuel, [])
  | depth + 1, vm, c, st =>
    tLoop guard (fun vm c st => (tInterp guard env steps depth vm c st).1)
      (fun vm c st => (tInterp guard env steps depth vm c st).2) env vm c steps 0 st

/-- `run` with the ghost trace. -/
def traceRun (guard : Guard) (fuel : Fuel) (env : Env) (vm : VmCtx) (c : Chunk) (st : State) :
    RunRes × Trace :=
  tInterp guard env fuel.steps fuel.depth vm c st

/-! ### the wrapper computes what `interp` computes -/

theorem tLoop_fst (rec : VmCtx → Chunk → State → RunRes) (recT : VmCtx → Chunk → State → Trace)
    (env : Env) (vm : VmCtx) (c : Chunk) :
    ∀ (fuel pc : Nat) (st : State),
      (tLoop noGuard rec recT env vm c fuel pc st).1 = runLoop rec env vm c fuel pc st := by
  intro fuel
  induction fuel with
  | zero =>
    intro pc st
    cases hc : c.code[pc]? <;> simp only [tLoop, runLoop, hc]
  | succ fuel ih =>
    intro pc st
    cases hc : c.code[pc]? with
    | none => simp only [tLoop, runLoop, hc]
    | some e =>
      simp only [tLoop, runLoop, hc, noGuard, Bool.false_eq_true, ↓reduceIte]
      cases hs : step rec env vm c e pc st <;> simp only [ih]

theorem tInterp_fst (env : Env) (steps : Nat) :
    ∀ (depth : Nat) (vm : VmCtx) (c : Chunk) (st : State),
      (tInterp noGuard env steps depth vm c st).1 = interp env steps depth vm c st := by
  intro depth
  induction depth with
  | zero => intro vm c st; rfl
  | succ d ih =>
    intro vm c st
    unfold tInterp interp
    rw [tLoop_fst]
    have : (fun vm c st => (tInterp noGuard env steps d vm c st).1) = interp env steps d := by
      funext vm c st; exact ih vm c st
    rw [this]

/-! ### the chunks are what the run appended to `out` -/

/-- nested `interpret` calls append exactly their chunks -/
def TraceExact (rec : VmCtx → Chunk → State → RunRes) (recT : VmCtx → Chunk → State → Trace) : Prop :=
  ∀ vm c st st', rec vm c st = .done st' → st'.out = st.out ++ (recT vm c st).text

theorem TraceExact.outGrows {rec : VmCtx → Chunk → State → RunRes}
    {recT : VmCtx → Chunk → State → Trace} (h : TraceExact rec recT) : OutGrows rec := by
  intro vm c st st' hr
  rw [h vm c st st' hr]
  exact List.prefix_append _ _

variable {rec : VmCtx → Chunk → State → RunRes} {recT : VmCtx → Chunk → State → Trace}
  {env : Env} {vm : VmCtx} {c : Chunk} {pc pc' : Nat} {st st' : State}

theorem prefix_eq_append_drop {α : Type} {a b : List α} (h : a <+: b) : b = a ++ b.drop a.length := by
  obtain ⟨t, rfl⟩ := h
  simp

theorem stepChunks_exact (hrec : TraceExact rec recT) (e : VEntry)
    (h : step rec env vm c e pc st = .next pc' st') :
    st'.out = st.out ++ (stepChunks rec recT env vm c e pc st).text := by
  obtain ⟨i, spans⟩ := e
  unfold stepChunks
  cases hn : nestedChunks recT env vm i st with
  | none =>
    simp only [h, Trace.text_singleton]
    exact prefix_eq_append_drop (step_out_grows hrec.outGrows _ h)
  | some tr =>
    simp only
    cases i <;> simp only [nestedChunks] at hn <;> try cases hn
    case include_ n =>
      unfold step stepInclude at h
      simp only at h
      cases ht : env.template n with
      | none => rw [ht] at h; simp at h
      | some tpl =>
        rw [ht] at h hn
        simp only [Option.some.injEq] at hn h
        split at h
        all_goals first
          | (exfalso; simp at h; done)
          | skip
        rename_i stn hr
        simp only [StepRes.next.injEq] at h; rcases h with ⟨_, h2⟩; subst h2
        have hx := hrec _ _ _ _ hr
        simp only [includeState, State.fresh, List.nil_append] at hx
        rw [write_out_eq, ← hn]
        split
        · rw [hx]; rfl
        · simp
    case renderBlock n =>
      unfold step stepRenderBlock at h
      simp only at h
      split at h
      · simp at h
      · simp at h
      · rename_i first more hl
        rw [hl] at hn
        simp only [Option.some.injEq] at hn
        split at h
        all_goals first
          | (exfalso; simp at h; done)
          | skip
        rename_i st2 hr
        simp only [StepRes.next.injEq] at h; rcases h with ⟨_, h2⟩; subst h2
        have hx := hrec _ _ _ _ hr
        rw [leaveBlock_out, ← hn]
        rw [enterBlock_out] at hx
        split
        · simp
        · rename_i hne; rw [if_neg hne] at hx; exact hx

theorem tLoop_out (guard : Guard) (hrec : TraceExact rec recT) :
    ∀ (fuel pc : Nat) (st st' : State), (tLoop guard rec recT env vm c fuel pc st).1 = .done st' →
      st'.out = st.out ++ (tLoop guard rec recT env vm c fuel pc st).2.text := by
  intro fuel
  induction fuel with
  | zero =>
    intro pc st st' h
    unfold tLoop at h ⊢
    split at h
    · simp only [RunRes.done.injEq] at h; subst h; simp
    · cases h
  | succ fuel ih =>
    intro pc st st' h
    unfold tLoop at h ⊢
    split at h
    · simp only [RunRes.done.injEq] at h; subst h; simp
    · rename_i e he
      split at h
      · cases h
      · rename_i hg
        simp only [hg]
        simp only at h
        split at h
        · rename_i pc1 st1 hs
          simp only at h
          simp only [Bool.false_eq_true, ↓reduceIte, Trace.text_append]
          rw [ih _ _ _ h, stepChunks_exact hrec e hs, List.append_assoc]
        all_goals cases h

/-- The chunks of the trace are exactly what the run appended to the output it was given. -/
theorem tInterp_out (guard : Guard) (env : Env) (steps : Nat) :
    ∀ depth, TraceExact (fun vm c st => (tInterp guard env steps depth vm c st).1)
      (fun vm c st => (tInterp guard env steps depth vm c st).2) := by
  intro depth
  induction depth with
  | zero => intro vm c st st' h; simp [tInterp] at h
  | succ d ih =>
    intro vm c st st' h
    simp only [tInterp] at h ⊢
    exact tLoop_out guard ih _ _ _ _ h

end Tera.Vm
