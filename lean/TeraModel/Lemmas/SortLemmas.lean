/-
The reference stable sort `sortBy` (insertion sort, Model/KeyModel.lean): its output is a
permutation of the input, is non-decreasing whenever the comparison obeys the order laws on the
elements, and keeps the input order of elements that compare `Equal` (stability).
-/
import TeraModel.Lemmas.OrdLaws
import Mathlib.Data.List.Perm.Basic
set_option linter.unusedVariables false
namespace Tera

theorem insertBy_perm {α : Type} (cmp : α → α → Ordering) (x : α) (l : List α) :
    (insertBy cmp x l).Perm (x :: l) := by
  induction l with
  | nil => exact List.Perm.refl _
  | cons y ys ih =>
    simp only [insertBy]; split
    · exact (List.Perm.cons y ih).trans (List.Perm.swap x y ys)
    · exact List.Perm.refl _

theorem sortBy_perm {α : Type} (cmp : α → α → Ordering) (l : List α) : (sortBy cmp l).Perm l := by
  induction l with
  | nil => exact List.Perm.refl _
  | cons x xs ih => exact (insertBy_perm cmp x _).trans (List.Perm.cons x ih)

theorem mem_insertBy' {α : Type} (cmp : α → α → Ordering) (x y : α) (l : List α) :
    y ∈ insertBy cmp x l ↔ y = x ∨ y ∈ l := by
  rw [(insertBy_perm cmp x l).mem_iff]; simp

theorem mem_sortBy' {α : Type} (cmp : α → α → Ordering) (y : α) (l : List α) :
    y ∈ sortBy cmp l ↔ y ∈ l := (sortBy_perm cmp l).mem_iff

/-- non-decreasing: no element is greater than a later one -/
def Sorted {α : Type} (cmp : α → α → Ordering) (l : List α) : Prop :=
  l.Pairwise (fun x y => cmp x y ≠ .gt)

theorem insertBy_sorted {α : Type} {D : α → Prop} {cmp : α → α → Ordering} (h : OrdLaws D cmp)
    (x : α) (l : List α) (dx : D x) (dl : ∀ y ∈ l, D y) (s : Sorted cmp l) :
    Sorted cmp (insertBy cmp x l) := by
  induction l with
  | nil => simp [insertBy, Sorted]
  | cons y ys ih =>
    have dy := dl y (by simp)
    have dys : ∀ z ∈ ys, D z := fun z hz => dl z (by simp [hz])
    unfold Sorted at s ih ⊢
    rw [List.pairwise_cons] at s
    simp only [insertBy]
    by_cases hc : cmp x y = .gt
    · simp only [hc, beq_self_eq_true, if_true]
      rw [List.pairwise_cons]
      refine ⟨?_, ih dys s.2⟩
      intro z hz
      rcases (mem_insertBy' cmp x z ys).1 hz with rfl | hz
      · rw [h.lt_of_gt dx dy hc]; decide
      · exact s.1 z hz
    · have : (cmp x y == Ordering.gt) = false := by cases hxy : cmp x y <;> simp_all
      simp only [this, Bool.false_eq_true, if_false]
      rw [List.pairwise_cons, List.pairwise_cons]
      refine ⟨?_, s⟩
      intro z hz
      rcases List.mem_cons.1 hz with rfl | hz
      · exact hc
      · exact h.le_trans x y z dx dy (dys z hz) hc (s.1 z hz)

/-- **the reference sort sorts**, for any comparison obeying the order laws on the elements. -/
theorem sortBy_sorted {α : Type} {D : α → Prop} {cmp : α → α → Ordering} (h : OrdLaws D cmp)
    (l : List α) (dl : ∀ y ∈ l, D y) : Sorted cmp (sortBy cmp l) := by
  induction l with
  | nil => simp [sortBy, Sorted]
  | cons x xs ih =>
    have dxs : ∀ z ∈ xs, D z := fun z hz => dl z (by simp [hz])
    exact insertBy_sorted h x _ (dl x (by simp)) (fun y hy => dxs y ((mem_sortBy' cmp y xs).1 hy)) (ih dxs)

/-! ### stability -/

/-- Inserting `x` does not disturb the elements equal to a given `p` … -/
theorem insertBy_filter_ne {α : Type} (cmp : α → α → Ordering) (p : α → Bool) (x : α) (l : List α)
    (hx : p x = false) : (insertBy cmp x l).filter p = l.filter p := by
  induction l with
  | nil => simp [insertBy, hx]
  | cons y ys ih =>
    simp only [insertBy]; split
    · simp only [List.filter_cons, ih]
    · simp [List.filter_cons, hx]

/-- … and goes in front of all of them if it belongs to the class itself (`p` is a class of
mutually `Equal` elements, closed under `Equal`). -/
theorem insertBy_filter_eq {α : Type} {D : α → Prop} {cmp : α → α → Ordering} (h : OrdLaws D cmp)
    (p : α → Bool) (x : α) (l : List α) (dx : D x) (dl : ∀ y ∈ l, D y) (s : Sorted cmp l)
    (hx : p x = true) (hp : ∀ y ∈ l, p y = true → cmp x y = .eq) :
    (insertBy cmp x l).filter p = x :: l.filter p := by
  induction l with
  | nil => simp [insertBy, hx]
  | cons y ys ih =>
    have dy := dl y (by simp)
    have dys : ∀ z ∈ ys, D z := fun z hz => dl z (by simp [hz])
    unfold Sorted at s
    rw [List.pairwise_cons] at s
    simp only [insertBy]
    by_cases hc : cmp x y = .gt
    · simp only [hc, beq_self_eq_true, if_true]
      have py : p y = false := by
        cases hpy : p y with
        | false => rfl
        | true => have := hp y (by simp) hpy; rw [this] at hc; cases hc
      rw [List.filter_cons, List.filter_cons]
      simp only [py, Bool.false_eq_true, if_false]
      exact ih dys s.2 (fun z hz => hp z (by simp [hz]))
    · have : (cmp x y == Ordering.gt) = false := by cases hxy : cmp x y <;> simp_all
      simp only [this, Bool.false_eq_true, if_false]
      rw [List.filter_cons]; simp [hx]

/-- **the reference sort is stable**: for every class `p` of mutually `Equal` elements (closed
under `Equal` among the elements of the list), the members of the class appear in the output in
their input order. -/
theorem sortBy_stable {α : Type} {D : α → Prop} {cmp : α → α → Ordering} (h : OrdLaws D cmp)
    (p : α → Bool) (l : List α) (dl : ∀ y ∈ l, D y)
    (hp : ∀ x ∈ l, ∀ y ∈ l, p x = true → p y = true → cmp x y = .eq) :
    (sortBy cmp l).filter p = l.filter p := by
  induction l with
  | nil => rfl
  | cons x xs ih =>
    have dxs : ∀ z ∈ xs, D z := fun z hz => dl z (by simp [hz])
    have ih' := ih dxs (fun a ha b hb => hp a (by simp [ha]) b (by simp [hb]))
    simp only [sortBy]
    cases hx : p x with
    | false => rw [insertBy_filter_ne cmp p x _ hx, ih', List.filter_cons]; simp [hx]
    | true =>
      rw [insertBy_filter_eq h p x _ (dl x (by simp))
        (fun y hy => dxs y ((mem_sortBy' cmp y xs).1 hy)) (sortBy_sorted h xs dxs) hx
        (fun y hy py => hp x (by simp) y (by simp [(mem_sortBy' cmp y xs).1 hy]) hx py), ih',
        List.filter_cons]
      simp [hx]

end Tera
