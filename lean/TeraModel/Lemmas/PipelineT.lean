/-
`addTemplatesT` — the composed add-time pipeline WITHOUT the model's run of the checker — returns
environments that satisfy p2_vm's `EnvOKT` (every chunk has SOME `Vm.verify` table, its template is
registered, its names are registered), by theorem:
  parser (`parse_scoped`) → compiler (`CompileVVerify`: p2_compiler's `compile_vverify`) →
  optimiser (`storeChunk_vverify`: bC_opt's `optimize_preserves_vverify`) → registry
  (`buildEnv_prov`, `prov_names`).
-/
import TeraModel.Lemmas.PipelineNames
import TeraModel.Lemmas.PipelineVerify
import TeraModel.Lemmas.VmSimT
namespace Tera.Pipeline
open Tera Tera.Vm Tera.Compiler

/-- the compiler bridge: the typed form of every scoped compiled node list has a table accepted by
the value-level checker -/
def CompileVVerify : Prop :=
  ∀ ns : List Node, nodesScoped false ns = true →
    ∃ tcode table, typedCode (nodesCode 0 none ns) = some tcode ∧ Vm.verify tcode table = true

theorem prov_chunkOKT (hcv : CompileVVerify) (cfg : Config) (env : Vm.Env) (ch : Vm.Chunk)
    (hf : env.hasFilter = cfg.reg.filters.contains) (ht : env.hasTest = cfg.reg.tests.contains)
    (hfn : env.hasFunction = cfg.reg.functions.contains) (h : Prov cfg env ch) :
    ChunkOKT env ch := by
  obtain ⟨hreg, hnames⟩ := prov_names cfg env ch hf ht hfn h
  obtain ⟨td, ⟨ns, hsc, hst, _⟩, _, _⟩ := h
  obtain ⟨tcode, table, htc, hv⟩ := hcv ns hsc
  obtain ⟨table', hv'⟩ := storeChunk_vverify td.name ns tcode table htc hv ch hst
  refine ⟨table', ?_⟩
  unfold checkChunkT
  simp only [Bool.and_eq_true, List.all_eq_true]
  exact ⟨⟨hreg, hnames⟩, hv'⟩

theorem addTemplatesT_inv (cfg : Config) (sources : List (String × Bytes)) (env : Env)
    (h : addTemplatesT cfg sources = .ok env) :
    ∃ tds st, newAll cfg.delims sources = .ok tds ∧ register cfg tds = .ok st ∧
      buildEnv cfg tds st = some env := by
  unfold addTemplatesT at h
  cases hn : newAll cfg.delims sources with
  | error e => rw [hn] at h; cases h
  | ok tds =>
    rw [hn] at h
    simp only at h
    cases hr : register cfg tds with
    | error e => rw [hr] at h; cases h
    | ok st =>
      rw [hr] at h
      simp only at h
      cases hb : buildEnv cfg tds st with
      | none => rw [hb] at h; cases h
      | some env' =>
        rw [hb] at h
        simp only [Except.ok.injEq] at h
        subst h
        exact ⟨tds, st, rfl, hr, hb⟩

theorem buildEnv_mk (cfg : Config) (tds : List TemplateData) (st : Reg.State) (env : Env)
    (h : buildEnv cfg tds st = some env) : ∃ tpls comps, env = mkEnv cfg tpls comps := by
  unfold buildEnv at h
  split at h
  · cases h; exact ⟨_, _, rfl⟩
  · cases h

/-- **every environment `addTemplatesT` returns is `EnvOKT`** -/
theorem addTemplatesT_envOKT (hcv : CompileVVerify) (cfg : Config) (hb : BuiltinsNoPanic cfg.builtins)
    (sources : List (String × Bytes)) (env : Env) (h : addTemplatesT cfg sources = .ok env) :
    EnvOKT env := by
  obtain ⟨tds, st, hn, hr, hbe⟩ := addTemplatesT_inv cfg sources env h
  obtain ⟨hP1, hP2⟩ := buildEnv_prov cfg sources tds st env hn hr hbe
  obtain ⟨tpls, comps, rfl⟩ := buildEnv_mk cfg tds st env hbe
  refine ⟨?_, ?_, hb⟩
  · intro n tpl htpl
    obtain ⟨h1, h2⟩ := hP1 n tpl htpl
    exact ⟨prov_chunkOKT hcv cfg _ _ rfl rfl rfl h1,
      fun b lin hl ch hch => prov_chunkOKT hcv cfg _ _ rfl rfl rfl (h2 b lin hl ch hch)⟩
  · intro n d ch hc
    exact prov_chunkOKT hcv cfg _ _ rfl rfl rfl (hP2 n d ch hc)

/-- the outcomes of `addTemplatesT` that are values of the engine -/
def AddErr.value : AddErr → Prop
  | .syntax _ => True
  | .registry e => e.isValue
  | _ => False

/-- **`addTemplatesT` answers an environment, `Err(SyntaxError)` or an error value of
`finalize_templates`** — nothing else: no panic, no fuel, no `internal`, and there is no checker
run that could answer `unchecked` -/
theorem addTemplatesT_total (cfg : Config) (hd : cfg.delims.accepted = true)
    (sources : List (String × Bytes)) (hv : ∀ p ∈ sources, Utf8.valid p.2 = true) :
    (∃ env, addTemplatesT cfg sources = .ok env) ∨
    ∃ e, addTemplatesT cfg sources = .error e ∧ e.value := by
  unfold addTemplatesT
  rcases newAll_total cfg.delims hd sources (fun p hp => ⟨hv p hp, scopedOn_all _⟩)
    with ⟨tds, ht⟩ | ⟨n, hn⟩
  · rw [ht]
    simp only
    rcases register_total cfg tds with ⟨st, hst⟩ | ⟨e, he, hval⟩
    · rw [hst]
      simp only
      obtain ⟨env, henv⟩ := buildEnv_some cfg sources tds st ht hst
      rw [henv]
      exact Or.inl ⟨env, rfl⟩
    · rw [he]; exact Or.inr ⟨_, rfl, hval⟩
  · rw [hn]; exact Or.inr ⟨_, rfl, trivial⟩

end Tera.Pipeline
