/-
Helper lemmas for C09WF (value-level checker): acceptance by `Vm.verify` (Model/VmCheck.lean:
per-slot flags arr / map / sp / okb, loop ends, capture count) is preserved by
`Optimize.optimize`.  Same construction as Lemmas/OptimizeWF.lean: the new table is the old one
read at the group starts, the loop ends stored in the abstract states mapped through `index_map`,
entries whose stored loop ends are not jump operands of the chunk dropped.

The typed code is related to the listing through an abstract decoder `dec : Instr → Option VInstr`
(`DecOK`: it is the identity on the ten structural instructions) so that the result applies both to
`Vm.decodeCode p` (Model/VmState.lean) and to the pipeline's positional `decodeInstr`.
-/
import TeraModel.Model.VmCheck
import TeraModel.Lemmas.OptimizeWF
import TeraModel.Lemmas.OptimizeSem
namespace Tera
namespace OptimizeVWF
open Tera.Optimize Tera.ChunkVm Tera.OptimizeWF Tera.Vm

/-! ## The order on abstract states -/

theorem Tag.le_refl (t : Tag) : t.le t = true := by
  obtain ⟨a, b, c, d⟩ := t
  cases a <;> cases b <;> cases c <;> cases d <;> rfl

theorem Tag.le_trans (x y z : Tag) (h1 : x.le y = true) (h2 : y.le z = true) : x.le z = true := by
  obtain ⟨a1, b1, c1, d1⟩ := x
  obtain ⟨a2, b2, c2, d2⟩ := y
  obtain ⟨a3, b3, c3, d3⟩ := z
  simp only [Tag.le, Bool.and_eq_true, Bool.or_eq_true, Bool.not_eq_true'] at h1 h2 ⊢
  refine ⟨⟨⟨?_, ?_⟩, ?_⟩, ?_⟩
  · cases a3 <;> simp_all
  · cases b3 <;> simp_all
  · cases c3 <;> simp_all
  · cases d3 <;> simp_all

theorem leTags_refl : ∀ l, leTags l l = true := by
  intro l; induction l with
  | nil => rfl
  | cons x xs ih => simp [leTags, ih, Tag.le_refl]

theorem leTags_trans : ∀ a b c, leTags a b = true → leTags b c = true → leTags a c = true := by
  intro a
  induction a with
  | nil => intro b c h1 h2; cases b <;> cases c <;> simp_all [leTags]
  | cons x xs ih =>
    intro b c h1 h2
    cases b with
    | nil => simp [leTags] at h1
    | cons y ys =>
      cases c with
      | nil => simp [leTags] at h2
      | cons z zs =>
        simp only [leTags, Bool.and_eq_true] at h1 h2 ⊢
        exact ⟨Tag.le_trans _ _ _ h1.1 h2.1, ih ys zs h1.2 h2.2⟩

theorem vleLoops_refl : ∀ l, Vm.leLoops l l = true := by
  intro l; induction l with
  | nil => rfl
  | cons x xs ih => simp [Vm.leLoops, ih]

theorem vleLoops_trans : ∀ a b c, Vm.leLoops a b = true → Vm.leLoops b c = true → Vm.leLoops a c = true := by
  intro a
  induction a with
  | nil => intro b c h1 h2; cases b <;> cases c <;> simp_all [Vm.leLoops]
  | cons x xs ih =>
    intro b c h1 h2
    cases b with
    | nil => simp [Vm.leLoops] at h1
    | cons y ys =>
      cases c with
      | nil => simp [Vm.leLoops] at h2
      | cons z zs =>
        simp only [Vm.leLoops, Bool.and_eq_true, Bool.or_eq_true, beq_iff_eq] at h1 h2 ⊢
        refine ⟨?_, ih ys zs h1.2 h2.2⟩
        rcases h2.1 with hz | hyz
        · exact Or.inl hz
        · rcases h1.1 with hy | hxy
          · left; rw [← hyz]; exact hy
          · right; rw [hxy]; exact hyz

theorem ASt.le_refl (a : ASt) : a.le a = true := by
  simp [ASt.le, leTags_refl, vleLoops_refl]

theorem ASt.le_trans (a b c : ASt) (h1 : a.le b = true) (h2 : b.le c = true) : a.le c = true := by
  simp only [ASt.le, Bool.and_eq_true, beq_iff_eq] at h1 h2 ⊢
  exact ⟨⟨leTags_trans _ _ _ h1.1.1 h2.1.1, h1.1.2.trans h2.1.2⟩, vleLoops_trans _ _ _ h1.2 h2.2⟩

theorem ASt.le_empty (a : ASt) (h : a.le ASt.empty = true) : a = ASt.empty := by
  obtain ⟨st, ls, k⟩ := a
  simp only [ASt.le, ASt.empty, Bool.and_eq_true, beq_iff_eq] at h
  obtain ⟨⟨h1, h2⟩, h3⟩ := h
  cases ls with
  | nil =>
    cases st with
    | nil => simp_all [ASt.empty]
    | cons x xs => simp [leTags] at h1
  | cons x xs => simp [Vm.leLoops] at h3

/-- a successor described by a state that is accounted for is accounted for -/
theorem covered_mono (table : List (Option ASt)) (len q : Nat) (s s' : ASt) (hle : s.le s' = true)
    (h : Vm.covered table len (q, s') = true) : Vm.covered table len (q, s) = true := by
  simp only [Vm.covered] at h ⊢
  by_cases hl : q < len
  · simp only [hl, ↓reduceIte] at h ⊢
    cases ht : table[q]? with
    | none => rw [ht] at h; cases h
    | some entry =>
      cases entry with
      | none => rw [ht] at h; cases h
      | some b => rw [ht] at h; exact ASt.le_trans _ _ _ hle h
  · simp only [hl, ↓reduceIte, Bool.and_eq_true, beq_iff_eq] at h ⊢
    refine ⟨h.1, ?_⟩
    have : s' = ASt.empty := h.2
    rw [this] at hle
    exact ASt.le_empty _ hle

/-! ## Mapping loop ends -/

def vmapSt (f : Nat → Nat) (s : ASt) : ASt := ⟨s.stack, mapLoops f s.loops, s.caps⟩

theorem vmapSt_empty (f : Nat → Nat) : vmapSt f ASt.empty = ASt.empty := rfl

theorem vleLoops_map (f : Nat → Nat) : ∀ a b, Vm.leLoops a b = true →
    Vm.leLoops (mapLoops f a) (mapLoops f b) = true := by
  intro a
  induction a with
  | nil => intro b h; cases b <;> simp_all [Vm.leLoops, mapLoops]
  | cons x xs ih =>
    intro b h
    cases b with
    | nil => simp [Vm.leLoops] at h
    | cons y ys =>
      simp only [Vm.leLoops, Bool.and_eq_true, Bool.or_eq_true, beq_iff_eq] at h
      simp only [mapLoops, List.map_cons, Vm.leLoops, Bool.and_eq_true, Bool.or_eq_true, beq_iff_eq]
      refine ⟨?_, ih ys h.2⟩
      rcases h.1 with h1 | h1
      · left; simp [h1]
      · right; rw [h1]

theorem vle_map (f : Nat → Nat) (a b : ASt) (h : a.le b = true) : (vmapSt f a).le (vmapSt f b) = true := by
  simp only [ASt.le, Bool.and_eq_true, beq_iff_eq] at h ⊢
  exact ⟨⟨h.1.1, h.1.2⟩, vleLoops_map f _ _ h.2⟩

theorem vvalidLoops_of_le (c : List Entry) : ∀ a b, Vm.leLoops a b = true → validLoops c a = true →
    validLoops c b = true := by
  intro a
  induction a with
  | nil => intro b h _; cases b <;> simp_all [Vm.leLoops, validLoops]
  | cons x xs ih =>
    intro b h hv
    cases b with
    | nil => simp [Vm.leLoops] at h
    | cons y ys =>
      simp only [Vm.leLoops, Bool.and_eq_true, Bool.or_eq_true, beq_iff_eq] at h
      simp only [validLoops, List.all_cons, Bool.and_eq_true] at hv ⊢
      refine ⟨?_, ih ys h.2 hv.2⟩
      rcases h.1 with h1 | h1
      · subst h1; rfl
      · rw [← h1]; exact hv.1

/-! ## The new table -/

def vnewEntry (c : List Entry) (table : List (Option ASt)) (k : Nat) : Option ASt :=
  match table[startOf c k]? with
  | some (some b) => if validLoops c b.loops then some (vmapSt (imapFn c) b) else none
  | _ => none

def vnewTable (c : List Entry) (table : List (Option ASt)) : List (Option ASt) :=
  (List.range (groups c).length).map (vnewEntry c table)

theorem vnewTable_get (c : List Entry) (table : List (Option ASt)) (k : Nat)
    (h : k < (groups c).length) : (vnewTable c table)[k]? = some (vnewEntry c table k) := by
  simp [vnewTable, h]

/-- A successor accounted for by the old table at a group start is accounted for by the new table
at the number of that group. -/
theorem vcov_transfer (c : List Entry) (table : List (Option ASt)) (p1 p1' : Nat) (s1 : ASt)
    (hcov : Vm.covered table c.length (p1, s1) = true) (hpc : PcRel c p1 p1')
    (hvalid : validLoops c s1.loops = true) :
    Vm.covered (vnewTable c table) (groups c).length (p1', vmapSt (imapFn c) s1) = true := by
  simp only [Vm.covered] at hcov ⊢
  by_cases hl : p1 < c.length
  · simp only [hl, ↓reduceIte] at hcov
    obtain ⟨g, hg, _, _⟩ := group_at c p1 p1' hpc hl
    have hlt : p1' < (groups c).length := (List.getElem?_eq_some_iff.mp hg).1
    simp only [hlt, ↓reduceIte, vnewTable_get c table p1' hlt, vnewEntry, startOf_of_pcRel c p1 p1' hpc]
    cases ht : table[p1]? with
    | none => rw [ht] at hcov; cases hcov
    | some entry =>
      cases entry with
      | none => rw [ht] at hcov; cases hcov
      | some b =>
        rw [ht] at hcov
        simp only at hcov ⊢
        have hvb : validLoops c b.loops = true := by
          simp only [ASt.le, Bool.and_eq_true] at hcov
          exact vvalidLoops_of_le c _ _ hcov.2 hvalid
        simp only [hvb, ↓reduceIte]
        exact vle_map _ _ _ hcov
  · simp only [hl, ↓reduceIte, Bool.and_eq_true, beq_iff_eq] at hcov
    obtain ⟨h1, h2⟩ := hcov
    subst h1
    have hend := at_end c p1' hpc
    subst hend
    simp only [Nat.lt_irrefl, ↓reduceIte, beq_self_eq_true, Bool.true_and, beq_iff_eq]
    have : s1 = ASt.empty := h2
    rw [this]; rfl

/-! ## Typed instructions and instruction indices -/

def vtarget : VInstr → Option Nat
  | .jump t | .popJumpIfFalse t | .jumpIfFalseOrPop t | .jumpIfTrueOrPop t | .iterate t => some t
  | _ => none

def vmapTarget (f : Nat → Nat) : VInstr → VInstr
  | .jump t => .jump (f t)
  | .popJumpIfFalse t => .popJumpIfFalse (f t)
  | .jumpIfFalseOrPop t => .jumpIfFalseOrPop (f t)
  | .jumpIfTrueOrPop t => .jumpIfTrueOrPop (f t)
  | .iterate t => .iterate (f t)
  | i => i

def isBreak : VInstr → Bool
  | .break_ => true
  | _ => false

theorem vmapTarget_of_none (f : Nat → Nat) (i : VInstr) (h : vtarget i = none) : vmapTarget f i = i := by
  cases i <;> simp_all [vtarget, vmapTarget]

theorem validLoops_none_cons (c : List Entry) (l : List (Option Nat)) (h : validLoops c l = true) :
    validLoops c (none :: l) = true := by simpa [validLoops] using h

/-- An arm that neither carries nor reads an instruction index: at any other index and with the
loop ends renamed it does the same. -/
theorem astep_local (c : List Entry) (f : Nat → Nat) (i : VInstr) (hnt : vtarget i = none)
    (hnb : isBreak i = false) (own : Bool) (n pc k : Nat) (a : ASt) (succs : List (Nat × ASt))
    (h : astep i own n pc a = some succs) :
    astep i own n k (vmapSt f a) = some (succs.map fun x => (k + 1, vmapSt f x.2)) ∧
    ∀ x ∈ succs, x.1 = pc + 1 ∧ (validLoops c a.loops = true → validLoops c x.2.loops = true) := by
  obtain ⟨stk, ls, caps⟩ := a
  cases i <;> simp only [vtarget, isBreak, reduceCtorEq] at hnt hnb
  all_goals (simp only [astep, abinop] at h ⊢)
  all_goals (try (repeat' (split at h)))
  all_goals (first
    | (cases h; done)
    | (simp only [Option.some.injEq] at h; subst h
       simp_all [vmapSt, mapLoops, validLoops_none_cons]))
  all_goals (try exact fun hh => validLoops_tail c _ _ hh)

/-- One checked instruction of the old typed code against the same instruction, with its jump
operand mapped, of the new typed code. -/
theorem astep_transfer (c : List Entry) (table : List (Option ASt)) (hr : TargetsOk c)
    (i : VInstr) (own : Bool) (n pc k : Nat) (a : ASt) (succs : List (Nat × ASt))
    (hstep : astep i own n pc a = some succs)
    (hcov : ∀ x ∈ succs, Vm.covered table c.length x = true)
    (hvalid : validLoops c a.loops = true)
    (hnext : PcRel c (pc + 1) (k + 1))
    (htgt : ∀ t, vtarget i = some t → isOperand c t = true) :
    ∃ succs', astep (vmapTarget (imapFn c) i) own n k (vmapSt (imapFn c) a) = some succs' ∧
      ∀ x ∈ succs', Vm.covered (vnewTable c table) (groups c).length x = true := by
  have fall : ∀ (s1 : ASt), Vm.covered table c.length (pc + 1, s1) = true → validLoops c s1.loops = true →
      Vm.covered (vnewTable c table) (groups c).length (k + 1, vmapSt (imapFn c) s1) = true :=
    fun s1 h1 h2 => vcov_transfer c table (pc + 1) (k + 1) s1 h1 hnext h2
  have jump : ∀ (t : Nat) (s1 : ASt), isOperand c t = true → Vm.covered table c.length (t, s1) = true →
      validLoops c s1.loops = true →
      Vm.covered (vnewTable c table) (groups c).length (imapFn c t, vmapSt (imapFn c) s1) = true :=
    fun t s1 ht h1 h2 => vcov_transfer c table t (imapFn c t) s1 h1 (operand_pcRel c hr t ht) h2
  by_cases hloc : vtarget i = none ∧ isBreak i = false
  · obtain ⟨h1, h2⟩ := astep_local c (imapFn c) i hloc.1 hloc.2 own n pc k a succs hstep
    rw [vmapTarget_of_none _ _ hloc.1]
    refine ⟨_, h1, ?_⟩
    intro x hx
    obtain ⟨y, hy, rfl⟩ := List.mem_map.mp hx
    obtain ⟨hy1, hy2⟩ := h2 y hy
    have hc := hcov y hy
    have : y = (pc + 1, y.2) := by rw [← hy1]
    rw [this] at hc
    exact fall y.2 hc (hy2 hvalid)
  · obtain ⟨stk, ls, caps⟩ := a
    simp only at hvalid
    cases i with
    | jump t =>
      simp only [astep, Option.some.injEq] at hstep; subst hstep
      refine ⟨_, rfl, ?_⟩
      intro x hx; simp only [List.mem_singleton] at hx; subst hx
      exact jump t ⟨stk, ls, caps⟩ (htgt t rfl) (hcov _ (by simp)) hvalid
    | popJumpIfFalse t =>
      cases stk with
      | nil => simp [astep] at hstep
      | cons y rest =>
        simp only [astep, Option.some.injEq] at hstep; subst hstep
        refine ⟨_, rfl, ?_⟩
        intro x hx
        simp only [List.mem_cons, List.not_mem_nil, or_false] at hx
        rcases hx with rfl | rfl
        · exact jump t ⟨rest, ls, caps⟩ (htgt t rfl) (hcov _ (by simp)) hvalid
        · exact fall ⟨rest, ls, caps⟩ (hcov _ (by simp)) hvalid
    | jumpIfFalseOrPop t =>
      cases stk with
      | nil => simp [astep, ajumpOrPop] at hstep
      | cons y rest =>
        simp only [astep, ajumpOrPop, Option.some.injEq] at hstep; subst hstep
        refine ⟨_, rfl, ?_⟩
        intro x hx
        simp only [List.mem_cons, List.not_mem_nil, or_false] at hx
        rcases hx with rfl | rfl
        · exact jump t ⟨y :: rest, ls, caps⟩ (htgt t rfl) (hcov _ (by simp)) hvalid
        · exact fall ⟨rest, ls, caps⟩ (hcov _ (by simp)) hvalid
    | jumpIfTrueOrPop t =>
      cases stk with
      | nil => simp [astep, ajumpOrPop] at hstep
      | cons y rest =>
        simp only [astep, ajumpOrPop, Option.some.injEq] at hstep; subst hstep
        refine ⟨_, rfl, ?_⟩
        intro x hx
        simp only [List.mem_cons, List.not_mem_nil, or_false] at hx
        rcases hx with rfl | rfl
        · exact jump t ⟨y :: rest, ls, caps⟩ (htgt t rfl) (hcov _ (by simp)) hvalid
        · exact fall ⟨rest, ls, caps⟩ (hcov _ (by simp)) hvalid
    | iterate t =>
      cases ls with
      | nil => simp [astep] at hstep
      | cons l0 outer =>
        simp only [astep, Option.some.injEq] at hstep; subst hstep
        refine ⟨_, rfl, ?_⟩
        intro x hx
        simp only [List.mem_cons, List.not_mem_nil, or_false] at hx
        rcases hx with rfl | rfl
        · exact jump t ⟨stk, l0 :: outer, caps⟩ (htgt t rfl) (hcov _ (by simp)) hvalid
        · have hv2 : validLoops c (some t :: outer) = true := by
            simp only [validLoops, List.all_cons, Bool.and_eq_true]
            exact ⟨htgt t rfl, validLoops_tail c l0 outer hvalid⟩
          exact fall ⟨stk, some t :: outer, caps⟩ (hcov _ (by simp)) hv2
    | break_ =>
      cases ls with
      | nil => simp [astep] at hstep
      | cons l0 outer =>
        cases l0 with
        | none => simp [astep] at hstep
        | some t =>
          simp only [astep, Option.some.injEq] at hstep; subst hstep
          refine ⟨_, rfl, ?_⟩
          intro x hx; simp only [List.mem_singleton] at hx; subst hx
          exact jump t ⟨stk, some t :: outer, caps⟩ (validLoops_head c t outer hvalid) (hcov _ (by simp)) hvalid
    | _ => exact absurd ⟨rfl, rfl⟩ hloc

/-! ## Decoders -/

/-- `dec` is the identity on the ten structural instructions of a listing. -/
structure DecOK (dec : Instr → Option VInstr) : Prop where
  loadName : ∀ n, dec (.loadName n) = some (.loadName n)
  loadAttr : ∀ a, dec (.loadAttr a) = some (.loadAttr a false)
  writeTop : dec .writeTop = some .writeTop
  loadPath : ∀ p, dec (.loadPath p) = some (.loadPath p)
  writePath : ∀ p, dec (.writePath p) = some (.writePath p)
  jump : ∀ t, dec (.jump t) = some (.jump t)
  popJumpIfFalse : ∀ t, dec (.popJumpIfFalse t) = some (.popJumpIfFalse t)
  jumpIfFalseOrPop : ∀ t, dec (.jumpIfFalseOrPop t) = some (.jumpIfFalseOrPop t)
  jumpIfTrueOrPop : ∀ t, dec (.jumpIfTrueOrPop t) = some (.jumpIfTrueOrPop t)
  iterate : ∀ t, dec (.iterate t) = some (.iterate t)

/-- `code` is the listing `c` decoded instruction by instruction (spans kept). -/
structure Decoded (dec : Instr → Option VInstr) (c : List Entry) (code : List VEntry) : Prop where
  len : code.length = c.length
  get : ∀ (i : Nat) (e : Entry), c[i]? = some e → ∃ vi, dec e.1 = some vi ∧ code[i]? = some (vi, e.2)

/-- the opaque instructions of the listing do not decode to jump-carrying instructions -/
def OtherNoTarget (dec : Instr → Option VInstr) (c : List Entry) : Prop :=
  ∀ e ∈ c, ∀ k a vi, e.1 = .other k a → dec e.1 = some vi → vtarget vi = none

theorem dec_remap (dec : Instr → Option VInstr) (hd : DecOK dec) (c : List Entry)
    (hO : OtherNoTarget dec c) (f : Nat → Nat) (e : Entry) (he : e ∈ c) (vi : VInstr)
    (h : dec e.1 = some vi) :
    dec (e.1.mapTarget f) = some (vmapTarget f vi) ∧ vtarget vi = e.1.target? := by
  obtain ⟨ins, sp⟩ := e
  cases ins with
  | loadName n => rw [hd.loadName] at h; cases h; exact ⟨hd.loadName n, rfl⟩
  | loadAttr a => rw [hd.loadAttr] at h; cases h; exact ⟨hd.loadAttr a, rfl⟩
  | writeTop => rw [hd.writeTop] at h; cases h; exact ⟨hd.writeTop, rfl⟩
  | loadPath p => rw [hd.loadPath] at h; cases h; exact ⟨hd.loadPath p, rfl⟩
  | writePath p => rw [hd.writePath] at h; cases h; exact ⟨hd.writePath p, rfl⟩
  | jump t => rw [hd.jump] at h; cases h; exact ⟨hd.jump _, rfl⟩
  | popJumpIfFalse t => rw [hd.popJumpIfFalse] at h; cases h; exact ⟨hd.popJumpIfFalse _, rfl⟩
  | jumpIfFalseOrPop t => rw [hd.jumpIfFalseOrPop] at h; cases h; exact ⟨hd.jumpIfFalseOrPop _, rfl⟩
  | jumpIfTrueOrPop t => rw [hd.jumpIfTrueOrPop] at h; cases h; exact ⟨hd.jumpIfTrueOrPop _, rfl⟩
  | iterate t => rw [hd.iterate] at h; cases h; exact ⟨hd.iterate _, rfl⟩
  | other k a =>
    have hn := hO _ he k a vi rfl h
    rw [vmapTarget_of_none f vi hn]
    exact ⟨h, hn⟩

/-! ## Fused groups on the old table -/

/-- the slot a spanned `LoadName` / `LoadAttr` / `LoadPath` pushes -/
def FT : Tag := Tag.fresh true

theorem isEmpty_false {α : Type} (l : List α) (h : l ≠ []) : (!l.isEmpty) = true := by
  cases l with
  | nil => exact absurd rfl h
  | cons a t => rfl

theorem le_cons_inv (x : Tag) (xs : List Tag) (ls : List (Option Nat)) (caps : Nat) (b : ASt)
    (h : (⟨x :: xs, ls, caps⟩ : ASt).le b = true) :
    ∃ t rest, b.stack = t :: rest ∧ x.le t = true ∧ leTags xs rest = true ∧ caps = b.caps ∧
      Vm.leLoops ls b.loops = true := by
  obtain ⟨bs, bl, bc⟩ := b
  simp only [ASt.le, Bool.and_eq_true, beq_iff_eq] at h
  cases bs with
  | nil => simp [leTags] at h
  | cons t rest =>
    simp only [leTags, Bool.and_eq_true] at h
    exact ⟨t, rest, rfl, h.1.1.1, h.1.1.2, h.1.2, h.2⟩

theorem vattrs_walk (dec : Instr → Option VInstr) (hd : DecOK dec) (c : List Entry)
    (code : List VEntry) (hdec : Decoded dec c code) (table : List (Option ASt))
    (hall : ∀ pc, pc < code.length → Vm.verifyAt code table pc = true) :
    ∀ (taken : List (String × List Span)) (p : Nat) (stk0 : List Tag) (ls : List (Option Nat))
      (caps : Nat) (rest : List Entry),
      c.drop p = taken.map attrEntry ++ rest → (∀ a ∈ taken, a.2 ≠ []) →
      Vm.covered table c.length (p, ⟨FT :: stk0, ls, caps⟩) = true →
      Vm.covered table c.length (p + taken.length, ⟨FT :: stk0, ls, caps⟩) = true := by
  intro taken
  induction taken with
  | nil => intro p stk0 ls caps rest _ _ h; simpa using h
  | cons a t ih =>
    intro p stk0 ls caps rest hdrop hsp hcov
    obtain ⟨hget, hdrop'⟩ := get_of_drop c p (attrEntry a) (t.map attrEntry ++ rest) (by simpa using hdrop)
    have hlt : p < c.length := (List.getElem?_eq_some_iff.mp hget).1
    obtain ⟨vi, hvi, hcode⟩ := hdec.get p _ hget
    simp only [attrEntry] at hvi hcode
    rw [hd.loadAttr] at hvi
    cases hvi
    have hown : (!a.2.isEmpty) = true := isEmpty_false _ (hsp a (by simp))
    -- the table entry at p describes the state
    have hcov' := hcov
    simp only [Vm.covered, hlt, ↓reduceIte] at hcov'
    cases htab : table[p]? with
    | none => rw [htab] at hcov'; cases hcov'
    | some entry =>
      cases entry with
      | none => rw [htab] at hcov'; cases hcov'
      | some b =>
        rw [htab] at hcov'
        simp only at hcov'
        obtain ⟨tg, rest', hbs, _, htl, hcaps, hloops⟩ := le_cons_inv _ _ _ _ b hcov'
        have hv := hall p (by rw [hdec.len]; exact hlt)
        simp only [Vm.verifyAt, htab, hcode, astep, hbs, hown, Bool.false_or] at hv
        by_cases hsp' : tg.sp = true
        · simp only [hsp', ↓reduceIte, List.all_cons, List.all_nil, Bool.and_true] at hv
          rw [hdec.len] at hv
          have hle : (⟨FT :: stk0, ls, caps⟩ : ASt).le ⟨Tag.fresh true :: rest', b.loops, b.caps⟩ = true := by
            simp only [ASt.le, leTags, FT, Tag.le_refl, htl, Bool.and_self, hcaps, beq_self_eq_true, hloops]
          have h1 := covered_mono table c.length (p + 1) _ _ hle hv
          have := ih (p + 1) stk0 ls caps rest hdrop' (fun x hx => hsp x (List.mem_cons_of_mem _ hx)) h1
          have e : p + (a :: t).length = p + 1 + t.length := by simp; omega
          rw [e]; exact this
        · simp [hsp'] at hv

/-! ## The theorem -/

theorem vcovered_refl (table : List (Option ASt)) (len pc : Nat) (a : ASt)
    (hlt : pc < len) (ht : table[pc]? = some (some a)) :
    Vm.covered table len (pc, a) = true := by
  simp [Vm.covered, hlt, ht, ASt.le_refl]

/-- Acceptance by the value-level verifier is preserved by the optimisation pass. -/
theorem vverify_optCode (dec : Instr → Option VInstr) (hd : DecOK dec) (c : List Entry)
    (code code' : List VEntry) (hr : TargetsOk c) (hS : PathVm.PathSpans c)
    (hO : OtherNoTarget dec c) (hdec : Decoded dec c code) (hdec' : Decoded dec (optCode c) code')
    (table : List (Option ASt)) (hv : Vm.verify code table = true) :
    Vm.verify code' (vnewTable c table) = true := by
  simp only [Vm.verify, Bool.and_eq_true, List.all_eq_true, List.mem_range] at hv ⊢
  obtain ⟨h0, hall⟩ := hv
  have hlen' : code'.length = (groups c).length := by rw [hdec'.len, optCode_length]
  rw [hlen']
  rw [hdec.len] at h0
  refine ⟨?_, ?_⟩
  · have := vcov_transfer c table 0 0 ASt.empty h0 (PcRel_zero c) rfl
    rwa [vmapSt_empty] at this
  · intro k hk
    have hpc := pcRel_start c k (by omega)
    have hlt := start_lt c k hk
    obtain ⟨g, hg, hdrop, hnextrel⟩ := group_at c (startOf c k) k hpc hlt
    have hopt := optCode_get c k g hg
    have hgm : g ∈ groups c := List.mem_of_getElem? hg
    have hgc : ∀ e ∈ g.orig, e ∈ c := by
      intro e he
      rw [← groups_concat c]
      exact List.mem_flatMap.mpr ⟨g, hgm, he⟩
    obtain ⟨vi', hvi', hcode'⟩ := hdec'.get k _ hopt
    simp only [Vm.verifyAt, vnewTable_get c table k hk, hcode', vnewEntry, hlen']
    cases ht : table[startOf c k]? with
    | none => rfl
    | some entry =>
      cases entry with
      | none => rfl
      | some a =>
        simp only
        by_cases hvalid : validLoops c a.loops = true
        · simp only [hvalid, ↓reduceIte]
          have hcov0 := vcovered_refl table c.length (startOf c k) a hlt ht
          by_cases hkeep : g.orig = [g.out]
          · -- an instruction kept as it is
            rw [hkeep] at hdrop hnextrel
            obtain ⟨hget, _⟩ := get_of_drop c (startOf c k) g.out _ (by simpa using hdrop)
            have hmem : g.out ∈ c := List.mem_of_getElem? hget
            obtain ⟨vi, hvi, hcode⟩ := hdec.get _ _ hget
            have hvat := hall (startOf c k) (by rw [hdec.len]; exact hlt)
            simp only [Vm.verifyAt, ht, hcode] at hvat
            cases hst : astep vi (!g.out.2.isEmpty) g.out.2.length (startOf c k) a with
            | none => rw [hst] at hvat; cases hvat
            | some succs =>
              rw [hst] at hvat
              simp only [List.all_eq_true, hdec.len] at hvat
              obtain ⟨hrm, htg⟩ := dec_remap dec hd c hO (fun t => (indexMap c).getD t 0) g.out hmem vi hvi
              have hvi'' : vi' = vmapTarget (imapFn c) vi := by
                simp only [remapTotal] at hvi'
                have : dec (g.out.1.mapTarget fun t => (indexMap c).getD t 0) = some vi' := hvi'
                rw [hrm] at this
                exact (Option.some.inj this).symm
              have htgt : ∀ t, vtarget vi = some t → isOperand c t = true := by
                intro t ht'
                rw [htg] at ht'
                exact List.any_eq_true.mpr ⟨g.out, hmem, by simp [ht']⟩
              obtain ⟨succs', hs', hc'⟩ := astep_transfer c table hr vi (!g.out.2.isEmpty) g.out.2.length
                (startOf c k) k a succs hst hvat hvalid (by simpa using hnextrel) htgt
              simp only [remapTotal, hvi'']
              rw [hs']
              simp only [List.all_eq_true]
              exact hc'
          · -- a fused group
            have hshape := groups_shape c g hgm
            obtain ⟨st, ls, caps⟩ := a
            cases hshape with
            | keep e => exact absurd rfl hkeep
            | path n s taken _ _ =>
              simp only at hdrop hnextrel hgc hvi' hcode'
              have hs : s ≠ [] := hS (Instr.loadName n, s) (hgc _ (by simp)) (Or.inl ⟨n, rfl⟩)
              have htk : ∀ x ∈ taken, x.2 ≠ [] := by
                intro x hx
                exact hS (attrEntry x) (hgc _ (by
                  simp only [List.mem_cons, List.mem_map]; exact Or.inr ⟨x, hx, rfl⟩)) (Or.inr ⟨x.1, rfl⟩)
              obtain ⟨hget, hdrop1⟩ := get_of_drop c (startOf c k) (Instr.loadName n, s) _ (by simpa using hdrop)
              obtain ⟨vi, hvi, hcode⟩ := hdec.get _ _ hget
              simp only at hvi hcode
              rw [hd.loadName] at hvi
              cases hvi
              have hvat := hall (startOf c k) (by rw [hdec.len]; exact hlt)
              simp only [Vm.verifyAt, ht, hcode, astep, isEmpty_false s hs, List.all_cons, List.all_nil,
                Bool.and_true, hdec.len] at hvat
              have h2 := vattrs_walk dec hd c code hdec table hall taken (startOf c k + 1) st ls caps _ hdrop1
                htk hvat
              have e : startOf c k + ((Instr.loadName n, s) :: taken.map attrEntry).length
                  = startOf c k + 1 + taken.length := by simp; omega
              rw [e] at hnextrel
              have hfin := vcov_transfer c table _ (k + 1) ⟨FT :: st, ls, caps⟩ h2 hnextrel hvalid
              simp only [remapTotal, Instr.mapTarget] at hvi'
              rw [hd.loadPath] at hvi'
              cases hvi'
              have hnsp : (n :: taken.map (·.1)).length ≤ (s ++ taken.flatMap (·.2)).length := by
                have h1 := PathVm.flatMap_spans_length taken htk
                have h3 : 0 < s.length := List.length_pos_iff.mpr hs
                simp only [List.length_cons, List.length_map, List.length_append]; omega
              have hown : (!(s ++ taken.flatMap (·.2)).isEmpty) = true := isEmpty_false _ (by simp [hs])
              simp only [remapTotal, Instr.mapTarget, astep, hown, hnsp, ne_eq, reduceCtorEq,
                not_false_eq_true, and_self, ↓reduceIte, List.all_cons, List.all_nil, Bool.and_true]
              exact hfin
            | write n s w taken _ =>
              simp only at hdrop hnextrel hgc hvi' hcode'
              have hs : s ≠ [] := hS (Instr.loadName n, s) (hgc _ (by simp)) (Or.inl ⟨n, rfl⟩)
              have htk : ∀ x ∈ taken, x.2 ≠ [] := by
                intro x hx
                exact hS (attrEntry x) (hgc _ (by
                  simp only [List.mem_cons, List.mem_append, List.mem_map]
                  exact Or.inr (Or.inl ⟨x, hx, rfl⟩))) (Or.inr ⟨x.1, rfl⟩)
              obtain ⟨hget, hdrop1⟩ := get_of_drop c (startOf c k) (Instr.loadName n, s) _ (by simpa using hdrop)
              obtain ⟨vi, hvi, hcode⟩ := hdec.get _ _ hget
              simp only at hvi hcode
              rw [hd.loadName] at hvi
              cases hvi
              have hvat := hall (startOf c k) (by rw [hdec.len]; exact hlt)
              simp only [Vm.verifyAt, ht, hcode, astep, isEmpty_false s hs, List.all_cons, List.all_nil,
                Bool.and_true, hdec.len] at hvat
              have h2 := vattrs_walk dec hd c code hdec table hall taken (startOf c k + 1) st ls caps _ hdrop1
                htk hvat
              have hdrop2 : c.drop (startOf c k + 1 + taken.length)
                  = (Instr.writeTop, w) :: c.drop (startOf c k + (taken.length + 1 + 1)) := by
                have := congrArg (List.drop taken.length) hdrop1
                rw [List.drop_drop] at this
                rw [this]
                have hl : (taken.map attrEntry).length = taken.length := by simp
                rw [← hl, List.drop_left]
              obtain ⟨hgetw, _⟩ := get_of_drop c _ _ _ hdrop2
              have hltw : startOf c k + 1 + taken.length < c.length := (List.getElem?_eq_some_iff.mp hgetw).1
              obtain ⟨viw, hviw, hcodew⟩ := hdec.get _ _ hgetw
              simp only at hviw hcodew
              rw [hd.writeTop] at hviw
              cases hviw
              -- the table entry at the WriteTop describes the state
              have h2' := h2
              simp only [Vm.covered, hltw, ↓reduceIte] at h2'
              cases htabw : table[startOf c k + 1 + taken.length]? with
              | none => rw [htabw] at h2'; cases h2'
              | some entryw =>
                cases entryw with
                | none => rw [htabw] at h2'; cases h2'
                | some b =>
                  rw [htabw] at h2'
                  simp only at h2'
                  obtain ⟨tg, rest', hbs, _, htl, hcaps, hloops⟩ := le_cons_inv _ _ _ _ b h2'
                  have hvw := hall (startOf c k + 1 + taken.length) (by rw [hdec.len]; exact hltw)
                  simp only [Vm.verifyAt, htabw, hcodew, astep, hbs] at hvw
                  by_cases hsp' : tg.sp = true
                  · simp only [hsp', ↓reduceIte, List.all_cons, List.all_nil, Bool.and_true, hdec.len] at hvw
                    have hle : (⟨st, ls, caps⟩ : ASt).le ⟨rest', b.loops, b.caps⟩ = true := by
                      simp only [ASt.le, htl, hcaps, beq_self_eq_true, hloops, Bool.and_self]
                    have h3 := covered_mono table c.length _ _ _ hle hvw
                    have e : startOf c k
                        + ((Instr.loadName n, s) :: (taken.map attrEntry ++ [(Instr.writeTop, w)])).length
                        = startOf c k + 1 + taken.length + 1 := by simp; omega
                    rw [e] at hnextrel
                    have hfin := vcov_transfer c table _ (k + 1) ⟨st, ls, caps⟩ h3 hnextrel hvalid
                    simp only [remapTotal, Instr.mapTarget] at hvi'
                    rw [hd.writePath] at hvi'
                    cases hvi'
                    have hnsp : (n :: taken.map (·.1)).length ≤ (s ++ taken.flatMap (·.2)).length := by
                      have h1 := PathVm.flatMap_spans_length taken htk
                      have h3 : 0 < s.length := List.length_pos_iff.mpr hs
                      simp only [List.length_cons, List.length_map, List.length_append]; omega
                    simp only [remapTotal, Instr.mapTarget, astep, hnsp, ne_eq, reduceCtorEq,
                      not_false_eq_true, and_self, ↓reduceIte, List.all_cons, List.all_nil, Bool.and_true]
                    exact hfin
                  · simp [hsp'] at hvw
        · simp only [hvalid, Bool.false_eq_true, ↓reduceIte]

/-! ## Decoding with `mapM` -/

/-- decode one entry: the instruction through `dec`, the spans kept -/
def decEntry (dec : Instr → Option VInstr) (e : Entry) : Option VEntry :=
  (dec e.1).map fun i => (i, e.2)

theorem decoded_of_mapM (dec : Instr → Option VInstr) : ∀ (c : List Entry) (code : List VEntry),
    c.mapM (decEntry dec) = some code → Decoded dec c code
  | [], code, h => by
    simp at h; subst h
    exact ⟨rfl, by intro i e he; simp at he⟩
  | e0 :: c, code, h => by
    simp only [List.mapM_cons, Option.bind_eq_bind, Option.pure_def] at h
    cases h0 : decEntry dec e0 with
    | none => simp [h0] at h
    | some ve0 =>
      cases h1 : c.mapM (decEntry dec) with
      | none => simp [h0, h1] at h
      | some code' =>
        simp [h0, h1] at h; subst h
        obtain ⟨hl, hg⟩ := decoded_of_mapM dec c code' h1
        refine ⟨by simp [hl], ?_⟩
        intro i e he
        cases i with
        | zero =>
          simp at he; subst he
          unfold decEntry at h0
          cases hd : dec e0.1 with
          | none => simp [hd] at h0
          | some vi => simp [hd] at h0; subst h0; exact ⟨vi, rfl, by simp⟩
        | succ k =>
          simp only [List.getElem?_cons_succ] at he ⊢
          exact hg k e he

theorem mapM_some_of_forall (dec : Instr → Option VInstr) : ∀ (c : List Entry),
    (∀ e ∈ c, ∃ vi, dec e.1 = some vi) → ∃ code, c.mapM (decEntry dec) = some code
  | [], _ => ⟨[], by simp⟩
  | e0 :: c, h => by
    obtain ⟨vi, hvi⟩ := h e0 (by simp)
    obtain ⟨code, hc⟩ := mapM_some_of_forall dec c (fun e he => h e (List.mem_cons_of_mem _ he))
    refine ⟨(vi, e0.2) :: code, ?_⟩
    simp [List.mapM_cons, decEntry, hvi, hc]

/-- every instruction of the optimised listing decodes -/
theorem optCode_decodes (dec : Instr → Option VInstr) (hd : DecOK dec) (c : List Entry)
    (code : List VEntry) (hO : OtherNoTarget dec c) (hdec : Decoded dec c code) :
    ∃ code', (optCode c).mapM (decEntry dec) = some code' := by
  apply mapM_some_of_forall
  intro e' he'
  simp only [optCode, List.mem_map] at he'
  obtain ⟨_, ⟨g, hg, rfl⟩, rfl⟩ := he'
  have hshape := groups_shape c g hg
  cases hshape with
  | keep e =>
    have hmem : e ∈ c := by
      rw [← groups_concat c]
      exact List.mem_flatMap.mpr ⟨_, hg, by simp⟩
    obtain ⟨i, hi⟩ := List.getElem?_of_mem hmem
    obtain ⟨vi, hvi, _⟩ := hdec.get i e hi
    exact ⟨_, (dec_remap dec hd c hO _ e hmem vi hvi).1⟩
  | path n s taken _ _ => exact ⟨_, hd.loadPath _⟩
  | write n s w taken _ => exact ⟨_, hd.writePath _⟩

end OptimizeVWF
end Tera
