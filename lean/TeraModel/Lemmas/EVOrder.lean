/-
The order on exact values (`C13.EV.cmp`: extended rationals, NaN equal to itself and last) is a
total preorder: reversal and transitivity of `≤` by cross-multiplication with positive
denominators.  Through `C13_partial_cmp_exact` this gives the order laws of the numeric arms of
`Value::cmp` for every mix of integer widths and floats.
-/
import TeraModel.Props.C13
import TeraModel.Lemmas.OrdLaws
set_option linter.unusedVariables false
namespace Tera
open Tera.C13

/-- Denominators are positive. -/
def EVWF : EV → Prop
  | .rat _ d => 0 < d
  | _ => True

theorem Ordering_rev_eq_swap (o : Ordering) : Tera.Ordering.rev o = o.swap := by cases o <;> rfl

theorem evF_wf (x : F64) : EVWF (evF x) := by
  cases x with
  | nan => trivial
  | inf neg => cases neg <;> trivial
  | fin neg m e => simp only [evF, EVWF, F64.den]; exact Nat.two_pow_pos _

theorem ev_wf (v : Value) : EVWF (ev v) := by
  cases v <;> simp only [ev, Value.intVal] <;> first | trivial | exact evF_wf _ | (simp [EVWF])

theorem cross_mul_le {a c e : Int} {b d f : Int} (hb : 0 < b) (hd : 0 < d) (hf : 0 < f)
    (h1 : a * d ≤ c * b) (h2 : c * f ≤ e * d) : a * f ≤ e * b := by
  have s1 : (a * d) * f ≤ (c * b) * f := Int.mul_le_mul_of_nonneg_right h1 (le_of_lt hf)
  have s2 : (c * f) * b ≤ (e * d) * b := Int.mul_le_mul_of_nonneg_right h2 (le_of_lt hb)
  have s3 : (a * f) * d ≤ (e * b) * d := by
    calc (a * f) * d = (a * d) * f := by ring
      _ ≤ (c * b) * f := s1
      _ = (c * f) * b := by ring
      _ ≤ (e * d) * b := s2
      _ = (e * b) * d := by ring
  exact le_of_mul_le_mul_right s3 hd

theorem EV_cmp_laws : OrdLaws EVWF EV.cmp where
  rev a b _ _ := by rw [← EV.cmp_rev, Ordering_rev_eq_swap]
  le_trans a b c da db dc h1 h2 := by
    cases a <;> cases b <;> cases c <;> simp only [EV.cmp, ne_eq, reduceCtorEq, not_true_eq_false,
      not_false_eq_true] at h1 h2 ⊢
    rename_i a1 a2 b1 b2 c1 c2
    simp only [EVWF] at da db dc
    have g1 : a1 * (b2 : Int) ≤ b1 * (a2 : Int) := by
      by_contra hc; exact h1 (cmpInt_gt'.2 (by omega))
    have g2 : b1 * (c2 : Int) ≤ c1 * (b2 : Int) := by
      by_contra hc; exact h2 (cmpInt_gt'.2 (by omega))
    have := cross_mul_le (a := a1) (c := b1) (e := c1) (b := (a2 : Int)) (d := (b2 : Int)) (f := (c2 : Int))
      (by exact_mod_cast da) (by exact_mod_cast db) (by exact_mod_cast dc) g1 g2
    intro h; have := cmpInt_gt'.1 h; omega

end Tera
