/-
Two template lists that represent the same map (`get` agrees on every name: e.g. the same templates
registered in a different order) have the same graph, the same parents and the same specified
lineage.
-/
import TeraModel.Lemmas.Lineage2
namespace Tera.Reg

/-- the two lists are the same map -/
def SameMap (S S' : List Tpl) : Prop := ∀ k, get S k = get S' k

theorem SameMap.symm {S S' : List Tpl} (h : SameMap S S') : SameMap S' S := fun k => (h k).symm

theorem SameMap.has {S S' : List Tpl} (h : SameMap S S') (k : String) : has S k = has S' k := by
  simp [Tera.Reg.has, h k]

theorem SameMap.resolvePrefixes {S S' : List Tpl} (h : SameMap S S') (n : String) (ps : List String) :
    resolvePrefixes S n ps = resolvePrefixes S' n ps := by
  induction ps with
  | nil => rfl
  | cons p ps ih => simp [Tera.Reg.resolvePrefixes, h.has, ih]

theorem SameMap.resolve {S S' : List Tpl} (h : SameMap S S') (ps : List String) (n : String) :
    resolve ps S n = resolve ps S' n := by
  simp [Tera.Reg.resolve, h.has, h.resolvePrefixes]

theorem SameMap.extEdge {S S' : List Tpl} (h : SameMap S S') (ps : List String) (a b : String) :
    ExtEdge ps S a b → ExtEdge ps S' a b := by
  rintro ⟨t, p, hg, hp, hr⟩
  exact ⟨t, p, (h a) ▸ hg, hp, (h.resolve ps p) ▸ hr⟩

theorem SameMap.isRoot {S S' : List Tpl} (h : SameMap S S') (a : String) : IsRoot S a → IsRoot S' a := by
  rintro ⟨t, hg, hp⟩
  exact ⟨t, (h a) ▸ hg, hp⟩

theorem Walk.mono {E E' : String → String → Prop} (hE : ∀ a b, E a b → E' a b) {a x : String}
    {cs : List String} (h : Walk E a cs x) : Walk E' a cs x := by
  induction h with
  | nil a => exact .nil a
  | cons e _ ih => exact .cons (hE _ _ e) ih

/-- `find_parents` gives the same parents in both -/
theorem SameMap.findParents_ok {S S' : List Tpl} (h : SameMap S S') (ps : List String) (t : Tpl)
    (hT : get S t.name = some t) {p : List String} (hf : findParents ps S t = .ok p) :
    findParents ps S' t = .ok p := by
  obtain ⟨cs, x, hw, hroot, hnd, rfl⟩ := findParents_ok_walk hT hf
  exact findParents_ok_of_walk ((h t.name) ▸ hT) (hw.mono (h.extEdge ps)) (h.isRoot x hroot) hnd

theorem SameMap.definesBlock {S S' : List Tpl} (h : SameMap S S') (n b : String) :
    definesBlock S n b = definesBlock S' n b := by
  simp [Tera.Reg.definesBlock, h n]

theorem SameMap.definers {S S' : List Tpl} (h : SameMap S S') (b : String) (chain : List String) :
    definers S b chain = definers S' b chain := by
  induction chain with
  | nil => rfl
  | cons n rest ih => simp [Tera.Reg.definers, h.definesBlock, ih]

theorem SameMap.lineageSpec {S S' : List Tpl} (h : SameMap S S') (chain : List String) (b : String) :
    lineageSpec S chain b = lineageSpec S' chain b := by
  simp [Tera.Reg.lineageSpec, h.definers]

/-- in an accepted set the second loop found no error -/
theorem loop2_bad (ps : List String) (S : List Tpl) (l1 : Loop1) :
    ∀ (o2 : List String) (tb : TplBlocks) (bad : Bool), loop2 ps S l1 o2 = .ok (tb, bad) →
      ∀ T ∈ o2, ∀ tpl parents, get S T = some tpl → lookupParents l1.parents T = some parents →
        (hasRefErrors ps S l1.comps tpl || hasOrphanBlock S parents tpl) = true → bad = true := by
  intro o2
  induction o2 with
  | nil => intro tb bad _ T hT; cases hT
  | cons name rest ih =>
    intro tb bad h T hT tpl parents hg hp hbad
    unfold loop2 at h
    cases hg' : get S name with
    | none => simp [hg'] at h
    | some tpl' =>
      cases hp' : lookupParents l1.parents name with
      | none => simp [hg', hp'] at h
      | some parents' =>
        simp only [hg', hp'] at h
        cases ho : ownBlocks ps S parents' tpl' tpl'.blocks with
        | error e => simp [ho] at h
        | ok m =>
          simp only [ho] at h
          cases hr : loop2 ps S l1 rest with
          | error e => simp [hr] at h
          | ok r =>
            obtain ⟨tb', bad'⟩ := r
            simp only [hr] at h
            cases h
            rcases List.mem_cons.mp hT with h1 | h1
            · subst h1
              rw [hg] at hg'; cases hg'
              rw [hp] at hp'; cases hp'
              simp [hbad]
            · have := ih tb' bad' hr T h1 tpl parents hg hp hbad
              simp [this]

end Tera.Reg

namespace Tera.Reg

/-- the stages of an accepting `derive` -/
theorem derive_parts {ps : List String} {S : List Tpl} {o2 o3 : List String} {d : Derived}
    (h : derive ps S o2 o3 = .ok d) :
    ∃ l1 tb tb', loop1 ps S {} (sortDedup (keys S)) = .ok l1 ∧ loop2 ps S l1 o2 = .ok (tb, false) ∧
      pass2 l1.parents tb o3 = .ok tb' ∧ d.parents = l1.parents ∧ d.lineage = tb' ∧ d.sizes = l1.sizes ∧
      d.comps = l1.comps.map (fun e => (e.1, e.2.1)) := by
  unfold derive at h
  cases h1 : loop1 ps S {} (sortDedup (keys S)) with
  | error e => simp [h1] at h
  | ok l1 =>
    simp only [h1] at h
    cases h2 : loop2 ps S l1 o2 with
    | error e => simp [h2] at h
    | ok r =>
      obtain ⟨tb, bad⟩ := r
      simp only [h2] at h
      cases h3 : pass2 l1.parents tb o3 with
      | error e => simp [h3] at h
      | ok tb' =>
        simp only [h3] at h
        cases hb : bad with
        | true => simp [hb] at h
        | false =>
          simp only [hb] at h
          cases h
          rw [hb] at h2
          exact ⟨l1, tb, tb', rfl, h2, h3, rfl, rfl, rfl, rfl⟩

theorem loop1_lookup {ps : List String} {S : List Tpl} {l1 : Loop1}
    (h1 : loop1 ps S {} (sortDedup (keys S)) = .ok l1) (k : String) :
    lookupParents l1.parents k = if k ∈ sortDedup (keys S) then parentsOf ps S k else none := by
  obtain ⟨lp, _⟩ := loop1_parents ps S (sortDedup (keys S)) {} l1 h1
  rw [lp k]
  simp [lookupParents]

theorem hasOrphanBlock_true {S : List Tpl} {parents : List String} {t : Tpl} (hne : parents ≠ [])
    {blk : BlockDef} (hblk : blk ∈ t.blocks) (htop : blk.nestedIn = none)
    (horph : ∀ p ∈ parents, ∀ pt, get S p = some pt → pt.hasBlock blk.name = false) :
    hasOrphanBlock S parents t = true := by
  unfold hasOrphanBlock
  have h1 : parents.isEmpty = false := by cases parents <;> simp_all
  simp only [h1, Bool.not_false, Bool.true_and]
  apply List.any_eq_true.mpr
  refine ⟨blk, hblk, ?_⟩
  simp only [htop, Option.isNone_none, Bool.true_and, Bool.not_eq_true']
  apply List.any_eq_false.mpr
  intro p hp
  cases hg : get S p with
  | none => simp
  | some pt => simp [horph p hp pt hg]

end Tera.Reg

namespace Tera.Reg

/-- lineage and parents of a registered template do not depend on the list representing the map nor
on the iteration orders -/
theorem lineage_order_independent (ps : List String) (S S' : List Tpl) (hsame : SameMap S S')
    (o2 o3 o2' o3' : List String) (d d' : Derived)
    (h : derive ps S o2 o3 = .ok d) (h' : derive ps S' o2' o3' = .ok d')
    (ho2 : ∀ k, has S k = true → k ∈ o2) (ho3 : ∀ k, has S k = true → k ∈ o3)
    (ho2' : ∀ k, has S' k = true → k ∈ o2') (ho3' : ∀ k, has S' k = true → k ∈ o3')
    (T : String) (hT : has S T = true) (b : String) :
    LB d.lineage T b = LB d'.lineage T b ∧ lookupParents d.parents T = lookupParents d'.parents T := by
  have hT' : has S' T = true := by rw [← hsame.has]; exact hT
  obtain ⟨hPO, hl⟩ := derive_lineage ps S o2 o3 d h ho2 ho3 T hT b
  obtain ⟨hPO', hl'⟩ := derive_lineage ps S' o2' o3' d' h' ho2' ho3' T hT' b
  obtain ⟨t, p, hg, hp, hf⟩ := hPO T hT
  obtain ⟨t', p', hg', hp', hf'⟩ := hPO' T hT'
  have ht : t' = t := by
    rw [← hsame T, hg] at hg'
    cases hg'; rfl
  subst ht
  have hn := get_name hg
  have := hsame.findParents_ok ps t' (hn ▸ hg) hf
  rw [this] at hf'
  cases hf'
  refine ⟨?_, by rw [hp, hp']⟩
  rw [hl, hl']
  simp only [SpecL, hp, hp']
  exact hsame.lineageSpec _ _

end Tera.Reg
