/-
Small helper facts for Props/C01.lean: the three instances of `Hyp` (the machine's parameters
meet what `run_preserves` needs) and the initial-state lemma.
-/
import TeraModel.Lemmas.Escape
import TeraModel.Lemmas.SafeFlow
namespace Tera.C01
open Tera.Escape Tera.SafeFlow

theorem escape_html_clean' (bs : List Nat) : ∀ b ∈ escapeHtml bs, isSpecial b = false :=
  escapeWith_clean goodTable_generated bs

theorem hyp_notRaw (env : Env) : Hyp env onlySafe notRaw anyScalar where
  selTrue := rfl
  lit := fun _ => rfl
  esc := fun _ _ _ => rfl
  scalar := fun _ _ _ _ => rfl

theorem ctxClean_safeInv (ctx : List (String × TVal)) (h : ctxClean ctx = true) :
    SafeInv { parent := ctx } := by
  apply all_freshParent
  intro e he
  simp only [ctxClean, List.all_eq_true, Bool.and_eq_true] at h
  exact all_mono (fun _ h => by cases h) (fun _ _ => rfl) e.2 (h e he).1

theorem hyp_escClean (ov : Option Bool) :
    Hyp { escape := escapeHtml, override := ov } everyString escClean scalarText where
  selTrue := rfl
  lit := fun _ => rfl
  esc := fun xs b hb => by
    simp only [escClean, escape_html_clean' xs b hb]
    rfl
  scalar := fun f hf b hb => by
    have : isScalarByte b = true := by
      simp only [scalarText, List.all_eq_true] at hf
      exact hf b hb
    simp only [escClean, isScalarByte_not_special this]
    rfl

theorem hyp_noScalar (env : Env) :
    Hyp env everyString (fun tb => tb.2 != Tag.scalar) (fun _ => false) where
  selTrue := rfl
  lit := fun _ => rfl
  esc := fun _ _ _ => rfl
  scalar := fun _ h => by cases h


theorem hyp_scalarTagOk (env : Env) : Hyp env everyString scalarTagOk scalarText where
  selTrue := rfl
  lit := fun _ => rfl
  esc := fun _ _ _ => rfl
  scalar := fun f hf b hb => by
    simp only [scalarText, List.all_eq_true] at hf
    simp [scalarTagOk, hf b hb]

theorem escapeHtml_single_scalar {b : Nat} (h : isScalarByte b = true) : escapeHtml [b] = [b] :=
  escapeWith_scalar goodTable_generated [b] (by simp [h])

theorem escapeScalarBytes_eq (l : TStr) (h : ∀ tb ∈ l, scalarTagOk tb = true) :
    escapeScalarBytes l = erase l := by
  induction l with
  | nil => rfl
  | cons tb rest ih =>
    have htb := h tb (by simp)
    have ih' := ih (fun x hx => h x (by simp [hx]))
    unfold escapeScalarBytes erase at ih' ⊢
    simp only [List.flatMap_cons, List.map_cons]
    rw [ih']
    by_cases hs : tb.2 = Tag.scalar
    · have hb : isScalarByte tb.1 = true := by simpa [scalarTagOk, hs] using htb
      simp [hs, escapeHtml_single_scalar hb]
    · have : (tb.2 == Tag.scalar) = false := by simpa using hs
      simp [this]

end Tera.C01
