/-
Helper lemmas for C09: structure of the groups computed by `Optimize.loop`, `index_map`
look-ups, the jump fix-up pass.
-/
import TeraModel.Model.Optimize
namespace Tera
namespace Optimize

/-! ## The inner loop -/

theorem collectAttrs_spec (isT : Nat → Bool) : ∀ (l : List Entry) (j : Nat),
    l = (collectAttrs isT j l).1.map attrEntry ++ (collectAttrs isT j l).2
    ∧ (∀ d, d < (collectAttrs isT j l).1.length → isT (j + d) = false) := by
  intro l
  induction l with
  | nil => intro j; simp [collectAttrs]
  | cons e rest ih =>
    intro j
    obtain ⟨ins, sp⟩ := e
    unfold collectAttrs
    by_cases hT : isT j = true
    · simp [hT]
    · have hT' : isT j = false := by simpa using hT
      cases ins <;> simp [hT', attrEntry]
      case loadAttr a =>
        have := ih (j + 1)
        refine ⟨this.1, ?_⟩
        intro d hd
        cases d with
        | zero => simpa using hT'
        | succ d =>
          have h2 := this.2 d (by omega)
          have : j + (d + 1) = j + 1 + d := by omega
          rw [this]; exact h2

/-! ## A certificate for the outer loop: how the old instructions are cut into groups -/

/-- `Parsed isT i l gs`: the old instructions `l` (the first one at absolute index `i`) are cut
into the groups `gs`, each group being one of: an instruction kept as it is; `LoadName` with at
least one `LoadAttr` → `LoadPath`; `LoadName LoadAttr* WriteTop` → `WritePath`; and no instruction
merged into a group other than its first is a jump target. -/
inductive Parsed (isT : Nat → Bool) : Nat → List Entry → List Group → Prop where
  | nil (i : Nat) : Parsed isT i [] []
  | keep (i : Nat) (e : Entry) (rest : List Entry) (gs : List Group) :
      Parsed isT (i + 1) rest gs → Parsed isT i (e :: rest) (⟨e, [e]⟩ :: gs)
  | path (i : Nat) (n : String) (s : List Span) (taken : List (String × List Span))
      (rest : List Entry) (gs : List Group) :
      n ≠ MAGICAL_DUMP_VAR → taken ≠ [] →
      (∀ d, d < taken.length → isT (i + 1 + d) = false) →
      Parsed isT (i + 1 + taken.length) rest gs →
      Parsed isT i ((.loadName n, s) :: (taken.map attrEntry ++ rest))
        (⟨(.loadPath (n :: taken.map (·.1)), s ++ taken.flatMap (·.2)),
          (.loadName n, s) :: taken.map attrEntry⟩ :: gs)
  | write (i : Nat) (n : String) (s w : List Span) (taken : List (String × List Span))
      (rest : List Entry) (gs : List Group) :
      n ≠ MAGICAL_DUMP_VAR →
      (∀ d, d < taken.length → isT (i + 1 + d) = false) →
      isT (i + 1 + taken.length) = false →
      Parsed isT (i + 1 + taken.length + 1) rest gs →
      Parsed isT i ((.loadName n, s) :: (taken.map attrEntry ++ (.writeTop, w) :: rest))
        (⟨(.writePath (n :: taken.map (·.1)), s ++ taken.flatMap (·.2)),
          (.loadName n, s) :: (taken.map attrEntry ++ [(.writeTop, w)])⟩ :: gs)

theorem hasWrite_spec (isT : Nat → Bool) (j : Nat) (l : List Entry) (h : hasWrite isT j l = true) :
    ∃ w rest, l = (.writeTop, w) :: rest ∧ isT j = false := by
  match l, h with
  | (.writeTop, w) :: rest, h => exact ⟨w, rest, rfl, by simpa [hasWrite] using h⟩
  | [], h => simp [hasWrite] at h
  | (.loadName _, _) :: _, h => simp [hasWrite] at h
  | (.loadAttr _, _) :: _, h => simp [hasWrite] at h
  | (.loadPath _, _) :: _, h => simp [hasWrite] at h
  | (.writePath _, _) :: _, h => simp [hasWrite] at h
  | (.jump _, _) :: _, h => simp [hasWrite] at h
  | (.popJumpIfFalse _, _) :: _, h => simp [hasWrite] at h
  | (.jumpIfFalseOrPop _, _) :: _, h => simp [hasWrite] at h
  | (.jumpIfTrueOrPop _, _) :: _, h => simp [hasWrite] at h
  | (.iterate _, _) :: _, h => simp [hasWrite] at h
  | (.other _ _, _) :: _, h => simp [hasWrite] at h

/-- The outer loop produces such a cut (given enough fuel: the list length). -/
theorem loop_parsed (isT : Nat → Bool) : ∀ (fuel i : Nat) (l : List Entry),
    l.length ≤ fuel → Parsed isT i l (loop isT fuel i l) := by
  intro fuel
  induction fuel with
  | zero =>
    intro i l h
    have : l = [] := by simpa using h
    subst this; simp [loop]; exact Parsed.nil i
  | succ fuel ih =>
    intro i l h
    match l, h with
    | [], _ => simp [loop]; exact Parsed.nil i
    | (ins, sp) :: rest, h =>
      have hrest : rest.length ≤ fuel := by simpa using h
      have hkeep : Parsed isT i ((ins, sp) :: rest) (⟨(ins, sp), [(ins, sp)]⟩ :: loop isT fuel (i + 1) rest) :=
        Parsed.keep i _ rest _ (ih (i + 1) rest hrest)
      cases ins <;> try (simp only [loop]; exact hkeep)
      case loadName n =>
        simp only [loop]
        by_cases hn : n = MAGICAL_DUMP_VAR
        · simp only [hn, ne_eq, not_true_eq_false, ↓reduceIte]; rw [hn] at hkeep; exact hkeep
        · simp only [ne_eq, hn, not_false_eq_true, ↓reduceIte]
          have hspec := collectAttrs_spec isT rest (i + 1)
          generalize hc : collectAttrs isT (i + 1) rest = r at hspec
          obtain ⟨taken, rest'⟩ := r
          simp only at hspec ⊢
          obtain ⟨hsplit, hnt⟩ := hspec
          have hlen : rest.length = taken.length + rest'.length := by
            have := congrArg List.length hsplit; simpa using this
          by_cases hw : hasWrite isT (i + 1 + taken.length) rest' = true
          · simp only [hw, ↓reduceIte]
            obtain ⟨w, rest'', hr, hT⟩ := hasWrite_spec isT _ _ hw
            subst hr
            have h2 : rest''.length ≤ fuel := by simp at hlen; omega
            have := Parsed.write i n sp w taken rest'' _ hn hnt hT (ih (i + 1 + taken.length + 1) rest'' h2)
            simpa [hsplit] using this
          · simp only [hw, Bool.false_eq_true, ↓reduceIte]
            by_cases ht : taken.length > 0
            · simp only [ht, ↓reduceIte]
              have h2 : rest'.length ≤ fuel := by omega
              have hne : taken ≠ [] := by intro h0; simp [h0] at ht
              have := Parsed.path i n sp taken rest' _ hn hne hnt (ih (i + 1 + taken.length) rest' h2)
              simpa [hsplit] using this
            · simp only [ht, ↓reduceIte]
              have h0 : taken = [] := by
                cases taken with
                | nil => rfl
                | cons a t => simp at ht
              subst h0
              simpa using hkeep

/-! ## What a cut implies -/

/-- The three shapes a group can have. -/
inductive GroupShape : Group → Prop where
  | keep (e : Entry) : GroupShape ⟨e, [e]⟩
  | path (n : String) (s : List Span) (taken : List (String × List Span)) :
      n ≠ MAGICAL_DUMP_VAR → taken ≠ [] →
      GroupShape ⟨(.loadPath (n :: taken.map (·.1)), s ++ taken.flatMap (·.2)),
        (.loadName n, s) :: taken.map attrEntry⟩
  | write (n : String) (s w : List Span) (taken : List (String × List Span)) :
      n ≠ MAGICAL_DUMP_VAR →
      GroupShape ⟨(.writePath (n :: taken.map (·.1)), s ++ taken.flatMap (·.2)),
        (.loadName n, s) :: (taken.map attrEntry ++ [(.writeTop, w)])⟩

/-- No instruction of a group other than its first is a jump target; `i` is the absolute index
of the first instruction of the first group. -/
def NoInterior (isT : Nat → Bool) : Nat → List Group → Prop
  | _, [] => True
  | i, g :: gs =>
    (∀ d, 0 < d → d < g.orig.length → isT (i + d) = false) ∧ NoInterior isT (i + g.orig.length) gs

theorem Parsed.concat {isT : Nat → Bool} {i : Nat} {l : List Entry} {gs : List Group}
    (h : Parsed isT i l gs) : gs.flatMap (·.orig) = l := by
  induction h with
  | nil => rfl
  | keep i e rest gs _ ih => simp [ih]
  | path i n s taken rest gs _ _ _ _ ih => simp [ih]
  | write i n s w taken rest gs _ _ _ _ ih => simp [ih]

theorem Parsed.shapes {isT : Nat → Bool} {i : Nat} {l : List Entry} {gs : List Group}
    (h : Parsed isT i l gs) : ∀ g ∈ gs, GroupShape g := by
  induction h with
  | nil => intro g hg; cases hg
  | keep i e rest gs _ ih =>
    intro g hg
    rcases List.mem_cons.mp hg with rfl | hg
    · exact GroupShape.keep e
    · exact ih g hg
  | path i n s taken rest gs hn ht _ _ ih =>
    intro g hg
    rcases List.mem_cons.mp hg with rfl | hg
    · exact GroupShape.path n s taken hn ht
    · exact ih g hg
  | write i n s w taken rest gs hn _ _ _ ih =>
    intro g hg
    rcases List.mem_cons.mp hg with rfl | hg
    · exact GroupShape.write n s w taken hn
    · exact ih g hg

theorem GroupShape.orig_ne_nil {g : Group} (h : GroupShape g) : g.orig ≠ [] := by
  cases h <;> simp

theorem Parsed.noInterior {isT : Nat → Bool} {i : Nat} {l : List Entry} {gs : List Group}
    (h : Parsed isT i l gs) : NoInterior isT i gs := by
  induction h with
  | nil => trivial
  | keep i e rest gs _ ih =>
    refine ⟨?_, by simpa using ih⟩
    intro d h0 h1; simp at h1; omega
  | path i n s taken rest gs _ _ hnt _ ih =>
    refine ⟨?_, ?_⟩
    · intro d h0 h1
      simp at h1
      have := hnt (d - 1) (by omega)
      have e : i + 1 + (d - 1) = i + d := by omega
      rwa [e] at this
    · have e : i + ((Instr.loadName n, s) :: taken.map attrEntry).length = i + 1 + taken.length := by
        simp; omega
      simp only at ih ⊢
      rw [e]; exact ih
  | write i n s w taken rest gs _ hnt hw _ ih =>
    refine ⟨?_, ?_⟩
    · intro d h0 h1
      simp at h1
      by_cases hd : d - 1 < taken.length
      · have := hnt (d - 1) hd
        have e : i + 1 + (d - 1) = i + d := by omega
        rwa [e] at this
      · have e : i + d = i + 1 + taken.length := by omega
        rw [e]; exact hw
    · have e : i + ((Instr.loadName n, s) :: (taken.map attrEntry ++ [(Instr.writeTop, w)])).length
          = i + 1 + taken.length + 1 := by
        simp; omega
      simp only at ih ⊢
      rw [e]; exact ih

/-! ## Un-fusing -/

/-- The instruction sequence a fused instruction stands for. -/
def unfuse : Instr → List Instr
  | .loadPath (n :: attrs) => .loadName n :: attrs.map .loadAttr
  | .writePath (n :: attrs) => .loadName n :: (attrs.map .loadAttr ++ [.writeTop])
  | i => [i]

theorem map_attrEntry_fst (taken : List (String × List Span)) :
    (taken.map attrEntry).map (·.1) = (taken.map (·.1)).map Instr.loadAttr := by
  induction taken with
  | nil => rfl
  | cons a t ih => simp [attrEntry]

theorem GroupShape.unfuse_out {g : Group} (h : GroupShape g)
    (hnf : ∀ e ∈ g.orig, e.1.isFused = false) : unfuse g.out.1 = g.orig.map (·.1) := by
  cases h with
  | keep e =>
    have := hnf e (by simp)
    obtain ⟨ins, sp⟩ := e
    cases ins <;> simp_all [unfuse, Instr.isFused]
  | path n s taken _ _ => simp [unfuse, attrEntry, Function.comp_def]
  | write n s w taken _ => simp [unfuse, attrEntry, Function.comp_def]

theorem unfuse_groups (gs : List Group) (hs : ∀ g ∈ gs, GroupShape g)
    (hnf : ∀ e ∈ gs.flatMap (·.orig), e.1.isFused = false) :
    gs.flatMap (fun g => unfuse g.out.1) = (gs.flatMap (·.orig)).map (·.1) := by
  induction gs with
  | nil => rfl
  | cons g gs ih =>
    simp only [List.flatMap_cons, List.map_append]
    rw [ih (fun g' hg' => hs g' (List.mem_cons_of_mem _ hg'))
      (fun e he => hnf e (by simp only [List.flatMap_cons, List.mem_append]; exact Or.inr he))]
    rw [(hs g (by simp)).unfuse_out
      (fun e he => hnf e (by simp only [List.flatMap_cons, List.mem_append]; exact Or.inl he))]

theorem unfuse_mapTarget (f : Nat → Nat) (i : Instr) :
    unfuse (i.mapTarget f) = (unfuse i).map (Instr.mapTarget f) := by
  cases i with
  | loadPath p =>
    cases p with
    | nil => simp [unfuse, Instr.mapTarget]
    | cons n attrs => simp [unfuse, Instr.mapTarget, Function.comp_def]
  | writePath p =>
    cases p with
    | nil => simp [unfuse, Instr.mapTarget]
    | cons n attrs => simp [unfuse, Instr.mapTarget, Function.comp_def]
  | _ => simp [unfuse, Instr.mapTarget]

/-! ## `index_map` -/

theorem indexMapGo_length (gs : List Group) : ∀ k,
    (indexMapGo k gs).length = (gs.flatMap (·.orig)).length + 1 := by
  induction gs with
  | nil => intro k; simp [indexMapGo]
  | cons g gs ih => intro k; simp [indexMapGo, ih]; omega

/-- The one-past-the-end entry is `optimized.len()`. -/
theorem indexMapGo_last (gs : List Group) : ∀ k,
    (indexMapGo k gs)[(gs.flatMap (·.orig)).length]? = some (k + gs.length) := by
  induction gs with
  | nil => intro k; simp [indexMapGo]
  | cons g gs ih =>
    intro k
    simp only [indexMapGo, List.flatMap_cons, List.length_append, List.length_cons]
    rw [List.getElem?_append_right (by simp)]
    simp only [List.length_replicate, Nat.add_sub_cancel_left]
    rw [ih (k + 1)]; congr 1; omega

/-- An old index that is the first of its group maps to the number of that group, and the groups
before it are exactly the old instructions before it. -/
theorem indexMapGo_boundary (isT : Nat → Bool) (gs : List Group) : ∀ (i k t : Nat),
    NoInterior isT i gs → (∀ g ∈ gs, g.orig ≠ []) →
    t < (gs.flatMap (·.orig)).length → isT (i + t) = true →
    ∃ m, m < gs.length ∧ (indexMapGo k gs)[t]? = some (k + m) ∧
      (gs.take m).flatMap (·.orig) = (gs.flatMap (·.orig)).take t := by
  induction gs with
  | nil => intro i k t _ _ ht; simp at ht
  | cons g gs ih =>
    intro i k t hni hne ht hT
    have hg : g.orig ≠ [] := hne g (by simp)
    have hpos : 0 < g.orig.length := List.length_pos_iff.mpr hg
    by_cases hlt : t < g.orig.length
    · have ht0 : t = 0 := by
        by_cases h0 : t = 0
        · exact h0
        · have := hni.1 t (by omega) hlt
          rw [this] at hT; cases hT
      subst ht0
      refine ⟨0, by simp, ?_, by simp⟩
      simp only [indexMapGo]
      rw [List.getElem?_append_left (by simpa using hpos)]
      simp [hpos]
    · have hge : g.orig.length ≤ t := by omega
      have ht' : t - g.orig.length < (gs.flatMap (·.orig)).length := by
        simp only [List.flatMap_cons, List.length_append] at ht; omega
      have hT' : isT (i + g.orig.length + (t - g.orig.length)) = true := by
        have : i + g.orig.length + (t - g.orig.length) = i + t := by omega
        rw [this]; exact hT
      obtain ⟨m, hm, hlook, htake⟩ := ih (i + g.orig.length) (k + 1) (t - g.orig.length) hni.2
        (fun g' hg' => hne g' (List.mem_cons_of_mem _ hg')) ht' hT'
      refine ⟨m + 1, by simpa using hm, ?_, ?_⟩
      · simp only [indexMapGo]
        rw [List.getElem?_append_right (by simpa using hge)]
        simp only [List.length_replicate]
        rw [hlook]; congr 1; omega
      · simp only [List.take_succ_cons, List.flatMap_cons]
        rw [htake, List.take_append]
        have : List.take t g.orig = g.orig := List.take_of_length_le hge
        rw [this]

/-- Every old index maps to the number of the group that contains it. -/
theorem indexMapGo_contains (gs : List Group) : ∀ (k t : Nat),
    (∀ g ∈ gs, g.orig ≠ []) → t < (gs.flatMap (·.orig)).length →
    ∃ m, m < gs.length ∧ (indexMapGo k gs)[t]? = some (k + m) ∧
      ((gs.take m).flatMap (·.orig)).length ≤ t ∧
      t < ((gs.take (m + 1)).flatMap (·.orig)).length := by
  induction gs with
  | nil => intro k t _ ht; simp at ht
  | cons g gs ih =>
    intro k t hne ht
    by_cases hlt : t < g.orig.length
    · refine ⟨0, by simp, ?_, by simp, by simpa using hlt⟩
      simp only [indexMapGo]
      rw [List.getElem?_append_left (by simpa using hlt)]
      simp [hlt]
    · have hge : g.orig.length ≤ t := by omega
      have ht' : t - g.orig.length < (gs.flatMap (·.orig)).length := by
        simp only [List.flatMap_cons, List.length_append] at ht; omega
      obtain ⟨m, hm, hlook, hlo, hhi⟩ := ih (k + 1) (t - g.orig.length)
        (fun g' hg' => hne g' (List.mem_cons_of_mem _ hg')) ht'
      refine ⟨m + 1, by simpa using hm, ?_, ?_, ?_⟩
      · simp only [indexMapGo]
        rw [List.getElem?_append_right (by simpa using hge)]
        simp only [List.length_replicate]
        rw [hlook]; congr 1; omega
      · simp only [List.take_succ_cons, List.flatMap_cons, List.length_append]; omega
      · simp only [List.take_succ_cons, List.flatMap_cons, List.length_append] at hhi ⊢; omega

/-! ## The fix-up pass -/

/-- The fix-up as a total function (used to state what `remap` returns when it does not panic). -/
def remapTotal (imap : List Nat) (e : Entry) : Entry :=
  (e.1.mapTarget (fun t => imap.getD t 0), e.2)

theorem mapTarget_of_none (f : Nat → Nat) (i : Instr) (h : i.target? = none) :
    i.mapTarget f = i := by
  cases i <;> simp_all [Instr.target?, Instr.mapTarget]

theorem mapTarget_of_some (f : Nat → Nat) (i : Instr) (t : Nat) (h : i.target? = some t) :
    i.mapTarget f = i.mapTarget (fun _ => f t) := by
  cases i <;> simp_all [Instr.target?, Instr.mapTarget]

theorem remapInstr_some (imap : List Nat) (i r : Instr) (h : remapInstr imap i = some r) :
    r = i.mapTarget (fun t => imap.getD t 0) := by
  unfold remapInstr at h
  cases ht : i.target? with
  | none =>
    rw [ht] at h
    simp only [Option.some.injEq] at h
    rw [mapTarget_of_none _ _ ht]; exact h.symm
  | some t =>
    rw [ht] at h
    dsimp only at h
    cases hk : imap[t]? with
    | none => rw [hk] at h; cases h
    | some k =>
      rw [hk] at h
      simp only [Option.some.injEq] at h
      rw [mapTarget_of_some _ _ t ht, ← h]
      simp [List.getD, hk]

theorem remapInstr_isSome (imap : List Nat) (i : Instr)
    (h : ∀ t, i.target? = some t → t < imap.length) : (remapInstr imap i).isSome = true := by
  unfold remapInstr
  cases ht : i.target? with
  | none => simp
  | some t =>
    have := h t ht
    simp [List.getElem?_eq_getElem this]

theorem remap_ok (imap : List Nat) : ∀ (es r : List Entry),
    remap imap es = .ok r → r = es.map (remapTotal imap) := by
  intro es
  induction es with
  | nil => intro r h; simp [remap] at h; simp [h]
  | cons e es ih =>
    intro r h
    unfold remap at h
    cases h1 : remapInstr imap e.1 with
    | none => rw [h1] at h; cases h
    | some i =>
      rw [h1] at h
      cases h2 : remap imap es with
      | panic s => rw [h2] at h; cases h
      | ok r' =>
        rw [h2] at h
        simp only [Outcome.ok.injEq] at h
        have := ih r' h2
        rw [← h, this, remapInstr_some imap e.1 i h1]
        simp [remapTotal]

theorem remap_total (imap : List Nat) : ∀ (es : List Entry),
    (∀ e ∈ es, ∀ t, e.1.target? = some t → t < imap.length) →
    remap imap es = .ok (es.map (remapTotal imap)) := by
  intro es
  induction es with
  | nil => intro _; simp [remap]
  | cons e es ih =>
    intro h
    have h1 := remapInstr_isSome imap e.1 (h e (by simp))
    obtain ⟨i, hi⟩ := Option.isSome_iff_exists.mp h1
    have h2 := ih (fun e' he' => h e' (List.mem_cons_of_mem _ he'))
    unfold remap
    rw [hi, h2]
    simp [remapTotal, remapInstr_some imap e.1 i hi]

theorem remap_panic_iff (imap : List Nat) : ∀ (es : List Entry),
    (∃ s, remap imap es = .panic s) ↔ ∃ e ∈ es, ∃ t, e.1.target? = some t ∧ imap.length ≤ t := by
  intro es
  constructor
  · intro ⟨s, hs⟩
    apply Classical.byContradiction
    intro hcon
    have : ∀ e ∈ es, ∀ t, e.1.target? = some t → t < imap.length := by
      intro e he t ht
      apply Classical.byContradiction
      intro hlt
      exact hcon ⟨e, he, t, ht, by omega⟩
    rw [remap_total imap es this] at hs
    cases hs
  · intro ⟨e, he, t, ht, hlen⟩
    induction es with
    | nil => cases he
    | cons e' es ih =>
      unfold remap
      rcases List.mem_cons.mp he with rfl | he'
      · have : remapInstr imap e.1 = none := by
          unfold remapInstr; rw [ht]
          simp [List.getElem?_eq_none hlen]
        rw [this]; exact ⟨_, rfl⟩
      · cases h1 : remapInstr imap e'.1 with
        | none => exact ⟨_, rfl⟩
        | some i =>
          obtain ⟨s, hs⟩ := ih he'
          rw [hs]; exact ⟨_, rfl⟩

/-! ## Positions -/

/-- Old index `t` lies in group number `m` (counted from `k`), at offset `d`. -/
theorem indexMapGo_elem (gs : List Group) : ∀ (k t : Nat),
    t < (gs.flatMap (·.orig)).length →
    ∃ m g d, (indexMapGo k gs)[t]? = some (k + m) ∧ gs[m]? = some g ∧
      g.orig[d]? = (gs.flatMap (·.orig))[t]? ∧ d < g.orig.length := by
  induction gs with
  | nil => intro k t ht; simp at ht
  | cons g gs ih =>
    intro k t ht
    by_cases hlt : t < g.orig.length
    · refine ⟨0, g, t, ?_, by simp, ?_, hlt⟩
      · simp only [indexMapGo]
        rw [List.getElem?_append_left (by simpa using hlt)]
        simp [hlt]
      · simp only [List.flatMap_cons]
        rw [List.getElem?_append_left hlt]
    · have hge : g.orig.length ≤ t := by omega
      have ht' : t - g.orig.length < (gs.flatMap (·.orig)).length := by
        simp only [List.flatMap_cons, List.length_append] at ht; omega
      obtain ⟨m, g', d, hlook, hg', hd, hdl⟩ := ih (k + 1) (t - g.orig.length) ht'
      refine ⟨m + 1, g', d, ?_, by simpa using hg', ?_, hdl⟩
      · simp only [indexMapGo]
        rw [List.getElem?_append_right (by simpa using hge)]
        simp only [List.length_replicate]
        rw [hlook]; congr 1; omega
      · simp only [List.flatMap_cons]
        rw [List.getElem?_append_right hge]; exact hd

/-- `NoInterior` read at a position: the `d`-th instruction (`d > 0`) of a group is not a target. -/
theorem NoInterior.at {isT : Nat → Bool} : ∀ (pre : List Group) (g : Group) (post : List Group) (i d : Nat),
    NoInterior isT i (pre ++ g :: post) → 0 < d → d < g.orig.length →
    isT (i + (pre.flatMap (·.orig)).length + d) = false := by
  intro pre
  induction pre with
  | nil => intro g post i d h h0 h1; simpa using h.1 d h0 h1
  | cons p pre ih =>
    intro g post i d h h0 h1
    have := ih g post (i + p.orig.length) d h.2 h0 h1
    simp only [List.flatMap_cons, List.length_append]
    have e : i + (p.orig.length + (pre.flatMap (·.orig)).length) + d
        = i + p.orig.length + (pre.flatMap (·.orig)).length + d := by omega
    rw [e]; exact this

/-- A group whose pushed instruction carries a jump operand is an instruction kept as it is. -/
theorem GroupShape.target_keep {g : Group} (h : GroupShape g) :
    (∃ e ∈ g.orig, ∃ t, e.1.target? = some t) ∨ (∃ t, g.out.1.target? = some t) → g.orig = [g.out] := by
  cases h with
  | keep e => intro _; rfl
  | path n s taken _ _ =>
    intro h
    rcases h with ⟨e, he, t, ht⟩ | ⟨t, ht⟩
    · simp only [List.mem_cons, List.mem_map] at he
      rcases he with rfl | ⟨a, _, rfl⟩ <;> simp [Instr.target?, attrEntry] at ht
    · simp [Instr.target?] at ht
  | write n s w taken _ =>
    intro h
    rcases h with ⟨e, he, t, ht⟩ | ⟨t, ht⟩
    · simp only [List.mem_cons, List.mem_append, List.mem_map, List.not_mem_nil, or_false] at he
      rcases he with rfl | ⟨a, _, rfl⟩ | rfl <;> simp [Instr.target?, attrEntry] at ht
    · simp [Instr.target?] at ht

/-! ## Spans -/

theorem flatMap_spans_getElem? (l : List Entry) (h : ∀ e ∈ l, e.2.length = 1) : ∀ (k : Nat),
    (l.flatMap (·.2))[k]? = (l[k]?).bind (fun (e : Entry) => e.2.head?) := by
  induction l with
  | nil => intro k; simp
  | cons e t ih =>
    intro k
    have he := h e (by simp)
    obtain ⟨ins, sp⟩ := e
    match sp, he with
    | [x], _ =>
      cases k with
      | zero => simp
      | succ k =>
        have := ih (fun e' he' => h e' (List.mem_cons_of_mem _ he')) k
        simpa using this

theorem flatMap_attrEntry_spans (taken : List (String × List Span)) :
    (taken.map attrEntry).flatMap (·.2) = taken.flatMap (·.2) := by
  induction taken with
  | nil => rfl
  | cons a t ih => simp [attrEntry, ih]

end Optimize
end Tera
