/-
Bridge between the DOCUMENTED parenthesisation (`S.DocWP`, levels of the documented table) and
the parser-level side conditions of the Pratt induction (`WP`, `fitsLeft`, `follow`, binding
powers), for every binding-power table with `TableOK`.
-/
import TeraModel.Lemmas.ParsePrint
namespace Tera.Parser
open Tera Tera.Spec
set_option linter.unusedSimpArgs false

variable {L : DocLevels} {C : Cfg}

theorem stopsTok_opTok (m : Nat) (b : BinaryOperator) :
    stopsTok C m (some (opTok b)) ↔ (C.bp.binary b).1 < m := by
  simp [stopsTok, classify_opTok]

theorem stopsTok_not (m : Nat) :
    stopsTok C m (some (.ident "not")) ↔ (C.bp.binary .In).1 < m := by
  simp [stopsTok, classify_not]

theorem stopsTok_if (m : Nat) : stopsTok C m (some (.ident "if")) ↔ C.bp.ternary < m := by
  simp [stopsTok, classify_if]

theorem lvl_primary (s : S) (h : s.primary = true) : s.lvl L = L.post := by
  cases s <;> simp_all [S.primary, S.lvl]

/-- left spine: every operator on it has level at least `k`, so a loop whose minimum power
admits all those levels accepts them -/
theorem fits_gen (hT : TableOK L C.bp) (k m : Nat) (hk : 0 < k)
    (hm : ∀ o, k ≤ L.bin o → ¬ (C.bp.binary o).1 < m) (s : S) :
    s.DocWP L → k ≤ s.lvl L → fitsLeft C s m := by
  induction s with
  | binary op l r ihl ihr =>
    intro hwp hl
    obtain ⟨_, _, hwl, _, hlv, _⟩ := hwp
    simp only [S.lvl] at hl
    refine ⟨hm op hl, ihl hwl ?_⟩
    split at hlv <;> omega
  | notIn l r ihl ihr =>
    intro hwp hl
    obtain ⟨hwl, _, hlv, _⟩ := hwp
    simp only [S.lvl] at hl
    have := hT.notInRow
    exact ⟨hm .In (by omega), ihl hwl (by omega)⟩
  | ternary c t f ihc iht ihf =>
    intro _ hl
    simp only [S.lvl] at hl
    omega
  | filter e n ih =>
    intro hwp hl
    obtain ⟨hwe, hlv⟩ := hwp
    simp only [S.lvl] at hl
    exact ⟨hm .Pipe hl, ih hwe (by omega)⟩
  | test e n g ih =>
    intro hwp hl
    obtain ⟨hwe, hlv, _⟩ := hwp
    have := hT.isNotRow
    have hl' : k ≤ L.bin .Is := by
      cases g <;> simp [S.lvl] at hl <;> omega
    exact ⟨hm .Is hl', ih hwe (by omega)⟩
  | index e i ihe ihi =>
    intro hwp hl
    obtain ⟨hwe, _, hp⟩ := hwp
    simp only [S.lvl] at hl
    exact ihe hwe (by rw [lvl_primary e hp]; exact hl)
  | slice e a b c ihe _ _ _ =>
    intro hwp hl
    obtain ⟨hwe, hp, _⟩ := hwp
    simp only [S.lvl] at hl
    exact ihe hwe (by rw [lvl_primary e hp]; exact hl)
  | filterA e n args ihe iha =>
    intro hwp hl
    obtain ⟨hwe, hlv, _⟩ := hwp
    simp only [S.lvl] at hl
    exact ⟨hm .Pipe hl, ihe hwe (by omega)⟩
  | testA e n g args ihe iha =>
    intro hwp hl
    obtain ⟨hwe, hlv, _, _⟩ := hwp
    have := hT.isNotRow
    have hl' : k ≤ L.bin .Is := by
      cases g <;> simp [S.lvl] at hl <;> omega
    exact ⟨hm .Is hl', ihe hwe (by omega)⟩
  | _ => intros; trivial

/-- right spine: the token `t` is not captured by any construct of level at least `k` -/
theorem follow_gen (hT : TableOK L C.bp) (k : Nat) (hk : 0 < k) (t : Tok)
    (hb : ∀ o, o ≠ .Is → o ≠ .Pipe → k ≤ L.bin o → stopsTok C (C.bp.binary o).2 (some t))
    (hu : ∀ u, k ≤ L.unary u → stopsTok C (C.bp.unary u) (some t))
    (hc : ¬ chainTok (some t)) (hp : t ≠ .leftParen) (s : S) :
    s.DocWP L → k ≤ s.lvl L → follow C s (some t) := by
  induction s with
  | var n => intro _ _; exact hc
  | binary op l r ihl ihr =>
    intro hwp hl
    obtain ⟨hIs, hPipe, _, hwr, hlv, _⟩ := hwp
    simp only [S.lvl] at hl
    refine ⟨hb op hIs hPipe hl, ihr hwr ?_⟩
    split at hlv <;> omega
  | notIn l r ihl ihr =>
    intro hwp hl
    obtain ⟨_, hwr, _, hlv⟩ := hwp
    simp only [S.lvl] at hl
    have := hT.notInRow
    exact ⟨hb .In (by decide) (by decide) (by omega), ihr hwr (by omega)⟩
  | unary u e ih =>
    intro hwp hl
    obtain ⟨hwe, hlv, _, _⟩ := hwp
    simp only [S.lvl] at hl
    exact ⟨hu u hl, ih hwe (by omega)⟩
  | ternary c t' f ihc iht ihf =>
    intro _ hl
    simp only [S.lvl] at hl
    omega
  | filter e n ih => intro _ _; simpa [follow] using hp
  | test e n g ih => intro _ _; simpa [follow] using hp
  | attr e n o ih => intro _ _; exact hc
  | sub e i o ihe ihi => intro _ _; exact hc
  | subSlice e a b c o _ _ _ _ => intro _ _; exact hc
  | _ => intros; trivial

theorem follow_none (s : S) : follow C s none := by
  induction s with
  | var n => simp [follow, chainTok]
  | binary op l r ihl ihr => exact ⟨trivial, ihr⟩
  | notIn l r ihl ihr => exact ⟨trivial, ihr⟩
  | unary u e ih => exact ⟨trivial, ih⟩
  | ternary c t' f ihc iht ihf => exact ⟨trivial, ihf⟩
  | filter e n ih => simp [follow]
  | test e n g ih => simp [follow]
  | attr e n o ih => simp [follow, chainTok]
  | sub e i o ihe ihi => simp [follow, chainTok]
  | subSlice e a b c o _ _ _ _ => simp [follow, chainTok]
  | _ => trivial

theorem not_chainTok_opTok (b : BinaryOperator) : ¬ chainTok (some (opTok b)) := by
  cases b <;> simp [chainTok, opTok]

theorem opTok_ne_leftParen (b : BinaryOperator) : opTok b ≠ .leftParen := by
  cases b <;> simp [opTok]

/-- an operator of level `L.bin b` may follow (as in `s b …`) anything of level at least
`L.bin b` (one more when `b` is right-associative) -/
theorem follow_op (hT : TableOK L C.bp) (b : BinaryOperator) (s : S) (hwp : s.DocWP L)
    (hl : (if rightAssoc b then L.bin b + 1 else L.bin b) ≤ s.lvl L) :
    follow C s (some (opTok b)) := by
  refine follow_gen hT _ ?_ (opTok b) ?_ ?_ (not_chainTok_opTok b) (opTok_ne_leftParen b) s hwp hl
  · have := hT.binPos b; split <;> omega
  · intro o hIs hPipe ho
    rw [stopsTok_opTok]
    have hin := hT.inside o b hIs hPipe
    have hrow := hT.rowAssoc o b
    apply Nat.lt_of_not_le
    intro hcon
    have : docInside L o b = true := hin.mp hcon
    simp only [docInside, Bool.or_eq_true, decide_eq_true_eq, Bool.and_eq_true] at this
    rcases this with h1 | ⟨h1, h2⟩
    · split at ho <;> omega
    · have := hrow h1
      split at ho
      · omega
      · simp_all
  · intro u hu'
    rw [stopsTok_opTok]
    have := hT.unaryInside u b
    apply Nat.lt_of_not_le
    intro hcon
    have : L.unary u < L.bin b := this.mp hcon
    split at hu' <;> omega

theorem follow_not_in (hT : TableOK L C.bp) (s : S) (hwp : s.DocWP L) (hl : L.notIn ≤ s.lvl L) :
    follow C s (some (.ident "not")) := by
  have hrow := hT.notInRow
  have h0 : rightAssoc .In = false := by decide
  have hop := follow_op hT .In s hwp (by simp [h0]; omega)
  -- `not` (of `not in`) is stopped exactly like `in`
  have key : ∀ m, stopsTok C m (some (opTok .In)) → stopsTok C m (some (.ident "not")) := by
    intro m h; rw [stopsTok_not]; exact (stopsTok_opTok m .In).mp h
  clear hwp hl
  induction s with
  | var n => simp [follow, chainTok]
  | binary op l r ihl ihr => exact ⟨key _ hop.1, ihr hop.2⟩
  | notIn l r ihl ihr => exact ⟨key _ hop.1, ihr hop.2⟩
  | unary u e ih => exact ⟨key _ hop.1, ih hop.2⟩
  | ternary c t' f ihc iht ihf => exact ⟨key _ hop.1, ihf hop.2⟩
  | filter e n ih => simp [follow]
  | test e n g ih => simp [follow]
  | attr e n o ih => simp [follow, chainTok]
  | sub e i o ihe ihi => simp [follow, chainTok]
  | subSlice e a b c o _ _ _ _ => simp [follow, chainTok]
  | _ => trivial

theorem follow_if (hT : TableOK L C.bp) (s : S) (hwp : s.DocWP L) (hl : 1 ≤ s.lvl L) :
    follow C s (some (.ident "if")) := by
  refine follow_gen hT 1 (by omega) _ ?_ ?_ (by simp [chainTok]) (by simp) s hwp hl
  · intro o h1 h2 _; rw [stopsTok_if]; exact hT.ternaryLowestR o h1 h2
  · intro u _; rw [stopsTok_if]; exact hT.ternaryBelowUnary u

/-- the operand of `b`'s right side: levels admitted there are accepted at `b`'s right power -/
theorem fits_right (hT : TableOK L C.bp) (b : BinaryOperator) (hIs : b ≠ .Is) (hPipe : b ≠ .Pipe)
    (s : S) (hwp : s.DocWP L)
    (hl : (if rightAssoc b then L.bin b else L.bin b + 1) ≤ s.lvl L) :
    fitsLeft C s (C.bp.binary b).2 := by
  refine fits_gen hT _ _ ?_ ?_ s hwp hl
  · have := hT.binPos b; split <;> omega
  · intro o ho
    have hin := hT.inside b o hIs hPipe
    have : docInside L b o = true := by
      simp only [docInside, Bool.or_eq_true, decide_eq_true_eq, Bool.and_eq_true]
      split at ho
      · rename_i hr
        by_cases h : L.bin b < L.bin o
        · exact Or.inl h
        · exact Or.inr ⟨by omega, hr⟩
      · exact Or.inl (by omega)
    have := hin.mpr this
    omega

theorem fits_unary (hT : TableOK L C.bp) (u : UnaryOperator) (s : S) (hwp : s.DocWP L)
    (hl : L.unary u + 1 ≤ s.lvl L) : fitsLeft C s (C.bp.unary u) := by
  refine fits_gen hT _ _ (by omega) ?_ s hwp hl
  intro o ho
  have := (hT.unaryInside u o).mpr (by omega)
  omega

/-- The documented parenthesisation is good enough for the parser, for every table with
`TableOK`. -/
theorem wp_of_doc_both (hT : TableOK L C.bp) (s : S) :
    (s.DocWP L → WP C s) ∧ (s.DocWPArgs L → WPArgs C s) ∧ (s.DocWPItems L → WPItems C s)
      ∧ (s.DocWPEntries L → WPEntries C s) := by
  induction s with
  | int v => exact ⟨fun _ => trivial, fun h => by simp [S.DocWPArgs] at h, fun h => by simp [S.DocWPItems] at h, fun h => by simp [S.DocWPEntries] at h⟩
  | float v => exact ⟨fun _ => trivial, fun h => by simp [S.DocWPArgs] at h, fun h => by simp [S.DocWPItems] at h, fun h => by simp [S.DocWPEntries] at h⟩
  | str v => exact ⟨fun _ => trivial, fun h => by simp [S.DocWPArgs] at h, fun h => by simp [S.DocWPItems] at h, fun h => by simp [S.DocWPEntries] at h⟩
  | bool v => exact ⟨fun _ => trivial, fun h => by simp [S.DocWPArgs] at h, fun h => by simp [S.DocWPItems] at h, fun h => by simp [S.DocWPEntries] at h⟩
  | noneLit kw => exact ⟨id, fun h => by simp [S.DocWPArgs] at h, fun h => by simp [S.DocWPItems] at h, fun h => by simp [S.DocWPEntries] at h⟩
  | var n => exact ⟨id, fun h => by simp [S.DocWPArgs] at h, fun h => by simp [S.DocWPItems] at h, fun h => by simp [S.DocWPEntries] at h⟩
  | paren e ih =>
    refine ⟨?_, fun h => by simp [S.DocWPArgs] at h, fun h => by simp [S.DocWPItems] at h, fun h => by simp [S.DocWPEntries] at h⟩
    have ih := ih.1
    intro h
    exact ⟨ih h, follow_closer _ classify_rightParen (by simp [chainTok]) (by simp) e⟩
  | unary u e ih =>
    refine ⟨?_, fun h => by simp [S.DocWPArgs] at h, fun h => by simp [S.DocWPItems] at h, fun h => by simp [S.DocWPEntries] at h⟩
    have ih := ih.1
    intro h
    obtain ⟨hwe, hlv, h1, h2⟩ := h
    exact ⟨ih hwe, fits_unary hT u e hwe hlv, h1, h2⟩
  | binary op l r ihl ihr =>
    refine ⟨?_, fun h => by simp [S.DocWPArgs] at h, fun h => by simp [S.DocWPItems] at h, fun h => by simp [S.DocWPEntries] at h⟩
    have ihl := ihl.1
    have ihr := ihr.1
    intro h
    obtain ⟨hIs, hPipe, hwl, hwr, hlv, hcc⟩ := h
    refine ⟨hIs, hPipe, ihl hwl, ihr hwr, follow_op hT op l hwl ?_, fits_right hT op hIs hPipe r hwr ?_,
      hcc⟩
    · split at hlv <;> simp_all
    · split at hlv <;> simp_all
  | notIn l r ihl ihr =>
    refine ⟨?_, fun h => by simp [S.DocWPArgs] at h, fun h => by simp [S.DocWPItems] at h, fun h => by simp [S.DocWPEntries] at h⟩
    have ihl := ihl.1
    have ihr := ihr.1
    intro h
    obtain ⟨hwl, hwr, hl, hr⟩ := h
    have hrow := hT.notInRow
    have h0 : rightAssoc .In = false := by decide
    exact ⟨ihl hwl, ihr hwr, follow_not_in hT l hwl hl,
      fits_right hT .In (by decide) (by decide) r hwr (by simp [h0]; omega)⟩
  | ternary c t f ihc iht ihf =>
    refine ⟨?_, fun h => by simp [S.DocWPArgs] at h, fun h => by simp [S.DocWPItems] at h, fun h => by simp [S.DocWPEntries] at h⟩
    have ihc := ihc.1
    have iht := iht.1
    have ihf := ihf.1
    intro h
    obtain ⟨hwc, hwt, hwf, hl⟩ := h
    exact ⟨ihc hwc, iht hwt, ihf hwf, follow_if hT t hwt hl,
      follow_closer _ classify_else (by simp [chainTok]) (by simp) c⟩
  | filter e n ih =>
    refine ⟨?_, fun h => by simp [S.DocWPArgs] at h, fun h => by simp [S.DocWPItems] at h, fun h => by simp [S.DocWPEntries] at h⟩
    have ih := ih.1
    intro h
    obtain ⟨hwe, hl⟩ := h
    have h0 : rightAssoc .Pipe = false := by decide
    exact ⟨ih hwe, follow_op hT .Pipe e hwe (by simp [h0]; omega)⟩
  | test e n g ih =>
    refine ⟨?_, fun h => by simp [S.DocWPArgs] at h, fun h => by simp [S.DocWPItems] at h, fun h => by simp [S.DocWPEntries] at h⟩
    have ih := ih.1
    intro h
    obtain ⟨hwe, hl, hn⟩ := h
    have h0 : rightAssoc .Is = false := by decide
    exact ⟨ih hwe, follow_op hT .Is e hwe (by simp [h0]; omega), hn⟩
  | index e i ihe ihi =>
    refine ⟨?_, fun h => by simp [S.DocWPArgs] at h, fun h => by simp [S.DocWPItems] at h, fun h => by simp [S.DocWPEntries] at h⟩
    have ihe := ihe.1
    have ihi := ihi.1
    intro h
    obtain ⟨hwe, hwi, hp⟩ := h
    refine ⟨ihe hwe, ihi hwi, ?_, follow_closer _ classify_rightBracket (by simp [chainTok]) (by simp) i⟩
    cases e <;> simp_all [S.primary, follow]
  | attr e n o ih =>
    refine ⟨?_, fun h => by simp [S.DocWPArgs] at h, fun h => by simp [S.DocWPItems] at h, fun h => by simp [S.DocWPEntries] at h⟩
    have ih := ih.1
    intro h
    exact ⟨h.1, ih h.2.1, h.2.2⟩
  | sub e i o ihe ihi =>
    refine ⟨?_, fun h => by simp [S.DocWPArgs] at h, fun h => by simp [S.DocWPItems] at h, fun h => by simp [S.DocWPEntries] at h⟩
    have ihe := ihe.1
    have ihi := ihi.1
    intro h
    exact ⟨h.1, ihe h.2.1, ihi h.2.2,
      follow_closer _ classify_rightBracket (by simp [chainTok]) (by simp) i⟩
  | argNil => exact ⟨fun h => by simp [S.DocWP] at h, fun _ => trivial,
      fun h => by simp [S.DocWPItems] at h, fun h => by simp [S.DocWPEntries] at h⟩
  | argCons k v r ihv ihr =>
    refine ⟨fun h => by simp [S.DocWP] at h, ?_, fun h => by simp [S.DocWPItems] at h, fun h => by simp [S.DocWPEntries] at h⟩
    intro h
    exact ⟨ihv.1 h.1, h.2.1, ihr.2.1 h.2.2⟩
  | itemNil => exact ⟨fun h => by simp [S.DocWP] at h, fun h => by simp [S.DocWPArgs] at h,
      fun _ => trivial, fun h => by simp [S.DocWPEntries] at h⟩
  | itemCons sp x r ihx ihr =>
    refine ⟨fun h => by simp [S.DocWP] at h, fun h => by simp [S.DocWPArgs] at h, ?_,
      fun h => by simp [S.DocWPEntries] at h⟩
    intro h
    exact ⟨ihx.1 h.1, ihr.2.2.1 h.2⟩
  | entryNil => exact ⟨fun h => by simp [S.DocWP] at h, fun h => by simp [S.DocWPArgs] at h,
      fun h => by simp [S.DocWPItems] at h, fun _ => trivial⟩
  | entryKV k v r ihv ihr =>
    refine ⟨fun h => by simp [S.DocWP] at h, fun h => by simp [S.DocWPArgs] at h,
      fun h => by simp [S.DocWPItems] at h, ?_⟩
    intro h
    exact ⟨ihv.1 h.1, ihr.2.2.2 h.2⟩
  | entrySpread x r ihx ihr =>
    refine ⟨fun h => by simp [S.DocWP] at h, fun h => by simp [S.DocWPArgs] at h,
      fun h => by simp [S.DocWPItems] at h, ?_⟩
    intro h
    exact ⟨ihx.1 h.1, ihr.2.2.2 h.2⟩
  | mapLit es ih =>
    refine ⟨?_, fun h => by simp [S.DocWPArgs] at h, fun h => by simp [S.DocWPItems] at h,
      fun h => by simp [S.DocWPEntries] at h⟩
    intro h
    exact ⟨ih.2.2.2 h.1, h.2⟩
  | slice e a b c ihe iha ihb ihc =>
    refine ⟨?_, fun h => by simp [S.DocWPArgs] at h, fun h => by simp [S.DocWPItems] at h,
      fun h => by simp [S.DocWPEntries] at h⟩
    intro h
    obtain ⟨hwe, hp, ha, hb, hc⟩ := h
    refine ⟨ihe.1 hwe, ?_, ?_, ?_, ?_⟩
    · cases e <;> simp_all [S.primary, follow]
    · cases hx : a.isAbsent <;> simp_all
    · cases hx : b.isAbsent <;> simp_all
    · cases hx : c.isAbsent <;> simp_all
  | subSlice e a b c o ihe iha ihb ihc =>
    refine ⟨?_, fun h => by simp [S.DocWPArgs] at h, fun h => by simp [S.DocWPItems] at h,
      fun h => by simp [S.DocWPEntries] at h⟩
    intro h
    obtain ⟨hce, hwe, ha, hb, hc⟩ := h
    refine ⟨hce, ihe.1 hwe, ?_, ?_, ?_⟩
    · cases hx : a.isAbsent <;> simp_all
    · cases hx : b.isAbsent <;> simp_all
    · cases hx : c.isAbsent <;> simp_all
  | absent => exact ⟨fun h => by simp [S.DocWP] at h, fun h => by simp [S.DocWPArgs] at h,
      fun h => by simp [S.DocWPItems] at h, fun h => by simp [S.DocWPEntries] at h⟩
  | argEnd => exact ⟨fun h => by simp [S.DocWP] at h, fun _ => trivial,
      fun h => by simp [S.DocWPItems] at h, fun h => by simp [S.DocWPEntries] at h⟩
  | itemEnd => exact ⟨fun h => by simp [S.DocWP] at h, fun h => by simp [S.DocWPArgs] at h,
      fun _ => trivial, fun h => by simp [S.DocWPEntries] at h⟩
  | entryEnd => exact ⟨fun h => by simp [S.DocWP] at h, fun h => by simp [S.DocWPArgs] at h,
      fun h => by simp [S.DocWPItems] at h, fun _ => trivial⟩
  | comp e key value target cond ihe iht ihc =>
    refine ⟨?_, fun h => by simp [S.DocWPArgs] at h, fun h => by simp [S.DocWPItems] at h,
      fun h => by simp [S.DocWPEntries] at h⟩
    intro h
    obtain ⟨hwe, hval, hkey, hwt, hlt, hcond⟩ := h
    have hm : ∀ o, 1 ≤ L.bin o → ¬ (C.bp.binary o).1 < C.bp.ternary + 1 := by
      intro o _
      have := hT.ternaryLowest o
      omega
    refine ⟨ihe.1 hwe, hval, hkey, iht.1 hwt, fits_gen hT 1 _ (by omega) hm target hwt hlt, ?_, ?_⟩
    · cases cond.isAbsent
      · exact follow_if hT target hwt hlt
      · exact follow_closer _ classify_rightBracket (by simp [chainTok]) (by simp) target
    · cases hca : cond.isAbsent
      · simp only [hca, Bool.false_eq_true, if_false] at hcond ⊢
        exact ⟨ihc.1 hcond.1, fits_gen hT 1 _ (by omega) hm cond hcond.1 hcond.2⟩
      · simp
  | arr items ih =>
    refine ⟨?_, fun h => by simp [S.DocWPArgs] at h, fun h => by simp [S.DocWPItems] at h, fun h => by simp [S.DocWPEntries] at h⟩
    intro h
    exact ⟨ih.2.2.1 h.1, h.2⟩
  | call n args ih =>
    refine ⟨?_, fun h => by simp [S.DocWPArgs] at h, fun h => by simp [S.DocWPItems] at h, fun h => by simp [S.DocWPEntries] at h⟩
    intro h
    exact ⟨h.1, ih.2.1 h.2.1, h.2.2⟩
  | filterA e n args ihe iha =>
    refine ⟨?_, fun h => by simp [S.DocWPArgs] at h, fun h => by simp [S.DocWPItems] at h, fun h => by simp [S.DocWPEntries] at h⟩
    intro h
    obtain ⟨hwe, hl, hwa, hend⟩ := h
    have h0 : rightAssoc .Pipe = false := by decide
    exact ⟨ihe.1 hwe, follow_op hT .Pipe e hwe (by simp [h0]; omega), iha.2.1 hwa, hend⟩
  | testA e n g args ihe iha =>
    refine ⟨?_, fun h => by simp [S.DocWPArgs] at h, fun h => by simp [S.DocWPItems] at h, fun h => by simp [S.DocWPEntries] at h⟩
    intro h
    obtain ⟨hwe, hl, hn, hwa, hend⟩ := h
    have h0 : rightAssoc .Is = false := by decide
    exact ⟨ihe.1 hwe, follow_op hT .Is e hwe (by simp [h0]; omega), hn, iha.2.1 hwa, hend⟩

theorem wp_of_doc (hT : TableOK L C.bp) (s : S) : s.DocWP L → WP C s :=
  (wp_of_doc_both hT s).1


end Tera.Parser
