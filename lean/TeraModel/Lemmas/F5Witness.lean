/-
The two accepted sets whose render recurses without bound (known findings F5a, F5b), on the model.
-/
import TeraModel.Lemmas.RenderTerm
namespace Tera.Reg

/-- environment of a render: what `finalize_templates` derived for an accepted set -/
def envOf (ps : List String) (S : List Tpl) (d : Derived) : REnv :=
  { ps := ps, S := S, lineage := d.lineage, comps := d.comps }

/-! ### F5a: P: a{ b{} } ; C extends P: b{ a{ super() } } -/

def f5aP : Tpl :=
  { name := "P", parent := none, srcLen := 74, badRefs := false, topIncludes := [], comps := [], compCalls := [],
    blocks := [⟨"a", false, none, []⟩, ⟨"b", false, some "a", []⟩] }
def f5aC : Tpl :=
  { name := "C", parent := some "P", srcLen := 104, badRefs := false, topIncludes := [], comps := [], compCalls := [],
    blocks := [⟨"b", false, none, []⟩, ⟨"a", true, some "b", []⟩] }
def f5aSet : List Tpl := [f5aP, f5aC]

def f5aDerived : Derived :=
  { parents := [("C", ["P"]), ("P", [])], sizes := [("C", 178), ("P", 74)],
    lineage := [("C", [("b", ["C"]), ("a", ["C", "P"])]), ("P", [("a", ["P"]), ("b", ["P"])])],
    comps := [] }

/-- the set is accepted -/
theorem f5a_accepted : derive [] f5aSet ["C", "P"] ["C", "P"] = .ok f5aDerived := by rfl

def f5aEnv : REnv := envOf [] f5aSet f5aDerived

theorem f5a_lin_a : lineageOf f5aEnv "C" "a" = some ["C", "P"] := by decide
theorem f5a_lin_b : lineageOf f5aEnv "C" "b" = some ["C"] := by decide

theorem f5a_Ca : ∃ s1 s2, blockBody f5aEnv "C" "a" = some [.text s1, .sup, .text s2] := ⟨_, _, rfl⟩
theorem f5a_Pa : ∃ s1 s2, blockBody f5aEnv "P" "a" = some [.text s1, .blk "b", .text s2] := ⟨_, _, rfl⟩
theorem f5a_Cb : ∃ s1 s2, blockBody f5aEnv "C" "b" = some [.text s1, .blk "a", .text s2] := ⟨_, _, rfl⟩
theorem f5a_bodyP : ∃ s1 s2, bodyOfTpl f5aP = [.text s1, .blk "a", .text s2] := ⟨_, _, rfl⟩

theorem andThen_fuel_left (k : Unit → Except RErr String) : andThen (.error .outOfFuel) k = .error .outOfFuel := rfl

theorem f5a_cycle : ∀ (f : Nat),
    (∀ ctx s1 s2, ctx.view = "C" → run f5aEnv f ctx [.text s1, .blk "a", .text s2] = .error .outOfFuel) ∧
    (∀ ctx s1 s2, ctx.view = "C" → ctx.cur = some "a" → topEntry ctx.blocks "a" = some (["C", "P"], 0) →
      run f5aEnv f ctx [.text s1, .sup, .text s2] = .error .outOfFuel) ∧
    (∀ ctx s1 s2, ctx.view = "C" → run f5aEnv f ctx [.text s1, .blk "b", .text s2] = .error .outOfFuel) := by
  intro f
  induction f with
  | zero => exact ⟨fun _ _ _ _ => rfl, fun _ _ _ _ _ _ => rfl, fun _ _ _ _ => rfl⟩
  | succ f ih =>
    obtain ⟨ih1, ih2, ih3⟩ := ih
    obtain ⟨a1, a2, hCa⟩ := f5a_Ca
    obtain ⟨b1, b2, hPa⟩ := f5a_Pa
    obtain ⟨c1, c2, hCb⟩ := f5a_Cb
    refine ⟨?_, ?_, ?_⟩
    · intro ctx s1 s2 hv
      simp only [run, runItems, hv, f5a_lin_a, hCa]
      rw [ih2 _ a1 a2 rfl rfl (by simp [topEntry])]
      rfl
    · intro ctx s1 s2 hv hc ht
      simp only [run, runItems, hc, ht]
      have : (["C", "P"] : List String)[0 + 1]? = some "P" := rfl
      simp only [this, hPa]
      have := ih3 { ctx with blocks := setTopLevel ctx.blocks "a" (0 + 1), cur := some "a" } b1 b2 hv
      rw [this]
      rfl
    · intro ctx s1 s2 hv
      simp only [run, runItems, hv, f5a_lin_b, hCb]
      rw [ih1 _ c1 c2 rfl]
      rfl

/-- rendering `C` runs out of every fuel: the nesting of `interpret` is unbounded -/
theorem f5a_diverges (fuel : Nat) : renderTpl f5aEnv ["P"] fuel "C" = .error .outOfFuel := by
  obtain ⟨s1, s2, hb⟩ := f5a_bodyP
  have hg : get f5aEnv.S "P" = some f5aP := by decide
  simp only [renderTpl, List.head?, Option.getD, hg, hb]
  exact (f5a_cycle fuel).1 _ s1 s2 rfl

end Tera.Reg

namespace Tera.Reg

/-! ### F5b: B: x{ include "A" } ; A extends B: x{ super() } -/

def f5bB : Tpl :=
  { name := "B", parent := none, srcLen := 56, badRefs := false, topIncludes := [], comps := [], compCalls := [],
    blocks := [⟨"x", false, none, ["A"]⟩] }
def f5bA : Tpl :=
  { name := "A", parent := some "B", srcLen := 69, badRefs := false, topIncludes := [], comps := [], compCalls := [],
    blocks := [⟨"x", true, none, []⟩] }
def f5bSet : List Tpl := [f5bB, f5bA]

def f5bDerived : Derived :=
  { parents := [("A", ["B"]), ("B", [])], sizes := [("A", 125), ("B", 56)],
    lineage := [("A", [("x", ["A", "B"])]), ("B", [("x", ["B"])])],
    comps := [] }

theorem f5b_accepted : derive [] f5bSet ["A", "B"] ["A", "B"] = .ok f5bDerived := by rfl

def f5bEnv : REnv := envOf [] f5bSet f5bDerived

theorem f5b_lin_x : lineageOf f5bEnv "A" "x" = some ["A", "B"] := by decide
theorem f5b_Ax : ∃ s1 s2, blockBody f5bEnv "A" "x" = some [.text s1, .sup, .text s2] := ⟨_, _, rfl⟩
theorem f5b_Bx : ∃ s1 s2, blockBody f5bEnv "B" "x" = some [.text s1, .inc "A", .text s2] := ⟨_, _, rfl⟩
theorem f5b_bodyA : ∃ s1 s2, bodyOfTpl f5bA = [.text s1, .blk "x", .text s2] := ⟨_, _, rfl⟩
theorem f5b_bodyB : ∃ s1 s2, bodyOfTpl f5bB = [.text s1, .blk "x", .text s2] := ⟨_, _, rfl⟩

theorem f5b_cycle : ∀ (f : Nat),
    (∀ ctx s1 s2, ctx.view = "A" → run f5bEnv f ctx [.text s1, .blk "x", .text s2] = .error .outOfFuel) ∧
    (∀ ctx s1 s2, ctx.view = "A" → ctx.cur = some "x" → topEntry ctx.blocks "x" = some (["A", "B"], 0) →
      run f5bEnv f ctx [.text s1, .sup, .text s2] = .error .outOfFuel) ∧
    (∀ ctx s1 s2, run f5bEnv f ctx [.text s1, .inc "A", .text s2] = .error .outOfFuel) := by
  intro f
  induction f with
  | zero => exact ⟨fun _ _ _ _ => rfl, fun _ _ _ _ _ _ => rfl, fun _ _ _ => rfl⟩
  | succ f ih =>
    obtain ⟨ih1, ih2, ih3⟩ := ih
    obtain ⟨a1, a2, hAx⟩ := f5b_Ax
    obtain ⟨b1, b2, hBx⟩ := f5b_Bx
    obtain ⟨c1, c2, hbA⟩ := f5b_bodyA
    refine ⟨?_, ?_, ?_⟩
    · intro ctx s1 s2 hv
      simp only [run, runItems, hv, f5b_lin_x, hAx]
      rw [ih2 _ a1 a2 rfl rfl (by simp [topEntry])]
      rfl
    · intro ctx s1 s2 hv hc ht
      simp only [run, runItems, hc, ht]
      have : (["A", "B"] : List String)[0 + 1]? = some "B" := rfl
      simp only [this, hBx]
      have := ih3 { ctx with blocks := setTopLevel ctx.blocks "x" (0 + 1), cur := some "x" } b1 b2
      rw [this]
      rfl
    · intro ctx s1 s2
      have hr : resolve f5bEnv.ps f5bEnv.S "A" = some "A" := by decide
      have hg : get f5bEnv.S "A" = some f5bA := by decide
      simp only [run, runItems, hr, hg, hbA]
      rw [ih1 _ c1 c2 rfl]
      rfl

/-- rendering `A` runs out of every fuel -/
theorem f5b_diverges (fuel : Nat) : renderTpl f5bEnv ["B"] fuel "A" = .error .outOfFuel := by
  obtain ⟨s1, s2, hb⟩ := f5b_bodyB
  have hg : get f5bEnv.S "B" = some f5bB := by decide
  simp only [renderTpl, List.head?, Option.getD, hg, hb]
  exact (f5b_cycle fuel).1 _ s1 s2 rfl

end Tera.Reg
