/-
Helper lemmas for C09 (semantic part): a fused path instruction behaves like the sequence it
replaces, on the VM model of Model/PathVm.lean.
-/
import TeraModel.Model.PathVm
import TeraModel.Lemmas.Optimize
namespace Tera
namespace PathVm
open Tera.Optimize

variable {V σ : Type}

theorem flatMap_spans_length (taken : List (String × List Span)) (h : ∀ a ∈ taken, a.2 ≠ []) :
    taken.length ≤ (taken.flatMap (·.2)).length := by
  induction taken with
  | nil => simp
  | cons a t ih =>
    have h1 : a.2 ≠ [] := h a (by simp)
    have h2 := ih (fun b hb => h b (List.mem_cons_of_mem _ hb))
    have : 0 < a.2.length := List.length_pos_iff.mpr h1
    simp only [List.flatMap_cons, List.length_append, List.length_cons]
    omega

theorem needSpan_err (spans : List Span) (k : Nat) (h : k < spans.length) :
    (needSpan spans k : Res V σ) = .err := by
  simp [needSpan, spanOrPanic, h]

theorem isEmpty_false_of_ne {α : Type} (l : List α) (h : l ≠ []) : (!l.isEmpty) = true := by
  cases l with
  | nil => exact absurd rfl h
  | cons a t => rfl

/-- The unfused `LoadAttr` chain against the loop of `LoadPath`. -/
theorem loadAttrs_eq_walkLoad (env : Env V σ) (hU : env.isUndef env.undef = true)
    (spans : List Span) (stack : List (V × Bool)) (s : σ) :
    ∀ (taken : List (String × List Span)) (cur : V) (k : Nat),
      (∀ a ∈ taken, a.2 ≠ []) → k + taken.length < spans.length →
      runSeq env (taken.map attrEntry) ((cur, true) :: stack) s
        = some (match walkLoad env spans cur k (taken.map (·.1)) with
                | .val v => .ok ((v, true) :: stack) s
                | .stop r => r) := by
  intro taken
  induction taken with
  | nil => intro cur k _ _; simp [runSeq, walkLoad]
  | cons a rest ih =>
    intro cur k hne hk
    have ha : (!a.2.isEmpty) = true := isEmpty_false_of_ne _ (hne a (by simp))
    have hk' : k + 1 + rest.length < spans.length := by simp at hk; omega
    have hrest : ∀ b ∈ rest, b.2 ≠ [] := fun b hb => hne b (List.mem_cons_of_mem _ hb)
    simp only [List.map_cons, runSeq, step?, attrEntry, loadAttr, walkLoad]
    by_cases hu : env.isUndef cur = true
    · simp [hu, spanOrPanic, needSpan_err spans (k + 1) (by omega)]
    · simp only [hu, Bool.false_eq_true, ↓reduceIte, ha]
      cases hg : env.getAttr cur a.1 with
      | some next =>
        simp only [Option.getD_some]
        exact ih next (k + 1) hrest hk'
      | none =>
        simp only [Option.getD_none]
        cases rest with
        | nil => simp [runSeq]
        | cons b rest' =>
          simp [runSeq, step?, attrEntry, loadAttr, hU, spanOrPanic,
            needSpan_err spans (k + 1) (by omega)]

/-- Once the chain holds an undefined value, the rest of `LoadAttr* WriteTop` errors. -/
theorem undef_chain_err (env : Env V σ) (hU : env.isUndef env.undef = true)
    (w : List Span) (stack : List (V × Bool)) (s : σ) (rest : List (String × List Span)) :
    runSeq env (rest.map attrEntry ++ [(Instr.writeTop, w)]) ((env.undef, true) :: stack) s
      = some .err := by
  cases rest with
  | nil => simp [runSeq, step?, writeTop, hU, spanOrPanic]
  | cons b rest' => simp [runSeq, step?, attrEntry, loadAttr, hU, spanOrPanic]

/-- The unfused `LoadAttr* WriteTop` chain against the loop and tail of `WritePath`. -/
theorem loadAttrsWrite_eq_walkWrite (env : Env V σ) (hU : env.isUndef env.undef = true)
    (hA : ∀ v a, env.isUndef v = true → env.getAttr v a = none)
    (spans w : List Span) (stack : List (V × Bool)) (s : σ) :
    ∀ (taken : List (String × List Span)) (cur : V) (k : Nat),
      (∀ a ∈ taken, a.2 ≠ []) → k + taken.length < spans.length →
      runSeq env (taken.map attrEntry ++ [(Instr.writeTop, w)]) ((cur, true) :: stack) s
        = some (match walkWrite env spans cur k (taken.map (·.1)) with
                | .stop r => r
                | .val v =>
                  if env.isUndef v then needSpan spans (k + taken.length)
                  else match env.write v s with
                    | some s' => .ok stack s'
                    | none => .err) := by
  intro taken
  induction taken with
  | nil =>
    intro cur k _ hk
    simp only [List.map_nil, List.nil_append, runSeq, step?, writeTop, walkWrite, List.length_nil,
      Nat.add_zero]
    by_cases hu : env.isUndef cur = true
    · simp [hu, spanOrPanic, needSpan_err spans k (by simpa using hk)]
    · simp only [hu, Bool.false_eq_true, ↓reduceIte]
      cases env.write cur s <;> simp
  | cons a rest ih =>
    intro cur k hne hk
    have ha : (!a.2.isEmpty) = true := isEmpty_false_of_ne _ (hne a (by simp))
    have hk' : k + 1 + rest.length < spans.length := by simp at hk; omega
    have hrest : ∀ b ∈ rest, b.2 ≠ [] := fun b hb => hne b (List.mem_cons_of_mem _ hb)
    simp only [List.map_cons, List.cons_append, runSeq, step?, attrEntry, loadAttr, walkWrite]
    by_cases hu : env.isUndef cur = true
    · simp [hu, spanOrPanic, hA cur a.1 hu, needSpan_err spans (k + 1) (by omega)]
    · simp only [hu, Bool.false_eq_true, ↓reduceIte, ha]
      cases hg : env.getAttr cur a.1 with
      | some next =>
        simp only [Option.getD_some]
        have := ih next (k + 1) hrest hk'
        have e : k + 1 + rest.length = k + (a :: rest).length := by simp; omega
        rw [e] at this
        exact this
      | none =>
        simp only [Option.getD_none]
        have := undef_chain_err env hU w stack s rest
        rw [this]
        simp [needSpan_err spans (k + 1) (by omega)]

/-- Every `LoadName` / `LoadAttr` carries at least one span (the compiler always passes
`Some(span)` for them: compiler.rs:173, 180, 182). -/
def PathSpans (c : List Entry) : Prop :=
  ∀ e ∈ c, (∃ n, e.1 = .loadName n) ∨ (∃ a, e.1 = .loadAttr a) → e.2 ≠ []


/-- `loadpath_eq_unfused`: in every state (any stack, any variables, any value of any kind at
any depth), `LoadPath [n, a₁ … aₘ]` gives the same stack and the same ok-vs-error as
`LoadName n; LoadAttr a₁; …; LoadAttr aₘ` — provided `n` is not the magic dump variable (the
optimiser's guard) and each replaced instruction has a span. -/
theorem loadPath_eq_runSeq (env : Env V σ) (hU : env.isUndef env.undef = true)
    (n : String) (hn : n ≠ MAGICAL_DUMP_VAR) (sp : List Span) (hsp : sp ≠ [])
    (taken : List (String × List Span)) (ht : ∀ a ∈ taken, a.2 ≠ [])
    (stack : List (V × Bool)) (s : σ) :
    runSeq env ((.loadName n, sp) :: taken.map attrEntry) stack s
      = some (loadPath env (n :: taken.map (·.1)) (sp ++ taken.flatMap (·.2)) stack s) := by
  have hlen : 0 + taken.length < (sp ++ taken.flatMap (·.2)).length := by
    have := flatMap_spans_length taken ht
    have : 0 < sp.length := List.length_pos_iff.mpr hsp
    simp only [List.length_append]; omega
  have hne : (!sp.isEmpty) = true := isEmpty_false_of_ne _ hsp
  have hne2 : (!(sp ++ taken.flatMap (·.2)).isEmpty) = true :=
    isEmpty_false_of_ne _ (by simp [hsp])
  simp only [runSeq, step?, PathVm.loadName, hn, ↓reduceIte, hne, loadPath, and_false, hne2]
  rw [loadAttrs_eq_walkLoad env hU (sp ++ taken.flatMap (·.2)) stack s taken _ 0 ht hlen]
  cases taken with
  | nil => simp [walkLoad]
  | cons a rest =>
    simp only [List.map_cons, ne_eq, reduceCtorEq, not_false_eq_true, ↓reduceIte]
    by_cases hu : env.isUndef (env.getValue s n) = true
    · simp only [hu, ↓reduceIte, walkLoad]
      rw [needSpan_err _ 0 (by omega), needSpan_err _ (0 + 1) (by simp at hlen ⊢; omega)]
    · simp only [hu, Bool.false_eq_true, ↓reduceIte]
      cases walkLoad env (sp ++ (a :: rest).flatMap (·.2)) (env.getValue s n) 0
        (a.1 :: rest.map (·.1)) <;> rfl

/-- `writepath_eq_unfused`: in every state, `WritePath [n, a₁ … aₘ]` (`m ≥ 0`) gives the same
stack, the same output and the same ok-vs-error as `LoadName n; LoadAttr a₁; …; LoadAttr aₘ;
WriteTop` — including a root that is missing, an intermediate field that is missing or holds
`undefined`, and a last field that exists and holds `undefined` (F3).  Needs what
`Value::get_attr` guarantees: an undefined value has no attributes. -/
theorem writePath_eq_runSeq (env : Env V σ) (hU : env.isUndef env.undef = true)
    (hA : ∀ v a, env.isUndef v = true → env.getAttr v a = none)
    (n : String) (hn : n ≠ MAGICAL_DUMP_VAR) (sp w : List Span) (hsp : sp ≠ [])
    (taken : List (String × List Span)) (ht : ∀ a ∈ taken, a.2 ≠ [])
    (stack : List (V × Bool)) (s : σ) :
    runSeq env ((.loadName n, sp) :: (taken.map attrEntry ++ [(.writeTop, w)])) stack s
      = some (writePath env (n :: taken.map (·.1)) (sp ++ taken.flatMap (·.2)) stack s) := by
  have hlen : 0 + taken.length < (sp ++ taken.flatMap (·.2)).length := by
    have := flatMap_spans_length taken ht
    have : 0 < sp.length := List.length_pos_iff.mpr hsp
    simp only [List.length_append]; omega
  have hne : (!sp.isEmpty) = true := isEmpty_false_of_ne _ hsp
  simp only [runSeq, step?, PathVm.loadName, hn, ↓reduceIte, hne, writePath, and_false]
  rw [loadAttrsWrite_eq_walkWrite env hU hA (sp ++ taken.flatMap (·.2)) w stack s taken _ 0 ht hlen]
  by_cases hu : env.isUndef (env.getValue s n) = true
  · simp only [hu, ↓reduceIte]
    rw [needSpan_err _ 0 (by omega)]
    cases taken with
    | nil =>
      simp only [List.map_nil, walkWrite, hu, ↓reduceIte, List.length_nil, Nat.add_zero]
      rw [needSpan_err _ 0 (by simpa using hlen)]
    | cons a rest =>
      simp only [List.map_cons, walkWrite, hA _ a.1 hu]
      rw [needSpan_err _ (0 + 1) (by simp at hlen ⊢; omega)]
  · simp only [hu, Bool.false_eq_true, ↓reduceIte, List.length_map, Nat.zero_add]
    rfl

/-- Every group of the optimiser, on the VM: the pushed instruction does what the instructions
it replaces do, in every state.  (For an instruction kept as it is this is trivial; for the two
fused shapes it is the two theorems above.) -/
theorem group_eq_runSeq (c : List Entry) (hspans : PathSpans c)
    (env : Env V σ) (hU : env.isUndef env.undef = true)
    (hA : ∀ v a, env.isUndef v = true → env.getAttr v a = none)
    (g : Group) (hg : g ∈ groups c) (stack : List (V × Bool)) (s : σ) :
    runSeq env g.orig stack s = step? env g.out stack s := by
  have hmem : ∀ e ∈ g.orig, e ∈ c := by
    intro e he
    rw [← (loop_parsed (isTarget c) c.length 0 c (Nat.le_refl _)).concat]
    exact List.mem_flatMap.mpr ⟨g, hg, he⟩
  cases (loop_parsed (isTarget c) c.length 0 c (Nat.le_refl _)).shapes g hg with
  | keep e =>
    simp only [runSeq]
    cases h : step? env e stack s with
    | none => rfl
    | some r => cases r <;> rfl
  | path n s' taken hn _ =>
    have hs : s' ≠ [] := hspans (Instr.loadName n, s') (hmem (Instr.loadName n, s') (by simp)) (Or.inl ⟨n, rfl⟩)
    have ht : ∀ a ∈ taken, a.2 ≠ [] := by
      intro a ha
      exact hspans (attrEntry a) (hmem _ (by
        simp only [List.mem_cons, List.mem_map]; exact Or.inr ⟨a, ha, rfl⟩)) (Or.inr ⟨a.1, rfl⟩)
    rw [loadPath_eq_runSeq env hU n hn s' hs taken ht]
    simp [step?]
  | write n s' w taken hn =>
    have hs : s' ≠ [] := hspans (Instr.loadName n, s') (hmem (Instr.loadName n, s') (by simp)) (Or.inl ⟨n, rfl⟩)
    have ht : ∀ a ∈ taken, a.2 ≠ [] := by
      intro a ha
      exact hspans (attrEntry a) (hmem _ (by
        simp only [List.mem_cons, List.mem_append, List.mem_map]
        exact Or.inr (Or.inl ⟨a, ha, rfl⟩))) (Or.inr ⟨a.1, rfl⟩)
    rw [writePath_eq_runSeq env hU hA n hn s' w hs taken ht]
    simp [step?]


end PathVm
end Tera
