/-
Lemmas about the percent-encoding and slug reference models (Model/Contrib.lean).
-/
import TeraModel.Model.Contrib
namespace Tera.Contrib

/-! ### percent-encoding -/

theorem hexDigitVal_hexUpper : ∀ n, n < 16 → hexDigitVal (hexUpper n) = some n := by decide

theorem isHexUpper_hexUpper : ∀ n, n < 16 → isHexUpper (hexUpper n) = true := by decide

theorem percentDecode_cons_ne {b : Nat} (h : b ≠ 37) (tl : List Nat) :
    percentDecode (b :: tl) = b :: percentDecode tl := by
  match tl with
  | [] => simp [percentDecode]
  | [c] => simp [percentDecode]
  | c :: d :: rest => simp [percentDecode, h]

theorem percentDecode_escape (n : Nat) (hn : n < 256) (tl : List Nat) :
    percentDecode (37 :: hexUpper (n / 16) :: hexUpper (n % 16) :: tl) = n :: percentDecode tl := by
  rw [percentDecode]
  simp only [if_true, hexDigitVal_hexUpper (n / 16) (by omega), hexDigitVal_hexUpper (n % 16) (by omega)]
  congr 1; omega

/-- percent-decoding the encoder's output returns the input, for every set containing `%` -/
theorem percent_roundtrip_of (set : List Bool) (hpct : shouldEncode set 37 = true) :
    ∀ bs, Bytes bs → percentDecode (percentEncode set bs) = bs
  | [], _ => by simp [percentEncode, percentDecode]
  | b :: rest, h => by
    have hb : b < 256 := h b (by simp)
    have hr : Bytes rest := fun x hx => h x (by simp [hx])
    rw [percentEncode]
    by_cases he : shouldEncode set b = true
    · simp only [he, if_true]
      rw [percentDecode_escape b hb, percent_roundtrip_of set hpct rest hr]
    · have hne : b ≠ 37 := fun e => he (e ▸ hpct)
      simp only [he]
      rw [if_neg (by simp), percentDecode_cons_ne hne, percent_roundtrip_of set hpct rest hr]

/-- the encoder's output: bytes the set leaves alone, and `%XX` with upper-case hex digits -/
theorem percentEncode_escaped (set : List Bool) (ok : Nat → Bool)
    (hok : ∀ b, shouldEncode set b = false → ok b = true) :
    ∀ bs, Bytes bs → EscapedText ok (percentEncode set bs)
  | [], _ => by simpa [percentEncode] using EscapedText.nil
  | b :: rest, h => by
    have hb : b < 256 := h b (by simp)
    have hr : Bytes rest := fun x hx => h x (by simp [hx])
    rw [percentEncode]
    by_cases he : shouldEncode set b = true
    · simp only [he, if_true]
      exact .esc (isHexUpper_hexUpper _ (by omega)) (isHexUpper_hexUpper _ (by omega))
        (percentEncode_escaped set ok hok rest hr)
    · have he' : shouldEncode set b = false := by simpa using he
      simp only [he']
      rw [if_neg (by simp)]
      exact .plain (hok b he') (percentEncode_escaped set ok hok rest hr)

/-! ### slug -/

/-- invariant of the `_slugify` loop; `st.1` is the output so far, reversed -/
structure SlugInv (st : List Nat × Bool) : Prop where
  chars : ∀ c ∈ st.1, isSlugChar c = true
  flag : st.2 = true ↔ (st.1 = [] ∨ st.1.head? = some 45)
  nodd : NoDoubleDash st.1
  lead : st.1.getLast? ≠ some 45

theorem slugInv_init : SlugInv ([], true) :=
  ⟨by simp, by simp, by simp [NoDoubleDash], by simp⟩

theorem noDoubleDash_cons {x : Nat} {l : List Nat} :
    NoDoubleDash (x :: l) ↔ ¬ (x = 45 ∧ l.head? = some 45) ∧ NoDoubleDash l := by
  cases l with
  | nil => simp [NoDoubleDash]
  | cons y t => simp [NoDoubleDash]

theorem getLast?_cons_ne {x : Nat} {l : List Nat} (hx : x ≠ 45) (hl : l.getLast? ≠ some 45) :
    (x :: l).getLast? ≠ some 45 := by
  cases l with
  | nil => simpa using hx
  | cons y t => simpa [List.getLast?_cons_cons] using hl

theorem slugPush_inv {st : List Nat × Bool} (h : SlugInv st) (x : Nat) : SlugInv (slugPush st x) := by
  obtain ⟨acc, fl⟩ := st
  unfold slugPush
  split
  · next hx =>
    refine ⟨?_, by simp; omega, ?_, ?_⟩
    · intro c hc
      simp only [List.mem_cons] at hc
      rcases hc with rfl | hc
      · simp only [isSlugChar, Bool.or_eq_true, Bool.and_eq_true, decide_eq_true_eq]; omega
      · exact h.chars c hc
    · exact noDoubleDash_cons.2 ⟨fun ⟨e, _⟩ => by omega, h.nodd⟩
    · exact getLast?_cons_ne (by omega) h.lead
  · split
    · next hx =>
      refine ⟨?_, by simp <;> omega, ?_, ?_⟩
      · intro c hc
        simp only [List.mem_cons] at hc
        rcases hc with rfl | hc
        · simp only [isSlugChar, Bool.or_eq_true, Bool.and_eq_true, decide_eq_true_eq]; omega
        · exact h.chars c hc
      · exact noDoubleDash_cons.2 ⟨fun ⟨e, _⟩ => by omega, h.nodd⟩
      · exact getLast?_cons_ne (by omega) h.lead
    · split
      · exact h
      · next hfl =>
        have hfl' : fl = false := by simpa using hfl
        have hne : ¬ (acc = [] ∨ acc.head? = some 45) := fun hh => by
          have := h.flag.2 hh; simp [hfl'] at this
        refine ⟨?_, by simp, ?_, ?_⟩
        · intro c hc
          simp only [List.mem_cons] at hc
          rcases hc with rfl | hc
          · simp [isSlugChar]
          · exact h.chars c hc
        · exact noDoubleDash_cons.2 ⟨fun ⟨_, e⟩ => hne (Or.inr e), h.nodd⟩
        · cases acc with
          | nil => exact absurd (Or.inl rfl) hne
          | cons y t => simpa [List.getLast?_cons_cons] using h.lead

theorem slugFold_inv : ∀ (xs : List Nat) (st : List Nat × Bool), SlugInv st → SlugInv (xs.foldl slugPush st)
  | [], _, h => h
  | x :: xs, _, h => slugFold_inv xs _ (slugPush_inv h x)

theorem noDoubleDash_append_singleton {l : List Nat} {x : Nat} :
    NoDoubleDash (l ++ [x]) ↔ NoDoubleDash l ∧ ¬ (l.getLast? = some 45 ∧ x = 45) := by
  induction l with
  | nil => simp [NoDoubleDash]
  | cons y t ih =>
    cases t with
    | nil => simp [NoDoubleDash]
    | cons z t' =>
      have : (y :: z :: t') ++ [x] = y :: (z :: t' ++ [x]) := rfl
      rw [this]
      simp only [List.cons_append] at ih ⊢
      simp only [NoDoubleDash, List.getLast?_cons_cons] at ih ⊢
      rw [ih]
      constructor
      · rintro ⟨a, b, c⟩; exact ⟨⟨a, b⟩, c⟩
      · rintro ⟨⟨a, b⟩, c⟩; exact ⟨a, b, c⟩

theorem noDoubleDash_reverse : ∀ l : List Nat, NoDoubleDash l → NoDoubleDash l.reverse
  | [], _ => by simp [NoDoubleDash]
  | x :: l, h => by
    rw [List.reverse_cons, noDoubleDash_append_singleton]
    have := noDoubleDash_cons.1 h
    refine ⟨noDoubleDash_reverse l this.2, ?_⟩
    rw [List.getLast?_reverse]
    rintro ⟨a, b⟩
    exact this.1 ⟨b, a⟩

theorem not_unreserved_of_ge {b : Nat} (h : 128 ≤ b) : isUnreserved b = false ∧ isAlnum b = false ∧ b ≠ 47 := by
  refine ⟨?_, ?_, by omega⟩
  · simp only [isUnreserved, isAlnum, Bool.or_eq_false_iff, Bool.and_eq_false_iff, decide_eq_false_iff_not]
    omega
  · simp only [isAlnum, Bool.or_eq_false_iff, Bool.and_eq_false_iff, decide_eq_false_iff_not]
    omega


/-- the final `pop` of `_slugify` applied to a state satisfying the loop invariant -/
theorem slug_shape_of_inv (acc : List Nat) (fl : Bool) (inv : SlugInv (acc, fl)) (out : List Nat)
    (hout : out = (popDash acc).reverse) :
    (∀ c ∈ out, isSlugChar c = true) ∧ out.head? ≠ some 45 ∧ out.getLast? ≠ some 45 ∧ NoDoubleDash out := by
  obtain ⟨hch, _, hdd, hlead⟩ := inv
  simp only at hch hdd hlead
  cases acc with
  | nil => subst hout; simp [NoDoubleDash, popDash]
  | cons x tl =>
    by_cases hx : x = 45
    · subst hx
      simp only [popDash] at hout
      subst hout
      have hdd' := noDoubleDash_cons.1 hdd
      refine ⟨fun c hc => hch c (by simp at hc ⊢; exact Or.inr hc), ?_, ?_, noDoubleDash_reverse _ hdd'.2⟩
      · rw [List.head?_reverse]
        cases tl with
        | nil => simp
        | cons y t => simpa [List.getLast?_cons_cons] using hlead
      · rw [List.getLast?_reverse]
        intro h; exact hdd'.1 ⟨rfl, h⟩
    · have : out = (x :: tl).reverse := by
        rw [hout]; unfold popDash; split
        · rename_i heq; injection heq with h1 _; exact absurd h1 hx
        · rfl
      subst this
      refine ⟨fun c hc => hch c (List.mem_reverse.1 hc), ?_, ?_, noDoubleDash_reverse _ hdd⟩
      · rw [List.head?_reverse]; exact hlead
      · rw [List.getLast?_reverse]; simpa using hx


end Tera.Contrib
