/-
Compiler correctness (Props/Refine.lean): the correspondence between the evaluator's scope and
the VM state's scope.

Both models use the same `Scope` type (Model/Scope.lean).  They agree on everything EXCEPT one
field of the active loops: `Iterate(end_ip)` records its jump operand in `ForLoop.endIp`; the
evaluator, which has no instruction indices, records the constant `ITERATE_END_IP` (Model/Eval.lean)
instead.  Nothing but `ForLoop.advance` (is this the first `Iterate`? `end_ip != 0`) and `Break`
(jump to `end_ip`) reads the field.  `ScopeSim sc sc'`: same loop stack up to the value of `endIp`,
which is zero on both sides or on neither; same `set` variables, includer, context, global
context.  Name resolution cannot tell the two apart (`ScopeSim.getValue`).
-/
import TeraModel.Model.Eval
import TeraModel.Lemmas.EvalScope
namespace Tera.Refine
open Tera

/-- the same loop up to the recorded `end_ip`, zero on both sides or on neither -/
def LoopSim (l l' : ForLoop) : Prop :=
  l' = { l with endIp := l'.endIp } ∧ (l.endIp = 0 ↔ l'.endIp = 0)

def LoopsSim : List ForLoop → List ForLoop → Prop
  | [], [] => True
  | l :: ls, l' :: ls' => LoopSim l l' ∧ LoopsSim ls ls'
  | _, _ => False

/-- the evaluator's scope `sc` against the VM state's scope `sc'` -/
def ScopeSim (sc sc' : Scope) : Prop :=
  LoopsSim sc.forLoops sc'.forLoops ∧ sc.setVariables = sc'.setVariables
    ∧ sc.includeParent = sc'.includeParent ∧ sc.context = sc'.context
    ∧ sc.globalContext = sc'.globalContext

theorem LoopSim.refl (l : ForLoop) : LoopSim l l := ⟨rfl, Iff.rfl⟩

theorem LoopsSim.refl : ∀ (ls : List ForLoop), LoopsSim ls ls
  | [] => trivial
  | l :: ls => ⟨LoopSim.refl l, LoopsSim.refl ls⟩

theorem ScopeSim.refl (sc : Scope) : ScopeSim sc sc := ⟨LoopsSim.refl _, rfl, rfl, rfl, rfl⟩

theorem LoopSim.get {l l' : ForLoop} (h : LoopSim l l') (n : String) : l.get n = l'.get n := by
  rw [h.1]; rfl

theorem LoopsSim.loopsGet : ∀ {ls ls' : List ForLoop}, LoopsSim ls ls' → ∀ n,
    Scope.loopsGet ls n = Scope.loopsGet ls' n
  | [], [], _, _ => rfl
  | l :: ls, l' :: ls', h, n => by
    simp only [Scope.loopsGet, h.1.get n, LoopsSim.loopsGet h.2 n]
  | [], _ :: _, h, _ => h.elim
  | _ :: _, [], h, _ => h.elim

theorem ScopeSim.getValue {sc sc' : Scope} (h : ScopeSim sc sc') (n : String) :
    sc.getValue n = sc'.getValue n := by
  obtain ⟨h1, h2, h3, h4, h5⟩ := h
  cases sc with
  | mk l s p c g =>
    cases sc' with
    | mk l' s' p' c' g' =>
      change LoopsSim l l' at h1
      change s = s' at h2
      change p = p' at h3
      change c = c' at h4
      change g = g' at h5
      subst h2 h3 h4 h5
      rw [Scope.getValue_mk, Scope.getValue_mk]
      simp only [Scope.resolve, h1.loopsGet n]

theorem ScopeSim.pushLoop {sc sc' : Scope} (h : ScopeSim sc sc') {l l' : ForLoop} (hl : LoopSim l l') :
    ScopeSim (sc.pushLoop l) (sc'.pushLoop l') := by
  cases sc; cases sc'
  exact ⟨⟨hl, h.1⟩, h.2⟩

theorem ScopeSim.popLoop {sc sc' : Scope} (h : ScopeSim sc sc') : ScopeSim sc.popLoop sc'.popLoop := by
  cases sc with
  | mk l s p c g =>
    cases sc' with
    | mk l' s' p' c' g' =>
      obtain ⟨h1, h2⟩ := h
      refine ⟨?_, h2⟩
      simp only [Scope.popLoop, Scope.forLoops] at h1 ⊢
      cases l <;> cases l' <;> first | exact h1.2 | exact h1.elim | trivial

theorem ScopeSim.setTopLoop {sc sc' : Scope} (h : ScopeSim sc sc') {l l' : ForLoop} (hl : LoopSim l l') :
    ScopeSim (sc.setTopLoop l) (sc'.setTopLoop l') := by
  cases sc with
  | mk ls s p c g =>
    cases sc' with
    | mk ls' s' p' c' g' =>
      obtain ⟨h1, h2⟩ := h
      simp only [Scope.forLoops] at h1
      cases ls <;> cases ls' <;> first | exact h1.elim | exact ⟨h1, h2⟩ | exact ⟨⟨hl, h1.2⟩, h2⟩

theorem ScopeSim.storeGlobal {sc sc' : Scope} (h : ScopeSim sc sc') (n : String) (v : Value) :
    ScopeSim (sc.storeGlobal n v) (sc'.storeGlobal n v) := by
  cases sc with
  | mk ls s p c g =>
    cases sc' with
    | mk ls' s' p' c' g' =>
      obtain ⟨h1, h2, h3⟩ := h
      change s = s' at h2
      subst h2
      exact ⟨h1, rfl, h3⟩

theorem LoopSim.store {l l' : ForLoop} (h : LoopSim l l') (n : String) (v : Value) :
    LoopSim (l.store n v) (l'.store n v) := by
  obtain ⟨h1, h2⟩ := h
  refine ⟨?_, h2⟩
  rw [h1]; rfl

theorem ScopeSim.storeLocal {sc sc' : Scope} (h : ScopeSim sc sc') (n : String) (v : Value) :
    ScopeSim (sc.storeLocal n v) (sc'.storeLocal n v) := by
  cases sc with
  | mk ls s p c g =>
    cases sc' with
    | mk ls' s' p' c' g' =>
      cases ls with
      | nil =>
        cases ls' with
        | nil => exact ScopeSim.storeGlobal h n v
        | cons _ _ => exact h.1.elim
      | cons a as =>
        cases ls' with
        | nil => exact h.1.elim
        | cons b bs => exact ⟨⟨h.1.1.store n v, h.1.2⟩, h.2⟩

theorem LoopSim.storeLocalName {l l' : ForLoop} (h : LoopSim l l') (n : String) :
    LoopSim (l.storeLocalName n) (l'.storeLocalName n) := by
  obtain ⟨h1, h2⟩ := h
  rw [h1]
  unfold ForLoop.storeLocalName
  simp only
  split
  · exact ⟨rfl, h2⟩
  · exact ⟨rfl, h2⟩

/-- `Iterate`: the evaluator records `ITERATE_END_IP`, the VM its (non-zero) operand -/
theorem LoopSim.iterate {l l' : ForLoop} (h : LoopSim l l') {t : Nat} (ht : t ≠ 0) :
    (l.iterate ITERATE_END_IP = none ∧ l'.iterate t = none)
    ∨ (∃ a b, l.iterate ITERATE_END_IP = some a ∧ l'.iterate t = some b ∧ LoopSim a b) := by
  obtain ⟨h1, h2⟩ := h
  have hne : (l.endIp != 0) = (l'.endIp != 0) := by
    by_cases h0 : l.endIp = 0
    · have h0' := h2.mp h0; simp [h0, h0']
    · have h0' : ¬ l'.endIp = 0 := fun x => h0 (h2.mpr x)
      have e1 : (l.endIp != 0) = true := by simpa using h0
      have e2 : (l'.endIp != 0) = true := by simpa using h0'
      rw [e1, e2]
  rw [h1]
  unfold ForLoop.iterate ForLoop.isOver
  simp only
  cases hr : l.remaining with
  | nil => left; simp
  | cons it rest =>
    right
    simp only [List.isEmpty_cons, Bool.false_eq_true, if_false]
    refine ⟨_, _, rfl, rfl, ?_, ?_⟩
    · simp only [ForLoop.advance, hr, hne]
      split <;> rfl
    · simp [ITERATE_END_IP, ht]

theorem LoopSim.iterated {l l' : ForLoop} (h : LoopSim l l') : l.iterated = l'.iterated := by
  rw [h.1]

theorem ScopeSim.forLoops {sc sc' : Scope} (h : ScopeSim sc sc') : LoopsSim sc.forLoops sc'.forLoops := h.1

end Tera.Refine
