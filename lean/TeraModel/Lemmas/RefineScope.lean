/-
Compiler correctness (Props/Refine.lean): the correspondence between the evaluator's scope and
the VM state's scope.

Both models use the same `Scope` type (Model/Scope.lean).  They agree on everything EXCEPT one
field of the active loops: `Iterate(end_ip)` records its jump operand in `ForLoop.endIp`; the
evaluator, which has no instruction indices, records the constant `ITERATE_END_IP` (Model/Eval.lean)
instead.  Nothing but `ForLoop.advance` (is this the first `Iterate`? `end_ip != 0`) and `Break`
(jump to `end_ip`) reads the field.  `ScopeSim sc sc'`: same loop stack up to the value of `endIp`,
which is zero on both sides or on neither; same `set` variables, includer, context, global
context.  Name resolution cannot tell the two apart (`ScopeSim.getValue`).
-/
import TeraModel.Model.Eval
import TeraModel.Lemmas.EvalScope
namespace Tera.Refine
open Tera

/-- the same loop up to the recorded `end_ip`, zero on both sides or on neither -/
def LoopSim (l l' : ForLoop) : Prop :=
  l' = { l with endIp := l'.endIp } ∧ (l.endIp = 0 ↔ l'.endIp = 0)

def LoopsSim : List ForLoop → List ForLoop → Prop
  | [], [] => True
  | l :: ls, l' :: ls' => LoopSim l l' ∧ LoopsSim ls ls'
  | _, _ => False

/-- the evaluator's scope `sc` against the VM state's scope `sc'`: same `set` variables, context
and global context; loop stacks related by `LoopsSim`; includer scopes related the same way (an
`include` inside a loop hands the loop stack, with its `end_ip`s, down as the includer) -/
inductive ScopeSim : Scope → Scope → Prop
  | root {l l' : List ForLoop} (s : Ctx) (c : Ctx) (g : Option Ctx) :
      LoopsSim l l' → ScopeSim (.mk l s none c g) (.mk l' s none c g)
  | child {l l' : List ForLoop} {p p' : Scope} (s : Ctx) (c : Ctx) (g : Option Ctx) :
      LoopsSim l l' → ScopeSim p p' → ScopeSim (.mk l s (some p) c g) (.mk l' s (some p') c g)

theorem LoopSim.refl (l : ForLoop) : LoopSim l l := ⟨rfl, Iff.rfl⟩

theorem LoopsSim.refl : ∀ (ls : List ForLoop), LoopsSim ls ls
  | [] => trivial
  | l :: ls => ⟨LoopSim.refl l, LoopsSim.refl ls⟩

theorem ScopeSim.refl (sc : Scope) : ScopeSim sc sc := by
  induction sc using Scope.rec (motive_2 := fun o => ∀ p, o = some p → ScopeSim p p) with
  | mk l s p c g ih =>
    cases p with
    | none => exact .root s c g (LoopsSim.refl l)
    | some q => exact .child s c g (LoopsSim.refl l) (ih q rfl)
  | none => rename_i p h; cases h
  | some q ih => rename_i p h; cases h; exact ih

theorem LoopSim.get {l l' : ForLoop} (h : LoopSim l l') (n : String) : l.get n = l'.get n := by
  rw [h.1]; rfl

theorem LoopsSim.loopsGet : ∀ {ls ls' : List ForLoop}, LoopsSim ls ls' → ∀ n,
    Scope.loopsGet ls n = Scope.loopsGet ls' n
  | [], [], _, _ => rfl
  | l :: ls, l' :: ls', h, n => by
    simp only [Scope.loopsGet, h.1.get n, LoopsSim.loopsGet h.2 n]
  | [], _ :: _, h, _ => h.elim
  | _ :: _, [], h, _ => h.elim

theorem ScopeSim.getValue {sc sc' : Scope} (h : ScopeSim sc sc') (n : String) :
    sc.getValue n = sc'.getValue n := by
  induction h with
  | root s c g hl =>
    rw [Scope.getValue_mk, Scope.getValue_mk]
    simp only [Scope.resolve, hl.loopsGet n]
  | child s c g hl hp ih =>
    rw [Scope.getValue_mk, Scope.getValue_mk]
    have hpv : Scope.parentValue (some _) n = Scope.parentValue (some _) n := ih
    rw [hpv]
    simp only [Scope.resolve, hl.loopsGet n]

theorem ScopeSim.forLoops {sc sc' : Scope} (h : ScopeSim sc sc') : LoopsSim sc.forLoops sc'.forLoops := by
  cases h <;> assumption

theorem ScopeSim.context_eq {sc sc' : Scope} (h : ScopeSim sc sc') : sc.context = sc'.context := by
  cases h <;> rfl

/-- rebuilding both scopes with related loop stacks and the same `set` variables -/
theorem ScopeSim.withLoops {sc sc' : Scope} (h : ScopeSim sc sc') {l l' : List ForLoop}
    (hl : LoopsSim l l') (s : Ctx) :
    ScopeSim (.mk l s sc.includeParent sc.context sc.globalContext)
      (.mk l' s sc'.includeParent sc'.context sc'.globalContext) := by
  cases h with
  | root s0 c g _ => exact .root s c g hl
  | child s0 c g _ hp => exact .child s c g hl hp

theorem ScopeSim.setVariables_eq {sc sc' : Scope} (h : ScopeSim sc sc') :
    sc.setVariables = sc'.setVariables := by
  cases h <;> rfl

theorem ScopeSim.pushLoop {sc sc' : Scope} (h : ScopeSim sc sc') {l l' : ForLoop} (hl : LoopSim l l') :
    ScopeSim (sc.pushLoop l) (sc'.pushLoop l') := by
  cases h with
  | root s c g hls => exact .root s c g ⟨hl, hls⟩
  | child s c g hls hp => exact .child s c g ⟨hl, hls⟩ hp

theorem LoopsSim.tail : ∀ {l l' : List ForLoop}, LoopsSim l l' → LoopsSim l.tail l'.tail
  | [], [], _ => trivial
  | _ :: _, _ :: _, h => h.2
  | [], _ :: _, h => h.elim
  | _ :: _, [], h => h.elim

theorem ScopeSim.popLoop {sc sc' : Scope} (h : ScopeSim sc sc') : ScopeSim sc.popLoop sc'.popLoop := by
  cases h with
  | root s c g hls => exact .root s c g hls.tail
  | child s c g hls hp => exact .child s c g hls.tail hp

theorem LoopsSim.setTop : ∀ {ls ls' : List ForLoop} {l l' : ForLoop}, LoopsSim ls ls' → LoopSim l l' →
    LoopsSim (match ls with | _ :: rest => l :: rest | [] => [])
      (match ls' with | _ :: rest => l' :: rest | [] => [])
  | [], [], _, _, _, _ => trivial
  | _ :: _, _ :: _, _, _, h, hl => ⟨hl, h.2⟩
  | [], _ :: _, _, _, h, _ => h.elim
  | _ :: _, [], _, _, h, _ => h.elim

theorem ScopeSim.setTopLoop {sc sc' : Scope} (h : ScopeSim sc sc') {l l' : ForLoop} (hl : LoopSim l l') :
    ScopeSim (sc.setTopLoop l) (sc'.setTopLoop l') := by
  cases h with
  | @root ls ls' s c g hls =>
    cases ls <;> cases ls' <;> first | exact hls.elim | exact .root s c g hls | exact .root s c g ⟨hl, hls.2⟩
  | @child ls ls' p p' s c g hls hp =>
    cases ls <;> cases ls' <;>
      first | exact hls.elim | exact .child s c g hls hp | exact .child s c g ⟨hl, hls.2⟩ hp

theorem ScopeSim.storeGlobal {sc sc' : Scope} (h : ScopeSim sc sc') (n : String) (v : Value) :
    ScopeSim (sc.storeGlobal n v) (sc'.storeGlobal n v) := by
  cases h with
  | root s c g hls => exact .root _ c g hls
  | child s c g hls hp => exact .child _ c g hls hp

theorem LoopSim.store {l l' : ForLoop} (h : LoopSim l l') (n : String) (v : Value) :
    LoopSim (l.store n v) (l'.store n v) := by
  obtain ⟨h1, h2⟩ := h
  refine ⟨?_, h2⟩
  rw [h1]; rfl

theorem ScopeSim.storeLocal {sc sc' : Scope} (h : ScopeSim sc sc') (n : String) (v : Value) :
    ScopeSim (sc.storeLocal n v) (sc'.storeLocal n v) := by
  cases h with
  | @root ls ls' s c g hls =>
    cases ls <;> cases ls' <;>
      first | exact hls.elim | exact .root _ c g hls | exact .root s c g ⟨hls.1.store n v, hls.2⟩
  | @child ls ls' p p' s c g hls hp =>
    cases ls <;> cases ls' <;>
      first | exact hls.elim | exact .child _ c g hls hp | exact .child s c g ⟨hls.1.store n v, hls.2⟩ hp

/-- the state `render_include` builds, on both sides -/
theorem ScopeSim.included {sc sc' : Scope} (h : ScopeSim sc sc') :
    ScopeSim (Scope.included sc) (Scope.included sc') := by
  unfold Scope.included
  rw [h.context_eq]
  exact .child [] _ none trivial h

theorem LoopSim.storeLocalName {l l' : ForLoop} (h : LoopSim l l') (n : String) :
    LoopSim (l.storeLocalName n) (l'.storeLocalName n) := by
  obtain ⟨h1, h2⟩ := h
  rw [h1]
  unfold ForLoop.storeLocalName
  simp only
  split
  · exact ⟨rfl, h2⟩
  · exact ⟨rfl, h2⟩

/-- `Iterate`: the evaluator records `ITERATE_END_IP`, the VM its (non-zero) operand -/
theorem LoopSim.iterate {l l' : ForLoop} (h : LoopSim l l') {t : Nat} (ht : t ≠ 0) :
    (l.iterate ITERATE_END_IP = none ∧ l'.iterate t = none)
    ∨ (∃ a b, l.iterate ITERATE_END_IP = some a ∧ l'.iterate t = some b ∧ LoopSim a b) := by
  obtain ⟨h1, h2⟩ := h
  have hne : (l.endIp != 0) = (l'.endIp != 0) := by
    by_cases h0 : l.endIp = 0
    · have h0' := h2.mp h0; simp [h0, h0']
    · have h0' : ¬ l'.endIp = 0 := fun x => h0 (h2.mpr x)
      have e1 : (l.endIp != 0) = true := by simpa using h0
      have e2 : (l'.endIp != 0) = true := by simpa using h0'
      rw [e1, e2]
  rw [h1]
  unfold ForLoop.iterate ForLoop.isOver
  simp only
  cases hr : l.remaining with
  | nil => left; simp
  | cons it rest =>
    right
    simp only [List.isEmpty_cons, Bool.false_eq_true, if_false]
    refine ⟨_, _, rfl, rfl, ?_, ?_⟩
    · simp only [ForLoop.advance, hr, hne]
      split <;> rfl
    · simp [ITERATE_END_IP, ht]

theorem LoopSim.iterated {l l' : ForLoop} (h : LoopSim l l') : l.iterated = l'.iterated := by
  rw [h.1]


end Tera.Refine
