/-
Helper lemmas for C17 (Model/Args.lean, Model/Builtins.lean).
-/
import TeraModel.Model.Builtins
namespace Tera.Builtins
open Tera Tera.Args

theorem intFromValue_bounds (lo hi : Int) (v : Value) (n : Int) (h : intFromValue lo hi v = .ok n) :
    lo ≤ n ∧ n ≤ hi := by
  unfold intFromValue at h
  split at h
  · split at h
    · simp at h
    · simp at h
    · split at h
      · split at h
        · simp at h; omega
        · simp at h
      · simp at h
  · split at h
    · split at h
      · simp at h; omega
      · simp at h
    · simp at h

theorem kwGet_cases {α : Type} (conv : Value → Except BErr α) (kw : Kwargs) (name : String) :
    (kw.find name = none ∧ kwGet conv kw name = .ok none) ∨
    (∃ v a, kw.find name = some v ∧ conv v = .ok a ∧ kwGet conv kw name = .ok (some a)) ∨
    (∃ v e, kw.find name = some v ∧ conv v = .error e ∧ kwGet conv kw name = .error e) := by
  unfold kwGet
  cases kw.find name with
  | none => left; exact ⟨rfl, rfl⟩
  | some v =>
    cases hc : conv v with
    | ok a => right; left; exact ⟨v, a, rfl, hc, by simp [Except.map, hc]⟩
    | error e => right; right; exact ⟨v, e, rfl, hc, by simp [Except.map, hc]⟩

theorem kwGet_int_bounds (lo hi : Int) (kw : Kwargs) (name : String) (n : Int)
    (h : kwGet (intFromValue lo hi) kw name = .ok (some n)) : lo ≤ n ∧ n ≤ hi := by
  rcases kwGet_cases (intFromValue lo hi) kw name with ⟨_, h2⟩ | ⟨v, a, _, h2, h3⟩ | ⟨v, e, _, _, h3⟩
  · rw [h2] at h; cases h
  · rw [h3] at h; cases h; exact intFromValue_bounds lo hi v _ h2
  · rw [h3] at h; cases h

theorem kwMust_int_bounds (lo hi : Int) (kw : Kwargs) (name : String) (n : Int)
    (h : kwMust (intFromValue lo hi) kw name = .ok n) : lo ≤ n ∧ n ≤ hi := by
  unfold kwMust at h
  split at h
  · rename_i a ha
    cases h
    exact kwGet_int_bounds lo hi kw name _ ha
  · cases h
  · cases h

end Tera.Builtins
