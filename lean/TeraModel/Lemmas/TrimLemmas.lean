/-
`trim_start` / `trim_end` of the model (Model/Utf8.lean) remove exactly the White_Space scalars at
the facing end (C08).
-/
import TeraModel.Lemmas.Utf8Lemmas
namespace Tera.Utf8

/-- `s` consists of complete scalars that all have the `White_Space` property -/
inductive WsOnly : Bytes → Prop
  | nil : WsOnly []
  | cons {s : Bytes} {c n : Nat} : decodeHead s = some (c, n) → isWhiteSpace c = true →
      WsOnly (s.drop n) → WsOnly s

theorem decodeHead_bounds {s : Bytes} {c n : Nat} (h : decodeHead s = some (c, n)) :
    0 < n ∧ n ≤ s.length := by
  unfold decodeHead at h
  split at h
  · cases h
  · split at h
    · simp only [Option.some.injEq, Prod.mk.injEq] at h; simp; omega
    · split at h
      · split at h
        · simp only [Option.some.injEq, Prod.mk.injEq] at h; simp; omega
        · cases h
      · split at h
        · split at h
          · simp only [Option.some.injEq, Prod.mk.injEq] at h; simp; omega
          · cases h
        · split at h
          · simp only [Option.some.injEq, Prod.mk.injEq] at h; simp; omega
          · cases h

theorem decodeHead_append {a : Bytes} {r : Nat × Nat} (b : Bytes) (h : decodeHead a = some r) :
    decodeHead (a ++ b) = some r := by
  unfold decodeHead at h ⊢
  cases a with
  | nil => cases h
  | cons b0 t =>
    simp only [List.cons_append] at h ⊢
    split at h
    · rename_i hlt; simp [hlt]; simpa using h
    · rename_i h1
      simp only [h1, if_false]
      split at h
      · rename_i h2
        simp only [h2, if_true]
        cases t with
        | nil => cases h
        | cons b1 t1 => simpa using h
      · rename_i h2
        simp only [h2, if_false]
        split at h
        · rename_i h3
          simp only [h3, if_true]
          match t, h with
          | b1 :: b2 :: t2, h => simpa using h
        · rename_i h3
          simp only [h3, if_false]
          match t, h with
          | b1 :: b2 :: b3 :: t3, h => simpa using h

theorem decodeHead_take {s : Bytes} {c n : Nat} (h : decodeHead s = some (c, n)) :
    decodeHead (s.take n) = some (c, n) := by
  unfold decodeHead at h
  match s, h with
  | b0 :: t, h =>
    simp only at h
    split at h
    · rename_i h0
      simp only [Option.some.injEq, Prod.mk.injEq] at h
      obtain ⟨rfl, rfl⟩ := h
      simp [decodeHead, h0]
    · rename_i h0
      split at h
      · rename_i h1
        match t, h with
        | b1 :: t1, h =>
          simp only [Option.some.injEq, Prod.mk.injEq] at h
          obtain ⟨rfl, rfl⟩ := h
          simp [decodeHead, h0, h1]
      · rename_i h1
        split at h
        · rename_i h2
          match t, h with
          | b1 :: b2 :: t2, h =>
            simp only [Option.some.injEq, Prod.mk.injEq] at h
            obtain ⟨rfl, rfl⟩ := h
            simp [decodeHead, h0, h1, h2]
        · rename_i h2
          match t, h with
          | b1 :: b2 :: b3 :: t3, h =>
            simp only [Option.some.injEq, Prod.mk.injEq] at h
            obtain ⟨rfl, rfl⟩ := h
            simp [decodeHead, h0, h1, h2]

theorem WsOnly.append {a b : Bytes} (ha : WsOnly a) (hb : WsOnly b) : WsOnly (a ++ b) := by
  induction ha with
  | nil => simpa using hb
  | cons hd hw _ ih =>
    rename_i s c n
    have hn := decodeHead_bounds hd
    refine WsOnly.cons (decodeHead_append b hd) hw ?_
    rw [List.drop_append_of_le_length hn.2]
    exact ih

/-- **trim_start removes exactly the leading whitespace**: the removed prefix consists of
White_Space scalars only and what remains does not start with one. -/
theorem trimStartFuel_spec : ∀ (fuel : Nat) (s : Bytes), s.length ≤ fuel →
    ∃ pre, s = pre ++ trimStartFuel fuel s ∧ WsOnly pre ∧
      ∀ c n, decodeHead (trimStartFuel fuel s) = some (c, n) → isWhiteSpace c = false := by
  intro fuel
  induction fuel with
  | zero =>
    intro s hs
    have : s = [] := List.length_eq_zero_iff.mp (by omega)
    subst this
    exact ⟨[], by simp [trimStartFuel], WsOnly.nil, by simp [trimStartFuel, decodeHead]⟩
  | succ f ih =>
    intro s hs
    unfold trimStartFuel
    split
    · rename_i c n hd
      have hn := decodeHead_bounds hd
      split
      · rename_i hw
        obtain ⟨pre, h1, h2, h3⟩ := ih (s.drop n) (by simp; omega)
        refine ⟨s.take n ++ pre, ?_, ?_, h3⟩
        · rw [List.append_assoc, ← h1, List.take_append_drop]
        · have : WsOnly (s.take n) := by
            refine WsOnly.cons (c := c) (n := n) ?_ hw ?_
            · exact decodeHead_take hd
            · simp [List.drop_take]; exact WsOnly.nil
          exact this.append h2
      · rename_i hw
        refine ⟨[], by simp, WsOnly.nil, ?_⟩
        intro c' n' h'
        rw [hd] at h'
        simp only [Option.some.injEq, Prod.mk.injEq] at h'
        rw [← h'.1]; simpa using hw
    · rename_i hnone
      exact ⟨[], by simp, WsOnly.nil, by intro c n h; rw [hnone] at h; cases h⟩

theorem trimStart_spec (s : Bytes) :
    ∃ pre, s = pre ++ trimStart s ∧ WsOnly pre ∧
      ∀ c n, decodeHead (trimStart s) = some (c, n) → isWhiteSpace c = false :=
  trimStartFuel_spec s.length s (Nat.le_refl _)

/-- a valid non-empty string starts with a decodable scalar followed by a valid string -/
theorem decodeHead_of_valid {s : Bytes} (hv : valid s = true) (hne : s ≠ []) :
    ∃ c n, decodeHead s = some (c, n) ∧ valid (s.drop n) = true := by
  rcases valid_cases hv with rfl | ⟨a, t, rfl, h1, hv'⟩ | ⟨a, b, t, rfl, h1, h2, _, hv'⟩
    | ⟨a, b, c, t, rfl, h1, h2, _, _, hv'⟩ | ⟨a, b, c, e, t, rfl, h1, h2, _, _, _, hv'⟩
  · exact absurd rfl hne
  · exact ⟨a, 1, by simp [decodeHead, h1], by simpa using hv'⟩
  · have : ¬ a < 0x80 := by omega
    exact ⟨(a % 0x20) * 64 + b % 64, 2, by simp [decodeHead, this, h2], by simpa using hv'⟩
  · have : ¬ a < 0x80 := by omega
    have h3 : ¬ a < 0xE0 := by omega
    exact ⟨(a % 0x10) * 4096 + (b % 64) * 64 + c % 64, 3, by simp [decodeHead, this, h3, h2], by simpa using hv'⟩
  · have : ¬ a < 0x80 := by omega
    have h3 : ¬ a < 0xE0 := by omega
    have h4 : ¬ a < 0xF0 := by omega
    exact ⟨(a % 8) * 262144 + (b % 64) * 4096 + (c % 64) * 64 + e % 64, 4, by simp [decodeHead, this, h3, h4], by simpa using hv'⟩

theorem trimEndLen_spec : ∀ (fuel : Nat) (s : Bytes) (pos keep : Nat), s.length ≤ fuel →
    valid s = true → keep ≤ pos →
    (trimEndLen fuel s pos keep = keep ∧ WsOnly s) ∨
    (pos < trimEndLen fuel s pos keep ∧ trimEndLen fuel s pos keep ≤ pos + s.length ∧
      WsOnly (s.drop (trimEndLen fuel s pos keep - pos)) ∧
      ∃ j c n, pos ≤ j ∧ j + n = trimEndLen fuel s pos keep ∧
        decodeHead (s.drop (j - pos)) = some (c, n) ∧ isWhiteSpace c = false) := by
  intro fuel
  induction fuel with
  | zero =>
    intro s pos keep hs _ _
    have : s = [] := List.length_eq_zero_iff.mp (by omega)
    subst this
    exact Or.inl ⟨by simp [trimEndLen], WsOnly.nil⟩
  | succ f ih =>
    intro s pos keep hs hv hk
    cases hs' : s with
    | nil => exact Or.inl ⟨by simp [trimEndLen], WsOnly.nil⟩
    | cons a t =>
      rw [← hs']
      have hne : s ≠ [] := by rw [hs']; simp
      obtain ⟨c, n, hd, hvd⟩ := decodeHead_of_valid hv hne
      have hb := decodeHead_bounds hd
      have hstep : trimEndLen (f + 1) s pos keep =
          trimEndLen f (s.drop n) (pos + n) (if isWhiteSpace c then keep else pos + n) := by
        conv => lhs; unfold trimEndLen
        rw [hs'] at hd ⊢
        simp only [hd]
      rw [hstep]
      have hlen : (s.drop n).length ≤ f := by simp; omega
      by_cases hw : isWhiteSpace c = true
      · simp only [hw, if_true]
        rcases ih (s.drop n) (pos + n) keep hlen hvd (by omega) with ⟨h1, h2⟩ | ⟨h1, h2, h3, j, c', n', h4, h5, h6, h7⟩
        · exact Or.inl ⟨h1, WsOnly.cons hd hw h2⟩
        · right
          refine ⟨by omega, by simp at h2; omega, ?_, j, c', n', by omega, h5, ?_, h7⟩
          · rw [List.drop_drop] at h3
            have : n + (trimEndLen f (s.drop n) (pos + n) keep - (pos + n)) = trimEndLen f (s.drop n) (pos + n) keep - pos := by omega
            rw [this] at h3; exact h3
          · rw [List.drop_drop] at h6
            have : n + (j - (pos + n)) = j - pos := by omega
            rw [this] at h6; exact h6
      · have hw' : isWhiteSpace c = false := by simpa using hw
        simp only [hw', Bool.false_eq_true, if_false]
        rcases ih (s.drop n) (pos + n) (pos + n) hlen hvd (Nat.le_refl _) with ⟨h1, h2⟩ | ⟨h1, h2, h3, j, c', n', h4, h5, h6, h7⟩
        · right
          rw [h1]
          refine ⟨by omega, by omega, ?_, pos, c, n, Nat.le_refl _, rfl, by simpa using hd, hw'⟩
          have : pos + n - pos = n := by omega
          rw [this]; exact h2
        · right
          refine ⟨by omega, by simp at h2; omega, ?_, j, c', n', by omega, h5, ?_, h7⟩
          · rw [List.drop_drop] at h3
            have : n + (trimEndLen f (s.drop n) (pos + n) (pos + n) - (pos + n)) = trimEndLen f (s.drop n) (pos + n) (pos + n) - pos := by omega
            rw [this] at h3; exact h3
          · rw [List.drop_drop] at h6
            have : n + (j - (pos + n)) = j - pos := by omega
            rw [this] at h6; exact h6

/-- **trim_end removes exactly the trailing whitespace** (valid UTF-8): the removed suffix consists
of White_Space scalars only and what remains is empty or ends with a scalar that is not one. -/
theorem trimEnd_spec {s : Bytes} (hv : valid s = true) :
    ∃ suf, s = trimEnd s ++ suf ∧ WsOnly suf ∧
      (trimEnd s = [] ∨ ∃ j c n, j + n = (trimEnd s).length ∧
        decodeHead (s.drop j) = some (c, n) ∧ isWhiteSpace c = false) := by
  unfold trimEnd
  rcases trimEndLen_spec s.length s 0 0 (Nat.le_refl _) hv (Nat.le_refl _) with ⟨h1, h2⟩ | ⟨h1, h2, h3, j, c, n, _, h5, h6, h7⟩
  · rw [h1]
    exact ⟨s, by simp, h2, Or.inl (by simp)⟩
  · refine ⟨s.drop (trimEndLen s.length s 0 0), (List.take_append_drop _ s).symm, by simpa using h3, Or.inr ⟨j, c, n, ?_, by simpa using h6, h7⟩⟩
    simp at h2 ⊢
    omega

end Tera.Utf8
