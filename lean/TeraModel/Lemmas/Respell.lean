/-
Respelling (C08): forward lemmas for variable / tag starts, the simulation over whole templates,
normalisation of segment lists, and the final token equality.
-/
import TeraModel.Lemmas.RespellInTag
namespace Tera.C08
open Tera Utf8 Lexer WsFilter Generated

theorem checkWsStart_forward {p : Pos} (l : Bool) (c0 c1 : Nat) (X : Bytes)
    (hr : p.rest = c0 :: c1 :: (dash l ++ 0x20 :: X)) (hv : valid p.rest = true)
    (hb : isBoundary p.rest 2 = true) : ∃ p1, checkWsStart p = .ok (l, p1) ∧ p1.rest = 0x20 :: X := by
  obtain ⟨ws, p1, hp1⟩ := checkWsStart_ok hv hb
  refine ⟨p1, ?_⟩
  unfold checkWsStart at hp1 ⊢
  cases l with
  | true =>
    have h2 : p.rest[2]? = some 0x2D := by rw [hr]; simp [dash]
    simp only [h2, if_true] at hp1 ⊢
    split at hp1
    · rename_i sk p' ha
      simp only [Res.ok.injEq, Prod.mk.injEq] at hp1
      obtain ⟨rfl, rfl⟩ := hp1
      refine ⟨by simp [ha], ?_⟩
      rw [(advance_ok ha).1.2.1, hr]; simp [dash]
    · cases hp1
  | false =>
    have h2 : p.rest[2]? ≠ some 0x2D := by rw [hr]; simp [dash]
    simp only [h2, if_false] at hp1 ⊢
    split at hp1
    · rename_i sk p' ha
      simp only [Res.ok.injEq, Prod.mk.injEq] at hp1
      obtain ⟨rfl, rfl⟩ := hp1
      refine ⟨by simp [ha], ?_⟩
      rw [(advance_ok ha).1.2.1, hr]; simp [dash]
    · cases hp1

/-- **var_start_forward**: `variable_start [-] ␠ …` is lexed as `VariableStart(l)` -/
theorem var_start_forward (d : Delims) (hd : d.accepted = true) (p0 : Pos) (st : List State) (l : Bool)
    (X : Bytes) (hrest : p0.rest = d.variableStart ++ dash l ++ [0x20] ++ X) (hv : valid p0.rest = true) :
    ∃ p, step d p0 (.template :: st) = .emit (.variableStart l) (mkSpan p0 p) p (.variable :: .template :: st) ∧
      p.rest = 0x20 :: X := by
  obtain ⟨hw, _, _, hvsl, _, _, _⟩ := accepted_facts hd
  simp only [Delims.wellFormed, Bool.and_eq_true] at hw
  obtain ⟨⟨⟨⟨⟨_, _⟩, hvsv⟩, _⟩, _⟩, _⟩ := hw
  obtain ⟨c0, c1, hvs⟩ : ∃ c0 c1, d.variableStart = [c0, c1] := by
    match h : d.variableStart, hvsl with
    | [a, b], _ => exact ⟨a, b, rfl⟩
  have hr1 : p0.rest = c0 :: c1 :: (dash l ++ 0x20 :: X) := by rw [hrest, hvs]; simp
  have hhead : getRange p0.rest 0 2 = some d.variableStart := by
    rw [hr1]; exact getRange_two_of_head (by rw [← hr1]; exact hv) hvsv (by rw [hvs])
  obtain ⟨p1, hp1, hrest1⟩ := checkWsStart_forward l c0 c1 X hr1 hv (getRange_boundary hhead).1
  refine ⟨p1, ?_, hrest1⟩
  simp only [step]
  unfold stepTemplate
  simp only [hhead, if_true, hp1]

theorem stripAsciiWs_of_head {T : Bytes} (h : wsLen T = 0) : stripAsciiWs T = T := by
  cases T with
  | nil => rfl
  | cons a t =>
    unfold wsLen at h
    unfold stripAsciiWs
    split at h
    · omega
    · rename_i hws; simp [hws]

theorem raw_not_prefix_strip (T : Bytes) (hT : wsLen T = 0) (hTr : rawName.isPrefixOf T = false) :
    ∀ b : Bytes, ¬ Occurs rawName b → rawName.isPrefixOf (stripAsciiWs (b ++ 0x20 :: T)) = false := by
  intro b
  induction b with
  | nil =>
    intro _
    simp only [List.nil_append]
    unfold stripAsciiWs
    simp only [show isAsciiWs 0x20 = true by decide, if_true]
    rw [stripAsciiWs_of_head hT]; exact hTr
  | cons c b' ih =>
    intro hocc
    have hocc' : ¬ Occurs rawName b' := fun o => hocc (o.cons c)
    simp only [List.cons_append]
    unfold stripAsciiWs
    split
    · exact ih hocc'
    · -- c starts a word: `raw` would have to be the first three bytes of c :: b'
      cases hp : rawName.isPrefixOf (c :: (b' ++ 0x20 :: T)) with
      | false => rfl
      | true =>
        exfalso
        obtain ⟨t, ht⟩ := List.isPrefixOf_iff_prefix.mp hp
        simp only [rawName, List.cons_append, List.nil_append, List.cons.injEq] at ht
        obtain ⟨rfl, ht⟩ := ht
        match b', ht with
        | [], ht => simp at ht
        | [x], ht => simp at ht
        | x :: y :: b'', ht =>
          simp only [List.cons_append, List.cons.injEq] at ht
          obtain ⟨rfl, rfl, _⟩ := ht
          exact hocc ⟨[], b'', by simp [rawName]⟩

theorem skipTag_not_raw (b T be : Bytes) (hT : wsLen T = 0) (hTr : rawName.isPrefixOf T = false)
    (hocc : ¬ Occurs rawName b) : skipTag (0x20 :: (b ++ 0x20 :: T)) rawName be = none := by
  unfold skipTag
  have h1 : (stripDash (0x20 :: (b ++ 0x20 :: T))).1 = 0x20 :: (b ++ 0x20 :: T) := by simp [stripDash]
  simp only [h1]
  have h2 : stripAsciiWs (0x20 :: (b ++ 0x20 :: T)) = stripAsciiWs (b ++ 0x20 :: T) := by
    conv => lhs; unfold stripAsciiWs
    simp [show isAsciiWs 0x20 = true by decide]
  have h3 := raw_not_prefix_strip T hT hTr b hocc
  simp [h2, stripPrefix, h3]

/-- **tag_start_forward**: `block_start [-] ␠ body ␠ [-] block_end …` whose body does not mention `raw`
is lexed as `TagStart(l)` (it is not mistaken for a raw tag) -/
theorem tag_start_forward (d : Delims) (hd : d.accepted = true) (p0 : Pos) (st : List State) (l r : Bool)
    (b R : Bytes) (hrest : p0.rest = d.blockStart ++ dash l ++ [0x20] ++ b ++ [0x20] ++ dash r ++ d.blockEnd ++ R)
    (hv : valid p0.rest = true) (hocc : ¬ Occurs rawName b)
    (hnows : ∀ x ∈ delimBytes d, isAsciiWs x = false) (hnoraw : ∀ x ∈ rawName, x ∉ delimBytes d) :
    ∃ p, step d p0 (.template :: st) = .emit (.tagStart l) (mkSpan p0 p) p (.tag :: .template :: st) ∧
      p.rest = 0x20 :: (b ++ [0x20] ++ (dash r ++ d.blockEnd ++ R)) := by
  obtain ⟨hw, hbsl, hbel, _, _, _, _⟩ := accepted_facts hd
  simp only [Delims.wellFormed, Bool.and_eq_true] at hw
  obtain ⟨⟨⟨⟨⟨hbsv, _⟩, _⟩, _⟩, _⟩, _⟩ := hw
  have hval : d.validate = true := by
    unfold Delims.accepted at hd; simp only [Bool.and_eq_true] at hd; exact hd.2
  have hne : d.blockStart ≠ d.variableStart := by
    unfold Delims.validate at hval
    repeat' split at hval
    all_goals first
      | assumption
      | cases hval
  obtain ⟨c0, c1, hbs⟩ : ∃ c0 c1, d.blockStart = [c0, c1] := by
    match h : d.blockStart, hbsl with
    | [a, b], _ => exact ⟨a, b, rfl⟩
  let X := b ++ [0x20] ++ (dash r ++ d.blockEnd ++ R)
  have hr1 : p0.rest = c0 :: c1 :: (dash l ++ 0x20 :: X) := by rw [hrest, hbs]; simp [X]
  have hhead : getRange p0.rest 0 2 = some d.blockStart := by
    rw [hr1]; exact getRange_two_of_head (by rw [← hr1]; exact hv) hbsv (by rw [hbs])
  obtain ⟨p1, hp1, hrest1⟩ := checkWsStart_forward l c0 c1 X hr1 hv (getRange_boundary hhead).1
  have hT := wsLen_T hd .tag r R hnows
  simp only [endOf] at hT
  have hTr : rawName.isPrefixOf (dash r ++ d.blockEnd ++ R) = false := by
    obtain ⟨e0, e1, hbe⟩ : ∃ e0 e1, d.blockEnd = [e0, e1] := by
      match h : d.blockEnd, hbel with
      | [a, b], _ => exact ⟨a, b, rfl⟩
    have he0 : e0 ∈ delimBytes d := by simp [delimBytes, hbe]
    cases r
    · simp only [dash, hbe, rawName]
      simp [List.isPrefixOf]
      intro h; exact absurd he0 (hnoraw e0 (by rw [← h]; simp [rawName]))
    · simp [dash, rawName, List.isPrefixOf]
  have hsk : skipTag p1.rest rawName d.blockEnd = none := by
    rw [hrest1]
    have := skipTag_not_raw b (dash r ++ d.blockEnd ++ R) d.blockEnd hT.1 hTr hocc
    simpa [X] using this
  refine ⟨p1, ?_, by rw [hrest1]⟩
  simp only [step]
  unfold stepTemplate
  have e1 : ¬ (some d.blockStart = some d.variableStart) := by
    intro h; simp only [Option.some.injEq] at h; exact hne h
  simp only [hhead, e1, if_false, if_true, hp1, hsk]

end Tera.C08

namespace Tera.C08
open Tera Utf8 Lexer WsFilter Generated

theorem startsWithMarker_spell' (d : Delims) (rest : List Seg)
    (hnt : (rest.head?.map Seg.isText).getD false = false) : StartsWithMarker d (spell d rest) := by
  cases rest with
  | nil => exact Or.inl rfl
  | cons s tl =>
    right
    cases s with
    | text x => simp [Seg.isText] at hnt
    | var l r e =>
      exact ⟨d.variableStart, dash l ++ [0x20] ++ e ++ [0x20] ++ dash r ++ d.variableEnd ++ spell d tl,
        Or.inl rfl, by rw [spell_cons]; simp [spellSeg]⟩
    | tag l r b =>
      exact ⟨d.blockStart, dash l ++ [0x20] ++ b ++ [0x20] ++ dash r ++ d.blockEnd ++ spell d tl,
        Or.inr (Or.inl rfl), by rw [spell_cons]; simp [spellSeg]⟩
    | comment l r b =>
      exact ⟨d.commentStart, dash l ++ [0x20] ++ b ++ [0x20] ++ dash r ++ d.commentEnd ++ spell d tl,
        Or.inr (Or.inr rfl), by rw [spell_cons]; simp [spellSeg]⟩

theorem space_not_quote : ∀ q ∈ stringQuotes, q ≠ 0x20 := by decide

/-- **respelling**: a template in normal form, clean for both delimiter sets, lexes to the same
tokens under both spellings -/
theorem respell_all {d1 d2 : Delims} (hd1 : d1.accepted = true) (hd2 : d2.accepted = true) :
    ∀ (segs : List Seg), Clean d1 segs → Clean d2 segs → NormalForm segs →
    ∀ (p1 p2 : Pos), p1.rest = spell d1 segs → p2.rest = spell d2 segs →
      valid p1.rest = true → valid p2.rest = true →
      toks (lex d1 p1 [.template]) = toks (lex d2 p2 [.template]) := by
  intro segs
  induction segs with
  | nil =>
    intro _ _ _ p1 p2 h1 h2 _ _
    rw [lex_nil d1 _ (by simpa [spell] using h1), lex_nil d2 _ (by simpa [spell] using h2)]
  | cons s rest ih =>
    intro hc1 hc2 hnf p1 p2 h1 h2 hv1 hv2
    have hst : StackOk [State.template] := Or.inl rfl
    rw [spell_cons] at h1 h2
    have two : ∀ (d : Delims) (x : Bytes), d.accepted = true → (x = d.variableStart ∨ x = d.blockStart ∨ x = d.commentStart) →
        ∀ Y : Bytes, x ++ Y ≠ [] := by
      intro d x hd hx Y h
      obtain ⟨_, a1, _, a3, _, a5, _⟩ := accepted_facts hd
      have hx0 : x = [] := (List.append_eq_nil_iff.mp h).1
      rcases hx with rfl | rfl | rfl
      · rw [hx0] at a3; simp at a3
      · rw [hx0] at a1; simp at a1
      · rw [hx0] at a5; simp at a5
    cases s with
    | text x =>
      obtain ⟨hxne, hnt, hnf'⟩ := hnf
      simp only [spellSeg] at h1 h2
      obtain ⟨q1, hs1, hr1, _⟩ := text_forward_lemma d1 hd1 p1 [] x _ h1 hxne (hc1.payload (.text x) (by simp))
        (startsWithMarker_spell' d1 rest hnt)
      obtain ⟨q2, hs2, hr2, _⟩ := text_forward_lemma d2 hd2 p2 [] x _ h2 hxne (hc2.payload (.text x) (by simp))
        (startsWithMarker_spell' d2 rest hnt)
      have hne1 : p1.rest ≠ [] := by rw [h1]; cases x with | nil => exact absurd rfl hxne | cons a t => simp
      have hne2 : p2.rest ≠ [] := by rw [h2]; cases x with | nil => exact absurd rfl hxne | cons a t => simp
      have hv1' := ((step_shortens hd1 hst hv1 hne1).1 _ _ _ _ hs1).2.1
      have hv2' := ((step_shortens hd2 hst hv2 hne2).1 _ _ _ _ hs2).2.1
      rw [lex_emit hd1 hst hv1 hne1 hs1, lex_emit hd2 hst hv2 hne2 hs2]
      simp only [toks, List.map_cons]
      congr 1
      exact ih hc1.tail hc2.tail hnf' q1 q2 hr1 hr2 hv1' hv2'
    | comment l r b =>
      have hnf' : NormalForm rest := by simpa [NormalForm] using hnf
      simp only [spellSeg] at h1 h2
      obtain ⟨q1, hs1, hr1⟩ := comment_forward_lemma d1 hd1 p1 [] l r b _ h1 hv1 (hc1.payload (.comment l r b) (by simp)) hc1.space hc1.dash
      obtain ⟨q2, hs2, hr2⟩ := comment_forward_lemma d2 hd2 p2 [] l r b _ h2 hv2 (hc2.payload (.comment l r b) (by simp)) hc2.space hc2.dash
      have hne1 : p1.rest ≠ [] := by
        rw [h1]; simp only [List.append_assoc]; exact two d1 _ hd1 (Or.inr (Or.inr rfl)) _
      have hne2 : p2.rest ≠ [] := by
        rw [h2]; simp only [List.append_assoc]; exact two d2 _ hd2 (Or.inr (Or.inr rfl)) _
      have hv1' := ((step_shortens hd1 hst hv1 hne1).1 _ _ _ _ hs1).2.1
      have hv2' := ((step_shortens hd2 hst hv2 hne2).1 _ _ _ _ hs2).2.1
      rw [lex_emit hd1 hst hv1 hne1 hs1, lex_emit hd2 hst hv2 hne2 hs2]
      simp only [toks, List.map_cons]
      congr 1
      exact ih hc1.tail hc2.tail hnf' q1 q2 hr1 hr2 hv1' hv2'
    | var l r e =>
      have hnf' : NormalForm rest := by simpa [NormalForm] using hnf
      simp only [spellSeg] at h1 h2
      have h1' : p1.rest = d1.variableStart ++ dash l ++ [0x20] ++ (e ++ [0x20] ++ (dash r ++ d1.variableEnd ++ spell d1 rest)) := by
        rw [h1]; simp
      have h2' : p2.rest = d2.variableStart ++ dash l ++ [0x20] ++ (e ++ [0x20] ++ (dash r ++ d2.variableEnd ++ spell d2 rest)) := by
        rw [h2]; simp
      obtain ⟨q1, hs1, hr1⟩ := var_start_forward d1 hd1 p1 [] l _ h1' hv1
      obtain ⟨q2, hs2, hr2⟩ := var_start_forward d2 hd2 p2 [] l _ h2' hv2
      have hne1 : p1.rest ≠ [] := by
        rw [h1']; simp only [List.append_assoc]; exact two d1 _ hd1 (Or.inl rfl) _
      have hne2 : p2.rest ≠ [] := by
        rw [h2']; simp only [List.append_assoc]; exact two d2 _ hd2 (Or.inl rfl) _
      have hv1' := ((step_shortens hd1 hst hv1 hne1).1 _ _ _ _ hs1).2.1
      have hv2' := ((step_shortens hd2 hst hv2 hne2).1 _ _ _ _ hs2).2.1
      rw [lex_emit hd1 hst hv1 hne1 hs1, lex_emit hd2 hst hv2 hne2 hs2]
      simp only [toks, List.map_cons]
      congr 1
      have hq := hc1.exprs (.var l r e) (by simp)
      simp only at hq
      exact inTag_sim hd1 hd2 (top := .variable) (by simp) r (spell d1 rest) (spell d2 rest)
        hc1.space hc1.dash hc1.noWs hc2.space hc2.dash hc2.noWs
        (fun z1 z2 g1 g2 v1 v2 => ih hc1.tail hc2.tail hnf' z1 z2 g1 g2 v1 v2)
        _ (0x20 :: e) rfl
        (fun b hb => by
          simp only [List.mem_cons] at hb
          rcases hb with rfl | hb
          · exact hc1.space
          · exact hc1.payload (.var l r e) (by simp) b hb)
        (fun b hb => by
          simp only [List.mem_cons] at hb
          rcases hb with rfl | hb
          · exact hc2.space
          · exact hc2.payload (.var l r e) (by simp) b hb)
        (fun q hqq hb => by
          simp only [List.mem_cons] at hb
          rcases hb with rfl | hb
          · exact space_not_quote _ hqq rfl
          · exact hq q hqq hb)
        q1 q2 (by rw [hr1]; simp [endOf]) (by rw [hr2]; simp [endOf]) hv1' hv2'
    | tag l r b =>
      have hnf' : NormalForm rest := by simpa [NormalForm] using hnf
      simp only [spellSeg] at h1 h2
      have hq := hc1.exprs (.tag l r b) (by simp)
      simp only at hq
      obtain ⟨q1, hs1, hr1⟩ := tag_start_forward d1 hd1 p1 [] l r b _ h1 hv1 hq.2 hc1.noWs hc1.noRaw
      obtain ⟨q2, hs2, hr2⟩ := tag_start_forward d2 hd2 p2 [] l r b _ h2 hv2 hq.2 hc2.noWs hc2.noRaw
      have hne1 : p1.rest ≠ [] := by
        rw [h1]; simp only [List.append_assoc]; exact two d1 _ hd1 (Or.inr (Or.inl rfl)) _
      have hne2 : p2.rest ≠ [] := by
        rw [h2]; simp only [List.append_assoc]; exact two d2 _ hd2 (Or.inr (Or.inl rfl)) _
      have hv1' := ((step_shortens hd1 hst hv1 hne1).1 _ _ _ _ hs1).2.1
      have hv2' := ((step_shortens hd2 hst hv2 hne2).1 _ _ _ _ hs2).2.1
      rw [lex_emit hd1 hst hv1 hne1 hs1, lex_emit hd2 hst hv2 hne2 hs2]
      simp only [toks, List.map_cons]
      congr 1
      exact inTag_sim hd1 hd2 (top := .tag) (by simp) r (spell d1 rest) (spell d2 rest)
        hc1.space hc1.dash hc1.noWs hc2.space hc2.dash hc2.noWs
        (fun z1 z2 g1 g2 v1 v2 => ih hc1.tail hc2.tail hnf' z1 z2 g1 g2 v1 v2)
        _ (0x20 :: b) rfl
        (fun x hb => by
          simp only [List.mem_cons] at hb
          rcases hb with rfl | hb
          · exact hc1.space
          · exact hc1.payload (.tag l r b) (by simp) x hb)
        (fun x hb => by
          simp only [List.mem_cons] at hb
          rcases hb with rfl | hb
          · exact hc2.space
          · exact hc2.payload (.tag l r b) (by simp) x hb)
        (fun q hqq hb => by
          simp only [List.mem_cons] at hb
          rcases hb with rfl | hb
          · exact space_not_quote _ hqq rfl
          · exact hq.1 q hqq hb)
        q1 q2 (by rw [hr1]; simp [endOf]) (by rw [hr2]; simp [endOf]) hv1' hv2'

end Tera.C08

namespace Tera.C08
open Tera Utf8 Lexer WsFilter Generated

/-- put a text in front of a normal-form list: dropped if empty, merged with a leading text -/
def pushText (a : Bytes) (ns : List Seg) : List Seg :=
  if a = [] then ns
  else
    match ns with
    | .text b :: tl => .text (a ++ b) :: tl
    | _ => .text a :: ns

/-- merge adjacent texts and drop empty ones (same spelling, `spell_normalize`) -/
def normalize : List Seg → List Seg
  | [] => []
  | .text a :: rest => pushText a (normalize rest)
  | s :: rest => s :: normalize rest

theorem spell_pushText (d : Delims) (a : Bytes) (ns : List Seg) : spell d (pushText a ns) = a ++ spell d ns := by
  unfold pushText
  split
  · rename_i h; simp [h]
  · split
    · simp [spell_cons, spellSeg]
    · simp [spell_cons, spellSeg]

theorem spell_normalize (d : Delims) : ∀ segs : List Seg, spell d (normalize segs) = spell d segs := by
  intro segs
  induction segs with
  | nil => rfl
  | cons s rest ih =>
    cases s <;> simp only [normalize, spell_pushText, spell_cons, spellSeg, ih]

theorem normalForm_pushText (a : Bytes) (ns : List Seg) (h : NormalForm ns) : NormalForm (pushText a ns) := by
  unfold pushText
  split
  · exact h
  · rename_i ha
    split
    · rename_i b tl
      obtain ⟨_, h2, h3⟩ := h
      refine ⟨?_, h2, h3⟩
      intro hab
      exact ha (List.append_eq_nil_iff.mp hab).1
    · rename_i hnt
      refine ⟨ha, ?_, h⟩
      cases ns with
      | nil => rfl
      | cons s tl =>
        cases s with
        | text b => exact absurd rfl (hnt b tl)
        | _ => rfl

theorem normalForm_normalize : ∀ segs : List Seg, NormalForm (normalize segs) := by
  intro segs
  induction segs with
  | nil => trivial
  | cons s rest ih =>
    cases s with
    | text a => exact normalForm_pushText a _ ih
    | var l r e => simpa [normalize, NormalForm] using ih
    | tag l r b => simpa [normalize, NormalForm] using ih
    | comment l r b => simpa [normalize, NormalForm] using ih

/-- the per-segment part of `Clean` -/
def SegClean (d : Delims) (s : Seg) : Prop :=
  (∀ b ∈ segPayload s, b ∉ delimBytes d) ∧
    match s with
    | .var _ _ e => ∀ q ∈ stringQuotes, q ∉ e
    | .tag _ _ b => (∀ q ∈ stringQuotes, q ∉ b) ∧ ¬ Occurs rawName b
    | _ => True

theorem segClean_pushText (d : Delims) (a : Bytes) (ns : List Seg) (ha : ∀ b ∈ a, b ∉ delimBytes d)
    (hns : ∀ s ∈ ns, SegClean d s) : ∀ s ∈ pushText a ns, SegClean d s := by
  unfold pushText
  split
  · exact hns
  · split
    · rename_i b tl
      intro s hs
      simp only [List.mem_cons] at hs
      rcases hs with rfl | hs
      · refine ⟨?_, trivial⟩
        intro x hx
        simp only [segPayload, List.mem_append] at hx
        rcases hx with hx | hx
        · exact ha x hx
        · exact (hns (.text b) (by simp)).1 x hx
      · exact hns s (by simp [hs])
    · intro s hs
      simp only [List.mem_cons] at hs
      rcases hs with rfl | hs
      · exact ⟨ha, trivial⟩
      · exact hns s hs

theorem segClean_normalize (d : Delims) : ∀ segs : List Seg, (∀ s ∈ segs, SegClean d s) →
    ∀ s ∈ normalize segs, SegClean d s := by
  intro segs
  induction segs with
  | nil => intro _ s hs; simp [normalize] at hs
  | cons x rest ih =>
    intro h
    have hrest := ih (fun s hs => h s (List.mem_cons_of_mem _ hs))
    cases x with
    | text a => exact segClean_pushText d a _ (h (.text a) (by simp)).1 hrest
    | var l r e =>
      intro s hs
      simp only [normalize, List.mem_cons] at hs
      rcases hs with rfl | hs
      · exact h _ (by simp)
      · exact hrest s hs
    | tag l r b =>
      intro s hs
      simp only [normalize, List.mem_cons] at hs
      rcases hs with rfl | hs
      · exact h _ (by simp)
      · exact hrest s hs
    | comment l r b =>
      intro s hs
      simp only [normalize, List.mem_cons] at hs
      rcases hs with rfl | hs
      · exact h _ (by simp)
      · exact hrest s hs

theorem clean_normalize {d : Delims} {segs : List Seg} (h : Clean d segs) : Clean d (normalize segs) := by
  have hs : ∀ s ∈ segs, SegClean d s := fun s hs => ⟨h.payload s hs, h.exprs s hs⟩
  have hn := segClean_normalize d segs hs
  exact ⟨h.space, h.dash, h.noWs, h.noRaw, fun s hs => (hn s hs).1, fun s hs => (hn s hs).2⟩

/-- **respelling, any template**: the two spellings of a template that is clean for both delimiter
sets lex to the same tokens -/
theorem respell_tokens {d1 d2 : Delims} (hd1 : d1.accepted = true) (hd2 : d2.accepted = true)
    (segs : List Seg) (hc1 : Clean d1 segs) (hc2 : Clean d2 segs)
    (hv1 : valid (spell d1 segs) = true) (hv2 : valid (spell d2 segs) = true) :
    (basicTokenize d1 (spell d1 segs)).tokens.map (·.1) = (basicTokenize d2 (spell d2 segs)).tokens.map (·.1) := by
  have h := respell_all hd1 hd2 (normalize segs) (clean_normalize hc1) (clean_normalize hc2)
    (normalForm_normalize segs) (startPos (spell d1 segs)) (startPos (spell d2 segs))
    (by simp [startPos, spell_normalize]) (by simp [startPos, spell_normalize])
    (by simpa [startPos] using hv1) (by simpa [startPos] using hv2)
  rw [basicTokenize_eq_lex, basicTokenize_eq_lex]
  exact h

end Tera.C08
