/-
Node-level token kinds (C06): the filtered token stream never shows the skeleton parser a token
other than Content / VariableStart / TagStart at node level (parser.rs:1699 unreachable!).
-/
import TeraModel.Lemmas.LexLoop
import TeraModel.Lemmas.WsFilterLemmas
namespace Tera.Lexer
open Tera Utf8 WsFilter

/-- a token lexed inside `{{ }}` / `{% %}` that is not an end marker -/
def exprTok : Token → Bool
  | .ident _ | .string _ | .str _ | .integer _ | .float _ | .bool _ | .op _ => true
  | _ => false

/-- what the `Template` state emits and how the stack moves -/
def TplShape (st : List State) : Step → Prop
  | .emit tok _ _ st' =>
    (∃ w, tok = .variableStart w ∧ st' = .variable :: st) ∨ (∃ w, tok = .tagStart w ∧ st' = .tag :: st) ∨
    (((∃ c, tok = .content c) ∨ (∃ a c b, tok = .rawContent a c b) ∨ (∃ a b, tok = .comment a b)) ∧ st' = st)
  | _ => True

theorem stepTemplate_shape (d : Delims) (p0 : Pos) (st : List State) : TplShape st (stepTemplate d p0 st) := by
  unfold stepTemplate
  simp only
  repeat' split
  all_goals simp [TplShape]

/-- what an in-tag pass emits: the end marker `mk w` (stack popped) or an expression token -/
def TagShape (mk : Bool → Token) (top : State) (below : List State) : Step → Prop
  | .emit tok _ _ st' => (∃ w, tok = mk w ∧ st' = below) ∨ (exprTok tok = true ∧ st' = top :: below)
  | _ => True

theorem emitAfter_tagShape_end (p0 : Pos) (n : Nat) (mk : Bool → Token) (w : Bool) (top : State)
    (below : List State) : TagShape mk top below (emitAfter p0 n (mk w) below) := by
  unfold emitAfter; split
  · simp [TagShape]
  · exact Or.inl ⟨w, rfl, rfl⟩

theorem emitAfter_tagShape_expr (p0 : Pos) (n : Nat) (mk : Bool → Token) (tok : Token) (top : State)
    (below : List State) (h : exprTok tok = true) :
    TagShape mk top below (emitAfter p0 n tok (top :: below)) := by
  unfold emitAfter; split <;> simp [TagShape, h]

theorem lexExprToken_shape (mk : Bool → Token) (p0 : Pos) (top : State) (below : List State) :
    TagShape mk top below (lexExprToken p0 (top :: below)) := by
  unfold lexExprToken lexNumber lexString
  simp only
  repeat' split
  all_goals first
    | exact emitAfter_tagShape_expr _ _ _ _ _ _ rfl
    | simp [TagShape, exprTok]

theorem endCheck_shape (p0 : Pos) (top : State) (below : List State) (e : Bytes) (mk : Bool → Token)
    {s : Step} (h : endCheck p0 below e mk = some s) : TagShape mk top below s := by
  unfold endCheck at h
  split at h
  · cases h; exact emitAfter_tagShape_end _ _ _ _ _ _
  · split at h
    · cases h; exact emitAfter_tagShape_end _ _ _ _ _ _
    · cases h

theorem stepInTag_shape_var (d : Delims) (p0 : Pos) (below : List State) :
    TagShape .variableEnd .variable below (stepInTag d p0 .variable below) := by
  unfold stepInTag
  simp only
  split
  · split <;> simp [TagShape]
  · split
    · rename_i s hs; exact endCheck_shape _ _ _ _ _ hs
    · exact lexExprToken_shape _ _ _ _

theorem stepInTag_shape_tag (d : Delims) (p0 : Pos) (below : List State) :
    TagShape .tagEnd .tag below (stepInTag d p0 .tag below) := by
  unfold stepInTag
  simp only
  split
  · split <;> simp [TagShape]
  · split
    · rename_i s hs; exact endCheck_shape _ _ _ _ _ hs
    · exact lexExprToken_shape _ _ _ _

/-- the node-level mode of the skeleton parser that corresponds to a lexer state stack -/
def modeOf : List State → Mode
  | .variable :: _ => .inVar
  | .tag :: _ => .inTag
  | _ => .text

theorem Skel.map_isPanic (f : Bytes → Bytes) (s : Skel) : (s.map f).isPanic = s.isPanic := by
  cases s <;> rfl

/-- **The parser's `unreachable!` at parser.rs:1699 is unreachable**: on the filtered token
stream of any source the skeleton parser never meets a token other than Content / VariableStart /
TagStart at node level. -/
theorem lexLoop_node_level (d : Delims) : ∀ (fuel : Nat) (p : Pos) (stack : List State) (flag : Bool),
    StackOk stack →
    (skeletonGo (modeOf stack) (filterGo flag (lexLoop d fuel p stack).tokens)).isPanic = false := by
  intro fuel
  induction fuel with
  | zero =>
    intro p stack flag hst
    rcases hst with rfl | rfl | rfl <;> simp [lexLoop, filterGo, modeOf, skeletonGo, Skel.isPanic]
  | succ f ih =>
    intro p stack flag hst
    unfold lexLoop
    split
    · rcases hst with rfl | rfl | rfl <;> simp [filterGo, modeOf, skeletonGo, Skel.isPanic]
    · split
      · rename_i tok span p' stack' heq
        have hst' := step_stack d p stack hst heq
        simp only
        rcases hst with rfl | rfl | rfl
        · -- Template state
          have hsh := stepTemplate_shape d p [.template]
          simp only [step] at heq
          rw [heq] at hsh
          simp only [TplShape] at hsh
          rcases hsh with ⟨w, rfl, rfl⟩ | ⟨w, rfl, rfl⟩ | ⟨hk, rfl⟩
          · simp only [filterGo, modeOf, skeletonGo]
            exact ih p' _ false hst'
          · simp only [filterGo, modeOf, skeletonGo]
            exact ih p' _ false hst'
          · rcases hk with ⟨c, rfl⟩ | ⟨a, c, b, rfl⟩ | ⟨a, b, rfl⟩
            · simp only [filterGo, handleContent, modeOf, skeletonGo, Skel.map_isPanic]
              exact ih p' _ _ hst'
            · simp only [filterGo, handleContent, modeOf, skeletonGo, Skel.map_isPanic]
              exact ih p' _ _ hst'
            · simp only [filterGo, modeOf, skeletonGo, Skel.map_isPanic]
              exact ih p' _ _ hst'
        · -- Variable state
          have hsh := stepInTag_shape_var d p [.template]
          simp only [step] at heq
          rw [heq] at hsh
          simp only [TagShape] at hsh
          rcases hsh with ⟨w, rfl, rfl⟩ | ⟨hk, rfl⟩
          · cases w <;> simp only [filterGo, modeOf, skeletonGo, Skel.map_isPanic] <;> exact ih p' _ _ hst'
          · cases tok <;> simp [exprTok] at hk <;>
              simp only [filterGo, modeOf, skeletonGo] <;> exact ih p' _ _ hst'
        · -- Tag state
          have hsh := stepInTag_shape_tag d p [.template]
          simp only [step] at heq
          rw [heq] at hsh
          simp only [TagShape] at hsh
          rcases hsh with ⟨w, rfl, rfl⟩ | ⟨hk, rfl⟩
          · cases w <;> simp only [filterGo, modeOf, skeletonGo] <;> exact ih p' _ _ hst'
          · cases tok <;> simp [exprTok] at hk <;>
              simp only [filterGo, modeOf, skeletonGo] <;> exact ih p' _ _ hst'
      · exact ih _ _ _ hst
      · rcases hst with rfl | rfl | rfl <;> simp [filterGo, modeOf, skeletonGo, Skel.isPanic]
      · rcases hst with rfl | rfl | rfl <;> simp [filterGo, modeOf, skeletonGo, Skel.isPanic]
      · rcases hst with rfl | rfl | rfl <;> simp [filterGo, modeOf, skeletonGo, Skel.isPanic]

end Tera.Lexer
