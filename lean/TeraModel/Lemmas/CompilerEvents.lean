/-
Lemmas about what the compiler model records (`exprEvents` …), by functional induction over the
eight mutually recursive event functions: the chunk of every recorded block only refers to recorded
names (T2 for block chunks), and for a scoped AST no panic site is reached and every block chunk is
the compilation of a scoped node list.
-/
import TeraModel.Lemmas.CompilerBasic
namespace Tera.Compiler

/-- the chunk of a recorded block only refers to recorded names -/
def BlkOK (S : Event → Prop) (ev : Event) : Prop :=
  match ev with
  | .blockDef _ c _ => AllC (RefS S) c
  | _ => True

theorem blocks_refs_aux :
    (∀ il d e, ∀ S, AllE S (exprEvents il d e) → AllE (BlkOK S) (exprEvents il d e)) ∧
    (∀ il d ns, ∀ S, AllE S (nodesEvents il d ns) → AllE (BlkOK S) (nodesEvents il d ns)) ∧
    (∀ il d n, ∀ S, AllE S (nodeEvents il d n) → AllE (BlkOK S) (nodeEvents il d n)) ∧
    (∀ il d k, ∀ S, AllE S (kwargsEvents il d k) → AllE (BlkOK S) (kwargsEvents il d k)) ∧
    (∀ il d f, ∀ S, AllE S (filtersEvents il d f) → AllE (BlkOK S) (filtersEvents il d f)) ∧
    (∀ il d o, ∀ S, AllE S (optExprEvents il d o) → AllE (BlkOK S) (optExprEvents il d o)) ∧
    (∀ il d a, ∀ S, AllE S (arrayItemsEvents il d a) → AllE (BlkOK S) (arrayItemsEvents il d a)) ∧
    (∀ il d m, ∀ S, AllE S (mapItemsEvents il d m) → AllE (BlkOK S) (mapItemsEvents il d m)) := by
  apply exprEvents.mutual_induct
    (motive_1 := fun il d e => ∀ S, AllE S (exprEvents il d e) → AllE (BlkOK S) (exprEvents il d e))
    (motive_2 := fun il d ns => ∀ S, AllE S (nodesEvents il d ns) → AllE (BlkOK S) (nodesEvents il d ns))
    (motive_3 := fun il d n => ∀ S, AllE S (nodeEvents il d n) → AllE (BlkOK S) (nodeEvents il d n))
    (motive_4 := fun il d k => ∀ S, AllE S (kwargsEvents il d k) → AllE (BlkOK S) (kwargsEvents il d k))
    (motive_5 := fun il d f => ∀ S, AllE S (filtersEvents il d f) → AllE (BlkOK S) (filtersEvents il d f))
    (motive_6 := fun il d o => ∀ S, AllE S (optExprEvents il d o) → AllE (BlkOK S) (optExprEvents il d o))
    (motive_7 := fun il d a => ∀ S, AllE S (arrayItemsEvents il d a) → AllE (BlkOK S) (arrayItemsEvents il d a))
    (motive_8 := fun il d m => ∀ S, AllE S (mapItemsEvents il d m) → AllE (BlkOK S) (mapItemsEvents il d m))
  all_goals intros
  all_goals simp only [exprEvents, nodesEvents, nodeEvents, kwargsEvents, filtersEvents,
    optExprEvents, arrayItemsEvents, mapItemsEvents] at *
  all_goals (try split)
  all_goals (try simp_all (config := { zetaDelta := true }) only [allE_append, allE_cons, allE_nil,
    and_true, true_and, and_self])
  all_goals (try (simp only [BlkOK]; done))
  all_goals (try grind [BlkOK, refs_nodes])

/-- no panic site is reached, and a recorded block chunk is the compilation (at index 0, without a
current loop) of a scoped node list -/
def Good (ev : Event) : Prop :=
  match ev with
  | .panic _ => False
  | .blockDef _ c _ => ∃ body, c = nodesCode 0 none body ∧ nodesScoped false body = true
  | _ => True

theorem scoped_good_aux :
    (∀ il d e, exprScoped e = true → AllE Good (exprEvents il d e)) ∧
    (∀ il d ns, ∀ il0, nodesScoped il0 ns = true → (il0 = true → il = true) → AllE Good (nodesEvents il d ns)) ∧
    (∀ il d n, ∀ il0, nodeScoped il0 n = true → (il0 = true → il = true) → AllE Good (nodeEvents il d n)) ∧
    (∀ il d k, kwargsScoped k = true → AllE Good (kwargsEvents il d k)) ∧
    (∀ il d f, filtersScoped f = true → AllE Good (filtersEvents il d f)) ∧
    (∀ il d o, optExprScoped o = true → AllE Good (optExprEvents il d o)) ∧
    (∀ il d a, arrayItemsScoped a = true → AllE Good (arrayItemsEvents il d a)) ∧
    (∀ il d m, mapItemsScoped m = true → AllE Good (mapItemsEvents il d m)) := by
  apply exprEvents.mutual_induct
    (motive_1 := fun il d e => exprScoped e = true → AllE Good (exprEvents il d e))
    (motive_2 := fun il d ns => ∀ il0, nodesScoped il0 ns = true → (il0 = true → il = true) → AllE Good (nodesEvents il d ns))
    (motive_3 := fun il d n => ∀ il0, nodeScoped il0 n = true → (il0 = true → il = true) → AllE Good (nodeEvents il d n))
    (motive_4 := fun il d k => kwargsScoped k = true → AllE Good (kwargsEvents il d k))
    (motive_5 := fun il d f => filtersScoped f = true → AllE Good (filtersEvents il d f))
    (motive_6 := fun il d o => optExprScoped o = true → AllE Good (optExprEvents il d o))
    (motive_7 := fun il d a => arrayItemsScoped a = true → AllE Good (arrayItemsEvents il d a))
    (motive_8 := fun il d m => mapItemsScoped m = true → AllE Good (mapItemsEvents il d m))
  all_goals intros
  all_goals simp only [exprEvents, nodesEvents, nodeEvents, kwargsEvents, filtersEvents,
    optExprEvents, arrayItemsEvents, mapItemsEvents] at *
  all_goals (try (simp only [exprScoped, nodesScoped, nodeScoped, kwargsScoped,
    filtersScoped, optExprScoped, arrayItemsScoped, mapItemsScoped] at *))
  all_goals (try simp only [Bool.and_eq_true, Bool.or_eq_true] at *)
  all_goals (try split)
  all_goals (try simp (config := { zetaDelta := true }) only [allE_append, allE_cons, allE_nil,
    and_true, true_and, and_self] at *)
  all_goals (try (simp only [Good]; done))
  all_goals (try grind [Good])

/-- the chunk of a recorded block has positive `Iterate` operands -/
def BlkIter (ev : Event) : Prop :=
  match ev with
  | .blockDef _ c _ => AllC IterOK c
  | _ => True

theorem blocks_iter_aux :
    (∀ il d e, AllE BlkIter (exprEvents il d e)) ∧
    (∀ il d ns, AllE BlkIter (nodesEvents il d ns)) ∧
    (∀ il d n, AllE BlkIter (nodeEvents il d n)) ∧
    (∀ il d k, AllE BlkIter (kwargsEvents il d k)) ∧
    (∀ il d f, AllE BlkIter (filtersEvents il d f)) ∧
    (∀ il d o, AllE BlkIter (optExprEvents il d o)) ∧
    (∀ il d a, AllE BlkIter (arrayItemsEvents il d a)) ∧
    (∀ il d m, AllE BlkIter (mapItemsEvents il d m)) := by
  apply exprEvents.mutual_induct
    (motive_1 := fun il d e => AllE BlkIter (exprEvents il d e))
    (motive_2 := fun il d ns => AllE BlkIter (nodesEvents il d ns))
    (motive_3 := fun il d n => AllE BlkIter (nodeEvents il d n))
    (motive_4 := fun il d k => AllE BlkIter (kwargsEvents il d k))
    (motive_5 := fun il d f => AllE BlkIter (filtersEvents il d f))
    (motive_6 := fun il d o => AllE BlkIter (optExprEvents il d o))
    (motive_7 := fun il d a => AllE BlkIter (arrayItemsEvents il d a))
    (motive_8 := fun il d m => AllE BlkIter (mapItemsEvents il d m))
  all_goals intros
  all_goals simp only [exprEvents, nodesEvents, nodeEvents, kwargsEvents, filtersEvents,
    optExprEvents, arrayItemsEvents, mapItemsEvents] at *
  all_goals (try split)
  all_goals (try simp_all (config := { zetaDelta := true }) only [allE_append, allE_cons, allE_nil,
    and_true, true_and, and_self])
  all_goals (try (simp only [BlkIter]; done))
  all_goals (try grind [BlkIter, iter_nodes])

/-- the chunk of a recorded block is a node list compiled at index 0 without a current loop -/
def BlkNodes (ev : Event) : Prop :=
  match ev with
  | .blockDef _ c _ => ∃ body, c = nodesCode 0 none body
  | _ => True

theorem blocks_nodes_aux :
    (∀ il d e, AllE BlkNodes (exprEvents il d e)) ∧
    (∀ il d ns, AllE BlkNodes (nodesEvents il d ns)) ∧
    (∀ il d n, AllE BlkNodes (nodeEvents il d n)) ∧
    (∀ il d k, AllE BlkNodes (kwargsEvents il d k)) ∧
    (∀ il d f, AllE BlkNodes (filtersEvents il d f)) ∧
    (∀ il d o, AllE BlkNodes (optExprEvents il d o)) ∧
    (∀ il d a, AllE BlkNodes (arrayItemsEvents il d a)) ∧
    (∀ il d m, AllE BlkNodes (mapItemsEvents il d m)) := by
  apply exprEvents.mutual_induct
    (motive_1 := fun il d e => AllE BlkNodes (exprEvents il d e))
    (motive_2 := fun il d ns => AllE BlkNodes (nodesEvents il d ns))
    (motive_3 := fun il d n => AllE BlkNodes (nodeEvents il d n))
    (motive_4 := fun il d k => AllE BlkNodes (kwargsEvents il d k))
    (motive_5 := fun il d f => AllE BlkNodes (filtersEvents il d f))
    (motive_6 := fun il d o => AllE BlkNodes (optExprEvents il d o))
    (motive_7 := fun il d a => AllE BlkNodes (arrayItemsEvents il d a))
    (motive_8 := fun il d m => AllE BlkNodes (mapItemsEvents il d m))
  all_goals intros
  all_goals simp only [exprEvents, nodesEvents, nodeEvents, kwargsEvents, filtersEvents,
    optExprEvents, arrayItemsEvents, mapItemsEvents] at *
  all_goals (try split)
  all_goals (try simp_all (config := { zetaDelta := true }) only [allE_append, allE_cons, allE_nil,
    and_true, true_and, and_self])
  all_goals (try (simp only [BlkNodes]; done))
  all_goals (try grind [BlkNodes])

theorem blockChunks_are_nodes (ns : List Node) : AllE BlkNodes (nodesEvents false 0 ns) :=
  blocks_nodes_aux.2.1 false 0 ns

end Tera.Compiler
