/-
`height ≤ counted depth + free steps`: the exact relation between the height of a tree
(Lemmas/AstHeight.lean), its counted depth (Lemmas/AstCounted.lean: what the parser's depth counter
sees) and the number of FREE steps on its worst path — steps along the left spine of an
operator / filter / test / attribute / subscript / ternary chain, `not` wrappers, `elif`s, and the
constant-size wrappers (`{{ }}` node, attribute list of a component call, filter list of a `set`
block) that the counter does not count.
-/
import TeraModel.Lemmas.AstHeight
import TeraModel.Lemmas.AstCounted
namespace Tera

mutual
def Expr.free : Expr → Nat
  | .const _ => 0
  | .var _ => 0
  | .array items => ArrayEntry.freeList items
  | .map entries => MapEntry.freeList entries
  | .getAttr e _ _ => 1 + Expr.free e
  | .getItem e s _ => max (1 + Expr.free e) (Expr.free s)
  | .slice e a b c _ =>
    max (1 + Expr.free e) (max (Expr.freeOpt a) (max (Expr.freeOpt b) (Expr.freeOpt c)))
  | .filter e _ kw => max (1 + Expr.free e) (Expr.freeKw kw)
  | .test e _ kw => max (1 + Expr.free e) (Expr.freeKw kw)
  | .ternary c t f => max (1 + Expr.free t) (max (Expr.free c) (Expr.free f))
  | .listComprehension e _ _ t c => max (Expr.free e) (max (Expr.free t) (Expr.freeOpt c))
  | .componentCall _ kw body _ => max (1 + MapEntry.freeList kw) (Node.freeList body)
  | .functionCall _ kw => Expr.freeKw kw
  | .unary .Not e => 1 + Expr.free e
  | .unary .Minus e => Expr.free e
  | .binary _ l r => max (1 + Expr.free l) (Expr.free r)
def Expr.freeOpt : Option Expr → Nat
  | none => 0
  | some e => Expr.free e
def Expr.freeList : List Expr → Nat
  | [] => 0
  | e :: es => max (Expr.free e) (Expr.freeList es)
def Expr.freeKw : List (String × Expr) → Nat
  | [] => 0
  | (_, e) :: es => max (Expr.free e) (Expr.freeKw es)
def ArrayEntry.freeList : List ArrayEntry → Nat
  | [] => 0
  | .item e :: es => max (Expr.free e) (ArrayEntry.freeList es)
  | .spread e :: es => max (Expr.free e) (ArrayEntry.freeList es)
def MapEntry.freeList : List MapEntry → Nat
  | [] => 0
  | .keyValue _ e :: es => max (Expr.free e) (MapEntry.freeList es)
  | .spread e :: es => max (Expr.free e) (MapEntry.freeList es)
def Node.free : Node → Nat
  | .content _ => 0
  | .expression e => 1 + Expr.free e
  | .set _ v _ => Expr.free v
  | .blockSet _ fs body _ => max (1 + Expr.freeList fs) (Node.freeList body)
  | .include _ => 0
  | .block _ body => Node.freeList body
  | .forLoop _ _ t body els => max (Expr.free t) (max (Node.freeList body) (Node.freeList els))
  | .break => 0
  | .continue => 0
  | .if c body els => max (Expr.free c) (max (Node.freeList body) (Node.freeElse els))
  | .filterSection _ kw body => max (Expr.freeKw kw) (Node.freeList body)
/-- a false body: an `elif` is one free step -/
def Node.freeElse : List Node → Nat
  | [.if c b e] => 1 + max (Expr.free c) (max (Node.freeList b) (Node.freeElse e))
  | ns => Node.freeList ns
def Node.freeList : List Node → Nat
  | [] => 0
  | n :: ns => max (Node.free n) (Node.freeList ns)
end

mutual
theorem Expr.height_le : ∀ e : Expr, e.height ≤ e.cd + e.free
  | .const _ => by simp [Expr.height, Expr.cd]
  | .var _ => by simp [Expr.height, Expr.cd]
  | .array items => by
    have := ArrayEntry.heightList_le items
    simp only [Expr.height, Expr.cd, Expr.free]; omega
  | .map entries => by
    have := MapEntry.heightList_le entries
    simp only [Expr.height, Expr.cd, Expr.free]; omega
  | .getAttr e _ _ => by
    have := Expr.height_le e
    simp only [Expr.height, Expr.cd, Expr.free]; omega
  | .getItem e s _ => by
    have := Expr.height_le e
    have := Expr.height_le s
    simp only [Expr.height, Expr.cd, Expr.free]; omega
  | .slice e a b c _ => by
    have := Expr.height_le e
    have := Expr.heightOpt_le a
    have := Expr.heightOpt_le b
    have := Expr.heightOpt_le c
    simp only [Expr.height, Expr.cd, Expr.free]; omega
  | .filter e _ kw => by
    have := Expr.height_le e
    have := Expr.heightKw_le kw
    simp only [Expr.height, Expr.cd, Expr.free]; omega
  | .test e _ kw => by
    have := Expr.height_le e
    have := Expr.heightKw_le kw
    simp only [Expr.height, Expr.cd, Expr.free]; omega
  | .ternary c t f => by
    have := Expr.height_le c
    have := Expr.height_le t
    have := Expr.height_le f
    simp only [Expr.height, Expr.cd, Expr.free]; omega
  | .listComprehension e _ _ t c => by
    have := Expr.height_le e
    have := Expr.height_le t
    have := Expr.heightOpt_le c
    simp only [Expr.height, Expr.cd, Expr.free]; omega
  | .componentCall _ kw body _ => by
    have := MapEntry.heightList_le kw
    have := Node.heightList_le body
    simp only [Expr.height, Expr.cd, Expr.free]; omega
  | .functionCall _ kw => by
    have := Expr.heightKw_le kw
    simp only [Expr.height, Expr.cd, Expr.free]; omega
  | .unary .Not e => by
    have := Expr.height_le e
    simp only [Expr.height, Expr.cd, Expr.free]; omega
  | .unary .Minus e => by
    have := Expr.height_le e
    simp only [Expr.height, Expr.cd, Expr.free]; omega
  | .binary _ l r => by
    have := Expr.height_le l
    have := Expr.height_le r
    simp only [Expr.height, Expr.cd, Expr.free]; omega
theorem Expr.heightOpt_le : ∀ o : Option Expr, Expr.heightOpt o ≤ Expr.cdOpt o + Expr.freeOpt o
  | none => by simp [Expr.heightOpt]
  | some e => by
    have := Expr.height_le e
    simp only [Expr.heightOpt, Expr.cdOpt, Expr.freeOpt]; omega
theorem Expr.heightList_le : ∀ l : List Expr, Expr.heightList l ≤ Expr.cdList l + Expr.freeList l
  | [] => by simp [Expr.heightList]
  | e :: es => by
    have := Expr.height_le e
    have := Expr.heightList_le es
    simp only [Expr.heightList, Expr.cdList, Expr.freeList]; omega
theorem Expr.heightKw_le : ∀ l : List (String × Expr), Expr.heightKw l ≤ Expr.cdKw l + Expr.freeKw l
  | [] => by simp [Expr.heightKw]
  | (_, e) :: es => by
    have := Expr.height_le e
    have := Expr.heightKw_le es
    simp only [Expr.heightKw, Expr.cdKw, Expr.freeKw]; omega
theorem ArrayEntry.heightList_le : ∀ l : List ArrayEntry,
    ArrayEntry.heightList l ≤ ArrayEntry.cdList l + ArrayEntry.freeList l
  | [] => by simp [ArrayEntry.heightList]
  | .item e :: es => by
    have := Expr.height_le e
    have := ArrayEntry.heightList_le es
    simp only [ArrayEntry.heightList, ArrayEntry.cdList, ArrayEntry.freeList]; omega
  | .spread e :: es => by
    have := Expr.height_le e
    have := ArrayEntry.heightList_le es
    simp only [ArrayEntry.heightList, ArrayEntry.cdList, ArrayEntry.freeList]; omega
theorem MapEntry.heightList_le : ∀ l : List MapEntry,
    MapEntry.heightList l ≤ MapEntry.cdList l + MapEntry.freeList l
  | [] => by simp [MapEntry.heightList]
  | .keyValue _ e :: es => by
    have := Expr.height_le e
    have := MapEntry.heightList_le es
    simp only [MapEntry.heightList, MapEntry.cdList, MapEntry.freeList]; omega
  | .spread e :: es => by
    have := Expr.height_le e
    have := MapEntry.heightList_le es
    simp only [MapEntry.heightList, MapEntry.cdList, MapEntry.freeList]; omega
theorem Node.height_le : ∀ n : Node, n.height ≤ n.cd + n.free
  | .content _ => by simp [Node.height, Node.cd]
  | .expression e => by
    have := Expr.height_le e
    simp only [Node.height, Node.cd, Node.free]; omega
  | .set _ v _ => by
    have := Expr.height_le v
    simp only [Node.height, Node.cd, Node.free]; omega
  | .blockSet _ fs body _ => by
    have := Expr.heightList_le fs
    have := Node.heightList_le body
    simp only [Node.height, Node.cd, Node.free]; omega
  | .include _ => by simp [Node.height, Node.cd]
  | .block _ body => by
    have := Node.heightList_le body
    simp only [Node.height, Node.cd, Node.free]; omega
  | .forLoop _ _ t body els => by
    have := Expr.height_le t
    have := Node.heightList_le body
    have := Node.heightList_le els
    simp only [Node.height, Node.cd, Node.free]; omega
  | .break => by simp [Node.height, Node.cd]
  | .continue => by simp [Node.height, Node.cd]
  | .if c body els => by
    have := Expr.height_le c
    have := Node.heightList_le body
    have := Node.else_le els
    simp only [Node.height, Node.cd, Node.free]; omega
  | .filterSection _ kw body => by
    have := Expr.heightKw_le kw
    have := Node.heightList_le body
    simp only [Node.height, Node.cd, Node.free]; omega
/-- a false body seen from its `If` -/
theorem Node.else_le : ∀ els : List Node,
    1 + Node.heightList els ≤ Node.cdElse els + Node.freeElse els
  | [] => by simp [Node.heightList, Node.cdElse, Node.cdList]
  | [.if c b e] => by
    have := Expr.height_le c
    have := Node.heightList_le b
    have := Node.else_le e
    simp only [Node.heightList, Node.height, Node.cdElse, Node.freeElse]; omega
  | [.content t] => by
    have := Node.height_le (.content t)
    simp only [Node.heightList, Node.cdElse, Node.freeElse, Node.cdList, Node.freeList] at *; omega
  | [.expression e] => by
    have := Node.height_le (.expression e)
    simp only [Node.heightList, Node.cdElse, Node.freeElse, Node.cdList, Node.freeList] at *; omega
  | [.set a v g] => by
    have := Node.height_le (.set a v g)
    simp only [Node.heightList, Node.cdElse, Node.freeElse, Node.cdList, Node.freeList] at *; omega
  | [.blockSet a fs body g] => by
    have := Node.height_le (.blockSet a fs body g)
    simp only [Node.heightList, Node.cdElse, Node.freeElse, Node.cdList, Node.freeList] at *; omega
  | [.include a] => by
    have := Node.height_le (.include a)
    simp only [Node.heightList, Node.cdElse, Node.freeElse, Node.cdList, Node.freeList] at *; omega
  | [.block a body] => by
    have := Node.height_le (.block a body)
    simp only [Node.heightList, Node.cdElse, Node.freeElse, Node.cdList, Node.freeList] at *; omega
  | [.forLoop k v t body els] => by
    have := Node.height_le (.forLoop k v t body els)
    simp only [Node.heightList, Node.cdElse, Node.freeElse, Node.cdList, Node.freeList] at *; omega
  | [.break] => by
    have := Node.height_le (.break)
    simp only [Node.heightList, Node.cdElse, Node.freeElse, Node.cdList, Node.freeList] at *; omega
  | [.continue] => by
    have := Node.height_le (.continue)
    simp only [Node.heightList, Node.cdElse, Node.freeElse, Node.cdList, Node.freeList] at *; omega
  | [.filterSection a kw body] => by
    have := Node.height_le (.filterSection a kw body)
    simp only [Node.heightList, Node.cdElse, Node.freeElse, Node.cdList, Node.freeList] at *; omega
  | n :: m :: ms => by
    have := Node.height_le n
    have := Node.heightList_le (m :: ms)
    have h1 : Node.cdElse (n :: m :: ms) = 1 + Node.cdList (n :: m :: ms) := by
      rw [Node.cdElse.eq_2]; intro c b e h; simp at h
    have h2 : Node.freeElse (n :: m :: ms) = Node.freeList (n :: m :: ms) := by
      rw [Node.freeElse.eq_2]; intro c b e h; simp at h
    rw [h1, h2]
    simp only [Node.heightList, Node.cdList, Node.freeList] at *; omega
theorem Node.heightList_le : ∀ l : List Node, Node.heightList l ≤ Node.cdList l + Node.freeList l
  | [] => by simp [Node.heightList]
  | n :: ns => by
    have := Node.height_le n
    have := Node.heightList_le ns
    simp only [Node.heightList, Node.cdList, Node.freeList]; omega
end

end Tera
