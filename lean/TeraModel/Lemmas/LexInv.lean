/-
Invariants of one pass of the tokenizer loop (Model/Lexer.lean): every state change goes through
`advance!`, so positions stay consistent with the source, spans run between two such positions,
and `continue` only skips ASCII whitespace.  Unconditional (any bytes, any delimiters).
-/
import TeraModel.Model.WsFilter
import TeraModel.Lemmas.Utf8Lemmas
namespace Tera.Lexer
open Tera Utf8

theorem track_append (x y : Bytes) : ∀ (l c b : Nat),
    track l c b (x ++ y) = track (track l c b x).1 (track l c b x).2.1 (track l c b x).2.2 y := by
  induction x with
  | nil => intro l c b; simp [track]
  | cons a t ih =>
    intro l c b
    simp only [List.cons_append, track]
    split
    · exact ih _ _ _
    · split <;> exact ih _ _ _

theorem track_byte (x : Bytes) : ∀ (l c b : Nat), (track l c b x).2.2 = b + x.length := by
  induction x with
  | nil => intro l c b; simp [track]
  | cons a t ih =>
    intro l c b
    simp only [track]
    split
    · rw [ih]; simp; omega
    · split <;> (rw [ih]; simp; omega)

/-- `p'` results from `p` by consuming exactly `n` bytes, ending on a char boundary, with the
bookkeeping of `advance!` -/
def AdvN (p : Pos) (n : Nat) (p' : Pos) : Prop :=
  isBoundary p.rest n = true ∧ p'.rest = p.rest.drop n ∧
    (p'.line, p'.col, p'.byte) = track p.line p.col p.byte (p.rest.take n)

theorem advance_ok {p p' : Pos} {n : Nat} {sk : Bytes} (h : advance p n = .ok (sk, p')) :
    AdvN p n p' ∧ sk = p.rest.take n := by
  unfold advance splitAt? at h
  by_cases hb : isBoundary p.rest n = true
  · simp only [hb, if_true] at h
    simp only [Res.ok.injEq, Prod.mk.injEq] at h
    obtain ⟨rfl, rfl⟩ := h
    exact ⟨⟨hb, rfl, rfl⟩, rfl⟩
  · simp [hb] at h

theorem advance_of_boundary {p : Pos} {n : Nat} (hb : isBoundary p.rest n = true) :
    ∃ p', advance p n = .ok (p.rest.take n, p') := by
  unfold advance splitAt?
  simp [hb]

theorem advance_panic {p : Pos} {n : Nat} {s : String} (h : advance p n = .panic s) :
    isBoundary p.rest n = false := by
  cases hb : isBoundary p.rest n with
  | false => rfl
  | true =>
    obtain ⟨p', hp⟩ := advance_of_boundary hb
    rw [hp] at h; cases h

theorem isBoundary_add {s : Bytes} {n m : Nat} (h1 : isBoundary s n = true)
    (h2 : isBoundary (s.drop n) m = true) : isBoundary s (n + m) = true := by
  have hn := isBoundary_le h1
  have hm := isBoundary_le h2
  simp only [List.length_drop] at hm
  cases m with
  | zero => simpa using h1
  | succ k =>
    unfold isBoundary at h2 ⊢
    simp only [List.drop_drop] at h2
    simp at h2 ⊢
    refine ⟨by omega, ?_⟩
    exact h2.2

theorem AdvN.refl (p : Pos) : AdvN p 0 p := by
  simp [AdvN, isBoundary, track]

theorem AdvN.le {p p' : Pos} {n : Nat} (h : AdvN p n p') : n ≤ p.rest.length := isBoundary_le h.1

theorem AdvN.byte {p p' : Pos} {n : Nat} (h : AdvN p n p') : p'.byte = p.byte + n := by
  have h3 := h.2.2
  have hb := track_byte (p.rest.take n) p.line p.col p.byte
  rw [← h3] at hb
  simp at hb
  have := h.le
  omega

theorem AdvN.trans {p p' p'' : Pos} {n m : Nat} (h1 : AdvN p n p') (h2 : AdvN p' m p'') :
    AdvN p (n + m) p'' := by
  obtain ⟨b1, r1, t1⟩ := h1
  obtain ⟨b2, r2, t2⟩ := h2
  rw [r1] at b2 r2 t2
  refine ⟨isBoundary_add b1 b2, ?_, ?_⟩
  · rw [r2, List.drop_drop]
  · have : p.rest.take (n + m) = p.rest.take n ++ (p.rest.drop n).take m := by
      rw [List.take_add]
    rw [this, track_append, ← t1]
    exact t2

theorem AdvN.valid {p p' : Pos} {n : Nat} (h : AdvN p n p') (hv : valid p.rest = true) :
    valid p'.rest = true := by
  rw [h.2.1]; exact valid_drop hv n h.1

/-- what a token's payload is, in terms of the bytes consumed for it -/
def TokText (tok : Token) (lexeme : Bytes) : Prop :=
  match tok with
  | .content s => s = lexeme
  | .ident s => s = lexeme
  | .float s => s = lexeme
  | _ => True

/-- one loop pass only moves by `advance!`: the new position is the old one advanced by `n` bytes
ending on a boundary, the span runs from the old to the new position, only an empty `Content`
can be emitted without consuming anything, and `continue` only skips ASCII whitespace -/
def StepAdv (p0 : Pos) : Step → Prop
  | .emit tok span p _ =>
    ∃ n, AdvN p0 n p ∧ span = mkSpan p0 p ∧ TokText tok (p0.rest.take n) ∧ (0 < n ∨ tok = .content [])
  | .skip p => ∃ n, AdvN p0 n p ∧ 0 < n ∧ (p0.rest.take n).all isAsciiWs = true
  | .error _ span => ∃ n p, AdvN p0 n p ∧ span = mkSpan p0 p
  | .panic _ => True
  | .fuel => True

theorem emitAfter_adv (p0 : Pos) (n : Nat) (tok : Token) (st : List State) (hn : 0 < n)
    (ht : ∀ l, TokText tok l) : StepAdv p0 (emitAfter p0 n tok st) := by
  unfold emitAfter
  split
  · trivial
  · rename_i sk p h
    exact ⟨n, (advance_ok h).1, rfl, ht _, Or.inl hn⟩

theorem checkWsStart_adv {p p' : Pos} {ws : Bool} (h : checkWsStart p = .ok (ws, p')) :
    ∃ n, AdvN p n p' ∧ 2 ≤ n := by
  unfold checkWsStart at h
  split at h
  · split at h
    · rename_i sk p1 ha
      simp only [Res.ok.injEq, Prod.mk.injEq] at h
      obtain ⟨_, rfl⟩ := h
      exact ⟨3, (advance_ok ha).1, by omega⟩
    · cases h
  · split at h
    · rename_i sk p1 ha
      simp only [Res.ok.injEq, Prod.mk.injEq] at h
      obtain ⟨_, rfl⟩ := h
      exact ⟨2, (advance_ok ha).1, by omega⟩
    · cases h

theorem stepTemplate_adv (d : Delims) (p0 : Pos) (st : List State) :
    StepAdv p0 (stepTemplate d p0 st) := by
  unfold stepTemplate
  simp only
  split
  · -- variable start
    split
    · trivial
    · rename_i ws p h
      obtain ⟨n, hn, h2⟩ := checkWsStart_adv h
      exact ⟨n, hn, rfl, trivial, Or.inl (by omega)⟩
  · split
    · -- block start
      split
      · trivial
      · rename_i ws p h
        obtain ⟨n, hn, h2⟩ := checkWsStart_adv h
        split
        · split
          · split
            · trivial
            · rename_i sk p' ha
              have := (advance_ok ha).1
              exact ⟨_, hn.trans this, rfl, trivial, Or.inl (by omega)⟩
          · exact ⟨n, p, hn, rfl⟩
          · trivial
          · trivial
        · exact ⟨n, hn, rfl, trivial, Or.inl (by omega)⟩
    · split
      · -- comment
        split
        · trivial
        · rename_i ws p h
          obtain ⟨n, hn, h2⟩ := checkWsStart_adv h
          split
          · trivial
          · split
            · trivial
            · rename_i sk p' ha
              have := (advance_ok ha).1
              exact ⟨_, hn.trans this, rfl, trivial, Or.inl (by omega)⟩
          · exact ⟨n, p, hn, rfl⟩
      · -- content
        split
        · trivial
        · rename_i text p ha
          obtain ⟨hadv, htext⟩ := advance_ok ha
          refine ⟨_, hadv, rfl, htext, ?_⟩
          generalize contentLen d p0.rest = k at *
          cases k with
          | zero => right; simp [htext]
          | succ k => left; omega

theorem numLen_pos {c : Nat} {t : Bytes} (hc : isAsciiDigit c = true) (f : Bool) :
    0 < (numLen f (c :: t)).1 := by
  unfold numLen
  split
  · simp
  · simp [hc]

theorem lexNumber_adv (p0 : Pos) (st : List State) (hpos : 0 < (numLen false p0.rest).1) :
    StepAdv p0 (lexNumber p0 st) := by
  unfold lexNumber
  generalize numLen false p0.rest = r at *
  obtain ⟨n, f⟩ := r
  simp only at hpos ⊢
  split
  · trivial
  · rename_i num p ha
    obtain ⟨hadv, hnum⟩ := advance_ok ha
    split
    · exact ⟨n, hadv, rfl, hnum, Or.inl hpos⟩
    · split
      · exact ⟨n, hadv, rfl, trivial, Or.inl hpos⟩
      · exact ⟨n, p, hadv, rfl⟩

theorem lexString_adv (delim : Nat) (p0 : Pos) (st : List State) : StepAdv p0 (lexString delim p0 st) := by
  unfold lexString
  generalize strLen delim false false (p0.rest.drop 1) = r
  obtain ⟨n, f⟩ := r
  simp only
  split
  · exact ⟨0, p0, AdvN.refl p0, rfl⟩
  · split
    · trivial
    · rename_i s p ha
      obtain ⟨hadv, _⟩ := advance_ok ha
      split
      · trivial
      · split
        · split
          · exact ⟨_, hadv, rfl, trivial, Or.inl (by omega)⟩
          · exact ⟨_, p, hadv, rfl⟩
          · exact ⟨_, p, hadv, rfl⟩
        · exact ⟨_, hadv, rfl, trivial, Or.inl (by omega)⟩

theorem lexExprToken_adv (p0 : Pos) (st : List State) : StepAdv p0 (lexExprToken p0 st) := by
  unfold lexExprToken
  simp only
  split
  · exact emitAfter_adv _ _ _ _ (by decide) (fun _ => trivial)
  · split
    · exact emitAfter_adv _ _ _ _ (by decide) (fun _ => trivial)
    · split
      · exact ⟨0, p0, AdvN.refl p0, rfl⟩
      · rename_i c hc
        split
        · exact emitAfter_adv _ _ _ _ (by decide) (fun _ => trivial)
        · split
          · exact lexString_adv _ _ _
          · split
            · rename_i hd
              apply lexNumber_adv
              revert hc
              cases p0.rest with
              | nil => simp
              | cons a t =>
                intro hc
                simp at hc
                subst hc
                exact numLen_pos hd false
            · split
              · rename_i hpos
                split
                · trivial
                · rename_i ident p ha
                  obtain ⟨hadv, hid⟩ := advance_ok ha
                  split
                  · exact ⟨_, hadv, rfl, trivial, Or.inl hpos⟩
                  · exact ⟨_, hadv, rfl, hid, Or.inl hpos⟩
              · exact ⟨0, p0, AdvN.refl p0, rfl⟩

theorem wsLen_take_all (s : Bytes) : (s.take (wsLen s)).all isAsciiWs = true := by
  induction s with
  | nil => simp [wsLen]
  | cons b t ih =>
    unfold wsLen
    split
    · rename_i hb; simp [hb]; simpa using ih
    · simp

theorem endCheck_adv (p0 : Pos) (below : List State) (e : Bytes) (mk : Bool → Token)
    (hmk : ∀ b l, TokText (mk b) l) {s : Step} (h : endCheck p0 below e mk = some s) : StepAdv p0 s := by
  unfold endCheck at h
  split at h
  · cases h; exact emitAfter_adv _ _ _ _ (by decide) (hmk _)
  · split at h
    · cases h; exact emitAfter_adv _ _ _ _ (by decide) (hmk _)
    · cases h

theorem stepInTag_adv (d : Delims) (p0 : Pos) (top : State) (below : List State) :
    StepAdv p0 (stepInTag d p0 top below) := by
  unfold stepInTag
  simp only
  split
  · rename_i hne
    split
    · trivial
    · rename_i sk p ha
      obtain ⟨hadv, _⟩ := advance_ok ha
      exact ⟨_, hadv, by omega, wsLen_take_all _⟩
  · split
    · split
      · rename_i s hs; exact endCheck_adv _ _ _ Token.tagEnd (fun _ _ => trivial) hs
      · exact lexExprToken_adv _ _
    · split
      · rename_i s hs; exact endCheck_adv _ _ _ Token.variableEnd (fun _ _ => trivial) hs
      · exact lexExprToken_adv _ _
    · trivial

theorem step_adv (d : Delims) (p0 : Pos) (stack : List State) : StepAdv p0 (step d p0 stack) := by
  unfold step
  split
  · trivial
  · exact stepTemplate_adv _ _ _
  · exact stepInTag_adv _ _ _ _

end Tera.Lexer
