/-
Lemmas about the collection filters (Model/CollFilters.lean): attribute paths stay inside
well-formed values, `ensure_comparable`, `unique`, `group_by`, `split`/`join`.
-/
import TeraModel.Model.CollFilters
import TeraModel.Lemmas.MapEq
set_option linter.unusedVariables false
namespace Tera
open Tera.Value
namespace Coll

/-! ### attribute paths -/

theorem walkPath_wf (H : List HashTok → Nat) (segs : List (List Char)) (cur k : Value)
    (w : cur.WF) (h : walkPath H segs cur = some k) : k.WF := by
  induction segs generalizing cur with
  | nil => simp only [walkPath, Option.some.injEq] at h; subst h; exact w
  | cons seg rest ih =>
    simp only [walkPath] at h
    split at h
    · split at h
      · rename_i xs
        split at h
        · rename_i v hv
          exact ih v (w.arr_mem v (List.mem_of_getElem? hv)) h
        · cases h
      · cases h
    · split at h
      · rename_i m
        split at h
        · rename_i v hv
          rw [Map.hashGet_eq_get] at hv
          obtain ⟨k', hm, _⟩ := Map.get_some_mem hv
          exact ih v (w.map_mem (k', v) hm) h
        · cases h
      · cases h

theorem getFromPath_wf (H : List HashTok → Nat) (v k : Value) (p : List Char) (w : v.WF)
    (h : getFromPath H v p = some k) : k.WF := by
  unfold getFromPath at h
  split at h
  · cases h
  · cases h; exact w
  · exact walkPath_wf H _ v k w h

theorem decorateAttr_spec (H : List HashTok → Nat) (attr : List Char) (val : List Value)
    (dec : List (Value × Value)) (h : decorateAttr H attr val = some dec) :
    dec.map (·.2) = val ∧ ∀ p ∈ dec, getFromPath H p.2 attr = some p.1 := by
  induction val generalizing dec with
  | nil => simp only [decorateAttr, Option.some.injEq] at h; subst h; simp
  | cons v rest ih =>
    simp only [decorateAttr] at h
    split at h
    · rename_i key hk
      split at h
      · rename_i r hr
        cases h
        obtain ⟨h1, h2⟩ := ih r hr
        refine ⟨by simp [h1], ?_⟩
        intro p hp
        rcases List.mem_cons.1 hp with rfl | hp
        · exact hk
        · exact h2 p hp
      · cases h
    · cases h

/-! ### ensure_comparable -/

def isNoneV : Value → Bool
  | .none => true
  | _ => false

theorem isNoneV_iff (v : Value) : isNoneV v = true ↔ v = .none := by cases v <;> simp [isNoneV]

/-- the keys that are not none, in order -/
def nonNone (l : List Value) : List Value := l.filter (fun v => !isNoneV v)

/-- neighbours are `partial_cmp`-comparable -/
def ChainComparable : List Value → Prop
  | [] => True
  | [_] => True
  | a :: b :: rest => Value.partialCmp a b ≠ Option.none ∧ ChainComparable (b :: rest)

theorem ensureComparableGo_cons (prev : Option Value) (key : Value) (rest : List Value) :
    ensureComparableGo prev (key :: rest) =
      if isNoneV key then ensureComparableGo prev rest
      else match prev with
        | some p => if (Value.partialCmp p key).isNone then false else ensureComparableGo (some key) rest
        | Option.none => ensureComparableGo (some key) rest := by
  cases key <;> cases prev <;> simp [ensureComparableGo, isNoneV]

/-- `ensure_comparable` accepts exactly when, with the none keys dropped, every key is comparable
with its predecessor. -/
theorem ensureComparableGo_iff (prev : Option Value) (l : List Value) :
    ensureComparableGo prev l = true ↔ ChainComparable (prev.toList ++ nonNone l) := by
  induction l generalizing prev with
  | nil => cases prev <;> simp [ensureComparableGo, nonNone, ChainComparable]
  | cons key rest ih =>
    rw [ensureComparableGo_cons]
    cases hk : isNoneV key with
    | true => simp [nonNone, hk, ih prev]
    | false =>
      simp only [Bool.false_eq_true, if_false, nonNone, List.filter_cons, hk, Bool.not_false, if_true]
      cases prev with
      | none => simpa [nonNone] using ih (some key)
      | some p =>
        simp only [Option.toList_some, List.singleton_append, ChainComparable]
        have := ih (some key)
        simp only [Option.toList_some, List.singleton_append, nonNone] at this
        cases hx : Value.partialCmp p key <;> simp [this]

theorem ensureComparable_iff (l : List Value) :
    ensureComparable l = true ↔ ChainComparable (nonNone l) := by
  unfold ensureComparable; rw [ensureComparableGo_iff]; simp

theorem chain_of_pairwise (l : List Value)
    (h : ∀ a ∈ l, ∀ b ∈ l, Value.partialCmp a b ≠ Option.none) : ChainComparable l := by
  induction l with
  | nil => trivial
  | cons a rest ih =>
    cases rest with
    | nil => trivial
    | cons b rest' =>
      exact ⟨h a (by simp) b (by simp), ih (fun x hx y hy => h x (by simp [hx]) y (by simp [hy]))⟩

/-- if comparability is "same class" for an equivalence-like classifier, a comparable chain is
comparable all over -/
theorem chain_same_class (cls : Value → Nat) (l : List Value)
    (hc : ∀ a ∈ l, ∀ b ∈ l, Value.partialCmp a b ≠ Option.none → cls a = cls b)
    (h : ChainComparable l) : ∀ a ∈ l, ∀ b ∈ l, cls a = cls b := by
  induction l with
  | nil => intro a ha; cases ha
  | cons x rest ih =>
    cases rest with
    | nil => intro a ha b hb; simp at ha hb; rw [ha, hb]
    | cons y rest' =>
      have hxy := hc x (by simp) y (by simp) h.1
      have ih' := ih (fun a ha b hb => hc a (by simp [ha]) b (by simp [hb])) h.2
      have key : ∀ a ∈ x :: y :: rest', cls a = cls y := by
        intro a ha
        rcases List.mem_cons.1 ha with rfl | ha
        · exact hxy
        · exact ih' a ha y (by simp)
      intro a ha b hb
      rw [key a ha, key b hb]

/-- Values of different kinds are never `partial_cmp`-comparable. -/
theorem partialCmp_cross (a b : Value) (hr : a.typeOrder ≠ b.typeOrder) :
    Value.partialCmp a b = Option.none := by
  obtain ⟨e1, e2, e3, e4, _⟩ := rank_facts
  cases a <;> cases b <;> simp only [typeOrder, ne_eq, not_true_eq_false] at hr <;>
    first
      | (exfalso; omega)
      | simp [partialCmp, numPartialCmp, cmpF64ToNumber, asI128, asU128, intVal, isInteger]

/-- not an array and not a map -/
def isScalar : Value → Bool
  | .arr _ => false
  | .map _ => false
  | _ => true

/-- Scalars of the same kind are always comparable. -/
theorem partialCmp_scalar_same (a b : Value) (wa : a.WF) (wb : b.WF) (sa : isScalar a = true)
    (hr : a.typeOrder = b.typeOrder) : Value.partialCmp a b ≠ Option.none := by
  by_cases hB : a.typeOrder = Gen.valueRankBool
  · obtain ⟨x, rfl⟩ := inv_bool hB
    obtain ⟨y, rfl⟩ := inv_bool (hr ▸ hB)
    simp [partialCmp]
  by_cases hN : a.typeOrder = Gen.valueRankU64
  · have na := inv_num hN
    have nb := inv_num (hr ▸ hN)
    have := C13.C13_partial_cmp_exact a b (wa.isNum na) (wb.isNum nb)
    have e : Value.partialCmp a b = numPartialCmp a b := by
      cases a <;> cases b <;> simp [isNumber] at na nb <;> rfl
    rw [e, this]; simp
  by_cases hS : a.typeOrder = Gen.valueRankString
  · obtain ⟨s1, x, rfl⟩ := inv_str hS
    obtain ⟨s2, y, rfl⟩ := inv_str (hr ▸ hS)
    simp [partialCmp]
  by_cases hY : a.typeOrder = Gen.valueRankBytes
  · obtain ⟨x, rfl⟩ := inv_bytes hY
    obtain ⟨y, rfl⟩ := inv_bytes (hr ▸ hY)
    simp [partialCmp]
  by_cases hA : a.typeOrder = Gen.valueRankArray
  · obtain ⟨xs, rfl⟩ := inv_arr hA; simp [isScalar] at sa
  by_cases hM : a.typeOrder = Gen.valueRankMap
  · obtain ⟨x, rfl⟩ := inv_map hM; simp [isScalar] at sa
  rcases inv_rest hB hN hS hY hA hM with rfl | rfl
  · rcases inv_rest (hr ▸ hB) (hr ▸ hN) (hr ▸ hS) (hr ▸ hY) (hr ▸ hA) (hr ▸ hM) with rfl | rfl
    · simp [partialCmp]
    · exact absurd hr none_undef_rank
  · rcases inv_rest (hr ▸ hB) (hr ▸ hN) (hr ▸ hS) (hr ▸ hY) (hr ▸ hA) (hr ▸ hM) with rfl | rfl
    · exact absurd hr.symm none_undef_rank
    · simp [partialCmp]

/-- Accepted keys (none aside) are all of one kind. -/
theorem ensureComparable_same_kind (l : List Value) (h : ensureComparable l = true) :
    ∀ a ∈ l, ∀ b ∈ l, a ≠ .none → b ≠ .none → a.typeOrder = b.typeOrder := by
  have c := (ensureComparable_iff l).1 h
  have := chain_same_class Value.typeOrder (nonNone l)
    (fun a _ b _ hc => by by_contra hr; exact hc (partialCmp_cross a b hr)) c
  intro a ha b hb na nb
  have fa : isNoneV a = false := by
    cases h : isNoneV a with
    | false => rfl
    | true => exact absurd ((isNoneV_iff a).1 h) na
  have fb : isNoneV b = false := by
    cases h : isNoneV b with
    | false => rfl
    | true => exact absurd ((isNoneV_iff b).1 h) nb
  apply this
  · simp [nonNone, ha, fa]
  · simp [nonNone, hb, fb]

/-! ### unique -/

/-- Specification of `unique`: an element is kept iff no *earlier element of the input* is `==` to
it (`earlier` holds the elements already passed). -/
def firstOccGo : List Value → List Value → List Value
  | [], _ => []
  | v :: rest, earlier =>
    if earlier.any (fun p => eqV v p) then firstOccGo rest (v :: earlier)
    else v :: firstOccGo rest (v :: earlier)

def firstOcc (val : List Value) : List Value := firstOccGo val []

/-- The `BTreeSet` of `unique` (only the kept elements, membership by `cmp = Equal`) decides the
same thing as "some earlier element is `==`". -/
theorem uniqueGo_eq_firstOccGo (l seen earlier : List Value)
    (wl : ∀ x ∈ l, x.WF) (we : ∀ x ∈ earlier, x.WF)
    (sub : ∀ s ∈ seen, s ∈ earlier)
    (rep : ∀ p ∈ earlier, ∃ s ∈ seen, Value.cmp p s = .eq) :
    uniqueGo l seen = firstOccGo l earlier := by
  induction l generalizing seen earlier with
  | nil => rfl
  | cons v rest ih =>
    have wv := wl v (by simp)
    have wr : ∀ x ∈ rest, x.WF := fun x hx => wl x (by simp [hx])
    have ws : ∀ s ∈ seen, s.WF := fun s hs => we s (sub s hs)
    have cond : (seen.any (fun s => Value.cmp v s == .eq)) = (earlier.any (fun p => eqV v p)) := by
      rw [Bool.eq_iff_iff]
      simp only [List.any_eq_true, beq_iff_eq]
      constructor
      · rintro ⟨s, hs, hc⟩
        exact ⟨s, sub s hs, (cmp_eq_iff_eqV v s wv (ws s hs)).1 hc⟩
      · rintro ⟨p, hp, he⟩
        obtain ⟨s, hs, hc⟩ := rep p hp
        exact ⟨s, hs, cmp_laws.eq_trans wv (we p hp) (ws s hs)
          ((cmp_eq_iff_eqV v p wv (we p hp)).2 he) hc⟩
    simp only [uniqueGo, firstOccGo, cond]
    have we' : ∀ x ∈ v :: earlier, x.WF := by
      intro x hx; rcases List.mem_cons.1 hx with rfl | hx
      · exact wv
      · exact we x hx
    cases hc : earlier.any (fun p => eqV v p) with
    | true =>
      simp only [if_true]
      apply ih seen (v :: earlier) wr we' (fun s hs => by simp [sub s hs])
      intro p hp
      rcases List.mem_cons.1 hp with rfl | hp
      · rw [← cond] at hc
        simp only [List.any_eq_true, beq_iff_eq] at hc
        exact hc
      · exact rep p hp
    | false =>
      simp only [Bool.false_eq_true, if_false, List.cons.injEq, true_and]
      apply ih (v :: seen) (v :: earlier) wr we'
      · intro s hs
        rcases List.mem_cons.1 hs with rfl | hs
        · simp
        · simp [sub s hs]
      · intro p hp
        rcases List.mem_cons.1 hp with rfl | hp
        · exact ⟨p, by simp, cmp_laws.refl wv⟩
        · obtain ⟨s, hs, hc'⟩ := rep p hp; exact ⟨s, by simp [hs], hc'⟩

theorem unique_eq_firstOcc (val : List Value) (w : ∀ x ∈ val, x.WF) : unique val = firstOcc val :=
  uniqueGo_eq_firstOccGo val [] [] w (by simp) (by simp) (by simp)

theorem firstOccGo_sublist (l e : List Value) : (firstOccGo l e).Sublist l := by
  induction l generalizing e with
  | nil => exact List.Sublist.slnil
  | cons v rest ih =>
    simp only [firstOccGo]; split
    · exact (ih _).cons v
    · exact (ih _).cons_cons v

/-- every element is `==` to a kept element or to an earlier one -/
theorem firstOccGo_covers (l e : List Value) (wl : ∀ x ∈ l, x.WF) (we : ∀ x ∈ e, x.WF) :
    ∀ x ∈ l, (∃ y ∈ firstOccGo l e, eqV x y = true) ∨ (∃ p ∈ e, eqV x p = true) := by
  induction l generalizing e with
  | nil => intro x hx; cases hx
  | cons v rest ih =>
    have wv := wl v (by simp)
    have wr : ∀ x ∈ rest, x.WF := fun x hx => wl x (by simp [hx])
    have we' : ∀ x ∈ v :: e, x.WF := by
      intro x hx; rcases List.mem_cons.1 hx with rfl | hx
      · exact wv
      · exact we x hx
    intro x hx
    simp only [firstOccGo]
    cases hc : e.any (fun p => eqV v p) with
    | true =>
      simp only [if_true]
      simp only [List.any_eq_true] at hc
      obtain ⟨p', hp', hvp⟩ := hc
      rcases List.mem_cons.1 hx with rfl | hx'
      · exact Or.inr ⟨p', hp', hvp⟩
      · have wx := wr x hx'
        rcases ih (v :: e) wr we' x hx' with h | ⟨p, hp, hxp⟩
        · exact Or.inl h
        · rcases List.mem_cons.1 hp with hpv | hp
          · subst hpv
            exact Or.inr ⟨p', hp', eqV_trans wx wv (we p' hp') hxp hvp⟩
          · exact Or.inr ⟨p, hp, hxp⟩
    | false =>
      simp only [Bool.false_eq_true, if_false]
      rcases List.mem_cons.1 hx with rfl | hx
      · exact Or.inl ⟨x, by simp, eqV_refl x wv⟩
      · rcases ih (v :: e) wr we' x hx with ⟨y, hy, hxy⟩ | ⟨p, hp, hxp⟩
        · exact Or.inl ⟨y, by simp [hy], hxy⟩
        · rcases List.mem_cons.1 hp with rfl | hp
          · exact Or.inl ⟨p, by simp, hxp⟩
          · exact Or.inr ⟨p, hp, hxp⟩

/-- kept elements are not `==` to anything earlier -/
theorem firstOccGo_fresh (l e : List Value) : ∀ y ∈ firstOccGo l e, ∀ p ∈ e, eqV y p = false := by
  induction l generalizing e with
  | nil => intro y hy; cases hy
  | cons v rest ih =>
    intro y hy p hp
    simp only [firstOccGo] at hy
    cases hc : e.any (fun p => eqV v p) with
    | true =>
      simp only [hc, if_true] at hy
      exact ih (v :: e) y hy p (by simp [hp])
    | false =>
      simp only [hc, Bool.false_eq_true, if_false] at hy
      rcases List.mem_cons.1 hy with rfl | hy
      · have := List.any_eq_false.1 hc p hp
        simpa using this
      · exact ih (v :: e) y hy p (by simp [hp])

/-- no two kept elements are `==` (later vs earlier) -/
theorem firstOccGo_pairwise (l e : List Value) :
    (firstOccGo l e).Pairwise (fun a b => eqV b a = false) := by
  induction l generalizing e with
  | nil => exact List.Pairwise.nil
  | cons v rest ih =>
    simp only [firstOccGo]; split
    · exact ih _
    · rw [List.pairwise_cons]
      exact ⟨fun y hy => firstOccGo_fresh rest (v :: e) y hy v (by simp), ih _⟩

/-! ### group_by -/

/-- The key an element is grouped under: its attribute converted by `as_key`; `none` when the
attribute is none (the element is skipped). -/
def attrKey (H : List HashTok → Nat) (attr : List Char) (v : Value) : Option Key :=
  match getFromPath H v attr with
  | some .none => Option.none
  | some x => x.asKeyK
  | Option.none => Option.none

/-- does `v` belong to the group a probe key `q` selects? -/
def inGroup (H : List HashTok → Nat) (attr : List Char) (q : KeyRepr) (v : Value) : Bool :=
  match attrKey H attr v with
  | some k => KeyRepr.eq k.toRepr q
  | Option.none => false

theorem get_pushGroup (q : KeyRepr) (k : Key) (v : Value) (g : List (Key × List Value)) :
    Map.get q (pushGroup k v g) =
      if KeyRepr.eq k.toRepr q then some ((Map.get q g).getD [] ++ [v]) else Map.get q g := by
  induction g with
  | nil => simp [pushGroup, Map.get]
  | cons e rest ih =>
    obtain ⟨k', vs⟩ := e
    simp only [pushGroup]
    cases hkk : Key.eq k' k with
    | true =>
      simp only [if_true, Map.get]
      have hkk' : KeyRepr.eq k'.toRepr k.toRepr = true := hkk
      cases hq : KeyRepr.eq k.toRepr q with
      | true => simp [KeyRepr.eq_trans hkk' hq]
      | false =>
        have : KeyRepr.eq k'.toRepr q = false := by
          cases h : KeyRepr.eq k'.toRepr q with
          | false => rfl
          | true => rw [KeyRepr.eq_trans (KeyRepr.eq_symm hkk') h] at hq; exact absurd hq (by decide)
        simp [this]
    | false =>
      simp only [Bool.false_eq_true, if_false, Map.get, ih]
      have hkk' : KeyRepr.eq k'.toRepr k.toRepr = false := hkk
      cases hq : KeyRepr.eq k.toRepr q with
      | false => simp
      | true =>
        have : KeyRepr.eq k'.toRepr q = false := by
          cases h : KeyRepr.eq k'.toRepr q with
          | false => rfl
          | true => rw [KeyRepr.eq_trans h (KeyRepr.eq_symm hq)] at hkk'; exact absurd hkk' (by decide)
        simp [this]

theorem mem_pushGroup {k : Key} {v : Value} {g : List (Key × List Value)} {e : Key × List Value}
    (h : e ∈ pushGroup k v g) : (e.1 = k ∨ ∃ e' ∈ g, e'.1 = e.1) ∧ (e.2 ≠ [] ∨ e ∈ g) := by
  induction g with
  | nil => simp [pushGroup] at h; subst h; simp
  | cons x rest ih =>
    obtain ⟨k', vs⟩ := x
    simp only [pushGroup] at h
    split at h
    · rcases List.mem_cons.1 h with h | h
      · subst h; exact ⟨Or.inr ⟨(k', vs), by simp, rfl⟩, Or.inl (by simp)⟩
      · exact ⟨Or.inr ⟨e, by simp [h], rfl⟩, Or.inr (by simp [h])⟩
    · rcases List.mem_cons.1 h with h | h
      · subst h; exact ⟨Or.inr ⟨(k', vs), by simp, rfl⟩, Or.inr (by simp)⟩
      · obtain ⟨h1, h2⟩ := ih h
        refine ⟨?_, ?_⟩
        · rcases h1 with h1 | ⟨e', he', hk⟩
          · exact Or.inl h1
          · exact Or.inr ⟨e', by simp [he'], hk⟩
        · rcases h2 with h2 | h2
          · exact Or.inl h2
          · exact Or.inr (by simp [h2])

theorem pushGroup_noDup (k : Key) (v : Value) {g : List (Key × List Value)} (nd : NoDupKeys g) :
    NoDupKeys (pushGroup k v g) := by
  induction g with
  | nil => simp [pushGroup, NoDupKeys]
  | cons x rest ih =>
    obtain ⟨k', vs⟩ := x
    simp only [pushGroup]
    cases hkk : Key.eq k' k with
    | true => simp only [if_true]; exact ⟨nd.1, nd.2⟩
    | false =>
      simp only [Bool.false_eq_true, if_false]
      refine ⟨?_, ih nd.2⟩
      intro e he
      rcases (mem_pushGroup he).1 with h | ⟨e', he', hk⟩
      · rw [h]; exact hkk
      · rw [← hk]; exact nd.1 e' he'

/-- What a successful `group_by` returns: looking a key up gives exactly the elements whose
attribute converts to an `==` key, in input order (after whatever the group held before). -/
theorem groupGo_spec (H : List HashTok → Nat) (attr : List Char) (l : List Value)
    (g0 g : List (Key × List Value)) (h : groupGo H attr l g0 = .ok g) :
    (∀ q, (Map.get q g).getD [] = (Map.get q g0).getD [] ++ l.filter (inGroup H attr q)) ∧
    (NoDupKeys g0 → NoDupKeys g) ∧
    ((∀ e ∈ g0, e.2 ≠ []) → ∀ e ∈ g, e.2 ≠ []) ∧
    (∀ v ∈ l, ∃ x, getFromPath H v attr = some x ∧ (x = .none ∨ x.asKeyK.isSome = true)) := by
  induction l generalizing g0 with
  | nil =>
    simp only [groupGo, GroupRes.ok.injEq] at h; subst h
    exact ⟨fun q => by simp, id, id, fun v hv => by cases hv⟩
  | cons v rest ih =>
    simp only [groupGo] at h
    split at h
    · cases h
    · rename_i hg
      obtain ⟨h1, h2, h3, h4⟩ := ih g0 h
      refine ⟨?_, h2, h3, ?_⟩
      · intro q
        have : inGroup H attr q v = false := by simp [inGroup, attrKey, hg]
        rw [List.filter_cons]; simp [this, h1 q]
      · intro w hw
        rcases List.mem_cons.1 hw with rfl | hw
        · exact ⟨.none, hg, Or.inl rfl⟩
        · exact h4 w hw
    · rename_i x hne hg
      split at h
      · cases h
      · rename_i k hk
        obtain ⟨h1, h2, h3, h4⟩ := ih (pushGroup k v g0) h
        have ak : attrKey H attr v = some k := by
          simp only [attrKey, hg]
          cases x <;> first | exact absurd rfl (hne) | exact hk
        refine ⟨?_, fun nd => h2 (pushGroup_noDup k v nd), ?_, ?_⟩
        · intro q
          rw [h1 q, get_pushGroup, List.filter_cons]
          simp only [inGroup, ak]
          cases KeyRepr.eq k.toRepr q <;> simp
        · intro ne0
          apply h3
          intro e he
          rcases (mem_pushGroup he).2 with h | h
          · exact h
          · exact ne0 e h
        · intro w hw
          rcases List.mem_cons.1 hw with rfl | hw
          · exact ⟨x, hg, Or.inr (by simp [hk])⟩
          · exact h4 w hw

/-! ### split / join -/

theorem splitGo_ne_nil (pat s acc : List Char) (k : Nat) : splitGo pat s acc k ≠ [] := by
  induction s generalizing acc k with
  | nil => simp [splitGo]
  | cons c cs ih =>
    cases k with
    | succ k => simp only [splitGo]; exact ih acc k
    | zero => simp only [splitGo]; split <;> simp [ih]

theorem joinStrs_cons (sep a : List Char) (L : List (List Char)) (h : L ≠ []) :
    joinStrs sep (a :: L) = a ++ sep ++ joinStrs sep L := by
  cases L with
  | nil => exact absurd rfl h
  | cons b L' => simp [joinStrs]

/-- skipping the rest of a matched pattern -/
theorem splitGo_skip (pat u r acc : List Char) :
    splitGo pat (u ++ r) acc u.length = splitGo pat r acc 0 := by
  induction u with
  | nil => rfl
  | cons x u' ih => simp only [List.cons_append, List.length_cons, splitGo, ih]

theorem join_splitGo (pat : List Char) (hp : pat ≠ []) (n : Nat) :
    ∀ s acc : List Char, s.length ≤ n → joinStrs pat (splitGo pat s acc 0) = acc.reverse ++ s := by
  induction n with
  | zero =>
    intro s acc hs
    have : s = [] := List.eq_nil_of_length_eq_zero (by omega)
    subst this; simp [splitGo, joinStrs]
  | succ n ih =>
    intro s acc hs
    cases s with
    | nil => simp [splitGo, joinStrs]
    | cons c cs =>
      simp only [splitGo]
      cases hpre : pat.isPrefixOf (c :: cs) with
      | false =>
        simp only [Bool.false_eq_true, if_false]
        rw [ih cs (c :: acc) (by simp at hs; omega)]
        simp
      | true =>
        simp only [if_true]
        obtain ⟨t, ht⟩ := List.isPrefixOf_iff_prefix.1 hpre
        cases pat with
        | nil => exact absurd rfl hp
        | cons p0 pt =>
          simp only [List.cons_append, List.cons.injEq] at ht
          obtain ⟨rfl, rfl⟩ := ht
          simp only [List.length_cons, Nat.add_sub_cancel]
          rw [splitGo_skip, joinStrs_cons _ _ _ (splitGo_ne_nil _ _ _ _),
            ih t [] (by simp at hs; omega)]
          simp

/-- **split then join on the same non-empty separator gives the text back.** -/
theorem join_split (s pat : List Char) (hp : pat ≠ []) : joinStrs pat (splitStr s pat) = s := by
  unfold splitStr
  have : pat.isEmpty = false := by cases pat <;> simp_all
  simp only [this, Bool.false_eq_true, if_false]
  rw [join_splitGo pat hp s.length s [] (Nat.le_refl _)]
  simp

theorem joinStrs_nil_sep (L : List (List Char)) : joinStrs [] L = L.flatten := by
  induction L with
  | nil => rfl
  | cons a L ih =>
    cases L with
    | nil => simp [joinStrs]
    | cons b L' => simp only [joinStrs, List.append_nil, List.flatten_cons] at ih ⊢; rw [ih]

/-- the empty separator too -/
theorem join_split_empty (s : List Char) : joinStrs [] (splitStr s []) = s := by
  simp only [splitStr, List.isEmpty_nil, if_true, joinStrs_nil_sep]
  induction s with
  | nil => rfl
  | cons c cs ih => simp at ih ⊢; exact ih

theorem zipWith_map_map {α β γ δ : Type} (f : β → γ → δ) (g : α → β) (h : α → γ) (l : List α) :
    List.zipWith f (l.map g) (l.map h) = l.map (fun e => f (g e) (h e)) := by
  induction l with
  | nil => rfl
  | cons x xs ih => simp [ih]

end Coll
end Tera
