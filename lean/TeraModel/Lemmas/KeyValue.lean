/-
Values used as map keys: `Value::as_key` turns `==` on values into `==` on keys, so a probe value
finds an entry exactly when it is `==` to the value the key came from.
-/
import TeraModel.Lemmas.MapEq
set_option linter.unusedVariables false
namespace Tera
open Tera.Value Tera.C13

theorem beq_eq_iff_cmpInt (n m : Int) : ((cmpInt n m == Ordering.eq) = true) ↔ n = m := by
  rw [beq_iff_eq, cmpInt_eq']

/-- For two values that are valid keys, `==` on the values is `==` on their keys. -/
theorem Value.asKey_eq_iff {v v' : Value} {k k' : Key} (wv : v.WF) (wv' : v'.WF)
    (hk : v.asKeyK = some k) (hk' : v'.asKeyK = some k') :
    eqV v v' = true ↔ Key.eq k k' = true := by
  cases v <;> simp only [asKeyK, Option.some.injEq, reduceCtorEq] at hk <;> subst hk <;>
  cases v' <;> simp only [asKeyK, Option.some.injEq, reduceCtorEq] at hk' <;> subst hk' <;>
  first
    | (rw [eqV_num wv wv' rfl rfl]
       simp only [ev, intVal, EV.cmp, Nat.cast_one, mul_one, beq_eq_iff_cmpInt, Key.eq, Key.toRepr,
         KeyRepr.eq, KeyRepr.asStr, KeyRepr.asNumber, KeyNumber.eq_val, KeyNumber.val])
    | (simp [eqV, Key.eq, Key.toRepr, KeyRepr.eq, KeyRepr.asStr, KeyRepr.asNumber, numEq,
        isInteger])

end Tera
