/-
Helper lemmas for C09Vm, continued: `LoadPath` / `WritePath` kept as they are, the arms that call
`interpret` again (under `RecOK`, an assumption on the nested interpreter), and `step_kept`: one
turn of the VM on a kept instruction commutes with the renaming.
-/
import TeraModel.Lemmas.OptimizeSimVmArms2
set_option linter.unusedSectionVars false
set_option linter.unusedSimpArgs false
namespace Tera
namespace OptimizeSimVm
open Tera.Vm Tera.OptimizeVWF

/-- results of one `interpret` call, related: `Ok` with the renamed state, or both fail the same
way (error / panic / outside the model / out of fuel) -/
def RunRel (c c' : Chunk) (f : Nat → Nat) (P : Nat → Nat → Prop) : RunRes → RunRes → Prop
  | .done a, .done b => b = mapState f a ∧ GoodState c c' f P a
  | .err _, .err _ => True
  | .panic _, .panic _ => True
  | .unmodelled _, .unmodelled _ => True
  | .outOfFuel, .outOfFuel => True
  | _, _ => False

/-- the same for a nested call of which only the text it wrote is used -/
def OutRel : RunRes → RunRes → Prop
  | .done a, .done b => b.out = a.out
  | .err _, .err _ => True
  | .panic _, .panic _ => True
  | .unmodelled _, .unmodelled _ => True
  | .outOfFuel, .outOfFuel => True
  | _, _ => False

/-- What the simulation needs from the nested interpreters `rec` (original side) and `rec'`
(optimised side): started on a state and on its renaming they end related; and an included
template, whose fresh state is only chained to the includer for reads, writes the same text. -/
structure RecOK (rec rec' : VmCtx → Chunk → State → RunRes) (c c' : Chunk) (f : Nat → Nat)
    (P : Nat → Nat → Prop) : Prop where
  same : ∀ vm ch s, GoodState c c' f P s → RunRel c c' f P (rec vm ch s) (rec' vm ch (mapState f s))
  incl : ∀ vm ch s, GoodState c c' f P s →
    OutRel (rec vm ch (includeState s)) (rec' vm ch (includeState (mapState f s)))

/-! ### the same with a relation `E` between the errors of the two sides -/

def RunRelG (E : RErr → RErr → Prop) (π : PMap) (c c' : Chunk) (f : Nat → Nat) (P : Nat → Nat → Prop) :
    RunRes → RunRes → Prop
  | .done a, .done b => b = mapStateP f π a ∧ GoodState c c' f P a
  | .err e, .err e' => E e e'
  | .panic _, .panic _ => True
  | .unmodelled _, .unmodelled _ => True
  | .outOfFuel, .outOfFuel => True
  | _, _ => False

def OutRelG (E : RErr → RErr → Prop) : RunRes → RunRes → Prop
  | .done a, .done b => b.out = a.out
  | .err e, .err e' => E e e'
  | .panic _, .panic _ => True
  | .unmodelled _, .unmodelled _ => True
  | .outOfFuel, .outOfFuel => True
  | _, _ => False

structure RecOKG (E : RErr → RErr → Prop) (π : PMap) (rec rec' : VmCtx → Chunk → State → RunRes) (c c' : Chunk)
    (f : Nat → Nat) (P : Nat → Nat → Prop) : Prop where
  same : ∀ vm ch s, GoodState c c' f P s → RunRelG E π c c' f P (rec vm ch s) (rec' vm ch (mapStateP f π s))
  incl : ∀ vm ch s, GoodState c c' f P s →
    OutRelG E (rec vm ch (includeState s)) (rec' vm ch (includeState (mapStateP f π s)))

/-- the instructions that enter a block chunk with the caller's whole state -/
def isBlockCall : VInstr → Bool
  | .renderBlock _ => true
  | .callFunction n => decide (n = "super")
  | _ => false

/-- what `RenderBlock` / `super()` need of the nested interpreters (the `same` of `RecOKG`) -/
def BlockOK (E : RErr → RErr → Prop) (π : PMap) (rec rec' : VmCtx → Chunk → State → RunRes) (c c' : Chunk)
    (f : Nat → Nat) (P : Nat → Nat → Prop) : Prop :=
  ∀ vm ch s, GoodState c c' f P s → RunRelG E π c c' f P (rec vm ch s) (rec' vm ch (mapStateP f π s))

/-- what `Include` and a component call need of the nested interpreters: the callee starts on a
fresh state (chained to the includer for reads / holding the bound arguments) and only the text it
writes is used -/
structure FreshOK (E : RErr → RErr → Prop) (π : PMap) (rec rec' : VmCtx → Chunk → State → RunRes) (c c' : Chunk)
    (f : Nat → Nat) (P : Nat → Nat → Prop) : Prop where
  incl : ∀ vm ch s, GoodState c c' f P s →
    OutRelG E (rec vm ch (includeState s)) (rec' vm ch (includeState (mapStateP f π s)))
  comp : ∀ vm ch bound, OutRelG E (rec vm ch (componentState bound)) (rec' vm ch (componentState bound))

theorem RunRelG.out {E : RErr → RErr → Prop} {π : PMap} {c c' : Chunk} {f : Nat → Nat} {P : Nat → Nat → Prop}
    {a b : RunRes} (h : RunRelG E π c c' f P a b) : OutRelG E a b := by
  cases a <;> cases b <;> first | exact h.elim | exact True.intro | exact h | skip
  obtain ⟨rfl, _⟩ := h
  rfl

theorem RecOKG.fresh {E : RErr → RErr → Prop} {π : PMap} {rec rec' : VmCtx → Chunk → State → RunRes}
    {c c' : Chunk} {f : Nat → Nat} {P : Nat → Nat → Prop} (h : RecOKG E π rec rec' c c' f P) :
    FreshOK E π rec rec' c c' f P :=
  ⟨h.incl, fun vm ch bound => by
    have hg : GoodState c c' f P (componentState bound) :=
      ⟨by intro s hs; simp [componentState, State.fresh] at hs,
       by intro l hl; simp [componentState, State.fresh, Scope.forLoops] at hl⟩
    have := (h.same vm ch (componentState bound) hg).out
    have he : mapStateP f π (componentState bound) = componentState bound := rfl
    rw [he] at this
    exact this⟩

theorem RecOKG.blockOK {E : RErr → RErr → Prop} {π : PMap} {rec rec' : VmCtx → Chunk → State → RunRes}
    {c c' : Chunk} {f : Nat → Nat} {P : Nat → Nat → Prop} (h : RecOKG E π rec rec' c c' f P) :
    BlockOK E π rec rec' c c' f P := h.same

theorem RunRelG.weaken {E : RErr → RErr → Prop} {c c' : Chunk} {f : Nat → Nat} {P : Nat → Nat → Prop}
    {a b : RunRes} (h : RunRelG E idP c c' f P a b) : RunRel c c' f P a b := by
  cases a <;> cases b <;> first | exact h.elim | exact True.intro | skip
  obtain ⟨h1, h2⟩ := h
  exact ⟨by rw [h1, mapStateP_id], h2⟩

theorem RunRelG.of_true {c c' : Chunk} {f : Nat → Nat} {P : Nat → Nat → Prop}
    {a b : RunRes} (h : RunRel c c' f P a b) : RunRelG (fun _ _ => True) idP c c' f P a b := by
  cases a <;> cases b <;> first | exact h.elim | exact True.intro | skip
  obtain ⟨h1, h2⟩ := h
  exact ⟨by rw [h1, mapStateP_id], h2⟩

theorem RecOKG.of_true {rec rec' : VmCtx → Chunk → State → RunRes} {c c' : Chunk} {f : Nat → Nat}
    {P : Nat → Nat → Prop} (h : RecOK rec rec' c c' f P) : RecOKG (fun _ _ => True) idP rec rec' c c' f P :=
  ⟨fun vm ch s hs => by rw [mapStateP_id]; exact RunRelG.of_true (h.same vm ch s hs), fun vm ch s hs => by
    have := h.incl vm ch s hs
    rw [mapStateP_id]
    revert this
    cases rec vm ch (includeState s) <;> cases rec' vm ch (includeState (mapState f s)) <;>
      intro h <;> first | exact h | exact True.intro⟩

section paths
variable {E : RErr → RErr → Prop} {π : PMap} {c c' : Chunk} {f : Nat → Nat} {P : Nat → Nat → Prop}

theorem rel_errorAt (hR : Ren c c' f) (env : Env) (vm : VmCtx) {pc k j j' : Nat}
    (h : c'.hasSpanAt k j' = c.hasSpanAt pc j) (s s' : String) (e e' : RErr) (he : E e e') :
    StepRelG E π c c' f P (errorAt env vm c pc j s e) (errorAt env vm c' k j' s' e') := by
  simp only [errorAt, h]
  split
  · exact rel_raise hR env vm e e' he
  · exact rel_panic _ _

def WalkRel (E : RErr → RErr → Prop) (π : PMap) (c c' : Chunk) (f : Nat → Nat) (P : Nat → Nat → Prop) : Walk → Walk → Prop
  | .val v, .val v' => v' = v
  | .stop r, .stop r' => StepRelG E π c c' f P r r'
  | _, _ => False

theorem walkLoad_rel (hE : ∀ e, E e e) (hR : Ren c c' f) (env : Env) (vm : VmCtx) {pc k : Nat}
    (h : ∀ j, c'.hasSpanAt k j = c.hasSpanAt pc j) :
    ∀ (attrs : List String) (cur : Value) (j : Nat),
      WalkRel E π c c' f P (walkLoad env vm c pc cur j attrs) (walkLoad env vm c' k cur j attrs)
  | [], cur, j => by simp only [walkLoad]; exact rfl
  | a :: rest, cur, j => by
    simp only [walkLoad]
    split
    · exact rel_errorAt hR env vm (h _) _ _ _ _ (hE _)
    · split
      · exact walkLoad_rel hE hR env vm h rest _ _
      · split
        · exact rel_errorAt hR env vm (h _) _ _ _ _ (hE _)
        · exact rfl

theorem walkWrite_rel (hE : ∀ e, E e e) (hR : Ren c c' f) (env : Env) (vm : VmCtx) {pc k : Nat}
    (h : ∀ j, c'.hasSpanAt k j = c.hasSpanAt pc j) :
    ∀ (attrs : List String) (cur : Value) (j : Nat),
      WalkRel E π c c' f P (walkWrite env vm c pc cur j attrs) (walkWrite env vm c' k cur j attrs)
  | [], cur, j => by simp only [walkWrite]; exact rfl
  | a :: rest, cur, j => by
    simp only [walkWrite]
    split
    · exact walkWrite_rel hE hR env vm h rest _ _
    · exact rel_errorAt hR env vm (h _) _ _ _ _ (hE _)

theorem walk_cases {w w' : Walk} (h : WalkRel E π c c' f P w w') :
    (∃ v, w = .val v ∧ w' = .val v) ∨ (∃ r r', w = .stop r ∧ w' = .stop r' ∧ StepRelG E π c c' f P r r') := by
  cases w with
  | val v =>
    cases w' with
    | val v' => have e : v' = v := h; subst e; exact Or.inl ⟨_, rfl, rfl⟩
    | stop r' => exact h.elim
  | stop r =>
    cases w' with
    | val v' => exact h.elim
    | stop r' => exact Or.inr ⟨r, r', rfl, rfl, h⟩

end paths

section arms
variable {E : RErr → RErr → Prop} {π : PMap} (hE : ∀ e, E e e)
  {c c' : Chunk} {f : Nat → Nat} {P : Nat → Nat → Prop} (hR : Ren c c' f)
  {pc k : Nat} (hpc : Good c c' f pc) (hk : f pc = k) (hnext : P (pc + 1) (k + 1))
  (env : Env) (vm : VmCtx) {st : State} (hst : GoodState c c' f P st)
include hE hR hpc hk hnext hst

theorem arm_loadPath (h : ∀ j, c'.hasSpanAt k j = c.hasSpanAt pc j) (path : List String) :
    StepRelG E π c c' f P (stepLoadPath env vm c path pc st) (stepLoadPath env vm c' path k (mapStateP f π st)) := by
  unfold stepLoadPath
  cases path with
  | nil => exact rel_panic _ _
  | cons n attrs =>
    simp only [mapState_scope, mapScope_lookupName, mapScope_getValue]
    generalize (if attrs = [] then lookupName st.scope n else st.scope.getValue n) = root
    split
    · split
      · exact rel_errorAt hR env vm (h _) _ _ _ _ (hE _)
      · rcases walk_cases (walkLoad_rel (P := P) (π := π) hE hR env vm h attrs root 0) with
          ⟨v, h1, h2⟩ | ⟨r, r', h1, h2, h3⟩
        · rw [h1, h2]; exact arm_push hE hR hpc hk hnext hst _
        · rw [h1, h2]; exact h3
    · exact arm_push hE hR hpc hk hnext hst _

theorem arm_writePath (h : ∀ j, c'.hasSpanAt k j = c.hasSpanAt pc j) (path : List String) :
    StepRelG E π c c' f P (stepWritePath env vm c path pc st) (stepWritePath env vm c' path k (mapStateP f π st)) := by
  unfold stepWritePath
  cases path with
  | nil => exact rel_panic _ _
  | cons n attrs =>
    simp only [mapState_scope, mapScope_lookupName, mapScope_getValue]
    generalize (if attrs = [] then lookupName st.scope n else st.scope.getValue n) = root
    split
    · exact rel_errorAt hR env vm (h _) _ _ _ _ (hE _)
    · rcases walk_cases (walkWrite_rel (P := P) (π := π) hE hR env vm h attrs root 0) with
        ⟨v, h1, h2⟩ | ⟨r, r', h1, h2, h3⟩
      · rw [h1, h2]
        simp only
        split
        · exact rel_errorAt hR env vm (h _) _ _ _ _ (hE _)
        · refine ⟨hnext, mapState_emit f π env vm v st, ?_⟩
          unfold emitValue State.write
          cases st.captures <;> exact hst
      · rw [h1, h2]; exact h3

/-! ### arms that call `interpret` again -/

variable {rec rec' : VmCtx → Chunk → State → RunRes} (hrec : FreshOK E π rec rec' c c' f P)
include hrec

theorem arm_include (name : String) :
    StepRelG E π c c' f P (stepInclude rec env vm name pc st) (stepInclude rec' env vm name k (mapStateP f π st)) := by
  unfold stepInclude
  split
  · exact rel_err _ _ (hE _)
  · rename_i tpl _
    have h := hrec.incl { vm with template := tpl } tpl.chunk st hst
    revert h
    cases rec { vm with template := tpl } tpl.chunk (includeState st) <;>
      cases rec' { vm with template := tpl } tpl.chunk (includeState (mapStateP f π st)) <;>
      intro h <;> first | exact h.elim | exact True.intro | exact h | skip
    rename_i a b
    have hout : b.out = a.out := h
    simp only [hout]
    exact arm_writeText hE hR hpc hk hnext hst _

theorem enterBlock_map (name : String) (lin : List Chunk) :
    enterBlock (mapStateP f π st) name lin = mapStateP f π (enterBlock st name lin) := by
  unfold enterBlock
  simp only [mapState_captureBlock]
  by_cases hcb : (st.captureBlock == some name) = true <;> simp [hcb, mapStateP]

theorem arm_renderBlock (hbl : BlockOK E π rec rec' c c' f P) (name : String) :
    StepRelG E π c c' f P (stepRenderBlock rec vm name pc st) (stepRenderBlock rec' vm name k (mapStateP f π st)) := by
  unfold stepRenderBlock
  split
  · exact rel_err _ _ (hE _)
  · exact rel_err _ _ (hE _)
  · rename_i first more _
    have hg : GoodState c c' f P (enterBlock st name (first :: more)) := by
      unfold enterBlock; split <;> exact hst
    have h := hbl vm first (enterBlock st name (first :: more)) hg
    rw [enterBlock_map hE hR hpc hk hnext hst hrec]
    revert h
    cases rec vm first (enterBlock st name (first :: more)) <;>
      cases rec' vm first (mapStateP f π (enterBlock st name (first :: more))) <;>
      intro h <;> first | exact h.elim | exact True.intro | exact h | skip
    rename_i a b
    obtain ⟨rfl, hga⟩ := h
    refine ⟨hnext, ?_, ?_⟩
    · unfold leaveBlock
      simp only [mapState_captureBlock]
      by_cases hcb : (st.captureBlock == some name) = true <;> simp [hcb, mapStateP]
    · unfold leaveBlock
      split <;> exact hga


theorem arm_super (hbl : BlockOK E π rec rec' c c' f P) :
    StepRelG E π c c' f P (stepSuper rec env vm c pc st) (stepSuper rec' env vm c' k (mapStateP f π st)) := by
  unfold stepSuper
  simp only [mapState_currentBlockName, mapState_blocks]
  split
  · simpa [mapSpan, hk] using
      rel_renderingError (P := P) hE hR env vm Value.undef (pc, pc) .superOutsideBlock (goodSlot_own hpc _)
  · split
    · exact rel_panic _ _
    · split
      · exact rel_panic _ _
      · split
        · simpa [mapSpan, hk] using
            rel_renderingError (P := P) hE hR env vm Value.undef (pc, pc) .superTopLevel (goodSlot_own hpc _)
        · split
          · exact rel_panic _ _
          · rename_i blockChunk _ _ blocks1 _
            have hg : GoodState c c' f P (enterSuper st blocks1) := hst
            have h := hbl vm blockChunk (enterSuper st blocks1) hg
            have he : enterSuper (mapStateP f π st) blocks1 = mapStateP f π (enterSuper st blocks1) := rfl
            rw [he]
            revert h
            cases rec vm blockChunk (enterSuper st blocks1) <;>
              cases rec' vm blockChunk (mapStateP f π (enterSuper st blocks1)) <;>
              intro h <;> first | exact h.elim | exact True.intro | exact h | skip
            rename_i a b
            obtain ⟨rfl, hga⟩ := h
            simp only [mapState_blocks]
            split
            · exact rel_panic _ _
            · refine ⟨hnext, ?_, ?_, hga.2⟩
              · simp [leaveSuper, mapStateP, mapSlot, mapSpan, hk]
              · exact goodStack_cons (goodSlot_own hpc _) hga.1

theorem arm_callFunction (name : String) (hbl : name = "super" → BlockOK E π rec rec' c c' f P) :
    StepRelG E π c c' f P (stepCallFunction rec env vm c name pc st)
      (stepCallFunction rec' env vm c' name k (mapStateP f π st)) := by
  unfold stepCallFunction
  simp only [mapState_stack]
  cases hs : st.stack with
  | nil => exact rel_panic _ _
  | cons s1 rest =>
    obtain ⟨kw, kwSpan⟩ := s1
    have hgs : GoodStack c c' f ((kw, kwSpan) :: rest) := hs ▸ hst.1
    have hr := goodStack_tail hgs
    simp only [List.map_cons, mapSlot]
    split
    · have hst' : GoodState c c' f P { st with stack := rest } := ⟨hr, hst.2⟩
      rename_i hsup
      exact arm_super hE hR hpc hk hnext env vm hst' hrec (hbl hsup)
    · split
      · exact rel_panic _ _
      · split
        · split
          · rename_i v _
            refine ⟨hnext, ?_, goodStack_cons (goodSlot_own hpc _) hr, hst.2⟩
            simp [mapStateP, mapSlot, mapSpan, hk]
          · simpa [mapSpan, hk] using
              rel_renderingError (P := P) hE hR env vm Value.undef (pc, pc) .call (goodSlot_own hpc _)
          · simpa [mapSpan, hk] using
              rel_renderingError (P := P) hE hR env vm Value.undef (pc, pc) .call (goodSlot_own hpc _)
          · exact rel_panic _ _
          · exact rel_unmodelled _ _
        · exact rel_panic _ _

theorem popBody_map (hasBody : Bool) (rest : List Slot) :
    popBody hasBody (rest.map (mapSlot f)) =
      (popBody hasBody rest).map fun x => (x.1, x.2.map (mapSlot f)) := by
  unfold popBody
  cases hasBody
  · simp
  · cases rest with
    | nil => simp
    | cons s r => obtain ⟨b, sp⟩ := s; simp [mapSlot]

theorem arm_component (name : String) (hasBody : Bool) :
    StepRelG E π c c' f P (stepComponent rec env vm c name hasBody pc st)
      (stepComponent rec' env vm c' name hasBody k (mapStateP f π st)) := by
  unfold stepComponent
  simp only [mapState_stack]
  cases hs : st.stack with
  | nil => exact rel_panic _ _
  | cons s1 rest =>
    obtain ⟨kw, kwSpan⟩ := s1
    have hgs : GoodStack c c' f ((kw, kwSpan) :: rest) := hs ▸ hst.1
    have hr := goodStack_tail hgs
    simp only [List.map_cons, mapSlot]
    split
    · split
      · exact rel_panic _ _
      · rename_i cdef cchunk _
        rw [popBody_map hE hR hpc hk hnext hst hrec]
        cases hpb : popBody hasBody rest with
        | none => exact rel_panic _ _
        | some x =>
          obtain ⟨body, rest'⟩ := x
          have hr' : GoodStack c c' f rest' := by
            unfold popBody at hpb
            cases hasBody
            · simp at hpb; rw [← hpb.2]; exact hr
            · cases rest with
              | nil => simp at hpb
              | cons s r => simp at hpb; rw [← hpb.2]; exact goodStack_tail hr
          simp only [Option.map_some]
          split
          · simpa [mapSpan, hk] using
              rel_renderingError (P := P) hE hR env vm Value.undef (pc, pc) .componentBinding (goodSlot_own hpc _)
          · rename_i bound _
            split
            · exact rel_err _ _ (hE _)
            · have h := hrec.comp { vm with depth := vm.depth + 1 } cchunk bound
              revert h
              cases rec { vm with depth := vm.depth + 1 } cchunk (componentState bound) <;>
                cases rec' { vm with depth := vm.depth + 1 } cchunk (componentState bound) <;>
                intro h <;> first | exact h.elim | exact True.intro | exact h | skip
              rename_i a b
              have hout : b.out = a.out := h
              refine ⟨hnext, ?_, goodStack_cons (goodSlot_own hpc _) hr', hst.2⟩
              simp [mapStateP, mapSlot, mapSpan, hk, hout]
    · exact rel_panic _ _

end arms


/-- One turn of the VM on an instruction the optimiser keeps (its jump target renamed), at the
renamed index on the renamed state. -/
theorem step_keptG {E : RErr → RErr → Prop} {π : PMap} (hE : ∀ e, E e e)
    {c c' : Chunk} {f : Nat → Nat} {P : Nat → Nat → Prop} (hR : Ren c c' f)
    {rec rec' : VmCtx → Chunk → State → RunRes} (hrec : FreshOK E π rec rec' c c' f P)
    (hf0 : f 0 = 0) (hP0 : P 0 0) {pc k : Nat} (hpc : Good c c' f pc) (hk : f pc = k)
    (hnext : P (pc + 1) (k + 1)) (hsp : ∀ j, c'.hasSpanAt k j = c.hasSpanAt pc j)
    (env : Env) (vm : VmCtx) {st : State} (hst : GoodState c c' f P st) (e : VEntry)
    (ht : ∀ t, vtarget e.1 = some t → P t (f t) ∧ (t = 0 ↔ f t = 0))
    (hbl : isBlockCall e.1 = true → BlockOK E π rec rec' c c' f P) :
    StepRelG E π c c' f P (step rec env vm c e pc st)
      (step rec' env vm c' (vmapTarget f e.1, e.2) k (mapStateP f π st)) := by
  obtain ⟨i, sp⟩ := e
  cases i <;> simp only [step, vmapTarget]
  case loadConst v => exact arm_push hE hR hpc hk hnext hst v
  case loadName n =>
    simp only [mapState_scope, mapScope_lookupName]
    exact arm_push hE hR hpc hk hnext hst _
  case loadAttr a o => exact arm_loadAttr hE hR hpc hk hnext env vm hst a o
  case binarySubscript o => exact arm_subscript hE hR hpc hk hnext env vm hst o
  case slice o => exact arm_slice hE hR hpc hk hnext env vm hst o
  case writeText t => exact arm_writeText hE hR hpc hk hnext hst t
  case writeTop => exact arm_writeTop hE hR hpc hk hnext env vm hst
  case set n g => exact arm_set hE hR hpc hk hnext hst n g
  case include_ n => exact arm_include hE hR hpc hk hnext env vm hst hrec n
  case buildMap n => exact arm_buildMap hE hR hpc hk hnext hst n
  case buildList n => exact arm_buildList hE hR hpc hk hnext hst n
  case buildMapWithSpreads fl => exact arm_buildMapWithSpreads hE hR hpc hk hnext env vm hst fl
  case buildListWithSpreads fl => exact arm_buildListWithSpreads hE hR hpc hk hnext env vm hst fl
  case callFunction n => exact arm_callFunction hE hR hpc hk hnext env vm hst hrec n (fun h => hbl (by simp [isBlockCall, h]))
  case renderComponent n b => exact arm_component hE hR hpc hk hnext env vm hst hrec n b
  case applyFilter n => exact arm_filterOrTest hE hR hpc hk hnext env vm hst false n
  case runTest n => exact arm_filterOrTest hE hR hpc hk hnext env vm hst true n
  case renderBlock n => exact arm_renderBlock hE hR hpc hk hnext vm hst hrec (hbl rfl) n
  case jump t => exact arm_jump hE hR hpc hk hnext hst t (ht t rfl).1
  case popJumpIfFalse t => exact arm_popJumpIfFalse hE hR hpc hk hnext hst t (ht t rfl).1
  case jumpIfFalseOrPop t => exact arm_jumpOrPop hE hR hpc hk hnext hst false t (ht t rfl).1
  case jumpIfTrueOrPop t => exact arm_jumpOrPop hE hR hpc hk hnext hst true t (ht t rfl).1
  case capture => exact arm_capture hE hR hpc hk hnext hst
  case endCapture => exact arm_endCapture hE hR hpc hk hnext hst
  case startIterate kv cm => exact arm_startIterate hE hR hpc hk hnext env vm hst hf0 hP0 kv cm
  case iterate t => exact arm_iterate hE hR hpc hk hnext hst t (ht t rfl).1 (ht t rfl).2
  case storeLocal n => exact arm_storeLocal hE hR hpc hk hnext hst n
  case storeDidNotIterate => exact arm_storeDidNotIterate hE hR hpc hk hnext hst
  case break_ => exact arm_break hE hR hpc hk hnext hst
  case popLoop => exact arm_popLoop hE hR hpc hk hnext hst
  case appendToList => exact arm_appendToList hE hR hpc hk hnext hst
  case math op => exact arm_math hE hR hpc hk hnext env vm hst op
  case plus => exact arm_plus hE hR hpc hk hnext env vm hst
  case cmp op => exact arm_cmp hE hR hpc hk hnext env vm hst op
  case equal ng => exact arm_equal hE hR hpc hk hnext hst ng
  case strConcat => exact arm_strConcat hE hR hpc hk hnext env hst
  case in_ => exact arm_in hE hR hpc hk hnext env vm hst
  case not_ => exact arm_not hE hR hpc hk hnext hst
  case negative => exact arm_negative hE hR hpc hk hnext env vm hst
  case loadPath p => exact arm_loadPath hE hR hpc hk hnext env vm hst hsp p
  case writePath p => exact arm_writePath hE hR hpc hk hnext env vm hst hsp p

/-- the form without an error relation -/
theorem step_kept {c c' : Chunk} {f : Nat → Nat} {P : Nat → Nat → Prop} (hR : Ren c c' f)
    {rec rec' : VmCtx → Chunk → State → RunRes} (hrec : RecOK rec rec' c c' f P)
    (hf0 : f 0 = 0) (hP0 : P 0 0) {pc k : Nat} (hpc : Good c c' f pc) (hk : f pc = k)
    (hnext : P (pc + 1) (k + 1)) (hsp : ∀ j, c'.hasSpanAt k j = c.hasSpanAt pc j)
    (env : Env) (vm : VmCtx) {st : State} (hst : GoodState c c' f P st) (e : VEntry)
    (ht : ∀ t, vtarget e.1 = some t → P t (f t) ∧ (t = 0 ↔ f t = 0)) :
    StepRel c c' f P (step rec env vm c e pc st)
      (step rec' env vm c' (vmapTarget f e.1, e.2) k (mapState f st)) := by
  have h := (step_keptG (E := fun _ _ => True) (π := idP) (fun _ => True.intro) hR
    (RecOKG.of_true hrec).fresh hf0 hP0 hpc hk hnext hsp env vm hst e ht
    (fun _ => (RecOKG.of_true hrec).blockOK)).weaken
  rw [mapStateP_id] at h
  exact h

end OptimizeSimVm
end Tera
