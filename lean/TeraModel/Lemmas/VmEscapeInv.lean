/-
C01 on the value-level VM, part 3: `StateOk P K` is preserved by every turn of the interpreter loop
of Model/Vm.lean — one lemma per instruction arm (E2: where Safe strings can come from) — when
autoescape is on, no built-in is registered safe, and the literal text / constants of the chunks are
`P`-clean.

`bodyGuard` flags the single turn at which a LISTING (not the compiler, which always emits
`Capture … EndCapture` for a component body) could declare arbitrary data safe: a
`RenderBodyComponent` whose body operand is a Normal string (`body.mark_safe()`).
-/
import TeraModel.Lemmas.VmEscapeScope
namespace Tera.Vm
open Tera

/-! ### what is assumed of the chunks, the environment and the VM -/

/-- What is known of the listings: `body` holds wherever a `RenderBodyComponent` occurs (`True` =
nothing is known, the guard is needed; `False` = there is none); `filter` / `function` hold of the
names `ApplyFilter` / `CallFunction` are used with (the `safe` filter is always REGISTERED — the
hypothesis of C01 is that no template USES it). -/
structure Policy where
  body : Prop
  filter : String → Prop
  function : String → Prop
  /-- anything else that is known of every chunk that runs (e.g. that it passed a checker) -/
  chunk : Chunk → Prop

/-- literal text, constants and the names a chunk uses -/
def ChunkClean (P : Char → Prop) (K : Policy) (c : Chunk) : Prop :=
  K.chunk c ∧ ∀ e ∈ c.code, (∀ t, e.1 = .writeText t → AllP P t) ∧ (∀ v, e.1 = .loadConst v → safeOk P v) ∧
    (∀ n, e.1 = .renderComponent n true → K.body) ∧
    (∀ n, e.1 = .applyFilter n → K.filter n) ∧
    (∀ n, e.1 = .callFunction n → n ≠ "super" → K.function n)

/-- default values of a component's parameters -/
def DefClean (P : Char → Prop) (d : Component.Def) : Prop :=
  ∀ p ∈ d.params, ∀ v, p.dflt = some v → safeOk P v

def CompsClean (P : Char → Prop) (K : Policy) (l : List (String × (Component.Def × Chunk))) : Prop :=
  ∀ x ∈ l, DefClean P x.2.1 ∧ ChunkClean P K x.2.2

structure TplClean (P : Char → Prop) (K : Policy) (tpl : TemplateInfo) : Prop where
  chunk : ChunkClean P K tpl.chunk
  lineage : ∀ x ∈ tpl.blockLineage, ∀ ch ∈ x.2, ChunkClean P K ch
  comps : CompsClean P K tpl.components

/-- value scalars: the kinds `Value::is_safe` answers `true` for without any mark -/
def isScalar : Value → Bool
  | .str .. | .arr _ | .map _ | .bytes _ => false
  | _ => true

/-- `P` contains what the escaper writes and what scalars print as. -/
structure Admissible (P : Char → Prop) (fmtF64 : F64 → List Char) : Prop where
  esc : ∀ s, AllP P (escapeHtml s)
  scalar : ∀ v, isScalar v = true → AllP P (v.format fmtF64)

structure EnvClean (P : Char → Prop) (K : Policy) (env : Env) : Prop where
  adm : Admissible P env.fmtF64
  /-- every template is clean and autoescaped -/
  tpls : ∀ x ∈ env.templates, TplClean P K x.2 ∧ x.2.autoescape = true
  comps : CompsClean P K env.components
  /-- no filter / function the listings use is registered `is_safe` -/
  noSafeFilter : ∀ n, K.filter n → env.filterIsSafe n = false
  noSafeFunction : ∀ n, K.function n → env.functionIsSafe n = false
  /-- the built-ins the listings use mint no Safe string: whatever is Safe in a result is `P`-clean
  when the inputs are -/
  filters : ∀ n v kw r, K.filter n → env.callFilter n v kw = .ok r → safeOk P v →
    (∀ x ∈ kw, safeOk P x.2) → safeOk P r
  tests : ∀ n v kw r, env.callTest n v kw = .ok r → safeOk P v → (∀ x ∈ kw, safeOk P x.2) → safeOk P r
  functions : ∀ n kw r, K.function n → env.callFunction n kw = .ok r → (∀ x ∈ kw, safeOk P x.2) →
    safeOk P r

/-- the VM that interprets: autoescape in force, its template clean -/
structure VmOk (P : Char → Prop) (K : Policy) (vm : VmCtx) : Prop where
  on : vm.autoescape = true
  tpl : TplClean P K vm.template

def StackOk (P : Char → Prop) (stk : List Slot) : Prop := ∀ s ∈ stk, safeOk P s.1

/-- The invariant. -/
structure StateOk (P : Char → Prop) (K : Policy) (st : State) : Prop where
  stack : StackOk P st.stack
  scope : scopeOk P st.scope
  caps : ∀ b ∈ st.captures, AllP P b
  out : AllP P st.out
  bbuf : AllP P st.blockBuffer
  blocks : ∀ e ∈ st.blocks, ∀ ch ∈ e.2.1, ChunkClean P K ch

/-- a `RenderBodyComponent` is about to mark a Normal string safe -/
def bodyGuard : Guard := fun i st =>
  match i with
  | .renderComponent _ true =>
    match st.stack with
    | _ :: (b, _) :: _ => isNormalStr b
    | _ => false
  | _ => false

/-- nested `interpret` calls keep the invariant -/
def RecOk (P : Char → Prop) (K : Policy) (rec : VmCtx → Chunk → State → RunRes) : Prop :=
  ∀ vm c st st', VmOk P K vm → ChunkClean P K c → StateOk P K st → rec vm c st = .done st' → StateOk P K st'

variable {P : Char → Prop} {K : Policy} {rec : VmCtx → Chunk → State → RunRes} {env : Env} {vm : VmCtx} {c : Chunk}
  {pc pc' : Nat} {st st' : State}

/-! ### small facts -/

theorem assoc_mem {α : Type} {k : String} {l : List (String × α)} {v : α} (h : assoc k l = some v) :
    (k, v) ∈ l := by
  induction l with
  | nil => simp [assoc] at h
  | cons kv l ih =>
    obtain ⟨k', v'⟩ := kv
    simp only [assoc] at h
    split at h
    · rename_i hk; simp only [Option.some.injEq] at h; subst h; subst hk; simp
    · simp [ih h]

@[simp] theorem stackOk_nil : StackOk P [] := fun _ h => nomatch h

@[simp] theorem stackOk_cons (v : Value) (r : SpanRange) (rest : List Slot) :
    StackOk P ((v, r) :: rest) ↔ safeOk P v ∧ StackOk P rest := by
  simp [StackOk]

theorem StateOk.withStack (h : StateOk P K st) {stk : List Slot} (hs : StackOk P stk) :
    StateOk P K { st with stack := stk } :=
  ⟨hs, h.scope, h.caps, h.out, h.bbuf, h.blocks⟩

theorem StateOk.withScope (h : StateOk P K st) {sc : Scope} (hs : scopeOk P sc) :
    StateOk P K { st with scope := sc } :=
  ⟨h.stack, hs, h.caps, h.out, h.bbuf, h.blocks⟩

theorem StateOk.push (h : StateOk P K st) {v : Value} (r : SpanRange) (hv : safeOk P v) :
    StateOk P K (st.push v r) :=
  h.withStack ((stackOk_cons ..).2 ⟨hv, h.stack⟩)

theorem StateOk.write (h : StateOk P K st) {t : List Char} (ht : AllP P t) : StateOk P K (st.write t) := by
  unfold State.write
  split
  · exact ⟨h.stack, h.scope, h.caps, h.out.append ht, h.bbuf, h.blocks⟩
  · rename_i b bs hc
    refine ⟨h.stack, h.scope, ?_, h.out, h.bbuf, h.blocks⟩
    intro x hx
    have hcaps := h.caps
    rw [hc] at hcaps
    rcases List.mem_cons.1 hx with rfl | hx
    · exact (hcaps b (by simp)).append ht
    · exact hcaps x (by simp [hx])

theorem StateOk.fresh {sc : Scope} (h : scopeOk P sc) : StateOk P K (State.fresh sc) :=
  ⟨stackOk_nil, h, fun _ hb => (nomatch hb), AllP.nil, AllP.nil, fun _ he => (nomatch he)⟩

/-! ### the sinks (E1 / E5, as facts about `emitValue`) -/

theorem isSafe_cases {v : Value} (h : v.isSafe = true) : (∃ s, v = .str true s) ∨ isScalar v = true := by
  cases v <;> simp [Value.isSafe, isScalar] at h ⊢
  rename_i safe s; subst h; simp

/-- what a sink appends, autoescape on: a Safe string as is, a scalar as is, anything else escaped -/
theorem emitValue_on (hon : vm.autoescape = true) (v : Value) (st : State) :
    emitValue env vm v st = st.write (if v.isSafe then v.format env.fmtF64 else escapeHtml (v.format env.fmtF64)) := by
  unfold emitValue
  simp [hon]

theorem emitValue_ok (hE : Admissible P env.fmtF64) (hon : vm.autoescape = true) {v : Value}
    (hv : safeOk P v) (hst : StateOk P K st) : StateOk P K (emitValue env vm v st) := by
  rw [emitValue_on hon]
  apply hst.write
  split
  · rename_i hs
    rcases isSafe_cases hs with ⟨s, rfl⟩ | hsc
    · simpa [Value.format] using hv
    · exact hE.scalar v hsc
  · exact hE.esc _

/-! ### straight-line arms

`arm_setup h hst`: split the arm, drop the branches that do not continue, and leave, for each
branch that does, the goal `StackOk P <new stack>` with `hs : StackOk P <old stack, destructured>`. -/

macro "arm_setup" h:ident hst:ident hs:ident : tactic => `(tactic| (
  repeat' split at $h:ident
  all_goals first
    | (exfalso; simp at $h:ident; done)
    | skip
  all_goals (
    simp only [StepRes.next.injEq] at $h:ident
    rcases $h:ident with ⟨_, h2⟩
    subst h2
    refine StateOk.withStack $hst:ident ?_
    have $hs:ident := StateOk.stack $hst:ident
    simp only [‹State.stack _ = _›, stackOk_cons] at $hs:ident
    simp only [stackOk_cons])))

theorem ok_loadAttr (attr : String) (opt : Bool) (hst : StateOk P K st)
    (h : stepLoadAttr env vm c attr opt pc st = .next pc' st') : StateOk P K st' := by
  unfold stepLoadAttr at h
  arm_setup h hst hs
  · exact ⟨by simp, hs.2⟩
  · exact ⟨safeOk_getAttr _ hs.1, hs.2⟩

theorem ok_subscript (opt : Bool) (hst : StateOk P K st)
    (h : stepSubscript env vm c opt pc st = .next pc' st') : StateOk P K st' := by
  unfold stepSubscript at h
  arm_setup h hst hs
  · exact ⟨by simp, hs.2.2⟩
  · exact ⟨safeOk_getItem hs.2.1 ‹_›, hs.2.2⟩

theorem ok_slice (opt : Bool) (hst : StateOk P K st)
    (h : stepSlice env vm c opt pc st = .next pc' st') : StateOk P K st' := by
  unfold stepSlice at h
  arm_setup h hst hs
  · exact ⟨by simp, hs.2.2.2.2⟩
  · exact ⟨safeOk_slice _ _ _ hs.2.2.2.1 ‹_›, hs.2.2.2.2⟩

theorem ok_writeTop (hE : EnvClean P K env) (hvm : VmOk P K vm) (hst : StateOk P K st)
    (h : stepWriteTop env vm c pc st = .next pc' st') : StateOk P K st' := by
  unfold stepWriteTop at h
  split at h
  · simp at h
  · rename_i top topSpan rest hs0
    split at h
    · simp at h
    · simp only [StepRes.next.injEq] at h; rcases h with ⟨_, h2⟩; subst h2
      have hs := hst.stack
      rw [hs0] at hs; simp only [stackOk_cons] at hs
      exact emitValue_ok hE.adm hvm.on hs.1 (hst.withStack hs.2)

theorem ok_set (n : String) (g : Bool) (hst : StateOk P K st) (h : stepSet n g pc st = .next pc' st') :
    StateOk P K st' := by
  unfold stepSet at h
  split at h
  · simp at h
  · rename_i v vs rest hs0
    simp only [StepRes.next.injEq] at h; rcases h with ⟨_, h2⟩; subst h2
    have hs := hst.stack
    rw [hs0] at hs; simp only [stackOk_cons] at hs
    refine ⟨hs.2, ?_, hst.caps, hst.out, hst.bbuf, hst.blocks⟩
    simp only
    split
    · exact scopeOk_storeGlobal _ _ _ hst.scope hs.1
    · exact scopeOk_storeLocal _ _ _ hst.scope hs.1

theorem popPairs_ok : ∀ (n : Nat) (stk : List Slot) (acc elems : List (Key × Value)) (rest : List Slot),
    StackOk P stk → (∀ kv ∈ acc, safeOk P kv.2) → popPairs n stk acc = .ok elems rest →
    (∀ kv ∈ elems, safeOk P kv.2) ∧ StackOk P rest := by
  intro n
  induction n with
  | zero => intro stk acc elems rest hs ha h; simp only [popPairs, PopRes.ok.injEq] at h; obtain ⟨rfl, rfl⟩ := h; exact ⟨ha, hs⟩
  | succ n ih =>
    intro stk acc elems rest hs ha h
    match stk, hs with
    | [], _ => simp [popPairs] at h
    | [_], _ => simp [popPairs] at h
    | (v, _) :: (k, _) :: rest', hs =>
      simp only [popPairs] at h
      simp only [stackOk_cons] at hs
      split at h
      · cases h
      · rename_i key _
        refine ih _ _ _ _ hs.2.2 ?_ h
        intro kv hkv
        rcases List.mem_cons.1 hkv with rfl | hkv
        · exact hs.1
        · exact ha kv hkv

theorem foldl_mapInsert_ok (elems : List (Key × Value)) : ∀ (m : Entries), safeOk P (.map m) →
    (∀ kv ∈ elems, safeOk P kv.2) → safeOk P (.map (elems.foldl (fun m e => mapInsert m e.1 e.2) m)) := by
  induction elems with
  | nil => intro m hm _; exact hm
  | cons e es ih =>
    intro m hm he
    simp only [List.foldl_cons]
    exact ih _ (safeOk_mapInsert _ hm (he e (by simp))) (fun kv hkv => he kv (by simp [hkv]))

theorem ok_buildMap (n : Nat) (hst : StateOk P K st) (h : stepBuildMap n pc st = .next pc' st') :
    StateOk P K st' := by
  unfold stepBuildMap at h
  split at h
  · simp only [StepRes.next.injEq] at h; rcases h with ⟨_, h2⟩; subst h2
    exact hst.push _ (by simp)
  · split at h
    · simp at h
    · simp at h
    · rename_i elems rest hp
      simp only [StepRes.next.injEq] at h; rcases h with ⟨_, h2⟩; subst h2
      obtain ⟨he, hr⟩ := popPairs_ok n _ _ _ _ hst.stack (by intro _ hkv; cases hkv) hp
      exact hst.withStack ((stackOk_cons ..).2 ⟨foldl_mapInsert_ok elems [] (by simp) he, hr⟩)

theorem popN_ok : ∀ (n : Nat) (stk : List Slot) (acc elems : List Value) (rest : List Slot),
    StackOk P stk → (∀ v ∈ acc, safeOk P v) → popN n stk acc = .ok elems rest →
    (∀ v ∈ elems, safeOk P v) ∧ StackOk P rest := by
  intro n
  induction n with
  | zero => intro stk acc elems rest hs ha h; simp only [popN, PopRes.ok.injEq] at h; obtain ⟨rfl, rfl⟩ := h; exact ⟨ha, hs⟩
  | succ n ih =>
    intro stk acc elems rest hs ha h
    match stk, hs with
    | [], _ => simp [popN] at h
    | (v, _) :: rest', hs =>
      simp only [popN] at h
      simp only [stackOk_cons] at hs
      refine ih _ _ _ _ hs.2 ?_ h
      intro x hx
      rcases List.mem_cons.1 hx with rfl | hx
      · exact hs.1
      · exact ha x hx

theorem ok_buildList (n : Nat) (hst : StateOk P K st) (h : stepBuildList n pc st = .next pc' st') :
    StateOk P K st' := by
  unfold stepBuildList at h
  split at h
  · simp at h
  · simp at h
  · rename_i elems rest hp
    simp only [StepRes.next.injEq] at h; rcases h with ⟨_, h2⟩; subst h2
    obtain ⟨he, hr⟩ := popN_ok n _ _ _ _ hst.stack (by intro _ hx; cases hx) hp
    exact hst.withStack ((stackOk_cons ..).2 ⟨(safeOk_arr _).2 he, hr⟩)

theorem foldl_insertIfAbsent_ok (es : List (Key × Value)) : ∀ (acc : Entries), safeOk P (.map acc) →
    (∀ kv ∈ es, safeOk P kv.2) →
    safeOk P (.map (es.foldl (fun a kv => mapInsertIfAbsent a kv.1 kv.2) acc)) := by
  induction es with
  | nil => intro acc ha _; exact ha
  | cons e es ih =>
    intro acc ha he
    simp only [List.foldl_cons]
    exact ih _ (safeOk_mapInsertIfAbsent _ ha (he e (by simp))) (fun kv hkv => he kv (by simp [hkv]))

theorem popSpreadMap_ok (flags : List Bool) (stk : List Slot) (acc : Entries) (m : Entries)
    (rest : List Slot) (hs : StackOk P stk) (ha : safeOk P (.map acc))
    (h : popSpreadMap env vm c flags stk acc = .inr (m, rest)) :
    safeOk P (.map m) ∧ StackOk P rest := by
  fun_induction popSpreadMap env vm c flags stk acc with
  | case1 stk acc => simp only [Sum.inr.injEq, Prod.mk.injEq] at h; obtain ⟨rfl, rfl⟩ := h; exact ⟨ha, hs⟩
  | case2 => cases h
  | case3 fs acc aSpan rest' es ih =>
    simp only [stackOk_cons] at hs
    exact ih hs.2 (foldl_insertIfAbsent_ok es acc ha ((safeOk_map es).1 hs.1)) h
  | case4 => cases h
  | case5 => cases h
  | case6 => cases h
  | case7 => cases h
  | case8 fs acc v vs k ks rest' key hk ih =>
    simp only [stackOk_cons] at hs
    exact ih hs.2.2 (safeOk_mapInsertIfAbsent _ ha hs.1) h

theorem ok_buildMapWithSpreads (flags : List Bool) (hst : StateOk P K st)
    (h : stepBuildMapWithSpreads env vm c flags pc st = .next pc' st') : StateOk P K st' := by
  unfold stepBuildMapWithSpreads at h
  split at h
  · rename_i r hr
    have := popSpreadMap_inl _ _ _ _ hr
    rw [h] at this; simp [StepRes.isNext] at this
  · rename_i m rest hp
    simp only [StepRes.next.injEq] at h; rcases h with ⟨_, h2⟩; subst h2
    obtain ⟨hm, hr⟩ := popSpreadMap_ok _ _ _ _ _ hst.stack (by simp) hp
    exact hst.withStack ((stackOk_cons ..).2 ⟨hm, hr⟩)

theorem popSpreadList_ok (flags : List Bool) (stk : List Slot) (acc : List Value) (xs : List Value)
    (rest : List Slot) (hs : StackOk P stk) (ha : ∀ v ∈ acc, safeOk P v)
    (h : popSpreadList env vm c flags stk acc = .inr (xs, rest)) :
    (∀ v ∈ xs, safeOk P v) ∧ StackOk P rest := by
  fun_induction popSpreadList env vm c flags stk acc with
  | case1 stk acc => simp only [Sum.inr.injEq, Prod.mk.injEq] at h; obtain ⟨rfl, rfl⟩ := h; exact ⟨ha, hs⟩
  | case2 => cases h
  | case3 fs acc span rest' ys ih =>
    simp only [stackOk_cons] at hs
    refine ih hs.2 ?_ h
    intro x hx
    rcases List.mem_append.1 hx with hx | hx
    · exact (safeOk_arr ys).1 hs.1 x hx
    · exact ha x hx
  | case4 => cases h
  | case5 f fs acc v span rest' hf ih =>
    simp only [stackOk_cons] at hs
    refine ih hs.2 ?_ h
    intro x hx
    rcases List.mem_cons.1 hx with rfl | hx
    · exact hs.1
    · exact ha x hx

theorem ok_buildListWithSpreads (flags : List Bool) (hst : StateOk P K st)
    (h : stepBuildListWithSpreads env vm c flags pc st = .next pc' st') : StateOk P K st' := by
  unfold stepBuildListWithSpreads at h
  split at h
  · rename_i r hr
    have := popSpreadList_inl _ _ _ _ hr
    rw [h] at this; simp [StepRes.isNext] at this
  · rename_i xs rest hp
    simp only [StepRes.next.injEq] at h; rcases h with ⟨_, h2⟩; subst h2
    obtain ⟨hx, hr⟩ := popSpreadList_ok _ _ _ _ _ hst.stack (by intro _ hv; cases hv) hp
    exact hst.withStack ((stackOk_cons ..).2 ⟨(safeOk_arr _).2 hx, hr⟩)

theorem kwargsOf_ok {es : Entries} (h : safeOk P (.map es)) : ∀ x ∈ kwargsOf es, safeOk P x.2 := by
  rw [safeOk_map] at h
  induction es with
  | nil => intro x hx; simp [kwargsOf] at hx
  | cons kv es ih =>
    obtain ⟨k, v⟩ := kv
    have ih' := ih (fun y hy => h y (by simp [hy]))
    intro x hx
    cases k <;> simp only [kwargsOf] at hx <;> try exact ih' x hx
    rename_i str
    rcases List.mem_cons.1 hx with rfl | hx
    · exact h (Key.str str, v) (by simp)
    · exact ih' x hx

theorem ok_filterOrTest (hE : EnvClean P K env) (isTest : Bool) (name : String)
    (hk : isTest = false → K.filter name) (hst : StateOk P K st)
    (h : stepFilterOrTest env vm c isTest name pc st = .next pc' st') : StateOk P K st' := by
  cases isTest
  · have hns := hE.noSafeFilter name (hk rfl)
    simp only [stepFilterOrTest, Bool.false_eq_true, ↓reduceIte, Bool.not_false, Bool.true_and, hns] at h
    repeat' split at h
    all_goals first
      | (exfalso; simp at h; done)
      | skip
    rename_i hs0 es v hres
    simp only [StepRes.next.injEq] at h
    rcases h with ⟨_, h2⟩
    subst h2
    have hs := hst.stack
    rw [hs0] at hs
    simp only [stackOk_cons] at hs
    exact hst.withStack ((stackOk_cons ..).2
      ⟨hE.filters _ _ _ _ (hk rfl) hres hs.2.1 (kwargsOf_ok hs.1), hs.2.2⟩)
  · simp only [stepFilterOrTest, ↓reduceIte, Bool.not_true, Bool.false_and, Bool.false_eq_true] at h
    repeat' split at h
    all_goals first
      | (exfalso; simp at h; done)
      | skip
    rename_i hs0 es v hres
    simp only [StepRes.next.injEq] at h
    rcases h with ⟨_, h2⟩
    subst h2
    have hs := hst.stack
    rw [hs0] at hs
    simp only [stackOk_cons] at hs
    exact hst.withStack ((stackOk_cons ..).2 ⟨hE.tests _ _ _ _ hres hs.2.1 (kwargsOf_ok hs.1), hs.2.2⟩)

theorem ok_endCapture (hst : StateOk P K st) (h : stepEndCapture pc st = .next pc' st') : StateOk P K st' := by
  unfold stepEndCapture at h
  split at h
  · simp at h
  · rename_i buf restCaps hc
    simp only [StepRes.next.injEq] at h; rcases h with ⟨_, h2⟩; subst h2
    have hcaps := hst.caps
    rw [hc] at hcaps
    exact ⟨(stackOk_cons ..).2 ⟨(safeOk_str_true buf).2 (hcaps buf (by simp)), hst.stack⟩, hst.scope,
      fun b hb => hcaps b (by simp [hb]), hst.out, hst.bbuf, hst.blocks⟩

theorem ok_startIterate (kv compr : Bool) (hst : StateOk P K st)
    (h : stepStartIterate env vm c kv compr pc st = .next pc' st') : StateOk P K st' := by
  unfold stepStartIterate at h
  split at h
  · simp at h
  · rename_i container span rest hs0
    have hs := hst.stack
    rw [hs0] at hs; simp only [stackOk_cons] at hs
    repeat' split at h
    all_goals first
      | (exfalso; simp at h; done)
      | skip
    rename_i items hi
    simp only [StepRes.next.injEq] at h; rcases h with ⟨_, h2⟩; subst h2
    exact ⟨hs.2, scopeOk_pushLoop _ _ hst.scope (loopClean_new compr (iterItems_ok hs.1 hi)), hst.caps,
      hst.out, hst.bbuf, hst.blocks⟩

theorem ok_storeLocal (n : String) (hst : StateOk P K st) (h : stepStoreLocal n pc st = .next pc' st') :
    StateOk P K st' := by
  unfold stepStoreLocal at h
  split at h
  · simp only [StepRes.next.injEq] at h; rcases h with ⟨_, h2⟩; subst h2; exact hst
  · rename_i l rest hl
    simp only [StepRes.next.injEq] at h; rcases h with ⟨_, h2⟩; subst h2
    exact hst.withScope (scopeOk_setTopLoop _ _ hst.scope
      (loopClean_storeLocalName n (scopeOk_forLoops _ hst.scope l (by rw [hl]; simp))))

theorem ok_iterate (t : Nat) (hst : StateOk P K st) (h : stepIterate t pc st = .next pc' st') :
    StateOk P K st' := by
  unfold stepIterate at h
  split at h
  · simp only [StepRes.next.injEq] at h; rcases h with ⟨_, h2⟩; subst h2; exact hst
  · rename_i l rest hl
    split at h
    · simp only [StepRes.next.injEq] at h; rcases h with ⟨_, h2⟩; subst h2; exact hst
    · rename_i l' hi
      simp only [StepRes.next.injEq] at h; rcases h with ⟨_, h2⟩; subst h2
      exact hst.withScope (scopeOk_setTopLoop _ _ hst.scope
        (loopClean_iterate (scopeOk_forLoops _ hst.scope l (by rw [hl]; simp)) hi))

theorem ok_storeDidNotIterate (hst : StateOk P K st) (h : stepStoreDidNotIterate pc st = .next pc' st') :
    StateOk P K st' := by
  unfold stepStoreDidNotIterate at h
  split at h
  · simp only [StepRes.next.injEq] at h; rcases h with ⟨_, h2⟩; subst h2; exact hst
  · simp only [StepRes.next.injEq] at h; rcases h with ⟨_, h2⟩; subst h2; exact hst.push _ (by simp)

theorem ok_break (hst : StateOk P K st) (h : stepBreak pc st = .next pc' st') : StateOk P K st' := by
  unfold stepBreak at h
  split at h <;> (simp only [StepRes.next.injEq] at h; rcases h with ⟨_, h2⟩; subst h2; exact hst)

theorem ok_appendToList (hst : StateOk P K st) (h : stepAppendToList pc st = .next pc' st') :
    StateOk P K st' := by
  unfold stepAppendToList at h
  arm_setup h hst hs
  refine ⟨?_, hs.2.2⟩
  rw [safeOk_arr] at hs ⊢
  intro x hx
  rcases List.mem_append.1 hx with hx | hx
  · exact hs.2.1 x hx
  · simp at hx; subst hx; exact hs.1

theorem ok_math (op : MathOp) (hst : StateOk P K st) (h : stepMath env vm c op pc st = .next pc' st') :
    StateOk P K st' := by
  unfold stepMath at h
  arm_setup h hst hs
  exact ⟨safeOk_of_isNumber (mathFn_isNumber ‹_›), hs.2.2⟩

theorem ok_plus (hst : StateOk P K st) (h : stepPlus env vm c pc st = .next pc' st') : StateOk P K st' := by
  unfold stepPlus at h
  arm_setup h hst hs
  exact ⟨safeOk_of_isNumber (mathOp_isNumber ‹_›), hs.2.2⟩

theorem ok_cmp (op : CmpOp) (hst : StateOk P K st) (h : stepCmp env vm c op pc st = .next pc' st') :
    StateOk P K st' := by
  unfold stepCmp at h
  arm_setup h hst hs
  exact ⟨by simp, hs.2.2⟩

theorem ok_equal (neg : Bool) (hst : StateOk P K st) (h : stepEqual neg pc st = .next pc' st') :
    StateOk P K st' := by
  unfold stepEqual at h
  arm_setup h hst hs
  all_goals exact ⟨by simp, hs.2.2⟩

/-- `StrConcat` builds a Normal string whatever its operands are. -/
theorem ok_strConcat (hst : StateOk P K st) (h : stepStrConcat env pc st = .next pc' st') :
    StateOk P K st' := by
  unfold stepStrConcat at h
  split at h
  · simp at h
  · simp at h
  · rename_i b bs a as rest hs0
    simp only [StepRes.next.injEq] at h; rcases h with ⟨_, h2⟩; subst h2
    have hs := hst.stack
    rw [hs0] at hs; simp only [stackOk_cons] at hs
    exact hst.withStack ((stackOk_cons ..).2 ⟨by simp, hs.2.2⟩)

theorem ok_in (hst : StateOk P K st) (h : stepIn env vm c pc st = .next pc' st') : StateOk P K st' := by
  unfold stepIn at h
  arm_setup h hst hs
  exact ⟨by simp, hs.2.2⟩

theorem ok_not (hst : StateOk P K st) (h : stepNot pc st = .next pc' st') : StateOk P K st' := by
  unfold stepNot at h
  arm_setup h hst hs
  exact ⟨by simp, hs.2⟩

theorem ok_negative (hst : StateOk P K st) (h : stepNegative env vm c pc st = .next pc' st') :
    StateOk P K st' := by
  unfold stepNegative at h
  arm_setup h hst hs
  exact ⟨safeOk_of_isNumber (negate_isNumber ‹_›), hs.2⟩

theorem ok_popJumpIfFalse (t : Nat) (hst : StateOk P K st) (h : stepPopJumpIfFalse t pc st = .next pc' st') :
    StateOk P K st' := by
  unfold stepPopJumpIfFalse at h
  split at h
  · simp at h
  · rename_i v vs rest hs0
    have hs := hst.stack
    rw [hs0] at hs; simp only [stackOk_cons] at hs
    split at h <;>
      (simp only [StepRes.next.injEq] at h; rcases h with ⟨_, h2⟩; subst h2; exact hst.withStack hs.2)

theorem ok_jumpOrPop (w : Bool) (t : Nat) (hst : StateOk P K st)
    (h : stepJumpOrPop w t pc st = .next pc' st') : StateOk P K st' := by
  unfold stepJumpOrPop at h
  split at h
  · simp at h
  · rename_i v vs rest hs0
    have hs := hst.stack
    rw [hs0] at hs; simp only [stackOk_cons] at hs
    by_cases hc : (if w = true then v.isTruthy else !v.isTruthy) = true
    · rw [if_pos hc] at h
      simp only [StepRes.next.injEq] at h; rcases h with ⟨_, h2⟩; subst h2; exact hst
    · rw [if_neg hc] at h
      simp only [StepRes.next.injEq] at h; rcases h with ⟨_, h2⟩; subst h2; exact hst.withStack hs.2

/-! ### fused path instructions -/

theorem walkLoad_ok (cur : Value) (k : Nat) (attrs : List String) (v : Value) (hc : safeOk P cur)
    (h : walkLoad env vm c pc cur k attrs = .val v) : safeOk P v := by
  fun_induction walkLoad env vm c pc cur k attrs with
  | case1 cur k => simp only [Walk.val.injEq] at h; subst h; exact hc
  | case2 => cases h
  | case3 cur k attr rest hu next hn ih => exact ih (safeOk_getAttr_some hc hn) h
  | case4 => cases h
  | case5 => simp only [Walk.val.injEq] at h; subst h; simp

theorem walkWrite_ok (cur : Value) (k : Nat) (attrs : List String) (v : Value) (hc : safeOk P cur)
    (h : walkWrite env vm c pc cur k attrs = .val v) : safeOk P v := by
  fun_induction walkWrite env vm c pc cur k attrs with
  | case1 cur k => simp only [Walk.val.injEq] at h; subst h; exact hc
  | case2 cur k attr rest next hn ih => exact ih (safeOk_getAttr_some hc hn) h
  | case3 => cases h

theorem pathRoot_ok (hst : StateOk P K st) (n : String) (attrs : List String) :
    safeOk P (pathRoot st n attrs) := by
  unfold pathRoot
  split
  · exact scopeOk_lookupName n hst.scope
  · exact scopeOk_getValue _ n hst.scope

theorem ok_loadPath (p : List String) (hst : StateOk P K st)
    (h : stepLoadPath env vm c p pc st = .next pc' st') : StateOk P K st' := by
  cases p with
  | nil => simp [stepLoadPath] at h
  | cons n attrs =>
    rw [stepLoadPath_cons] at h
    have hroot := pathRoot_ok hst n attrs
    generalize pathRoot st n attrs = root at h hroot
    unfold loadTail at h
    repeat' split at h
    all_goals first
      | (exfalso; simp at h; done)
      | (have := walkLoad_stop _ _ _ _ (by assumption); rw [h] at this; simp [StepRes.isNext] at this; done)
      | skip
    · simp only [StepRes.next.injEq] at h; rcases h with ⟨_, h2⟩; subst h2
      exact hst.push _ (walkLoad_ok _ _ _ _ hroot ‹_›)
    · simp only [StepRes.next.injEq] at h; rcases h with ⟨_, h2⟩; subst h2
      exact hst.push _ hroot

theorem ok_writePath (hE : EnvClean P K env) (hvm : VmOk P K vm) (p : List String) (hst : StateOk P K st)
    (h : stepWritePath env vm c p pc st = .next pc' st') : StateOk P K st' := by
  cases p with
  | nil => simp [stepWritePath] at h
  | cons n attrs =>
    rw [stepWritePath_cons] at h
    have hroot := pathRoot_ok hst n attrs
    generalize pathRoot st n attrs = root at h hroot
    unfold writeTail at h
    repeat' split at h
    all_goals first
      | (exfalso; simp at h; done)
      | (have := walkWrite_stop _ _ _ _ (by assumption); rw [h] at this; simp [StepRes.isNext] at this; done)
      | skip
    simp only [StepRes.next.injEq] at h; rcases h with ⟨_, h2⟩; subst h2
    exact emitValue_ok hE.adm hvm.on (walkWrite_ok _ _ _ _ hroot ‹_›) hst

/-! ### arms that call `interpret` again -/

theorem vmOk_include (hE : EnvClean P K env) (hvm : VmOk P K vm) {n : String} {tpl : TemplateInfo}
    (ht : env.template n = some tpl) : VmOk P K { vm with template := tpl } ∧ ChunkClean P K tpl.chunk := by
  obtain ⟨htc, hae⟩ := hE.tpls _ (assoc_mem ht)
  refine ⟨⟨?_, htc⟩, htc.chunk⟩
  have hon := hvm.on
  unfold VmCtx.autoescape at hon ⊢
  cases ho : vm.autoescapeOverride with
  | none => simpa using hae
  | some b => rw [ho] at hon; simpa using hon

theorem ok_include (hE : EnvClean P K env) (hrec : RecOk P K rec) (hvm : VmOk P K vm) (n : String)
    (hst : StateOk P K st) (h : stepInclude rec env vm n pc st = .next pc' st') : StateOk P K st' := by
  unfold stepInclude at h
  split at h
  · simp at h
  · rename_i tpl ht
    split at h
    all_goals first
      | (exfalso; simp at h; done)
      | skip
    rename_i stn hr
    simp only [StepRes.next.injEq] at h; rcases h with ⟨_, h2⟩; subst h2
    obtain ⟨hvm', hch⟩ := vmOk_include hE hvm ht
    have := hrec _ _ _ _ hvm' hch (StateOk.fresh (scopeOk_included _ hst.scope)) hr
    exact hst.write this.out

theorem ok_enterBlock (hvm : VmOk P K vm) {name : String} {lin : List Chunk}
    (hl : assoc name vm.template.blockLineage = some lin) (hst : StateOk P K st) :
    StateOk P K (enterBlock st name lin) := by
  have hlin := hvm.tpl.lineage _ (assoc_mem hl)
  have hb : ∀ e ∈ (name, lin, 0) :: st.blocks, ∀ ch ∈ e.2.1, ChunkClean P K ch := by
    intro e he
    rcases List.mem_cons.1 he with rfl | he
    · exact hlin
    · exact hst.blocks e he
  unfold enterBlock
  simp only
  split
  · exact ⟨hst.stack, hst.scope, fun _ hx => (nomatch hx), AllP.nil, hst.bbuf, hb⟩
  · exact ⟨hst.stack, hst.scope, hst.caps, hst.out, hst.bbuf, hb⟩

theorem ok_leaveBlock (name : String) {st2 : State} (hst : StateOk P K st) (h2 : StateOk P K st2) :
    StateOk P K (leaveBlock st st2 name) := by
  have hb : ∀ e ∈ st2.blocks.tail, ∀ ch ∈ e.2.1, ChunkClean P K ch :=
    fun e he => h2.blocks e (List.mem_of_mem_tail he)
  unfold leaveBlock
  simp only
  split
  · exact ⟨h2.stack, h2.scope, hst.caps, hst.out, h2.out, hb⟩
  · exact ⟨h2.stack, h2.scope, h2.caps, h2.out, h2.bbuf, hb⟩

theorem ok_renderBlock (hrec : RecOk P K rec) (hvm : VmOk P K vm) (n : String) (hst : StateOk P K st)
    (h : stepRenderBlock rec vm n pc st = .next pc' st') : StateOk P K st' := by
  unfold stepRenderBlock at h
  split at h
  · simp at h
  · simp at h
  · rename_i first more hl
    split at h
    all_goals first
      | (exfalso; simp at h; done)
      | skip
    rename_i st2 hr
    simp only [StepRes.next.injEq] at h; rcases h with ⟨_, h2⟩; subst h2
    have hlin := hvm.tpl.lineage _ (assoc_mem hl)
    exact ok_leaveBlock n hst (hrec _ _ _ _ hvm (hlin first (by simp)) (ok_enterBlock hvm hl hst) hr)

theorem modify_mem {α : Type} (f : α → α) : ∀ (l : List α) (i : Nat), ∀ x ∈ l.modify i f,
    x ∈ l ∨ ∃ y ∈ l, x = f y := by
  intro l
  induction l with
  | nil => intro i x hx; simp at hx
  | cons a l ih =>
    intro i x hx
    cases i with
    | zero =>
      rw [List.modify_zero_cons] at hx
      rcases List.mem_cons.1 hx with rfl | hx
      · exact Or.inr ⟨a, by simp, rfl⟩
      · exact Or.inl (by simp [hx])
    | succ i =>
      rw [List.modify_succ_cons] at hx
      rcases List.mem_cons.1 hx with rfl | hx
      · exact Or.inl (by simp)
      · rcases ih i x hx with h | ⟨y, hy, rfl⟩
        · exact Or.inl (by simp [h])
        · exact Or.inr ⟨y, by simp [hy], rfl⟩

theorem setLevel_ok {blocks b' : List (String × List Chunk × Nat)} {pos level : Nat}
    (h : setLevel blocks pos level = some b') (hb : ∀ e ∈ blocks, ∀ ch ∈ e.2.1, ChunkClean P K ch) :
    ∀ e ∈ b', ∀ ch ∈ e.2.1, ChunkClean P K ch := by
  unfold setLevel at h
  split at h
  · simp only [Option.some.injEq] at h; subst h
    intro e he
    rcases modify_mem _ _ _ e he with h | ⟨y, hy, rfl⟩
    · exact hb e h
    · exact hb y hy
  · cases h

theorem ok_super (hrec : RecOk P K rec) (hvm : VmOk P K vm) (hst : StateOk P K st)
    (h : stepSuper rec env vm c pc st = .next pc' st') : StateOk P K st' := by
  unfold stepSuper at h
  repeat' split at h
  all_goals first
    | (exfalso; simp at h; done)
    | skip
  rename_i _ cur hcur _ pos hpos _ nm lineage level hent _ blockChunk hbc _ blocks1 hb1 _ st2 hr _ blocks3 hb3
  simp only [StepRes.next.injEq] at h; rcases h with ⟨_, h2⟩; subst h2
  have hch : ChunkClean P K blockChunk :=
    hst.blocks _ (List.mem_of_getElem? hent) blockChunk (List.mem_of_getElem? hbc)
  have henter : StateOk P K (enterSuper st blocks1) :=
    ⟨hst.stack, hst.scope, fun _ hx => (nomatch hx), AllP.nil, hst.bbuf, setLevel_ok hb1 hst.blocks⟩
  have h2 := hrec _ _ _ _ hvm hch henter hr
  exact ⟨(stackOk_cons ..).2 ⟨(safeOk_str_true _).2 h2.out, h2.stack⟩, h2.scope, hst.caps, hst.out,
    h2.bbuf, setLevel_ok hb3 h2.blocks⟩

theorem ok_callFunction (hE : EnvClean P K env) (hrec : RecOk P K rec) (hvm : VmOk P K vm) (n : String)
    (hk : n ≠ "super" → K.function n) (hst : StateOk P K st)
    (h : stepCallFunction rec env vm c n pc st = .next pc' st') : StateOk P K st' := by
  unfold stepCallFunction at h
  split at h
  · simp at h
  · rename_i kwargs ks rest hs0
    have hs := hst.stack
    rw [hs0] at hs; simp only [stackOk_cons] at hs
    split at h
    · exact ok_super hrec hvm (hst.withStack hs.2) h
    · rename_i hn
      simp only [hE.noSafeFunction n (hk hn), Bool.false_eq_true, ↓reduceIte] at h
      repeat' split at h
      all_goals first
        | (exfalso; simp at h; done)
        | skip
      rename_i es v hres
      simp only [StepRes.next.injEq] at h; rcases h with ⟨_, h2⟩; subst h2
      exact hst.withStack ((stackOk_cons ..).2 ⟨hE.functions _ _ _ (hk hn) hres (kwargsOf_ok hs.1), hs.2⟩)

/-! ### components -/

theorem lookupStr_mem {α : Type} {k : String} {l : List (String × α)} {v : α}
    (h : Component.lookupStr k l = some v) : ∃ k', (k', v) ∈ l := by
  induction l with
  | nil => simp [Component.lookupStr] at h
  | cons kv l ih =>
    obtain ⟨k', v'⟩ := kv
    simp only [Component.lookupStr] at h
    split at h
    · simp only [Option.some.injEq] at h; subst h; exact ⟨k', by simp⟩
    · obtain ⟨k2, hk⟩ := ih h; exact ⟨k2, by simp [hk]⟩

theorem strEntries_ok {es : Entries} (h : safeOk P (.map es)) :
    ∀ x ∈ Component.strEntries es, safeOk P x.2 := by
  rw [safeOk_map] at h
  induction es with
  | nil => intro x hx; simp [Component.strEntries] at hx
  | cons kv es ih =>
    obtain ⟨k, v⟩ := kv
    have ih' := ih (fun y hy => h y (by simp [hy]))
    intro x hx
    cases k <;> simp only [Component.strEntries] at hx <;> try exact ih' x hx
    rename_i str
    rcases List.mem_cons.1 hx with rfl | hx
    · exact h (Key.str str, v) (by simp)
    · exact ih' x hx

theorem bindParams_ok (sup : List (String × Value)) (hs : ∀ x ∈ sup, safeOk P x.2) :
    ∀ (ps : List Component.Param) (r : List (String × Value)),
      (∀ p ∈ ps, ∀ v, p.dflt = some v → safeOk P v) → Component.bindParams ps sup = .ok r →
      ∀ x ∈ r, safeOk P x.2 := by
  intro ps
  induction ps with
  | nil => intro r _ h; simp only [Component.bindParams, Except.ok.injEq] at h; subst h; intro x hx; cases hx
  | cons p ps ih =>
    intro r hd h
    have ih' := fun r => ih r (fun q hq => hd q (by simp [hq]))
    simp only [Component.bindParams] at h
    split at h
    · rename_i v hv
      split at h
      · split at h
        · rename_i r' hr'
          simp only [Except.ok.injEq] at h; subst h
          intro x hx
          rcases List.mem_cons.1 hx with rfl | hx
          · obtain ⟨k, hk⟩ := lookupStr_mem hv; exact hs (k, v) hk
          · exact ih' r' hr' x hx
        · cases h
      · cases h
    · split at h
      · rename_i d hd'
        split at h
        · rename_i r' hr'
          simp only [Except.ok.injEq] at h; subst h
          intro x hx
          rcases List.mem_cons.1 hx with rfl | hx
          · exact hd p (by simp) d hd'
          · exact ih' r' hr' x hx
        · cases h
      · cases h

theorem buildContext_ok {d : Component.Def} {es : Entries} {body : Option Value}
    {bound : List (String × Value)} (hd : DefClean P d) (hes : safeOk P (.map es))
    (hb : ∀ b, body = some b → safeOk P b) (h : Component.buildContext d es body = .ok bound) :
    ∀ x ∈ bound, safeOk P x.2 := by
  unfold Component.buildContext at h
  simp only at h
  have hsup := strEntries_ok hes
  split at h
  · cases h
  · split at h
    · cases h
    · rename_i r hr
      simp only [Except.ok.injEq] at h; subst h
      intro x hx
      rcases List.mem_append.1 hx with hx | hx
      · rcases List.mem_append.1 hx with hx | hx
        · exact bindParams_ok _ hsup _ _ hd hr x hx
        · unfold Component.restEntry at hx
          split at hx
          · simp only [List.mem_cons, List.not_mem_nil, or_false] at hx; subst hx
            rw [safeOk_map]
            intro kv hkv
            obtain ⟨e, he, rfl⟩ := List.mem_map.1 hkv
            exact hsup e (List.mem_filter.1 he).1
          · cases hx
      · unfold Component.bodyEntry at hx
        split at hx
        · simp only [List.mem_cons, List.not_mem_nil, or_false] at hx; subst hx
          exact hb _ rfl
        · cases hx

theorem ctxOfList_ok {l : List (String × Value)} (h : ∀ x ∈ l, safeOk P x.2) : ctxOk P (ctxOfList l) := by
  unfold ctxOfList
  have : ∀ (l : List (String × Value)) (c : Ctx), (∀ x ∈ l, safeOk P x.2) → ctxOk P c →
      ctxOk P (l.foldl (fun c kv => c.insert kv.1 kv.2) c) := by
    intro l
    induction l with
    | nil => intro c _ hc; exact hc
    | cons kv l ih =>
      intro c hl hc
      simp only [List.foldl_cons]
      exact ih _ (fun x hx => hl x (by simp [hx])) (ctxOk_insert _ hc (hl kv (by simp)))
  exact this l [] h ctxOk_nil

theorem findComponent_ok (hE : EnvClean P K env) (hvm : VmOk P K vm) {name : String} {d : Component.Def}
    {ch : Chunk} (h : findComponent env vm name = some (d, ch)) : DefClean P d ∧ ChunkClean P K ch := by
  unfold findComponent at h
  split at h
  · rename_i x hx
    simp only [Option.some.injEq] at h; subst h
    exact hE.comps _ (assoc_mem hx)
  · exact hvm.tpl.comps _ (assoc_mem h)

/-- `RenderInlineComponent` / `RenderBodyComponent`: the result is minted Safe (it is the output of
the component's chunk, under the same invariant); the body keeps the mark it has — unless the
listing hands a Normal string as the body, which `bodyGuard` flags. -/
theorem ok_component (hE : EnvClean P K env) (hrec : RecOk P K rec) (hvm : VmOk P K vm) (n : String)
    (hasBody : Bool) (hg : bodyGuard (.renderComponent n hasBody) st = false) (hst : StateOk P K st)
    (h : stepComponent rec env vm c n hasBody pc st = .next pc' st') : StateOk P K st' := by
  unfold stepComponent at h
  split at h
  · simp at h
  · rename_i kwargs ks rest hs0
    have hs := hst.stack
    rw [hs0] at hs; simp only [stackOk_cons] at hs
    split at h
    · rename_i es
      split at h
      · simp at h
      · rename_i cdef cchunk hfc
        obtain ⟨hdef, hch⟩ := findComponent_ok hE hvm hfc
        split at h
        · simp at h
        · rename_i body rest' hpb
          have hbody : (∀ b, body = some b → safeOk P b) ∧ StackOk P rest' := by
            unfold popBody at hpb
            split at hpb
            · rename_i hb
              subst hb
              split at hpb
              · cases hpb
              · rename_i b bs rest2
                simp only [Option.some.injEq, Prod.mk.injEq] at hpb
                obtain ⟨rfl, rfl⟩ := hpb
                simp only [stackOk_cons] at hs
                simp only [bodyGuard, hs0] at hg
                refine ⟨?_, hs.2.2⟩
                intro b' hb'
                simp only [Option.some.injEq] at hb'; subst hb'
                rw [markSafe_eq hg]; exact hs.2.1
            · simp only [Option.some.injEq, Prod.mk.injEq] at hpb
              obtain ⟨rfl, rfl⟩ := hpb
              exact ⟨fun _ hb => (nomatch hb), hs.2⟩
          split at h
          · simp at h
          · rename_i bound hbc
            split at h
            · simp at h
            · split at h
              all_goals first
                | (exfalso; simp at h; done)
                | skip
              rename_i stn hr
              simp only [StepRes.next.injEq] at h; rcases h with ⟨_, h2⟩; subst h2
              have hbound := buildContext_ok hdef hs.1 hbody.1 hbc
              have hsc : scopeOk P (.mk [] [] none (ctxOfList bound) none) := by
                rw [scopeOk_mk]
                exact ⟨fun _ hx => (nomatch hx), ctxOk_nil, trivial, ctxOfList_ok hbound,
                  fun _ hg' => (nomatch hg')⟩
              have hvm' : VmOk P K { vm with depth := vm.depth + 1 } := ⟨hvm.on, hvm.tpl⟩
              have hn := hrec _ _ _ _ hvm' hch (StateOk.fresh hsc) hr
              exact hst.withStack ((stackOk_cons ..).2 ⟨(safeOk_str_true _).2 hn.out, hbody.2⟩)
    · simp at h

end Tera.Vm
