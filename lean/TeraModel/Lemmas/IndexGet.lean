/-
Helper lemmas for C14: `resolve_index` / `get_item` of the model against Python's `x[i]`.
-/
import TeraModel.Lemmas.IndexSlice
namespace Tera.Index
open Tera Tera.PySlice

/-- Python's position for `x[n]` on a sequence of `len` elements; `none` is out of range. -/
def pyPos (len : Nat) (n : Int) : Option Nat :=
  if 0 ≤ (if n < 0 then n + (len : Int) else n) ∧ (if n < 0 then n + (len : Int) else n) < (len : Int)
  then some (if n < 0 then n + (len : Int) else n).toNat else none

theorem index_eq_pyPos {α : Type} (items : List α) (n : Int) :
    PySlice.index items n = (pyPos items.length n).bind (fun i => items[i]?) := by
  unfold PySlice.index pyPos
  simp only
  split_ifs <;> simp

theorem pyPos_lt {len : Nat} {n : Int} {i : Nat} (h : pyPos len n = some i) : i < len := by
  unfold pyPos at h
  by_cases hn : n < 0
  · simp only [hn, if_true] at h
    split_ifs at h with hc
    have := Option.some.inj h
    omega
  · simp only [hn, if_false] at h
    split_ifs at h with hc
    have := Option.some.inj h
    omega

/-- An integer-kind value that does not fit i128 is a u128 above `i128::MAX`. -/
theorem intVal_not_i128 {item : Value} {n : Int} (hv : item.intVal = some n)
    (hwf : item.scalarWF) (hni : ¬ inI128 n) : (∃ m, item = .u128 m) ∧ I128_MAX < n := by
  cases item <;> simp only [Value.intVal, reduceCtorEq] at hv
  all_goals (have hn := Option.some.inj hv; subst hn)
  · exfalso; apply hni
    simp only [Value.scalarWF, U64_MAX] at hwf
    simp only [inI128, I128_MIN, I128_MAX]; omega
  · exfalso; apply hni
    simp only [Value.scalarWF, inI64, I64_MIN, I64_MAX] at hwf
    simp only [inI128, I128_MIN, I128_MAX]; omega
  · refine ⟨⟨_, rfl⟩, ?_⟩
    simp only [inI128, I128_MIN, I128_MAX] at hni
    simp only [I128_MAX]; omega
  · exfalso; exact hni hwf

/-- `resolve_index` is Python's position rule for integers of every width (no error, no
overflow), given `len` fits a usize. -/
theorem resolveIndex_int {item : Value} {n : Int} (hv : item.intVal = some n)
    (hwf : item.scalarWF) (len : Nat) (hlen : len ≤ USIZE_MAX) :
    resolveIndex item len = .ok (pyPos len n) := by
  have hU : ((USIZE_MAX : Nat) : Int) < I128_MAX := by
    simp only [USIZE_MAX, I128_MAX]; omega
  have hlenI : (len : Int) ≤ (USIZE_MAX : Int) := by exact_mod_cast hlen
  unfold resolveIndex Value.asI128
  rw [hv]
  by_cases hi : inI128 n
  · simp only [hi, if_true]
    obtain ⟨h1, h2⟩ := hi
    by_cases hn : n < 0
    · have hc : chkI128 "value/mod.rs:393 idx + len" (n + (len : Int)) = .ok (n + (len : Int)) := by
        unfold chkI128
        rw [if_pos]
        exact ⟨by omega, by omega⟩
      simp only [hn, if_true, hc, Res.bind, pyPos]
      split_ifs with hc2
      · rw [asUsize_of_range (by omega) (by omega)]
      · rfl
    · simp only [hn, if_false, Res.bind, pyPos]
      split_ifs with hc2
      · rw [asUsize_of_range (by omega) (by omega)]
      · rfl
  · simp only [hi, if_false]
    obtain ⟨⟨m, hm⟩, hbig⟩ := intVal_not_i128 hv hwf hi
    subst hm
    simp only [pyPos]
    have hn : ¬ n < 0 := by simp only [I128_MAX] at hbig; omega
    simp only [hn, if_false]
    rw [if_neg]
    omega

/-- Anything that is not of an integer kind is refused by `resolve_index`. -/
theorem resolveIndex_nonint {item : Value} (hv : item.intVal = none) (len : Nat) :
    resolveIndex item len = .err .indexNotInteger := by
  cases item <;> simp [Value.intVal] at hv <;> simp [resolveIndex, Value.asI128, Value.intVal]

theorem getItem_arr_int {item : Value} {n : Int} (hv : item.intVal = some n)
    (hwf : item.scalarWF) (xs : List Value) (hlen : xs.length ≤ USIZE_MAX) :
    getItem (.arr xs) item = .ok ((PySlice.index xs n).getD .undef) := by
  simp only [getItem]
  rw [resolveIndex_int hv hwf xs.length hlen, index_eq_pyPos]
  simp only [Res.bind]
  cases hp : pyPos xs.length n with
  | none => simp
  | some i =>
    have hlt := pyPos_lt hp
    simp [List.getElem?_eq_getElem hlt]

theorem getItem_str_int {item : Value} {n : Int} (hv : item.intVal = some n)
    (hwf : item.scalarWF) (kind : Bool) (s : List Char) (hlen : s.length ≤ USIZE_MAX) :
    getItem (.str kind s) item =
      .ok (match PySlice.index s n with
           | some c => .str kind [c]
           | none => .undef) := by
  simp only [getItem]
  rw [resolveIndex_int hv hwf s.length hlen, index_eq_pyPos]
  simp only [Res.bind]
  cases hp : pyPos s.length n with
  | none => simp
  | some i =>
    have hlt := pyPos_lt hp
    simp [List.getElem?_eq_getElem hlt]

theorem asI128_range {v : Value} {n : Int} (h : v.asI128 = some n) : inI128 n := by
  unfold Value.asI128 at h
  cases hv : v.intVal with
  | none => simp [hv] at h
  | some m =>
    simp only [hv] at h
    split_ifs at h with hc
    cases h
    exact hc

/-- What `Value::slice` must return according to Python: the selection wrapped back into the
receiver's kind, or the zero-step error; other receivers cannot be sliced. -/
def pySliceValue (recv : Value) (start stop step : Option Int) : Res Value :=
  match recv with
  | .arr xs =>
    match select xs start stop step with
    | some r => .ok (.arr r)
    | none => .err .stepZero
  | .str kind s =>
    match select s start stop step with
    | some r => .ok (.str kind r)
    | none => .err .stepZero
  | _ => if step.getD 1 = 0 then .err .stepZero else .err .notSliceable

theorem pySliceValue_total (recv : Value) (s e st : Option Int) :
    (∃ v, pySliceValue recv s e st = .ok v) ∨ (∃ err, pySliceValue recv s e st = .err err) := by
  unfold pySliceValue
  cases recv <;> simp only [] <;> split <;> simp

end Tera.Index
