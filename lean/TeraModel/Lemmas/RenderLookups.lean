/-
Render skeleton (Model/RenderSkel.lean) on an accepted set: none of the lookups the VM performs
without a check (`templates[..]`, `components[..]`, `block_lineage.get(..)`, the lineage chunk of a
block, `must_get_template` for includes and the root ancestor) can fail.
-/
import TeraModel.Lemmas.FinalizeRefs
import TeraModel.Lemmas.F5Witness
namespace Tera.Reg

/-- the outcomes that correspond to a failed unchecked lookup -/
def LookupFailure (r : Except RErr String) : Prop :=
  r = .error .panic ∨ r = .error .noLineage ∨ r = .error .templateNotFound

/-- what acceptance guarantees about an environment (proved from `derive` below) -/
structure EnvValid (env : REnv) (PO : String → Option (List String)) : Prop where
  po : ∀ V, has env.S V = true → ∃ p, PO V = some p
  inc : ∀ t, get env.S t.name = some t → ∀ n ∈ t.includeCalls, ∃ r u, resolve env.ps env.S n = some r ∧ get env.S r = some u
  comp : ∀ t, get env.S t.name = some t → ∀ c ∈ t.compCalls, ∃ owner ot, compOwner env.comps c = some owner ∧
    get env.S owner = some ot ∧ c ∈ ot.comps.map (·.name)
  chainReg : ∀ V p, has env.S V = true → PO V = some p → ∀ O ∈ chainOf V p, has env.S O = true
  blk : ∀ V p, has env.S V = true → PO V = some p → ∀ O ∈ chainOf V p, ∀ ot, get env.S O = some ot → ∀ bd ∈ ot.blocks,
    ∃ o l, lineageOf env V bd.name = some (o :: l) ∧
      ∀ x ∈ o :: l, x ∈ chainOf V p ∧ (definesBlock env.S x bd.name).isSome = true

theorem envValid_of_derive (ps : List String) (S : List Tpl) (o2 o3 : List String) (d : Derived)
    (h : derive ps S o2 o3 = .ok d)
    (ho2 : ∀ k, has S k = true → k ∈ o2) (ho3 : ∀ k, has S k = true → k ∈ o3) :
    EnvValid (envOf ps S d) (lookupParents d.parents) := by
  have key := fun (t : Tpl) (hT : get S t.name = some t) => derive_refs_valid ps S o2 o3 d h ho2 ho3 t hT
  have self : ∀ V, has S V = true → ∃ t, get S t.name = some t ∧ t.name = V := by
    intro V hV
    obtain ⟨t, ht⟩ := has_iff_get.mp hV
    have hn := get_name ht
    exact ⟨t, by rw [hn]; exact ht, hn⟩
  refine ⟨?_, ?_, ?_, ?_, ?_⟩
  · intro V hV
    obtain ⟨t, ht, rfl⟩ := self V hV
    obtain ⟨_, _, _, p, hp, _⟩ := key t ht
    exact ⟨p, hp⟩
  · intro t ht n hn
    obtain ⟨_, _, r3, _⟩ := key t ht
    obtain ⟨r, hr, hh⟩ := r3 n hn
    obtain ⟨u, hu⟩ := has_iff_get.mp hh
    exact ⟨r, u, hr, hu⟩
  · intro t ht c hc
    obtain ⟨_, r2, _⟩ := key t ht
    exact r2 c hc
  · intro V p hV hp O hO
    obtain ⟨t, ht, rfl⟩ := self V hV
    obtain ⟨_, _, _, p', hp', hreg, _⟩ := key t ht
    rw [hp] at hp'; cases hp'
    simp only [chainOf, List.mem_cons, List.mem_reverse] at hO
    rcases hO with e | e
    · rw [e]; exact hV
    · exact hreg O e
  · intro V p hV hp O hO ot hot bd hbd
    obtain ⟨t, ht, rfl⟩ := self V hV
    obtain ⟨_, _, _, p', hp', _, hblk⟩ := key t ht
    rw [hp] at hp'; cases hp'
    exact hblk O hO ot hot bd hbd

/-- the chunk can be interpreted for view `V` without a failing lookup at its own instructions -/
def GoodItems (env : REnv) (PO : String → Option (List String)) (V : String) (items : List RItem) : Prop :=
  ∀ it ∈ items, match it with
    | .text _ => True
    | .inc n => ∃ r u, resolve env.ps env.S n = some r ∧ get env.S r = some u
    | .blk b => ∃ p O ot bd, PO V = some p ∧ O ∈ chainOf V p ∧ get env.S O = some ot ∧ bd ∈ ot.blocks ∧ bd.name = b
    | .sup => True
    | .comp c => ∃ owner ot, compOwner env.comps c = some owner ∧ get env.S owner = some ot ∧
        c ∈ ot.comps.map (·.name)

/-- the block stack only holds lineages whose members have a chunk for the block -/
def CtxOK (env : REnv) (PO : String → Option (List String)) (V : String) (ctx : RCtx) : Prop :=
  ctx.view = V ∧ has env.S V = true ∧
  ∀ e ∈ ctx.blocks, ∀ x ∈ e.2.1, ∃ p ot bd, PO V = some p ∧ x ∈ chainOf V p ∧ get env.S x = some ot ∧
    ot.findBlock e.1 = some bd

theorem mem_includeCalls_top {t : Tpl} {n : String} (h : n ∈ t.topIncludes) : n ∈ t.includeCalls := by
  simp [Tpl.includeCalls, h]

theorem mem_includeCalls_block {t : Tpl} {bd : BlockDef} {n : String} (hb : bd ∈ t.blocks)
    (h : n ∈ bd.includes) : n ∈ t.includeCalls := by
  simp only [Tpl.includeCalls, List.mem_append, List.mem_flatMap]
  exact .inr (.inl ⟨bd, hb, h⟩)

theorem mem_includeCalls_comp {t : Tpl} {cd : CompDef} {n : String} (hc : cd ∈ t.comps)
    (h : n ∈ cd.includes) : n ∈ t.includeCalls := by
  simp only [Tpl.includeCalls, List.mem_append, List.mem_flatMap]
  exact .inr (.inr ⟨cd, hc, h⟩)

theorem goodItems_bodyOfTpl {env : REnv} {PO : String → Option (List String)} (hv : EnvValid env PO)
    {V : String} {p : List String} (hp : PO V = some p) {O : String} (hO : O ∈ chainOf V p)
    {ot : Tpl} (hot : get env.S O = some ot) : GoodItems env PO V (bodyOfTpl ot) := by
  have hn := get_name hot
  have hot' : get env.S ot.name = some ot := by rw [hn]; exact hot
  intro it hit
  simp only [bodyOfTpl, List.mem_append, List.mem_cons, List.mem_map, List.mem_filter, List.not_mem_nil, or_false] at hit
  rcases hit with (h | ⟨n, hn', rfl⟩) | ⟨bd, ⟨hbd, _⟩, rfl⟩ | ⟨c, hc, rfl⟩ | h
  · subst h; trivial
  · exact hv.inc ot hot' n (mem_includeCalls_top hn')
  · exact ⟨p, O, ot, bd, hp, hO, hot, hbd, rfl⟩
  · exact hv.comp ot hot' c hc
  · subst h; trivial

theorem goodItems_bodyOfBlock {env : REnv} {PO : String → Option (List String)} (hv : EnvValid env PO)
    {V : String} {p : List String} (hp : PO V = some p) {O : String} (hO : O ∈ chainOf V p)
    {ot : Tpl} (hot : get env.S O = some ot) {bd : BlockDef} (hbd : bd ∈ ot.blocks) :
    GoodItems env PO V (bodyOfBlock ot bd) := by
  have hn := get_name hot
  have hot' : get env.S ot.name = some ot := by rw [hn]; exact hot
  intro it hit
  simp only [bodyOfBlock, List.mem_append, List.mem_cons, List.mem_map, List.mem_filter, List.not_mem_nil, or_false] at hit
  rcases hit with (h | h) | ⟨n, hn', rfl⟩ | ⟨c, ⟨hc, _⟩, rfl⟩ | h
  · subst h; trivial
  · by_cases hs : bd.callsSuper = true
    · simp [hs] at h; subst h; trivial
    · simp [hs] at h
  · exact hv.inc ot hot' n (mem_includeCalls_block hbd hn')
  · exact ⟨p, O, ot, c, hp, hO, hot, hc, rfl⟩
  · subst h; trivial

theorem goodItems_bodyOfComp {env : REnv} {PO : String → Option (List String)} (hv : EnvValid env PO)
    (V : String) {ot : Tpl} (hot : get env.S ot.name = some ot) {cd : CompDef} (hcd : cd ∈ ot.comps) :
    GoodItems env PO V (bodyOfComp ot cd) := by
  intro it hit
  simp only [bodyOfComp, List.mem_append, List.mem_cons, List.mem_map, List.not_mem_nil, or_false] at hit
  rcases hit with h | ⟨n, hn', rfl⟩ | h
  · subst h; trivial
  · exact hv.inc ot hot n (mem_includeCalls_comp hcd hn')
  · subst h; trivial

end Tera.Reg
