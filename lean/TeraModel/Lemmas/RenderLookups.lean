/-
Render skeleton (Model/RenderSkel.lean) on an accepted set: none of the lookups the VM performs
without a check (`templates[..]`, `components[..]`, `block_lineage.get(..)`, the lineage chunk of a
block, `must_get_template` for includes and the root ancestor) can fail.
-/
import TeraModel.Lemmas.FinalizeRefs
import TeraModel.Lemmas.F5Witness
namespace Tera.Reg

/-- the outcomes that correspond to a failed unchecked lookup -/
def LookupFailure (r : Except RErr String) : Prop :=
  r = .error .panic ∨ r = .error .noLineage ∨ r = .error .templateNotFound

/-- what acceptance guarantees about an environment (proved from `derive` below) -/
structure EnvValid (env : REnv) (PO : String → Option (List String)) : Prop where
  po : ∀ V, has env.S V = true → ∃ p, PO V = some p
  inc : ∀ t, get env.S t.name = some t → ∀ n ∈ t.includeCalls, ∃ r u, resolve env.ps env.S n = some r ∧ get env.S r = some u
  comp : ∀ t, get env.S t.name = some t → ∀ c ∈ t.compCalls, ∃ owner ot, compOwner env.comps c = some owner ∧
    get env.S owner = some ot ∧ c ∈ ot.comps.map (·.name)
  chainReg : ∀ V p, has env.S V = true → PO V = some p → ∀ O ∈ chainOf V p, has env.S O = true
  blk : ∀ V p, has env.S V = true → PO V = some p → ∀ O ∈ chainOf V p, ∀ ot, get env.S O = some ot → ∀ bd ∈ ot.blocks,
    ∃ o l, lineageOf env V bd.name = some (o :: l) ∧
      ∀ x ∈ o :: l, x ∈ chainOf V p ∧ (definesBlock env.S x bd.name).isSome = true

theorem envValid_of_derive (ps : List String) (S : List Tpl) (o2 o3 : List String) (d : Derived)
    (h : derive ps S o2 o3 = .ok d)
    (ho2 : ∀ k, has S k = true → k ∈ o2) (ho3 : ∀ k, has S k = true → k ∈ o3) :
    EnvValid (envOf ps S d) (lookupParents d.parents) := by
  have key := fun (t : Tpl) (hT : get S t.name = some t) => derive_refs_valid ps S o2 o3 d h ho2 ho3 t hT
  have self : ∀ V, has S V = true → ∃ t, get S t.name = some t ∧ t.name = V := by
    intro V hV
    obtain ⟨t, ht⟩ := has_iff_get.mp hV
    have hn := get_name ht
    exact ⟨t, by rw [hn]; exact ht, hn⟩
  refine ⟨?_, ?_, ?_, ?_, ?_⟩
  · intro V hV
    obtain ⟨t, ht, rfl⟩ := self V hV
    obtain ⟨_, _, _, p, hp, _⟩ := key t ht
    exact ⟨p, hp⟩
  · intro t ht n hn
    obtain ⟨_, _, r3, _⟩ := key t ht
    obtain ⟨r, hr, hh⟩ := r3 n hn
    obtain ⟨u, hu⟩ := has_iff_get.mp hh
    exact ⟨r, u, hr, hu⟩
  · intro t ht c hc
    obtain ⟨_, r2, _⟩ := key t ht
    exact r2 c hc
  · intro V p hV hp O hO
    obtain ⟨t, ht, rfl⟩ := self V hV
    obtain ⟨_, _, _, p', hp', hreg, _⟩ := key t ht
    rw [hp] at hp'; cases hp'
    simp only [chainOf, List.mem_cons, List.mem_reverse] at hO
    rcases hO with e | e
    · rw [e]; exact hV
    · exact hreg O e
  · intro V p hV hp O hO ot hot bd hbd
    obtain ⟨t, ht, rfl⟩ := self V hV
    obtain ⟨_, _, _, p', hp', _, hblk⟩ := key t ht
    rw [hp] at hp'; cases hp'
    exact hblk O hO ot hot bd hbd

/-- the chunk can be interpreted for view `V` without a failing lookup at its own instructions -/
def GoodItems (env : REnv) (PO : String → Option (List String)) (V : String) (items : List RItem) : Prop :=
  ∀ it ∈ items, match it with
    | .text _ => True
    | .inc n => ∃ r u, resolve env.ps env.S n = some r ∧ get env.S r = some u
    | .blk b => ∃ p O ot bd, PO V = some p ∧ O ∈ chainOf V p ∧ get env.S O = some ot ∧ bd ∈ ot.blocks ∧ bd.name = b
    | .sup => True
    | .comp c => ∃ owner ot, compOwner env.comps c = some owner ∧ get env.S owner = some ot ∧
        c ∈ ot.comps.map (·.name)

/-- the block stack only holds lineages whose members have a chunk for the block -/
def CtxOK (env : REnv) (PO : String → Option (List String)) (V : String) (ctx : RCtx) : Prop :=
  ctx.view = V ∧ has env.S V = true ∧
  ∀ e ∈ ctx.blocks, ∀ x ∈ e.2.1, ∃ p ot bd, PO V = some p ∧ x ∈ chainOf V p ∧ get env.S x = some ot ∧
    ot.findBlock e.1 = some bd

theorem mem_includeCalls_top {t : Tpl} {n : String} (h : n ∈ t.topIncludes) : n ∈ t.includeCalls := by
  simp [Tpl.includeCalls, h]

theorem mem_includeCalls_block {t : Tpl} {bd : BlockDef} {n : String} (hb : bd ∈ t.blocks)
    (h : n ∈ bd.includes) : n ∈ t.includeCalls := by
  simp only [Tpl.includeCalls, List.mem_append, List.mem_flatMap]
  exact .inr (.inl ⟨bd, hb, h⟩)

theorem mem_includeCalls_comp {t : Tpl} {cd : CompDef} {n : String} (hc : cd ∈ t.comps)
    (h : n ∈ cd.includes) : n ∈ t.includeCalls := by
  simp only [Tpl.includeCalls, List.mem_append, List.mem_flatMap]
  exact .inr (.inr ⟨cd, hc, h⟩)

theorem goodItems_bodyOfTpl {env : REnv} {PO : String → Option (List String)} (hv : EnvValid env PO)
    {V : String} {p : List String} (hp : PO V = some p) {O : String} (hO : O ∈ chainOf V p)
    {ot : Tpl} (hot : get env.S O = some ot) : GoodItems env PO V (bodyOfTpl ot) := by
  have hn := get_name hot
  have hot' : get env.S ot.name = some ot := by rw [hn]; exact hot
  intro it hit
  simp only [bodyOfTpl, List.mem_append, List.mem_cons, List.mem_map, List.mem_filter, List.not_mem_nil, or_false] at hit
  rcases hit with (h | ⟨n, hn', rfl⟩) | ⟨bd, ⟨hbd, _⟩, rfl⟩ | ⟨c, hc, rfl⟩ | h
  · subst h; trivial
  · exact hv.inc ot hot' n (mem_includeCalls_top hn')
  · exact ⟨p, O, ot, bd, hp, hO, hot, hbd, rfl⟩
  · exact hv.comp ot hot' c hc
  · subst h; trivial

theorem goodItems_bodyOfBlock {env : REnv} {PO : String → Option (List String)} (hv : EnvValid env PO)
    {V : String} {p : List String} (hp : PO V = some p) {O : String} (hO : O ∈ chainOf V p)
    {ot : Tpl} (hot : get env.S O = some ot) {bd : BlockDef} (hbd : bd ∈ ot.blocks) :
    GoodItems env PO V (bodyOfBlock ot bd) := by
  have hn := get_name hot
  have hot' : get env.S ot.name = some ot := by rw [hn]; exact hot
  intro it hit
  simp only [bodyOfBlock, List.mem_append, List.mem_cons, List.mem_map, List.mem_filter, List.not_mem_nil, or_false] at hit
  rcases hit with (h | h) | ⟨n, hn', rfl⟩ | ⟨c, ⟨hc, _⟩, rfl⟩ | h
  · subst h; trivial
  · by_cases hs : bd.callsSuper = true
    · simp [hs] at h; subst h; trivial
    · simp [hs] at h
  · exact hv.inc ot hot' n (mem_includeCalls_block hbd hn')
  · exact ⟨p, O, ot, c, hp, hO, hot, hc, rfl⟩
  · subst h; trivial

theorem goodItems_bodyOfComp {env : REnv} {PO : String → Option (List String)} (hv : EnvValid env PO)
    (V : String) {ot : Tpl} (hot : get env.S ot.name = some ot) {cd : CompDef} (hcd : cd ∈ ot.comps) :
    GoodItems env PO V (bodyOfComp ot cd) := by
  intro it hit
  simp only [bodyOfComp, List.mem_append, List.mem_cons, List.mem_map, List.not_mem_nil, or_false] at hit
  rcases hit with h | ⟨n, hn', rfl⟩ | h
  · subst h; trivial
  · exact hv.inc ot hot n (mem_includeCalls_comp hcd hn')
  · subst h; trivial

end Tera.Reg

namespace Tera.Reg

theorem andThen_no_lookup_failure {a : Except RErr String} {b : Unit → Except RErr String}
    (ha : ¬ LookupFailure a) (hb : ¬ LookupFailure (b ())) : ¬ LookupFailure (andThen a b) := by
  unfold andThen
  cases a with
  | error e => exact ha
  | ok out =>
    cases hk : b () with
    | error e => rw [hk] at hb; exact hb
    | ok r => simp [LookupFailure]

theorem topEntry_mem : ∀ (bs : List BlockEntry) (n : String) (v : List String × Nat),
    topEntry bs n = some v → ∃ e ∈ bs, e.1 = n ∧ e.2 = v := by
  intro bs
  induction bs with
  | nil => intro n v h; simp [topEntry] at h
  | cons e rest ih =>
    intro n v h
    unfold topEntry at h
    by_cases he : e.1 = n
    · simp only [he, if_true, Option.some.injEq] at h
      exact ⟨e, by simp, he, h⟩
    · simp only [he, if_false] at h
      obtain ⟨e', h1, h2, h3⟩ := ih n v h
      exact ⟨e', by simp [h1], h2, h3⟩

theorem mem_setTopLevel : ∀ (bs : List BlockEntry) (n : String) (l : Nat) (e' : BlockEntry),
    e' ∈ setTopLevel bs n l → ∃ e ∈ bs, e'.1 = e.1 ∧ e'.2.1 = e.2.1 := by
  intro bs
  induction bs with
  | nil => intro n l e' h; simp [setTopLevel] at h
  | cons e rest ih =>
    intro n l e' h
    unfold setTopLevel at h
    by_cases he : e.1 = n
    · simp only [he, if_true, List.mem_cons] at h
      rcases h with h | h
      · exact ⟨e, by simp, by rw [h]; exact he.symm, by rw [h]⟩
      · exact ⟨e', by simp [h], rfl, rfl⟩
    · simp only [he, if_false, List.mem_cons] at h
      rcases h with h | h
      · exact ⟨e, by simp, by rw [h], by rw [h]⟩
      · obtain ⟨e0, h1, h2, h3⟩ := ih n l e' h
        exact ⟨e0, by simp [h1], h2, h3⟩

/-- the block stack invariant, with "the current block has an entry" -/
def CtxOK' (env : REnv) (PO : String → Option (List String)) (V : String) (ctx : RCtx) : Prop :=
  CtxOK env PO V ctx ∧ ∀ cb, ctx.cur = some cb → (topEntry ctx.blocks cb).isSome = true

theorem blockBody_of_defines {env : REnv} {x b : String} (h : (definesBlock env.S x b).isSome = true) :
    ∃ ot bd, get env.S x = some ot ∧ ot.findBlock b = some bd ∧ blockBody env x b = some (bodyOfBlock ot bd) := by
  unfold definesBlock at h
  cases hg : get env.S x with
  | none => simp [hg] at h
  | some ot =>
    simp only [hg] at h
    cases hf : ot.findBlock b with
    | none => simp [hf] at h
    | some bd => exact ⟨ot, bd, rfl, hf, by simp [blockBody, hg, hf]⟩

theorem findBlock_mem {ot : Tpl} {b : String} {bd : BlockDef} (h : ot.findBlock b = some bd) :
    bd ∈ ot.blocks ∧ bd.name = b := by
  unfold Tpl.findBlock at h
  exact ⟨List.mem_of_find?_eq_some h, by simpa using List.find?_some h⟩

theorem runItems_no_lookup_failure (env : REnv) (PO : String → Option (List String)) (hv : EnvValid env PO)
    (rec : RCtx → List RItem → Except RErr String)
    (hrec : ∀ V ctx body, CtxOK' env PO V ctx → GoodItems env PO V body → ¬ LookupFailure (rec ctx body)) :
    ∀ (items : List RItem) (V : String) (ctx : RCtx), CtxOK' env PO V ctx → GoodItems env PO V items →
      ¬ LookupFailure (runItems env rec ctx items) := by
  intro items
  induction items with
  | nil => intro V ctx _ _; simp [runItems, LookupFailure]
  | cons it rest ih =>
    intro V ctx hctx hgood
    have hrest := ih V ctx hctx (fun x hx => hgood x (by simp [hx]))
    have hit := hgood it (by simp)
    obtain ⟨⟨hview, hVreg, hstack⟩, hcur⟩ := hctx
    cases it with
    | text s =>
      simp only [runItems]
      exact andThen_no_lookup_failure (by simp [LookupFailure]) hrest
    | inc n =>
      obtain ⟨r, u, hr, hu⟩ := hit
      simp only [runItems, hr, hu]
      have hn := get_name hu
      have hureg : has env.S u.name = true := has_iff_get.mpr ⟨u, by rw [hn]; exact hu⟩
      obtain ⟨p, hp⟩ := hv.po u.name hureg
      apply andThen_no_lookup_failure _ hrest
      apply hrec u.name
      · exact ⟨⟨rfl, hureg, by intro e he; cases he⟩, by intro cb h; cases h⟩
      · exact goodItems_bodyOfTpl (O := u.name) hv hp (by simp [chainOf]) (by rw [hn]; exact hu)
    | blk b =>
      obtain ⟨p, O, ot, bd, hp, hO, hot, hbd, rfl⟩ := hit
      obtain ⟨o, l, hl, hmem⟩ := hv.blk V p hVreg hp O hO ot hot bd hbd
      simp only [runItems, hview, hl]
      obtain ⟨oo, bb, hgo, hfb, hbody⟩ := blockBody_of_defines (hmem o (by simp)).2
      simp only [hbody]
      apply andThen_no_lookup_failure _ hrest
      apply hrec V
      · refine ⟨⟨rfl, hVreg, ?_⟩, ?_⟩
        · intro e he x hx
          rcases List.mem_cons.mp he with h | h
          · subst h
            obtain ⟨hx1, hx2⟩ := hmem x hx
            obtain ⟨xo, xb, hgx, hfx, _⟩ := blockBody_of_defines hx2
            exact ⟨p, xo, xb, hp, hx1, hgx, hfx⟩
          · exact hstack e h x hx
        · intro cb h
          simp only [Option.some.injEq] at h
          subst h
          simp [topEntry]
      · exact goodItems_bodyOfBlock hv hp (hmem o (by simp)).1 hgo (findBlock_mem hfb).1
    | sup =>
      simp only [runItems]
      cases hc : ctx.cur with
      | none => simp [LookupFailure]
      | some cb =>
        simp only
        obtain ⟨v, hvt⟩ := Option.isSome_iff_exists.mp (hcur cb hc)
        obtain ⟨L, lvl⟩ := v
        simp only [hvt]
        cases ho : L[lvl + 1]? with
        | none => simp [LookupFailure]
        | some o =>
          simp only
          obtain ⟨e, he, he1, he2⟩ := topEntry_mem _ _ _ hvt
          have hoL : o ∈ e.2.1 := by rw [he2]; exact List.mem_of_getElem? ho
          obtain ⟨p, ot, bd, hp, hch, hgo, hfb⟩ := hstack e he o hoL
          rw [he1] at hfb
          have hbody : blockBody env o cb = some (bodyOfBlock ot bd) := by simp [blockBody, hgo, hfb]
          simp only [hbody]
          apply andThen_no_lookup_failure _ hrest
          apply hrec V
          · refine ⟨⟨hview, hVreg, ?_⟩, ?_⟩
            · intro e' he' x hx
              obtain ⟨e0, h0, h1, h2⟩ := mem_setTopLevel _ _ _ e' he'
              rw [h2] at hx
              rw [h1]
              exact hstack e0 h0 x hx
            · intro cb' h
              simp only [Option.some.injEq] at h
              subst h
              rw [topEntry_setTopLevel _ _ _ _ _ hvt]; rfl
          · exact goodItems_bodyOfBlock hv hp hch hgo (findBlock_mem hfb).1
    | comp c =>
      obtain ⟨owner, ot, hown, hgo, hdef⟩ := hit
      simp only [runItems]
      by_cases hd : ctx.compDepth + 1 > MAX_COMPONENT_RECURSION_DEPTH
      · simp [hd, LookupFailure]
      · simp only [hd, if_false]
        obtain ⟨cd, hcd, hcn⟩ := List.mem_map.mp hdef
        have hfind : (ot.comps.find? (fun d => d.name == c)).isSome = true := by
          rw [List.find?_isSome]; exact ⟨cd, hcd, by simp [hcn]⟩
        obtain ⟨cd', hcd'⟩ := Option.isSome_iff_exists.mp hfind
        have hbody : compBody env c = some (bodyOfComp ot cd') := by
          unfold compBody
          have : (env.comps.find? (fun e => e.1 == c)).map (·.2) = some owner := hown
          simp [this, hgo, hcd']
        simp only [hbody]
        apply andThen_no_lookup_failure _ hrest
        apply hrec V
        · exact ⟨⟨hview, hVreg, by intro e he; cases he⟩, by intro cb h; cases h⟩
        · have hn := get_name hgo
          exact goodItems_bodyOfComp hv V (by rw [hn]; exact hgo) (List.mem_of_find?_eq_some hcd')

theorem run_no_lookup_failure (env : REnv) (PO : String → Option (List String)) (hv : EnvValid env PO) :
    ∀ (f : Nat) (V : String) (ctx : RCtx) (body : List RItem), CtxOK' env PO V ctx → GoodItems env PO V body →
      ¬ LookupFailure (run env f ctx body) := by
  intro f
  induction f with
  | zero => intro V ctx body _ _; simp [run, LookupFailure]
  | succ f ih =>
    intro V ctx body hc hg
    unfold run
    exact runItems_no_lookup_failure env PO hv (run env f) (fun V c b hc hg => ih V c b hc hg) body V ctx hc hg

end Tera.Reg
