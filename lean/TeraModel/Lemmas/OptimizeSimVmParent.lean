/-
Helper lemmas for C09Vm: a run does not depend on the `end_ip`s (nor on anything else that is not
a value) of the scopes in the include parent chain — `Include` chains the fresh state of the
included template to the includer's scope for reads only.  Proved for EVERY chunk (no listing, no
optimiser involved) from the per-instruction lemma with the identity renaming, by induction on the
nesting fuel.  Consequence: the part of the assumption on nested calls that concerns `Include` and
component calls (`FreshOK`) holds for `Vm.interp` at every depth.
-/
import TeraModel.Lemmas.OptimizeSimVmRun
set_option linter.unusedSectionVars false
set_option linter.unusedSimpArgs false
namespace Tera
namespace OptimizeSimVm
open Tera.Vm Tera.OptimizeVWF

theorem vmapTarget_id (vi : VInstr) : vmapTarget id vi = vi := by
  cases vi <;> rfl

theorem ren_id (c : Chunk) : Ren c c id := ⟨rfl, fun _ _ h _ => h⟩

theorem good_id (c : Chunk) (i : Nat) : Good c c id i := ⟨Or.inr (fun _ _ h => h), rfl⟩

theorem goodState_id (c : Chunk) (st : State) : GoodState c c id Eq st :=
  ⟨fun _ _ => ⟨good_id c _, good_id c _⟩, fun _ _ => ⟨rfl, Iff.rfl⟩⟩

/-- the chunk parameter of the result relation is irrelevant for the identity renaming -/
theorem runRelG_id_chunk {π : PMap} {c1 c2 : Chunk} {a b : RunRes}
    (h : RunRelG Eq π c1 c1 id Eq a b) : RunRelG Eq π c2 c2 id Eq a b := by
  cases a <;> cases b <;> first | exact h.elim | exact True.intro | exact h | skip
  exact ⟨h.1, goodState_id c2 _⟩

theorem outRelG_refl {E : RErr → RErr → Prop} (hE : ∀ e, E e e) (a : RunRes) : OutRelG E a a := by
  cases a <;> first | exact rfl | exact hE _ | exact True.intro

theorem OutRelG.mono {E E' : RErr → RErr → Prop} (h : ∀ e e', E e e' → E' e e') {a b : RunRes}
    (hab : OutRelG E a b) : OutRelG E' a b := by
  cases a <;> cases b <;> first | exact hab.elim | exact True.intro | exact h _ _ hab | exact hab

/-- the parent map "rename this scope" -/
def pmapOf (f : Nat → Nat) (π : PMap) : PMap := ⟨mapScopeP f π, mapScope_getValue f π⟩

theorem includeState_map (f : Nat → Nat) (π : PMap) (s : State) :
    includeState (mapStateP f π s) = mapStateP id (pmapOf f π) (includeState s) := by
  cases hs : s.scope with
  | mk loops sv p ctx g =>
    simp only [includeState, State.fresh, mapStateP, Scope.included, hs, mapScopeP, pmapOf,
      List.map_nil, Option.map_some, Scope.context]

section
variable (env : Env)

/-- the interpreter loop of ANY chunk, started on a state and on the state with its include parent
chain mapped: same turns, related results -/
theorem sim_id {π : PMap} {rec rec' : VmCtx → Chunk → State → RunRes} (vm : VmCtx) (c : Chunk)
    (hfr : FreshOK Eq π rec rec' c c id Eq) (hbl : BlockOK Eq π rec rec' c c id Eq) :
    ∀ (n pc : Nat) (st : State),
      RunRelG Eq π c c id Eq (runLoop rec env vm c n pc st) (runLoop rec' env vm c n pc (mapStateP id π st)) := by
  intro n
  induction n with
  | zero =>
    intro pc st
    cases hc : c.code[pc]? with
    | none => simp only [runLoop, hc]; exact ⟨rfl, goodState_id c st⟩
    | some e => simp only [runLoop, hc]; exact True.intro
  | succ n ih =>
    intro pc st
    cases hc : c.code[pc]? with
    | none => simp only [runLoop, hc]; exact ⟨rfl, goodState_id c st⟩
    | some e =>
      have hstep := step_keptG (E := Eq) (π := π) (fun _ => rfl) (ren_id c) hfr (f := id) (P := Eq) (pc := pc) (k := pc) rfl rfl
        (good_id c pc) rfl rfl (fun _ => rfl) env vm (goodState_id c st) e (fun t _ => ⟨rfl, Iff.rfl⟩)
        (fun _ => hbl)
      have he : (vmapTarget id e.1, e.2) = e := by rw [vmapTarget_id]
      rw [he] at hstep
      simp only [runLoop, hc]
      revert hstep
      cases step rec env vm c e pc st <;> cases step rec' env vm c e pc (mapStateP id π st) <;>
        intro hstep <;> first | exact hstep.elim | exact True.intro | exact hstep | skip
      obtain ⟨rfl, rfl, _⟩ := hstep
      exact ih _ _

/-- `Vm.interp` does not depend on the include parent chain beyond its values -/
theorem interp_parent (steps : Nat) : ∀ (d : Nat) (π : PMap) (vm : VmCtx) (ch : Chunk) (s : State),
    RunRelG Eq π ch ch id Eq (interp env steps d vm ch s) (interp env steps d vm ch (mapStateP id π s)) := by
  intro d
  induction d with
  | zero => intro π vm ch s; exact True.intro
  | succ d ih =>
    intro π vm ch s
    simp only [interp]
    apply sim_id env vm ch
    · constructor
      · intro vm2 ch2 s2 _
        rw [includeState_map]
        exact (ih (pmapOf id π) vm2 ch2 (includeState s2)).out
      · intro vm2 ch2 bound
        exact outRelG_refl (fun _ => rfl) _
    · intro vm2 bch s2 _
      exact runRelG_id_chunk (ih π vm2 bch s2)

/-- the `Include` / component part of the assumption on nested calls holds for `Vm.interp`, at
every depth, for every pair of chunks and every renaming -/
theorem freshOK_interp {E : RErr → RErr → Prop} (hE : ∀ e, E e e) (steps d : Nat) (π : PMap)
    (c c' : Chunk) (f : Nat → Nat) (P : Nat → Nat → Prop) :
    FreshOK E π (interp env steps d) (interp env steps d) c c' f P := by
  constructor
  · intro vm ch s _
    rw [includeState_map]
    exact OutRelG.mono (fun e e' h => h ▸ hE e) (interp_parent env steps d (pmapOf f π) vm ch (includeState s)).out
  · intro vm ch bound
    exact outRelG_refl hE _

end

end OptimizeSimVm
end Tera
