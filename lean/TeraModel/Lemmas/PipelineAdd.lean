/-
`Template::new` in the composed model never panics and never runs out of fuel (part of P4 of
Props/Pipeline.lean): lexer (`C06.lexer_ends_ok_or_err`) → adapter (`tokenize_shaped`) → parser
(`C06Parser.parser_total_no_panic`) → compiler (`C07Compile.compile_stack_discipline`, for scoped
ASTs) → optimiser and decoding (`storeChunk_nodes`).
-/
import TeraModel.Props.C06
import TeraModel.Props.C06Parser
import TeraModel.Lemmas.PipelineLex
import TeraModel.Lemmas.PipelineStore
namespace Tera.Pipeline
open Tera Utf8 Lexer WsFilter TParser

/-- what the parser→compiler bridge has to give for one token list: an accepted template is
scoped the way the compiler theorems assume -/
def ScopedOn (toks : List Tok) : Prop :=
  ∀ t s, TParser.parse Gen.MAX_RECURSION_DEPTH toks = .ok t s →
    Compiler.nodesScoped false t.nodes = true ∧
    ∀ d ∈ t.componentDefinitions, Compiler.nodesScoped false d.body = true

open Compiler in
/-- the compiler does not reach one of its two panic sites on a template whose node lists are
scoped (the part of `C07Compile.compile_stack_discipline` that does not need the third conjunct of
`templateScoped`, "a component's compiler records no block") -/
theorem compile_ok_of_scoped (t : Template) (hmain : nodesScoped false t.nodes = true)
    (hcomps : ∀ d ∈ t.componentDefinitions, nodesScoped false d.body = true) :
    ∃ c, compileTemplate t = .ok c := by
  have hall : AllE Good (allEvents t) := by
    simp only [allEvents, allE_append]
    refine ⟨scoped_good_aux.2.1 false 0 t.nodes false hmain (fun h => h), ?_⟩
    intro ev hev
    obtain ⟨cd, hcd, hev'⟩ := List.mem_flatMap.mp hev
    exact scoped_good_aux.2.1 false 0 cd.body false (hcomps cd hcd) (fun h => h) ev hev'
  have hnp : firstPanic (allEvents t) = none := by
    unfold firstPanic
    rw [List.findSome?_eq_none_iff]
    intro ev hev
    have := hall ev hev
    cases ev <;> simp [Event.isPanic, Good] at this ⊢
  unfold compileTemplate; rw [hnp]; exact ⟨_, rfl⟩

open Compiler in
/-- every chunk of a template with scoped node lists is the compilation of a scoped node list
(`Compiler.chunks_are_scoped_nodes` without the third conjunct of `templateScoped`) -/
theorem chunks_scoped_nodes (t : Template) (hmain : nodesScoped false t.nodes = true)
    (hcomps : ∀ d ∈ t.componentDefinitions, nodesScoped false d.body = true) (c : Compiled)
    (hc : compileTemplate t = .ok c) :
    ∀ ch ∈ c.chunks, ∃ ns, ch = nodesCode 0 none ns ∧ nodesScoped false ns = true := by
  unfold compileTemplate at hc
  split at hc
  · cases hc
  · cases hc
    intro ch hch
    simp only [Compiled.chunks, List.mem_cons, List.mem_append, List.mem_map] at hch
    rcases hch with rfl | ⟨⟨n, code⟩, hmem, rfl⟩ | ⟨_, ⟨cd, hmem, rfl⟩, rfl⟩
    · exact ⟨t.nodes, rfl, hmain⟩
    · have hgood := scoped_good_aux.2.1 false 0 t.nodes false hmain (fun h => h)
      simp only [blockDefs, bodyEvents, List.mem_filterMap] at hmem
      obtain ⟨ev, hev, hsome⟩ := hmem
      have := hgood ev hev
      cases ev <;> simp at hsome
      obtain ⟨rfl, rfl⟩ := hsome
      exact this
    · exact ⟨cd.body, rfl, hcomps cd hmem⟩

/-- the token list the composed model hands to the parser for a source -/
def parserInput (d : Delims) (src : Bytes) : List Tok :=
  toksOf (tokenize d src).tokens
    (match (tokenize d src).ending with | .error _ _ => true | _ => false)

/-- the front end answers a template or a syntax error; a template it answers is what the parser
model returns on `parserInput` -/
theorem front_total (d : Delims) (src : Bytes) (hd : d.accepted = true) (hv : valid src = true) :
    (∃ t s, front d src = .ok t ∧ TParser.parse Gen.MAX_RECURSION_DEPTH (parserInput d src) = .ok t s)
    ∨ front d src = .syntax := by
  have hend := C06.lexer_ends_ok_or_err d src hd hv
  have hte : (tokenize d src).ending = (basicTokenize d src).ending := rfl
  unfold front parserInput
  simp only
  rcases hend with h | ⟨e, sp, h⟩
  · rw [hte, h]
    simp only
    rcases C06Parser.parser_total_no_panic Gen.MAX_RECURSION_DEPTH _ (tokenize_shaped d src false)
      with ⟨t, s, hp⟩ | hp
    · rw [hp]; exact Or.inl ⟨t, s, rfl, rfl⟩
    · rw [hp]; exact Or.inr rfl
  · rw [hte, h]
    simp only
    rcases C06Parser.parser_total_no_panic Gen.MAX_RECURSION_DEPTH _ (tokenize_shaped d src true)
      with ⟨t, s, hp⟩ | hp
    · rw [hp]; exact Or.inl ⟨t, s, rfl, rfl⟩
    · rw [hp]; exact Or.inr rfl

/-- `Template::new`: a stored template or a syntax error -/
theorem newTemplate_total (d : Delims) (name : String) (src : Bytes) (hd : d.accepted = true)
    (hv : valid src = true) (hsc : ScopedOn (parserInput d src)) :
    (∃ td, newTemplate d name src = .ok td) ∨ newTemplate d name src = .syntax := by
  unfold newTemplate
  rcases front_total d src hd hv with ⟨t, s, hf, hp⟩ | hf
  · rw [hf]
    simp only
    obtain ⟨c, hc⟩ := compile_ok_of_scoped t (hsc t s hp).1 (hsc t s hp).2
    rw [hc]
    simp only
    obtain ⟨hmain, hblocks, hcomps⟩ := chunks_are_nodes t c hc
    obtain ⟨m, hm⟩ : ∃ ch, storeChunk name c.main = .ok ch := by
      rw [hmain]; exact storeChunk_nodes name t.nodes
    obtain ⟨bs, hbs⟩ := storeNamed_ok name c.blocks hblocks
    obtain ⟨cs, hcs⟩ := storeNamed_ok name c.components hcomps
    rw [hm, hbs, hcs]
    exact Or.inl ⟨_, rfl⟩
  · rw [hf]; exact Or.inr rfl

/-- the batch loop: all templates stored, or the syntax error of the first one that fails -/
theorem newAll_total (d : Delims) (hd : d.accepted = true) :
    ∀ (sources : List (String × Bytes)),
      (∀ p ∈ sources, valid p.2 = true ∧ ScopedOn (parserInput d p.2)) →
      (∃ tds, newAll d sources = .ok tds) ∨ ∃ n, newAll d sources = .error (.syntax n) := by
  intro sources
  induction sources with
  | nil => intro _; exact Or.inl ⟨[], rfl⟩
  | cons p rest ih =>
    intro h
    obtain ⟨name, src⟩ := p
    obtain ⟨hv, hsc⟩ := h (name, src) List.mem_cons_self
    unfold newAll
    rcases newTemplate_total d name src hd hv hsc with ⟨td, htd⟩ | hs
    · rw [htd]
      simp only
      rcases ih (fun q hq => h q (List.mem_cons_of_mem _ hq)) with ⟨tds, ht⟩ | ⟨n, hn⟩
      · rw [ht]; exact Or.inl ⟨_, rfl⟩
      · rw [hn]; exact Or.inr ⟨n, rfl⟩
    · rw [hs]; exact Or.inr ⟨name, rfl⟩

end Tera.Pipeline
