/-
`SoftFloat.roundDyadic` is IEEE-754 round-to-nearest-even to binary64: the lemmas behind
`Tera.C13Float.roundDyadic_nearest` (Props/C13Float.lean).

Everything is stated on integers, in units of `2^-1074` (the spacing of the subnormals) and
cross-multiplied by the denominator: the exact value `x = num/den` is `N/den` units with
`N = num * 2^1074`; a float with significand `m` and exponent `k - 1074` is `m * 2^k` units; the
distance between the two, multiplied by `den`, is `|N - m * (den * 2^k)|`.
-/
import TeraModel.Model.SoftFloat
import Mathlib.Tactic.Linarith
import Mathlib.Tactic.Ring
namespace Tera.SoftFloat
open F64

/-! ### `bitLen` -/

theorem lt_two_pow_bitLen (n : Nat) : n < 2 ^ bitLen n := by
  unfold bitLen
  split
  · subst_vars; simp
  · exact Nat.lt_log2_self

theorem two_pow_bitLen_le (n : Nat) (h : n ≠ 0) : 2 ^ (bitLen n - 1) ≤ n := by
  unfold bitLen
  simp only [h, if_false, Nat.add_sub_cancel]
  exact Nat.log2_self_le h

theorem bitLen_zero : bitLen 0 = 0 := by simp [bitLen]

/-! ### Rounding a quotient to the nearest integer, ties to even -/

/-- `err N m D = |N - m * D|`: the distance between `N/D` and the integer `m`, times `D`. -/
def err (N m D : Nat) : Nat := ((N : Int) - (m : Int) * (D : Int)).natAbs

theorem rne_step (N q r D m : Nat) (hN : N = q * D + r) (hr : r < D)
    (hm : m = if 2 * r > D || (2 * r == D && q % 2 == 1) then q + 1 else q) :
    2 * err N m D ≤ D ∧ (2 * err N m D = D → m % 2 = 0) ∧
    err N m D ≤ r ∧ err N m D ≤ D - r ∧ (r = 0 → m = q) ∧
    ((m = q ∧ err N m D = r) ∨ (m = q + 1 ∧ err N m D = D - r)) ∧
    (m % 2 = 1 → 2 * err N m D < D) := by
  unfold err
  by_cases c : (2 * r > D || (2 * r == D && q % 2 == 1)) = true
  · have hq : m = q + 1 := by rw [hm]; simp only [c, if_true]
    have hd : (N : Int) - (m : Int) * D = (r : Int) - D := by
      rw [hq, hN]; push_cast; ring
    rw [hd]
    have c' : 2 * r > D ∨ (2 * r = D ∧ q % 2 = 1) := by simpa using c
    refine ⟨by omega, ?_, by omega, by omega, by omega, Or.inr ⟨hq, by omega⟩, ?_⟩
    · intro he
      rcases c' with h | ⟨h1, h2⟩ <;> omega
    · intro ho
      rcases c' with h | ⟨h1, h2⟩ <;> omega
  · have hq : m = q := by rw [hm]; simp only [c]; simp
    have hd : (N : Int) - (m : Int) * D = (r : Int) := by
      rw [hq, hN]; push_cast; ring
    rw [hd]
    have c' : ¬ (2 * r > D ∨ (2 * r = D ∧ q % 2 = 1)) := by simpa using c
    refine ⟨by omega, ?_, by omega, by omega, fun _ => hq, Or.inl ⟨hq, by omega⟩, ?_⟩
    · intro he
      have : 2 * r = D := by omega
      omega
    · intro ho
      omega

theorem rneDiv_step (N D : Nat) (hD : 0 < D) :
    2 * err N (rneDiv N D) D ≤ D ∧ (2 * err N (rneDiv N D) D = D → rneDiv N D % 2 = 0) ∧
    err N (rneDiv N D) D ≤ N % D ∧ err N (rneDiv N D) D ≤ D - N % D ∧
    (N % D = 0 → rneDiv N D = N / D) ∧
    ((rneDiv N D = N / D ∧ err N (rneDiv N D) D = N % D) ∨
      (rneDiv N D = N / D + 1 ∧ err N (rneDiv N D) D = D - N % D)) ∧
    (rneDiv N D % 2 = 1 → 2 * err N (rneDiv N D) D < D) :=
  rne_step N (N / D) (N % D) D (rneDiv N D)
    (by rw [Nat.mul_comm]; exact (Nat.div_add_mod N D).symm) (Nat.mod_lt _ hD) rfl

/-- Distance of `N/D` to an integer `j` other than the two neighbours' better one. -/
theorem err_ge (N D j : Nat) (hD : 0 < D) :
    (j ≤ N / D → N % D ≤ err N j D) ∧ (N / D + 1 ≤ j → D - N % D ≤ err N j D) := by
  have hN : N = N / D * D + N % D := by rw [Nat.mul_comm]; exact (Nat.div_add_mod N D).symm
  have hr : N % D < D := Nat.mod_lt _ hD
  unfold err
  constructor
  · intro hj
    have h1 : j * D ≤ N / D * D := Nat.mul_le_mul_right D hj
    have h2 : (N : Int) = ((N / D * D : Nat) : Int) + ((N % D : Nat) : Int) := by
      exact_mod_cast hN
    have h3 : ((j * D : Nat) : Int) ≤ ((N / D * D : Nat) : Int) := by exact_mod_cast h1
    have h4 : ((j * D : Nat) : Int) = (j : Int) * (D : Int) := by push_cast; ring
    omega
  · intro hj
    have h1 : (N / D + 1) * D ≤ j * D := Nat.mul_le_mul_right D hj
    have h2 : (N : Int) = ((N / D * D : Nat) : Int) + ((N % D : Nat) : Int) := by
      exact_mod_cast hN
    have h3 : (((N / D + 1) * D : Nat) : Int) ≤ ((j * D : Nat) : Int) := by exact_mod_cast h1
    have h4 : ((j * D : Nat) : Int) = (j : Int) * (D : Int) := by push_cast; ring
    have h5 : (((N / D + 1) * D : Nat) : Int) = ((N / D * D : Nat) : Int) + (D : Int) := by
      push_cast; ring
    omega

/-- `rneDiv N D` is the integer nearest to `N/D`; an integer other than it is strictly farther
unless it is the other neighbour at a tie, in which case `rneDiv N D` is the even one. -/
theorem rneDiv_nearest (N D : Nat) (hD : 0 < D) (j : Nat) :
    err N (rneDiv N D) D ≤ err N j D ∧
    (j ≠ rneDiv N D → err N (rneDiv N D) D = err N j D → rneDiv N D % 2 = 0) := by
  obtain ⟨h1, h2, h3, h4, _, h6, h7⟩ := rneDiv_step N D hD
  obtain ⟨g1, g2⟩ := err_ge N D j hD
  have hr : N % D < D := Nat.mod_lt _ hD
  by_cases hj : j ≤ N / D
  · have := g1 hj
    refine ⟨by omega, ?_⟩
    intro hne he
    by_contra hodd
    have := h7 (by omega)
    rcases h6 with ⟨h, h'⟩ | ⟨h, h'⟩
    · -- m = q, j < q: err j ≥ r + D
      have hjq : j + 1 ≤ N / D := by omega
      have hN : N = N / D * D + N % D := by rw [Nat.mul_comm]; exact (Nat.div_add_mod N D).symm
      have h1' : (j + 1) * D ≤ N / D * D := Nat.mul_le_mul_right D hjq
      have e1 : ((j + 1) * D : Nat) = j * D + D := by ring
      have : err N j D = N - j * D := by
        unfold err
        have : ((j * D : Nat) : Int) = (j : Int) * (D : Int) := by push_cast; ring
        omega
      omega
    · omega
  · have hj' : N / D + 1 ≤ j := by omega
    have := g2 hj'
    refine ⟨by omega, ?_⟩
    intro hne he
    by_contra hodd
    have := h7 (by omega)
    rcases h6 with ⟨h, h'⟩ | ⟨h, h'⟩
    · omega
    · -- m = q + 1, j > q + 1: err j ≥ (D - r) + D
      have hjq : N / D + 2 ≤ j := by omega
      have hN : N = N / D * D + N % D := by rw [Nat.mul_comm]; exact (Nat.div_add_mod N D).symm
      have h1' : (N / D + 2) * D ≤ j * D := Nat.mul_le_mul_right D hjq
      have e1 : ((N / D + 2) * D : Nat) = N / D * D + D + D := by ring
      have : err N j D = j * D - N := by
        unfold err
        have : ((j * D : Nat) : Int) = (j : Int) * (D : Int) := by push_cast; ring
        omega
      omega

/-! ### The exponent chosen by `roundDyadic` -/

/-- `k = bitLen ⌊N/den⌋ - 53` leaves a quotient of at most 53 bits, and of exactly 53 bits
outside the subnormal range (`k > 0`). -/
theorem exp_facts (N den : Nat) :
    N / (den * 2 ^ (bitLen (N / den) - 53)) < 2 ^ 53 ∧
    (0 < bitLen (N / den) - 53 → 2 ^ 52 ≤ N / (den * 2 ^ (bitLen (N / den) - 53))) := by
  rw [← Nat.div_div_eq_div_mul]
  generalize N / den = Q
  generalize hk : bitLen Q - 53 = k
  have hlt := lt_two_pow_bitLen Q
  constructor
  · apply Nat.div_lt_of_lt_mul
    have : 2 ^ bitLen Q ≤ 2 ^ (k + 53) := Nat.pow_le_pow_right (by omega) (by omega)
    rw [Nat.pow_add] at this
    omega
  · intro hpos
    have hQ : Q ≠ 0 := by
      intro h; subst h; rw [bitLen_zero] at hk; omega
    have hle := two_pow_bitLen_le Q hQ
    rw [Nat.le_div_iff_mul_le (Nat.two_pow_pos k), ← Nat.pow_add]
    have : bitLen Q - 1 = 52 + k := by omega
    rw [this] at hle
    exact hle

/-! ### The rounded pair -/

/-- What it means for `m * 2^(k-1074)` to be the binary64 rounding (nearest, ties to even) of
`N / den` units of `2^-1074`, before the overflow check. -/
structure Rounded (N den m k : Nat) : Prop where
  /-- the significand has at most 53 bits -/
  lt : m < 2 ^ 53
  /-- normal (53 bits exactly) or in the subnormal binade (exponent -1074) -/
  normal_or_sub : 2 ^ 52 ≤ m ∨ k = 0
  /-- at most half a unit in the last place away -/
  half_ulp : 2 * err N m (den * 2 ^ k) ≤ den * 2 ^ k
  /-- exactly half a unit away only with an even significand -/
  tie_even : 2 * err N m (den * 2 ^ k) = den * 2 ^ k → m % 2 = 0
  /-- no 53-bit float of any exponent ≥ -1074 is nearer -/
  nearest : ∀ m' k', m' < 2 ^ 53 → err N m (den * 2 ^ k) ≤ err N m' (den * 2 ^ k')
  /-- if a different float is equally near, the significand chosen is even -/
  nearest_tie_even : ∀ m' k', m' < 2 ^ 53 → m' * 2 ^ k' ≠ m * 2 ^ k →
    err N m (den * 2 ^ k) = err N m' (den * 2 ^ k') → m % 2 = 0

theorem err_mul_assoc (N m j D : Nat) : err N (m * j) D = err N m (j * D) := by
  unfold err; push_cast; congr 1; ring

theorem err_of_le (N m D : Nat) (h : m * D ≤ N) : err N m D = N - m * D := by
  unfold err
  have : ((m * D : Nat) : Int) = (m : Int) * (D : Int) := by push_cast; ring
  omega

/-- The pair before the carry normalisation. -/
theorem round_pre (N den : Nat) (hd : 0 < den) :
    rneDiv N (den * 2 ^ (bitLen (N / den) - 53)) ≤ 2 ^ 53 ∧
    (2 ^ 52 ≤ rneDiv N (den * 2 ^ (bitLen (N / den) - 53)) ∨ bitLen (N / den) - 53 = 0) ∧
    (∀ m' k', m' < 2 ^ 53 →
      err N (rneDiv N (den * 2 ^ (bitLen (N / den) - 53))) (den * 2 ^ (bitLen (N / den) - 53))
        ≤ err N m' (den * 2 ^ k') ∧
      (m' * 2 ^ k' ≠ rneDiv N (den * 2 ^ (bitLen (N / den) - 53)) * 2 ^ (bitLen (N / den) - 53) →
        err N (rneDiv N (den * 2 ^ (bitLen (N / den) - 53))) (den * 2 ^ (bitLen (N / den) - 53))
          = err N m' (den * 2 ^ k') →
        rneDiv N (den * 2 ^ (bitLen (N / den) - 53)) % 2 = 0)) := by
  obtain ⟨hq1, hq2⟩ := exp_facts N den
  generalize bitLen (N / den) - 53 = k at *
  have hD : 0 < den * 2 ^ k := Nat.mul_pos hd (Nat.two_pow_pos k)
  generalize hDd : den * 2 ^ k = D at *
  obtain ⟨h1, h2, h3, h4, h5, h6, h7⟩ := rneDiv_step N D hD
  generalize hm : rneDiv N D = m at *
  refine ⟨by omega, ?_, ?_⟩
  · by_cases hk : k = 0
    · exact Or.inr hk
    · left; have := hq2 (by omega); omega
  · intro m' k' hm'
    by_cases hkk : k ≤ k'
    · -- the candidate is a multiple of the unit in the last place
      obtain ⟨d, rfl⟩ : ∃ d, k' = k + d := ⟨k' - k, by omega⟩
      have e1 : den * 2 ^ (k + d) = 2 ^ d * D := by rw [← hDd, Nat.pow_add]; ring
      rw [e1, ← err_mul_assoc]
      have hn := rneDiv_nearest N D hD (m' * 2 ^ d)
      rw [hm] at hn
      refine ⟨hn.1, fun hne he => hn.2 ?_ he⟩
      intro hc
      apply hne
      rw [← hc, Nat.pow_add]; ring
    · -- a finer candidate lies below the 53-bit quotient: strictly farther
      have hk0 : 0 < k := by omega
      have hq := hq2 hk0
      obtain ⟨d, rfl⟩ : ∃ d, k = k' + 1 + d := ⟨k - k' - 1, by omega⟩
      have hN : N = N / D * D + N % D := by rw [Nat.mul_comm]; exact (Nat.div_add_mod N D).symm
      -- m' * den * 2^k' < 2^52 * D ≤ q * D
      have e1 : D = den * 2 ^ k' * (2 * 2 ^ d) := by rw [← hDd, Nat.pow_add, Nat.pow_add]; ring
      have hpos : 0 < den * 2 ^ k' := Nat.mul_pos hd (Nat.two_pow_pos k')
      have hd1 : 1 ≤ 2 ^ d := Nat.one_le_two_pow
      have b1 : m' * (den * 2 ^ k') < 2 ^ 53 * (den * 2 ^ k') := Nat.mul_lt_mul_of_pos_right hm' hpos
      have b2 : 2 ^ 53 * (den * 2 ^ k') ≤ 2 ^ 52 * D := by
        rw [e1]
        have : 2 ^ 53 * (den * 2 ^ k') = 2 ^ 52 * (den * 2 ^ k' * (2 * 1)) := by ring
        rw [this]
        apply Nat.mul_le_mul_left
        apply Nat.mul_le_mul_left
        omega
      have b3 : 2 ^ 52 * D ≤ N / D * D := Nat.mul_le_mul_right D hq
      have hle : m' * (den * 2 ^ k') ≤ N := by omega
      rw [err_of_le N m' _ hle]
      constructor
      · omega
      · intro _ he
        omega

theorem err_carry (N den k : Nat) : err N (2 ^ 52) (den * 2 ^ (k + 1)) = err N (2 ^ 53) (den * 2 ^ k) := by
  unfold err; push_cast; congr 1; rw [pow_succ]; ring

/-- **`roundDyadic` rounds to nearest, ties to even.**  There is a pair `(m, k)` — significand and
exponent `k - 1074` — that is the rounding of `num/den` in the sense of `Rounded`, and
`roundDyadic` returns that float, or infinity exactly when `k > 2045` (exponent above 971, i.e.
rounded magnitude `≥ 2^1024`). -/
theorem roundDyadic_spec (neg : Bool) (num den : Nat) (hd : 0 < den) :
    ∃ m k, Rounded (num * 2 ^ 1074) den m k ∧
      roundDyadic neg num den = if k ≤ 2045 then .fin neg m ((k : Int) - 1074) else .inf neg := by
  have hunf : roundDyadic neg num den =
      if (if rneDiv (num * 2 ^ 1074) (den * 2 ^ (bitLen (num * 2 ^ 1074 / den) - 53)) = 2 ^ 53
            then bitLen (num * 2 ^ 1074 / den) - 53 + 1 else bitLen (num * 2 ^ 1074 / den) - 53) > 2045
      then .inf neg
      else .fin neg
        (if rneDiv (num * 2 ^ 1074) (den * 2 ^ (bitLen (num * 2 ^ 1074 / den) - 53)) = 2 ^ 53
          then 2 ^ 52 else rneDiv (num * 2 ^ 1074) (den * 2 ^ (bitLen (num * 2 ^ 1074 / den) - 53)))
        (((if rneDiv (num * 2 ^ 1074) (den * 2 ^ (bitLen (num * 2 ^ 1074 / den) - 53)) = 2 ^ 53
            then bitLen (num * 2 ^ 1074 / den) - 53 + 1 else bitLen (num * 2 ^ 1074 / den) - 53 : Nat) : Int)
          - 1074) := by
    unfold roundDyadic
    rw [if_neg (Nat.ne_of_gt hd)]
  rw [hunf]
  generalize num * 2 ^ 1074 = N
  obtain ⟨p1, p2, p3⟩ := round_pre N den hd
  have hD : 0 < den * 2 ^ (bitLen (N / den) - 53) := Nat.mul_pos hd (Nat.two_pow_pos _)
  obtain ⟨h1, h2, _, _, _, _, _⟩ := rneDiv_step N (den * 2 ^ (bitLen (N / den) - 53)) hD
  generalize bitLen (N / den) - 53 = k at *
  generalize hm : rneDiv N (den * 2 ^ k) = m at *
  by_cases hc : m = 2 ^ 53
  · -- carry into the next binade
    refine ⟨2 ^ 52, k + 1, ?_, ?_⟩
    · subst hc
      refine ⟨by omega, Or.inl (Nat.le_refl _), ?_, fun _ => by decide, ?_, ?_⟩
      · rw [err_carry]
        have : den * 2 ^ k ≤ den * 2 ^ (k + 1) := Nat.mul_le_mul_left _ (Nat.pow_le_pow_right (by omega) (by omega))
        omega
      · intro m' k' hm'
        rw [err_carry]; exact (p3 m' k' hm').1
      · intro m' k' hm' _ _; decide
    · simp only [hc, if_true]
      by_cases hk : k + 1 ≤ 2045
      · have : ¬ (k + 1 > 2045) := by omega
        simp only [this, hk, if_true, if_false]
      · have : k + 1 > 2045 := by omega
        simp only [this, hk, if_true, if_false]
  · refine ⟨m, k, ?_, ?_⟩
    · refine ⟨by omega, p2, h1, h2, fun m' k' hm' => (p3 m' k' hm').1,
        fun m' k' hm' hne he => (p3 m' k' hm').2 hne he⟩
    · simp only [hc, if_false]
      by_cases hk : k ≤ 2045
      · have : ¬ (k > 2045) := by omega
        simp only [this, hk, if_true, if_false]
      · have : k > 2045 := by omega
        simp only [this, hk, if_true, if_false]

/-- A value that is itself a 53-bit float (exponent ≥ -1074) is returned unchanged. -/
theorem Rounded.exact {N den m k : Nat} (h : Rounded N den m k) (hd : 0 < den) (m' k' : Nat)
    (hm' : m' < 2 ^ 53) (hN : N = m' * 2 ^ k' * den) : m * 2 ^ k = m' * 2 ^ k' := by
  have h0 : err N m' (den * 2 ^ k') = 0 := by
    unfold err; rw [hN]; push_cast
    have : (m' : Int) * 2 ^ k' * (den : Int) - (m' : Int) * ((den : Int) * 2 ^ k') = 0 := by ring
    rw [this]; rfl
  have h1 := h.nearest m' k' hm'
  rw [h0] at h1
  have h2 : err N m (den * 2 ^ k) = 0 := by omega
  unfold err at h2
  have h3 : (N : Int) - (m : Int) * ((den * 2 ^ k : Nat) : Int) = 0 := Int.natAbs_eq_zero.mp h2
  have h4 : (N : Int) = ((m * (den * 2 ^ k) : Nat) : Int) := by push_cast at h3 ⊢; linarith
  have h5 : N = m * (den * 2 ^ k) := by exact_mod_cast h4
  rw [hN] at h5
  have h6 : den * (m' * 2 ^ k') = den * (m * 2 ^ k) := by rw [← Nat.mul_comm (m' * 2 ^ k'), h5]; ring
  exact (Nat.eq_of_mul_eq_mul_left hd h6).symm

/-- Overflow (`k > 2045`, exponent above 971) happens exactly when the rounded magnitude
`m * 2^(k-1074)` reaches `2^1024` (`2^2098` units). -/
theorem Rounded.overflow_iff {N den m k : Nat} (h : Rounded N den m k) :
    2045 < k ↔ 2 ^ 2098 ≤ m * 2 ^ k := by
  constructor
  · intro hk
    have hm : 2 ^ 52 ≤ m := by
      rcases h.normal_or_sub with h' | h'
      · exact h'
      · omega
    have h1 : 2 ^ 52 * 2 ^ 2046 ≤ m * 2 ^ k :=
      Nat.mul_le_mul hm (Nat.pow_le_pow_right (by omega) (by omega))
    have h4 : 2 ^ 2098 = 2 ^ 52 * 2 ^ 2046 := by rw [← Nat.pow_add]
    omega
  · intro hge
    by_contra hk
    have h2 : m * 2 ^ k < 2 ^ 53 * 2 ^ k := Nat.mul_lt_mul_of_pos_right h.lt (Nat.two_pow_pos _)
    have h3 : 2 ^ 53 * 2 ^ k ≤ 2 ^ 53 * 2 ^ 2045 :=
      Nat.mul_le_mul_left _ (Nat.pow_le_pow_right (by omega) (by omega))
    have h4 : 2 ^ 53 * 2 ^ 2045 = 2 ^ 2098 := by rw [← Nat.pow_add]
    omega

end Tera.SoftFloat
