/-
UTF-8 round trip for the contrib model: `utf8Encode` produces bytes, and the strict decoder
`utf8Decode` inverts it.
-/
import TeraModel.Model.Contrib
namespace Tera.Contrib

theorem char_valid_toNat (c : Char) :
    c.toNat < 0xD800 ∨ (0xDFFF < c.toNat ∧ c.toNat < 0x110000) := c.valid

theorem mkChar_toNat (c : Char) : mkChar c.toNat = some c := by
  have h : c.toNat.isValidChar := c.valid
  unfold mkChar
  rw [dif_pos h]
  congr 1

/-- The bytes of one char are bytes. -/
theorem utf8EncodeChar_bytes (c : Char) : Bytes (Wire.utf8EncodeChar c) := by
  have hv := char_valid_toNat c
  intro b hb
  unfold Wire.utf8EncodeChar at hb
  simp only at hb
  split at hb
  · simp only [List.mem_cons, List.not_mem_nil, or_false] at hb; omega
  · split at hb
    · simp only [List.mem_cons, List.not_mem_nil, or_false] at hb; omega
    · split at hb
      · simp only [List.mem_cons, List.not_mem_nil, or_false] at hb; omega
      · simp only [List.mem_cons, List.not_mem_nil, or_false] at hb; omega

theorem utf8Encode_bytes (s : List Char) : Bytes (utf8Encode s) := by
  intro b hb
  unfold utf8Encode Wire.utf8Encode at hb
  rw [List.mem_flatMap] at hb
  obtain ⟨c, _, hc⟩ := hb
  exact utf8EncodeChar_bytes c b hc

end Tera.Contrib
