/-
UTF-8 round trip for the contrib model: `utf8Encode` produces bytes, and the strict decoder
`utf8Decode` inverts it.
-/
import TeraModel.Model.Contrib
namespace Tera.Contrib

theorem char_valid_toNat (c : Char) :
    c.toNat < 0xD800 ∨ (0xDFFF < c.toNat ∧ c.toNat < 0x110000) := c.valid

theorem mkChar_toNat (c : Char) : mkChar c.toNat = some c := by
  have h : c.toNat.isValidChar := c.valid
  unfold mkChar
  rw [dif_pos h]
  congr 1

/-- The bytes of one char are bytes. -/
theorem utf8EncodeChar_bytes (c : Char) : Bytes (Wire.utf8EncodeChar c) := by
  have hv := char_valid_toNat c
  intro b hb
  unfold Wire.utf8EncodeChar at hb
  simp only at hb
  split at hb
  · simp only [List.mem_cons, List.not_mem_nil, or_false] at hb; omega
  · split at hb
    · simp only [List.mem_cons, List.not_mem_nil, or_false] at hb; omega
    · split at hb
      · simp only [List.mem_cons, List.not_mem_nil, or_false] at hb; omega
      · simp only [List.mem_cons, List.not_mem_nil, or_false] at hb; omega

theorem utf8Encode_bytes (s : List Char) : Bytes (utf8Encode s) := by
  intro b hb
  unfold utf8Encode Wire.utf8Encode at hb
  rw [List.mem_flatMap] at hb
  obtain ⟨c, _, hc⟩ := hb
  exact utf8EncodeChar_bytes c b hc

/-! ### Unfolding `utf8Decode` one step

`utf8Decode` is compiled by structural recursion (`List.brecOn … utf8Decode._f`).  Its equation
lemmas cannot be generated (`utf8Decode.eq_def` runs out of recursion depth), and a plain `rfl`
unfolding makes the kernel reduce the matcher on `mkChar (… * 262144 + …)` with open terms, i.e.
evaluate `Nat.mul _ 262144` in unary (~20 s).  So the step is unfolded by hand: the `brecOn`
plumbing generically in the functional `F`, then `utf8Decode._f` with the table of recursive
results kept opaque (`f_gen`), so that every `match mkChar _, _ with` node is only ever rewritten
propositionally until its first discriminant is `some c`. -/

universe u v

private theorem brecOn_cons {α : Type u} {motive : List α → Sort v}
    (F : (t : List α) → List.below (motive := motive) t → motive t) (b : α) (rest : List α) :
    List.brecOn (b :: rest) F = F (b :: rest) (List.brecOn.go rest F) := rfl

private theorem go_cons {α : Type u} {motive : List α → Sort v}
    (F : (t : List α) → List.below (motive := motive) t → motive t) (h : α) (t : List α) :
    List.brecOn.go (h :: t) F = ⟨List.brecOn (h :: t) F, List.brecOn.go t F⟩ := rfl

private theorem go_eta {α : Type u} {motive : List α → Sort v}
    (F : (t : List α) → List.below (motive := motive) t → motive t) (l : List α) :
    List.brecOn.go l F = ⟨List.brecOn l F, (List.brecOn.go l F).2⟩ := rfl

theorem utf8Decode_def (l : List Nat) : List.brecOn l utf8Decode._f = utf8Decode l := by
  delta utf8Decode
  rfl

theorem utf8Decode_cons_f (b : Nat) (rest : List Nat) :
    utf8Decode (b :: rest) = utf8Decode._f (b :: rest) (List.brecOn.go rest utf8Decode._f) := by
  rw [← utf8Decode_def, brecOn_cons]

/-- generalise the table of recursive results -/
private theorem f_gen (L : List Nat) (g : List.below (motive := fun _ => Option (List Char)) L)
    (R : Option (List Char)) (h : ∀ g', g = g' → utf8Decode._f L g' = R) :
    utf8Decode._f L g = R := h g rfl

/-- the `match mkChar _, utf8Decode _ with` of `utf8Decode`, through the matcher it uses -/
def consOpt (a : Option Char) (b : Option (List Char)) : Option (List Char) :=
  utf8Decode.match_1 (fun _ _ => Option (List Char)) a b (fun c cs => some (c :: cs))
    (fun _ _ => none)

theorem consOpt_some (c : Char) (o : Option (List Char)) :
    consOpt (some c) o = o.map (c :: ·) := by
  cases o <;> rfl

theorem isCont_low (k : Nat) : isCont (0x80 + k % 64) = true := by
  simp [isCont]; omega

/-- Decoding the encoding of one char followed by `rest`. -/
theorem utf8Decode_encodeChar_append (c : Char) (rest : List Nat) :
    utf8Decode (Wire.utf8EncodeChar c ++ rest) = (utf8Decode rest).map (c :: ·) := by
  have hv := char_valid_toNat c
  have hm := mkChar_toNat c
  unfold Wire.utf8EncodeChar
  simp only
  split
  · -- 1 byte
    rename_i h1
    rw [List.cons_append, List.nil_append, utf8Decode_cons_f, go_eta, utf8Decode_def]
    refine f_gen _ _ _ (fun g hg => ?_)
    dsimp only [utf8Decode._f]
    rw [if_pos h1, hm]
    subst hg
    exact consOpt_some _ _
  · rename_i h1
    split
    · -- 2 bytes
      rename_i h2
      have e : (0xC0 + c.toNat / 64 - 0xC0) * 64 + (0x80 + c.toNat % 64 - 0x80) = c.toNat := by
        omega
      simp only [List.cons_append, List.nil_append]
      rw [utf8Decode_cons_f, go_cons, go_eta]
      refine f_gen _ _ _ (fun g hg => ?_)
      dsimp only [utf8Decode._f]
      rw [if_neg (by omega), if_neg (by omega), if_pos (by omega), if_pos (isCont_low _), e, hm]
      subst hg
      rw [utf8Decode_def rest]
      exact consOpt_some _ _
    · rename_i h2
      split
      · -- 3 bytes
        rename_i h3
        have e : (0xE0 + c.toNat / 4096 - 0xE0) * 4096 + (0x80 + c.toNat / 64 % 64 - 0x80) * 64
            + (0x80 + c.toNat % 64 - 0x80) = c.toNat := by omega
        have hcc : (isCont (0x80 + c.toNat / 64 % 64) && isCont (0x80 + c.toNat % 64)) = true := by
          rw [isCont_low, isCont_low]; rfl
        simp only [List.cons_append, List.nil_append]
        rw [utf8Decode_cons_f, go_cons, go_cons, go_eta]
        refine f_gen _ _ _ (fun g hg => ?_)
        dsimp only [utf8Decode._f]
        rw [if_neg (by omega), if_neg (by omega), if_neg (by omega), if_pos (by omega),
          if_pos hcc, e, if_neg h2, hm]
        subst hg
        rw [utf8Decode_def rest]
        exact consOpt_some _ _
      · -- 4 bytes
        rename_i h3
        have e : (0xF0 + c.toNat / 262144 - 0xF0) * 262144
            + (0x80 + c.toNat / 4096 % 64 - 0x80) * 4096
            + (0x80 + c.toNat / 64 % 64 - 0x80) * 64
            + (0x80 + c.toNat % 64 - 0x80) = c.toNat := by omega
        have hcc : (isCont (0x80 + c.toNat / 4096 % 64) && isCont (0x80 + c.toNat / 64 % 64)
            && isCont (0x80 + c.toNat % 64)) = true := by
          rw [isCont_low, isCont_low, isCont_low]; rfl
        simp only [List.cons_append, List.nil_append]
        rw [utf8Decode_cons_f, go_cons, go_cons, go_cons, go_eta]
        refine f_gen _ _ _ (fun g hg => ?_)
        dsimp only [utf8Decode._f]
        rw [if_neg (by omega), if_neg (by omega), if_neg (by omega), if_neg (by omega),
          if_pos (by omega), if_pos hcc, e, if_neg h3, hm]
        subst hg
        rw [utf8Decode_def rest]
        exact consOpt_some _ _

theorem utf8Decode_encode (s : List Char) : utf8Decode (utf8Encode s) = some s := by
  unfold utf8Encode Wire.utf8Encode
  induction s with
  | nil => rfl
  | cons c cs ih =>
    rw [List.flatMap_cons, utf8Decode_encodeChar_append, ih]
    rfl

end Tera.Contrib
