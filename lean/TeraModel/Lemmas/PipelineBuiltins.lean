/-
The built-in instance of the whole-engine model (Model/PipelineBuiltins.lean) never panics: the
hypothesis `BuiltinsNoPanic` of P5 (`Pipeline.render_never_panics`) discharged for the built-ins
that are modelled in Lean.  From `C17.builtins_never_panic` (every modelled filter and test, on
every receiver whose scalar payload is in range and every keyword arguments), `C17.range_never_panics`
and `C17.throw_contract`; the filters written out in the dispatch (`safe str length reverse first
last nth join keys values pairs split`) answer values or error classes by construction.
-/
import TeraModel.Props.C17
import TeraModel.Lemmas.PipelineEnv
import TeraModel.Model.PipelineBuiltins
namespace Tera.Pipeline.BuiltinsM
open Tera Tera.Vm Tera.Builtins Tera.Args

theorem ofBErr_np (e : BErr) : (ofBErr e).isPanic = false := by cases e <;> rfl

theorem ofOutcome_np {o : Builtins.Outcome} (h : ∀ s, o ≠ .panic s) : (ofOutcome o).isPanic = false := by
  cases o with
  | ok v => rfl
  | err e => exact ofBErr_np e
  | panic s => exact absurd rfl (h s)
  | unmodelled => rfl

theorem callFilterM_np (fmt : F64 → List Char) (name : String) (v : Value) (kw : List (String × Value)) :
    (callFilterM fmt name v kw).isPanic = false := by
  unfold callFilterM
  simp only
  cases hl : lookup (filterTable asciiParams) name with
  | none => rfl
  | some b =>
    simp only
    by_cases hw : v.scalarWF
    · simp only [hw, not_true_eq_false, if_false]
      cases hc : b.recv.check v with
      | error e => exact ofBErr_np e
      | ok u =>
        have hbody : ∀ s, b.body v kw ≠ .panic s := by
          intro s
          have := C17.builtins_never_panic asciiParams name b (Or.inl hl) v kw hw s
          simpa [Builtin.apply, hc] using this
        simp only
        repeat' split
        all_goals first
          | rfl
          | exact ofBErr_np _
          | exact ofOutcome_np hbody
    · simp only [hw, not_false_eq_true, if_true]
      rfl

theorem callTestM_np (name : String) (v : Value) (kw : List (String × Value)) :
    (callTestM name v kw).isPanic = false := by
  unfold callTestM
  cases hl : lookup testTable name with
  | none => rfl
  | some b =>
    simp only
    by_cases hw : v.scalarWF
    · simp only [hw, not_true_eq_false, if_false]
      exact ofOutcome_np (fun s => C17.builtins_never_panic asciiParams name b (Or.inr hl) v kw hw s)
    · simp only [hw, not_false_eq_true, if_true]
      rfl

theorem callFunctionM_np (name : String) (kw : List (String × Value)) :
    (callFunctionM name kw).isPanic = false := by
  unfold callFunctionM
  cases hl : lookup (functionTable Generated.Builtins.MAX_RANGE_LEN) name with
  | none => rfl
  | some b =>
    simp only
    apply ofOutcome_np
    intro s
    simp only [functionTable, lookup] at hl
    split at hl
    · cases hl
      simp only [Builtin.apply, ArgTy.check]
      exact C17.range_never_panics kw s
    · split at hl
      · cases hl
        simp only [Builtin.apply, ArgTy.check]
        obtain ⟨e, he⟩ := C17.throw_contract kw
        rw [he]; simp
      · cases hl

/-- **the built-ins of the composed model never panic**: `BuiltinsNoPanic` holds for the Lean-side
instance, for every float printer and every float arithmetic -/
theorem builtinsNoPanic_model (fmt : F64 → List Char) (F : FloatOps) :
    BuiltinsNoPanic (model fmt F) :=
  ⟨fun n v kw => callFilterM_np fmt n v kw, fun n v kw => callTestM_np n v kw,
   fun n kw => callFunctionM_np n kw⟩

end Tera.Pipeline.BuiltinsM
