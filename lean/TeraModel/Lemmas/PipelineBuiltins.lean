/-
The built-in instance of the whole-engine model (Model/PipelineBuiltins.lean) never panics: the
hypothesis `BuiltinsNoPanic` of P5 (`Pipeline.render_never_panics`) discharged for the built-ins
that are modelled in Lean.  From `C17.builtins_never_panic` (every modelled filter and test, on
every receiver whose scalar payload is in range and every keyword arguments), `C17.range_never_panics`
and `C17.throw_contract`; the filters written out in the dispatch (`safe str length reverse first
last nth join keys values pairs split sort unique group_by`, the models of C16) and the
`containing` test of C15 answer values or error classes by construction: their models have no
panic outcome.  The one panic source std documents for them — `slice::sort_by` with a comparison
that is not a total order — is excluded by `C16_sort_by_precondition` (cited below as
`sort_comparison_is_total_order`); the `BTreeSet` of `unique` relies on the same theorem.
-/
import TeraModel.Props.C17
import TeraModel.Props.C16
import TeraModel.Props.C15
import TeraModel.Lemmas.PipelineEnv
import TeraModel.Model.PipelineBuiltins
namespace Tera.Pipeline.BuiltinsM
open Tera Tera.Vm Tera.Builtins Tera.Args

theorem ofBErr_np (e : BErr) : (ofBErr e).isPanic = false := by cases e <;> rfl

theorem ofOutcome_np {o : Builtins.Outcome} (h : ∀ s, o ≠ .panic s) : (ofOutcome o).isPanic = false := by
  cases o with
  | ok v => rfl
  | err e => exact ofBErr_np e
  | panic s => exact absurd rfl (h s)
  | unmodelled => rfl

theorem callFilterM_np (fmt : F64 → List Char) (name : String) (v : Value) (kw : List (String × Value)) :
    (callFilterM fmt name v kw).isPanic = false := by
  unfold callFilterM
  simp only
  cases hl : lookup (filterTable caseParams) name with
  | none => rfl
  | some b =>
    simp only
    by_cases hw : v.scalarWF
    · simp only [hw, not_true_eq_false, if_false]
      cases hc : b.recv.check v with
      | error e => exact ofBErr_np e
      | ok u =>
        have hbody : ∀ s, b.body v kw ≠ .panic s := by
          intro s
          have := C17.builtins_never_panic caseParams name b (Or.inl hl) v kw hw s
          simpa [Builtin.apply, hc] using this
        simp only
        repeat' split
        all_goals first
          | rfl
          | exact ofBErr_np _
          | exact ofOutcome_np hbody
    · simp only [hw, not_false_eq_true, if_true]
      rfl

theorem containingM_np (v pat : Value) : (containingM v pat).isPanic = false := by
  unfold containingM; split <;> rfl

theorem callTestM_np (name : String) (v : Value) (kw : List (String × Value)) :
    (callTestM name v kw).isPanic = false := by
  unfold callTestM
  cases hl : lookup testTable name with
  | none => rfl
  | some b =>
    simp only
    by_cases hw : v.scalarWF
    · simp only [hw, not_true_eq_false, if_false]
      have hb : ∀ s, b.apply v kw ≠ .panic s :=
        fun s => C17.builtins_never_panic asciiParams name b (Or.inr hl) v kw hw s
      repeat' split
      all_goals first
        | rfl
        | exact ofBErr_np _
        | exact containingM_np _ _
        | exact ofOutcome_np hb
    · simp only [hw, not_false_eq_true, if_true]
      rfl

theorem callFunctionM_np (name : String) (kw : List (String × Value)) :
    (callFunctionM name kw).isPanic = false := by
  unfold callFunctionM
  cases hl : lookup (functionTable Generated.Builtins.MAX_RANGE_LEN) name with
  | none => rfl
  | some b =>
    simp only
    apply ofOutcome_np
    intro s
    simp only [functionTable, lookup] at hl
    split at hl
    · cases hl
      simp only [Builtin.apply, ArgTy.check]
      exact C17.range_never_panics kw s
    · split at hl
      · cases hl
        simp only [Builtin.apply, ArgTy.check]
        obtain ⟨e, he⟩ := C17.throw_contract kw
        rw [he]; simp
      · cases hl

/-- The comparison `sort` hands to `slice::sort_by` (and `unique` to its `BTreeSet`) is a total
order on every well-formed value (C16): the precondition under which std promises not to panic. -/
theorem sort_comparison_is_total_order : OrdLaws Value.WF Value.cmp := C16.C16_sort_by_precondition

/-- The constant hasher of the instance is no assumption: a lookup answers the same for every
hasher (C15). -/
theorem hasher_irrelevant {β : Type} (H : List HashTok → Nat) (k : KeyRepr) (m : List (Key × β)) :
    Map.hashGet H k m = Map.hashGet hasher k m := by
  rw [Map.hashGet_eq_get, Map.hashGet_eq_get]

/-- **the built-ins of the composed model never panic**: `BuiltinsNoPanic` holds for the Lean-side
instance, for every float printer and every float arithmetic -/
theorem builtinsNoPanic_model (fmt : F64 → List Char) (F : FloatOps) :
    BuiltinsNoPanic (model fmt F) :=
  ⟨fun n v kw => callFilterM_np fmt n v kw, fun n v kw => callTestM_np n v kw,
   fun n kw => callFunctionM_np n kw⟩

end Tera.Pipeline.BuiltinsM
