/-
Compiler correctness (Props/Refine.lean), part 1: the vocabulary.

* `EntryAt` / `CodeAt c base code`: the chunk `c` the VM model runs (Model/VmState.lean
  `Vm.Chunk`, typed instructions with spans) holds the compiled code `code` (Model/Compiler.lean
  `Code`, `CInstr × hasSpan`) at instruction index `base`: instruction by instruction, the typed
  instruction is the pipeline adapter's image (`Pipeline.vinstr`, Model/Pipeline.lean) of the
  compiled instruction, and it has a span exactly when the compiler added it with one.
  `exprCode base …` writes absolute jump operands computed from `base`, so "the code of `e`
  compiled at `base` sits at `base`" is the position-independence statement the jumps need.
* `Run … pc st tr pc' st'`: the interpreter loop (`Vm.runLoop`) goes from `(pc, st)` to `(pc', st')`
  executing exactly the instructions at the indices `tr` (in order); `Run.runLoop`: with
  `tr.length + k` units of step fuel the loop is where it would be with `k` units from `(pc', st')`.
* `Fails … pc st tr re`: the loop executes the instructions at `tr`, the last of which returns the
  rendering error `re`; `Fails.runLoop`: any fuel `≥ tr.length` gives `RunRes.err re` (so: not a
  panic, not `unmodelled`, not out of fuel).
* `SpanOk c r`: both ends of a stack slot's span range are instructions with a span, which is what
  `rendering_error!` needs to not panic (`expand_span`).
-/
import TeraModel.Model.Pipeline
import TeraModel.Model.Eval
import TeraModel.Lemmas.VmSim
namespace Tera.Refine
open Tera Tera.Vm Tera.Compiler

/-! ### code placement -/

/-- instruction `pc` of the chunk is the compiled entry `ce` -/
def EntryAt (c : Chunk) (pc : Nat) (ce : CEntry) : Prop :=
  ∃ vi sps, Pipeline.vinstr ce.1 = some vi ∧ c.code[pc]? = some (vi, sps) ∧ sps.isEmpty = !ce.2

/-- the chunk holds `code` at index `base` -/
def CodeAt (c : Chunk) : Nat → Code → Prop
  | _, [] => True
  | base, ce :: rest => EntryAt c base ce ∧ CodeAt c (base + 1) rest

theorem CodeAt.append {c : Chunk} : ∀ {a : Code} {base : Nat} {b : Code},
    CodeAt c base (a ++ b) ↔ CodeAt c base a ∧ CodeAt c (base + a.length) b
  | [], base, b => by simp [CodeAt]
  | x :: a, base, b => by
    simp only [List.cons_append, CodeAt, List.length_cons]
    rw [CodeAt.append (a := a)]
    have : base + 1 + a.length = base + (a.length + 1) := by omega
    rw [this, and_assoc]

theorem CodeAt.single {c : Chunk} {base : Nat} {ce : CEntry} : CodeAt c base [ce] ↔ EntryAt c base ce := by
  simp [CodeAt]

/-- a chunk that is literally `pre ++ code' ++ post` where `code'` is the image of `code` -/
def embed (code : Code) : Option (List VEntry) :=
  code.mapM fun ce => (Pipeline.vinstr ce.1).map fun vi => (vi, Pipeline.spansOf ce.2)

theorem codeAt_of_embed {name : String} : ∀ {code : Code} {pre vcode post : List VEntry},
    embed code = some vcode →
    CodeAt { name := name, code := pre ++ vcode ++ post } pre.length code
  | [], _, _, _, _ => trivial
  | ce :: rest, pre, vcode, post, h => by
    simp only [embed, List.mapM_cons, Option.bind_eq_bind, Option.pure_def] at h
    cases hv : Pipeline.vinstr ce.1 with
    | none => simp [hv] at h
    | some vi =>
      simp only [hv, Option.map_some, Option.bind_some] at h
      cases hr : List.mapM (fun ce => (Pipeline.vinstr ce.1).map fun vi => (vi, Pipeline.spansOf ce.2)) rest with
      | none => simp [hr] at h
      | some vrest =>
        simp only [hr, Option.bind_some, Option.some.injEq] at h
        subst h
        refine ⟨⟨vi, Pipeline.spansOf ce.2, hv, ?_, ?_⟩, ?_⟩
        · simp
        · cases ce.2 <;> simp [Pipeline.spansOf]
        · have := codeAt_of_embed (name := name) (code := rest) (pre := pre ++ [(vi, Pipeline.spansOf ce.2)])
            (vcode := vrest) (post := post) hr
          simpa using this

theorem embed_length : ∀ {code : Code} {vcode : List VEntry}, embed code = some vcode →
    vcode.length = code.length
  | [], vcode, h => by simp [embed] at h; subst h; rfl
  | ce :: rest, vcode, h => by
    simp only [embed, List.mapM_cons, Option.bind_eq_bind, Option.pure_def] at h
    cases hv : Pipeline.vinstr ce.1 with
    | none => simp [hv] at h
    | some vi =>
      simp only [hv, Option.map_some, Option.bind_some] at h
      cases hr : List.mapM (fun ce => (Pipeline.vinstr ce.1).map fun vi => (vi, Pipeline.spansOf ce.2)) rest with
      | none => simp [hr] at h
      | some vrest =>
        simp only [hr, Option.bind_some, Option.some.injEq] at h
        subst h
        simp [embed_length (code := rest) hr]

/-! ### spans -/

/-- both ends of the range carry a span -/
def SpanOk (c : Chunk) (r : SpanRange) : Prop := c.hasSpan r.1 = true ∧ c.hasSpan r.2 = true

theorem SpanOk.expand {c : Chunk} {r : SpanRange} (h : SpanOk c r) : c.expandSpan r = true := by
  simp [Chunk.expandSpan, h.1, h.2]

theorem SpanOk.combine {c : Chunk} {a b : SpanRange} (ha : SpanOk c a) (hb : SpanOk c b) :
    SpanOk c (combineSpans a b) := by
  unfold combineSpans SpanOk
  constructor
  · show c.hasSpan (min a.1 b.1) = true
    rw [Nat.min_def]; split
    · exact ha.1
    · exact hb.1
  · show c.hasSpan (max a.2 b.2) = true
    rw [Nat.max_def]; split
    · exact hb.2
    · exact ha.2

theorem SpanOk.own {c : Chunk} {pc : Nat} {vi : VInstr} {sps : List Span}
    (hc : c.code[pc]? = some (vi, sps)) (hs : sps.isEmpty = false) : SpanOk c (pc, pc) := by
  have : c.hasSpan pc = true := by rw [hasSpan_of_code hc]; simp [hs]
  exact ⟨this, this⟩

theorem renderingError_eq {env : Vm.Env} {vm : VmCtx} {c : Chunk} {r : SpanRange}
    (ht : reportTargetOk env vm c = true) (hr : SpanOk c r) (e : RErr) :
    renderingError env vm c r e = .err e := by
  simp [renderingError, hr.expand, raise, ht]

/-! ### runs of the interpreter loop -/

section
variable (env : Vm.Env) (vm : VmCtx) (c : Chunk)

/-- the loop goes from `(pc, st)` to `(pc', st')` executing the instructions at `tr` — whatever
the nested interpreter `rec` is (no instruction on the way calls it) -/
inductive Run : Nat → State → List Nat → Nat → State → Prop
  | nil (pc : Nat) (st : State) : Run pc st [] pc st
  | cons {pc : Nat} {st : State} {e : VEntry} {pc1 : Nat} {st1 : State} {tr : List Nat} {pc' : Nat}
      {st' : State} (hc : c.code[pc]? = some e)
      (hs : ∀ rec, step rec env vm c e pc st = .next pc1 st1)
      (h : Run pc1 st1 tr pc' st') : Run pc st (pc :: tr) pc' st'

/-- the loop executes the instructions at `tr`; the last one returns the error `re` -/
inductive Fails : Nat → State → List Nat → RErr → Prop
  | here {pc : Nat} {st : State} {e : VEntry} {re : RErr} (hc : c.code[pc]? = some e)
      (hs : ∀ rec, step rec env vm c e pc st = .err re) : Fails pc st [pc] re
  | cons {pc : Nat} {st : State} {e : VEntry} {pc1 : Nat} {st1 : State} {tr : List Nat} {re : RErr}
      (hc : c.code[pc]? = some e) (hs : ∀ rec, step rec env vm c e pc st = .next pc1 st1)
      (h : Fails pc1 st1 tr re) : Fails pc st (pc :: tr) re
end

section
variable {env : Vm.Env} {vm : VmCtx} {c : Chunk}

theorem Run.one {pc : Nat} {st : State} {e : VEntry} {pc1 : Nat} {st1 : State}
    (hc : c.code[pc]? = some e) (hs : ∀ rec, step rec env vm c e pc st = .next pc1 st1) :
    Run env vm c pc st [pc] pc1 st1 := .cons hc hs (.nil _ _)

theorem Run.trans {pc : Nat} {st : State} {tr1 : List Nat} {pc1 : Nat} {st1 : State}
    {tr2 : List Nat} {pc2 : Nat} {st2 : State}
    (h1 : Run env vm c pc st tr1 pc1 st1) (h2 : Run env vm c pc1 st1 tr2 pc2 st2) :
    Run env vm c pc st (tr1 ++ tr2) pc2 st2 := by
  induction h1 with
  | nil => exact h2
  | cons hc hs _ ih => exact .cons hc hs (ih h2)

theorem Run.fails {pc : Nat} {st : State} {tr1 : List Nat} {pc1 : Nat} {st1 : State}
    {tr2 : List Nat} {re : RErr}
    (h1 : Run env vm c pc st tr1 pc1 st1) (h2 : Fails env vm c pc1 st1 tr2 re) :
    Fails env vm c pc st (tr1 ++ tr2) re := by
  induction h1 with
  | nil => exact h2
  | cons hc hs _ ih => exact .cons hc hs (ih h2)

/-- a run as a statement about `runLoop`: `tr.length` units of step fuel are used up -/
theorem Run.runLoop {pc : Nat} {st : State} {tr : List Nat} {pc' : Nat} {st' : State}
    (h : Run env vm c pc st tr pc' st') (rec : VmCtx → Chunk → State → RunRes) (k : Nat) :
    runLoop rec env vm c (tr.length + k) pc st = runLoop rec env vm c k pc' st' := by
  induction h with
  | nil => simp
  | cons hc hs _ ih =>
    simp only [List.length_cons, Nat.add_right_comm _ 1 k, Vm.runLoop, hc, hs rec]
    exact ih

/-- a failing run as a statement about `runLoop`: any step fuel `≥ tr.length` gives the error -/
theorem Fails.runLoop {pc : Nat} {st : State} {tr : List Nat} {re : RErr}
    (h : Fails env vm c pc st tr re) (rec : VmCtx → Chunk → State → RunRes) (k : Nat) :
    runLoop rec env vm c (tr.length + k) pc st = .err re := by
  induction h with
  | here hc hs =>
    simp only [List.length_cons, List.length_nil, Nat.zero_add, Nat.add_comm 1 k, Vm.runLoop, hc, hs rec]
  | cons hc hs _ ih =>
    simp only [List.length_cons, Nat.add_right_comm _ 1 k, Vm.runLoop, hc, hs rec]
    exact ih

theorem Fails.length_pos {pc : Nat} {st : State} {tr : List Nat} {re : RErr}
    (h : Fails env vm c pc st tr re) : 0 < tr.length := by
  cases h <;> simp

end

/-! ### where a run has been -/

/-- every executed instruction index lies in `[lo, hi)` -/
def Within (lo hi : Nat) (tr : List Nat) : Prop := ∀ p ∈ tr, lo ≤ p ∧ p < hi

theorem Within.nil {lo hi : Nat} : Within lo hi [] := by intro p hp; cases hp

theorem Within.single {lo hi p : Nat} (h1 : lo ≤ p) (h2 : p < hi) : Within lo hi [p] := by
  intro q hq; simp only [List.mem_singleton] at hq; subst hq; exact ⟨h1, h2⟩

theorem Within.append {lo hi : Nat} {a b : List Nat} (ha : Within lo hi a) (hb : Within lo hi b) :
    Within lo hi (a ++ b) := by
  intro p hp
  rcases List.mem_append.mp hp with h | h
  · exact ha p h
  · exact hb p h

theorem Within.mono {lo hi lo' hi' : Nat} {a : List Nat} (ha : Within lo' hi' a) (h1 : lo ≤ lo')
    (h2 : hi' ≤ hi) : Within lo hi a := by
  intro p hp
  have := ha p hp
  omega

/-- a run that stayed in `[lo, hi)` never executed an instruction of a disjoint range -/
theorem Within.disjoint {lo hi : Nat} {a : List Nat} (ha : Within lo hi a) {p : Nat}
    (hp : p < lo ∨ hi ≤ p) : p ∉ a := by
  intro hm
  have := ha p hm
  omega

/-! ### the step-fuel bound

Loop-free code is executed at most once per instruction: `lf = true → tr.length ≤ len` is carried
through the simulation (`lf`: "this is the loop-free core").  `bnd` closes the arithmetic side
goals, conditional or not. -/

set_option hygiene false in
macro "bnd" : tactic => `(tactic| first
  | omega
  | (intro hlf
     try (have hb_ := hl hlf)
     try (have hb0_ := hl0 hlf)
     try (have hb1_ := hl1 hlf)
     try (have hb2_ := hl2 hlf)
     try (have hb3_ := hl3 hlf)
     try (have hb4_ := hlen hlf)
     try simp only [List.length_append, List.length_singleton, List.length_nil, List.length_cons]
     omega))

end Tera.Refine
