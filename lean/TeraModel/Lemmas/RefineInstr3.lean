/-
Compiler correctness (Props/Refine.lean), part 2c: the list-building instructions `BuildList`,
`BuildListWithSpreads` against the evaluator's `buildList`.

`ArrStack c parts s s'`: the value stack `s'` is `s` with one slot per evaluated array entry of
`parts` pushed on it, first entry deepest, every slot under a reportable span (`SpanOk`).  It is
defined from the LAST entry (the top of the stack) inwards, which is the order the VM pops in;
`ArrStack.cons` adds an entry at the front, which is the order the evaluator goes in.
-/
import TeraModel.Lemmas.RefineInstr2
namespace Tera.Refine
open Tera Tera.Vm Tera.Compiler

inductive ArrStack (c : Chunk) : List (Bool × Value) → List Slot → List Slot → Prop
  | nil (s : List Slot) : ArrStack c [] s s
  | snoc {parts : List (Bool × Value)} {s s' : List Slot} (f : Bool) (v : Value) (rg : SpanRange) :
      ArrStack c parts s s' → SpanOk c rg → ArrStack c (parts ++ [(f, v)]) s ((v, rg) :: s')

theorem ArrStack.cons {c : Chunk} {f : Bool} {v : Value} {rg : SpanRange} (hsp : SpanOk c rg) :
    ∀ {parts : List (Bool × Value)} {s s' : List Slot},
      ArrStack c parts ((v, rg) :: s) s' → ArrStack c ((f, v) :: parts) s s' := by
  intro parts s s' h
  generalize hs0 : (v, rg) :: s = s0 at h
  induction h with
  | nil s1 =>
    subst hs0
    exact ArrStack.snoc (parts := []) f v rg (.nil s) hsp
  | snoc f' v' rg' h' hsp' ih =>
    have := ih hs0
    exact ArrStack.snoc (parts := (f, v) :: _) f' v' rg' this hsp'

/-! ### `buildList` at the end of the list -/

theorem buildList_snoc_item (l : List (Bool × Value)) (v : Value) :
    buildList (l ++ [(false, v)]) = (buildList l).map (· ++ [v]) := by
  induction l with
  | nil => rfl
  | cons x rest ih =>
    obtain ⟨f, w⟩ := x
    cases f
    · simp only [List.cons_append, buildList, ih]
      cases buildList rest <;> simp [Except.map]
    · cases w <;> simp only [List.cons_append, buildList, ih] <;> try rfl
      cases buildList rest <;> simp [Except.map]

theorem buildList_snoc_spread (l : List (Bool × Value)) (xs : List Value) :
    buildList (l ++ [(true, .arr xs)]) = (buildList l).map (· ++ xs) := by
  induction l with
  | nil => simp [buildList, Except.map]
  | cons x rest ih =>
    obtain ⟨f, w⟩ := x
    cases f
    · simp only [List.cons_append, buildList, ih]
      cases buildList rest <;> simp [Except.map]
    · cases w <;> simp only [List.cons_append, buildList, ih] <;> try rfl
      cases buildList rest <;> simp [Except.map]

theorem buildList_error (l : List (Bool × Value)) (e : Err) (h : buildList l = .error e) : e = .spread := by
  induction l with
  | nil => cases h
  | cons x rest ih =>
    obtain ⟨f, w⟩ := x
    cases f
    · simp only [buildList] at h
      cases hr : buildList rest with
      | ok ys => simp [hr, Except.map] at h
      | error e' => simp only [hr, Except.map, Except.error.injEq] at h; subst h; exact ih hr
    · cases w <;> simp only [buildList] at h <;> try (injection h with h; exact h.symm)
      cases hr : buildList rest with
      | ok ys => simp [hr, Except.map] at h
      | error e' => simp only [hr, Except.map, Except.error.injEq] at h; subst h; exact ih hr

theorem buildList_snoc_bad (l : List (Bool × Value)) (v : Value) (hv : ∀ xs, v ≠ .arr xs) :
    buildList (l ++ [(true, v)]) = .error .spread := by
  induction l with
  | nil => cases v <;> first | rfl | exact absurd rfl (hv _)
  | cons x rest ih =>
    obtain ⟨f, w⟩ := x
    cases f
    · simp only [List.cons_append, buildList, ih]; rfl
    · cases w <;> simp only [List.cons_append, buildList, ih] <;> rfl

theorem buildList_no_spread (l : List (Bool × Value)) (h : ∀ p ∈ l, p.1 = false) :
    buildList l = .ok (l.map (·.2)) := by
  induction l with
  | nil => rfl
  | cons x rest ih =>
    obtain ⟨f, w⟩ := x
    have hf : f = false := h (f, w) (by simp)
    subst hf
    simp only [buildList, ih (fun p hp => h p (by simp [hp])), Except.map, List.map_cons]

/-! ### the popping loops -/

theorem popN_arrStack {c : Chunk} {parts : List (Bool × Value)} {s s' : List Slot}
    (h : ArrStack c parts s s') : ∀ acc, popN parts.length s' acc = .ok (parts.map (·.2) ++ acc) s := by
  induction h with
  | nil s => intro acc; simp [popN]
  | snoc f v rg h' _ ih =>
    intro acc
    simp only [List.length_append, List.length_singleton, popN, ih, List.map_append, List.map_cons,
      List.map_nil, List.append_assoc, List.singleton_append]

theorem popSpreadList_arrStack {env : Vm.Env} {vm : VmCtx} {c : Chunk}
    (ht : reportTargetOk env vm c = true) {parts : List (Bool × Value)} {s s' : List Slot}
    (h : ArrStack c parts s s') : ∀ acc,
    popSpreadList env vm c (parts.map (·.1)).reverse s' acc
      = match buildList parts with
        | .ok xs => .inr (xs ++ acc, s)
        | .error _ => .inl (.err .spread) := by
  induction h with
  | nil s => intro acc; simp [popSpreadList, buildList]
  | @snoc parts s s' f v rg h' hsp ih =>
    intro acc
    simp only [List.map_append, List.map_cons, List.map_nil, List.reverse_append, List.reverse_cons,
      List.reverse_nil, List.nil_append, List.singleton_append, popSpreadList]
    cases f with
    | false =>
      simp only [Bool.false_eq_true, if_false, ih, buildList_snoc_item]
      cases buildList parts <;> simp [Except.map]
    | true =>
      simp only [if_true]
      cases v
      case arr xs =>
        simp only [ih, buildList_snoc_spread]
        cases buildList parts <;> simp [Except.map]
      all_goals
        rw [buildList_snoc_bad _ _ (by intro xs h; cases h)]
        simp only [renderingError_eq ht hsp]

section
variable {venv : Vm.Env} {vm : VmCtx} {c : Chunk}

/-- the instruction closing an array literal against `buildList` -/
theorem arrayBuild_sim {pc : Nat} {items : List ArrayEntry}
    (h : EntryAt c pc (sp (arrayBuild items))) (ht : reportTargetOk venv vm c = true) (st : State)
    (parts : List (Bool × Value)) (stk : List Slot) (hflags : parts.map (·.1) = items.map ArrayEntry.isSpread)
    (hstk : ArrStack c parts st.stack stk) :
    match buildList parts with
    | .ok xs => Run venv vm c pc { st with stack := stk } [pc] (pc + 1) (st.push (.arr xs) (pc, pc))
    | .error err => ∃ re, Fails venv vm c pc { st with stack := stk } [pc] re ∧ errMatch err re = true := by
  obtain ⟨vi, sps, hv, hc, _⟩ := h
  have hlen : parts.length = items.length := by
    have := congrArg List.length hflags
    simpa using this
  unfold arrayBuild at hv
  by_cases hany : items.any ArrayEntry.isSpread = true
  · rw [if_pos hany] at hv
    simp only [sp, Pipeline.vinstr, Option.some.injEq] at hv
    subst hv
    have hpop := popSpreadList_arrStack (env := venv) (vm := vm) ht hstk []
    rw [hflags] at hpop
    cases hb : buildList parts with
    | ok xs =>
      rw [hb] at hpop
      refine Run.one hc ?_
      intro rec
      simp only [step, stepBuildListWithSpreads, hpop, List.append_nil]
      rfl
    | error e =>
      rw [hb] at hpop
      have he := buildList_error _ _ hb
      subst he
      refine ⟨.spread, Fails.here hc ?_, rfl⟩
      intro rec
      simp only [step, stepBuildListWithSpreads, hpop]
  · rw [if_neg hany] at hv
    simp only [sp, Pipeline.vinstr, Option.some.injEq] at hv
    subst hv
    have hno : ∀ p ∈ parts, p.1 = false := by
      intro p hp
      have hmem : p.1 ∈ parts.map (·.1) := List.mem_map_of_mem hp
      rw [hflags] at hmem
      obtain ⟨it, hit, hitp⟩ := List.mem_map.mp hmem
      cases hp1 : p.1 with
      | false => rfl
      | true =>
        exfalso; apply hany
        rw [hp1] at hitp
        exact List.any_eq_true.mpr ⟨it, hit, hitp⟩
    rw [buildList_no_spread _ hno]
    have hpop := popN_arrStack hstk []
    refine Run.one hc ?_
    intro rec
    simp only [step, stepBuildList, ← hlen, hpop, List.append_nil]
    rfl
end

end Tera.Refine
