/-
Expression lexing is local (C08, towards respell_invariant): what `lexExprToken` emits depends only
on the unread bytes up to the next space, not on what follows them nor on the line / column / byte
bookkeeping.
-/
import TeraModel.Lemmas.Forward
namespace Tera.Lexer
open Tera Utf8 Generated

/-- the same position with `B` appended to the unread input -/
def Pos.ext (p : Pos) (B : Bytes) : Pos := { p with rest := p.rest ++ B }

def Step.ext (B : Bytes) : Step → Step
  | .emit tok sp p st => .emit tok sp (p.ext B) st
  | .skip p => .skip (p.ext B)
  | s => s

theorem isBoundary_append_lt {A : Bytes} (B : Bytes) {n : Nat} (h : n < A.length) :
    isBoundary (A ++ B) n = isBoundary A n := by
  unfold isBoundary
  have h1 : n ≤ (A ++ B).length := by simp; omega
  have h2 : n ≤ A.length := by omega
  rw [List.drop_append_of_le_length h2]
  have : A.drop n = A[n] :: A.drop (n + 1) := List.drop_eq_getElem_cons h
  simp only [this, List.cons_append, startsChar]
  simp at h1
  simp [h1, h2]

theorem advance_ext {p : Pos} (B : Bytes) {n : Nat} (h : n < p.rest.length) :
    advance (p.ext B) n =
      match advance p n with
      | .ok (sk, p') => .ok (sk, p'.ext B)
      | .panic s => .panic s := by
  have hb' := isBoundary_append_lt B h
  have h2 : n ≤ p.rest.length := by omega
  unfold advance splitAt?
  by_cases hb : isBoundary p.rest n = true
  · have hb2 : isBoundary (p.ext B).rest n = true := by simpa [Pos.ext, hb'] using hb
    simp only [hb, hb2, if_true]
    simp only [Pos.ext, List.take_append_of_le_length h2, List.drop_append_of_le_length h2]
  · have hb2 : ¬ isBoundary (p.ext B).rest n = true := by simpa [Pos.ext, hb'] using hb
    simp [hb, hb2]

theorem emitAfter_ext {p : Pos} (B : Bytes) {n : Nat} (h : n < p.rest.length) (tok : Token) (st : List State) :
    emitAfter (p.ext B) n tok st = (emitAfter p n tok st).ext B := by
  unfold emitAfter
  rw [advance_ext B h]
  cases hadv : advance p n with
  | ok r =>
    obtain ⟨sk, p'⟩ := r
    simp only [Step.ext]
    have h1 := (advance_ok hadv).1
    simp [mkSpan, Pos.ext]
  | panic s => simp [Step.ext]

theorem numLen_ext (E X : Bytes) : ∀ f, numLen f (E ++ 0x20 :: X) = numLen f (E ++ [0x20]) := by
  induction E with
  | nil => intro f; simp [numLen, isAsciiDigit]
  | cons c t ih =>
    intro f
    simp only [List.cons_append]
    unfold numLen
    split
    · rw [ih]
    · split
      · rw [ih]
      · rfl

theorem identLen_ext (E X : Bytes) : ∀ idx, identLen idx (E ++ 0x20 :: X) = identLen idx (E ++ [0x20]) := by
  induction E with
  | nil => intro idx; simp [identLen, isAsciiAlpha, isAsciiAlnum, isAsciiDigit]
  | cons c t ih =>
    intro idx
    simp only [List.cons_append]
    unfold identLen
    rw [ih]

theorem numLen_le (E : Bytes) : ∀ f, (numLen f (E ++ [0x20])).1 ≤ E.length := by
  induction E with
  | nil => intro f; simp [numLen, isAsciiDigit]
  | cons c t ih =>
    intro f
    simp only [List.cons_append]
    unfold numLen
    split
    · have := ih true; simp; omega
    · split
      · have := ih f; simp; omega
      · simp

theorem identLen_le (E : Bytes) : ∀ idx, identLen idx (E ++ [0x20]) ≤ E.length := by
  induction E with
  | nil => intro idx; simp [identLen, isAsciiAlpha, isAsciiAlnum, isAsciiDigit]
  | cons c t ih =>
    intro idx
    simp only [List.cons_append]
    have := ih (idx + 1)
    unfold identLen
    split
    · simp; omega
    · split <;> split <;> simp <;> omega

end Tera.Lexer

namespace Tera.Lexer
open Tera Utf8 Generated

theorem ops2_no_space : ∀ e ∈ ops2, 0x20 ∉ e.1 := by decide

theorem mkSpan_ext (p q : Pos) (B : Bytes) : mkSpan (p.ext B) (q.ext B) = mkSpan p q := rfl

theorem lexNumber_ext (p : Pos) (E B : Bytes) (hr : p.rest = E ++ [0x20]) (st : List State) :
    lexNumber (p.ext B) st = (lexNumber p st).ext B := by
  unfold lexNumber
  have hn : numLen false (p.ext B).rest = numLen false p.rest := by
    simp only [Pos.ext, hr, List.append_assoc, List.singleton_append]
    exact numLen_ext E B false
  rw [hn]
  have hle := numLen_le E false
  rw [← hr] at hle
  generalize numLen false p.rest = r at *
  obtain ⟨n, f⟩ := r
  simp only at hle ⊢
  have hlt : n < p.rest.length := by rw [hr]; simp; omega
  rw [advance_ext B hlt]
  cases hadv : advance p n with
  | panic s => simp [Step.ext]
  | ok r =>
    obtain ⟨num, p'⟩ := r
    simp only
    split
    · simp [Step.ext, mkSpan, Pos.ext]
    · split <;> simp [Step.ext, mkSpan, Pos.ext]

theorem lexExprToken_ext (p : Pos) (E B : Bytes) (hr : p.rest = E ++ [0x20]) (hne : E ≠ [])
    (hq : ∀ q ∈ stringQuotes, q ∉ E) (st : List State) :
    lexExprToken (p.ext B) st = (lexExprToken p st).ext B := by
  obtain ⟨e0, E', rfl⟩ : ∃ e0 E', E = e0 :: E' := by
    cases E with
    | nil => exact absurd rfl hne
    | cons a t => exact ⟨a, t, rfl⟩
  have hlen : p.rest.length = E'.length + 2 := by rw [hr]; simp
  -- the three look-ahead tests see the same bytes
  have hsp : ((p.rest ++ B).take spreadBytes.length = spreadBytes) ↔ (p.rest.take spreadBytes.length = spreadBytes) := by
    rw [hr]
    match E' with
    | [] => simp [spreadBytes]
    | [a] => simp [spreadBytes]
    | a :: b :: t => simp [spreadBytes]
  have hop2 : lookupOp2 (p.rest ++ B) = lookupOp2 p.rest := by
    rw [hr]
    cases E' <;> rfl
  have hhead : (p.rest ++ B).head? = p.rest.head? := by rw [hr]; rfl
  unfold lexExprToken
  simp only [Pos.ext, hop2, hhead]
  by_cases hs : p.rest.take spreadBytes.length = spreadBytes
  · have hs' := hsp.mpr hs
    simp only [hs, hs', if_true]
    have h3 : spreadBytes.length < p.rest.length := by
      rw [hr] at hs ⊢
      match E', hs with
      | [], hs => simp [spreadBytes] at hs
      | [a], hs => simp [spreadBytes] at hs
      | a :: b :: t, _ => simp [spreadBytes]
    exact emitAfter_ext B h3 _ _
  · have hs' : ¬ (p.rest ++ B).take spreadBytes.length = spreadBytes := fun h => hs (hsp.mp h)
    simp only [hs, hs', if_false]
    cases ho : lookupOp2 p.rest with
    | some o =>
      simp only
      have h2 : 2 < p.rest.length := by
        unfold lookupOp2 at ho
        rw [hr] at ho ⊢
        match E', ho with
        | [], ho =>
          have := ops2_no_space _ (lookup_mem ho)
          simp at this
        | a :: t, _ => simp
      exact emitAfter_ext B h2 _ _
    | none =>
      simp only
      have hc : p.rest.head? = some e0 := by rw [hr]; rfl
      simp only [hc]
      cases ho1 : ops1.lookup e0 with
      | some o => simp only; exact emitAfter_ext B (by omega) _ _
      | none =>
        simp only
        have hnq : stringQuotes.contains e0 = false := by
          cases hqc : stringQuotes.contains e0 with
          | false => rfl
          | true =>
            exfalso
            have : e0 ∈ stringQuotes := by simpa using hqc
            exact hq e0 this (by simp)
        simp only [hnq, Bool.false_eq_true, if_false]
        by_cases hd : isAsciiDigit e0 = true
        · simp only [hd, if_true]
          have := lexNumber_ext p (e0 :: E') B hr st
          simpa [Pos.ext] using this
        · have hd' : isAsciiDigit e0 = false := by simpa using hd
          simp only [hd', Bool.false_eq_true, if_false]
          have hi : identLen 0 (p.rest ++ B) = identLen 0 p.rest := by
            rw [hr]
            simp only [List.append_assoc, List.singleton_append]
            exact identLen_ext (e0 :: E') B 0
          have hile := identLen_le (e0 :: E') 0
          rw [← hr] at hile
          simp only [hi]
          by_cases hpos : identLen 0 p.rest > 0
          · simp only [hpos, if_true]
            have hlt : identLen 0 p.rest < p.rest.length := by rw [hlen]; simp at hile; omega
            have := advance_ext (p := p) B hlt
            simp only [Pos.ext] at this
            rw [this]
            cases hadv : advance p (identLen 0 p.rest) with
            | panic s => simp [Step.ext]
            | ok r =>
              obtain ⟨ident, p'⟩ := r
              simp only
              split <;> simp [Step.ext, mkSpan, Pos.ext]
          · simp only [hpos, if_false]
            simp [Step.ext, mkSpan]

end Tera.Lexer

namespace Tera.Lexer
open Tera Utf8 Generated

/-- two outcomes carry the same token (or error class) and leave the same unread input; spans and
line / column bookkeeping are ignored -/
def SameTok : Step → Step → Prop
  | .emit t _ p st, .emit t' _ q st' => t = t' ∧ st = st' ∧ p.rest = q.rest
  | .skip p, .skip q => p.rest = q.rest
  | .error e _, .error e' _ => e = e'
  | .panic _, .panic _ => True
  | .fuel, .fuel => True
  | _, _ => False

theorem advance_rest {p q : Pos} (h : p.rest = q.rest) (n : Nat) :
    (∃ s s', advance p n = .panic s ∧ advance q n = .panic s') ∨
    (∃ sk p' q', advance p n = .ok (sk, p') ∧ advance q n = .ok (sk, q') ∧ p'.rest = q'.rest) := by
  unfold advance splitAt?
  rw [← h]
  by_cases hb : isBoundary p.rest n = true
  · right; simp only [hb, if_true]; exact ⟨_, _, _, rfl, rfl, rfl⟩
  · left; simp [hb]

theorem emitAfter_rest {p q : Pos} (h : p.rest = q.rest) (n : Nat) (tok : Token) (st : List State) :
    SameTok (emitAfter p n tok st) (emitAfter q n tok st) := by
  unfold emitAfter
  rcases advance_rest h n with ⟨s, s', h1, h2⟩ | ⟨sk, p', q', h1, h2, h3⟩
  · simp [h1, h2, SameTok]
  · simp [h1, h2, SameTok, h3]

theorem lexNumber_rest {p q : Pos} (h : p.rest = q.rest) (st : List State) :
    SameTok (lexNumber p st) (lexNumber q st) := by
  unfold lexNumber
  rw [← h]
  generalize numLen false p.rest = r
  obtain ⟨n, f⟩ := r
  simp only
  rcases advance_rest h n with ⟨s, s', h1, h2⟩ | ⟨sk, p', q', h1, h2, h3⟩
  · simp [h1, h2, SameTok]
  · simp only [h1, h2]
    split
    · simp [SameTok, h3]
    · split <;> simp [SameTok, h3]

theorem lexString_rest {p q : Pos} (h : p.rest = q.rest) (c : Nat) (st : List State) :
    SameTok (lexString c p st) (lexString c q st) := by
  unfold lexString
  rw [← h]
  generalize strLen c false false (p.rest.drop 1) = r
  obtain ⟨n, f⟩ := r
  simp only
  split
  · simp [SameTok]
  · rcases advance_rest h (n + 2) with ⟨s, s', h1, h2⟩ | ⟨sk, p', q', h1, h2, h3⟩
    · simp [h1, h2, SameTok]
    · simp only [h1, h2]
      split
      · simp [SameTok]
      · split
        · split <;> simp [SameTok, h3]
        · simp [SameTok, h3]

theorem lexExprToken_rest {p q : Pos} (h : p.rest = q.rest) (st : List State) :
    SameTok (lexExprToken p st) (lexExprToken q st) := by
  unfold lexExprToken
  simp only [← h]
  split
  · exact emitAfter_rest h _ _ _
  · split
    · exact emitAfter_rest h _ _ _
    · split
      · simp [SameTok]
      · split
        · exact emitAfter_rest h _ _ _
        · split
          · exact lexString_rest h _ _
          · split
            · exact lexNumber_rest h _
            · split
              · rcases advance_rest h (identLen 0 p.rest) with ⟨s, s', h1, h2⟩ | ⟨sk, p', q', h1, h2, h3⟩
                · simp [h1, h2, SameTok]
                · simp only [h1, h2]
                  split <;> simp [SameTok, h3]
              · simp [SameTok]

end Tera.Lexer
