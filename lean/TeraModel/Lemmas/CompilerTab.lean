/-
T1 infrastructure: what every emitted instruction does on the abstract stack machine of
Model/WellFormed.lean (`cop`), and the certificate for compiled code: for every instruction the
compiler emits, the abstract state (value-stack tags, loop stack, capture count) the machine is in
just before executing it, as a function of the state `a` at entry of the construct
(`exprTab … a e`, `nodeTab …`: same recursion, same order, same lengths as `exprCode`, `nodeCode`).
-/
import TeraModel.Model.Compiler
import TeraModel.Model.WellFormed
namespace Tera.Compiler
open Tera.WellFormed

/-- values a `BuildMapWithSpreads(flags)` pops: one per spread, two per key/value pair -/
def flagSlots : List Bool → Nat
  | [] => 0
  | b :: rest => (if b then 1 else 2) + flagSlots rest

/-- what the instruction does to the three stacks (`WellFormed.opOf` of its wire form, see
`opOf_toInstr`) -/
def cop : CInstr → Op
  | .loadConst _ | .loadName _ => .push false
  | .loadAttr _ | .loadAttrOpt _ => .popPush 1 false
  | .binarySubscript | .binarySubscriptOpt => .popPush 2 false
  | .slice | .sliceOpt => .popPush 4 false
  | .writeText _ | .include _ | .renderBlock _ => .nop
  | .writeTop | .set _ | .setGlobal _ => .pop 1
  | .buildMap n => if n = 0 then .push false else .popPush (2 * n) false
  | .buildList n => .popPush n true
  | .buildMapWithSpreads l => .popPush (flagSlots l) false
  | .buildListWithSpreads l => .popPush l.length true
  | .callFunction _ | .renderInlineComponent _ => .popPush 1 false
  | .renderBodyComponent _ | .applyFilter _ | .runTest _ => .popPush 2 false
  | .jump t => .jump t
  | .popJumpIfFalse t => .popJumpIfFalse t
  | .jumpIfFalseOrPop t | .jumpIfTrueOrPop t => .jumpOrPop t
  | .capture => .capture
  | .endCapture => .endCapture
  | .startIterate _ | .startIterateComprehension _ => .startIterate
  | .iterate t => .iterate t
  | .storeLocal _ => .storeLocal
  | .storeDidNotIterate => .storeDidNotIterate
  | .break_ => .break_
  | .popLoop => .popLoop
  | .appendToList => .appendToList
  | .binop _ => .popPush 2 false
  | .not | .negative => .popPush 1 false

/-- `n` more values (not known to be arrays) on the value stack -/
def pushN (a : St) (n : Nat) : St := ⟨List.replicate n false ++ a.stack, a.loops, a.caps⟩
/-- one more capture buffer -/
def capUp (a : St) : St := ⟨a.stack, a.loops, a.caps + 1⟩
/-- the comprehension's list (a known array) on the value stack -/
def pushList (a : St) : St := ⟨true :: a.stack, a.loops, a.caps⟩
/-- one more loop whose end is `e` (`none`: not set yet / any) -/
def loopUp (a : St) (e : Option Nat) : St := ⟨a.stack, e :: a.loops, a.caps⟩

/-- values on the stack after the entries of a map literal -/
def mapSlots : List MapEntry → Nat
  | [] => 0
  | .keyValue _ _ :: rest => 2 + mapSlots rest
  | .spread _ :: rest => 1 + mapSlots rest

def keyTab (a : St) : Option String → List St
  | some _ => [a]
  | none => []

mutual
def exprTab (base : Nat) (loop : Option Nat) (a : St) : Expr → List St
  | .const _ => [a]
  | .map entries => mapItemsTab base loop a entries ++ [pushN a (mapSlots entries)]
  | .array items => arrayItemsTab base loop a items ++ [pushN a items.length]
  | .var _ => [a]
  | .getAttr e _ _ => exprTab base loop a e ++ [pushN a 1]
  | .getItem e s _ =>
    let c1 := exprCode base loop e
    exprTab base loop a e ++ exprTab (base + c1.length) loop (pushN a 1) s ++ [pushN a 2]
  | .slice e start stop step _ =>
    let c1 := exprCode base loop e
    let c2 := optExprCode (base + c1.length) loop (.loadConst .none) start
    let c3 := optExprCode (base + c1.length + c2.length) loop (.loadConst .none) stop
    exprTab base loop a e ++ optExprTab (base + c1.length) loop (pushN a 1) start
      ++ optExprTab (base + c1.length + c2.length) loop (pushN a 2) stop
      ++ optExprTab (base + c1.length + c2.length + c3.length) loop (pushN a 3) step ++ [pushN a 4]
  | .filter e _ kwargs =>
    let c1 := exprCode base loop e
    exprTab base loop a e ++ kwargsTab (base + c1.length) loop (pushN a 1) kwargs
      ++ [pushN (pushN a 1) (2 * kwargs.length), pushN a 2]
  | .test e _ kwargs =>
    let c1 := exprCode base loop e
    exprTab base loop a e ++ kwargsTab (base + c1.length) loop (pushN a 1) kwargs
      ++ [pushN (pushN a 1) (2 * kwargs.length), pushN a 2]
  | .ternary c t f =>
    let cc := exprCode base loop c
    let idx := base + cc.length
    let ct := exprCode (idx + 1) loop t
    let idx2 := idx + 1 + ct.length
    exprTab base loop a c ++ [pushN a 1] ++ exprTab (idx + 1) loop a t ++ [pushN a 1]
      ++ exprTab (idx2 + 1) loop a f
  | .listComprehension e key value target cond =>
    let ct := exprCode (base + 1) loop target
    let pre := [sp (.buildList 0)] ++ ct
      ++ [ns (.startIterateComprehension key.isSome), ns (.storeLocal value)] ++ keyStore key
    let startIdx := base + pre.length
    let cc := condCode (startIdx + 1) loop cond
    let exprIdx := startIdx + 1 + cc.length + (if cond.isSome then 1 else 0)
    let ce := exprCode exprIdx loop e
    let skip := if cond.isSome then [ns (.popJumpIfFalse (exprIdx + ce.length + 1))] else []
    let body := cc ++ skip ++ ce ++ [ns .appendToList]
    let loopEnd := startIdx + 1 + body.length + 1
    -- header state (loop end not set / any) and body state
    let h := loopUp (pushList a) none
    let b := loopUp (pushList a) (some loopEnd)
    [a] ++ exprTab (base + 1) loop (pushList a) target ++ [pushN (pushList a) 1, h] ++ keyTab h key
      ++ [h] ++ condTab (startIdx + 1) loop b cond ++ (if cond.isSome then [pushN b 1] else [])
      ++ exprTab exprIdx loop b e ++ [pushN b 1] ++ [b, h]
  | .componentCall _ kwargs body selfClosing =>
    let cap := if selfClosing then [] else
      [ns .capture] ++ nodesCode (base + 1) loop body ++ [sp .endCapture]
    let a1 := if selfClosing then a else pushN a 1
    (if selfClosing then [] else [a] ++ nodesTab (base + 1) loop (capUp a) body ++ [capUp a])
      ++ mapItemsTab (base + cap.length) loop a1 kwargs
      ++ [pushN a1 (mapSlots kwargs), pushN a1 1]
  | .functionCall _ kwargs =>
    kwargsTab base loop a kwargs ++ [pushN a (2 * kwargs.length), pushN a 1]
  | .unary _ e => exprTab base loop a e ++ [pushN a 1]
  | .binary op l r =>
    match op with
    | .And | .Or =>
      let cl := exprCode base loop l
      let idx := base + cl.length
      exprTab base loop a l ++ [pushN a 1] ++ exprTab (idx + 1) loop a r
    | .Is | .Pipe => []
    | _ =>
      let cl := exprCode base loop l
      exprTab base loop a l ++ exprTab (base + cl.length) loop (pushN a 1) r ++ [pushN a 2]

def condTab (base : Nat) (loop : Option Nat) (a : St) : Option Expr → List St
  | some c => exprTab base loop a c
  | none => []

def optExprTab (base : Nat) (loop : Option Nat) (a : St) : Option Expr → List St
  | some e => exprTab base loop a e
  | none => [a]

def kwargsTab (base : Nat) (loop : Option Nat) (a : St) : List (String × Expr) → List St
  | [] => []
  | (k, v) :: rest =>
    let c := [sp (.loadConst (nameValue k))] ++ exprCode (base + 1) loop v
    [a] ++ exprTab (base + 1) loop (pushN a 1) v ++ kwargsTab (base + c.length) loop (pushN a 2) rest

def arrayItemsTab (base : Nat) (loop : Option Nat) (a : St) : List ArrayEntry → List St
  | [] => []
  | .item e :: rest =>
    let c := exprCode base loop e
    exprTab base loop a e ++ arrayItemsTab (base + c.length) loop (pushN a 1) rest
  | .spread e :: rest =>
    let c := exprCode base loop e
    exprTab base loop a e ++ arrayItemsTab (base + c.length) loop (pushN a 1) rest

def mapItemsTab (base : Nat) (loop : Option Nat) (a : St) : List MapEntry → List St
  | [] => []
  | .keyValue k v :: rest =>
    let c := [sp (.loadConst (keyValue k))] ++ exprCode (base + 1) loop v
    [a] ++ exprTab (base + 1) loop (pushN a 1) v ++ mapItemsTab (base + c.length) loop (pushN a 2) rest
  | .spread e :: rest =>
    let c := exprCode base loop e
    exprTab base loop a e ++ mapItemsTab (base + c.length) loop (pushN a 1) rest

/-- `a`: the state below the captured value (the chain runs on `pushN a 1`) -/
def filtersTab (base : Nat) (loop : Option Nat) (a : St) : List Expr → List St
  | [] => []
  | .filter _ name kwargs :: rest =>
    let c := kwargsCode base loop kwargs ++ [ns (.buildMap kwargs.length), sp (.applyFilter name)]
    kwargsTab base loop (pushN a 1) kwargs ++ [pushN (pushN a 1) (2 * kwargs.length), pushN a 2]
      ++ filtersTab (base + c.length) loop a rest
  | _ :: rest => filtersTab base loop a rest

def nodeTab (base : Nat) (loop : Option Nat) (a : St) : Node → List St
  | .content _ => [a]
  | .expression e => exprTab base loop a e ++ [pushN a 1]
  | .set _ value _ => exprTab base loop a value ++ [pushN a 1]
  | .blockSet _ filters body _ =>
    let cb := nodesCode (base + 1) loop body
    [a] ++ nodesTab (base + 1) loop (capUp a) body ++ [capUp a]
      ++ filtersTab (base + 1 + cb.length + 1) loop a filters ++ [pushN a 1]
  | .include _ => [a]
  | .block _ _ => [a]
  | .forLoop key value target body elseBody =>
    let ct := exprCode base loop target
    let pre := ct ++ [ns (.startIterate key.isSome), ns (.storeLocal value)] ++ keyStore key
    let startIdx := base + pre.length
    let cb := nodesCode (startIdx + 1) (some startIdx) body
    let loopEnd := startIdx + 1 + cb.length + 1
    let hasElse := !elseBody.isEmpty
    let main := pre ++ [ns (.iterate loopEnd)] ++ cb ++ [ns (.jump startIdx)]
      ++ (if hasElse then [ns .storeDidNotIterate] else []) ++ [ns .popLoop]
    let h := loopUp a none
    let b := loopUp a (some loopEnd)
    let tmain := exprTab base loop a target ++ [pushN a 1, h] ++ keyTab h key ++ [h]
      ++ nodesTab (startIdx + 1) (some startIdx) b body ++ [b]
      ++ (if hasElse then [h, pushN h 1] else [h])
    if hasElse then
      let idx := base + main.length
      tmain ++ [pushN a 1] ++ nodesTab (idx + 1) loop a elseBody
    else tmain
  | .break => [a]
  | .continue =>
    match loop with
    | some _ => [a]
    | none => []
  | .if c body falseBody =>
    let cc := exprCode base loop c
    let idx := base + cc.length
    let cb := nodesCode (idx + 1) loop body
    if falseBody.isEmpty then
      exprTab base loop a c ++ [pushN a 1] ++ nodesTab (idx + 1) loop a body
    else
      let idx2 := idx + 1 + cb.length
      exprTab base loop a c ++ [pushN a 1] ++ nodesTab (idx + 1) loop a body ++ [a]
        ++ nodesTab (idx2 + 1) loop a falseBody
  | .filterSection _ kwargs body =>
    let cb := nodesCode (base + 1) loop body
    [a] ++ nodesTab (base + 1) loop (capUp a) body ++ [capUp a]
      ++ kwargsTab (base + 1 + cb.length + 1) loop (pushN a 1) kwargs
      ++ [pushN (pushN a 1) (2 * kwargs.length), pushN a 2, pushN a 1]

def nodesTab (base : Nat) (loop : Option Nat) (a : St) : List Node → List St
  | [] => []
  | n :: rest =>
    let c := nodeCode base loop n
    nodeTab base loop a n ++ nodesTab (base + c.length) loop a rest
end

/-! ### The table has one entry per instruction -/

@[simp] theorem keyTab_length (a : St) (k : Option String) : (keyTab a k).length = (keyStore k).length := by
  cases k <;> rfl

def LenM1 (e : Expr) : Prop :=
  ∀ base loop s, (exprTab base loop s e).length = (exprCode base loop e).length
def LenM2 (ns : List Node) : Prop :=
  ∀ base loop s, (nodesTab base loop s ns).length = (nodesCode base loop ns).length
def LenM3 (n : Node) : Prop :=
  ∀ base loop s, (nodeTab base loop s n).length = (nodeCode base loop n).length
def LenM4 (k : List (String × Expr)) : Prop :=
  ∀ base loop s, (kwargsTab base loop s k).length = (kwargsCode base loop k).length
def LenM5 (f : List Expr) : Prop :=
  ∀ base loop s, (filtersTab base loop s f).length = (filtersCode base loop f).length
def LenM6 (o : Option Expr) : Prop :=
  ∀ base loop s, (condTab base loop s o).length = (condCode base loop o).length
def LenM7 (o : Option Expr) : Prop :=
  ∀ base loop dflt s, (optExprTab base loop s o).length = (optExprCode base loop dflt o).length
def LenM8 (a : List ArrayEntry) : Prop :=
  ∀ base loop s, (arrayItemsTab base loop s a).length = (arrayItemsCode base loop a).length
def LenM9 (m : List MapEntry) : Prop :=
  ∀ base loop s, (mapItemsTab base loop s m).length = (mapItemsCode base loop m).length

theorem tab_length_aux :
    (∀ (_ : Nat) (_ : Option Nat) e, LenM1 e) ∧
    (∀ (_ : Nat) (_ : Option Nat) ns, LenM2 ns) ∧
    (∀ (_ : Nat) (_ : Option Nat) n, LenM3 n) ∧
    (∀ (_ : Nat) (_ : Option Nat) k, LenM4 k) ∧
    (∀ (_ : Nat) (_ : Option Nat) f, LenM5 f) ∧
    (∀ (_ : Nat) (_ : Option Nat) o, LenM6 o) ∧
    (∀ (_ : Nat) (_ : Option Nat) (_ : CInstr) o, LenM7 o) ∧
    (∀ (_ : Nat) (_ : Option Nat) a, LenM8 a) ∧
    (∀ (_ : Nat) (_ : Option Nat) m, LenM9 m) := by
  apply exprCode.mutual_induct
    (motive_1 := fun _ _ e => LenM1 e)
    (motive_2 := fun _ _ ns => LenM2 ns)
    (motive_3 := fun _ _ n => LenM3 n)
    (motive_4 := fun _ _ k => LenM4 k)
    (motive_5 := fun _ _ f => LenM5 f)
    (motive_6 := fun _ _ o => LenM6 o)
    (motive_7 := fun _ _ _ o => LenM7 o)
    (motive_8 := fun _ _ a => LenM8 a)
    (motive_9 := fun _ _ m => LenM9 m)
  all_goals intros
  all_goals simp only [LenM1, LenM2, LenM3, LenM4, LenM5, LenM6, LenM7, LenM8, LenM9] at *
  all_goals intros
  all_goals simp only [exprCode, nodesCode, nodeCode, kwargsCode, filtersCode, condCode, optExprCode,
    arrayItemsCode, mapItemsCode, exprTab, nodesTab, nodeTab, kwargsTab, filtersTab, condTab, optExprTab,
    arrayItemsTab, mapItemsTab] at *
  all_goals (try split)
  all_goals (try (simp (config := { zetaDelta := true }) only [List.length_append, List.length_cons,
    List.length_nil, keyTab_length, *]; done))
  all_goals (try grind [keyTab_length])
  all_goals (simp (config := { zetaDelta := true }) [keyTab_length, *])

end Tera.Compiler
