/-
`Consistent src span` (C12): what it means for a span's byte range, lines and columns to agree
with a source, and the bridge from the tokenizer invariant `SpanOk` to it.
-/
import TeraModel.Lemmas.LexLoop
import TeraModel.Lemmas.ReportLemmas
import TeraModel.Lemmas.WsFilterLemmas
namespace Tera.C12
open Tera Utf8 Lexer WsFilter Report

/-- A span is *consistent* with a source: its byte range lies within the source with both ends on
char boundaries (`str::is_char_boundary`), its start line is 1 + the number of `'\n'` before
`range.start`, its start column is the number of chars between the last `'\n'` before
`range.start` (or the beginning) and `range.start`; likewise for the end. -/
structure Consistent (src : Bytes) (sp : Span) : Prop where
  ordered : sp.rangeStart ≤ sp.rangeEnd
  within : sp.rangeEnd ≤ src.length
  startBoundary : isBoundary src sp.rangeStart = true
  endBoundary : isBoundary src sp.rangeEnd = true
  startLine : sp.startLine = 1 + (src.take sp.rangeStart).count 0x0A
  startCol : sp.startCol = charCount (lastLine (src.take sp.rangeStart))
  endLine : sp.endLine = 1 + (src.take sp.rangeEnd).count 0x0A
  endCol : sp.endCol = charCount (lastLine (src.take sp.rangeEnd))

theorem lastLine_of_no_newline {x : Bytes} (h : 0x0A ∉ x) : lastLine x = x := by
  rcases (lastLine_spec x).2 with ⟨_, h2⟩ | ⟨pre, hp⟩
  · exact h2
  · exfalso; apply h; rw [hp]; simp

theorem track_line_col (x : Bytes) :
    track 1 0 0 x = (1 + x.count 0x0A, charCount (lastLine x), x.length) := by
  rw [track_spec]
  by_cases h : 0x0A ∈ x
  · simp [h]
  · simp [h, lastLine_of_no_newline h]

theorem consistent_of_spanOk {src : Bytes} {sp : Span} (h : SpanOk src sp) : Consistent src sp := by
  obtain ⟨h1, h2, h3, h4, h5, h6⟩ := h
  rw [track_line_col] at h5 h6
  simp only [Prod.mk.injEq] at h5 h6
  exact ⟨h1, h2, h3, h4, h5.1, h5.2.1, h6.1, h6.2.1⟩

theorem filterGo_spans (ts : List Item) : ∀ flag, (filterGo flag ts).map (·.2) = ts.map (·.2) := by
  induction ts with
  | nil => intro _; rfl
  | cons hd tl ih =>
    intro flag
    obtain ⟨tok, sp⟩ := hd
    cases tok <;> simp only [filterGo, handleContent, List.map_cons, ih]
    all_goals (rename_i w; cases w <;> simp [filterGo, ih])


end Tera.C12
