/-
Partial-correctness facts about the statement-level parser model (Model/TemplateParser.lean):
what an ACCEPTED template looks like.

* break / continue legality (`Node.legalList`),
* the block names the parser has recorded are exactly the `{% block %}`s of the tree (nested
  ones included) and no name occurs twice,
* component definition bodies contain no block and no `break` / `continue`.

Weakest-precondition style: `TW x s Q` = "if `x` answers `ok a s'` from `s` then `Q a s'`".
-/
import TeraModel.Lemmas.AstLegal
import TeraModel.Lemmas.TemplateParserHeight
namespace Tera.TParser
open Tera Tera.Parser

/-! ### the abstract parser state the facts are about -/

/-- `break` is legal under this context stack (`parse_tag`: the walk over
`body_contexts.iter().rev()` finds a `ForLoop` before any `Capture`) -/
def walk (ctx : List BodyContext) : Bool := loopWalk ctx.reverse == some true

/-- `{% block %}` is refused under this context stack -/
def noBlk (ctx : List BodyContext) : Bool := ctx.any (fun b => !b.canContainBlocks)

/-- component definition bodies: no `break` / `continue` (they are outside every loop), no block -/
def DefsOK (ds : List ComponentDefinition) : Prop :=
  ∀ d ∈ ds, Node.legalList false d.body ∧ Node.blockNamesList d.body = []

/-- body contexts, block names seen, component definitions -/
abbrev A := List BodyContext × List String × List ComponentDefinition

def abs (s : TState) : A := (s.bodyContexts, s.blocksSeen, s.componentDefinitions)

/-- what parsing the nodes `nodes` does to the abstract state -/
def PostA (a : A) (nodes : List Node) (a' : A) : Prop :=
  a'.1 = a.1
  ∧ a'.2.1 = (Node.blockNamesList nodes).reverse ++ a.2.1
  ∧ (noBlk a.1 = true → Node.blockNamesList nodes = [])
  ∧ Node.legalList (walk a.1) nodes
  ∧ (a.2.1.Nodup → a'.2.1.Nodup)
  ∧ (DefsOK a.2.2 → DefsOK a'.2.2)

def Post (s : TState) (nodes : List Node) (s' : TState) : Prop := PostA (abs s) nodes (abs s')

theorem walk_if (c : List BodyContext) : walk (c ++ [.If]) = walk c := by
  simp [walk, loopWalk]
theorem walk_block (c : List BodyContext) : walk (c ++ [.Block]) = walk c := by
  simp [walk, loopWalk]
theorem walk_compdef (c : List BodyContext) : walk (c ++ [.ComponentDefinition]) = walk c := by
  simp [walk, loopWalk]
theorem walk_for (c : List BodyContext) : walk (c ++ [.ForLoop]) = true := by
  simp [walk, loopWalk]
theorem walk_capture (c : List BodyContext) : walk (c ++ [.Capture]) = false := by
  simp [walk, loopWalk]
theorem noBlk_snoc (c : List BodyContext) (k : BodyContext) :
    noBlk (c ++ [k]) = (noBlk c || !k.canContainBlocks) := by
  simp [noBlk]

theorem PostA.nil (a : A) : PostA a [] a := by
  simp [PostA, Node.blockNamesList, Node.legalList]

theorem PostA.trans {a a1 a2 : A} {x y : List Node} (h1 : PostA a x a1) (h2 : PostA a1 y a2) :
    PostA a (x ++ y) a2 := by
  obtain ⟨c1, b1, n1, l1, d1, e1⟩ := h1
  obtain ⟨c2, b2, n2, l2, d2, e2⟩ := h2
  rw [c1] at n2 l2
  refine ⟨c2.trans c1, ?_, ?_, ?_, fun h => d2 (d1 h), fun h => e2 (e1 h)⟩
  · rw [b2, b1, Node.blockNamesList_append]; simp
  · intro h; rw [Node.blockNamesList_append, n1 h, n2 h]; rfl
  · exact (Node.legalList_append _ _ _).2 ⟨l1, l2⟩

/-- a node without blocks, legal where it stands -/
theorem PostA.leaf {a : A} {nd : Node} (hn : Node.blockNames nd = [])
    (hl : Node.legal (walk a.1) nd) : PostA a [nd] a := by
  simp [PostA, Node.blockNamesList, Node.legalList, hn, hl]

theorem PostA.if_ {c : List BodyContext} {b : List String} {d : List ComponentDefinition}
    {a4 a6 : A} {e : Expr} {body fb : List Node}
    (hb : PostA (c ++ [.If], b, d) body a4) (hf : PostA a4 fb a6) :
    PostA (c, b, d) [.if e body fb] (a6.1.dropLast, a6.2.1, a6.2.2) := by
  obtain ⟨c1, b1, n1, l1, d1, e1⟩ := PostA.trans hb hf
  simp only [walk_if, noBlk_snoc] at *
  refine ⟨by simp [c1], ?_, ?_, ?_, d1, e1⟩
  · simpa [Node.blockNamesList, Node.blockNames, Node.blockNamesList_append] using b1
  · intro h
    have := n1 (by simp [h, BodyContext.canContainBlocks])
    simpa [Node.blockNamesList, Node.blockNames, Node.blockNamesList_append] using this
  · simpa [Node.legalList, Node.legal, Node.legalList_append] using l1

theorem PostA.for_ {c : List BodyContext} {b : List String} {d : List ComponentDefinition}
    {a4 a6 : A} {k : Option String} {v : String} {t : Expr} {body els : List Node}
    (hb : PostA (c ++ [.ForLoop], b, d) body a4)
    (hf : PostA (a4.1.dropLast, a4.2.1, a4.2.2) els a6) :
    PostA (c, b, d) [.forLoop k v t body els] a6 := by
  obtain ⟨c1, b1, n1, l1, d1, e1⟩ := hb
  obtain ⟨c2, b2, n2, l2, d2, e2⟩ := hf
  simp only [walk_for, noBlk_snoc, c1, List.dropLast_concat] at *
  refine ⟨c2, ?_, ?_, ?_, fun h => d2 (d1 h), fun h => e2 (e1 h)⟩
  · rw [b2, b1]; simp [Node.blockNamesList, Node.blockNames]
  · intro h
    simp [Node.blockNamesList, Node.blockNames, n1 (by simp [h]), n2 h]
  · simpa [Node.legalList, Node.legal] using ⟨l1, l2⟩

/-- a node whose body is captured (filter section, `set` block, component call with a body) -/
theorem PostA.capture {c : List BodyContext} {b : List String} {d : List ComponentDefinition}
    {a4 : A} {nd : Node} {body : List Node}
    (hb : PostA (c ++ [.Capture], b, d) body a4)
    (hn : Node.blockNames nd = Node.blockNamesList body)
    (hl : ∀ il, Node.legalList false body → Node.legal il nd) :
    PostA (c, b, d) [nd] (a4.1.dropLast, a4.2.1, a4.2.2) := by
  obtain ⟨c1, b1, n1, l1, d1, e1⟩ := hb
  simp only [walk_capture, noBlk_snoc, c1, List.dropLast_concat] at *
  refine ⟨rfl, ?_, ?_, ?_, d1, e1⟩
  · rw [b1]; simp [Node.blockNamesList, hn]
  · intro h
    simp [Node.blockNamesList, hn, n1 (by simp [h])]
  · simpa [Node.legalList] using hl _ l1

theorem PostA.block {c : List BodyContext} {b : List String} {d : List ComponentDefinition}
    {a4 : A} {name : String} {body : List Node}
    (hc : noBlk c = false) (hname : b.contains name = false)
    (hb : PostA (c ++ [.Block], name :: b, d) body a4) :
    PostA (c, b, d) [.block name body] (a4.1.dropLast, a4.2.1, a4.2.2) := by
  obtain ⟨c1, b1, n1, l1, d1, e1⟩ := hb
  simp only [walk_block, noBlk_snoc, c1, List.dropLast_concat] at *
  refine ⟨rfl, ?_, ?_, ?_, ?_, e1⟩
  · rw [b1]; simp [Node.blockNamesList, Node.blockNames]
  · intro h; simp [hc] at h
  · simpa [Node.legalList, Node.legal] using l1
  · intro h
    apply d1
    simp only [List.nodup_cons]
    exact ⟨by simpa using hname, h⟩

/-- a component definition, recorded -/
theorem PostA.compdef {c : List BodyContext} {b : List String} {d : List ComponentDefinition} {a4 : A}
    {name : String} {kw : List (String × ComponentArgument)} {rest : Option String}
    {md : List (String × Value)} {body : List Node} (hc : c = [])
    (hb : PostA (c ++ [.ComponentDefinition], b, d) body a4) :
    PostA (c, b, d) [] (a4.1.dropLast, a4.2.1, a4.2.2 ++ [⟨name, kw, rest, md, body⟩]) := by
  subst hc
  obtain ⟨c1, b1, n1, l1, d1, e1⟩ := hb
  have hn : Node.blockNamesList body = [] := n1 (by simp [noBlk, BodyContext.canContainBlocks])
  have hl : Node.legalList false body := by simpa [walk, loopWalk] using l1
  refine ⟨by simp [c1], ?_, fun _ => rfl, trivial, d1, ?_⟩
  · simpa [hn, Node.blockNamesList] using b1
  · intro h x hx
    rcases List.mem_append.1 hx with hx | hx
    · exact e1 h x hx
    · simp at hx; subst hx
      exact ⟨hl, hn⟩

/-! ### weakest preconditions -/

def TW (x : T α) (s : TState) (Q : α → TState → Prop) : Prop :=
  match x s with | .ok a s' => Q a s' | _ => True

theorem TW_def (x : T α) (s : TState) (Q : α → TState → Prop) :
    TW x s Q ↔ (match x s with | .ok a s' => Q a s' | _ => True) := Iff.rfl

theorem TW.bind {x : T α} {f : α → T β} {s : TState} {Q : β → TState → Prop}
    (h : TW x s (fun a s1 => TW (f a) s1 Q)) : TW (x >>= f) s Q := by
  show match T.bind x f s with | .ok a s' => Q a s' | _ => True
  unfold T.bind
  unfold TW at h
  cases hx : x s with
  | ok a s1 => rw [hx] at h; exact h
  | err => trivial
  | panic m => trivial
  | fuel => trivial

theorem TW.mono {x : T α} {s : TState} {Q Q' : α → TState → Prop}
    (h : TW x s Q) (hq : ∀ a s', Q a s' → Q' a s') : TW x s Q' := by
  unfold TW at *
  cases hx : x s with
  | ok a s1 => rw [hx] at h; exact hq _ _ h
  | err => trivial
  | panic m => trivial
  | fuel => trivial

theorem TW.pure {a : α} {s : TState} {Q : α → TState → Prop} (h : Q a s) :
    TW (Pure.pure a : T α) s Q := h
theorem TW.err {s : TState} {Q : α → TState → Prop} : TW (T.err : T α) s Q := trivial
theorem TW.fuel {s : TState} {Q : α → TState → Prop} : TW (T.fuel : T α) s Q := trivial
theorem TW.panic {m : String} {s : TState} {Q : α → TState → Prop} : TW (T.panic m : T α) s Q := trivial

theorem TW.lift (x : P α) {s : TState} {Q : α → TState → Prop}
    (h : ∀ a p', Q a { s with p := p' }) : TW (TParser.lift x) s Q := by
  unfold TW TParser.lift
  cases x s.p <;> simp [h]

/-- `lift` with a fact about the value -/
theorem TW.liftV {x : P α} {V : α → Prop} (hx : PW x V) {s : TState} {Q : α → TState → Prop}
    (h : ∀ a p', V a → Q a { s with p := p' }) : TW (TParser.lift x) s Q := by
  unfold TW TParser.lift
  cases hr : x s.p with
  | ok a p' => exact h a p' (hx.elim hr)
  | err => trivial
  | panic m => trivial
  | fuel => trivial

theorem TW.expr {ex : Bool → Nat → P Expr} (hex : ∀ il m, PW (ex il m) Closed) (m : Nat)
    {s : TState} {Q : Expr → TState → Prop}
    (h : ∀ e p', Closed e → Q e { s with p := p' }) : TW (TParser.expr ex m) s Q := by
  unfold TParser.expr
  exact TW.liftV (hex _ _) h

theorem TW.exprV_swap {ex : Bool → Nat → P Expr} {V : Expr → Prop} {m : Nat}
    {s : TState} {Q : Expr → TState → Prop}
    (h : ∀ e p', V e → Q e { s with p := p' }) (hex : ∀ il m, PW (ex il m) V) :
    TW (TParser.expr ex m) s Q := by
  unfold TParser.expr
  exact TW.liftV (hex _ _) h

theorem TW.getState {s : TState} {Q : TState → TState → Prop} (h : Q s s) : TW getState s Q := h
theorem TW.modify (f : TState → TState) {s : TState} {Q : Unit → TState → Prop} (h : Q () (f s)) :
    TW (modify f) s Q := h
theorem TW.pushCtx (k : BodyContext) {s : TState} {Q : Unit → TState → Prop}
    (h : Q () { s with bodyContexts := s.bodyContexts ++ [k] }) : TW (pushCtx k) s Q := h
theorem TW.popCtx {s : TState} {Q : Unit → TState → Prop}
    (h : Q () { s with bodyContexts := s.bodyContexts.dropLast }) : TW popCtx s Q := h

theorem TW.ite {c : Prop} [Decidable c] {a b : T α} {s : TState} {Q : α → TState → Prop}
    (ha : c → TW a s Q) (hb : ¬ c → TW b s Q) : TW (if c then a else b) s Q := by
  split
  · exact ha ‹_›
  · exact hb ‹_›

/-- continuation-passing form of a specification, the form `twtac` applies -/
theorem TW.cps {x : T α} {s : TState} {R : α → TState → Prop} (h : TW x s R)
    (Q : α → TState → Prop) (hq : ∀ a s', R a s' → Q a s') : TW x s Q := TW.mono h hq

theorem TW.of_eq {x : T α} {s : TState} {a : α} {s' : TState} {Q : α → TState → Prop}
    (h : x s = .ok a s') (hw : TW x s Q) : Q a s' := by
  unfold TW at hw; rw [h] at hw; exact hw

attribute [irreducible] TW

/-- drives a `do` block down to its `pure`s; what is left are the postconditions -/
macro "twtac" : tactic => `(tactic|
  repeat' (first
    | (show TW _ _ _; dsimp only)
    | with_reducible exact TW.err
    | with_reducible exact TW.fuel
    | with_reducible exact TW.panic
    | (with_reducible apply_assumption -exfalso; intro _ _ _)
    | with_reducible refine TW.bind ?_
    | with_reducible refine TW.pure ?_
    | with_reducible refine TW.pushCtx _ ?_
    | with_reducible refine TW.popCtx ?_
    | with_reducible refine TW.getState ?_
    | with_reducible refine TW.modify _ ?_
    | (with_reducible refine TW.expr ?_ _ (fun _ _ _ => ?_); focus (with_reducible assumption))
    | with_reducible refine TW.lift _ (fun _ _ => ?_)
    | with_reducible refine TW.ite (fun _ => ?_) (fun _ => ?_)
    | (show TW _ _ _; split)))

section level
variable {C : Bool → Cfg} {recU : EndCheck → T (List Node)} {ex : Bool → Nat → P Expr}
variable (Hex : ∀ il m, PW (ex il m) Closed)
variable (HU : ∀ ec s, TW (recU ec) s (fun nodes s' => Post s nodes s'))
include Hex HU

theorem TW.parseIf : ∀ n s, TW (parseIf recU ex n) s
    (fun r s' => Post s [.if r.1 r.2.1 r.2.2] s') := by
  intro n
  induction n with
  | zero => intro s; exact TW.fuel
  | succ n ih =>
    intro s
    have hrec := fun ec s => TW.cps (HU ec s)
    have ih' := fun s => TW.cps (ih s)
    unfold TParser.parseIf
    twtac
    · exact PostA.if_ (by assumption) (by assumption)
    · exact PostA.if_ (by assumption) (by assumption)
    · exact PostA.if_ (by assumption) (PostA.nil _)

theorem TW.parseForLoop (s : TState) : TW (parseForLoop recU ex) s (fun nd s' => Post s [nd] s') := by
  have hrec := fun ec s => TW.cps (HU ec s)
  unfold TParser.parseForLoop
  twtac
  all_goals first
    | exact PostA.for_ (by assumption) (by assumption)
    | exact PostA.for_ (by assumption) (PostA.nil _)

theorem TW.parseSet (g : Bool) (s : TState) : TW (parseSet recU ex g) s (fun nd s' => Post s [nd] s') := by
  have hrec := fun ec s => TW.cps (HU ec s)
  unfold TParser.parseSet
  twtac
  · refine PostA.leaf ?_ ?_ <;> simp [Node.blockNames, Node.legal]
  all_goals
    refine PostA.capture (by assumption) ?_ (fun il h => ?_)
    · simp [Node.blockNames]
    · simpa [Node.legal] using h

omit Hex in
theorem TW.parseComponentWithBody (s : TState) :
    TW (parseComponentWithBody recU ex) s (fun e s' => Post s [.expression e] s') := by
  have hrec := fun ec s => TW.cps (HU ec s)
  unfold TParser.parseComponentWithBody
  twtac
  all_goals
    refine PostA.capture (by assumption) ?_ (fun il h => ?_)
    · simp [Node.blockNames]
    · simpa [Node.legal] using h

omit Hex in
/-- what `parse_component_definition` leaves: the state as `parse_tag` records the definition -/
theorem TW.parseComponentDefinition (s : TState) :
    TW (parseComponentDefinition C recU ex) s
      (fun df s' => Post s [] { s' with componentDefinitions := s'.componentDefinitions ++ [df] }) := by
  have hrec := fun ec s => TW.cps (HU ec s)
  unfold TParser.parseComponentDefinition
  twtac
  all_goals
    have hc : s.bodyContexts = [] := by simpa using ‹¬ (!s.bodyContexts.isEmpty) = true›
    exact PostA.compdef hc (by assumption)

theorem TW.parseTag (isFirst : Bool) (s : TState) :
    TW (parseTag C recU ex isFirst) s (fun on s' => Post s on.toList s') := by
  have hrec := fun ec s => TW.cps (HU ec s)
  have h1 := fun g s => TW.cps (TW.parseSet Hex HU g s)
  have h2 := fun s => TW.cps (TW.parseForLoop Hex HU s)
  have h3 := fun n s => TW.cps (TW.parseIf Hex HU n s)
  have h4 := fun s => TW.cps (TW.parseComponentDefinition (C := C) (ex := ex) HU s)
  have h5 := fun s => TW.cps (TW.parseComponentWithBody (ex := ex) HU s)
  unfold TParser.parseTag
  twtac
  all_goals first
    | assumption
    | exact PostA.nil _
    | (refine PostA.capture (by assumption) ?_ (fun il h => ?_)
       · simp [Node.blockNames]
       · simpa [Node.legal] using h)
    | (refine PostA.leaf ?_ ?_ <;> simp_all [Node.blockNames, Node.legal, walk]; done)
    | (refine PostA.block ?_ ?_ (by assumption)
       · simpa [noBlk] using ‹¬ (s.bodyContexts.any fun b => !b.canContainBlocks) = true›
       · simpa using ‹¬ s.blocksSeen.contains _ = true›)
    | (have hw : walk s.bodyContexts = true := by simp [walk, ‹loopWalk s.bodyContexts.reverse = some true›]
       refine PostA.leaf (a := abs s) ?_ ?_
       · simp [Node.blockNames]
       · simpa [Node.legal, abs] using hw)

/-- the loop of `parse_until_inner`: what it adds to `nodes` -/
theorem TW.untilLoop (ec : EndCheck) : ∀ n nodes s, TW (untilLoop C recU ex ec n nodes) s
    (fun r s' => ∃ more, r = nodes ++ more ∧ Post s more s') := by
  have htag := fun f s => TW.cps (TW.parseTag (C := C) Hex HU f s)
  intro n
  induction n with
  | zero => intro nodes s; exact TW.fuel
  | succ n ih =>
    intro nodes s
    have ih' := fun nodes s => TW.cps (ih nodes s)
    obtain ⟨⟨ts, a, b⟩, c1, c2, c3, c4, c5⟩ := s
    rw [TW_def]
    unfold TParser.untilLoop
    cases ts with
    | nil => exact ⟨[], by simp, PostA.nil _⟩
    | cons tok rest =>
      cases tok
      case error => trivial
      case content c =>
        dsimp only
        rw [← TW_def]
        refine TW.mono (ih _ _) (fun r s' h => ?_)
        obtain ⟨more, rfl, hp⟩ := h
        split
        · exact ⟨more, rfl, hp⟩
        · refine ⟨.content c :: more, by simp, ?_⟩
          exact PostA.trans (x := [.content c]) (PostA.leaf (by simp [Node.blockNames]) (by simp [Node.legal])) hp
      case variableStart w =>
        dsimp only
        rw [← TW_def]
        twtac
        rename_i e _ hcl _ _ r s' h
        obtain ⟨more, rfl, hp⟩ := h
        refine ⟨.expression e :: more, by simp, ?_⟩
        exact PostA.trans (x := [.expression e])
          (PostA.leaf (Node.blockNames_expression e hcl) (Node.legal_expression _ e hcl)) hp
      case tagStart w =>
        dsimp only
        split
        · rename_i r s' heq
          split at heq
          · cases heq
          · cases heq
          · split at heq
            · cases heq; exact ⟨[], by simp, PostA.nil _⟩
            · rename_i t tail _ hne
              refine TW.of_eq (Q := fun r s' => ∃ more, r = nodes ++ more ∧
                Post ⟨⟨.tagStart w :: t :: tail, a, b⟩, c1, c2, c3, c4, c5⟩ more s') heq ?_
              twtac
              rename_i node s1 hp1 _ _ r2 s2 h2
              obtain ⟨more, rfl, hp2⟩ := h2
              refine ⟨node.toList ++ more, by cases node <;> simp, ?_⟩
              exact PostA.trans hp1 hp2
        all_goals trivial
      all_goals trivial

end level

/-- `parse_until`: the nodes of one nesting level -/
theorem TW.parseUntil : ∀ r ec s, TW (parseUntil r ec) s (fun nodes s' => Post s nodes s') := by
  intro r
  induction r with
  | zero => intro ec s; exact TW.err
  | succ r ih =>
    intro ec s
    unfold TParser.parseUntil
    refine TW.bind (TW.lift _ (fun n p' => ?_))
    refine TW.mono (TW.untilLoop (fun il m => PW.innerParseExpression _ _ _) ih ec n [] _) ?_
    intro nodes s' ⟨more, h, hp⟩
    simp at h; subst h
    exact hp

/-- what an accepted template satisfies -/
theorem parse_post (maxDepth : Nat) (toks : List Tok) (t : Template) (s : TState)
    (h : parse maxDepth toks = .ok t s) :
    Node.legalList false t.nodes
    ∧ s.blocksSeen = (Node.blockNamesList t.nodes).reverse
    ∧ (Node.blockNamesList t.nodes).Nodup
    ∧ DefsOK t.componentDefinitions := by
  unfold parse at h
  simp only [] at h
  split at h <;> try cases h
  rename_i _ nodes heq
  have := TW.of_eq heq (TW.parseUntil maxDepth .never _)
  obtain ⟨_, b1, _, l1, d1, e1⟩ := this
  simp only [abs] at b1 l1 d1 e1
  refine ⟨by simpa [walk, loopWalk] using l1, by simpa using b1, ?_, e1 (by intro d hd; cases hd)⟩
  have := d1 List.nodup_nil
  rw [b1] at this
  have h2 : (Node.blockNamesList nodes).reverse.Nodup := by simpa using this
  exact (List.pairwise_reverse.1 h2).imp (fun h => Ne.symm h)

/-! ### the exact rules of `parse_tag` for `break`, `continue`, `extends` -/

section rules
variable (C : Bool → Cfg) (recU : EndCheck → T (List Node)) (ex : Bool → Nat → P Expr)

/-- `{% break %}`: accepted exactly when the walk finds a `for` body before any capture -/
theorem parseTag_break (f : Bool) (s : TState) (rest : List Tok)
    (hs : s.p.toks = .ident "break" :: rest) :
    parseTag C recU ex f s =
      if walk s.bodyContexts then .ok (some .break) { s with p := { s.p with toks := rest } }
      else .err := by
  obtain ⟨⟨ts, a, b⟩, c1, c2, c3, c4, c5⟩ := s
  simp only [] at hs; subst hs
  unfold TParser.parseTag walk
  simp only [tbind_def, T.bind_apply, TParser.lift, nextOrError, getState]
  cases h : loopWalk c1.reverse with
  | none => simp [T.err]
  | some v => cases v <;> simp [T.err, tpure_apply]

theorem parseTag_continue (f : Bool) (s : TState) (rest : List Tok)
    (hs : s.p.toks = .ident "continue" :: rest) :
    parseTag C recU ex f s =
      if walk s.bodyContexts then .ok (some .continue) { s with p := { s.p with toks := rest } }
      else .err := by
  obtain ⟨⟨ts, a, b⟩, c1, c2, c3, c4, c5⟩ := s
  simp only [] at hs; subst hs
  unfold TParser.parseTag walk
  simp only [tbind_def, T.bind_apply, TParser.lift, nextOrError, getState]
  cases h : loopWalk c1.reverse with
  | none => simp [T.err]
  | some v => cases v <;> simp [T.err, tpure_apply]

/-- `{% extends "name" %}`: accepted exactly when no parent is set yet, nothing but whitespace
content precedes it IN THE CURRENT NODE LIST (`is_first_node`) and the body-context stack is
empty; it then sets the parent and leaves no node -/
theorem parseTag_extends (f : Bool) (s : TState) (name : String) (rest : List Tok)
    (hs : s.p.toks = .ident "extends" :: .str name :: rest) :
    parseTag C recU ex f s =
      if s.parent = none ∧ f = true ∧ s.bodyContexts = [] then
        .ok none { s with p := { s.p with toks := rest }, parent := some name }
      else .err := by
  obtain ⟨⟨ts, a, b⟩, c1, c2, c3, c4, c5⟩ := s
  simp only [] at hs; subst hs
  unfold TParser.parseTag
  simp only [tbind_def, T.bind_apply, TParser.lift, nextOrError, getState]
  cases c4 <;> cases f <;> cases c1 <;> simp [T.err, T.bind_apply, TParser.modify] <;> rfl

end rules

end Tera.TParser
