/-
T4: the compiler model is deterministic up to the iteration order of kwargs maps.  The order in
which `compile_kwargs` visits a `HashMap<String, Expression>` is a parameter of the model (the order
of the kwargs list in the AST).  `reorder σ` applies an arbitrary reordering `σ` (a permutation of
its argument) to EVERY kwargs list of a tree, at every depth.
-/
import TeraModel.Lemmas.CompilerEvents
namespace Tera.Compiler

/-! ### The length of the emitted code does not depend on where it is emitted -/

def LbM1 (e : Expr) : Prop :=
  ∀ b loop b' loop', loop.isSome = loop'.isSome →
    (exprCode b loop e).length = (exprCode b' loop' e).length
def LbM2 (ns : List Node) : Prop :=
  ∀ b loop b' loop', loop.isSome = loop'.isSome →
    (nodesCode b loop ns).length = (nodesCode b' loop' ns).length
def LbM3 (n : Node) : Prop :=
  ∀ b loop b' loop', loop.isSome = loop'.isSome →
    (nodeCode b loop n).length = (nodeCode b' loop' n).length
def LbM4 (k : List (String × Expr)) : Prop :=
  ∀ b loop b' loop', loop.isSome = loop'.isSome →
    (kwargsCode b loop k).length = (kwargsCode b' loop' k).length
def LbM5 (f : List Expr) : Prop :=
  ∀ b loop b' loop', loop.isSome = loop'.isSome →
    (filtersCode b loop f).length = (filtersCode b' loop' f).length
def LbM6 (o : Option Expr) : Prop :=
  ∀ b loop b' loop', loop.isSome = loop'.isSome →
    (condCode b loop o).length = (condCode b' loop' o).length
def LbM7 (o : Option Expr) : Prop :=
  ∀ b loop b' loop' d d', loop.isSome = loop'.isSome →
    (optExprCode b loop d o).length = (optExprCode b' loop' d' o).length
def LbM8 (a : List ArrayEntry) : Prop :=
  ∀ b loop b' loop', loop.isSome = loop'.isSome →
    (arrayItemsCode b loop a).length = (arrayItemsCode b' loop' a).length
def LbM9 (m : List MapEntry) : Prop :=
  ∀ b loop b' loop', loop.isSome = loop'.isSome →
    (mapItemsCode b loop m).length = (mapItemsCode b' loop' m).length

theorem len_base_aux :
    (∀ (_ : Nat) (_ : Option Nat) e, LbM1 e) ∧
    (∀ (_ : Nat) (_ : Option Nat) ns, LbM2 ns) ∧
    (∀ (_ : Nat) (_ : Option Nat) n, LbM3 n) ∧
    (∀ (_ : Nat) (_ : Option Nat) k, LbM4 k) ∧
    (∀ (_ : Nat) (_ : Option Nat) f, LbM5 f) ∧
    (∀ (_ : Nat) (_ : Option Nat) o, LbM6 o) ∧
    (∀ (_ : Nat) (_ : Option Nat) (_ : CInstr) o, LbM7 o) ∧
    (∀ (_ : Nat) (_ : Option Nat) a, LbM8 a) ∧
    (∀ (_ : Nat) (_ : Option Nat) m, LbM9 m) := by
  apply exprCode.mutual_induct
    (motive_1 := fun _ _ e => LbM1 e)
    (motive_2 := fun _ _ ns => LbM2 ns)
    (motive_3 := fun _ _ n => LbM3 n)
    (motive_4 := fun _ _ k => LbM4 k)
    (motive_5 := fun _ _ f => LbM5 f)
    (motive_6 := fun _ _ o => LbM6 o)
    (motive_7 := fun _ _ _ o => LbM7 o)
    (motive_8 := fun _ _ a => LbM8 a)
    (motive_9 := fun _ _ m => LbM9 m)
  all_goals intros
  all_goals simp only [LbM1, LbM2, LbM3, LbM4, LbM5, LbM6, LbM7, LbM8, LbM9] at *
  all_goals intros
  all_goals simp only [exprCode, nodesCode, nodeCode, kwargsCode, filtersCode, condCode, optExprCode,
    arrayItemsCode, mapItemsCode] at *
  all_goals (try (simp (config := { zetaDelta := true }) only [List.length_append, List.length_cons,
    List.length_nil]; done))
  all_goals (try split)
  all_goals (try split)
  all_goals (try split)
  all_goals (try split)
  all_goals (try (simp (config := { zetaDelta := true }) only [List.length_append, List.length_cons,
    List.length_nil] at *))
  all_goals (try grind)

theorem len_base_expr (e : Expr) (b b' : Nat) (loop : Option Nat) :
    (exprCode b loop e).length = (exprCode b' loop e).length :=
  len_base_aux.1 0 none e b loop b' loop rfl

/-- the kwargs loop emits, per kwarg, one `LoadConst` and the value's code: a sum over the list -/
theorem kwargs_len_sum (k : List (String × Expr)) (b : Nat) (loop : Option Nat) :
    (kwargsCode b loop k).length = (k.map fun p => 1 + (exprCode 0 loop p.2).length).sum := by
  induction k generalizing b with
  | nil => simp [kwargsCode]
  | cons x xs ih =>
    obtain ⟨n, v⟩ := x
    simp only [kwargsCode, List.length_append, List.length_cons, List.length_nil, List.map_cons,
      List.sum_cons, ih]
    rw [len_base_expr v (b + 1) 0 loop]

theorem kwargs_len_perm {k1 k2 : List (String × Expr)} (h : k1.Perm k2) (b b' : Nat)
    (loop : Option Nat) : (kwargsCode b loop k1).length = (kwargsCode b' loop k2).length := by
  rw [kwargs_len_sum, kwargs_len_sum]
  exact (h.map _).sum_nat

/-! ### Reordering every kwargs map of a tree -/

abbrev Kw := List (String × Expr)

mutual
def reExpr (σ : Kw → Kw) : Expr → Expr
  | .const v => .const v
  | .map entries => .map (reMap σ entries)
  | .array items => .array (reArray σ items)
  | .var n => .var n
  | .getAttr e n o => .getAttr (reExpr σ e) n o
  | .getItem e s o => .getItem (reExpr σ e) (reExpr σ s) o
  | .slice e a b c o => .slice (reExpr σ e) (reOpt σ a) (reOpt σ b) (reOpt σ c) o
  | .filter e n k => .filter (reExpr σ e) n (σ (reKwargs σ k))
  | .test e n k => .test (reExpr σ e) n (σ (reKwargs σ k))
  | .ternary c t f => .ternary (reExpr σ c) (reExpr σ t) (reExpr σ f)
  | .listComprehension e k v t c => .listComprehension (reExpr σ e) k v (reExpr σ t) (reOpt σ c)
  | .componentCall n k b sc => .componentCall n (reMap σ k) (reNodes σ b) sc
  | .functionCall n k => .functionCall n (σ (reKwargs σ k))
  | .unary op e => .unary op (reExpr σ e)
  | .binary op l r => .binary op (reExpr σ l) (reExpr σ r)
def reOpt (σ : Kw → Kw) : Option Expr → Option Expr
  | some e => some (reExpr σ e)
  | none => none
/-- the values of a kwargs map, in place (the caller applies `σ` to the result) -/
def reKwargs (σ : Kw → Kw) : Kw → Kw
  | [] => []
  | (n, v) :: rest => (n, reExpr σ v) :: reKwargs σ rest
def reArray (σ : Kw → Kw) : List ArrayEntry → List ArrayEntry
  | [] => []
  | .item e :: rest => .item (reExpr σ e) :: reArray σ rest
  | .spread e :: rest => .spread (reExpr σ e) :: reArray σ rest
def reMap (σ : Kw → Kw) : List MapEntry → List MapEntry
  | [] => []
  | .keyValue k v :: rest => .keyValue k (reExpr σ v) :: reMap σ rest
  | .spread e :: rest => .spread (reExpr σ e) :: reMap σ rest
def reFilters (σ : Kw → Kw) : List Expr → List Expr
  | [] => []
  | e :: rest => reExpr σ e :: reFilters σ rest
def reNode (σ : Kw → Kw) : Node → Node
  | .content t => .content t
  | .expression e => .expression (reExpr σ e)
  | .set n v g => .set n (reExpr σ v) g
  | .blockSet n fs body g => .blockSet n (reFilters σ fs) (reNodes σ body) g
  | .include n => .include n
  | .block n body => .block n (reNodes σ body)
  | .forLoop k v t body els => .forLoop k v (reExpr σ t) (reNodes σ body) (reNodes σ els)
  | .break => .break
  | .continue => .continue
  | .if c body els => .if (reExpr σ c) (reNodes σ body) (reNodes σ els)
  | .filterSection n k body => .filterSection n (σ (reKwargs σ k)) (reNodes σ body)
def reNodes (σ : Kw → Kw) : List Node → List Node
  | [] => []
  | n :: rest => reNode σ n :: reNodes σ rest
end

theorem len_base_nodes (ns : List Node) (b b' : Nat) (loop loop' : Option Nat)
    (h : loop.isSome = loop'.isSome) : (nodesCode b loop ns).length = (nodesCode b' loop' ns).length :=
  len_base_aux.2.1 0 none ns b loop b' loop' h
theorem len_base_kwargs (k : Kw) (b b' : Nat) (loop : Option Nat) :
    (kwargsCode b loop k).length = (kwargsCode b' loop k).length :=
  len_base_aux.2.2.2.1 0 none k b loop b' loop rfl
theorem len_base_filters (f : List Expr) (b b' : Nat) (loop : Option Nat) :
    (filtersCode b loop f).length = (filtersCode b' loop f).length :=
  len_base_aux.2.2.2.2.1 0 none f b loop b' loop rfl
theorem len_base_cond (o : Option Expr) (b b' : Nat) (loop : Option Nat) :
    (condCode b loop o).length = (condCode b' loop o).length :=
  len_base_aux.2.2.2.2.2.1 0 none o b loop b' loop rfl
theorem len_base_opt (o : Option Expr) (b b' : Nat) (loop : Option Nat) (d d' : CInstr) :
    (optExprCode b loop d o).length = (optExprCode b' loop d' o).length :=
  len_base_aux.2.2.2.2.2.2.1 0 none d o b loop b' loop d d' rfl
theorem len_base_array (a : List ArrayEntry) (b b' : Nat) (loop : Option Nat) :
    (arrayItemsCode b loop a).length = (arrayItemsCode b' loop a).length :=
  len_base_aux.2.2.2.2.2.2.2.1 0 none a b loop b' loop rfl
theorem len_base_map (m : List MapEntry) (b b' : Nat) (loop : Option Nat) :
    (mapItemsCode b loop m).length = (mapItemsCode b' loop m).length :=
  len_base_aux.2.2.2.2.2.2.2.2 0 none m b loop b' loop rfl

theorem reNodes_isEmpty (σ : Kw → Kw) (ns : List Node) : (reNodes σ ns).isEmpty = ns.isEmpty := by
  cases ns <;> simp [reNodes]

theorem filters_len_cons (x : Expr) (xs : List Expr) (b : Nat) (loop : Option Nat) :
    (filtersCode b loop (x :: xs)).length
      = (filtersCode b loop [x]).length + (filtersCode 0 loop xs).length := by
  cases x <;> simp only [filtersCode, List.length_append, List.length_cons, List.length_nil,
    List.append_nil] <;>
    first
    | (rw [len_base_filters xs _ 0 loop]; omega)
    | (rw [len_base_filters xs _ 0 loop])

/-! ### T4a: the size of every chunk does not depend on the kwarg order -/

section
variable (σ : Kw → Kw) (hσ : ∀ l, (σ l).Perm l)
include hσ

theorem re_len_aux :
    (∀ e, (∀ b loop, (exprCode b loop (reExpr σ e)).length = (exprCode b loop e).length) ∧
          (∀ b loop, (filtersCode b loop [reExpr σ e]).length = (filtersCode b loop [e]).length)) ∧
    (∀ ns, ∀ b loop, (nodesCode b loop (reNodes σ ns)).length = (nodesCode b loop ns).length) ∧
    (∀ n, ∀ b loop, (nodeCode b loop (reNode σ n)).length = (nodeCode b loop n).length) ∧
    (∀ k, ∀ b loop, (kwargsCode b loop (reKwargs σ k)).length = (kwargsCode b loop k).length) ∧
    (∀ f, ∀ b loop, (filtersCode b loop (reFilters σ f)).length = (filtersCode b loop f).length) ∧
    (∀ o, (∀ b loop d, (optExprCode b loop d (reOpt σ o)).length = (optExprCode b loop d o).length) ∧
          (∀ b loop, (condCode b loop (reOpt σ o)).length = (condCode b loop o).length) ∧
          ((reOpt σ o).isSome = o.isSome)) ∧
    (∀ a, (∀ b loop, (arrayItemsCode b loop (reArray σ a)).length = (arrayItemsCode b loop a).length)) ∧
    (∀ m, (∀ b loop, (mapItemsCode b loop (reMap σ m)).length = (mapItemsCode b loop m).length)) := by
  apply reExpr.mutual_induct
    (motive_1 := fun e => (∀ b loop, (exprCode b loop (reExpr σ e)).length = (exprCode b loop e).length) ∧
          (∀ b loop, (filtersCode b loop [reExpr σ e]).length = (filtersCode b loop [e]).length))
    (motive_2 := fun ns => ∀ b loop, (nodesCode b loop (reNodes σ ns)).length = (nodesCode b loop ns).length)
    (motive_3 := fun n => ∀ b loop, (nodeCode b loop (reNode σ n)).length = (nodeCode b loop n).length)
    (motive_4 := fun k => ∀ b loop, (kwargsCode b loop (reKwargs σ k)).length = (kwargsCode b loop k).length)
    (motive_5 := fun f => ∀ b loop, (filtersCode b loop (reFilters σ f)).length = (filtersCode b loop f).length)
    (motive_6 := fun o => (∀ b loop d, (optExprCode b loop d (reOpt σ o)).length = (optExprCode b loop d o).length) ∧
          (∀ b loop, (condCode b loop (reOpt σ o)).length = (condCode b loop o).length) ∧
          ((reOpt σ o).isSome = o.isSome))
    (motive_7 := fun a => ∀ b loop, (arrayItemsCode b loop (reArray σ a)).length = (arrayItemsCode b loop a).length)
    (motive_8 := fun m => ∀ b loop, (mapItemsCode b loop (reMap σ m)).length = (mapItemsCode b loop m).length)
  all_goals intros
  all_goals (try simp only [reExpr, reNodes, reNode, reKwargs, reFilters, reOpt, reArray, reMap] at *)
  all_goals (try (refine ⟨?_, ?_⟩))
  all_goals intros
  all_goals (try simp only [exprCode, nodesCode, nodeCode, kwargsCode, filtersCode, condCode, optExprCode,
    arrayItemsCode, mapItemsCode] at *)
  all_goals (try split)
  all_goals (try split)
  all_goals (try split)
  all_goals (try (simp (config := { zetaDelta := true }) only [List.length_append, List.length_cons,
    List.length_nil] at *))
  all_goals (try grind [len_base_expr, len_base_nodes, len_base_kwargs, len_base_filters, len_base_cond,
    len_base_opt, len_base_array, len_base_map, kwargs_len_perm, reNodes_isEmpty])
  case case40 e rest ih1 ih2 b loop =>
    rw [filters_len_cons (reExpr σ e), filters_len_cons e, ih1.2, ih2 0 loop]
end

end Tera.Compiler
